/- The byte-count table behind the C15 pollable invariant: for every combination of
   (mutator position, position of the getfd thread that won the CAS, flag value) the interval in
   which the byte count of the installed pipe lies.  The table is the exact set of reachable
   combinations (found by exhaustive exploration, then proved inductive here, step by step). -/
import NngModel.Model.Pollable
namespace Nng.Pollable

/-- where the mutator is, as far as the table cares -/
inductive MTag
  | idle   -- between calls
  | rai    -- inside raise, after the swap false->true (before or after loading p_fds)
  | clr    -- inside clear, after the swap true->false
  deriving DecidableEq, Repr

def MPc.tag : MPc → MTag
  | .idle => .idle
  | .raiseLoad => .rai
  | .raiseWrite _ => .rai
  | .clearLoad => .clr
  | .clearDrain _ => .clr

/-- phase of the getfd call that installs the pipe -/
inductive WPh
  | pre              -- no pipe installed yet
  | ld               -- CAS done, about to load the flag
  | act (r : Bool)   -- flag read as r, about to write (r) / drain (!r)
  | chk (r : Bool)   -- (fixed) about to re-read the flag
  | fin              -- returned
  deriving DecidableEq, Repr

def GPc.phase : GPc → Option WPh
  | .ld _ => some .ld
  | .act _ r => some (.act r)
  | .chk _ r => some (.chk r)
  | _ => none

/-- interval [lo, hi] of the installed pipe's byte count; `none` = combination unreachable -/
def range : Bool → MTag → WPh → Bool → Option (Nat × Nat)
  -- repaired code
  | true, .clr, .pre, false => some (0, 0)
  | true, .clr, .ld, false => some (0, 3)
  | true, .clr, .act false, false => some (0, 3)
  | true, .clr, .act true, false => some (0, 2)
  | true, .clr, .chk false, false => some (0, 1)
  | true, .clr, .chk true, false => some (1, 3)
  | true, .clr, .fin, false => some (0, 3)
  | true, .idle, .pre, _ => some (0, 0)
  | true, .idle, .ld, false => some (0, 1)
  | true, .idle, .ld, true => some (0, 2)
  | true, .idle, .act false, false => some (0, 1)
  | true, .idle, .act false, true => some (1, 2)
  | true, .idle, .act true, false => some (0, 0)
  | true, .idle, .act true, true => some (0, 2)
  | true, .idle, .chk false, false => some (0, 0)
  | true, .idle, .chk false, true => some (0, 1)
  | true, .idle, .chk true, false => some (0, 1)
  | true, .idle, .chk true, true => some (1, 3)
  | true, .idle, .fin, false => some (0, 0)
  | true, .idle, .fin, true => some (1, 3)
  | true, .rai, .pre, true => some (0, 0)
  | true, .rai, .ld, true => some (0, 1)
  | true, .rai, .act false, true => some (0, 1)
  | true, .rai, .act true, true => some (0, 1)
  | true, .rai, .chk false, true => some (0, 0)
  | true, .rai, .chk true, true => some (0, 2)
  | true, .rai, .fin, true => some (0, 2)
  -- pollable.c as it is in the pinned tree
  | false, .clr, .pre, false => some (0, 0)
  | false, .clr, .ld, false => some (0, 1)
  | false, .clr, .act true, false => some (0, 1)
  | false, .clr, .fin, false => some (0, 2)
  | false, .idle, .pre, _ => some (0, 0)
  | false, .idle, .ld, false => some (0, 0)
  | false, .idle, .ld, true => some (0, 1)
  | false, .idle, .act true, false => some (0, 0)
  | false, .idle, .act true, true => some (0, 1)
  | false, .idle, .fin, false => some (0, 1)
  | false, .idle, .fin, true => some (1, 2)
  | false, .rai, .pre, true => some (0, 0)
  | false, .rai, .ld, true => some (0, 0)
  | false, .rai, .act true, true => some (0, 0)
  | false, .rai, .fin, true => some (0, 1)
  | _, _, _, _ => none

def allowed (fixed : Bool) (M : MTag) (W : WPh) (R : Bool) (B : Nat) : Prop :=
  match range fixed M W R with
  | some (lo, hi) => lo ≤ B ∧ B ≤ hi
  | none => False

/-! ### mutator steps -/

theorem allowed_swap_raise {fixed W R B} (h : allowed fixed .idle W R B) :
    allowed fixed (if R then MTag.idle else MTag.rai) W true B := by
  cases fixed <;> cases W <;> cases R <;> simp_all [allowed, range] <;>
    (try (rename_i r; cases r <;> simp_all)) <;> omega

theorem allowed_swap_clear {fixed W R B} (h : allowed fixed .idle W R B) :
    allowed fixed (if R then MTag.clr else MTag.idle) W false B := by
  cases fixed <;> cases W <;> cases R <;> simp_all [allowed, range] <;>
    (try (rename_i r; cases r <;> simp_all)) <;> omega

/-- raise/clear found p_fds == -1: nothing to do -/
theorem allowed_load_pre {fixed M R B} (h : allowed fixed M .pre R B) : allowed fixed .idle .pre R B := by
  cases fixed <;> cases M <;> cases R <;> simp_all [allowed, range]

theorem allowed_write {fixed W R B} (h : allowed fixed .rai W R B) (hW : W ≠ .pre) :
    allowed fixed .idle W R (B + 1) := by
  cases fixed <;> cases W <;> cases R <;> simp_all [allowed, range] <;>
    (try (rename_i r; cases r <;> simp_all)) <;> omega

theorem allowed_drain {fixed W R B} (h : allowed fixed .clr W R B) (hW : W ≠ .pre) :
    allowed fixed .idle W R 0 := by
  cases fixed <;> cases W <;> cases R <;> simp_all [allowed, range] <;>
    (try (rename_i r; cases r <;> simp_all))

/-! ### steps of the getfd thread that won the CAS -/

theorem allowed_cas {fixed M R B} (h : allowed fixed M .pre R B) : allowed fixed M .ld R 0 := by
  cases fixed <;> cases M <;> cases R <;> simp_all [allowed, range]

theorem allowed_ld_true {fixed M B} (h : allowed fixed M .ld true B) : allowed fixed M (.act true) true B := by
  cases fixed <;> cases M <;> simp_all [allowed, range]

theorem allowed_ld_false_fixed {M B} (h : allowed true M .ld false B) : allowed true M (.act false) false B := by
  cases M <;> simp_all [allowed, range]

theorem allowed_ld_false_cur {M B} (h : allowed false M .ld false B) : allowed false M .fin false B := by
  cases M <;> simp_all [allowed, range] <;> omega

theorem allowed_act_write_fixed {M R B} (h : allowed true M (.act true) R B) :
    allowed true M (.chk true) R (B + 1) := by
  cases M <;> cases R <;> simp_all [allowed, range] <;> omega

theorem allowed_act_drain_fixed {M R B} (h : allowed true M (.act false) R B) :
    allowed true M (.chk false) R 0 := by
  cases M <;> cases R <;> simp_all [allowed, range]

theorem allowed_act_write_cur {M R B} (h : allowed false M (.act true) R B) :
    allowed false M .fin R (B + 1) := by
  cases M <;> cases R <;> simp_all [allowed, range] <;> omega

theorem not_allowed_act_false_cur {M R B} : ¬ allowed false M (.act false) R B := by
  cases M <;> cases R <;> simp [allowed, range]

theorem not_allowed_chk_cur {M r R B} : ¬ allowed false M (.chk r) R B := by
  cases M <;> cases R <;> cases r <;> simp [allowed, range]

theorem allowed_chk_same {fixed M r B} (h : allowed fixed M (.chk r) r B) : allowed fixed M .fin r B := by
  cases fixed <;> cases M <;> cases r <;> simp_all [allowed, range] <;> omega

theorem allowed_chk_diff {fixed M r R B} (h : allowed fixed M (.chk r) R B) (hne : R ≠ r) :
    allowed fixed M .ld R B := by
  cases fixed <;> cases M <;> cases r <;> cases R <;> simp_all [allowed, range] <;> omega

/-! ### what the table says at rest -/

theorem allowed_fin_idle_fixed {R B} (h : allowed true .idle .fin R B) : (0 < B ↔ R = true) := by
  cases R <;> simp_all [allowed, range] <;> omega

theorem allowed_fin_idle_cur {B} (h : allowed false .idle .fin true B) : 0 < B := by
  simp_all [allowed, range]; omega

theorem allowed_le {fixed M W R B} (h : allowed fixed M W R B) : B ≤ 3 := by
  cases fixed <;> cases M <;> cases W <;> cases R <;> simp_all [allowed, range] <;>
    (try (rename_i r; cases r <;> simp_all)) <;> omega

theorem allowed_cur_le {M W R B} (h : allowed false M W R B) : B ≤ 2 := by
  cases M <;> cases W <;> cases R <;> simp_all [allowed, range] <;>
    (try (rename_i r; cases r <;> simp_all)) <;> omega

end Nng.Pollable
