/-
  The fields of the REQ model's state that the relation of Proofs/ReqJudgeRel.lean reads (`mv`), and the
  fact that the relation depends on nothing else (`M.congr`).
-/
import NngModel.Proofs.ReqJudgeFrame
namespace Nng.ReqJ
open Nng Nng.Proto Nng.Req Nng.ReqSpec

structure MV where
  ctx : Nat → Ctx
  pipe : Nat → Pipe
  sendQueue : List Nat
  readyPipes : List Nat
  alias : List Nat
  body : Nat → Bytes
  now : Nat
  nalloc : Nat
  npipes : Nat
  tickAt : Option Nat
  tickNever : Bool
  opened : Bool
  gone : Bool
  sClosed : Bool
  retryTick : Int
  sockRetry : Int

def mv (s : State) : MV :=
  { ctx := s.ctx, pipe := s.pipe, sendQueue := s.sendQueue, readyPipes := s.readyPipes, alias := s.alias,
    body := fun h => (s.msgs h).body, now := s.now, nalloc := s.nalloc, npipes := s.npipes, tickAt := s.tickAt,
    tickNever := s.tickNever, opened := s.opened, gone := s.gone, sClosed := s.sClosed, retryTick := s.retryTick,
    sockRetry := s.sockRetry }

theorem MI.congr {rest : List Ev} {s s' : State} (e : mv s' = mv s) (h : MI rest s) : MI rest s' := by
  have hctx : s'.ctx = s.ctx := congrArg MV.ctx e
  have hpipe : s'.pipe = s.pipe := congrArg MV.pipe e
  have hsq : s'.sendQueue = s.sendQueue := congrArg MV.sendQueue e
  have halias : s'.alias = s.alias := congrArg MV.alias e
  have hbody : ∀ x, (s'.msgs x).body = (s.msgs x).body := fun x => congrFun (congrArg MV.body e) x
  have hnalloc : s'.nalloc = s.nalloc := congrArg MV.nalloc e
  have hlive : ∀ x, LiveH s' x → LiveH s x := by
    intro x hx; unfold LiveH at hx ⊢; rw [hctx, halias] at hx; exact hx
  constructor
  · rw [hctx]; exact h.biglive
  · rw [hctx]; exact h.dead
  · unfold aioOf; rw [hctx]; exact h.park
  · rw [hctx]; exact h.creset
  · rw [hctx]; exact h.rep
  · rw [hctx, hpipe]; exact h.onp
  · rw [hctx, halias]; exact h.wir
  · rw [hctx, hsq]; exact h.unw
  · rw [hctx]; exact h.sa
  · rw [hctx]; exact h.rid
  · rw [halias]; exact h.al_nodup
  · rw [halias, hnalloc]; exact h.al_le
  · intro x hx; rw [hbody]; exact h.fresh x (hlive x hx)
  · intro x y hx hy; rw [hbody, hbody]; exact h.inj x y (hlive x hx) (hlive y hy)
  · rw [hnalloc]; exact h.bound
  · rw [show s'.opened = s.opened from congrArg MV.opened e]; exact h.open_
  · rw [show s'.gone = s.gone from congrArg MV.gone e]; exact h.notgone
  · rw [show s'.sClosed = s.sClosed from congrArg MV.sClosed e]; exact h.notclosed

theorem G.congr {s s' : State} {j : J} (e : mv s' = mv s) (h : G s j) : G s' j := by
  have hctx : s'.ctx = s.ctx := congrArg MV.ctx e
  have hpipe : s'.pipe = s.pipe := congrArg MV.pipe e
  have halias : s'.alias = s.alias := congrArg MV.alias e
  have hbody : ∀ x, (s'.msgs x).body = (s.msgs x).body := fun x => congrFun (congrArg MV.body e) x
  have hnow : s'.now = s.now := congrArg MV.now e
  have htick : s'.tickAt = s.tickAt := congrArg MV.tickAt e
  have htn : s'.tickNever = s.tickNever := congrArg MV.tickNever e
  constructor
  · rw [hnow]; exact h.now
  · rw [show s'.readyPipes = s.readyPipes from congrArg MV.readyPipes e]; exact h.idle
  · rw [hpipe, show s'.npipes = s.npipes from congrArg MV.npipes e]; exact h.busy
  · rw [show s'.sockRetry = s.sockRetry from congrArg MV.sockRetry e]; exact h.sock
  · exact h.closed
  · intro id b; rw [h.seen id b, halias]
    constructor
    · rintro ⟨n, x, a, b, c⟩; exact ⟨n, x, a, b, by rw [hbody]; exact c⟩
    · rintro ⟨n, x, a, b, c⟩; exact ⟨n, x, a, b, by rw [← hbody]; exact c⟩
  · rw [show s'.retryTick = s.retryTick from congrArg MV.retryTick e]; exact h.tick
  · rw [hnow, htick]; exact h.tkle
  · rw [htn]; exact h.tknv
  · rw [hctx, htick, htn]; exact h.nosend
  · exact h.stab

theorem RCx.congr {s s' : State} {j : J} {k : Nat} {cj : CJ} (e : mv s' = mv s) (h : RCx s j k cj) : RCx s' j k cj := by
  have hctx : s'.ctx = s.ctx := congrArg MV.ctx e
  have hpipe : s'.pipe = s.pipe := congrArg MV.pipe e
  have halias : s'.alias = s.alias := congrArg MV.alias e
  refine h.frame (congrFun hctx k) (fun x _ => congrFun (congrArg MV.body e) x) (fun _ _ _ hi => by rw [halias]; exact hi)
    (by rw [show s'.npipes = s.npipes from congrArg MV.npipes e]; exact Nat.le_refl _) (fun q => by rw [hpipe])
    (fun q _ hc => by rw [hpipe]; exact hc) (by rw [show s'.sendQueue = s.sendQueue from congrArg MV.sendQueue e])
    (by rw [show s'.now = s.now from congrArg MV.now e]; exact Nat.le_refl _) (Or.inl (congrArg MV.tickAt e)) rfl rfl

theorem M.congr {pend : List Nat} {rest : List Ev} {s s' : State} {j : J} (e : mv s' = mv s) (h : M pend rest s j) :
    M pend rest s' j := by
  refine ⟨h.mi.congr e, h.g.congr e, fun k hk => (h.rc k hk).congr e, fun k hk => ?_⟩
  obtain ⟨cj0, a, b, c⟩ := h.rl k hk
  exact ⟨cj0, a.congr e, by rw [show s'.now = s.now from congrArg MV.now e]; exact b, c⟩

end Nng.ReqJ
