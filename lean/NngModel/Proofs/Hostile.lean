/- Lemmas for C11 (hostile peers): the C01 receive machine equals the frame grammar of the
   specification for EVERY byte string; properties of the grammar; read-request bound. -/
import NngModel.Model.Hostile
import NngModel.Spec.Hostile
import NngModel.Proofs.SpStream
import NngModel.Proofs.BacktracePair
import NngModel.Generated.Base
import NngModel.Generated.C01
namespace Nng.Hostile
open Nng Nng.Sp Nng.HostileSpec

/-- the specification's view of a transport configuration -/
def framingOf (c : Cfg) : Framing :=
  { typeByte := match c.kind with
      | .ipc => some (UInt8.ofNat Generated.c01IpcMsgType)
      | .tcp => none,
    maxValid := Generated.c01MaxStreamMsgSz, rcvmax := c.rcvmax }

/-- the error the receive path reports for a stop reason -/
def stopErr : Stop → Nat
  | .needMore => 0
  | .badType => Err.eproto
  | .tooBig => Err.emsgsize

theorem headLen_eq (c : Cfg) : (framingOf c).headLen = c.kind.headLen := by
  cases hk : c.kind <;>
    simp [framingOf, Framing.headLen, Kind.headLen, hk, Generated.c01TcpHeadLen, Generated.c01IpcHeadLen]

theorem headLen_pos (c : Cfg) : c.kind.headLen ≠ 0 := by
  cases c.kind <;> simp [Kind.headLen, Generated.c01TcpHeadLen, Generated.c01IpcHeadLen]

theorem headLen_ge8 (f : Framing) : f.headLen ≥ 8 := by simp [Framing.headLen]

theorem rxFeed_exact (c : Cfg) (s : Rx) (d : Bytes) (he : s.err = 0) (hw : s.want ≠ 0)
    (hl : d.length = s.want) : rxFeed c s d = rxRead c s d := by
  have hd : d ≠ [] := by
    intro h; subst h; simp at hl; exact hw hl.symm
  rw [rxFeed_step c s d he hd hw]
  have : min d.length s.want = d.length := by omega
  rw [this, List.take_length, List.drop_length, rxFeed_nil]

theorem rxFeed_short (c : Cfg) (s : Rx) (d : Bytes) (he : s.err = 0) (hl : d.length < s.want) :
    (rxFeed c s d).out = s.out ∧ (rxFeed c s d).err = 0 := by
  by_cases hd : d = []
  · subst hd; rw [rxFeed_nil]; exact ⟨rfl, he⟩
  · rw [rxFeed_step c s d he hd (by omega)]
    have : min d.length s.want = d.length := by omega
    rw [this, List.take_length, List.drop_length, rxFeed_nil]
    obtain ⟨e1, _, e3⟩ := rxRead_partial_err c s d hl
    exact ⟨e3, by rw [e1]; exact he⟩

/-- a completed header read is the header decision -/
theorem rxRead_idle_head (c : Cfg) (o : List Bytes) (hd : Bytes) (hl : hd.length = c.kind.headLen) :
    rxRead c (idle c o) hd = rxHeader c ⟨hd, 0, none, 0, o⟩ := by
  unfold rxRead idle
  simp [hl]

theorem fits_iff (c : Cfg) (n : Nat) :
    (framingOf c).fits n = true ↔ (sizeValid n = true ∧ ¬ (n > c.rcvmax ∧ c.rcvmax > 0)) := by
  have h1 : (framingOf c).fits n = true ↔
      (n ≤ Generated.c01MaxStreamMsgSz ∧ (c.rcvmax = 0 ∨ n ≤ c.rcvmax)) := by
    unfold Framing.fits
    rw [Bool.and_eq_true, Bool.or_eq_true, decide_eq_true_iff, decide_eq_true_iff, beq_iff_eq]
    rfl
  have h2 : sizeValid n = true ↔ n ≤ Generated.c01MaxStreamMsgSz := by simp [sizeValid]
  rw [h1, h2]
  constructor
  · rintro ⟨x, y⟩; exact ⟨x, by omega⟩
  · rintro ⟨x, y⟩; exact ⟨x, by omega⟩

theorem typeBad_iff (c : Cfg) (hd : Bytes) :
    ((framingOf c).typeByte.isSome ∧ some (hd.headD 0) ≠ (framingOf c).typeByte) ↔
      (c.kind = .ipc ∧ hd.headD 0 ≠ UInt8.ofNat Generated.c01IpcMsgType) := by
  cases hk : c.kind <;> simp [framingOf, hk]

/-- THE CORRESPONDENCE: for every byte string the receive machine started idle delivers
    exactly the frames the grammar calls deliverable, and fails exactly when (and how) the
    grammar stops on a bad frame. -/
theorem rxFeed_eq_parse (c : Cfg) (b : Bytes) (o : List Bytes) :
    (rxFeed c (idle c o) b).out = o ++ (parse (framingOf c) b).1 ∧
    (rxFeed c (idle c o) b).err = stopErr (parse (framingOf c) b).2 := by
  generalize hk : b.length = k
  induction k using Nat.strongRecOn generalizing b o with
  | ind k ih =>
    have hH := headLen_eq c
    have hpos := headLen_pos c
    rw [parse]
    by_cases hshort : b.length < (framingOf c).headLen
    · rw [if_pos hshort]
      have := rxFeed_short c (idle c o) b rfl (by simp only [idle]; omega)
      simp only [idle] at this
      simpa [stopErr, idle] using this
    · rw [if_neg hshort]
      have hlen : c.kind.headLen ≤ b.length := by omega
      have hsplit : b = b.take c.kind.headLen ++ b.drop c.kind.headLen := (List.take_append_drop _ _).symm
      have htl : (b.take c.kind.headLen).length = c.kind.headLen := by simp; omega
      have hfeed : rxFeed c (idle c o) b =
          rxFeed c (rxHeader c ⟨b.take c.kind.headLen, 0, none, 0, o⟩) (b.drop c.kind.headLen) := by
        conv => lhs; rw [hsplit]
        rw [rxFeed_append, rxFeed_exact c (idle c o) _ rfl (by simp only [idle]; exact hpos)
          (by simp only [idle]; exact htl), rxRead_idle_head c o _ htl]
      rw [hfeed, hH]
      simp only []
      by_cases hty : c.kind = .ipc ∧ (b.take c.kind.headLen).headD 0 ≠ UInt8.ofNat Generated.c01IpcMsgType
      · rw [if_pos ((typeBad_iff c _).mpr hty)]
        unfold rxHeader
        rw [if_pos hty, rxFeed_err c _ _ (by simp [rxFail, Err.eproto])]
        simp [rxFail, stopErr]
      · rw [if_neg (fun h => hty ((typeBad_iff c _).mp h))]
        unfold rxHeader
        rw [if_neg hty]
        simp only []
        generalize hL : beDecode ((b.take c.kind.headLen).drop (c.kind.headLen - 8)) = L
        by_cases hfit : (framingOf c).fits L = true
        · have hf := (fits_iff c L).mp hfit
          rw [hfit]
          simp only [Bool.not_true, Bool.false_eq_true, ↓reduceIte, hf.1]
          rw [if_neg hf.2]
          by_cases hbody : (b.drop c.kind.headLen).length < L
          · rw [if_pos hbody]
            have hL0 : L ≠ 0 := by omega
            rw [if_pos hL0]
            have := rxFeed_short c ⟨b.take c.kind.headLen, L, some [], 0, o⟩ (b.drop c.kind.headLen) rfl hbody
            simpa [stopErr] using this
          · rw [if_neg hbody]
            by_cases hL0 : L = 0
            · subst hL0
              simp only [ne_eq, not_true_eq_false, ↓reduceIte, List.take_zero, List.drop_zero]
              have := ih _ (by simp only [List.length_drop]; omega) (b.drop c.kind.headLen) (o ++ [[]]) rfl
              simp only [rxDeliver]
              simp only [idle] at this
              simpa [List.append_assoc] using this
            · rw [if_pos hL0]
              obtain ⟨p, r, hpr, hpl⟩ : ∃ p r, b.drop c.kind.headLen = p ++ r ∧ p.length = L :=
                ⟨_, _, (List.take_append_drop L _).symm, by
                  simp only [List.length_take, List.length_drop]
                  simp only [List.length_drop] at hbody
                  omega⟩
              have hrl : r.length < k := by
                have := congrArg List.length hpr
                simp only [List.length_drop, List.length_append] at this
                omega
              rw [hpr, List.take_left' hpl, List.drop_left' hpl]
              rw [rxFeed_append, rxFeed_exact c _ p rfl (by simpa using hL0) (by simpa using hpl)]
              have hb := rxRead_body c (b.take c.kind.headLen) p o
              rw [hpl] at hb
              rw [hb]
              have := ih _ hrl r (o ++ [p]) rfl
              simpa [List.append_assoc] using this
        · have hfit' : (framingOf c).fits L = false := by simpa using hfit
          rw [hfit']
          simp only [Bool.not_false, ↓reduceIte]
          have hnf := fun h => hfit ((fits_iff c L).mpr h)
          by_cases hv : sizeValid L = true
          · rw [hv]
            simp only [Bool.not_true, Bool.false_eq_true, ↓reduceIte]
            have : L > c.rcvmax ∧ c.rcvmax > 0 := by
              by_cases h : L > c.rcvmax ∧ c.rcvmax > 0
              · exact h
              · exact absurd ⟨hv, h⟩ hnf
            rw [if_pos this, rxFeed_err c _ _ (by simp [rxFail, Err.emsgsize])]
            simp [rxFail, stopErr]
          · have hv' : sizeValid L = false := by simpa using hv
            rw [hv']
            simp only [Bool.not_false, ↓reduceIte]
            rw [rxFeed_err c _ _ (by simp [rxFail, Err.emsgsize])]
            simp [rxFail, stopErr]

/-! ### properties of the grammar -/

theorem parse_fits (f : Framing) (b : Bytes) : ∀ m ∈ (parse f b).1, f.fits m.length = true := by
  generalize hk : b.length = k
  induction k using Nat.strongRecOn generalizing b with
  | ind k ih =>
    rw [parse]
    have h8 := headLen_ge8 f
    split
    · simp
    · dsimp only
      split
      · simp
      · split
        · simp
        · split
          · simp
          · rename_i h1 _ h3 h4
            intro m hm
            simp only [List.mem_cons] at hm
            rcases hm with rfl | hm
            · have : (List.take (beDecode (List.drop (f.headLen - 8) (List.take f.headLen b)))
                  (List.drop f.headLen b)).length =
                  beDecode (List.drop (f.headLen - 8) (List.take f.headLen b)) := by
                simp only [List.length_take, List.length_drop]
                simp only [List.length_drop] at h4
                omega
              rw [this]
              simpa using h3
            · exact ih _ (by simp only [List.length_drop]; omega) _ rfl m hm

/-- `b` begins with frames carrying `ms`: each frame is `headLen` header bytes whose last
    eight decode to the payload length, followed by exactly that payload -/
inductive StartsWith (f : Framing) : Bytes → List Bytes → Prop where
  | nil (b : Bytes) : StartsWith f b []
  | cons (hd p rest : Bytes) (ms : List Bytes) : hd.length = f.headLen →
      beDecode (hd.drop (f.headLen - 8)) = p.length → StartsWith f rest ms →
      StartsWith f (hd ++ p ++ rest) (p :: ms)

theorem parse_startsWith (f : Framing) (b : Bytes) : StartsWith f b (parse f b).1 := by
  generalize hk : b.length = k
  induction k using Nat.strongRecOn generalizing b with
  | ind k ih =>
    rw [parse]
    have h8 := headLen_ge8 f
    split
    · exact .nil _
    · dsimp only
      split
      · exact .nil _
      · split
        · exact .nil _
        · split
          · exact .nil _
          · rename_i h1 _ h3 h4
            have hb : b = b.take f.headLen ++
                (b.drop f.headLen).take (beDecode (List.drop (f.headLen - 8) (List.take f.headLen b))) ++
                (b.drop f.headLen).drop (beDecode (List.drop (f.headLen - 8) (List.take f.headLen b))) := by
              rw [List.append_assoc, List.take_append_drop, List.take_append_drop]
            have hrec := ih _ (by simp only [List.length_drop]; omega)
              ((b.drop f.headLen).drop (beDecode (List.drop (f.headLen - 8) (List.take f.headLen b)))) rfl
            have hc := StartsWith.cons (f := f) (b.take f.headLen)
              ((b.drop f.headLen).take (beDecode (List.drop (f.headLen - 8) (List.take f.headLen b))))
              _ _ (by simp; omega)
              (by
                simp only [List.length_take, List.length_drop]
                simp only [List.length_drop] at h4
                omega) hrec
            rw [← hb] at hc
            exact hc

/-- more bytes never change what was already deliverable, and after a rejected frame
    nothing more becomes deliverable -/
theorem parse_append (f : Framing) (a t : Bytes) :
    (parse f a).1 <+: (parse f (a ++ t)).1 ∧
    ((parse f a).2 ≠ .needMore → parse f (a ++ t) = parse f a) := by
  generalize hk : a.length = k
  induction k using Nat.strongRecOn generalizing a with
  | ind k ih =>
    have h8 := headLen_ge8 f
    by_cases hshort : a.length < f.headLen
    · have : parse f a = ([], .needMore) := by rw [parse, if_pos hshort]
      rw [this]
      exact ⟨List.nil_prefix, fun h => absurd rfl h⟩
    · have hge : f.headLen ≤ a.length := by omega
      have htake : (a ++ t).take f.headLen = a.take f.headLen := List.take_append_of_le_length hge
      have hdrop : (a ++ t).drop f.headLen = a.drop f.headLen ++ t := List.drop_append_of_le_length hge
      have hlt2 : ¬ (a ++ t).length < f.headLen := by simp only [List.length_append]; omega
      rw [parse.eq_1 f a, if_neg hshort, parse.eq_1 f (a ++ t), if_neg hlt2]
      simp only [htake, hdrop]
      by_cases hty : f.typeByte.isSome = true ∧ some ((List.take f.headLen a).headD 0) ≠ f.typeByte
      · rw [if_pos hty, if_pos hty]; exact ⟨List.prefix_refl _, fun _ => rfl⟩
      · rw [if_neg hty, if_neg hty]
        generalize beDecode (List.drop (f.headLen - 8) (List.take f.headLen a)) = L
        by_cases hfit : (!f.fits L) = true
        · rw [if_pos hfit, if_pos hfit]; exact ⟨List.prefix_refl _, fun _ => rfl⟩
        · rw [if_neg hfit, if_neg hfit]
          by_cases hbody : (a.drop f.headLen).length < L
          · rw [if_pos hbody]
            exact ⟨List.nil_prefix, fun h => absurd rfl h⟩
          · rw [if_neg hbody, if_neg (by simp only [List.length_append]; omega)]
            have hle : L ≤ (a.drop f.headLen).length := by omega
            rw [List.take_append_of_le_length hle, List.drop_append_of_le_length hle]
            have hrec := ih _ (by simp only [List.length_drop]; omega) ((a.drop f.headLen).drop L) rfl
            refine ⟨?_, ?_⟩
            · obtain ⟨l, hl⟩ := hrec.1
              exact ⟨l, by simp only [List.cons_append, ← hl]⟩
            · intro hne
              rw [hrec.2 hne]

/-! ### the negotiation header -/

theorem negoCheck_exact (b : Bytes) (hl : b.length = 8) (p : Nat) :
    negoCheck b = some p ↔ (b = exactHandshake p ∧ p < 65536) := by
  match b, hl with
  | [b0, b1, b2, b3, b4, b5, b6, b7], _ =>
    simp only [negoCheck, List.getD_eq_getElem?_getD, exactHandshake]
    simp only [List.getElem?_cons_zero, List.getElem?_cons_succ, Option.getD_some]
    constructor
    · intro h
      split at h
      · exact absurd h (by simp)
      · rename_i hn
        have hn' : b0 = 0 ∧ b1 = 0x53 ∧ b2 = 0x50 ∧ b3 = 0 ∧ b6 = 0 ∧ b7 = 0 := by
          simp only [not_or, ne_eq, Decidable.not_not] at hn
          exact hn
        obtain ⟨h0, h1, h2, h3, h6, h7⟩ := hn'
        have hp : p = b4.toNat * 256 + b5.toNat := by simpa using h.symm
        have l4 := b4.toNat_lt
        have l5 := b5.toNat_lt
        subst h0 h1 h2 h3 h6 h7
        refine ⟨?_, by omega⟩
        have e4 : UInt8.ofNat (p / 256 % 256) = b4 := by
          apply UInt8.toNat_inj.mp
          rw [UInt8.toNat_ofNat']; omega
        have e5 : UInt8.ofNat (p % 256) = b5 := by
          apply UInt8.toNat_inj.mp
          rw [UInt8.toNat_ofNat']; omega
        rw [e4, e5]
    · rintro ⟨h, hp⟩
      simp only [List.cons.injEq, and_true] at h
      obtain ⟨h0, h1, h2, h3, h4, h5, h6, h7⟩ := h
      subst h0 h1 h2 h3 h6 h7
      rw [if_neg (by simp)]
      subst h4 h5
      simp only [UInt8.toNat_ofNat', Option.some.injEq]
      omega

theorem negoCheck_wrong_length_irrelevant (b : Bytes) (p : Nat) (h : negoCheck b = some p) :
    b.getD 0 0 = 0 ∧ b.getD 1 0 = 0x53 ∧ b.getD 2 0 = 0x50 ∧ b.getD 3 0 = 0 := by
  unfold negoCheck at h
  split at h
  · exact absurd h (by simp)
  · rename_i hn
    simp only [not_or, ne_eq, Decidable.not_not] at hn
    exact ⟨hn.1, hn.2.1, hn.2.2.1, hn.2.2.2.1⟩

/-! ### what a read asks for (allocation is decided before it happens) -/

/-- invariant of the receive machine: while gathering a header it asks for no more than the
    header; once a body buffer exists its size (filled + still wanted) passed the size rule -/
def RxInv (c : Cfg) (s : Rx) : Prop :=
  s.err = 0 →
    match s.msg with
    | none => s.head.length + s.want = c.kind.headLen
    | some b => Fits c (b.length + s.want)

theorem rxInv_init (c : Cfg) : RxInv c (rxInit c.kind) := by
  intro _; simp [rxInit]

theorem rxRead_inv (c : Cfg) (s : Rx) (d : Bytes) (he : s.err = 0) (hd : d.length ≤ s.want)
    (hi : RxInv c s) : RxInv c (rxRead c s d) := by
  have hi' := hi he
  unfold rxRead
  cases hm : s.msg with
  | none =>
    rw [hm] at hi'
    simp only [] at hi' ⊢
    split
    · intro _; simp only [hm, List.length_append]; omega
    · unfold rxHeader
      simp only []
      split
      · intro h; simp [rxFail, Err.eproto] at h
      · split
        · intro h; simp [rxFail, Err.emsgsize] at h
        · split
          · intro h; simp [rxFail, Err.emsgsize] at h
          · rename_i hv hmax
            split
            · intro _
              simp only [List.length_nil, Nat.zero_add]
              refine ⟨?_, ?_⟩
              · simpa [sizeValid] using hv
              · omega
            · intro _; simp [rxDeliver]
  | some b =>
    rw [hm] at hi'
    simp only [] at hi' ⊢
    split
    · intro _
      simp only [List.length_append]
      have : b.length + d.length + (s.want - d.length) = b.length + s.want := by omega
      rw [this]; exact hi'
    · intro _; simp [rxDeliver]

theorem rxFeed_inv (c : Cfg) (d : Bytes) (s : Rx) (hi : RxInv c s) : RxInv c (rxFeed c s d) := by
  generalize hk : d.length = k
  induction k using Nat.strongRecOn generalizing d s with
  | ind k ih =>
    by_cases he : s.err = 0
    · by_cases hd : d = []
      · subst hd; rw [rxFeed_nil]; exact hi
      · by_cases hw : s.want = 0
        · rw [rxFeed_want0 c s _ hw]; exact hi
        · rw [rxFeed_step c s d he hd hw]
          have hdpos : d.length ≠ 0 := by intro h; exact hd (List.eq_nil_of_length_eq_zero h)
          exact ih (d.drop (min d.length s.want)).length (by simp; omega) _ _
            (rxRead_inv c s _ he (by simp; omega) hi) rfl
    · rw [rxFeed_err c s _ he]; exact hi

/-! ### one connection in closed form -/

/-- the state of a connection after the peer's bytes `b`, whatever the segmentation -/
def connOf (c : Cfg) (pc : PCfg) (b : Bytes) : Conn :=
  if b.length < Generated.c01HandshakeLen then { phase := .nego, hs := b, rx := rxInit c.kind }
  else
    match negoCheck (b.take Generated.c01HandshakeLen) with
    | none => { phase := .dead, hs := b.take Generated.c01HandshakeLen, err := Err.eproto, rx := rxInit c.kind }
    | some peer =>
      if pipeStart pc.proto peer pc.busy ≠ 0 then
        { phase := .dead, hs := b.take Generated.c01HandshakeLen, peer := peer,
          err := pipeStart pc.proto peer pc.busy, rx := rxInit c.kind }
      else if (rxFeed c (rxInit c.kind) (b.drop Generated.c01HandshakeLen)).err ≠ 0 then
        { phase := .dead, hs := b.take Generated.c01HandshakeLen, peer := peer,
          rx := rxFeed c (rxInit c.kind) (b.drop Generated.c01HandshakeLen),
          err := (rxFeed c (rxInit c.kind) (b.drop Generated.c01HandshakeLen)).err }
      else
        { phase := .up, hs := b.take Generated.c01HandshakeLen, peer := peer,
          rx := rxFeed c (rxInit c.kind) (b.drop Generated.c01HandshakeLen) }

theorem connOf_nil (c : Cfg) (pc : PCfg) : connOf c pc [] = connInit c.kind := by
  simp [connOf, connInit, Generated.c01HandshakeLen]

theorem connFeed_connOf (c : Cfg) (pc : PCfg) (b d : Bytes) :
    connFeed c pc (connOf c pc b) d = connOf c pc (b ++ d) := by
  by_cases hb : b.length < Generated.c01HandshakeLen
  · -- still negotiating
    have h1 : connOf c pc b = { phase := .nego, hs := b, rx := rxInit c.kind } := by
      rw [connOf, if_pos hb]
    rw [h1]
    simp only [connFeed, Conn.negoWant]
    have htk : b ++ d.take (Generated.c01HandshakeLen - b.length) =
        (b ++ d).take Generated.c01HandshakeLen := by
      rw [List.take_append, show b.take Generated.c01HandshakeLen = b from List.take_of_length_le (by omega)]
    have hdr : d.drop (Generated.c01HandshakeLen - b.length) =
        (b ++ d).drop Generated.c01HandshakeLen := by
      rw [List.drop_append, show b.drop Generated.c01HandshakeLen = [] from List.drop_of_length_le (by omega)]
      simp
    by_cases hbd : (b ++ d).length < Generated.c01HandshakeLen
    · have : (b ++ d.take (Generated.c01HandshakeLen - b.length)).length < Generated.c01HandshakeLen := by
        rw [htk]; simp only [List.length_take]; omega
      simp only [this, ↓reduceIte]
      rw [connOf, if_pos hbd]
      have : d.take (Generated.c01HandshakeLen - b.length) = d := by
        apply List.take_of_length_le
        simp only [List.length_append] at hbd; omega
      rw [this]
    · have : ¬ (b ++ d.take (Generated.c01HandshakeLen - b.length)).length < Generated.c01HandshakeLen := by
        rw [htk]; simp only [List.length_take]; omega
      simp only [this, ↓reduceIte]
      rw [connOf, if_neg hbd]
      simp only [htk, hdr]
      cases hn : negoCheck ((b ++ d).take Generated.c01HandshakeLen) with
      | none => simp
      | some peer => simp only []
  · have hge : Generated.c01HandshakeLen ≤ b.length := by omega
    have hbd : ¬ (b ++ d).length < Generated.c01HandshakeLen := by
      simp only [List.length_append]; omega
    have htk : (b ++ d).take Generated.c01HandshakeLen = b.take Generated.c01HandshakeLen :=
      List.take_append_of_le_length hge
    have hdr : (b ++ d).drop Generated.c01HandshakeLen = b.drop Generated.c01HandshakeLen ++ d :=
      List.drop_append_of_le_length hge
    rw [connOf, if_neg hb, connOf, if_neg hbd, htk, hdr]
    cases hn : negoCheck (b.take Generated.c01HandshakeLen) with
    | none => simp [connFeed]
    | some peer =>
      simp only []
      by_cases hp : pipeStart pc.proto peer pc.busy ≠ 0
      · rw [if_pos hp, if_pos hp]; simp [connFeed]
      · rw [if_neg hp, if_neg hp, rxFeed_append]
        by_cases hr : (rxFeed c (rxInit c.kind) (b.drop Generated.c01HandshakeLen)).err ≠ 0
        · rw [if_pos hr, rxFeed_err c _ _ hr, if_pos hr]; simp [connFeed]
        · rw [if_neg hr]
          simp only [connFeed]

theorem connRun_eq_connOf (c : Cfg) (pc : PCfg) (chunks : List Bytes) (b : Bytes) :
    connRun c pc (connOf c pc b) chunks = connOf c pc (b ++ chunks.flatten) := by
  induction chunks generalizing b with
  | nil => simp [connRun]
  | cons x xs ih =>
    simp only [connRun, List.foldl_cons, List.flatten_cons] at ih ⊢
    rw [connFeed_connOf, ih, List.append_assoc]

/-! ### protocol headers: the receive callbacks factor through the C13 specification -/

/-- what the specification of C13 says about a transport message for this socket -/
def specVerdict (pc : PCfg) (w : Bytes) : BtSpec.Verdict :=
  match pc.proto, pc.raw with
  | .rep, _ => BtSpec.classify pc.ttl w
  | .respondent, _ => BtSpec.classify pc.ttl w
  | .pair1, _ => BtSpec.classifyHop pc.ttl w
  | .req, true => BtSpec.classifyNoTtl (Generated.maxMaxTtl + 1) w
  | .surveyor, true => BtSpec.classifyNoTtl (Generated.maxMaxTtl + 1) w
  | .req, false => if w.length < 4 then .malformed else .accept (w.take 4) (w.drop 4)
  | .surveyor, false => if w.length < 4 then .malformed else .accept (w.take 4) (w.drop 4)
  | _, _ => .accept [] w

/-- what the socket puts in front of the backtrace -/
def protoPre (pc : PCfg) (pipe : Nat) : Bytes :=
  match pc.proto, pc.raw with
  | .rep, true => Bt.w32 pipe
  | .respondent, true => Bt.w32 pipe
  | .bus, true => Bt.w32 pipe
  | _, _ => []

/-- what the socket does with an accepted message -/
def protoPost (pc : PCfg) (eid : Option Bytes) (w : Bytes) (o : Bt.Outcome) : Bt.Outcome :=
  match pc.proto, pc.raw with
  | .rep, false => cooked o
  | .respondent, false => cooked o
  | .req, false => matchId eid o
  | .surveyor, false => matchId eid o
  | .sub, _ => if subMatch pc.subPrefix w then o else .drop
  | _, _ => o

theorem reqRecv_ofVerdict (w : Bytes) :
    Bt.reqRecv w = Bt.ofVerdict [] (if w.length < 4 then .malformed else .accept (w.take 4) (w.drop 4)) := by
  unfold Bt.reqRecv
  split <;> simp [Bt.ofVerdict]

/-- a post-processing step never invents a delivery, never changes a body, and keeps a disconnect -/
theorem protoPost_sound (pc : PCfg) (eid : Option Bytes) (w : Bytes) (o : Bt.Outcome) :
    (∀ h b, protoPost pc eid w o = .deliver h b → ∃ h', o = .deliver h' b) ∧
    (o = .closePipe → protoPost pc eid w o = .closePipe ∨ (pc.proto = .sub)) := by
  obtain ⟨proto, raw, ttl, sp, busy⟩ := pc
  cases proto <;> cases raw <;> simp only [protoPost] <;>
    (refine ⟨fun h b hd => ?_, fun hc => ?_⟩) <;>
    first
    | exact ⟨_, hd⟩
    | (left; exact hc)
    | (right; rfl)
    | (cases o <;> simp_all [cooked, matchId]; done)
    | (cases o <;> simp only [cooked, matchId] at hd <;> first | (split at hd <;> simp_all) | simp_all)
    | (split at hd <;> simp_all)
    | (subst hc; left; rfl)

end Nng.Hostile
