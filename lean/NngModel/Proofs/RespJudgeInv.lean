/-
  RESPONDENT model: a second induction principle over `step`/`run` (as `StepOK` of SurveyRespInd.lean, with two
  more facts handed to the hooks: a new pipe gets the next index as id, a pipe that delivers has a receive
  armed), and the model invariant `NInv` needed by the judge simulation (Proofs/RespJudge*.lean).
-/
import NngModel.Proofs.SurveyRespWritable
import NngModel.Proofs.SurveyRespQueue
import NngModel.Proofs.SurveyRespPoll
namespace Nng.Respond
open Nng Nng.Proto

structure StepOK2 (R P : State → Prop) : Prop where
  hOpen : ∀ s : State, P s → s.opened = false →
    P { s with opened := true, ttl := Nng.Generated.respTtlInit, ctxs := [{ key := none }] }
  setNow : ∀ (s : State) (n : Nat), P s → P { s with now := n }
  setTtl : ∀ (s : State) (n : Nat), P s → P { s with ttl := n }
  setClosed : ∀ s : State, P s → P { s with closed := true }
  hPipeAdd : ∀ (s : State) (pp : Pipe), P s → s.opened = true → pp.id = s.pipes.length → pp.sendq = [] → pp.busy = false → pp.held = none →
    P { s with pipes := s.pipes ++ [pp] }
  hClosePipe : ∀ (s : State) (p : Nat), P s → P (closePipe s p).1
  hPipeSent : ∀ (s : State) (p : Nat) (pp : Pipe), P s → getPipe s p = some pp → pp.closed = false →
    pp.busy = true → P (pipeSent s pp).1
  hPipeRecv : ∀ (s : State) (p : Nat) (pp : Pipe) (wm : WMsg), P s → getPipe s p = some pp →
    pp.closed = false → pp.armed = true → wm.hdr ≠ [] → P (pipeRecv s pp wm).1
  hCtxSend : ∀ (s : State) (k : Option Nat) (c : Ctx) (a : Nat) (m : WMsg) (mode : Mode), R s → P s →
    getCtx s k = some c → P (ctxSend s c a m mode).1
  hCtxRecv : ∀ (s : State) (k : Option Nat) (c : Ctx) (a : Nat) (mode : Mode), P s →
    getCtx s k = some c → P (ctxRecv s c a mode).1
  hCancel : ∀ (s : State) (a rv : Nat), P s → P (cancelAio s a rv).1
  hCloseCtx : ∀ (s : State) (k : Option Nat) (c : Ctx), P s → getCtx s k = some c → P (closeCtx s c).1
  hCtxOpen : ∀ (s : State) (k : Nat), P s → getCtx s (some k) = none →
    P { s with ctxs := s.ctxs ++ [{ key := some k }] }
  hCtxClose : ∀ (s : State) (k : Nat) (c : Ctx), P s → getCtx s (some k) = some c →
    P { (closeCtx s c).1 with ctxs := (closeCtx s c).1.ctxs.filter (·.key != some k) }

theorem expire_inv2 {R P : State → Prop} (H : StepOK2 R P) {s : State} (h : P s) : P (expire s).1 := by
  unfold expire
  exact foldl_inv (fun s a => cancelAio s a Err.etimedout) (fun s a h => H.hCancel s a _ h) _ (s, []) h

theorem closeCtxs_inv2 {R P : State → Prop} (H : StepOK2 R P) {s : State} (sel : Ctx → Bool) (h : P s) :
    P (closeCtxs s sel).1 := by
  unfold closeCtxs
  generalize s.ctxs = xs
  have : ∀ (acc : State × List Out), P acc.1 →
      P (xs.foldl (fun (acc : State × List Out) c =>
        if sel c = true then
          match getCtx acc.1 c.key with
          | some c' => ((closeCtx acc.1 c').1, acc.2 ++ (closeCtx acc.1 c').2)
          | none => acc
        else acc) acc).1 := by
    induction xs with
    | nil => intro acc h; exact h
    | cons x rest ih =>
      intro acc h
      simp only [List.foldl_cons]
      apply ih
      split
      · split
        · rename_i c' hg
          exact H.hCloseCtx _ _ _ h hg
        · exact h
      · exact h
  exact this (s, []) h

theorem closePipes_inv2 {R P : State → Prop} (H : StepOK2 R P) {s : State} (h : P s) : P (closePipes s).1 := by
  unfold closePipes
  exact foldl_inv (fun s (pp : Pipe) => closePipe s pp.id) (fun s pp h => H.hClosePipe s pp.id h) _ (s, []) h

theorem closeAll_inv2 {R P : State → Prop} (H : StepOK2 R P) {s : State} (h : P s) : P (closeAll s).1 := by
  unfold closeAll
  exact H.setClosed _ (closeCtxs_inv2 H _ (closePipes_inv2 H (closeCtxs_inv2 H _ h)))

theorem step_inv2 {R P : State → Prop} (H : StepOK2 R P) (s : State) (ev : Ev) (hr : R s) (h : P s) :
    P (step s ev).1 := by
  unfold step
  split
  · rename_i ho
    have ho' : s.opened = false := by simpa using ho
    cases ev <;> try exact h
    case openSock p r => exact H.hOpen s h ho'
    case advance ms => exact H.setNow s _ h
  · rename_i ho
    have ho' : s.opened = true := by simpa using ho
    split
    · cases ev <;> try exact h
      case advance ms => exact H.setNow s _ h
    · cases ev with
      | openSock _ _ => exact h
      | pipeAdd peer =>
        simp only
        split
        · exact H.hPipeAdd s _ h ho' rfl rfl rfl rfl
        · exact H.hPipeAdd s _ h ho' rfl rfl rfl rfl
      | pipeDrop p =>
        simp only
        split
        · split
          · exact h
          · exact H.hClosePipe s p h
        · exact h
      | sendDone p rv =>
        simp only
        split
        · rename_i pp hg
          split
          · exact h
          · rename_i hc
            split
            · exact H.hClosePipe s p h
            · have hc1 : pp.closed = false := by
                cases hx : pp.closed
                · rfl
                · simp [hx] at hc
              have hc2 : pp.busy = true := by
                cases hx : pp.busy
                · simp [hx] at hc
                · rfl
              exact H.hPipeSent s p pp h hg hc1 hc2
        · exact h
      | recvDone p r =>
        simp only
        split
        · rename_i pp hg
          split
          · exact h
          · rename_i hc
            have hc1 : pp.closed = false := by
              cases hx : pp.closed
              · rfl
              · simp [hx] at hc
            have hc2 : pp.armed = true := by
              cases hx : pp.armed
              · simp [hx] at hc
              · rfl
            split
            · exact H.hClosePipe s p h
            · split
              · exact h
              · exact H.hClosePipe s p h
              · rename_i hdr body hsb
                exact H.hPipeRecv s p pp _ h hg hc1 hc2 (splitBt_hdr_ne _ _ _ _ _ hsb)
        · exact h
      | send k a m mode =>
        simp only
        split
        · exact h
        · split
          · exact h
          · rename_i c hg
            exact H.hCtxSend s k c a m mode hr h hg
      | recv k a mode =>
        simp only
        split
        · exact h
        · split
          · exact h
          · rename_i c hg
            exact H.hCtxRecv s k c a mode h hg
      | cancel a => exact H.hCancel s a _ h
      | abort a rv => exact H.hCancel s a rv h
      | advance ms => exact expire_inv2 H (s := { s with now := s.now + ms }) (H.setNow s _ h)
      | ctxOpen k =>
        simp only
        split
        · exact h
        · split
          · exact h
          · rename_i hn
            have hg : getCtx s (some k) = none := by
              cases hx : getCtx s (some k)
              · rfl
              · simp [hx] at hn
            exact H.hCtxOpen s k h hg
      | ctxClose k =>
        simp only
        split
        · exact h
        · rename_i c hg
          exact H.hCtxClose s k c h hg
      | setopt k name ty v =>
        simp only
        split
        · split
          · exact h
          · exact H.setTtl s _ h
        · exact h
      | getopt k name ty => simp only; split <;> exact h
      | poll => exact h
      | sub _ _ => exact h
      | unsub _ _ => exact h
      | close => exact closeAll_inv2 H h

theorem run_inv2 {R P : State → Prop} (H : StepOK2 R P) (hR : ∀ s ev, R s → R (step s ev).1)
    (s : State) (evs : List Ev) (hr : R s) (h : P s) : P (run s evs).1 := by
  induction evs generalizing s with
  | nil => exact h
  | cons e es ih => simp only [run]; exact ih _ (hR s e hr) (step_inv2 H s e hr h)


/-! ### lookups -/

theorem getPipe_setPipe_map (s : State) (pp' : Pipe) (q : Nat) :
    getPipe (setPipe s pp') q = (getPipe s q).map fun x => if (x.id == pp'.id) = true then pp' else x := by
  unfold getPipe setPipe
  exact find_map_id s.pipes _ (setPipe_fn_id pp') q

theorem getPipe_map (s : State) (f : Pipe → Pipe) (hf : ∀ x, (f x).id = x.id) (q : Nat) :
    getPipe { s with pipes := s.pipes.map f } q = (getPipe s q).map f := by
  unfold getPipe
  exact find_map_id s.pipes f hf q

theorem getPipe_setPipe_ne {s : State} {pp' : Pipe} {q : Nat} (h : q ≠ pp'.id) :
    getPipe (setPipe s pp') q = getPipe s q := by
  rw [getPipe_setPipe_map]
  cases hg : getPipe s q with
  | none => rfl
  | some x =>
    have hx := getPipe_id hg
    have : ¬ x.id = pp'.id := by rw [hx]; exact h
    simp [this]

theorem getPipe_setPipe_self {s : State} {pp pp' : Pipe} (hg : getPipe s pp'.id = some pp) :
    getPipe (setPipe s pp') pp'.id = some pp' := by
  rw [getPipe_setPipe_map, hg]
  have := getPipe_id hg
  simp [this]

theorem getPipe_append_old {s : State} {pp : Pipe} {q : Nat} {x : Pipe} (h : getPipe s q = some x) :
    getPipe { s with pipes := s.pipes ++ [pp] } q = some x := by
  unfold getPipe at *
  simp [List.find?_append, h]

theorem getPipe_append_none {s : State} {pp : Pipe} {q : Nat} (h : getPipe s q = none) :
    getPipe { s with pipes := s.pipes ++ [pp] } q = if pp.id = q then some pp else none := by
  unfold getPipe at *
  simp only [List.find?_append, h, Option.none_or, List.find?_cons, List.find?_nil]
  by_cases e : pp.id = q
  · simp [e]
  · have : (pp.id == q) = false := by simpa using e
    simp [this, e]

theorem getPipe_lt {s : State} (hids : ∀ pp ∈ s.pipes, pp.id < s.pipes.length) {q : Nat} {x : Pipe}
    (h : getPipe s q = some x) : q < s.pipes.length := by
  have := hids x (getPipe_mem h)
  rw [getPipe_id h] at this
  exact this

theorem mem_setCtx_of_ne {s : State} {c' q : Ctx} (hq : q ∈ s.ctxs) (hk : q.key ≠ c'.key) : q ∈ (setCtx s c').ctxs := by
  simp only [setCtx, List.mem_map]
  exact ⟨q, hq, by simp [hk]⟩

theorem keys_setCtx (s : State) (c' : Ctx) : (setCtx s c').ctxs.map (·.key) = s.ctxs.map (·.key) := by
  simp only [setCtx, List.map_map]
  apply List.map_congr_left
  intro x _
  exact setCtx_fn_key c' x

/-! ### the invariant -/

structure NInv (s : State) : Prop where
  /-- context keys are pairwise distinct -/
  keys : (s.ctxs.map (·.key)).Nodup
  /-- pipe ids are below the number of pipes ever attached (so the next id is new) -/
  ids : ∀ pp ∈ s.pipes, pp.id < s.pipes.length
  /-- a context with a parked receive is on the wait list -/
  rq : ∀ c ∈ s.ctxs, c.raio ≠ none → c.key ∈ s.recvq
  /-- nobody waits while a survey is held -/
  excl : s.recvq ≠ [] → s.recvpipes = []
  /-- a pipe holding a survey has no receive armed -/
  rp : ∀ p ∈ s.recvpipes, ∃ pp, getPipe s p = some pp ∧ pp.armed = false
  rpnd : s.recvpipes.Nodup
  /-- the pipe of a pending survey is known -/
  pid : ∀ c ∈ s.ctxs, ∀ p, c.pipeId = some p → ∃ pp, getPipe s p = some pp

theorem NInv.of_eq {s s' : State} (h : NInv s) (h1 : s'.ctxs = s.ctxs) (h2 : s'.pipes = s.pipes)
    (h3 : s'.recvq = s.recvq) (h4 : s'.recvpipes = s.recvpipes) : NInv s' := by
  have hg : ∀ q, getPipe s' q = getPipe s q := fun q => by unfold getPipe; rw [h2]
  exact ⟨by rw [h1]; exact h.keys, by rw [h2]; exact h.ids, by rw [h1, h3]; exact h.rq, by rw [h3, h4]; exact h.excl,
    by rw [h4]; intro p hp; rw [hg]; exact h.rp p hp, by rw [h4]; exact h.rpnd,
    by rw [h1]; intro c hc p hp; rw [hg]; exact h.pid c hc p hp⟩

theorem ninv_init : NInv ({} : State) :=
  ⟨List.nodup_nil, (by intro pp hpp; cases hpp), (by intro c hc; cases hc), (by intro _; rfl), (by intro p hp; cases hp),
   List.nodup_nil, (by intro c hc; cases hc)⟩

end Nng.Respond
