/-
  Facts about the judge's own functions (Spec/Req.lean): `setC`, `fail04`, `fail12`, the loops over the
  context keys (`oldDone`, `onPclosed`, `overdueAll`) as pointwise updates, `quiescent`.
-/
import NngModel.Proofs.ReqJudgeCut
namespace Nng.ReqSpec
open Nng Nng.Proto

@[simp] theorem setC_ctx_same (j : J) (k : Nat) (c : CJ) : (setC j k c).ctx k = c := by simp [setC]
theorem setC_ctx_other (j : J) (k x : Nat) (c : CJ) (h : x ≠ k) : (setC j k c).ctx x = j.ctx x := by simp [setC, h]
theorem setC_ctx (j : J) (k x : Nat) (c : CJ) : (setC j k c).ctx x = if x = k then c else j.ctx x := rfl
@[simp] theorem setC_idle (j : J) (k : Nat) (c : CJ) : (setC j k c).idle = j.idle := rfl
@[simp] theorem setC_busy (j : J) (k : Nat) (c : CJ) : (setC j k c).busy = j.busy := rfl
@[simp] theorem setC_now (j : J) (k : Nat) (c : CJ) : (setC j k c).now = j.now := rfl
@[simp] theorem setC_tick (j : J) (k : Nat) (c : CJ) : (setC j k c).tick = j.tick := rfl
@[simp] theorem setC_tickStable (j : J) (k : Nat) (c : CJ) : (setC j k c).tickStable = j.tickStable := rfl
@[simp] theorem setC_anySend (j : J) (k : Nat) (c : CJ) : (setC j k c).anySend = j.anySend := rfl
@[simp] theorem setC_sockRetry (j : J) (k : Nat) (c : CJ) : (setC j k c).sockRetry = j.sockRetry := rfl
@[simp] theorem setC_seen (j : J) (k : Nat) (c : CJ) : (setC j k c).seen = j.seen := rfl
@[simp] theorem setC_closed (j : J) (k : Nat) (c : CJ) : (setC j k c).closed = j.closed := rfl
@[simp] theorem setC_err04 (j : J) (k : Nat) (c : CJ) : (setC j k c).err04 = j.err04 := rfl
@[simp] theorem setC_err12 (j : J) (k : Nat) (c : CJ) : (setC j k c).err12 = j.err12 := rfl

theorem setC_self (j : J) (k : Nat) : setC j k (j.ctx k) = j := by
  cases j; simp only [setC]; congr; funext x; split
  · rename_i h; rw [h]
  · rfl

theorem setC_setC (j : J) (k : Nat) (c c' : CJ) : setC (setC j k c) k c' = setC j k c' := by
  simp only [setC]; congr; funext x; split <;> rfl

theorem fail04_eq (j : J) (m : String) : ∃ e, j.fail04 m = { j with err04 := e } := by
  unfold J.fail04; split
  · exact ⟨_, rfl⟩
  · exact ⟨_, rfl⟩

theorem fail12_eq (j : J) (m : String) : ∃ e, j.fail12 m = { j with err12 := e } := by
  unfold J.fail12; split
  · exact ⟨_, rfl⟩
  · exact ⟨_, rfl⟩

theorem keys_mem (k : Nat) : k ∈ keys ↔ k < 9 := by simp [keys]
theorem keys_nodup : keys.Nodup := by decide

/-- a loop over context keys whose body rewrites the context `k` only (as long as `ok` holds) is a
    pointwise update -/
theorem foldl_pointwise (F : J → Nat → J) (g : Nat → CJ → CJ) (ok : Nat → CJ → Prop) (P : J → Prop)
    (hF : ∀ j k, P j → ok k (j.ctx k) → F j k = setC j k (g k (j.ctx k)))
    (hP : ∀ j k c, P j → P (setC j k c))
    (ks : List Nat) (hn : ks.Nodup) (j : J) (hj : P j) (hok : ∀ k, k ∈ ks → ok k (j.ctx k)) :
    ks.foldl F j = { j with ctx := fun x => if x ∈ ks then g x (j.ctx x) else j.ctx x } := by
  induction ks generalizing j with
  | nil => simp
  | cons k t ih =>
    rw [List.foldl_cons, hF j k hj (hok k (by simp))]
    have hk : k ∉ t := (List.nodup_cons.1 hn).1
    rw [ih (List.nodup_cons.1 hn).2 _ (hP j k _ hj)]
    · cases j
      simp only [setC]
      congr
      funext x
      by_cases hx : x = k
      · subst hx; simp [hk]
      · simp only [hx, if_false, List.mem_cons, false_or]
    · intro k' hk'
      have : k' ≠ k := fun e => hk (e ▸ hk')
      rw [setC_ctx_other _ _ _ _ this]
      exact hok k' (by simp [hk'])

/-! ### oldDone -/

def oldC (a : Nat) (cj : CJ) : CJ :=
  let cj1 := match cj.req with
    | some r => if r.sendAio == a && !r.wired then { cj with req := none } else cj
    | none => cj
  if cj1.recvWait == some a then { cj1 with recvWait := none, req := none, stash := none } else cj1

theorem oldDone_eq (j : J) (a rv : Nat) :
    oldDone j a rv = { j with ctx := fun x => if x ∈ keys then oldC a (j.ctx x) else j.ctx x } := by
  unfold oldDone
  refine foldl_pointwise _ (fun _ => oldC a) (fun _ _ => True) (fun _ => True) ?_ (fun _ _ _ _ => trivial)
    keys keys_nodup j trivial (fun _ _ => trivial)
  intro j k _ _
  simp only [oldC]
  by_cases hw : ((j.ctx k).recvWait == some a) = true
  · cases hr : (j.ctx k).req with
    | none => simp [hw]
    | some r =>
      by_cases hc : (r.sendAio == a && !r.wired) = true
      · simp [hc, hw, setC_setC]
      · simp [hc, hw]
  · cases hr : (j.ctx k).req with
    | none => simp [hw, setC_self]
    | some r =>
      by_cases hc : (r.sendAio == a && !r.wired) = true
      · simp [hc, hw]
      · simp [hc, hw, setC_self]

/-- `oldC` leaves a record alone that does not mention the aio -/
theorem oldC_free (a : Nat) (cj : CJ) (h1 : cj.recvWait ≠ some a)
    (h2 : ∀ r, cj.req = some r → r.wired = false → r.sendAio ≠ a) : oldC a cj = cj := by
  unfold oldC
  cases hr : cj.req with
  | none => simp [h1]
  | some r =>
    by_cases hw : r.wired = true
    · simp [hw, h1]
    · have := h2 r hr (by simpa using hw)
      simp [this, h1]


/-! ### onPclosed -/

/-- what the judge does to its record of a context whose request was on a connection that is lost -/
def lostC (now : Nat) (cj : CJ) : CJ :=
  match cj.req with
  | some r =>
    if cj.retry ≤ 0 then
      match cj.recvWait with
      | some _ => { cj with req := none, recvWait := none }
      | none => { cj with req := none, latched := true }
    else { cj with req := some { r with needTx := true, deadline := some (now + cj.retry.toNat), txSince := false } }
  | none => cj

def onPipe (p : Nat) (cj : CJ) : Bool :=
  match cj.req with
  | some r => r.wired && !r.answered && r.lastPipe == p
  | none => false

def lostP (p now : Nat) (cj : CJ) : CJ := if onPipe p cj then lostC now cj else cj

/-- no complaint of `onPclosed` about this context -/
def lostOk (outs : List Out) (closing : Bool) (p : Nat) (cj : CJ) : Prop :=
  onPipe p cj = true → cj.retry ≤ 0 → ∀ a, cj.recvWait = some a → (hasDone outs a Err.econnreset none || closing) = true

theorem onPclosed_eq (outs : List Out) (closing : Bool) (j : J) (p : Nat)
    (hok : ∀ k, k ∈ keys → lostOk outs closing p (j.ctx k)) :
    onPclosed outs closing j p =
      { j with idle := j.idle.filter (· != p), busy := j.busy.filter (· != p),
               ctx := fun x => if x ∈ keys then lostP p j.now (j.ctx x) else j.ctx x } := by
  unfold onPclosed
  dsimp only
  refine foldl_pointwise _ (fun _ => lostP p j.now) (fun _ => lostOk outs closing p) (fun j' => j'.now = j.now) ?_
    (fun _ _ _ h => h) keys keys_nodup { j with idle := j.idle.filter (· != p), busy := j.busy.filter (· != p) } rfl hok
  intro j' k hn hk
  have hself : ∀ c, j'.ctx k = c → j' = setC j' k c := fun c e => by rw [← e, setC_self]
  simp only [lostP, lostC, onPipe, lostOk] at hk ⊢
  generalize hc0 : j'.ctx k = c at hk hself ⊢
  obtain ⟨o, re, rq, st, rw, la⟩ := c
  cases rq with
  | none => simpa using hself _ rfl
  | some r =>
    simp only at hk ⊢
    by_cases hc : (r.wired && !r.answered && r.lastPipe == p) = true
    · simp only [hc, if_true]
      by_cases hre : re ≤ 0
      · simp only [hre, if_true]
        cases rw with
        | none => rfl
        | some a =>
          have := hk hc hre a rfl
          simp only [this, if_true]
      · simp only [hre, if_false, hn]
    · simpa [hc] using hself _ rfl

/-! ### overdue requests -/

def overC (now : Nat) (tick : Int) (c : CJ) : CJ :=
  match c.req with
  | some r =>
    match r.deadline with
    | some d =>
      if r.wired && !r.answered && r.clean && !r.txSince && c.retry > 0 && now > d + tick.toNat then
        { c with req := some { r with needTx := true } }
      else c
    | none => c
  | none => c

theorem overdueAll_eq (j : J) :
    overdueAll j = { j with ctx := fun x => if x ∈ keys then overC j.now j.tick (j.ctx x) else j.ctx x } := by
  unfold overdueAll
  refine foldl_pointwise _ (fun _ => overC j.now j.tick) (fun _ _ => True) (fun j' => j'.now = j.now ∧ j'.tick = j.tick) ?_
    (fun _ _ _ h => h) keys keys_nodup j ⟨rfl, rfl⟩ (fun _ _ => trivial)
  intro j' k hn _
  have hself : ∀ c, j'.ctx k = c → j' = setC j' k c := fun c e => by rw [← e, setC_self]
  simp only [overC, hn.1, hn.2]
  generalize hc0 : j'.ctx k = c at hself ⊢
  obtain ⟨o, re, rq, st, rw, la⟩ := c
  cases rq with
  | none => simpa using hself _ rfl
  | some r =>
    obtain ⟨b1, b2, b3, b4, b5, b6, b7, dl, b9, b10, b11, b12⟩ := r
    cases dl with
    | none => simpa using hself _ rfl
    | some d =>
      simp only
      split
      · rfl
      · exact hself _ rfl

/-! ### quiescent -/

theorem quiescent_eq (j : J)
    (h1 : j.idle ≠ [] → ∀ k, k ∈ keys → ∀ r, (j.ctx k).req = some r → r.answered = false → r.needTx = false ∧ r.wired = true) :
    quiescent j = j := by
  unfold quiescent
  split
  · rfl
  · by_cases hi : j.idle = []
    · simp [hi]
    · have key : ∀ k, k ∈ keys → ∀ r, (j.ctx k).req = some r →
          (r.needTx && !r.answered) = false ∧ (!r.wired && !r.answered) = false := by
        intro k hk r hr
        cases ha : r.answered with
        | true => simp
        | false => simp [(h1 hi k hk r hr ha).1, (h1 hi k hk r hr ha).2]
      dsimp only
      split
      · rename_i hc
        exfalso
        simp only [Bool.and_eq_true, List.any_eq_true] at hc
        obtain ⟨⟨k, hk, hm⟩, _⟩ := hc
        cases hr : (j.ctx k).req with
        | none => simp [hr] at hm
        | some r => simp [hr, (key k hk r hr).1] at hm
      · split
        · rename_i hc
          exfalso
          simp only [Bool.and_eq_true, List.any_eq_true] at hc
          obtain ⟨⟨k, hk, hm⟩, _⟩ := hc
          cases hr : (j.ctx k).req with
          | none => simp [hr] at hm
          | some r => simp [hr, (key k hk r hr).2] at hm
        · rfl

/-! ### onPsend -/

def seenAdd (seen : List (Bytes × Bytes)) (m : WMsg) : List (Bytes × Bytes) :=
  match seen.find? (·.2 == m.body) with
  | some _ => seen
  | none => seen ++ [(m.hdr, m.body)]

theorem mem_seenAdd (seen : List (Bytes × Bytes)) (m : WMsg)
    (hs : ∀ id b, (id, b) ∈ seen → b = m.body → id = m.hdr) (x : Bytes × Bytes) :
    x ∈ seenAdd seen m ↔ x ∈ seen ∨ x = (m.hdr, m.body) := by
  unfold seenAdd
  split
  · rename_i y hy
    have h1 := List.mem_of_find?_eq_some hy
    have h2 := List.find?_some hy
    obtain ⟨id, b⟩ := y
    have hb : b = m.body := by simpa using h2
    have := hs id b h1 hb
    subst this; subst hb
    constructor
    · exact Or.inl
    · rintro (h | h)
      · exact h
      · rw [h]; exact h1
  · simp

/-- the record of a request after a transmission on connection `p` with header `hdr` -/
def txR (r : RJ) (p : Nat) (hdr : Bytes) (now : Nat) : RJ :=
  { r with id := some hdr, wired := true, lastPipe := p, txCount := r.txCount + 1, needTx := false,
           txSince := r.txSince || (match r.deadline with | some d => decide (d ≤ now) | none => false) }

theorem find_unique (pred : Nat → Bool) (k : Nat) (hk : k ∈ keys) (hp : pred k = true)
    (hu : ∀ k', k' ∈ keys → pred k' = true → k' = k) : keys.find? pred = some k := by
  cases h : keys.find? pred with
  | none =>
    rw [List.find?_eq_none] at h
    exact absurd hp (h k hk)
  | some k' =>
    have h1 := List.mem_of_find?_eq_some h
    have h2 := List.find?_some h
    rw [hu k' h1 h2]

theorem psA_eq (j : J) (p : Nat) (hidle : p ∈ j.idle) :
    psA j p = { j with idle := j.idle.filter (· != p), busy := j.busy ++ [p] } := by
  unfold psA
  have e1 : j.idle.contains p = true := by simpa using hidle
  simp only [e1, if_true]

theorem psB_eq (j : J) (m : WMsg)
    (hs : ∀ id b, (id, b) ∈ j.seen → b = m.body → id = m.hdr)
    (hs2 : (∀ id b, (id, b) ∈ j.seen → b ≠ m.body) → ∀ id b, (id, b) ∈ j.seen → id ≠ m.hdr) :
    psB j m = { j with seen := seenAdd j.seen m } := by
  unfold psB seenAdd
  cases hy : List.find? (fun x => x.2 == m.body) j.seen with
  | some y =>
    obtain ⟨id, b⟩ := y
    have g1 := List.mem_of_find?_eq_some hy
    have g2 := List.find?_some hy
    have := hs id b g1 (by simpa using g2)
    simp [this]
  | none =>
    rw [List.find?_eq_none] at hy
    have : (List.any j.seen fun x => x.1 == m.hdr) = false := by
      rw [List.any_eq_false]
      intro x hx
      have := hs2 (fun id b hm e => hy (id, b) hm (by simp [e])) x.1 x.2 hx
      simpa using this
    simp [this]

theorem psC_eq (j : J) (p : Nat) (m : WMsg) (k : Nat) (r : RJ)
    (hk : k ∈ keys) (hr : (j.ctx k).req = some r) (hb : r.body = m.body) (ha : r.answered = false)
    (hu : ∀ k', k' ∈ keys → psendPred j m.body k' = true → k' = k)
    (h1 : 1 ≤ r.txCount → r.everRetry = true)
    (h2 : ∀ d, r.deadline = some d → 1 ≤ r.txCount → r.clean = true → r.needTx = false → d ≤ j.now) :
    psC j p m = setC j k { j.ctx k with req := some (txR r p m.hdr j.now) } := by
  unfold psC
  have e3 : keys.find? (psendPred j m.body) = some k :=
    find_unique _ k hk (by simp [psendPred, hr, hb, ha]) hu
  rw [e3]
  simp only [hr]
  have e4 : (r.txCount ≥ 1 && !r.everRetry) = false := by
    by_cases h : 1 ≤ r.txCount
    · simp [h1 h]
    · simp [h]
  simp only [e4, Bool.false_eq_true, if_false]
  cases hd : r.deadline with
  | none => simp [txR, hd]
  | some d =>
    have hc : (decide (r.txCount ≥ 1) && r.clean && !r.needTx && decide (j.now < d)) = false := by
      rw [Bool.eq_false_iff]
      intro hc
      simp only [Bool.and_eq_true, decide_eq_true_eq, Bool.not_eq_true'] at hc
      have := h2 d hd hc.1.1.1 hc.1.1.2 hc.1.2
      omega
    simp [txR, hd, hc]

theorem onPsend_eq (j : J) (p : Nat) (m : WMsg) (k : Nat) (r : RJ)
    (hidle : p ∈ j.idle) (hk : k ∈ keys) (hr : (j.ctx k).req = some r) (hb : r.body = m.body) (ha : r.answered = false)
    (hu : ∀ k', k' ∈ keys → psendPred j m.body k' = true → k' = k)
    (hs : ∀ id b, (id, b) ∈ j.seen → b = m.body → id = m.hdr)
    (hs2 : (∀ id b, (id, b) ∈ j.seen → b ≠ m.body) → ∀ id b, (id, b) ∈ j.seen → id ≠ m.hdr)
    (h1 : 1 ≤ r.txCount → r.everRetry = true)
    (h2 : ∀ d, r.deadline = some d → 1 ≤ r.txCount → r.clean = true → r.needTx = false → d ≤ j.now) :
    onPsend j p m =
      { j with idle := j.idle.filter (· != p), busy := j.busy ++ [p], seen := seenAdd j.seen m,
               ctx := fun x => if x = k then { j.ctx k with req := some (txR r p m.hdr j.now) } else j.ctx x } := by
  rw [onPsend_cut, psA_eq j p hidle]
  rw [psB_eq { j with idle := j.idle.filter (· != p), busy := j.busy ++ [p] } m hs hs2]
  rw [psC_eq { j with idle := j.idle.filter (· != p), busy := j.busy ++ [p], seen := seenAdd j.seen m } p m k r hk hr hb ha hu h1 h2]
  rfl

end Nng.ReqSpec
