/-
  RESPONDENT judge simulation, part F: the send call (`send`): resp0_ctx_send.
-/
import NngModel.Proofs.RespJudgeEvD
import NngModel.Proofs.RespJudgeEvE
namespace Nng.RespJudge
open Nng Nng.Proto Nng.Respond Nng.SurveySpec

theorem Rel.mono {s : State} {j : RespJ} {used used' : List Bytes} (h : Rel s j used) (hu : ∀ b ∈ used, b ∈ used') :
    Rel s j used' := ⟨h.core.mono hu, h.poll⟩

theorem setCtx_setCtx (s : State) (c1 c2 : Ctx) (h : c2.key = c1.key) : setCtx (setCtx s c1) c2 = setCtx s c2 := by
  unfold setCtx
  simp only [List.map_map]
  congr 1
  apply List.map_congr_left
  intro q _
  simp only [Function.comp]
  by_cases e : (q.key == c1.key) = true
  · have e2 : (q.key == c2.key) = true := by rw [h]; exact e
    simp [e, h]
  · have e2 : ¬ (q.key == c2.key) = true := by rw [h]; exact e
    simp [e, e2]

/-- a context is replaced by one with the same parked operations; the judge learns its new pending survey -/
theorem rel_setCtx_abs {s : State} {j : RespJ} {used : List Bytes} (hc : RelCore s j used) (hk : (s.ctxs.map (·.key)).Nodup)
    {c : Ctx} (c' : Ctx) (hcm : c ∈ s.ctxs) (hkey : c'.key = c.key) (hs : c'.saio = c.saio) (hr : c'.raio = c.raio) :
    RelCore (setCtx s c') (j.setCtx (absCtx c')) used := by
  refine ⟨hc.err, hc.closed, hc.ttl, hc.ttl0, setCtxJ_eq hc.ctxs c', hc.arr, ?_, ?_, hc.aios, hc.gone, hc.infl, hc.bodies, hc.used⟩
  · intro x; rw [prof_setCtx_same hk hcm hkey hr]; exact hc.pr x
  · intro e; rw [psof_setCtx_same hk hcm hkey hs]; exact hc.ps e

/-- a send that fails in the call and leaves the judge's books alone -/
theorem send_fail_ok {s0 : State} {j : RespJ} {used : List Bytes} (hc0 : RelCore s0 j used) (hn0 : NInv s0)
    (k : Option Nat) (a : Nat) (m : WMsg) (mode : Mode) (rv : Nat)
    (hfr : (∀ x ∈ j.pendRecv, x.1 ≠ a) ∧ (∀ e ∈ j.pendSend, e.aio ≠ a)) (h0 : rv ≠ 0)
    (hpre : respPre j (.send k a m mode) [.done a rv none true] = j) :
    Rel s0 (respStep j (.send k a m mode) [.done a rv none true]) used := by
  have hj2 : ctxCloseStep (.send k a m mode) [.done a rv none true]
      (respMid [.done a rv none true] (respPre j (.send k a m mode) [.done a rv none true])) = j := by
    rw [hpre]
    show respOut _ j (.done a rv none true) = j
    apply respOut_done_none
    · rw [List.find?_eq_none]; intro x hx; simpa using hfr.1 x hx
    · rw [List.find?_eq_none]; intro x hx; simpa using hfr.2 x hx
  refine step_finish _ _ hc0.err rfl hn0 hj2 ?_ rfl ?_ (by intro r w h; cases h)
  · rw [unfreshJ_id hc0.fresh]; exact hc0
  · apply pollClause_send
    right
    intro x hx
    simp only [doneOf, List.findSome?_cons, beq_self_eq_true, ↓reduceIte, Option.some.injEq, Prod.mk.injEq] at hx
    exact h0 hx.1

theorem doneOf_single (a rv : Nat) (msg : Option WMsg) (mb : Bool) : doneOf [.done a rv msg mb] a = some (rv, msg) := by
  simp [doneOf]

theorem any_ctx_of_mem {j : RespJ} {k : Option Nat} {e : Expect} (he : e ∈ j.pendSend) (hk : e.ctx = k) :
    j.pendSend.any (·.ctx == k) = true := by
  rw [List.any_eq_true]
  exact ⟨e, he, by simp [hk]⟩

/-- a pipe is replaced by one the judge cannot tell from it -/
theorem rel_setPipe_same {s : State} {j : RespJ} {used : List Bytes} (hc : RelCore s j used) {pp : Pipe} (pp' : Pipe)
    (hg : getPipe s pp.id = some pp) (hi : pp'.id = pp.id) (h1 : pp'.closed = pp.closed) (h2 : pp'.busy = pp.busy)
    (h3 : pp'.held = pp.held) : RelCore (setPipe s pp') j used := by
  refine ⟨hc.err, hc.closed, hc.ttl, hc.ttl0, hc.ctxs, ?_, hc.pr, hc.ps, hc.aios, ?_, ?_, hc.bodies, hc.used⟩
  · show j.arrivals.map some = s.recvpipes.map (arrOf (setPipe s pp'))
    rw [hc.arr]
    apply List.map_congr_left
    intro q _
    exact (arrOf_setPipe_held hg hi h3 q).symm
  · intro q; rw [hc.gone q, closed_setPipe hg hi h1]
  · intro q; rw [hc.infl q, busy_setPipe hg hi h2]

/-- an idle pipe takes a message -/
theorem rel_busy {s : State} {j : RespJ} {used : List Bytes} (hc : RelCore s j used) {pp : Pipe}
    (hg : getPipe s pp.id = some pp) :
    RelCore (setPipe s { pp with busy := true }) { j with inflight := j.inflight ++ [pp.id] } used := by
  refine ⟨hc.err, hc.closed, hc.ttl, hc.ttl0, hc.ctxs, ?_, hc.pr, hc.ps, hc.aios, ?_, ?_, hc.bodies, hc.used⟩
  · show j.arrivals.map some = s.recvpipes.map (arrOf (setPipe s { pp with busy := true }))
    rw [hc.arr]
    apply List.map_congr_left
    intro q _
    exact (arrOf_setPipe_held (pp' := { pp with busy := true }) hg rfl rfl q).symm
  · intro q
    show q ∈ j.gone ↔ _
    rw [hc.gone q, closed_setPipe (pp' := { pp with busy := true }) hg rfl rfl]
  · intro q
    show q ∈ j.inflight ++ [pp.id] ↔ _
    rw [getPipe_setPipe (pp' := { pp with busy := true }) hg rfl]
    by_cases e : q = pp.id
    · subst e; simp
    · rw [if_neg e, List.mem_append, hc.infl q]; simp [e]

theorem handOver_same (s : State) (pp : Pipe) (w : Wire) :
    (handOver s pp w).ctxs = s.ctxs ∧ (handOver s pp w).pipes = (setPipe s { pp with busy := true }).pipes ∧
    (handOver s pp w).recvpipes = s.recvpipes ∧ (handOver s pp w).ttl = s.ttl ∧ (handOver s pp w).opened = s.opened ∧
    (handOver s pp w).closed = s.closed := by
  unfold handOver
  simp only
  split <;> exact ⟨rfl, rfl, rfl, rfl, rfl, rfl⟩

/-- a context parks a send -/
theorem rel_park_send {s : State} {j : RespJ} {used : List Bytes} (hc : RelCore s j used) (hk : (s.ctxs.map (·.key)).Nodup)
    {c : Ctx} (c' : Ctx) (ps : PSend) (hcm : c ∈ s.ctxs) (hkey : c'.key = c.key) (hs0 : c.saio = none) (hs : c'.saio = some ps)
    (hr : c'.raio = c.raio) (hf1 : ∀ y ∈ j.pendRecv, y.1 ≠ ps.aio) (hf2 : ∀ e ∈ j.pendSend, e.aio ≠ ps.aio)
    (hb : ps.m.body ∉ used) :
    RelCore (setCtx s c') { (j.setCtx (absCtx c')) with pendSend := j.pendSend ++ [expOf c' ps] } (ps.m.body :: used) := by
  refine ⟨hc.err, hc.closed, hc.ttl, hc.ttl0, setCtxJ_eq hc.ctxs c', hc.arr, ?_, ?_, ?_, hc.gone, hc.infl, ?_, ?_⟩
  · intro x
    show x ∈ j.pendRecv ↔ _
    rw [prof_setCtx_same hk hcm hkey hr]; exact hc.pr x
  · intro e
    show e ∈ j.pendSend ++ [expOf c' ps] ↔ _
    rw [psof_setCtx hcm hkey]
    simp only [List.mem_append, List.mem_singleton, hc.ps e, psof_split hk hcm e, hs0, hs]
    simp only [Option.some.injEq]
    constructor
    · rintro ((⟨p', hp', _⟩ | h) | h)
      · cases hp'
      · exact Or.inr h
      · exact Or.inl ⟨_, rfl, h⟩
    · rintro (⟨p', hp', h⟩ | h)
      · subst hp'; exact Or.inr h
      · exact Or.inl (Or.inr h)
  · exact aios_add_send (j := j.setCtx (absCtx c')) (e := expOf c' ps) hc.aios hf1 hf2
  · show ((j.pendSend ++ [expOf c' ps]).map (·.body)).Nodup
    rw [List.map_append, List.nodup_append]
    refine ⟨hc.bodies, by simp, ?_⟩
    intro b hb1 b' hb2
    simp only [List.map_cons, List.map_nil, List.mem_singleton] at hb2
    subst hb2
    obtain ⟨e, he, rfl⟩ := List.mem_map.1 hb1
    intro eq
    apply hb
    have := hc.used e he
    rw [eq] at this
    exact this
  · intro e he
    show e.body ∈ ps.m.body :: used
    rcases List.mem_append.1 he with he | he
    · exact List.mem_cons_of_mem _ (hc.used e he)
    · simp only [List.mem_singleton] at he
      subst he
      exact List.mem_cons_self

theorem unfreshJ_append {j : RespJ} {l : List Expect} {e : Expect} (h : ∀ x ∈ l, x.fresh = false) :
    unfreshJ { j with pendSend := l ++ [e] } = { j with pendSend := l ++ [{ e with fresh := false }] } := by
  unfold unfreshJ
  have : l.map (fun e => { e with fresh := false }) = l := by
    conv => rhs; rw [← List.map_id l]
    apply List.map_congr_left
    intro x hx
    have := h x hx
    cases x; simp_all
  simp only [List.map_append, this, List.map_cons, List.map_nil]

/-- the judge on "the send call hands the response to the pipe and completes" -/
theorem wire_mid {j1 : RespJ} {a : Nat} {k : Option Nat} {p q : Nat} {hdr body : Bytes}
    (hq : q ∉ j1.inflight) (hbod : ∀ x ∈ j1.pendSend, (x.body == body) = false)
    (hfr1 : ∀ x ∈ j1.pendRecv, x.1 ≠ a) (hfr2 : ∀ e ∈ j1.pendSend, e.aio ≠ a) (hp : p = q) :
    respMid [.psend q ⟨hdr, body⟩, .done a 0 none false] { j1 with pendSend := j1.pendSend ++ [⟨a, k, p, hdr, body, true⟩] } =
      { j1 with inflight := j1.inflight ++ [q] } := by
  show respOut _ (respOut _ { j1 with pendSend := j1.pendSend ++ [⟨a, k, p, hdr, body, true⟩] } (.psend q ⟨hdr, body⟩)) (.done a 0 none false) = _
  have hf : ({ j1 with pendSend := j1.pendSend ++ [⟨a, k, p, hdr, body, true⟩] } : RespJ).pendSend.find? (·.body == body) =
      some ⟨a, k, p, hdr, body, true⟩ :=
    find_append_fresh _ _ _ hbod (by simp)
  rw [respOut_psend (j := { j1 with pendSend := j1.pendSend ++ [⟨a, k, p, hdr, body, true⟩] })
    (e := ⟨a, k, p, hdr, body, true⟩) hq hf hp rfl (by simp [doneOf])]
  have hfl : (j1.pendSend ++ [(⟨a, k, p, hdr, body, true⟩ : Expect)]).filter (·.aio != a) = j1.pendSend :=
    filter_append_fresh _ _ _ (fun x hx => by simpa using hfr2 x hx) (by simp)
  show respOut _ ({ j1 with inflight := j1.inflight ++ [q], pendSend := (j1.pendSend ++ [(⟨a, k, p, hdr, body, true⟩ : Expect)]).filter (·.aio != a) } : RespJ) _ = _
  rw [hfl]
  apply respOut_done_none
  · show j1.pendRecv.find? _ = none
    rw [List.find?_eq_none]; intro x hx; simpa using hfr1 x hx
  · show j1.pendSend.find? _ = none
    rw [List.find?_eq_none]; intro x hx; simpa using hfr2 x hx

theorem ctxSend_ok {s : State} {j : RespJ} {used : List Bytes} (hR : Rel s j used) (hI : MInv s)
    (k : Option Nat) (c : Ctx) (a : Nat) (m : WMsg) (mode : Mode) (hg : getCtx s k = some c) (hb : aioBusy s a = false)
    (hfresh : m.body ∉ used) :
    Rel (ctxSend s c a m mode).1 (respStep j (.send k a m mode) (ctxSend s c a m mode).2) (m.body :: used) := by
  have hmono : ∀ b ∈ used, b ∈ m.body :: used := fun b hb => List.mem_cons_of_mem _ hb
  have hc := hR.core
  have hcm : c ∈ s.ctxs := getCtx_mem hg
  have hck : c.key = k := getCtx_key hg
  subst hck
  have hfr := aio_fresh hc hb
  have hbt := (hI.r.ctxsOK c hcm).bt
  have hpid := hI.n.pid c hcm
  have hgj : j.getCtx c.key = some (absCtx c) := by
    have := getCtxJ_eq hc.ctxs c.key
    rw [hg] at this; exact this
  unfold ctxSend
  simp only
  have h0 : RelCore (if c.key == none then { s with writable := false } else s) j used := by
    split
    · exact hc.of_eq rfl rfl rfl rfl rfl rfl
    · exact hc
  have hn0 : NInv (if c.key == none then { s with writable := false } else s) := by
    split
    · exact hI.n.of_eq rfl rfl rfl rfl
    · exact hI.n
  have hcm0 : c ∈ (if c.key == none then { s with writable := false } else s).ctxs := by
    split <;> exact hcm
  have hp0 : ∀ q, getPipe (if c.key == none then { s with writable := false } else s) q = getPipe s q := by
    intro q; split <;> rfl
  generalize (if c.key == none then { s with writable := false } else s) = s0 at h0 hn0 hcm0 hp0 ⊢
  split
  · -- zero timeout: nni_aio_start fails first
    rename_i rv hz
    obtain ⟨hzm, hrv, _⟩ := isZero_of_zeroRv_some hz
    refine (send_fail_ok h0 hn0 c.key a m mode rv hfr ?_ ?_).mono hmono
    · rcases hrv with e | e <;> rw [e] <;> decide
    · rw [respPre_send, hzm]
      exact sendPre_gaveUp (doneOf_single a rv none true) hrv
  · rename_i hz
    have hzm := isZero_of_zeroRv_none hz
    split
    · -- previous response still parked
      rename_i hsa
      obtain ⟨ps, hps⟩ : ∃ ps, c.saio = some ps := by
        cases hx : c.saio with
        | none => rw [hx] at hsa; cases hsa
        | some ps => exact ⟨ps, rfl⟩
      refine (send_fail_ok h0 hn0 c.key a m mode Err.estate hfr (by decide) ?_).mono hmono
      rw [respPre_send, hzm]
      have hbusy : j.pendSend.any (·.ctx == c.key) = true :=
        any_ctx_of_mem ((hc.ps _).2 ⟨c, hcm, ps, hps, rfl⟩) rfl
      cases hcur : (absCtx c).cur with
      | none => exact sendPre_estate_none hgj hcur (doneOf_single a _ none true)
      | some ph => exact sendPre_estate_busy (p := ph.1) (h := ph.2) hgj hcur (doneOf_single a _ none true) hbusy
    · rename_i hsa
      have hsa' : c.saio = none := by
        cases hx : c.saio with
        | none => rfl
        | some _ => rw [hx] at hsa; exact absurd rfl hsa
      split
      · -- no pending survey
        rename_i hbe
        refine (send_fail_ok h0 hn0 c.key a m mode Err.estate hfr (by decide) ?_).mono hmono
        rw [respPre_send, hzm]
        have hcur : (absCtx c).cur = none := by simp [absCtx, hbe]
        exact sendPre_estate_none hgj hcur (doneOf_single a _ none true)
      · rename_i hbe
        have hbe' : c.btrace.isEmpty = false := by simpa using hbe
        have hbne : c.btrace ≠ [] := by
          intro e; rw [e] at hbe'; cases hbe'
        obtain ⟨p, hpp, hlast⟩ := hbt hbne
        have hcur : (absCtx c).cur = some (p, c.btrace) := by simp [absCtx, hbe', hpp]
        have habs1 : absCtx { c with btrace := [], pipeId := none } = { absCtx c with cur := none } := rfl
        have h1 : RelCore (setCtx s0 { c with btrace := [], pipeId := none }) (j.setCtx { absCtx c with cur := none }) used := by
          rw [← habs1]
          exact rel_setCtx_abs h0 hn0.keys { c with btrace := [], pipeId := none } hcm0 rfl rfl rfl
        have hn1 : NInv (setCtx s0 { c with btrace := [], pipeId := none }) :=
          ninv_setCtx_same hn0 hcm0 rfl (Or.inl rfl) (Or.inr rfl)
        have hfind1 : (j.setCtx { absCtx c with cur := none }).pendRecv.find? (·.1 == a) = none := by
          show j.pendRecv.find? _ = none
          rw [List.find?_eq_none]; intro x hx; simpa using hfr.1 x hx
        have hfind2 : (j.setCtx { absCtx c with cur := none }).pendSend.find? (·.aio == a) = none := by
          show j.pendSend.find? _ = none
          rw [List.find?_eq_none]; intro x hx; simpa using hfr.2 x hx
        split
        · -- the pipe is gone: the response is discarded
          rename_i hl
          have hgone : p ∈ j.gone := by
            rw [hc.gone p]
            obtain ⟨pp0, hpp0⟩ := hpid p hpp
            rw [hpp0]
            rw [hpp] at hl
            unfold livePipe at hl
            have hg1 : getPipe (setCtx s0 { c with btrace := [], pipeId := none }) p = some pp0 := by
              show getPipe s0 p = _
              rw [hp0]; exact hpp0
            simp only [hg1] at hl
            by_cases hcl : pp0.closed = true
            · simp [hcl]
            · simp [hcl] at hl
          have hj2 : ctxCloseStep (.send c.key a m mode) [.done a 0 none false]
              (respMid [.done a 0 none false] (respPre j (.send c.key a m mode) [.done a 0 none false])) =
              j.setCtx { absCtx c with cur := none } := by
            rw [respPre_send, hzm, sendPre_gone hgj hcur (doneOf_single a 0 none false) (by intro q wm h; simp at h) hgone]
            show respOut _ _ (.done a 0 none false) = _
            exact respOut_done_none hfind1 hfind2
          refine step_finish _ _ hc.err rfl hn1 hj2 ?_ rfl ?_ (by intro r w h; cases h)
          · rw [unfreshJ_id h1.fresh]; exact h1.mono hmono
          · apply pollClause_send
            left
            intro e; rw [e] at hz; cases hz
        · rename_i pp hl
          obtain ⟨hpid', hgp1, hpcl⟩ := livePipe_some hl
          have hpe : p = pp.id := by
            rw [hpp] at hpid'; injection hpid'
          have hgp0 : getPipe s0 pp.id = some pp := hgp1
          have hgps : getPipe s pp.id = some pp := by rw [← hp0]; exact hgp0
          split
          · -- the pipe is idle: the response goes out
            rename_i hbusy
            have hnb : pp.busy = false := by simpa using hbusy
            have hg1 : getPipe (setCtx s0 { c with btrace := [], pipeId := none }) pp.id = some pp := hgp0
            have hninf : pp.id ∉ j.inflight := by
              intro hm
              have := (hc.infl pp.id).1 hm
              rw [hgps] at this
              simp [hnb] at this
            have hbod : ∀ x ∈ j.pendSend, (x.body == m.body) = false := by
              intro x hx
              have := hc.used x hx
              simp only [beq_eq_false_iff_ne, ne_eq]
              intro e; rw [e] at this; exact hfresh this
            have hj2 : ctxCloseStep (.send c.key a m mode) [.psend pp.id ⟨c.btrace, m.body⟩, .done a 0 none false]
                (respMid [.psend pp.id ⟨c.btrace, m.body⟩, .done a 0 none false]
                  (respPre j (.send c.key a m mode) [.psend pp.id ⟨c.btrace, m.body⟩, .done a 0 none false])) =
                { (j.setCtx { absCtx c with cur := none }) with inflight := j.inflight ++ [pp.id] } := by
              rw [respPre_send, hzm, sendPre_wire (m := m) (q := pp.id) (wm := ⟨c.btrace, m.body⟩) hgj hcur (by simp [doneOf])
                List.mem_cons_self rfl]
              exact wire_mid (j1 := j.setCtx { absCtx c with cur := none }) hninf hbod hfr.1 hfr.2 hpe
            have hn2 := handOver_ninv ⟨pp.id, ⟨c.btrace, m.body⟩, c.key, c.last, true⟩ hn1 hg1
            refine step_finish _ _ hc.err rfl hn2 hj2 ?_ rfl ?_ (by intro r w h; cases h)
            · have hb := rel_busy h1 hg1
              obtain ⟨e1, e2, e3, e4, e5, e6⟩ := handOver_same (setCtx s0 { c with btrace := [], pipeId := none }) pp
                ⟨pp.id, ⟨c.btrace, m.body⟩, c.key, c.last, true⟩
              rw [unfreshJ_id (j := { (j.setCtx { absCtx c with cur := none }) with inflight := j.inflight ++ [pp.id] }) hb.fresh]
              exact (hb.of_eq e1 e2 e3 e4 e5 e6).mono hmono
            · apply pollClause_send
              left
              intro e; rw [e] at hz; cases hz
          · -- the pipe is busy: the response is parked
            rename_i hbusy
            have hpb : pp.busy = true := by simpa using hbusy
            have hj2 : ctxCloseStep (.send c.key a m mode) []
                (respMid [] (respPre j (.send c.key a m mode) [])) =
                { (j.setCtx { absCtx c with cur := none }) with pendSend := j.pendSend ++ [⟨a, c.key, p, c.btrace, m.body, true⟩] } := by
              rw [respPre_send, hzm, sendPre_park hgj hcur rfl]
              rfl
            have hsc : setCtx (setCtx s0 { c with btrace := [], pipeId := none })
                { c with btrace := [], pipeId := none, saio := some ⟨a, ⟨c.btrace, m.body⟩, deadlineOf (setCtx s0 { c with btrace := [], pipeId := none }).now mode, pp.id, c.last⟩ } =
                setCtx s0 { c with btrace := [], pipeId := none, saio := some ⟨a, ⟨c.btrace, m.body⟩, deadlineOf (setCtx s0 { c with btrace := [], pipeId := none }).now mode, pp.id, c.last⟩ } :=
              setCtx_setCtx _ _ _ rfl
            have hpark := rel_park_send h0 hn0.keys
              { c with btrace := [], pipeId := none, saio := some ⟨a, ⟨c.btrace, m.body⟩, deadlineOf (setCtx s0 { c with btrace := [], pipeId := none }).now mode, pp.id, c.last⟩ }
              ⟨a, ⟨c.btrace, m.body⟩, deadlineOf (setCtx s0 { c with btrace := [], pipeId := none }).now mode, pp.id, c.last⟩
              hcm0 rfl hsa' rfl rfl hfr.1 hfr.2 hfresh
            have hexp : expOf { c with btrace := [], pipeId := none, saio := some ⟨a, ⟨c.btrace, m.body⟩, deadlineOf (setCtx s0 { c with btrace := [], pipeId := none }).now mode, pp.id, c.last⟩ }
                ⟨a, ⟨c.btrace, m.body⟩, deadlineOf (setCtx s0 { c with btrace := [], pipeId := none }).now mode, pp.id, c.last⟩ =
                ⟨a, c.key, p, c.btrace, m.body, false⟩ := by
              simp [expOf, expPipe, hlast]
            rw [hexp] at hpark
            rw [hsc]
            have hgq : getPipe (setCtx s0 { c with btrace := [], pipeId := none, saio := some ⟨a, ⟨c.btrace, m.body⟩, deadlineOf (setCtx s0 { c with btrace := [], pipeId := none }).now mode, pp.id, c.last⟩ }) pp.id = some pp := hgp0
            have hfin := rel_setPipe_same hpark { pp with sendq := pp.sendq ++ [c.key] } hgq rfl rfl rfl rfl
            have hn2 : NInv (setPipe (setCtx s0 { c with btrace := [], pipeId := none, saio := some ⟨a, ⟨c.btrace, m.body⟩, deadlineOf (setCtx s0 { c with btrace := [], pipeId := none }).now mode, pp.id, c.last⟩ })
                { pp with sendq := pp.sendq ++ [c.key] }) :=
              ninv_setPipe_same (ninv_setCtx_same hn0 hcm0 rfl (Or.inl rfl) (Or.inr rfl)) hgq rfl rfl
            refine step_finish _ _ hc.err rfl hn2 hj2 ?_ rfl ?_ (by intro r w h; cases h)
            · rw [unfreshJ_append (j := j.setCtx { absCtx c with cur := none }) hc.fresh]
              exact hfin
            · apply pollClause_send
              left
              intro e; rw [e] at hz; cases hz

end Nng.RespJudge
