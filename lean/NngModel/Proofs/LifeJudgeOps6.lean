/-
  "The lifecycle judge accepts every trace of the lifecycle model" (C14 / C10), part 14:
  conn_done — the transport completes a connect / accept: errors (redial timer, blocking dial fails,
  listener cool-down or re-arm, close-class results) and new pipes (`startPipe`).
-/
import NngModel.Proofs.LifeJudgeOps5
import NngModel.Proofs.LifeJudgeTweak
namespace Nng.LifeModel
open Nng.Life Nng.Generated
open Nng.LifeSpec (J JPipe JEp JSock upd put KU onOut opConnEp preOp postOp quiescent flat isRace closeErr)

theorem closeErr_dial (rv : Nat) : closeErr rv = lifeDialStopErrs.contains rv := by
  unfold closeErr lifeDialStopErrs
  simp only [List.contains_cons, List.contains_nil, Bool.or_false, Bool.or_assoc]

theorem closeErr_accept (rv : Nat) : closeErr rv = lifeAcceptStopErrs.contains rv := by
  unfold closeErr lifeAcceptStopErrs
  simp only [List.contains_cons, List.contains_nil, Bool.or_false, Bool.or_assoc]

theorem rearm_not_stop (rv : Nat) (h : lifeAcceptRearmErrs.contains rv = true) : closeErr rv = false := by
  unfold lifeAcceptRearmErrs at h
  unfold closeErr
  simp only [List.contains_cons, List.contains_nil, Bool.or_false, Bool.or_eq_true, beq_iff_eq] at h
  rcases h with rfl | rfl | rfl | rfl <;> rfl

def jRedialAt (t : Nat) (x : JEp) : JEp := { x with redialSince := some t }
def jSyncClr (x : JEp) : JEp := { x with syncPending := false }

theorem preOp_connErr (outs : List LOut) (j : J) (ei rv : Nat) (x : JEp) (h2 : outs.contains (.rv (-2)) = true)
    (hx : j.eps.lookup ei = some x) :
    preOp false outs j (.connDone ei (.error rv)) =
      if x.closed || closeErr rv then j
      else if x.dialer then
        (if x.background then { j with eps := upd j.eps ei (jRedialAt j.now) } else { j with eps := upd j.eps ei jSyncClr })
      else { j with eps := upd j.eps ei (jAcc (j.now + lifeAcceptCooldownMs)) } := by
  simp only [preOp, h2, Bool.true_or, if_true, hx]
  rfl

theorem preOp_connErr_no (outs : List LOut) (j : J) (ei rv : Nat) (h2 : outs.contains (.rv (-2)) = false)
    (h3 : outs.contains (.rvh (-2)) = false) : preOp false outs j (.connDone ei (.error rv)) = j := by
  simp only [preOp, h2, h3, Bool.or_self, Bool.false_eq_true, if_false]

theorem any_ext {α : Type} {l : List α} {f g : α → Bool} (h : ∀ a, f a = g a) : l.any f = l.any g := by
  rw [funext h]

theorem preOp_connOk (outs : List LOut) (j : J) (ei peer : Nat) (x : JEp) (hx : j.eps.lookup ei = some x) :
    preOp false outs j (.connDone ei (.ok peer)) =
      if !x.dialer && !x.closed && outs.any isPipeOut then { j with eps := upd j.eps ei (jAcc (j.now + lifeAcceptCooldownMs)) }
      else j := by
  simp only [preOp, hx]
  rw [any_ext (g := isPipeOut)]
  · rfl
  · intro o; cases o <;> rfl

theorem preOp_connOk_none (outs : List LOut) (j : J) (ei peer : Nat) (hx : j.eps.lookup ei = none) :
    preOp false outs j (.connDone ei (.ok peer)) = j := by
  simp only [preOp, hx]

theorem any_pipe_false {l : List LOut} (h : NP l) : l.any isPipeOut = false := by
  apply List.any_eq_false.mpr
  intro o ho; rw [h o ho]; simp

/-- conn_done for an endpoint that does not exist or has no connect / accept armed -/
theorem sim_conn_none (st : State) (j : J) (ei : Nat) (r : Except Nat Nat) (orc : List Nat) (hr : Rel st j)
    (hu : st.unmodelled = false) (h : apply st (.connDone ei r) = (st, [.rv (-1)])) :
    Rel (step st (.connDone ei r) orc).1 (Nng.LifeSpec.step j (.connDone ei r) (step st (.connDone ei r) orc).2) := by
  have hnp : NP ([LOut.rv (-1)] ++ (fireTimers orc st).2) :=
    NP.append (by intro o ho; rw [List.mem_singleton.mp ho]; rfl) (fire_NP _ _)
  refine finish_simple st j _ orc hr hu rfl (fun _ _ => rfl) (by rw [h]; intro o ho; rw [List.mem_singleton.mp ho]; rfl) noSel j ?_ ?_
    (noSel_triv _) ?_ ?_
  · rw [h]
    simp only [List.foldl_cons, List.foldl_nil]
    have hpre : preOp false ([LOut.rv (-1)] ++ (fireTimers orc st).2) (advJ j (.connDone ei r)) (.connDone ei r) = j := by
      cases r with
      | error rv =>
        apply preOp_connErr_no
        · apply contains_false
          intro o ho
          rcases List.mem_append.mp ho with ho | ho
          · rw [List.mem_singleton.mp ho]; exact rv_ne (by decide)
          · exact earms_ne _ _ _ (fun e hh => by cases hh) o ho
        · apply contains_false
          intro o ho
          rcases List.mem_append.mp ho with ho | ho
          · rw [List.mem_singleton.mp ho]; intro hh; cases hh
          · exact earms_ne _ _ _ (fun e hh => by cases hh) o ho
      | ok peer =>
        show preOp false _ j _ = j
        cases hl : j.eps.lookup ei with
        | none => exact preOp_connOk_none _ _ _ _ hl
        | some x =>
          rw [preOp_connOk _ _ _ _ x hl, any_pipe_false hnp]
          simp
    rw [hpre]; rfl
  · rw [h]; exact hr.mid
  · rw [h]; exact hr.ctxs
  · rw [h]; exact hr.pend


theorem Mid_apply (st : State) (j : J) (op : LOp) (hr : Rel st j) (ja : J) (hn : ja.now = (apply st op).1.now)
    (h14 : ja.err14 = none) (h10 : ja.err10 = none) (hs : SocksRel (apply st op).1 ja)
    (he : EpsRel noSel (apply st op).1 ja) (hp : PipesRel (apply st op).1 ja) : Mid noSel (apply st op).1 ja :=
  have hG := apply_G st op hr.inv.g
  ⟨hG.s.w, apply_inv st op hr.pinv, lso_of_G hG, hn, h14, h10, hs, he, hp⟩

def unarmF (x : Ep) : Ep := { x with armed := false, userAio := false }

theorem connDialer_err_eq (st : State) (e : Ep) (rv : Nat) :
    connDialer st e (.error rv) =
      (setEp st e.idx (if lifeDialStopErrs.contains rv then fun x => { unarmF x with stopped := true }
        else if !e.userAio then fun x => timerStart st.now (unarmF x) else unarmF),
       [.rv (-2)] ++ (if e.userAio then [.dialrv e.idx rv] else [])) := by
  unfold connDialer
  simp only
  congr 1
  by_cases hs : lifeDialStopErrs.contains rv = true
  · rw [if_pos hs, if_pos hs, setEp_setEp st e.idx (fun x => { x with armed := false, userAio := false }) _ (fun _ => rfl)]; rfl
  · rw [if_neg hs, if_neg hs]
    by_cases hu : (!e.userAio) = true
    · rw [if_pos hu, if_pos hu, setEp_setEp st e.idx (fun x => { x with armed := false, userAio := false }) _ (fun _ => rfl)]; rfl
    · rw [if_neg hu, if_neg hu]; rfl

theorem ER_dial_stop {e : Ep} {x x' : JEp} (h : ER noSel e x) (hinv : EpInv e) (ha : e.armed = true)
    (h1 : x'.dialer = x.dialer) (h2 : x'.sock = x.sock) (h3 : x'.closed = x.closed) (h4 : x'.cfgMax = x.cfgMax)
    (h5 : x'.syncPending = false) (h6 : x'.redialSince = x.redialSince) (h7 : x'.acceptBy = x.acceptBy) (s : Bool) :
    ER noSel { unarmF e with stopped := s } x' := by
  have hex := hinv.armed_excl ha
  constructor
  · rw [h1]; exact h.dialer
  · rw [h2]; exact h.sock
  · rw [h3]; exact h.closed
  · rw [h4]; exact h.cfg
  · rw [h5]; rfl
  · intro _ hh; cases hh
  · intro _ hh
    rcases hh with hh | hh
    · have : e.timer.isSome = true := hh
      rw [hex.1] at this; cases this
    · have : e.dPipe.isSome = true := hh
      rw [hex.2.1] at this; cases this
  · intro hc t ht; rw [h3] at hc; rw [h6] at ht; exact h.redial hc t ht
  · intro hc t ht; rw [h3] at hc; rw [h7] at ht; exact h.accept hc t ht

theorem ER_dial_timer {e : Ep} {x : JEp} (now : Nat) (h : ER noSel e x) (hinv : EpInv e) (ha : e.armed = true)
    (hd : e.dialer = true) (hu : e.userAio = false) :
    ER noSel (timerStart now (unarmF e)) (jRedialAt now x) := by
  have hex := hinv.armed_excl ha
  have hop := hinv.armed_open ha
  have hbg : x.background = true := by rw [h.bg hd ha, hu]; rfl
  have htm : (timerStart now (unarmF e)).timer = some (now, e.curr) := by
    rw [timerStart_timer]; show (if e.closed then none else some (now, e.curr)) = _; rw [hop]; rfl
  constructor
  · exact h.dialer
  · exact h.sock
  · exact h.closed
  · exact h.cfg
  · show x.syncPending = false; rw [h.sync, hu]
  · intro _ hh; cases hh
  · intro _ _; exact ⟨hbg, rfl⟩
  · intro _ t ht
    simp only [jRedialAt, Option.some.injEq] at ht
    subst ht; exact ⟨e.curr, htm⟩
  · intro hc t ht
    show (timerStart now (unarmF e)).cool = some t
    rw [timerStart_cool]; exact h.accept hc t ht


theorem upd_id {α : Type} (l : List (Nat × α)) (k : Nat) : upd l k (fun x => x) = l := by
  unfold upd
  conv => rhs; rw [← List.map_id l]
  apply List.map_congr_left
  intro kx _
  obtain ⟨k', x⟩ := kx
  simp

theorem rv2_contains (l e : List LOut) : (([LOut.rv (-2)] ++ l) ++ e).contains (.rv (-2)) = true :=
  contains_true (by simp)

/-- conn_done results that change one endpoint in the model and one record in the judge -/
theorem conn_core (st : State) (j : J) (e : Ep) (r : Except Nat Nat) (orc : List Nat) (hr : Rel st j)
    (hu : st.unmodelled = false) (he : e ∈ st.eps) (F : Ep → Ep) (U : JEp → JEp) (outs : List LOut)
    (happ : apply st (.connDone e.idx r) = (setEp st e.idx F, outs)) (hnp : NP outs) (hidx : ∀ y, (F y).idx = y.idx)
    (hfold : outs.foldl (onOut (.connDone e.idx r))
        (preOp false (outs ++ (fireTimers orc (setEp st e.idx F)).2) j (.connDone e.idx r)) =
        { j with eps := upd j.eps e.idx U })
    (hERU : ∀ x0, ER noSel e x0 → ER noSel (F e) (U x0)) :
    Rel (step st (.connDone e.idx r) orc).1 (Nng.LifeSpec.step j (.connDone e.idx r) (step st (.connDone e.idx r) orc).2) := by
  have huniq : ∀ e0 ∈ st.eps, e0.idx = e.idx → e0 = e := fun e0 he0 hi => hr.mid.w.idxE.unique he0 he hi
  refine finish_simple st j _ orc hr hu rfl (fun _ _ => rfl) (by rw [happ]; exact hnp) noSel
    { j with eps := upd j.eps e.idx U } (by rw [happ]; exact hfold) ?_ (noSel_triv _) ?_ ?_
  · apply Mid_apply st j _ hr
    · rw [happ]; exact hr.mid.now
    · exact hr.mid.e14
    · exact hr.mid.e10
    · rw [happ]; exact hr.mid.socks
    · rw [happ]
      refine hr.mid.eps.upd1 e.idx F U rfl rfl hidx ?_
      intro e0 he0 x0 hx0
      refine ⟨fun hi => ?_, fun _ => hx0⟩
      rw [huniq e0 he0 hi] at hx0 ⊢
      exact hERU x0 hx0
    · rw [happ]; exact hr.mid.pipes
  · rw [happ]; exact hr.ctxs
  · rw [happ]; exact hr.pend

theorem setEp_id (st : State) (i : Nat) : setEp st i (fun y => y) = st := by
  unfold setEp
  have : (st.eps.map fun x => if x.idx == i then x else x) = st.eps := by
    conv => rhs; rw [← List.map_id st.eps]
    apply List.map_congr_left
    intro x _; simp
  rw [this]

/-- conn_done with an error for an armed dialer -/
theorem sim_conn_dialer_err (st : State) (j : J) (e : Ep) (rv : Nat) (orc : List Nat) (hr : Rel st j)
    (hu : st.unmodelled = false) (he : e ∈ st.eps) (ha : e.armed = true) (hd : e.dialer = true)
    (h : apply st (.connDone e.idx (.error rv)) = connDialer st e (.error rv)) :
    Rel (step st (.connDone e.idx (.error rv)) orc).1
      (Nng.LifeSpec.step j (.connDone e.idx (.error rv)) (step st (.connDone e.idx (.error rv)) orc).2) := by
  rw [connDialer_err_eq] at h
  obtain ⟨x, hx, hER⟩ := hr.mid.eps.fwd e he
  have hinv := (hr.mid.w.epInv e he).1
  have hopen := hinv.armed_open ha
  have hxc : x.closed = false := by rw [hER.closed, hopen]; rfl
  have hxd : x.dialer = true := by rw [hER.dialer, hd]
  have hxb : x.background = !e.userAio := hER.bg hd ha
  have core := fun F U outs => conn_core st j e (.error rv) orc hr hu he F U outs
  have hnp1 : NP [LOut.rv (-2)] := by intro o ho; rw [List.mem_singleton.mp ho]; rfl
  have hnp2 : NP [LOut.dialrv e.idx rv] := by intro o ho; rw [List.mem_singleton.mp ho]; rfl
  by_cases hs : lifeDialStopErrs.contains rv = true
  · have hce : closeErr rv = true := by rw [closeErr_dial]; exact hs
    rw [if_pos hs] at h
    cases hua : e.userAio with
    | true =>
      rw [hua] at h
      simp only [if_true] at h
      refine core _ (jSyncOff rv) _ h (hnp1.append hnp2) (fun _ => rfl) ?_ ?_
      · rw [preOp_connErr _ _ _ _ x (rv2_contains _ _) hx, hce]
        simp only [Bool.or_true, if_true, List.foldl_append, List.foldl_cons, List.foldl_nil]
        rfl
      · intro x0 hx0
        exact ER_dial_stop (x' := jSyncOff rv x0) hx0 hinv ha rfl rfl rfl rfl rfl rfl rfl true
    | false =>
      rw [hua] at h
      simp only [Bool.false_eq_true, if_false, List.append_nil] at h
      refine core _ (fun y => y) _ h hnp1 (fun _ => rfl) ?_ ?_
      · have hc := rv2_contains [] (fireTimers orc (setEp st e.idx fun x => { unarmF x with stopped := true })).2
        simp only [List.append_nil] at hc
        rw [preOp_connErr _ _ _ _ x hc hx, hce, upd_id]
        simp only [Bool.or_true, if_true, List.foldl_cons, List.foldl_nil]
        rfl
      · intro x0 hx0
        exact ER_dial_stop (x' := x0) hx0 hinv ha rfl rfl rfl rfl (by rw [hx0.sync, hua]) rfl rfl true
  · have hce : closeErr rv = false := by rw [closeErr_dial]; simpa using hs
    rw [if_neg hs] at h
    cases hua : e.userAio with
    | true =>
      rw [hua] at h
      simp only [Bool.not_true, Bool.false_eq_true, if_false, if_true] at h
      refine core _ (fun y => jSyncOff rv (jSyncClr y)) _ h (hnp1.append hnp2) (fun _ => rfl) ?_ ?_
      · rw [preOp_connErr _ _ _ _ x (rv2_contains _ _) hx, hce, hxc, hxd, hxb, hua]
        simp only [Bool.or_self, Bool.false_eq_true, if_false, if_true, Bool.not_true, List.foldl_append, List.foldl_cons,
          List.foldl_nil]
        show ({ j with eps := upd (upd j.eps e.idx jSyncClr) e.idx (jSyncOff rv) } : J) = _
        rw [Nng.LifeSpec.upd_upd]; rfl
      · intro x0 hx0
        have := ER_dial_stop (x' := jSyncOff rv (jSyncClr x0)) hx0 hinv ha rfl rfl rfl rfl rfl rfl rfl e.stopped
        exact this
    | false =>
      rw [hua] at h
      simp only [Bool.not_false, if_true, Bool.false_eq_true, if_false, List.append_nil] at h
      refine core _ (jRedialAt j.now) _ h hnp1 (fun _ => rfl) ?_ ?_
      · have hc := rv2_contains [] (fireTimers orc (setEp st e.idx fun x => timerStart st.now (unarmF x))).2
        simp only [List.append_nil] at hc
        rw [preOp_connErr _ _ _ _ x hc hx, hce, hxc, hxd, hxb, hua]
        simp only [Bool.or_self, Bool.false_eq_true, if_false, if_true, Bool.not_false, List.foldl_cons, List.foldl_nil]
        rfl
      · intro x0 hx0
        rw [hr.mid.now]
        exact ER_dial_timer st.now hx0 hinv ha hd hua


theorem ER_listener {e e' : Ep} {x x' : JEp} (h : ER noSel e x) (hl : e.dialer = false)
    (m1 : e'.idx = e.idx) (m2 : e'.sock = e.sock) (m3 : e'.dialer = e.dialer) (m4 : e'.closed = e.closed) (m5 : e'.cap = e.cap)
    (m6 : e'.userAio = e.userAio)
    (h1 : x'.dialer = x.dialer) (h2 : x'.sock = x.sock) (h3 : x'.closed = x.closed) (h4 : x'.cfgMax = x.cfgMax)
    (h5 : x'.syncPending = x.syncPending) (h6 : x'.closed = false → ∀ t, x'.redialSince = some t → ∃ b, e'.timer = some (t, b))
    (h7 : x'.closed = false → ∀ t, x'.acceptBy = some t → e'.cool = some t) : ER noSel e' x' := by
  constructor
  · rw [h1, m3]; exact h.dialer
  · rw [h2, m2]; exact h.sock
  · rw [h3, m1, m2, m3, m4]; exact h.closed
  · rw [h4, m5]; exact h.cfg
  · rw [h5, m6]; exact h.sync
  · intro hd; rw [m3, hl] at hd; cases hd
  · intro hd; rw [m3, hl] at hd; cases hd
  · exact h6
  · exact h7

/-- conn_done with an error for an armed listener -/
theorem sim_conn_listener_err (st : State) (j : J) (e : Ep) (rv : Nat) (orc : List Nat) (hr : Rel st j)
    (hu : st.unmodelled = false) (he : e ∈ st.eps) (ha : e.armed = true) (hd : e.dialer = false)
    (h : apply st (.connDone e.idx (.error rv)) = connListener st e (.error rv)) :
    Rel (step st (.connDone e.idx (.error rv)) orc).1
      (Nng.LifeSpec.step j (.connDone e.idx (.error rv)) (step st (.connDone e.idx (.error rv)) orc).2) := by
  obtain ⟨x, hx, hER⟩ := hr.mid.eps.fwd e he
  have hinv := (hr.mid.w.epInv e he).1
  have hopen := hinv.armed_open ha
  have hxc : x.closed = false := by rw [hER.closed, hopen]; rfl
  have hxd : x.dialer = false := by rw [hER.dialer, hd]
  have hnp1 : NP [LOut.rv (-2)] := by intro o ho; rw [List.mem_singleton.mp ho]; rfl
  unfold connListener at h
  simp only at h
  by_cases hre : lifeAcceptRearmErrs.contains rv = true
  · rw [if_pos hre] at h
    have hce := rearm_not_stop rv hre
    have h' : apply st (.connDone e.idx (.error rv)) = (setEp st e.idx (fun y => y), [.rv (-2), .earm e.idx]) := by
      rw [setEp_id]; exact h
    clear h
    have h := h'
    refine conn_core st j e _ orc hr hu he (fun y => y) (fun y => jClr (jAcc (j.now + lifeAcceptCooldownMs) y)) _ h ?_
      (fun _ => rfl) ?_ ?_
    · intro o ho; simp at ho; rcases ho with rfl | rfl <;> rfl
    · have hc : (([LOut.rv (-2), LOut.earm e.idx]) ++ (fireTimers orc (setEp st e.idx fun y => y)).2).contains (.rv (-2)) = true :=
        contains_true (by simp)
      rw [preOp_connErr _ _ _ _ x hc hx, hce, hxc, hxd]
      simp only [Bool.or_self, Bool.false_eq_true, if_false, List.foldl_cons, List.foldl_nil]
      have h1 : ∀ j', onOut (.connDone e.idx (.error rv)) j' (.rv (-2)) = j' := fun _ => rfl
      rw [h1]
      rw [onOut_earm _ _ e.idx (jAcc (j.now + lifeAcceptCooldownMs) x) (by
        show (upd j.eps e.idx _).lookup e.idx = _
        rw [Nng.LifeSpec.lookup_upd, hx]; simp) hxc]
      show ({ j with eps := upd (upd j.eps e.idx _) e.idx jClr } : J) = _
      rw [Nng.LifeSpec.upd_upd]; rfl
    · intro x0 hx0
      exact ER_listener (x' := jClr (jAcc (j.now + lifeAcceptCooldownMs) x0)) hx0 hd rfl rfl rfl rfl rfl rfl rfl rfl rfl rfl rfl
        (fun _ t ht => by cases ht) (fun _ t ht => by cases ht)
  · rw [if_neg hre] at h
    by_cases hs : lifeAcceptStopErrs.contains rv = true
    · rw [if_pos hs] at h
      have hce : closeErr rv = true := by rw [closeErr_accept]; exact hs
      refine conn_core st j e _ orc hr hu he _ (fun y => y) _ h hnp1 (fun _ => rfl) ?_ ?_
      · have hc := rv2_contains [] (fireTimers orc (setEp st e.idx fun x => { x with armed := false, stopped := true })).2
        simp only [List.append_nil] at hc
        rw [preOp_connErr _ _ _ _ x hc hx, hce, upd_id]
        simp only [Bool.or_true, if_true, List.foldl_cons, List.foldl_nil]
        rfl
      · intro x0 hx0
        exact ER_listener (x' := x0) hx0 hd rfl rfl rfl rfl rfl rfl rfl rfl rfl rfl rfl (fun hc t ht => hx0.redial hc t ht)
          (fun hc t ht => hx0.accept hc t ht)
    · rw [if_neg hs] at h
      have hce : closeErr rv = false := by rw [closeErr_accept]; simpa using hs
      refine conn_core st j e _ orc hr hu he _ (jAcc (j.now + lifeAcceptCooldownMs)) _ h hnp1 (fun _ => rfl) ?_ ?_
      · have hc := rv2_contains []
          (fireTimers orc (setEp st e.idx fun x => { x with armed := false, cool := some (st.now + lifeAcceptCooldownMs) })).2
        simp only [List.append_nil] at hc
        rw [preOp_connErr _ _ _ _ x hc hx, hce, hxc, hxd]
        simp only [Bool.or_self, Bool.false_eq_true, if_false, List.foldl_cons, List.foldl_nil]
        rfl
      · intro x0 hx0
        refine ER_listener (x' := jAcc (j.now + lifeAcceptCooldownMs) x0) hx0 hd rfl rfl rfl rfl rfl rfl rfl rfl rfl rfl rfl
          (fun hc t ht => hx0.redial hc t ht) ?_
        intro _ t ht
        simp only [jAcc, Option.some.injEq] at ht
        subst ht
        show some (st.now + lifeAcceptCooldownMs) = _
        rw [hr.mid.now]


/-- a step whose first event is `pipe`, without bookkeeping after the events -/
theorem finish_pipe (st : State) (j : J) (op : LOp) (orc : List Nat) (hr : Rel st j) (hu : st.unmodelled = false)
    (hrace : isRace op = false) (hpost : ∀ outs j', postOp outs j' op = j') (i : Nat) (a : List LOut)
    (happ : (apply st op).2 = .pipe i :: a) (hnp : NP a) (ja : J)
    (hja : a.foldl (onOut op)
      (onOut op (preOp false (.pipe i :: a ++ (fireTimers orc (apply st op).1).2) (advJ j op) op) (.pipe i)) = ja)
    (hm : Mid noSel (apply st op).1 ja) (hc : CtxsRel (apply st op).1 ja) (hp : PendRel (apply st op).1 ja) :
    Rel (step st op orc).1 (Nng.LifeSpec.step j op (step st op orc).2) := by
  obtain ⟨h1, s1⟩ := fire_fin noSel op orc (apply st op).1 ja hm (noSel_triv _)
  apply assemble st j op orc hr (((fireTimers orc (apply st op).1).2).foldl (onOut op) ja)
  · rw [step_def st op orc hu]
    simp only
    rw [happ, jstep_pipe j op i a _ hrace hnp (fire_NP _ _), hpost, hja]
  · rw [step_def st op orc hu]; exact h1
  · rw [step_def st op orc hu]; exact CtxsRel_of hc rfl s1.2.2.1
  · rw [step_def st op orc hu]; exact PendRel_of hp rfl s1.2.2.2.1

theorem ER_dialOk {e : Ep} {x x' : JEp} (i : Nat) (h : ER noSel e x) (hinv : EpInv e) (ha : e.armed = true)
    (h1 : x'.dialer = x.dialer) (h2 : x'.sock = x.sock) (h3 : x'.closed = x.closed) (h4 : x'.cfgMax = x.cfgMax)
    (h5 : x'.syncPending = false) (h6 : x'.background = true) (h7 : x'.redialSince = x.redialSince)
    (h8 : x'.acceptBy = x.acceptBy) : ER noSel (dialOk i e) x' := by
  have hex := hinv.armed_excl ha
  constructor
  · rw [h1]; exact h.dialer
  · rw [h2]; exact h.sock
  · rw [h3]; exact h.closed
  · rw [h4]; exact h.cfg
  · rw [h5]; rfl
  · intro _ hh; cases hh
  · intro _ _; exact ⟨h6, rfl⟩
  · intro hc t ht; rw [h3] at hc; rw [h7] at ht; exact h.redial hc t ht
  · intro hc t ht; rw [h3] at hc; rw [h8] at ht; exact h.accept hc t ht


theorem onOut_dialrv0 (op : LOp) (j : J) (e : Nat) : onOut op j (.dialrv e 0) = Tf (jSyncOff 0) e j := rfl

/-- conn_done with a connection for an armed dialer -/
theorem sim_conn_dialer_ok (st : State) (j : J) (e : Ep) (peer : Nat) (orc : List Nat) (hr : Rel st j)
    (hu : st.unmodelled = false) (he : e ∈ st.eps) (ha : e.armed = true) (hd : e.dialer = true)
    (h : apply st (.connDone e.idx (.ok peer)) = connDialer st e (.ok peer)) :
    Rel (step st (.connDone e.idx (.ok peer)) orc).1
      (Nng.LifeSpec.step j (.connDone e.idx (.ok peer)) (step st (.connDone e.idx (.ok peer)) orc).2) := by
  obtain ⟨x, hx, hER⟩ := hr.mid.eps.fwd e he
  have hinv := (hr.mid.w.epInv e he).1
  have hex := hinv.armed_excl ha
  have hopen := hinv.armed_open ha
  have hxd : x.dialer = true := by rw [hER.dialer, hd]
  have huniq : ∀ e0 ∈ st.eps, e0.idx = e.idx → e0 = e := fun e0 he0 hi => hr.mid.w.idxE.unique he0 he hi
  let st1 := setEp st e.idx (dialOk st.pipes.length)
  have heq : connDialer st e (.ok peer) =
      ((startPipe st1 { idx := st1.pipes.length, ep := e.idx, sock := e.sock } peer).1,
       (startPipe st1 { idx := st1.pipes.length, ep := e.idx, sock := e.sock } peer).2 ++
         (if e.userAio then [.dialrv e.idx 0] else [])) := rfl
  rw [heq] at h
  -- the judge record of the dialer once `dialrv` is taken into account
  let j0 : J := if e.userAio then Tf (jSyncOff 0) e.idx j else j
  have hj0eps : EpsRel noSel st1 j0 := by
    cases hua : e.userAio with
    | true =>
      simp only [j0, hua, if_true]
      refine hr.mid.eps.upd1 e.idx (dialOk st.pipes.length) (jSyncOff 0) rfl rfl (fun _ => rfl) ?_
      intro e0 he0 x0 hx0
      refine ⟨fun hi => ?_, fun _ => hx0⟩
      rw [huniq e0 he0 hi] at hx0 ⊢
      exact ER_dialOk (x' := jSyncOff 0 x0) _ hx0 hinv ha rfl rfl rfl rfl rfl (by simp [jSyncOff]) rfl rfl
    | false =>
      simp only [j0, hua, Bool.false_eq_true, if_false]
      refine hr.mid.eps.model1 e.idx (dialOk st.pipes.length) rfl rfl (fun _ => rfl) ?_
      intro e0 he0 x0 hx0
      refine ⟨fun hi => ?_, fun _ => hx0⟩
      rw [huniq e0 he0 hi] at hx0 ⊢
      exact ER_dialOk (x' := x0) _ hx0 hinv ha rfl rfl rfl rfl (by rw [hx0.sync, hua])
        (by rw [hx0.bg hd ha, hua]; rfl) rfl rfl
  have hj0same : j0.now = j.now ∧ j0.socks = j.socks ∧ j0.pipes = j.pipes ∧ j0.ctxs = j.ctxs ∧ j0.pend = j.pend ∧
      j0.err14 = j.err14 ∧ j0.err10 = j.err10 := by
    simp only [j0]; split <;> exact ⟨rfl, rfl, rfl, rfl, rfl, rfl, rfl⟩
  obtain ⟨x1, hx1, hER1⟩ := hj0eps.fwd (dialOk st.pipes.length e) (by
    show _ ∈ (st.eps.map _)
    exact List.mem_map.mpr ⟨e, he, by simp⟩)
  have hone : x1.dialer = true → ∀ p ∈ st1.pipes, p.ep = e.idx → p.reaped = true := by
    intro _ p hp hpe
    cases hl : p.reaped with
    | true => rfl
    | false =>
      have := (hr.mid.w.own p hp hl e he hpe.symm).2 hd
      rw [hex.2.1] at this; cases this
  obtain ⟨rest, hrest, hevs, hmid, hsame⟩ := startPipe_sim (.connDone e.idx (.ok peer)) rfl st1 j0 e.idx e.sock peer x1
    (fun q h1 h2 h3 h4 => dial_ok_W st e q hr.mid.w he ha hd h1 h2 h3 h4) hr.mid.pinv hr.mid.lso
    (hr.inv.g.s.epsOpen e he hopen) (hj0same.1.trans hr.mid.now) (hj0same.2.2.2.2.2.1.trans hr.mid.e14)
    (hj0same.2.2.2.2.2.2.trans hr.mid.e10) (by intro s; rw [hj0same.2.1]; exact hr.mid.socks s) hj0eps
    (by unfold PipesRel; rw [hj0same.2.2.1]; exact hr.mid.pipes) (by intro s x hx'; rw [hj0same.2.1] at hx'; exact hr.cb s x hx')
    hr.mid.w.idxP rfl hx1 hER1.sock hone
  have hsa := startPipe_same st1 { idx := st1.pipes.length, ep := e.idx, sock := e.sock } peer
  have hpre : ∀ outs, preOp false outs (advJ j (.connDone e.idx (.ok peer))) (.connDone e.idx (.ok peer)) = j := by
    intro outs
    show preOp false outs j _ = j
    rw [preOp_connOk _ _ _ _ x hx, hxd]; rfl
  refine finish_pipe st j _ orc hr hu rfl (fun _ _ => rfl) st1.pipes.length (rest ++ (if e.userAio then [.dialrv e.idx 0] else []))
    (by rw [h]; simp only; rw [hrest]; rfl) ?_
    (rest.foldl (onOut (.connDone e.idx (.ok peer))) (onOut (.connDone e.idx (.ok peer)) j0 (.pipe st1.pipes.length))) ?_
    (by rw [h]; exact hmid) ?_ ?_
  · apply NP.append (NP_of_evs hevs)
    intro o ho
    split at ho
    · rw [List.mem_singleton.mp ho]; rfl
    · cases ho
  · rw [hpre]
    cases hua : e.userAio with
    | true =>
      simp only [j0, hua, if_true, List.foldl_append, List.foldl_cons, List.foldl_nil]
      rw [onOut_dialrv0, Tf_pipe _ _ tweak_syncOff, Tf_fold _ _ tweak_syncOff _ _ _ hevs]
    | false =>
      simp only [j0, hua, Bool.false_eq_true, if_false, List.append_nil]
  · rw [h]; exact CtxsRel_of hr.ctxs hsa.2.2.2 (hsame.2.2.1.trans hj0same.2.2.2.1)
  · rw [h]; exact PendRel_of hr.pend hsa.1 (hsame.2.2.2.1.trans hj0same.2.2.2.2.1)


theorem killPipe_listener (st : State) (i : Nat) (y : Ep) (hy : y ∈ st.eps) (hl : y.dialer = false) :
    y ∈ (killPipe st i).1.eps := by
  rcases killPipe_shape st i with hs | ⟨p, _, _, _, _, heps, _⟩
  · rw [hs]; exact hy
  · rw [heps]
    apply List.mem_map.mpr
    refine ⟨y, hy, ?_⟩
    split
    · exact pipeRemoved_listener _ _ _ hl
    · rfl

theorem startPipe_listener (st : State) (i ei sk peer : Nat) (y : Ep) (hy : y ∈ st.eps) (hl : y.dialer = false) :
    y ∈ (startPipe st { idx := i, ep := ei, sock := sk } peer).1.eps := by
  rw [startPipe_eq]
  split
  · exact killPipe_listener _ _ y hy hl
  · split
    · exact killPipe_listener _ _ y hy hl
    · simp only
      split <;> exact hy

/-- conn_done with a connection for an armed listener -/
theorem sim_conn_listener_ok (st : State) (j : J) (e : Ep) (peer : Nat) (orc : List Nat) (hr : Rel st j)
    (hu : st.unmodelled = false) (he : e ∈ st.eps) (ha : e.armed = true) (hd : e.dialer = false)
    (h : apply st (.connDone e.idx (.ok peer)) = connListener st e (.ok peer)) :
    Rel (step st (.connDone e.idx (.ok peer)) orc).1
      (Nng.LifeSpec.step j (.connDone e.idx (.ok peer)) (step st (.connDone e.idx (.ok peer)) orc).2) := by
  obtain ⟨x, hx, hER⟩ := hr.mid.eps.fwd e he
  have hinv := (hr.mid.w.epInv e he).1
  have hopen := hinv.armed_open ha
  have hxd : x.dialer = false := by rw [hER.dialer, hd]
  have hxc : x.closed = false := by rw [hER.closed, hopen]; rfl
  have huniq : ∀ e0 ∈ st.eps, e0.idx = e.idx → e0 = e := fun e0 he0 hi => hr.mid.w.idxE.unique he0 he hi
  let st1 := setEp st e.idx fun x => { x with armed := false }
  let r := startPipe st1 { idx := st1.pipes.length, ep := e.idx, sock := e.sock } peer
  have heq : connListener st e (.ok peer) = (setEp r.1 e.idx fun x => { x with armed := true }, r.2 ++ [.earm e.idx]) := rfl
  rw [heq] at h
  have hG := apply_G st (.connDone e.idx (.ok peer)) hr.inv.g
  rw [h] at hG
  have hw1 : W st1 :=
    setEp_W st e.idx _ hr.mid.w (fun _ => rfl) (fun _ => rfl) (fun _ => rfl) (fun _ => rfl)
      (fun y hy _ => ⟨armedOff_inv y (hr.mid.w.epInv y hy).1, (hr.mid.w.epInv y hy).2⟩)
  have heps1 : EpsRel noSel st1 j := by
    refine hr.mid.eps.model1 e.idx (fun x => { x with armed := false }) rfl rfl (fun _ => rfl) ?_
    intro e0 he0 x0 hx0
    refine ⟨fun hi => ?_, fun _ => hx0⟩
    rw [huniq e0 he0 hi] at hx0 ⊢
    exact ER_listener (x' := x0) hx0 hd rfl rfl rfl rfl rfl rfl rfl rfl rfl rfl rfl (fun hc t ht => hx0.redial hc t ht)
      (fun hc t ht => hx0.accept hc t ht)
  obtain ⟨x1, hx1, hER1⟩ := heps1.fwd ({ e with armed := false }) (by
    show _ ∈ (st.eps.map _)
    exact List.mem_map.mpr ⟨e, he, by simp⟩)
  have hx1d : x1.dialer = false := by rw [hER1.dialer]; exact hd
  obtain ⟨rest, hrest, hevs, hmid, hsame⟩ := startPipe_sim (.connDone e.idx (.ok peer)) rfl st1 j e.idx e.sock peer x1
    (fun q h1 h2 h3 h4 => append_W st1 q hw1 h1 (by rw [h2]; show e.idx < (st.eps.map _).length; rw [List.length_map]; exact hr.mid.w.idxE.lt he)
      (by
        intro y hy hi
        rcases mem_setEp hy with ⟨y0, hy0, ⟨hi0, rfl⟩ | ⟨hi0, rfl⟩⟩
        · rw [huniq y0 hy0 hi0]
          exact ⟨h3.symm, fun hh => by rw [show ({ e with armed := false } : Ep).dialer = e.dialer from rfl, hd] at hh; cases hh⟩
        · rw [h2] at hi; exact absurd hi hi0))
    hr.mid.pinv hr.mid.lso (hr.inv.g.s.epsOpen e he hopen) hr.mid.now hr.mid.e14 hr.mid.e10 hr.mid.socks heps1 hr.mid.pipes hr.cb
    hr.mid.w.idxP rfl hx1 hER1.sock (fun hh => by rw [hx1d] at hh; cases hh)
  have hsa := startPipe_same st1 { idx := st1.pipes.length, ep := e.idx, sock := e.sock } peer
  -- the judge
  let t := j.now + lifeAcceptCooldownMs
  let jf := rest.foldl (onOut (.connDone e.idx (.ok peer))) (onOut (.connDone e.idx (.ok peer)) j (.pipe st1.pipes.length))
  have hpre : ∀ E : List LOut, preOp false (.pipe st1.pipes.length :: (rest ++ [.earm e.idx]) ++ E)
      (advJ j (.connDone e.idx (.ok peer))) (.connDone e.idx (.ok peer)) = Tf (jAcc t) e.idx j := by
    intro E
    show preOp false _ j _ = _
    rw [preOp_connOk _ _ _ _ x hx, hxd, hxc]
    have : (LOut.pipe st1.pipes.length :: (rest ++ [LOut.earm e.idx]) ++ E).any isPipeOut = true := by
      simp [isPipeOut]
    rw [this]; rfl
  -- the listener's record after the pipe events
  have he1 : ({ e with armed := false } : Ep) ∈ r.1.eps :=
    startPipe_listener st1 _ _ _ _ _ (by
      show _ ∈ (st.eps.map _)
      exact List.mem_map.mpr ⟨e, he, by simp⟩) hd
  obtain ⟨x2, hx2, hER2⟩ := hmid.eps.fwd _ he1
  have hx2c : x2.closed = false := by rw [hER2.closed]; show (e.closed || false) = false; rw [hopen]; rfl
  have huniq2 : ∀ e0 ∈ r.1.eps, e0.idx = e.idx → e0 = { e with armed := false } :=
    fun e0 he0 hi => hmid.w.idxE.unique he0 he1 hi
  refine finish_pipe st j _ orc hr hu rfl (fun _ _ => rfl) st1.pipes.length (rest ++ [.earm e.idx])
    (by rw [h]; simp only; show r.2 ++ _ = _; rw [hrest]; rfl) ?_
    { jf with eps := upd jf.eps e.idx fun y => jClr (jAcc t y) } ?_ ?_ ?_ ?_
  · apply NP.append (NP_of_evs hevs)
    intro o ho; rw [List.mem_singleton.mp ho]; rfl
  · rw [hpre]
    simp only [List.foldl_append, List.foldl_cons, List.foldl_nil]
    rw [Tf_pipe _ _ (tweak_acc t), Tf_fold _ _ (tweak_acc t) _ _ _ hevs]
    rw [onOut_earm _ _ e.idx (jAcc t x2) (by
      rw [lookup_Tf]; simp only [if_true]
      show (jf.eps.lookup e.idx).map _ = _
      rw [hx2]; rfl) hx2c]
    show ({ jf with eps := upd (upd jf.eps e.idx (jAcc t)) e.idx jClr } : J) = _
    rw [Nng.LifeSpec.upd_upd]; rfl
  · apply Mid_apply st j _ hr
    · rw [h]; exact hmid.now
    · exact hmid.e14
    · exact hmid.e10
    · rw [h]; exact hmid.socks
    · rw [h]
      refine hmid.eps.upd1 e.idx (fun x => { x with armed := true }) (fun y => jClr (jAcc t y)) rfl rfl (fun _ => rfl) ?_
      intro e0 he0 x0 hx0
      refine ⟨fun hi => ?_, fun _ => hx0⟩
      rw [huniq2 e0 he0 hi] at hx0 ⊢
      exact ER_listener (x' := jClr (jAcc t x0)) hx0 hd rfl rfl rfl rfl rfl rfl rfl rfl rfl rfl rfl
        (fun _ t ht => by cases ht) (fun _ t ht => by cases ht)
    · rw [h]; exact hmid.pipes
  · rw [h]; exact CtxsRel_of hr.ctxs hsa.2.2.2 hsame.2.2.1
  · rw [h]; exact PendRel_of hr.pend hsa.1 hsame.2.2.2.1


theorem sim_connDone (st : State) (j : Nng.LifeSpec.J) (ei : Nat) (r : Except Nat Nat) (orc : List Nat) (hr : Rel st j)
    (hu : st.unmodelled = false) :
    Rel (step st (.connDone ei r) orc).1 (Nng.LifeSpec.step j (.connDone ei r) (step st (.connDone ei r) orc).2) := by
  have happ : apply st (.connDone ei r) = opConnDone st ei r := rfl
  unfold opConnDone at happ
  cases hge : getEp st ei with
  | none =>
    rw [hge] at happ
    exact sim_conn_none st j ei r orc hr hu happ
  | some e =>
    rw [hge] at happ
    dsimp only at happ
    obtain ⟨hem, hei⟩ := getEp_mem hge
    subst hei
    by_cases ha : (!e.armed) = true
    · rw [if_pos ha] at happ
      exact sim_conn_none st j e.idx r orc hr hu happ
    · rw [if_neg ha] at happ
      have ha' : e.armed = true := by simpa using ha
      by_cases hd : e.dialer = true
      · rw [if_pos hd] at happ
        cases r with
        | ok peer => exact sim_conn_dialer_ok st j e peer orc hr hu hem ha' hd happ
        | error rv => exact sim_conn_dialer_err st j e rv orc hr hu hem ha' hd happ
      · rw [if_neg hd] at happ
        have hd' : e.dialer = false := by simpa using hd
        cases r with
        | ok peer => exact sim_conn_listener_ok st j e peer orc hr hu hem ha' hd' happ
        | error rv => exact sim_conn_listener_err st j e rv orc hr hu hem ha' hd' happ

end Nng.LifeModel
