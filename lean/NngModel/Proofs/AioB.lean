/- layer 2 of the aio invariants: results, deadlines, the ghost violation flags -/
import NngModel.Proofs.Aio
import NngModel.Proofs.AioLemmas
namespace Nng.Aio
open Nng.AioSpec

structure Inv2 (s : State) : Prop where
  res : s.opTok = false → s.result = s.final
  mm : s.mismatch = false
  dbl : s.dbl = false
  early : s.early = false
  dl : s.onExp = true → s.expire = s.opDeadline
  dl2 : s.subPc = 2 → s.expire = s.opDeadline
  due : s.expiring = true → s.expGen = s.starts ∧
        (match s.opDeadline with | some e => decide (e < s.now) | none => false) = true

theorem inv2_init : Inv2 ({} : State) := by
  constructor <;> simp

/-- a callback about to read the result belongs to a completed operation -/
theorem popped_done {s : State} (h : Inv1 s) (hp : s.popped > 0) : s.opTok = false := by
  rcases h with ⟨h1,h2,h3,h4,h5,h6,h7,h8,h9,h10,h11,h12,h13,h14,h15,h16,h17,h18⟩
  cases ht : s.opTok <;> cases hd : s.expDispatch <;>
    simp only [b2n, hd, ht, ↓reduceIte, Bool.false_eq_true] at h4 h5 h6 <;> first | rfl | omega

macro "inv2_close" : tactic => `(tactic| (
  rcases ‹Inv1 _› with ⟨h1,h2,h3,h4,h5,h6,h7,h8,h9,h10,h11,h12,h13,h14,h15,h16,h17,h18⟩
  rcases ‹Inv2 _› with ⟨g1,g2,g3,g4,g5,g6,g7⟩
  clear h4 h5 h6 h7
  constructor <;> simp_all [completed, finishCore, cancelSlp_noop, takeFn, provLocked, Cfg.fixed] <;> (try omega) <;> (try (intros; omega)) <;> (try grind) <;> (try rfl) <;> (try (split <;> simp_all)) <;> (try grind)))

macro "inv2_label" hs:ident : tactic => `(tactic| (
  simp only [step] at $hs:ident
  repeat' (split at $hs:ident)
  all_goals (try (cases $hs:ident))
  all_goals inv2_close))

set_option maxHeartbeats 4000000 in
theorem inv2_step {s s' : State} {l : Label} (h : Inv1 s) (g : Inv2 s) (hl : NoSleepL l)
    (hs : step Cfg.fixed s l = some s') : Inv2 s' := by
  cases l with
  | tick d =>
    simp only [step] at hs; cases hs
    rcases g with ⟨g1,g2,g3,g4,g5,g6,g7⟩
    refine ⟨g1, g2, g3, g4, g5, g6, ?_⟩
    intro he
    have := g7 he
    refine ⟨this.1, ?_⟩
    have h2 := this.2
    cases hd : s.opDeadline with
    | none => rw [hd] at h2; cases h2
    | some e =>
      rw [hd] at h2
      simp only [decide_eq_true_eq] at h2 ⊢
      omega
  | setTimeout t =>
    simp only [step] at hs
    split at hs
    · rename_i hg
      have hi := idle_facts h (by simp only [Bool.and_eq_true] at hg; exact hg.1)
      cases hs
      obtain ⟨a1,a2,a3,a4,a5,a6,a7,a8,a9,-⟩ := hi
      clear hg
      inv2_close
    · cases hs
  | setExpire e =>
    simp only [step] at hs
    split at hs
    · rename_i hg
      have hi := idle_facts h (by simp only [Bool.and_eq_true] at hg; exact hg.1)
      cases hs
      obtain ⟨a1,a2,a3,a4,a5,a6,a7,a8,a9,-⟩ := hi
      clear hg
      inv2_close
    · cases hs
  | skipArm =>
    simp only [step] at hs
    split at hs
    · cases hs; inv2_close
    · cases hs
  | subCall k f =>
    simp only [step] at hs
    split at hs
    · rename_i hg
      have hi := idle_facts h (by simp only [Bool.and_eq_true] at hg; exact hg.1.1.1.1)
      cases hs
      obtain ⟨a1,a2,a3,a4,a5,a6,a7,a8,a9,-⟩ := hi
      clear hg
      inv2_close
    · cases hs
  | prepare => inv2_label hs
  | begin => inv2_label hs
  | direct => inv2_label hs
  | subRet g v => inv2_label hs
  | complete rv => inv2_label hs
  | finish => inv2_label hs
  | abortCall rv => inv2_label hs
  | abortSec rv =>
    simp only [step] at hs
    split at hs
    · split at hs
      · cases hs
        rcases g with ⟨g1,g2,g3,g4,g5,g6,g7⟩
        constructor <;> simp_all
      · simp only [Cfg.fixed] at hs
        cases hs
        rcases g with ⟨g1,g2,g3,g4,g5,g6,g7⟩
        constructor <;> simp_all
    · cases hs
  | closeCall => inv2_label hs
  | closeSec => inv2_label hs
  | callCancel p rv =>
    simp only [step] at hs
    split at hs
    · have hs := Option.some.inj hs
      subst hs
      cases p <;> inv2_close
    · cases hs
  | stopCall f => inv2_label hs
  | stopMark => inv2_label hs
  | stopTake => inv2_label hs
  | stopCancel =>
    simp only [step] at hs
    split at hs
    · cases hs
    · split at hs
      · split at hs
        · cases hs
        · have hs := Option.some.inj hs
          subst hs
          rename_i p _ _
          cases p <;> inv2_close
      · have hs := Option.some.inj hs
        subst hs
        inv2_close
  | stopWait => inv2_label hs
  | stopRet => inv2_label hs
  | expScan => inv2_label hs
  | expTake =>
    simp only [step] at hs
    split at hs
    · cases hs
    · have hsl := h.sleepF
      simp only [hsl, Bool.false_eq_true, ↓reduceIte] at hs
      split at hs
      · have hs := Option.some.inj hs
        subst hs
        inv2_close
      · have hs := Option.some.inj hs
        subst hs
        inv2_close
  | expCall =>
    simp only [step] at hs
    split at hs
    · cases hs
    · rename_i hg
      have hs := Option.some.inj hs
      subst hs
      have hexp : s.expiring = true := by
        have := h.expPcIff
        cases he : s.expiring
        · have h0 := this.2 he
          simp_all
        · rfl
      have hd := g.due hexp
      cases hf : s.expFn <;> inv2_close
  | expRelease => inv2_label hs
  | pop => inv2_label hs
  | cbRead =>
    simp only [step] at hs
    split at hs
    · rename_i hp
      have ht := popped_done h hp
      have hr := g.res ht
      cases hs
      inv2_close
    · cases hs
  | cbDone => inv2_label hs
  | peek => inv2_label hs

end Nng.Aio
