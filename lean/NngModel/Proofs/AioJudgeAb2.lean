/- relation preservation: the invocation of a cancel function taken by nng_aio_abort or
   nni_aio_close (label `callCancel`) -/
import NngModel.Proofs.AioJudgeAb
namespace Nng.Aio
open Nng.AioSpec

variable {s s' : State} {g : G} {j : J} {k : Nat}

set_option maxHeartbeats 2000000 in
/-- the cancel function ran (observation `cancelRan` if it is the generic provider's); with it an
    `nng_aio_abort` call has done its work, unless the entry stems from nni_aio_close -/
theorem rel_callCancel (p : Prov) (rv : Nat) (hR : R k s g j) (i1 : Inv1 s) (i2 : Inv2 s) (i3 : Inv3 s)
    (i4 : Inv4 s) (hs : step Cfg.fixed s (.callCancel p rv) = some s') :
    R (k + retK s g (.callCancel p rv)) s' (gStep s g (.callCancel p rv))
      (judgeFrom j (obsCore s (.callCancel p rv))) := by
  have hmem : (p, rv) ∈ s.calls := by
    simp only [step] at hs
    split at hs
    · rename_i h; simp only [Bool.and_eq_true, List.contains_iff_mem] at h; exact h.1
    · cases hs
  have he1 : ∀ x, x ∈ s.calls.erase (p, rv) → x ∈ s.calls := fun x h => List.mem_of_mem_erase h
  have he2 : rv ≠ ESTOPPED → nonE (s.calls.erase (p, rv)) + 1 = nonE s.calls := nonE_erase_ne hmem
  have he3 : rv = ESTOPPED → nonE (s.calls.erase (p, rv)) = nonE s.calls := by
    intro h; subst h; exact nonE_erase_e
  have hg : True ∧
      (gStep s g (.callCancel p rv)).abE + retK s g (.callCancel p rv) =
        g.abE + (if rv = ESTOPPED then 0 else 1) := by
    simp only [gStep, retK]
    by_cases h1 : rv = ESTOPPED
    · subst h1
      by_cases h2 : g.abE = 0 <;> simp [h2]
      omega
    · simp [h1]
  generalize gStep s g (.callCancel p rv) = g' at hg ⊢
  generalize retK s g (.callCancel p rv) = kr at hg ⊢
  obtain ⟨hg1, hg2⟩ := hg
  simp only [obsCore, obsOf, judgeFrom, List.append_nil]
  cases p with
  | slp =>
    simp only [List.foldl]
    step_cases hs
    all_goals r_same hR
  | gen =>
    simp only [List.foldl]
    cases hpk : s.parked with
    | false =>
      rw [(jstep_lost hR.base.err hR.base.nfree rv).2]
      step_casesk hs hpk
      all_goals r_same hR
    | true =>
      obtain ⟨o, ho⟩ := head_exists hR (starts_ne_zero i1 (by rw [i1.tok, hpk]; simp))
      have hu : unrep s := by
        have := i1.cnt; have := i1.rep; have ht := i1.tok
        rw [hpk] at ht
        simp only [Bool.or_true, Bool.true_or] at ht
        simp only [unrep, b2n, ht, ↓reduceIte] at *
        omega
      rw [(jstep_won hR.base.err hR.base.nfree rv o ho ((hR.head o ho).opn (Or.inr hpk))
        ((hR.head o ho).rep0 hu)).2]
      step_casesk hs hpk
      all_goals (r_open hR; r_upd ho)

end Nng.Aio
