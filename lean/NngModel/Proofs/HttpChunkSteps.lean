/-
  C16: the per-block decoder `Chunk.parse` (with the bulk data copy of chunk_ingest_data) equals the
  per-byte machine `Chunk.step` folded over the block (`Chunk.steps`), and therefore the result of
  feeding a byte stream in blocks depends only on the concatenation of the blocks.

  Agreement is exact on (bytes consumed, return value) and on the decoder state whenever the
  result is not NNG_EPROTO.  After a failed CRLF test at the end of a chunk the two differ in the
  fill of the rejected chunk (in the C code as well: the bulk path leaves c_resid untouched, the
  bytewise path has counted it down to 1), see `parse_steps_state_differs`.
-/
import NngModel.Proofs.HttpChunk
namespace Nng.Chunk

/-- agreement of two results: same (consumed, rv); same state unless the result is NNG_EPROTO -/
def Agree (x y : St × Nat × Nat) : Prop := x.2 = y.2 ∧ (x.2.2 ≠ rvProto → x.1 = y.1)

theorem Agree.rfl' (x : St × Nat × Nat) : Agree x x := ⟨rfl, fun _ => rfl⟩

/-- the state in which chunk_ingest_data would consume nothing (unreachable from `init`: c_resid ≥ 3 on entry) -/
def zeroCase (s : St) : Bool :=
  s.state == .data && (match s.chunksR with | c :: _ => c.resid == 0 | [] => false)

/-! ### return values and successor states of the character states -/

theorem addDigit_rv (s : St) (d : Nat) : (addDigit s d).2 ≠ rvAgain ∧ (addDigit s d).1.state = s.state ∧
    (addDigit s d).1.chunksR = s.chunksR := by
  unfold addDigit; split <;> simp [rvMsgSize, rvAgain, rvOk]

theorem ingestLen_props (s : St) (c : UInt8) (hs : s.state ≠ .data) :
    (ingestLen s c).2 ≠ rvAgain ∧ (ingestLen s c).1.state ≠ .data := by
  unfold ingestLen
  have h1 := addDigit_rv s (c.toNat - 48)
  have h2 := addDigit_rv s (c.toNat - 65 + 10)
  have h3 := addDigit_rv s (c.toNat - 97 + 10)
  split
  · exact ⟨h1.1, by rw [h1.2.1]; exact hs⟩
  split
  · exact ⟨h2.1, by rw [h2.2.1]; exact hs⟩
  split
  · exact ⟨h3.1, by rw [h3.2.1]; exact hs⟩
  split
  · simp [rvOk, rvAgain]
  split
  · simp [rvOk, rvAgain]
  · exact ⟨by simp [rvProto, rvAgain], hs⟩

theorem ingestNewline_props (s : St) (c : UInt8) :
    (ingestNewline s c).2 ≠ rvAgain ∧ zeroCase (ingestNewline s c).1 = zeroCase s ∨
    ((ingestNewline s c).2 ≠ rvAgain ∧ zeroCase (ingestNewline s c).1 = false) := by
  unfold ingestNewline
  split
  · left; simp [rvProto, rvAgain]
  split
  · right; simp [rvOk, rvAgain, zeroCase]
  split
  · left; simp [rvMsgSize, rvAgain]
  split
  · left; simp [rvNoMem, rvAgain]
  · right; simp [rvOk, rvAgain, zeroCase]

/-- a character state never answers NNG_EAGAIN, and never leads to the zero-consumption data state -/
theorem ingestChar_props (s : St) (c : UInt8) (hs : s.state ≠ .data) :
    (ingestChar s c).2 ≠ rvAgain ∧ zeroCase (ingestChar s c).1 = false := by
  have hz : zeroCase s = false := by
    unfold zeroCase
    cases h : s.state <;> simp_all
  have nd : ∀ t : St, t.state ≠ .data → zeroCase t = false := by
    intro t ht; unfold zeroCase; cases h : t.state <;> simp_all
  unfold ingestChar
  split
  · split
    · exact ⟨by simp [rvProto, rvAgain], hz⟩
    · have := ingestLen_props { s with state := .len } c (by simp)
      exact ⟨this.1, nd _ this.2⟩
  · have := ingestLen_props s c hs
    exact ⟨this.1, nd _ this.2⟩
  · unfold ingestExt
    split
    · exact ⟨by simp [rvOk, rvAgain], nd _ (by simp)⟩
    split
    · exact ⟨by simp [rvProto, rvAgain], hz⟩
    · exact ⟨by simp [rvOk, rvAgain], hz⟩
  · rcases ingestNewline_props s c with h | h
    · exact ⟨h.1, by rw [h.2]; exact hz⟩
    · exact h
  · unfold ingestTrailer
    split
    · exact ⟨by simp [rvOk, rvAgain], nd _ (by simp)⟩
    split
    · exact ⟨by simp [rvProto, rvAgain], hz⟩
    · refine ⟨by simp [rvOk, rvAgain], nd _ ?_⟩
      simpa using hs
  · unfold ingestTrailerCr
    split
    · exact ⟨by simp [rvProto, rvAgain], hz⟩
    split
    · exact ⟨by simp [rvOk, rvAgain], nd _ (by simp)⟩
    · exact ⟨by simp [rvOk, rvAgain], nd _ (by simp)⟩
  · exact ⟨by simp [rvProto, rvAgain], hz⟩

/-! ### one byte in the data state -/

theorem crlfOk_size (c c' : Chunk) (d : Bytes) (h : c'.size = c.size) : crlfOk c' d = crlfOk c d := by
  unfold crlfOk; rw [h]

/-- state after a partial copy into the open chunk -/
def fill (s : St) (c : Chunk) (rest : List Chunk) (blk : Bytes) : St :=
  { s with chunksR := { c with resid := c.resid - blk.length, dataR := blk.reverse ++ c.dataR } :: rest }

/-- state after the copy that completes the open chunk (CRLF test passed) -/
def finish (s : St) (c : Chunk) (rest : List Chunk) (blk : Bytes) : St :=
  { s with state := .init, size := 0, line := 0,
           chunksR := { c with resid := 0, dataR := (blk.take c.resid).reverse ++ c.dataR } :: rest }

theorem ingestData_partial (s : St) (c : Chunk) (rest : List Chunk) (blk : Bytes) (hc : s.chunksR = c :: rest)
    (h : blk.length < c.resid) : ingestData s blk = (fill s c rest blk, blk.length, rvOk) := by
  unfold ingestData fill
  rw [hc]
  have : ¬ blk.length ≥ c.resid := by omega
  simp only [this, if_false]

theorem ingestData_full (s : St) (c : Chunk) (rest : List Chunk) (blk : Bytes) (hc : s.chunksR = c :: rest)
    (h : blk.length ≥ c.resid) :
    ingestData s blk = if !crlfOk c ((blk.take c.resid).reverse ++ c.dataR) then (s, c.resid, rvProto)
      else (finish s c rest blk, c.resid, rvOk) := by
  unfold ingestData finish
  rw [hc]
  simp only [h, if_true]

theorem fill_nil (s : St) (c : Chunk) (rest : List Chunk) (hc : s.chunksR = c :: rest) : fill s c rest [] = s := by
  cases s; cases c
  simp only [fill] at *
  subst hc
  simp

theorem step_data_more (s : St) (c : Chunk) (rest : List Chunk) (b : UInt8) (hs : s.state = .data)
    (hc : s.chunksR = c :: rest) (h : c.resid > 1) : step s b = (fill s c rest [b], 1, rvAgain) := by
  have hi := ingestData_partial s c rest [b] hc (by simpa using h)
  have hd : (fill s c rest [b]).state ≠ .done := by simp [fill, hs]
  unfold step parse
  simp only [List.length_cons, List.length_nil, Nat.zero_add, Nat.reduceAdd]
  unfold parseLoop
  simp only [hs, reduceCtorEq, if_false, if_true, hi, List.length_cons, List.length_nil, Nat.zero_add, ne_eq,
    not_true_eq_false, List.drop_succ_cons, List.drop_zero]
  unfold parseLoop
  simp [hd]

theorem step_data_last (s : St) (c : Chunk) (rest : List Chunk) (b : UInt8) (hs : s.state = .data)
    (hc : s.chunksR = c :: rest) (h : c.resid = 1) :
    step s b = if !crlfOk c (b :: c.dataR) then (s, 1, rvProto) else (finish s c rest [b], 1, rvAgain) := by
  have hi := ingestData_full s c rest [b] hc (by simp [h])
  have ht : ([b].take c.resid).reverse ++ c.dataR = b :: c.dataR := by simp [h]
  rw [ht] at hi
  unfold step parse
  simp only [List.length_cons, List.length_nil, Nat.zero_add, Nat.reduceAdd]
  unfold parseLoop
  simp only [hs, reduceCtorEq, if_false, if_true, hi]
  by_cases hk : crlfOk c (b :: c.dataR) = true
  · have hd : (finish s c rest [b]).state ≠ .done := by simp [finish]
    simp only [hk, Bool.not_true, Bool.false_eq_true, if_false, ne_eq, not_true_eq_false, h, List.drop_succ_cons,
      List.drop_zero, Nat.zero_add]
    unfold parseLoop
    simp [hd]
  · simp [hk, h, rvProto, rvOk]

theorem steps_cons (s : St) (b : UInt8) (bs : Bytes) (i : Nat) (hd : s.state ≠ .done) :
    steps s (b :: bs) i =
      if (step s b).2.2 = rvAgain then steps (step s b).1 bs (i + (step s b).2.1)
      else ((step s b).1, i + (step s b).2.1, (step s b).2.2) := by
  simp [steps, hd]

/-! ### the bulk copy equals that many single steps -/

theorem steps_data (blk : Bytes) : ∀ (s : St) (c : Chunk) (rest : List Chunk) (i : Nat),
    s.state = .data → s.chunksR = c :: rest → c.resid > 0 →
    (blk.length < c.resid → steps s blk i = (fill s c rest blk, i + blk.length, rvAgain)) ∧
    (blk.length ≥ c.resid → crlfOk c ((blk.take c.resid).reverse ++ c.dataR) = true →
      steps s blk i = steps (finish s c rest blk) (blk.drop c.resid) (i + c.resid)) ∧
    (blk.length ≥ c.resid → crlfOk c ((blk.take c.resid).reverse ++ c.dataR) = false →
      (steps s blk i).2 = (i + c.resid, rvProto)) := by
  induction blk with
  | nil =>
    intro s c rest i hs hc hr
    refine ⟨fun _ => ?_, fun h => ?_, fun h => ?_⟩
    · simp [steps, hs, fill_nil s c rest hc]
    · simp at h; omega
    · simp at h; omega
  | cons b bs ih =>
    intro s c rest i hs hc hr
    have hd : s.state ≠ .done := by simp [hs]
    rw [steps_cons s b bs i hd]
    by_cases h1 : c.resid = 1
    · rw [step_data_last s c rest b hs hc h1]
      refine ⟨fun h => ?_, fun _ hk => ?_, fun _ hk => ?_⟩
      · simp at h; omega
      · have hk' : crlfOk c (b :: c.dataR) = true := by simpa [h1] using hk
        simp only [hk', Bool.not_true, Bool.false_eq_true, if_false, if_true, h1, List.drop_succ_cons, List.drop_zero]
        have : finish s c rest [b] = finish s c rest (b :: bs) := by simp [finish, h1]
        rw [this]
      · have hk' : crlfOk c (b :: c.dataR) = false := by simpa [h1] using hk
        simp [hk', h1, rvProto, rvAgain]
    · have hgt : c.resid > 1 := by omega
      rw [step_data_more s c rest b hs hc hgt]
      simp only [if_true]
      let c1 : Chunk := { c with resid := c.resid - 1, dataR := b :: c.dataR }
      have hc1 : (fill s c rest [b]).chunksR = c1 :: rest := by simp [fill, c1]
      have hs1 : (fill s c rest [b]).state = .data := by simp [fill, hs]
      have ih' := ih (fill s c rest [b]) c1 rest (i + 1) hs1 hc1 (by simp [c1]; omega)
      have hr1 : c1.resid = c.resid - 1 := rfl
      have hd1 : c1.dataR = b :: c.dataR := rfl
      have etake : ((b :: bs).take c.resid).reverse ++ c.dataR = (bs.take c1.resid).reverse ++ c1.dataR := by
        obtain ⟨r, hr'⟩ : ∃ r, c.resid = r + 1 := ⟨c.resid - 1, by omega⟩
        rw [hr1, hd1, hr']; simp
      have edrop : (b :: bs).drop c.resid = bs.drop c1.resid := by
        obtain ⟨r, hr'⟩ : ∃ r, c.resid = r + 1 := ⟨c.resid - 1, by omega⟩
        rw [hr1, hr']; simp
      have ecr : ∀ d, crlfOk c1 d = crlfOk c d := fun d => crlfOk_size c c1 d rfl
      refine ⟨fun h => ?_, fun h hk => ?_, fun h hk => ?_⟩
      · rw [ih'.1 (by simp at h; rw [hr1]; omega)]
        have : fill (fill s c rest [b]) c1 rest bs = fill s c rest (b :: bs) := by
          simp only [fill, c1, List.length_cons, List.length_nil, List.reverse_cons, List.reverse_nil, List.nil_append,
            List.cons_append, List.append_assoc, Nat.zero_add]
          congr 3
          omega
        rw [this]; simp; omega
      · rw [etake, ← ecr] at hk
        rw [ih'.2.1 (by simp at h; rw [hr1]; omega) hk, edrop]
        have : finish (fill s c rest [b]) c1 rest bs = finish s c rest (b :: bs) := by
          simp only [finish]
          rw [etake]
          simp [fill, c1]
        rw [this]
        have : i + 1 + c1.resid = i + c.resid := by rw [hr1]; omega
        rw [this]
      · rw [etake, ← ecr] at hk
        rw [ih'.2.2 (by simp at h; rw [hr1]; omega) hk]
        have : i + 1 + c1.resid = i + c.resid := by rw [hr1]; omega
        rw [this]

/-! ### the block loop against the byte fold -/

theorem parseLoop_nil (fuel : Nat) (s : St) (i : Nat) :
    parseLoop fuel s [] i = (s, i, if s.state = .done then rvOk else rvAgain) := by
  cases fuel with
  | zero => rfl
  | succ f => unfold parseLoop; by_cases h : s.state = .done <;> simp [h]

theorem parseLoop_done (fuel : Nat) (s : St) (blk : Bytes) (i : Nat) (h : s.state = .done) :
    parseLoop fuel s blk i = (s, i, rvOk) := by
  cases fuel with
  | zero => simp [parseLoop, h]
  | succ f => unfold parseLoop; simp [h]

theorem steps_done (s : St) (blk : Bytes) (i : Nat) (h : s.state = .done) : steps s blk i = (s, i, rvOk) := by
  cases blk <;> simp [steps, h]

theorem parseLoop_char (fuel : Nat) (s : St) (b : UInt8) (tl : Bytes) (i : Nat) (hd : s.state ≠ .done) (hn : s.state ≠ .data) :
    parseLoop (fuel + 1) s (b :: tl) i =
      if (ingestChar s b).2 ≠ rvOk then ((ingestChar s b).1, i, (ingestChar s b).2)
      else parseLoop fuel (ingestChar s b).1 tl (i + 1) := by
  rw [parseLoop]; simp only [hd, hn, if_false]

theorem parseLoop_data (fuel : Nat) (s : St) (b : UInt8) (tl : Bytes) (i : Nat) (hs : s.state = .data) :
    parseLoop (fuel + 1) s (b :: tl) i =
      if (ingestData s (b :: tl)).2.2 ≠ rvOk then ((ingestData s (b :: tl)).1, i + (ingestData s (b :: tl)).2.1, (ingestData s (b :: tl)).2.2)
      else parseLoop fuel (ingestData s (b :: tl)).1 ((b :: tl).drop (ingestData s (b :: tl)).2.1) (i + (ingestData s (b :: tl)).2.1) := by
  rw [parseLoop]; simp only [hs, reduceCtorEq, if_false, if_true]

/-- one byte in a character state -/
theorem step_char (s : St) (b : UInt8) (hd : s.state ≠ .done) (hn : s.state ≠ .data) :
    step s b =
      if (ingestChar s b).2 ≠ rvOk then ((ingestChar s b).1, 0, (ingestChar s b).2)
      else ((ingestChar s b).1, 1, if (ingestChar s b).1.state = .done then rvOk else rvAgain) := by
  unfold step parse
  simp only [List.length_cons, List.length_nil, Nat.zero_add, Nat.reduceAdd]
  rw [parseLoop_char 1 s b [] 0 hd hn, parseLoop_nil]

theorem parseLoop_steps : ∀ (fuel : Nat) (s : St) (blk : Bytes) (i : Nat),
    fuel ≥ blk.length + (if zeroCase s then 1 else 0) → Agree (parseLoop fuel s blk i) (steps s blk i) := by
  intro fuel
  induction fuel with
  | zero =>
    intro s blk i h
    have : blk = [] := List.eq_nil_of_length_eq_zero (by omega)
    subst this
    rw [parseLoop_nil]; exact Agree.rfl' _
  | succ fuel ih =>
    intro s blk i hf
    by_cases hd : s.state = .done
    · rw [parseLoop_done _ s blk i hd, steps_done s blk i hd]; exact Agree.rfl' _
    cases blk with
    | nil => rw [parseLoop_nil]; exact Agree.rfl' _
    | cons b tl =>
      rw [steps_cons s b tl i hd]
      by_cases hs : s.state = .data
      · rw [parseLoop_data fuel s b tl i hs]
        cases hc : s.chunksR with
        | nil =>
          have hi : ∀ blk, ingestData s blk = (s, 0, rvProto) := by intro blk; unfold ingestData; rw [hc]
          have hst : step s b = (s, 0, rvProto) := by
            unfold step parse
            simp only [List.length_cons, List.length_nil, Nat.zero_add, Nat.reduceAdd]
            rw [parseLoop_data 1 s b [] 0 hs, hi]; simp [rvProto, rvOk]
          rw [hi, hst]; simp [rvProto, rvOk, rvAgain, Agree]
        | cons c rest =>
          by_cases hr0 : c.resid = 0
          · -- nothing to copy: the CRLF test runs at once, then the same byte is looked at again
            have hz : zeroCase s = true := by simp [zeroCase, hs, hc, hr0]
            rw [hz] at hf
            have hfull : ∀ blk, ingestData s blk = if !crlfOk c c.dataR then (s, 0, rvProto) else (finish s c rest [], 0, rvOk) := by
              intro blk
              rw [ingestData_full s c rest blk hc (by omega), hr0]
              simp [finish, hr0]
            have hst1 : step s b = if !crlfOk c c.dataR then (s, 0, rvProto) else step (finish s c rest []) b := by
              have hfd : (finish s c rest []).state ≠ .done := by simp [finish]
              have hfn : (finish s c rest []).state ≠ .data := by simp [finish]
              rw [step_char _ b hfd hfn]
              unfold step parse
              simp only [List.length_cons, List.length_nil, Nat.zero_add, Nat.reduceAdd]
              rw [parseLoop_data 1 s b [] 0 hs, hfull]
              by_cases hk : crlfOk c c.dataR = true
              · simp only [hk, Bool.not_true, Bool.false_eq_true, if_false, ne_eq, not_true_eq_false, List.drop_zero, Nat.add_zero]
                rw [parseLoop_char 0 _ b [] 0 hfd hfn]
                simp only [parseLoop_nil]
              · simp [hk, rvProto, rvOk]
            rw [hfull, hst1]
            by_cases hk : crlfOk c c.dataR = true
            · simp only [hk, Bool.not_true, Bool.false_eq_true, if_false, ne_eq, not_true_eq_false, List.drop_zero, Nat.add_zero]
              have hfd : (finish s c rest []).state ≠ .done := by simp [finish]
              have hzf : zeroCase (finish s c rest []) = false := by simp [zeroCase, finish]
              have := ih (finish s c rest []) (b :: tl) i (by rw [hzf]; simp at hf ⊢; omega)
              rw [steps_cons _ b tl i hfd] at this
              exact this
            · simp [hk, rvProto, rvOk, rvAgain, Agree]
          · have hr : c.resid > 0 := by omega
            have sd := steps_data (b :: tl) s c rest i hs hc hr
            rw [← steps_cons s b tl i hd]
            by_cases hlt : (b :: tl).length < c.resid
            · rw [ingestData_partial s c rest (b :: tl) hc hlt, sd.1 hlt]
              simp only [ne_eq, not_true_eq_false, if_false, List.drop_length, parseLoop_nil]
              have : (fill s c rest (b :: tl)).state ≠ .done := by simp [fill, hs]
              simp only [this, if_false]
              exact Agree.rfl' _
            · have hge : (b :: tl).length ≥ c.resid := by omega
              rw [ingestData_full s c rest (b :: tl) hc hge]
              by_cases hk : crlfOk c (((b :: tl).take c.resid).reverse ++ c.dataR) = true
              · simp only [hk, Bool.not_true, Bool.false_eq_true, if_false, ne_eq, not_true_eq_false]
                rw [sd.2.1 hge hk]
                have hzf : zeroCase (finish s c rest (b :: tl)) = false := by simp [zeroCase, finish]
                apply ih
                rw [hzf]
                simp only [List.length_drop, Bool.false_eq_true, if_false]
                simp at hf hge ⊢
                omega
              · have hk' : crlfOk c (((b :: tl).take c.resid).reverse ++ c.dataR) = false := by simpa using hk
                have := sd.2.2 hge hk'
                simp only [hk', Bool.not_false, if_true]
                have hne : rvProto ≠ rvOk := by decide
                rw [if_pos hne]
                exact ⟨this.symm, fun h => absurd rfl h⟩
      · have hz : zeroCase s = false := by unfold zeroCase; cases h : s.state <;> simp_all
        rw [hz] at hf
        have hp := ingestChar_props s b hs
        rw [parseLoop_char fuel s b tl i hd hs, step_char s b hd hs]
        by_cases hok : (ingestChar s b).2 = rvOk
        · simp only [hok, ne_eq, not_true_eq_false, if_false]
          by_cases hdn : (ingestChar s b).1.state = .done
          · rw [parseLoop_done _ _ _ _ hdn]
            simp [hdn, rvOk, rvAgain, Agree]
          · simp only [hdn, if_false, if_true]
            apply ih
            rw [hp.2]
            simp at hf ⊢; omega
        · have := hp.1
          simp only [hok, ne_eq, not_false_eq_true, if_true, this, if_false, Nat.add_zero]
          exact Agree.rfl' _

/-- `Chunk.parse` over a block is the fold of the per-byte `Chunk.step` -/
theorem parse_agrees_steps (s : St) (blk : Bytes) : Agree (parse s blk) (steps s blk 0) := by
  unfold parse
  apply parseLoop_steps
  split <;> omega

/-! ### cut independence -/

/-- the caller's loop (http_conn.c / the harness): hand over block after block while the decoder answers
    NNG_EAGAIN; the count is the total number of bytes consumed -/
def feed : St → List Bytes → Nat → St × Nat × Nat
  | s, [], i => (s, i, if s.state = .done then rvOk else rvAgain)
  | s, b :: bs, i =>
    if s.state = .done then (s, i, rvOk)
    else
      if (parse s b).2.2 = rvAgain then feed (parse s b).1 bs (i + (parse s b).2.1)
      else ((parse s b).1, i + (parse s b).2.1, (parse s b).2.2)

theorem steps_offset (blk : Bytes) : ∀ (s : St) (i : Nat),
    steps s blk i = ((steps s blk 0).1, i + (steps s blk 0).2.1, (steps s blk 0).2.2) := by
  induction blk with
  | nil => intro s i; simp [steps]
  | cons b bs ih =>
    intro s i
    by_cases hd : s.state = .done
    · simp [steps_done _ _ _ hd]
    · rw [steps_cons s b bs i hd, steps_cons s b bs 0 hd]
      by_cases ha : (step s b).2.2 = rvAgain
      · simp only [ha, if_true]
        rw [ih _ (i + (step s b).2.1), ih _ (0 + (step s b).2.1)]
        simp; omega
      · simp [ha]

theorem steps_append (a : Bytes) : ∀ (s : St) (b : Bytes) (i : Nat),
    steps s (a ++ b) i = if (steps s a i).2.2 = rvAgain then steps (steps s a i).1 b (steps s a i).2.1 else steps s a i := by
  induction a with
  | nil =>
    intro s b i
    by_cases hd : s.state = .done
    · simp [steps_done _ _ _ hd, rvOk, rvAgain]
    · simp [steps, hd]
  | cons x xs ih =>
    intro s b i
    by_cases hd : s.state = .done
    · simp [steps_done _ _ _ hd, rvOk, rvAgain]
    · rw [List.cons_append, steps_cons s x _ i hd, steps_cons s x xs i hd]
      by_cases ha : (step s x).2.2 = rvAgain
      · simp only [ha, if_true]; exact ih _ b _
      · simp [ha]

theorem feed_agrees_steps (blocks : List Bytes) : ∀ (s : St) (i : Nat), Agree (feed s blocks i) (steps s blocks.flatten i) := by
  induction blocks with
  | nil => intro s i; exact Agree.rfl' _
  | cons b bs ih =>
    intro s i
    by_cases hd : s.state = .done
    · simp [feed, hd, steps_done _ _ _ hd, Agree]
    · have hp := parse_agrees_steps s b
      have hp1 : (parse s b).2.1 = (steps s b 0).2.1 := by rw [hp.1]
      have hp2 : (parse s b).2.2 = (steps s b 0).2.2 := by rw [hp.1]
      rw [List.flatten_cons, steps_append, steps_offset b s i]
      simp only [feed, hd, if_false]
      by_cases ha : (parse s b).2.2 = rvAgain
      · have hst : (parse s b).1 = (steps s b 0).1 := hp.2 (by rw [ha]; decide)
        rw [← hp2, ← hp1, ← hst]
        simp only [ha, if_true]
        exact ih _ _
      · rw [← hp2, ← hp1]
        simp only [ha, if_false]
        exact ⟨rfl, fun h => by simp only []; exact hp.2 h⟩

/-- feeding in blocks agrees with parsing the concatenation in one go -/
theorem feed_agrees_parse (s : St) (blocks : List Bytes) :
    (feed s blocks 0).2 = (parse s blocks.flatten).2 ∧
    ((parse s blocks.flatten).2.2 ≠ rvProto → (feed s blocks 0).1 = (parse s blocks.flatten).1) := by
  have h1 := feed_agrees_steps blocks s 0
  have h2 := parse_agrees_steps s blocks.flatten
  refine ⟨h1.1.trans h2.1.symm, fun h => ?_⟩
  rw [h2.2 h]
  apply h1.2
  rw [h1.1, ← h2.1]; exact h

/-- the full equation `parse = steps` fails on the state component after a failed CRLF test:
    the bulk copy leaves the rejected chunk untouched, the bytewise path has filled it -/
theorem parse_steps_state_differs :
    let s : St := { maxsz := 0, state := .data, chunksR := [{ size := 1, alloc := 3, resid := 3 }] }
    (parse s [1, 2, 3]).2 = (steps s [1, 2, 3] 0).2 ∧ (parse s [1, 2, 3]).2.2 = rvProto ∧
    (parse s [1, 2, 3]).1.chunksR.map (·.resid) = [3] ∧ (steps s [1, 2, 3] 0).1.chunksR.map (·.resid) = [1] := by
  decide

end Nng.Chunk
