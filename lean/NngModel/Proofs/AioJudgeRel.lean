/- the relation between the aio model's state (+ ghost) and the monitor's state that one model
   step followed by the monitor's steps on the step's observations preserves -/
import NngModel.Proofs.AioJudgeInv
import NngModel.Proofs.AioJudgeStep
namespace Nng.Aio
open Nng.AioSpec

/-- the deadline `d` the model computed for the operation is not earlier than the one the monitor
    derives from the operation's record -/
def DLrel (o : Op) (d : Nat) : Prop :=
  match o.absExp with
  | some e => e ≤ d
  | none =>
    match o.tmo with
    | .zero => True
    | .never => False
    | .ms m => o.tsub + m ≤ d

/-- `nni_aio_start` refused the operation with `r` for a reason the monitor accepts -/
def Refusal (o : Op) (r : Nat) (sc : Bool) : Prop :=
  (r = ESTOPPED ∧ sc = true) ∨ r ∈ o.aborts ∨ r = ETIMEDOUT

/-- the monitor has not yet seen the report of the newest operation -/
def unrep (s : State) : Prop := s.reported + s.skips < s.starts + pend s

instance : LawfulBEq Prov where
  eq_of_beq := by intro a b h; cases a <;> cases b <;> first | rfl | cases h
  rfl := by intro a; cases a <;> rfl

/-- entries of `calls` whose code is not NNG_ESTOPPED (they all stem from `nng_aio_abort`) -/
def nonE : List (Prov × Nat) → Nat
  | [] => 0
  | c :: l => (if c.2 = ESTOPPED then 0 else 1) + nonE l

theorem nonE_erase_ne {l : List (Prov × Nat)} {p : Prov} {rv : Nat} (h : (p, rv) ∈ l) (hr : rv ≠ ESTOPPED) :
    nonE (l.erase (p, rv)) + 1 = nonE l := by
  induction l with
  | nil => cases h
  | cons c l ih =>
    by_cases hc : c = (p, rv)
    · subst hc
      rw [List.erase_cons_head]
      simp only [nonE, hr, ↓reduceIte]
      omega
    · have hm : (p, rv) ∈ l := by
        rcases List.mem_cons.mp h with h | h
        · exact absurd h.symm hc
        · exact h
      rw [List.erase_cons_tail (by simp only [beq_iff_eq]; exact hc)]
      simp only [nonE]
      have := ih hm
      omega

theorem nonE_erase_e {l : List (Prov × Nat)} {p : Prov} :
    nonE (l.erase (p, ESTOPPED)) = nonE l := by
  induction l with
  | nil => rfl
  | cons c l ih =>
    by_cases hc : c = (p, ESTOPPED)
    · subst hc
      rw [List.erase_cons_head]
      simp [nonE]
    · rw [List.erase_cons_tail (by simp only [beq_iff_eq]; exact hc)]
      simp only [nonE, ih]

theorem nonE_pos {l : List (Prov × Nat)} {p : Prov} {rv : Nat} (h : (p, rv) ∈ l) (hr : rv ≠ ESTOPPED) :
    0 < nonE l := by
  have := nonE_erase_ne h hr
  omega

/-- facts about the newest operation `o` of the monitor (`sc` = the monitor's `stopCalled`) -/
structure RH (s : State) (sc : Bool) (o : Op) : Prop where
  kind : o.kind = s.subKind
  tsub : o.tsub ≤ s.now
  cfg : s.subPc = 1 → o.tmo = s.timeout ∧ (s.useExpire = true → o.absExp = s.expire) ∧
    (s.useExpire = false → o.absExp = none)
  tmoDue : s.subPc = 2 → s.subTmo = true → timeoutDue o s.now = true
  dl : ∀ d, s.opDeadline = some d → DLrel o d
  ab1 : ∀ rv, rv ∈ s.aborts → rv ∈ o.aborts
  ab2 : ∀ p, (p, ETIMEDOUT) ∈ s.calls → o.userTimeout = true
  ab3 : s.subPc = 2 → s.abort = true → s.abortResult ∈ o.aborts
  ut : ETIMEDOUT ∈ o.aborts → o.userTimeout = true
  rep0 : unrep s → o.reported = false
  rep1 : ¬ unrep s → o.reported = true
  opn : (s.subPc ≠ 0 ∨ s.parked = true) → o.decided = none
  pendF : ∀ rv, s.pendFin = some rv → o.decided = some rv
  dec : unrep s → s.opTok = false → ∀ rv, o.decided = some rv → s.final = rv
  expl : unrep s → s.opTok = false → o.decided = none → isDirect s.subKind = true ∨ Refusal o s.final sc
  tout : unrep s → (s.pendFin = some ETIMEDOUT ∨ (s.opTok = false ∧ s.final = ETIMEDOUT)) →
    o.userTimeout = true ∨ timeoutDue o s.now = true
  ret : o.retBeforeStop = true → unrep s → s.subPc = 0 ∧ s.subRets = []
  win : s.stopPc = 5 → o.retBeforeStop = true → ¬ unrep s
  retN : (s.subPc ≠ 0 ∨ s.subRets ≠ []) → o.ret = none
  dlA : ∀ e, o.absExp = some e → (s.subPc = 2 ∨ s.parked = true) → s.opDeadline = some e
  dlS : ∀ m, o.absExp = none → o.tmo = .ms m → (s.subPc = 2 ∨ s.parked = true) → s.opDeadline.isSome = true
  dlU : ∀ m d, o.absExp = none → o.tmo = .ms m → s.opDeadline = some d → (s.subPc = 2 ∨ s.parked = true) →
    (o.ret = none → d ≤ s.now + m) ∧ (o.ret ≠ none → d ≤ o.tret + m)

/-- the scalar part of the relation; `k` = `nng_aio_abort` calls that have done their work and whose
    return the monitor is about to see -/
structure RB (k : Nat) (s : State) (g : G) (j : J) : Prop where
  err : j.err = none
  nfree : j.freeReturned = false
  now : j.now = s.now
  len : j.ops.length = s.starts
  rep : j.reports + pend s = s.reported + s.skips
  cb : j.openCb = s.inCb
  tmo : j.tmo = s.timeout
  abs1 : (s.useExpire = false ∨ s.pendFin.isSome = true ∨ (s.subPc = 1 ∧ isDirect s.subKind = true)) → j.absExp = none
  abs2 : s.useExpire = true → s.pendFin = none → (s.subPc = 1 → isDirect s.subKind = false) → j.absExp = s.expire
  peek : j.reports = j.ops.length → ∀ r, j.lastCb = some r → s.result = r
  stopC : (s.stop = true ∨ s.stopPc ≠ 0 ∨ s.closes ≠ 0) → j.stopCalled = true
  stopR : j.stopReturned = true → s.stoppedAt.isSome = true
  ab1 : ∀ rv, rv ∈ s.aborts → rv ∈ j.openCodes
  ab2 : ∀ p, (p, ETIMEDOUT) ∈ s.calls → ETIMEDOUT ∈ j.openCodes
  ab3 : s.aborts.length + nonE s.calls + g.abE + k ≤ j.openAborts
  freed5 : s.freed = true → s.stopPc = 5
  fr : (s.stopPc ≠ 0 ∧ s.stopFree = true) → k = 0
  useE : s.useExpire = true → s.expire.isSome = true
  oldLe : j.oldCb ≤ j.openCb
  old0 : s.stopPc = 5 → j.oldCb = 0

/-- the relation while `nng_aio_free` has not returned -/
structure R (k : Nat) (s : State) (g : G) (j : J) : Prop where
  base : RB k s g j
  head : ∀ o, j.ops.head? = some o → RH s j.stopCalled o
  tail : ∀ x, x ∈ j.ops.tail → x.reported = true

/-- the relation after `nng_aio_free` has returned -/
structure Rf (s : State) (j : J) : Prop where
  err : j.err = none
  free : j.freeReturned = true
  freed : s.freed = true
  pc : s.stopPc = 0
  done : j.reports = j.ops.length

theorem pend_nil {s : State} (h : s.subRets = []) : pend s = 0 := by simp [pend, h]

theorem pend_le (s : State) : pend s ≤ 1 := by unfold pend; split <;> omega

theorem init_R : R 0 {} {} {} := by
  refine ⟨?_, ?_, ?_⟩
  · constructor <;> simp [pend, nonE]
  · intro o h; simp at h
  · intro x h; simp at h

theorem timeoutDue_mono {o : Op} {n m : Nat} (h : timeoutDue o n = true) (hm : n ≤ m) : timeoutDue o m = true := by
  unfold timeoutDue at h ⊢
  cases ha : o.absExp with
  | some e => simp only [ha, decide_eq_true_eq] at h ⊢; omega
  | none =>
    simp only [ha] at h ⊢
    cases ht : o.tmo with
    | zero => rfl
    | never => simp [ht] at h
    | ms d => simp only [ht, decide_eq_true_eq] at h ⊢; omega

theorem timeoutDue_of_dl {o : Op} {d n : Nat} (h : DLrel o d) (hd : d < n) : timeoutDue o n = true := by
  unfold DLrel at h
  unfold timeoutDue
  cases ha : o.absExp with
  | some e => simp only [ha, decide_eq_true_eq] at h ⊢; omega
  | none =>
    simp only [ha] at h ⊢
    cases ht : o.tmo with
    | zero => rfl
    | never => simp [ht] at h
    | ms d => simp only [ht, decide_eq_true_eq] at h ⊢; omega

theorem estopped_ne_etimedout : ESTOPPED ≠ ETIMEDOUT := by decide
theorem estopped_ne_ecanceled : ESTOPPED ≠ ECANCELED := by decide
theorem etimedout_ne_ecanceled : ETIMEDOUT ≠ ECANCELED := by decide

/-- unfold a step of the model into its cases; every case leaves `s'` as an explicit record -/
macro "step_cases" hs:ident : tactic => `(tactic| (
  try simp only [step, Cfg.fixed, dispatch_eq, release_eq, cancelGen_eq, cancelSlp_eq, completed, finishCore, takeFn, Bool.true_and] at $hs:ident
  repeat' (split at $hs:ident)
  all_goals (try (cases $hs:ident))))

macro "step_casesk" hs:ident hk:ident : tactic => `(tactic| (
  try simp only [step, $hk:ident, ↓reduceIte, Bool.false_eq_true, Cfg.fixed, dispatch_eq, release_eq, cancelGen_eq, cancelSlp_eq, completed, finishCore, takeFn, Bool.true_and] at $hs:ident
  repeat' (split at $hs:ident)
  all_goals (try (cases $hs:ident))))

macro "step_caseskk" hs:ident hk:ident hk2:ident : tactic => `(tactic| (
  try simp only [step, $hk:ident, $hk2:ident, ↓reduceIte, Bool.false_eq_true, Cfg.fixed, dispatch_eq, release_eq, cancelGen_eq, cancelSlp_eq, completed, finishCore, takeFn, Bool.true_and] at $hs:ident
  repeat' (split at $hs:ident)
  all_goals (try (cases $hs:ident))))

set_option hygiene false in
/-- bring the invariants and the relation into the context, field by field -/
macro "r_open" hR:ident : tactic => `(tactic| (
  rcases ‹Inv1 _› with ⟨h1,h2,h3,h4,h5,h6,h7,h8,h9,h10,h11,h12,h13,h14,h15,h16,h17,h18⟩
  rcases ‹Inv2 _› with ⟨g1,g2,g3,g4,g5,g6,g7⟩
  rcases ‹Inv3 _› with ⟨k1,k2,k3,k4,k5,k6,k7,k8,k9⟩
  rcases ‹Inv4 _› with ⟨m1,m2,m3,m4,m4b,m4c,m5,m6,m7,m8,m9,m10,m11,m12,m13⟩
  rcases $hR:ident with ⟨⟨b1,b2,b3,b4,b5,b6,b7,b8,b9,b10,b11,b12,b13,b14,b15,b16,b17,b18,b19,b20⟩, hh, ht⟩
  have c1 : ESTOPPED ≠ ETIMEDOUT := estopped_ne_etimedout
  have c2 : ESTOPPED ≠ ECANCELED := estopped_ne_ecanceled
  have c3 : ETIMEDOUT ≠ ECANCELED := etimedout_ne_ecanceled))

set_option hygiene false in
macro "rb_close" : tactic => `(tactic| (
  constructor <;> (try dsimp only) <;> (try simp only [updNewest_length]) <;> grind [b2n, pend, nonE, isDirect]))

set_option hygiene false in
macro "rh_close" : tactic => `(tactic| (
  constructor <;> (try dsimp only) <;> grind [b2n, unrep, pend, Refusal, DLrel, timeoutDue, isDirect]))

set_option hygiene false in
macro "rh_try" : tactic => `(tactic| (
  constructor <;> (try dsimp only) <;> (first | grind [b2n, unrep, pend, Refusal, DLrel, timeoutDue, isDirect] | skip)))

set_option hygiene false in
macro "rb_try" : tactic => `(tactic| (
  constructor <;> (try dsimp only) <;> (try simp only [updNewest_length]) <;> (first | grind [b2n, pend, nonE, isDirect] | skip)))

set_option hygiene false in
/-- the monitor's list of operations is untouched by the step: the head facts come from the old ones -/
macro "r_same" hR:ident : tactic => `(tactic| (
  r_open $hR:ident
  refine ⟨?_, ?_, ht⟩
  · rb_close
  · intro o ho
    rcases hh o ho with ⟨r1,r2,r3,r4,r5,r6,r7,r8,r9,r10,r11,r12,r13,r14,r15,r16,r17,r18,r19,r20,r21,r22⟩
    rh_close))

/-- the monitor has an operation on record as soon as the model has started one -/
theorem head_exists {k : Nat} {s : State} {g : G} {j : J} (hR : R k s g j) (h : s.starts ≠ 0) :
    ∃ o, j.ops.head? = some o := by
  have := hR.base.len
  cases hj : j.ops with
  | nil => rw [hj] at this; simp at this; omega
  | cons o r => exact ⟨o, rfl⟩

/-- an open operation has been started -/
theorem starts_ne_zero {s : State} (i1 : Inv1 s) (h : s.opTok = true) : s.starts ≠ 0 := by
  have := i1.cnt
  simp only [h, b2n, ↓reduceIte] at this
  omega

set_option hygiene false in
/-- the step changed the monitor's newest operation `o` (`ho : j.ops.head? = some o`) by `updNewest` -/
macro "r_upd" ho:ident : tactic => `(tactic| (
  refine ⟨?_, ?_, ?_⟩
  · rb_close
  · intro o' ho'
    rw [updNewest_head, $ho:ident] at ho'
    simp only [Option.map_some, Option.some.injEq] at ho'
    subst ho'
    rcases hh o $ho:ident with ⟨r1,r2,r3,r4,r5,r6,r7,r8,r9,r10,r11,r12,r13,r14,r15,r16,r17,r18,r19,r20,r21,r22⟩
    constructor <;> (try dsimp only [fRet]) <;> grind [b2n, unrep, pend, Refusal, DLrel, timeoutDue, isDirect]
  · intro x hx; rw [updNewest_tail] at hx; exact ht x hx))

end Nng.Aio
