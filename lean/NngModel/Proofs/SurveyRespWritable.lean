/-
  RESPONDENT send pollable (S7): along every event sequence, when the send pollable is raised
  the socket's own context has a pending survey whose pipe is idle or gone, so a send that may
  wait completes in the call.

  Invariant `WInv`: there is one socket context; a context that remembers a pipe has a
  non-empty backtrace; a survey held by a pipe has a non-empty header; `writable = true` ⇒ the
  socket context remembers a pipe and that pipe is closed/unknown or not busy; before the
  socket is opened there are no pipes and the pollable is down.
-/
import NngModel.Proofs.SurveyRespInd
namespace Nng.Respond
open Nng Nng.Proto

def Uniq (ctxs : List Ctx) : Prop := ∀ c ∈ ctxs, ∀ c' ∈ ctxs, c.key = none → c'.key = none → c = c'
def BtOK (ctxs : List Ctx) : Prop := ∀ c ∈ ctxs, c.pipeId ≠ none → c.btrace ≠ []
def HeldOK (pipes : List Pipe) : Prop := ∀ pp ∈ pipes, ∀ wm, pp.held = some wm → wm.hdr ≠ []

/-- `some b`: the pipe is registered and open, `b` = a send is in flight on it -/
def busyOf (s : State) (q : Option Nat) : Option Bool := (livePipe s q).map (·.busy)

/-- raised ⇒ the socket context's survey came from a pipe that is gone or idle -/
def Wr (s : State) : Prop :=
  s.writable = true → (∃ p, sockPipeId s = some p) ∧ busyOf s (sockPipeId s) ≠ some true

structure WInv (s : State) : Prop where
  uniq : Uniq s.ctxs
  bt : BtOK s.ctxs
  held : HeldOK s.pipes
  wr : Wr s
  unopened : s.opened = false → s.pipes = [] ∧ s.writable = false

/-! ### lookups -/

theorem find_map_id (l : List Pipe) (f : Pipe → Pipe) (hf : ∀ x, (f x).id = x.id) (q : Nat) :
    (l.map f).find? (·.id == q) = (l.find? (·.id == q)).map f := by
  induction l with
  | nil => rfl
  | cons x xs ih =>
    simp only [List.map_cons, List.find?_cons, hf]
    cases x.id == q <;> simp [ih]

theorem find_map_key (l : List Ctx) (f : Ctx → Ctx) (hf : ∀ x, (f x).key = x.key) (k : Option Nat) :
    (l.map f).find? (·.key == k) = (l.find? (·.key == k)).map f := by
  induction l with
  | nil => rfl
  | cons x xs ih =>
    simp only [List.map_cons, List.find?_cons, hf]
    cases x.key == k <;> simp [ih]

theorem setCtx_fn_key (c' x : Ctx) : (if (x.key == c'.key) = true then c' else x).key = x.key := by
  by_cases hx : (x.key == c'.key) = true
  · rw [if_pos hx]; exact (by simpa using hx : x.key = c'.key).symm
  · rw [if_neg hx]

theorem setPipe_fn_id (pp' x : Pipe) : (if (x.id == pp'.id) = true then pp' else x).id = x.id := by
  by_cases hx : (x.id == pp'.id) = true
  · rw [if_pos hx]; exact (by simpa using hx : x.id = pp'.id).symm
  · rw [if_neg hx]

theorem getCtx_setCtx (s : State) (c' : Ctx) (k : Option Nat) :
    getCtx (setCtx s c') k = (getCtx s k).map fun x => if (x.key == c'.key) = true then c' else x := by
  unfold getCtx setCtx
  exact find_map_key s.ctxs _ (setCtx_fn_key c') k

theorem getPipe_setPipe {s : State} {pp pp' : Pipe} (hg : getPipe s pp.id = some pp) (hi : pp'.id = pp.id)
    (q : Nat) : getPipe (setPipe s pp') q = if q = pp.id then some pp' else getPipe s q := by
  have e : getPipe (setPipe s pp') q = (getPipe s q).map fun x => if (x.id == pp'.id) = true then pp' else x := by
    unfold getPipe setPipe
    exact find_map_id s.pipes _ (setPipe_fn_id pp') q
  rw [e]
  by_cases hq : q = pp.id
  · subst hq
    rw [if_pos rfl, hg]
    simp [hi]
  · rw [if_neg hq]
    cases hfd : getPipe s q with
    | none => rfl
    | some x =>
      have hx := getPipe_id hfd
      have : ¬ x.id = pp'.id := by
        rw [hx, hi]; exact hq
      simp [this]

theorem livePipe_pipes {s s' : State} (h : s'.pipes = s.pipes) (q : Option Nat) : livePipe s' q = livePipe s q := by
  unfold livePipe getPipe; rw [h]

theorem busyOf_pipes {s s' : State} (h : s'.pipes = s.pipes) (q : Option Nat) : busyOf s' q = busyOf s q := by
  unfold busyOf; rw [livePipe_pipes h]

theorem sockPipeId_ctxs {s s' : State} (h : s'.ctxs = s.ctxs) : sockPipeId s' = sockPipeId s := by
  unfold sockPipeId getCtx; rw [h]

theorem busyOf_none (s : State) : busyOf s none = none := rfl

theorem busyOf_at {s : State} {n : Nat} {pp : Pipe} (hg : getPipe s n = some pp) :
    busyOf s (some n) = if pp.closed = true then none else some pp.busy := by
  simp only [busyOf, livePipe, hg]
  split <;> rfl

theorem busyOf_at_none {s : State} {n : Nat} (hg : getPipe s n = none) : busyOf s (some n) = none := by
  simp only [busyOf, livePipe, hg]
  rfl

theorem busyOf_setPipe {s : State} {pp pp' : Pipe} (hg : getPipe s pp.id = some pp) (hi : pp'.id = pp.id)
    (q : Option Nat) :
    busyOf (setPipe s pp') q =
      if q = some pp.id then (if pp'.closed = true then none else some pp'.busy) else busyOf s q := by
  cases q with
  | none => simp [busyOf_none]
  | some n =>
    by_cases hn : n = pp.id
    · subst hn
      rw [if_pos rfl]
      exact busyOf_at (by rw [getPipe_setPipe hg hi, if_pos rfl])
    · have hne : ¬ (some n = some pp.id) := by simpa using hn
      rw [if_neg hne]
      have e : getPipe (setPipe s pp') n = getPipe s n := by rw [getPipe_setPipe hg hi, if_neg hn]
      simp only [busyOf, livePipe, e]

theorem busyOf_setPipe_same {s : State} {pp pp' : Pipe} (hg : getPipe s pp.id = some pp) (hi : pp'.id = pp.id)
    (hc : pp'.closed = pp.closed) (hb : pp'.busy = pp.busy) (q : Option Nat) :
    busyOf (setPipe s pp') q = busyOf s q := by
  rw [busyOf_setPipe hg hi]
  by_cases hq : q = some pp.id
  · rw [if_pos hq, hq, busyOf_at hg, hc, hb]
  · rw [if_neg hq]

theorem busyOf_map {s : State} (f : Pipe → Pipe) (hi : ∀ x, (f x).id = x.id) (hc : ∀ x, (f x).closed = x.closed)
    (hb : ∀ x, (f x).busy = x.busy) (q : Option Nat) :
    busyOf { s with pipes := s.pipes.map f } q = busyOf s q := by
  cases q with
  | none => rfl
  | some n =>
    have e : getPipe { s with pipes := s.pipes.map f } n = (getPipe s n).map f := by
      unfold getPipe
      exact find_map_id s.pipes f hi n
    cases hfd : getPipe s n with
    | none =>
      rw [busyOf_at_none hfd, busyOf_at_none (by rw [e, hfd]; rfl)]
    | some x =>
      rw [busyOf_at hfd, busyOf_at (pp := f x) (by rw [e, hfd]; rfl), hc, hb]

theorem getCtx_none_of_mem {s : State} {c : Ctx} (hu : Uniq s.ctxs) (hc : c ∈ s.ctxs) (hk : c.key = none) :
    getCtx s none = some c := by
  cases hf : getCtx s none with
  | none =>
    have := List.find?_eq_none.mp hf c hc
    simp [hk] at this
  | some x =>
    rw [hu x (getCtx_mem hf) c hc (getCtx_key hf) hk]

theorem sockPipeId_eq {s : State} {c : Ctx} (hg : getCtx s none = some c) : sockPipeId s = c.pipeId := by
  simp [sockPipeId, hg]

theorem sockPipeId_setCtx_ne {s : State} {c' : Ctx} (h : c'.key ≠ none) : sockPipeId (setCtx s c') = sockPipeId s := by
  unfold sockPipeId
  rw [getCtx_setCtx]
  cases hf : getCtx s none with
  | none => rfl
  | some x =>
    have hx := getCtx_key hf
    have : ¬ x.key = c'.key := by
      rw [hx]; intro e; exact h e.symm
    simp [this]

theorem sockPipeId_setCtx_sock {s : State} {c c' : Ctx} (h : c'.key = none) (hg : getCtx s none = some c) :
    sockPipeId (setCtx s c') = c'.pipeId := by
  unfold sockPipeId
  rw [getCtx_setCtx, hg]
  have hx := getCtx_key hg
  simp [hx, h]

theorem sockPipeId_setCtx_same {s : State} {c c' : Ctx} (hu : Uniq s.ctxs) (hc : c ∈ s.ctxs)
    (hk : c'.key = c.key) (hp : c'.pipeId = c.pipeId) : sockPipeId (setCtx s c') = sockPipeId s := by
  by_cases hkn : c.key = none
  · have hg := getCtx_none_of_mem hu hc hkn
    rw [sockPipeId_setCtx_sock (hk.trans hkn) hg, sockPipeId_eq hg, hp]
  · exact sockPipeId_setCtx_ne (by rw [hk]; exact hkn)

theorem sockPipeId_map {s : State} (f : Ctx → Ctx) (hk : ∀ x, (f x).key = x.key) (hp : ∀ x, (f x).pipeId = x.pipeId) :
    sockPipeId { s with ctxs := s.ctxs.map f } = sockPipeId s := by
  unfold sockPipeId getCtx
  simp only
  rw [find_map_key s.ctxs f hk none]
  cases List.find? (fun x => x.key == none) s.ctxs with
  | none => rfl
  | some x => simp [hp]

/-! ### the local parts of the invariant -/

theorem uniq_setCtx {s : State} (c' : Ctx) (h : Uniq s.ctxs) : Uniq (setCtx s c').ctxs := by
  intro x hx y hy hxk hyk
  rcases mem_setCtx' hx with rfl | ⟨hx, hxn⟩
  · rcases mem_setCtx' hy with rfl | ⟨hy, hyn⟩
    · rfl
    · exact absurd (hyk.trans hxk.symm) hyn
  · rcases mem_setCtx' hy with rfl | ⟨hy, hyn⟩
    · exact absurd (hxk.trans hyk.symm) hxn
    · exact h x hx y hy hxk hyk

theorem uniq_map {ctxs : List Ctx} (f : Ctx → Ctx) (hk : ∀ x, (f x).key = x.key) (h : Uniq ctxs) : Uniq (ctxs.map f) := by
  intro x hx y hy hxk hyk
  simp only [List.mem_map] at hx hy
  obtain ⟨x0, hx0, rfl⟩ := hx
  obtain ⟨y0, hy0, rfl⟩ := hy
  rw [hk] at hxk hyk
  rw [h x0 hx0 y0 hy0 hxk hyk]

theorem btOK_setCtx {s : State} {c' : Ctx} (h : BtOK s.ctxs) (hc : c'.pipeId ≠ none → c'.btrace ≠ []) :
    BtOK (setCtx s c').ctxs := by
  intro x hx
  rcases mem_setCtx hx with rfl | hx
  · exact hc
  · exact h x hx

theorem heldOK_setPipe {s : State} {pp' : Pipe} (h : HeldOK s.pipes) (hp : ∀ wm, pp'.held = some wm → wm.hdr ≠ []) :
    HeldOK (setPipe s pp').pipes := by
  intro x hx
  rcases mem_setPipe' hx with rfl | ⟨hx, _⟩
  · exact hp
  · exact h x hx

theorem getPipe_nil {s : State} {p : Nat} {pp : Pipe} (hg : getPipe s p = some pp) (h : s.pipes = []) : False := by
  unfold getPipe at hg
  rw [h] at hg
  simp at hg

/-! ### transfer lemmas for `Wr` -/

theorem wr_false {s : State} (h : s.writable = false) : Wr s := by
  intro hw; rw [h] at hw; cases hw

theorem wr_of {s s' : State} (h : Wr s) (hw : s'.writable = true → s.writable = true)
    (hs : sockPipeId s' = sockPipeId s) (hb : ∀ q, busyOf s' q = busyOf s q) : Wr s' := by
  intro hw'
  rw [hs, hb]
  exact h (hw hw')

/-- pipe `pp` becomes idle or closed, the pollable is raised if the socket's survey is from it -/
theorem wr_raise {s s' : State} {pp pp' : Pipe} (h : Wr s) (hg : getPipe s pp.id = some pp) (hi : pp'.id = pp.id)
    (hidle : pp'.closed = true ∨ pp'.busy = false)
    (hw : s'.writable = true → s.writable = true ∨ sockPipeId s = some pp.id)
    (hs : sockPipeId s' = sockPipeId s) (hb : ∀ q, busyOf s' q = busyOf (setPipe s pp') q) : Wr s' := by
  intro hw'
  rw [hs, hb, busyOf_setPipe hg hi]
  by_cases hσ : sockPipeId s = some pp.id
  · rw [if_pos hσ]
    refine ⟨⟨_, hσ⟩, ?_⟩
    rcases hidle with hcl | hbz
    · simp [hcl]
    · cases pp'.closed <;> simp [hbz]
  · rw [if_neg hσ]
    rcases hw hw' with h1 | h1
    · exact h h1
    · exact absurd h1 hσ

/-- context `c` takes a survey that came from pipe `n` -/
theorem wr_take {s s' : State} {c c' : Ctx} {n : Nat} {b : Bool} (h : Wr s) (hu : Uniq s.ctxs) (hc : c ∈ s.ctxs)
    (hk : c'.key = c.key) (hp : c'.pipeId = some n)
    (hctx : s'.ctxs = (setCtx s c').ctxs) (hw : s'.writable = if c.key == none then !b else s.writable)
    (hb : ∀ q, busyOf s' q = busyOf s q) (hbusy : busyOf s (some n) = some true → b = true) : Wr s' := by
  intro hw'
  have hs : sockPipeId s' = sockPipeId (setCtx s c') := sockPipeId_ctxs hctx
  by_cases hkn : c.key = none
  · rw [hs, sockPipeId_setCtx_sock (hk.trans hkn) (getCtx_none_of_mem hu hc hkn), hp, hb]
    refine ⟨⟨n, rfl⟩, ?_⟩
    intro hbz
    have := hbusy hbz
    rw [hw] at hw'
    simp [hkn, this] at hw'
  · have hkn' : ¬ (c.key == none) = true := by simpa using hkn
    rw [hw, if_neg hkn'] at hw'
    rw [hs, sockPipeId_setCtx_ne (by rw [hk]; exact hkn), hb]
    exact h hw'

/-! ### structural lemmas for `WInv` -/

theorem WInv.of_eq {s s' : State} (h : WInv s) (h1 : s'.ctxs = s.ctxs) (h2 : s'.pipes = s.pipes)
    (h3 : s'.writable = s.writable) (h4 : s'.opened = s.opened) : WInv s' :=
  ⟨by rw [h1]; exact h.uniq, by rw [h1]; exact h.bt, by rw [h2]; exact h.held,
   wr_of h.wr (by rw [h3]; exact id) (sockPipeId_ctxs h1) (busyOf_pipes h2),
   by rw [h4, h2, h3]; exact h.unopened⟩

/-- a context is replaced by one with the same key, pipe and backtrace -/
theorem winv_setCtx_same {s : State} {c c' : Ctx} (h : WInv s) (hc : c ∈ s.ctxs) (hk : c'.key = c.key)
    (hp : c'.pipeId = c.pipeId) (hb : c'.btrace = c.btrace) : WInv (setCtx s c') :=
  ⟨uniq_setCtx c' h.uniq, btOK_setCtx h.bt (by rw [hp, hb]; exact h.bt c hc), h.held,
   wr_of h.wr id (sockPipeId_setCtx_same h.uniq hc hk hp) (fun _ => rfl), h.unopened⟩

/-- a send consumed the context's survey (on the socket context the pollable was cleared first) -/
theorem winv_setCtx_send {s : State} {c' : Ctx} (h : WInv s) (hp : c'.pipeId = none)
    (hw : c'.key = none → s.writable = false) : WInv (setCtx s c') := by
  refine ⟨uniq_setCtx c' h.uniq, btOK_setCtx h.bt (by rw [hp]; intro e; exact absurd rfl e), h.held, ?_, h.unopened⟩
  by_cases hk : c'.key = none
  · exact wr_false (hw hk)
  · exact wr_of h.wr id (sockPipeId_setCtx_ne hk) (fun _ => rfl)

/-- a pipe is replaced by one with the same id, closed and busy flags -/
theorem winv_setPipe_same {s : State} {pp pp' : Pipe} (h : WInv s) (hg : getPipe s pp.id = some pp)
    (hi : pp'.id = pp.id) (hc : pp'.closed = pp.closed) (hb : pp'.busy = pp.busy)
    (hh : ∀ wm, pp'.held = some wm → wm.hdr ≠ []) : WInv (setPipe s pp') :=
  ⟨h.uniq, h.bt, heldOK_setPipe h.held hh, wr_of h.wr id rfl (busyOf_setPipe_same hg hi hc hb),
   fun ho => (getPipe_nil hg (h.unopened ho).1).elim⟩

theorem winv_pipes_map {s : State} (f : Pipe → Pipe) (hi : ∀ x, (f x).id = x.id) (hc : ∀ x, (f x).closed = x.closed)
    (hb : ∀ x, (f x).busy = x.busy) (hh : ∀ x, (f x).held = x.held) (h : WInv s) :
    WInv { s with pipes := s.pipes.map f } := by
  refine ⟨h.uniq, h.bt, ?_, wr_of h.wr id rfl (busyOf_map f hi hc hb), ?_⟩
  · intro x hx
    simp only [List.mem_map] at hx
    obtain ⟨y, hy, rfl⟩ := hx
    rw [hh]
    exact h.held y hy
  · intro ho
    have := h.unopened ho
    exact ⟨by simp [this.1], this.2⟩

/-! ### the callbacks -/

theorem closePipe_winv {s : State} (p : Nat) (h : WInv s) : WInv (closePipe s p).1 := by
  unfold closePipe
  split
  · exact h
  · rename_i pp hg
    split
    · exact h
    · simp only
      have hid := getPipe_id hg
      subst hid
      have h1 : WInv (dropRecvPipe s pp.id) := h.of_eq (by simp) (by simp) (by simp) (by simp)
      have hg1 : getPipe (dropRecvPipe s pp.id) pp.id = some pp := by
        unfold getPipe; rw [dropRecvPipe_pipes]; exact hg
      generalize dropRecvPipe s pp.id = s1 at h1 hg1 ⊢
      have hk : ∀ x : Ctx, (if pp.sendq.contains x.key = true then { x with saio := none } else x).key = x.key := by
        intro x; split <;> rfl
      have hpi : ∀ x : Ctx, (if pp.sendq.contains x.key = true then { x with saio := none } else x).pipeId = x.pipeId := by
        intro x; split <;> rfl
      have hbt : ∀ x : Ctx, (if pp.sendq.contains x.key = true then { x with saio := none } else x).btrace = x.btrace := by
        intro x; split <;> rfl
      have hsock := sockPipeId_map (s := s1) _ hk hpi
      refine ⟨?_, ?_, ?_, ?_, ?_⟩
      · simp only [setPipe_ctxs, raiseWritableIf_ctxs]
        exact uniq_map _ hk h1.uniq
      · simp only [setPipe_ctxs, raiseWritableIf_ctxs]
        intro x hx
        simp only [List.mem_map] at hx
        obtain ⟨y, hy, rfl⟩ := hx
        rw [hpi, hbt]
        exact h1.bt y hy
      · apply heldOK_setPipe
        · simpa using h1.held
        · intro wm hwm; simp at hwm
      · apply wr_raise (s := { s1 with ctxs := s1.ctxs.map fun c => if pp.sendq.contains c.key = true then { c with saio := none } else c })
          (pp := pp) (pp' := { pp with closed := true, busy := false, armed := false, held := none, sendq := [] })
          (wr_of h1.wr id hsock (fun _ => rfl)) hg1 rfl (Or.inl rfl)
        · intro hw
          simp only [setPipe_writable, raiseWritableIf_writable, Bool.or_eq_true, beq_iff_eq] at hw
          exact hw
        · exact sockPipeId_ctxs (by simp)
        · intro q
          exact busyOf_pipes (by simp [setPipe]) q
      · intro ho
        exact (getPipe_nil hg1 (h1.unopened (by simpa using ho)).1).elim

theorem pipeSent_winv {s : State} {p : Nat} {pp : Pipe} (h : WInv s) (hg : getPipe s p = some pp)
    (hbz : pp.busy = true) : WInv (pipeSent s pp).1 := by
  have hid := getPipe_id hg
  subst hid
  unfold pipeSent
  split
  · simp only
    refine ⟨?_, ?_, ?_, ?_, ?_⟩
    · simpa using h.uniq
    · simpa using h.bt
    · rw [raiseWritableIf_pipes]
      exact heldOK_setPipe h.held (fun wm hwm => h.held pp (getPipe_mem hg) wm hwm)
    · apply wr_raise (s := s) (pp := pp) (pp' := { pp with busy := false }) h.wr hg rfl (Or.inr rfl)
      · intro hw
        simp only [raiseWritableIf_writable, setPipe_writable, Bool.or_eq_true, beq_iff_eq] at hw
        exact hw
      · exact sockPipeId_ctxs (by simp)
      · intro q
        exact busyOf_pipes (by simp) q
    · intro ho
      exact (getPipe_nil hg (h.unopened (by simpa using ho)).1).elim
  · rename_i k rest hsq
    split
    · exact h
    · rename_i c hgc
      split
      · exact h
      · simp only
        have h2 := winv_setPipe_same (pp' := { pp with sendq := rest, busy := true }) h hg rfl rfl hbz.symm
          (fun wm hwm => h.held pp (getPipe_mem hg) wm hwm)
        have h3 := winv_setCtx_same (c := c) (c' := { c with saio := none }) h2 (getCtx_mem hgc) rfl rfl rfl
        exact h3.of_eq rfl rfl rfl rfl

theorem pipeRecv_winv {s : State} {p : Nat} {pp : Pipe} (wm : WMsg) (h : WInv s) (hg : getPipe s p = some pp)
    (hh : wm.hdr ≠ []) : WInv (pipeRecv s pp wm).1 := by
  have hid := getPipe_id hg
  subst hid
  unfold pipeRecv
  split
  · simp only
    exact (winv_setPipe_same (pp' := { pp with armed := false, held := some wm }) h hg rfl rfl rfl
      (by intro wm' e; simp only [Option.some.injEq] at e; subst e; exact hh)).of_eq rfl rfl rfl rfl
  · rename_i k rest hq
    split
    · exact h
    · rename_i c hgc
      split
      · exact h
      · simp only
        have hc := getCtx_mem hgc
        have hck := getCtx_key hgc
        refine ⟨?_, ?_, ?_, ?_, ?_⟩
        · simp only [setWritableFor_ctxs]
          exact uniq_setCtx (s := { s with recvq := rest }) _ h.uniq
        · simp only [setWritableFor_ctxs]
          exact btOK_setCtx (s := { s with recvq := rest }) h.bt (fun _ => hh)
        · simpa using h.held
        · apply wr_take (s := s) (c := c) (c' := takeSurvey { c with raio := none } pp.id wm) (n := pp.id)
            (b := pp.busy) h.wr h.uniq hc rfl rfl
          · simp [setCtx]
          · rw [setWritableFor_writable, hck]; rfl
          · intro q
            exact busyOf_pipes (by simp) q
          · intro hb
            rw [busyOf_at hg] at hb
            split at hb
            · cases hb
            · simpa using hb
        · intro ho
          exact (getPipe_nil hg (h.unopened (by simpa using ho)).1).elim

theorem ctxRecv_winv {s : State} {c : Ctx} (a : Nat) (mode : Mode) (h : WInv s) (hc : c ∈ s.ctxs) :
    WInv (ctxRecv s c a mode).1 := by
  unfold ctxRecv
  split
  · split
    · exact h
    · split
      · exact h
      · simp only
        exact (winv_setCtx_same (c := c) (c' := { c with raio := some ⟨a, deadlineOf s.now mode⟩ }) h hc rfl rfl rfl).of_eq
          rfl rfl rfl rfl
  · rename_i p rest hrp
    split
    · exact h
    · rename_i pp hg
      split
      · exact h
      · rename_i wm hw
        simp only
        have hid := getPipe_id hg
        subst hid
        have hhdr := h.held pp (getPipe_mem hg) wm hw
        have h2 : WInv (if rest.isEmpty = true then { s with recvpipes := rest, readable := false }
            else { s with recvpipes := rest }) := by
          split <;> exact h.of_eq rfl rfl rfl rfl
        have hg2 : getPipe (if rest.isEmpty = true then { s with recvpipes := rest, readable := false }
            else { s with recvpipes := rest }) pp.id = some pp := by
          split <;> exact hg
        have hc2 : c ∈ (if rest.isEmpty = true then { s with recvpipes := rest, readable := false }
            else { s with recvpipes := rest }).ctxs := by
          split <;> exact hc
        generalize (if rest.isEmpty = true then { s with recvpipes := rest, readable := false }
            else { s with recvpipes := rest }) = s2 at h2 hg2 hc2 ⊢
        have h3 := winv_setPipe_same (pp' := { pp with held := none, armed := true }) h2 hg2 rfl rfl rfl
          (by intro wm' e; simp at e)
        have hb3 : ∀ q, busyOf (setPipe s2 { pp with held := none, armed := true }) q = busyOf s2 q :=
          busyOf_setPipe_same hg2 rfl rfl rfl
        refine ⟨?_, ?_, ?_, ?_, ?_⟩
        · simp only [setWritableFor_ctxs]
          exact uniq_setCtx _ h3.uniq
        · simp only [setWritableFor_ctxs]
          exact btOK_setCtx h3.bt (fun _ => hhdr)
        · simpa using h3.held
        · apply wr_take (s := setPipe s2 { pp with held := none, armed := true }) (c := c)
            (c' := takeSurvey c pp.id wm) (n := pp.id) (b := pp.busy) h3.wr h3.uniq hc2 rfl rfl
          · simp
          · rw [setWritableFor_writable]; rfl
          · intro q
            exact busyOf_pipes (by simp) q
          · intro hb
            rw [hb3, busyOf_at hg2] at hb
            split at hb
            · cases hb
            · simpa using hb
        · intro ho
          exact (getPipe_nil hg2 (h2.unopened (by simpa using ho)).1).elim

theorem handOver_winv {s : State} {pp : Pipe} (w : Wire) (h : WInv s) (hg : getPipe s pp.id = some pp) :
    WInv (handOver s pp w) := by
  have hb := busyOf_setPipe (pp' := { pp with busy := true }) hg rfl
  have hheld : HeldOK (setPipe s { pp with busy := true }).pipes :=
    heldOK_setPipe h.held (fun wm hwm => h.held pp (getPipe_mem hg) wm hwm)
  have hun : ∀ s' : State, s'.opened = s.opened → (s'.opened = false → s'.pipes = [] ∧ s'.writable = false) :=
    fun s' e ho => (getPipe_nil hg (h.unopened (e ▸ ho)).1).elim
  unfold handOver
  simp only
  split
  · exact ⟨h.uniq, h.bt, hheld, wr_false rfl, hun _ rfl⟩
  · rename_i hne
    refine ⟨h.uniq, h.bt, hheld, ?_, hun _ rfl⟩
    intro hw
    obtain ⟨he, hbz⟩ := h.wr hw
    refine ⟨he, ?_⟩
    have hne' : ¬ sockPipeId s = some pp.id := by
      intro e
      apply hne
      show (sockPipeId s == some pp.id) = true
      simp [e]
    show busyOf (setPipe s { pp with busy := true }) (sockPipeId s) ≠ some true
    rw [hb, if_neg hne']
    exact hbz

theorem ctxSend_winv {s : State} (c : Ctx) (a : Nat) (m : WMsg) (mode : Mode) (h : WInv s) :
    WInv (ctxSend s c a m mode).1 := by
  unfold ctxSend
  simp only
  have h0 : WInv (if c.key == none then { s with writable := false } else s) := by
    split
    · exact ⟨h.uniq, h.bt, h.held, wr_false rfl, fun ho => ⟨(h.unopened ho).1, rfl⟩⟩
    · exact h
  have hw0 : c.key = none → (if c.key == none then { s with writable := false } else s).writable = false := by
    intro hk; simp [hk]
  generalize (if c.key == none then { s with writable := false } else s) = s0 at h0 hw0 ⊢
  split
  · exact h0
  · split
    · exact h0
    · split
      · exact h0
      · have h1 : WInv (setCtx s0 { c with btrace := [], pipeId := none }) := winv_setCtx_send h0 rfl hw0
        split
        · exact h1
        · rename_i pp hl
          obtain ⟨_, e2, _⟩ := livePipe_some hl
          split
          · exact handOver_winv _ h1 e2
          · refine winv_setPipe_same (winv_setCtx_send h1 rfl hw0) e2 rfl rfl rfl ?_
            exact fun wm hwm => h1.held pp (getPipe_mem e2) wm hwm

theorem cancelAio_winv {s : State} (a rv : Nat) (h : WInv s) : WInv (cancelAio s a rv).1 := by
  unfold cancelAio
  split
  · rename_i c hf
    have hc : c ∈ s.ctxs := List.mem_of_find?_eq_some hf
    simp only
    have h1 := winv_pipes_map (fun (pp : Pipe) => { pp with sendq := pp.sendq.filter (· != c.key) })
      (fun _ => rfl) (fun _ => rfl) (fun _ => rfl) (fun _ => rfl) h
    exact winv_setCtx_same (c := c) (c' := { c with saio := none }) h1 hc rfl rfl rfl
  · split
    · rename_i c hf
      have hc : c ∈ s.ctxs := List.mem_of_find?_eq_some hf
      simp only
      have h0 : WInv { s with recvq := s.recvq.filter (· != c.key) } := h.of_eq rfl rfl rfl rfl
      exact winv_setCtx_same (c := c) (c' := { c with raio := none }) h0 hc rfl rfl rfl
    · exact h

theorem closeCtx_winv {s : State} {c : Ctx} (h : WInv s) (hc : c ∈ s.ctxs) : WInv (closeCtx s c).1 := by
  unfold closeCtx
  have hq : ∀ s0 : State, WInv s0 → c ∈ s0.ctxs → WInv (setCtx s0 { c with saio := none, raio := none }) :=
    fun s0 h0 hc0 => winv_setCtx_same (c := c) h0 hc0 rfl rfl rfl
  have hm : ∀ s0 : State, WInv s0 →
      WInv { s0 with pipes := s0.pipes.map fun (pp : Pipe) => { pp with sendq := pp.sendq.filter (· != c.key) } } :=
    fun s0 h0 => winv_pipes_map _ (fun _ => rfl) (fun _ => rfl) (fun _ => rfl) (fun _ => rfl) h0
  cases hs : c.saio with
  | none =>
    cases hr : c.raio with
    | none => exact hq s h hc
    | some pr => exact hq { s with recvq := s.recvq.filter (· != c.key) } (h.of_eq rfl rfl rfl rfl) hc
  | some ps =>
    cases hr : c.raio with
    | none => exact hq _ (hm s h) hc
    | some pr => exact hq _ ((hm s h).of_eq (s' := { s with pipes := s.pipes.map fun (pp : Pipe) => { pp with sendq := pp.sendq.filter (· != c.key) }, recvq := s.recvq.filter (· != c.key) }) rfl rfl rfl rfl) hc

/-! ### in-line updates of `step` -/

theorem busyOf_append {s : State} {pp : Pipe} {q : Option Nat}
    (h : busyOf { s with pipes := s.pipes ++ [pp] } q = some true) : busyOf s q = some true ∨ pp.busy = true := by
  cases q with
  | none => rw [busyOf_none] at h; cases h
  | some n =>
    have e : getPipe { s with pipes := s.pipes ++ [pp] } n = (getPipe s n).or (if pp.id == n then some pp else none) := by
      unfold getPipe
      simp only [List.find?_append, List.find?_cons, List.find?_nil]
      cases pp.id == n <;> rfl
    cases hfd : getPipe s n with
    | some x =>
      left
      rw [busyOf_at hfd]
      rw [busyOf_at (pp := x) (by rw [e, hfd]; rfl)] at h
      exact h
    | none =>
      right
      by_cases hn : (pp.id == n) = true
      · rw [busyOf_at (pp := pp) (by rw [e, hfd, if_pos hn]; rfl)] at h
        split at h
        · cases h
        · simpa using h
      · rw [busyOf_at_none (by rw [e, hfd, if_neg hn]; rfl)] at h
        cases h

theorem find_filter_sock (l : List Ctx) (k : Nat) :
    (l.filter (fun x => x.key != some k)).find? (·.key == none) = l.find? (·.key == none) := by
  induction l with
  | nil => rfl
  | cons x xs ih =>
    rw [List.filter_cons]
    split
    · simp only [List.find?_cons, ih]
    · rename_i hne
      have hx : (x.key == none) = false := by
        cases hk : x.key <;> simp_all
      simp only [List.find?_cons, hx]
      exact ih

theorem winv_stepOK : StepOK (fun _ => True) WInv where
  hOpen := by
    intro s h ho
    obtain ⟨hp, hw⟩ := h.unopened ho
    refine ⟨?_, ?_, h.held, wr_false hw, ?_⟩
    · intro x hx y hy _ _
      simp only [List.mem_singleton] at hx hy
      rw [hx, hy]
    · intro x hx
      simp only [List.mem_singleton] at hx
      subst hx
      intro e
      exact absurd rfl e
    · intro ho'; cases ho'
  setNow := fun s n h => h.of_eq rfl rfl rfl rfl
  setTtl := fun s n h => h.of_eq rfl rfl rfl rfl
  setClosed := fun s h => h.of_eq rfl rfl rfl rfl
  hPipeAdd := by
    intro s pp h ho _ hbz hheld
    refine ⟨h.uniq, h.bt, ?_, ?_, ?_⟩
    · intro x hx
      simp only [List.mem_append, List.mem_singleton] at hx
      rcases hx with hx | rfl
      · exact h.held x hx
      · intro wm hwm; rw [hheld] at hwm; cases hwm
    · intro hw
      obtain ⟨he, hb⟩ := h.wr hw
      refine ⟨he, ?_⟩
      intro hb'
      rcases busyOf_append hb' with h1 | h1
      · exact hb h1
      · rw [hbz] at h1; cases h1
    · intro ho'
      rw [show ({ s with pipes := s.pipes ++ [pp] } : State).opened = s.opened from rfl, ho] at ho'
      cases ho'
  hClosePipe := fun s p h => closePipe_winv p h
  hPipeSent := fun s p pp h hg _ hb => pipeSent_winv h hg hb
  hPipeRecv := fun s p pp wm h hg _ hh => pipeRecv_winv wm h hg hh
  hCtxSend := fun s k c a m mode _ h _ => ctxSend_winv c a m mode h
  hCtxRecv := fun s k c a mode h hg => ctxRecv_winv a mode h (getCtx_mem hg)
  hCancel := fun s a rv h => cancelAio_winv a rv h
  hCloseCtx := fun s k c h hg => closeCtx_winv h (getCtx_mem hg)
  hCtxOpen := by
    intro s k h _
    refine ⟨?_, ?_, h.held, ?_, h.unopened⟩
    · intro x hx y hy hxk hyk
      simp only [List.mem_append, List.mem_singleton] at hx hy
      rcases hx with hx | rfl
      · rcases hy with hy | rfl
        · exact h.uniq x hx y hy hxk hyk
        · cases hyk
      · cases hxk
    · intro x hx
      simp only [List.mem_append, List.mem_singleton] at hx
      rcases hx with hx | rfl
      · exact h.bt x hx
      · intro e; exact absurd rfl e
    · refine wr_of h.wr id ?_ (fun _ => rfl)
      simp [sockPipeId, getCtx, List.find?_append]
  hCtxClose := by
    intro s k c h hg
    have h1 := closeCtx_winv h (getCtx_mem hg)
    refine ⟨?_, ?_, h1.held, ?_, h1.unopened⟩
    · intro x hx y hy hxk hyk
      exact h1.uniq x (List.mem_filter.mp hx).1 y (List.mem_filter.mp hy).1 hxk hyk
    · intro x hx
      exact h1.bt x (List.mem_filter.mp hx).1
    · refine wr_of h1.wr id ?_ (fun _ => rfl)
      unfold sockPipeId getCtx
      simp only
      rw [find_filter_sock]

theorem winv_init : WInv ({} : State) :=
  ⟨(by intro x hx; cases hx), (by intro x hx; cases hx), (by intro x hx; cases hx), wr_false rfl,
   fun _ => ⟨rfl, rfl⟩⟩

theorem run_winv (evs : List Ev) : WInv (run {} evs).1 :=
  run_inv winv_stepOK (fun _ _ _ => trivial) {} evs trivial winv_init

/-- what the raised send pollable means, in every reachable state: the socket's own context
    has a pending survey, and the pipe it came from is gone or idle -/
theorem writable_means {s : State} (h : WInv s) (hw : s.writable = true) (c : Ctx) (hc : c ∈ s.ctxs)
    (hk : c.key = none) :
    c.btrace ≠ [] ∧ (∃ p, c.pipeId = some p) ∧ ∀ pp, livePipe s c.pipeId = some pp → pp.busy = false := by
  have hg := getCtx_none_of_mem h.uniq hc hk
  obtain ⟨⟨p, hp⟩, hb⟩ := h.wr hw
  rw [sockPipeId_eq hg] at hp hb
  refine ⟨h.bt c hc (by rw [hp]; simp), ⟨p, hp⟩, ?_⟩
  intro pp hl
  cases hbz : pp.busy
  · rfl
  · exfalso
    apply hb
    simp [busyOf, hl, hbz]

/-- S7 (send pollable): raised ⇒ a send on the socket's context that may wait completes in the call -/
theorem writable_send_completes (evs : List Ev) :
    let s := (Respond.run {} evs).1
    s.writable = true → ∀ c ∈ s.ctxs, c.key = none → ∀ a m, (Respond.ctxSend s c a m .inf).2 ≠ [] := by
  intro s hw c hc hk a m
  obtain ⟨_, _, hidle⟩ := writable_means (run_winv evs) hw c hc hk
  unfold ctxSend
  simp only [zeroRv, hk, beq_self_eq_true, if_true]
  split
  · simp
  · split
    · simp
    · split
      · simp
      · rename_i pp hl
        have hbz : pp.busy = false := hidle pp hl
        simp [hbz]

/-- … and, unless an earlier response of the socket context is still parked (then the send is
    refused with NNG_ESTATE, see `writable_estate_example`), it succeeds -/
theorem writable_send_succeeds (evs : List Ev) :
    let s := (Respond.run {} evs).1
    s.writable = true → ∀ c ∈ s.ctxs, c.key = none → c.saio = none →
      ∀ a m, Out.done a 0 none false ∈ (Respond.ctxSend s c a m .inf).2 := by
  intro s hw c hc hk hsa a m
  obtain ⟨hbt, _, hidle⟩ := writable_means (run_winv evs) hw c hc hk
  have hbe : c.btrace.isEmpty = false := by
    cases hb : c.btrace with
    | nil => exact absurd hb hbt
    | cons _ _ => rfl
  unfold ctxSend
  simp only [zeroRv, hk, beq_self_eq_true, if_true, hsa, hbe, Option.isSome_none, Bool.false_eq_true, if_false]
  split
  · simp
  · rename_i pp hl
    have hbz : pp.busy = false := hidle pp hl
    simp [hbz]

/-- the pollable can be raised while a send would be refused: the socket context's previous
    response is still parked behind a busy pipe when it takes the next survey from an idle one -/
theorem writable_estate_example :
    let sv : Bytes := [0x80, 0, 0, 2, 9]
    let evs : List Ev := [.openSock "respondent" false, .pipeAdd 98, .ctxOpen 1,
      .recvDone 0 (.ok sv), .recv (some 1) 0 .inf, .send (some 1) 1 ⟨[], [5]⟩ .inf,
      .recvDone 0 (.ok sv), .recv none 2 .inf, .send none 3 ⟨[], [6]⟩ .inf,
      .pipeAdd 98, .recvDone 1 (.ok sv), .recv none 4 .inf]
    let s := (Respond.run {} evs).1
    s.writable = true ∧
    (Respond.step s (.send none 5 ⟨[], [7]⟩ .inf)).2 = [Out.done 5 Err.estate none true] := by decide

/-- non-vacuity: a reachable state with the send pollable raised, in which the send succeeds -/
example :
    let evs : List Ev := [.openSock "respondent" false, .pipeAdd 98,
      .recvDone 0 (.ok [0x80, 0, 0, 2, 9]), .recv none 0 .inf]
    let s := (Respond.run {} evs).1
    s.writable = true ∧ (∃ c ∈ s.ctxs, c.key = none) ∧
    (Respond.step s (.send none 1 ⟨[], [5]⟩ .inf)).2 =
      [Out.psend 0 ⟨[0x80, 0, 0, 2], [5]⟩, Out.done 1 0 none false] := by decide

end Nng.Respond
