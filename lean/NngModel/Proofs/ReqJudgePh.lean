/-
  The judge's phases (Proofs/ReqJudgeCut.lean) on the kinds of output lists the REQ model produces:
  transmissions (`psend`, the `done a 0` of the send that was parked) and the ECONNRESET completions of
  req0_pipe_close are skipped by every phase but their own.
-/
import NngModel.Proofs.ReqJudgeJ
namespace Nng.ReqSpec
open Nng Nng.Proto

/-- outputs of req0_run_send_queue -/
def isTx : Out → Bool
  | .psend _ _ => true
  | .done _ rv none false => rv == 0
  | _ => false

/-- outputs of req0_pipe_close before `pclosed` -/
def isCl : Out → Bool
  | .psend _ _ => true
  | .done _ rv none false => rv == 0 || rv == Err.econnreset
  | _ => false

theorem isCl_of_isTx {o : Out} (h : isTx o = true) : isCl o = true := by
  cases o <;> simp_all [isTx, isCl]
  rename_i a rv m mb
  cases m <;> cases mb <;> simp_all

theorem foldl_id {α β : Type} (f : α → β → α) (l : List β) (a : α) (h : ∀ x, x ∈ l → ∀ a, f a x = a) : l.foldl f a = a := by
  induction l generalizing a with
  | nil => rfl
  | cons x t ih => rw [List.foldl_cons, h x (by simp), ih _ (fun y hy => h y (by simp [hy]))]

def phPipeF (all : List Out) (outs : List Out) (j : J) : J :=
  outs.foldl (fun j o => match o with
    | .pipe p => if p ≥ 0 && !(all.contains (.pclosed p.toNat)) then { j with idle := j.idle ++ [p.toNat] } else j
    | _ => j) j

theorem phPipe_eq (outs : List Out) (j : J) : phPipe outs j = phPipeF outs outs j := rfl

theorem phPipeF_append (all a b : List Out) (j : J) : phPipeF all (a ++ b) j = phPipeF all b (phPipeF all a j) := by
  unfold phPipeF; rw [List.foldl_append]

theorem phA_append (e : Option Nat) (a b : List Out) (j : J) : phA e (a ++ b) j = phA e b (phA e a j) := by
  unfold phA; rw [List.foldl_append]

theorem phClosed_append (all : List Out) (c : Bool) (a b : List Out) (j : J) :
    phClosed all c (a ++ b) j = phClosed all c b (phClosed all c a j) := by
  unfold phClosed; rw [List.foldl_append]

theorem phReset_append (e : Option Nat) (c : Bool) (a b : List Out) (j : J) :
    phReset e c (a ++ b) j = phReset e c b (phReset e c a j) := by
  unfold phReset; rw [List.foldl_append]

theorem phDone_append (ev : Ev) (e : Option Nat) (ex : List Nat) (a b : List Out) (j : J) :
    phDone ev e ex (a ++ b) j = phDone ev e ex b (phDone ev e ex a j) := by
  unfold phDone; rw [List.foldl_append]

theorem phPoll_append (a b : List Out) (j : J) : phPoll (a ++ b) j = phPoll b (phPoll a j) := by
  unfold phPoll; rw [List.foldl_append]

theorem psF_app (a b : List Out) (j : J) : psF (a ++ b) j = psF b (psF a j) := by
  unfold psF; rw [List.foldl_append]

theorem isCl_shape {x : Out} (h : isCl x = true) :
    (∃ p m, x = .psend p m) ∨ (∃ a, x = .done a 0 none false) ∨ (∃ a, x = .done a Err.econnreset none false) := by
  cases x with
  | psend p m => exact Or.inl ⟨p, m, rfl⟩
  | done a rv m mb =>
    cases m with
    | some _ => simp [isCl] at h
    | none =>
      cases mb with
      | true => simp [isCl] at h
      | false =>
        simp only [isCl, Bool.or_eq_true, beq_iff_eq] at h
        rcases h with h | h
        · subst h; exact Or.inr (Or.inl ⟨a, rfl⟩)
        · subst h; exact Or.inr (Or.inr ⟨a, rfl⟩)
  | _ => simp [isCl] at h

theorem isTx_shape {x : Out} (h : isTx x = true) : (∃ p m, x = .psend p m) ∨ (∃ a, x = .done a 0 none false) := by
  cases x with
  | psend p m => exact Or.inl ⟨p, m, rfl⟩
  | done a rv m mb =>
    cases m with
    | some _ => simp [isTx] at h
    | none =>
      cases mb with
      | true => simp [isTx] at h
      | false =>
        simp only [isTx, beq_iff_eq] at h
        subst h; exact Or.inr ⟨a, rfl⟩
  | _ => simp [isTx] at h

section cl
variable {o : List Out} (h : ∀ x, x ∈ o → isCl x = true)
include h

theorem phA_cl (e : Option Nat) (j : J) : phA e o j = j := by
  unfold phA
  apply foldl_id
  intro x hx a
  rcases isCl_shape (h x hx) with ⟨p, m, rfl⟩ | ⟨a', rfl⟩ | ⟨a', rfl⟩
  · rfl
  · simp
  · simp

theorem phPipeF_cl (all : List Out) (j : J) : phPipeF all o j = j := by
  unfold phPipeF
  apply foldl_id
  intro x hx a
  rcases isCl_shape (h x hx) with ⟨p, m, rfl⟩ | ⟨a', rfl⟩ | ⟨a', rfl⟩ <;> rfl

theorem phClosed_cl (all : List Out) (c : Bool) (j : J) : phClosed all c o j = j := by
  unfold phClosed
  apply foldl_id
  intro x hx a
  rcases isCl_shape (h x hx) with ⟨p, m, rfl⟩ | ⟨a', rfl⟩ | ⟨a', rfl⟩ <;> rfl

theorem phDone_cl (ev : Ev) (ex : List Nat) (j : J) : phDone ev none ex o j = j := by
  unfold phDone
  apply foldl_id
  intro x hx a
  rcases isCl_shape (h x hx) with ⟨p, m, rfl⟩ | ⟨a', rfl⟩ | ⟨a', rfl⟩
  · rfl
  · simp
  · simp

theorem phPoll_cl (j : J) : phPoll o j = j := by
  unfold phPoll
  apply foldl_id
  intro x hx a
  rcases isCl_shape (h x hx) with ⟨p, m, rfl⟩ | ⟨a', rfl⟩ | ⟨a', rfl⟩ <;> rfl

theorem notExecuted_cl : notExecuted o = false := by
  unfold notExecuted
  rw [List.any_eq_false]
  intro x hx
  rcases isCl_shape (h x hx) with ⟨p, m, rfl⟩ | ⟨a', rfl⟩ | ⟨a', rfl⟩ <;> simp

theorem phBlocked_cl (j : J) : phBlocked o j = j := by
  unfold phBlocked
  rw [if_neg]
  rw [Bool.not_eq_true, List.any_eq_false]
  intro x hx
  rcases isCl_shape (h x hx) with ⟨p, m, rfl⟩ | ⟨a', rfl⟩ | ⟨a', rfl⟩ <;> simp

theorem contains_rv_cl (n : Int) : o.contains (.rv n) = false := by
  rw [List.contains_eq_any_beq, List.any_eq_false]
  intro x hx
  rcases isCl_shape (h x hx) with ⟨p, m, rfl⟩ | ⟨a', rfl⟩ | ⟨a', rfl⟩ <;> simp

theorem contains_pclosed_cl (p : Nat) : o.contains (.pclosed p) = false := by
  rw [List.contains_eq_any_beq, List.any_eq_false]
  intro x hx
  rcases isCl_shape (h x hx) with ⟨p, m, rfl⟩ | ⟨a', rfl⟩ | ⟨a', rfl⟩ <;> simp

end cl

section tx
variable {o : List Out} (h : ∀ x, x ∈ o → isTx x = true)
include h

theorem phReset_tx (e : Option Nat) (c : Bool) (j : J) : phReset e c o j = j := by
  unfold phReset
  apply foldl_id
  intro x hx a
  rcases isTx_shape (h x hx) with ⟨p, m, rfl⟩ | ⟨a', rfl⟩
  · rfl
  · simp [Err.econnreset]

theorem phDone_tx (ev : Ev) (e : Option Nat) (ex : List Nat) (j : J) : phDone ev e ex o j = j := by
  unfold phDone
  apply foldl_id
  intro x hx a
  rcases isTx_shape (h x hx) with ⟨p, m, rfl⟩ | ⟨a', rfl⟩
  · rfl
  · simp

theorem hasDone_tx (a rv : Nat) (m : Option WMsg) (hrv : rv ≠ 0) : hasDone o a rv m = false := by
  unfold hasDone
  rw [List.any_eq_false]
  intro x hx
  rcases isTx_shape (h x hx) with ⟨p, m, rfl⟩ | ⟨a', rfl⟩
  · simp
  · simp; intro _ e; exact absurd e.symm hrv

end tx

def phAf (e : Option Nat) (j : J) (o : Out) : J :=
  match o with
  | .done a rv none _ => if some a != e && rv != 0 && rv != Err.econnreset then oldDone j a rv else j
  | _ => j

theorem phA_cons (e : Option Nat) (x : Out) (t : List Out) (j : J) : phA e (x :: t) j = phA e t (phAf e j x) := rfl
theorem phA_nil (e : Option Nat) (j : J) : phA e [] j = j := rfl

theorem oldDone_closed (j : J) (a rv : Nat) : (oldDone j a rv).closed = j.closed := by rw [oldDone_eq]
theorem oldDone_now (j : J) (a rv : Nat) : (oldDone j a rv).now = j.now := by rw [oldDone_eq]

theorem phAf_closed (e : Option Nat) (j : J) (o : Out) : (phAf e j o).closed = j.closed := by
  unfold phAf
  split
  · split
    · exact oldDone_closed _ _ _
    · rfl
  · rfl

theorem phA_closed (e : Option Nat) (l : List Out) (j : J) : (phA e l j).closed = j.closed := by
  induction l generalizing j with
  | nil => rfl
  | cons x t ih => rw [phA_cons, ih, phAf_closed]

/-- error completions of parked operations -/
def isDn : Out → Bool
  | .done _ rv none _ => rv != 0
  | .rv _ => true
  | _ => false

theorem isDn_shape {x : Out} (h : isDn x = true) : (∃ a rv mb, x = .done a rv none mb ∧ rv ≠ 0) ∨ ∃ n, x = .rv n := by
  cases x with
  | done a rv m mb =>
    cases m with
    | some _ => simp [isDn] at h
    | none => exact Or.inl ⟨a, rv, mb, rfl, by simpa [isDn] using h⟩
  | rv n => exact Or.inr ⟨n, rfl⟩
  | _ => simp [isDn] at h

section dn
variable {o : List Out} (h : ∀ x, x ∈ o → isDn x = true)
include h

theorem phPipeF_dn (all : List Out) (j : J) : phPipeF all o j = j := by
  unfold phPipeF
  apply foldl_id
  intro x hx a
  rcases isDn_shape (h x hx) with ⟨a', rv, mb, rfl, _⟩ | ⟨n, rfl⟩ <;> rfl

theorem phClosed_dn (all : List Out) (c : Bool) (j : J) : phClosed all c o j = j := by
  unfold phClosed
  apply foldl_id
  intro x hx a
  rcases isDn_shape (h x hx) with ⟨a', rv, mb, rfl, _⟩ | ⟨n, rfl⟩ <;> rfl

theorem psF_dn (j : J) : psF o j = j := by
  unfold psF
  apply foldl_id
  intro x hx a
  rcases isDn_shape (h x hx) with ⟨a', rv, mb, rfl, _⟩ | ⟨n, rfl⟩ <;> rfl

theorem phDone_dn (ev : Ev) (ex : List Nat) (j : J) : phDone ev none ex o j = j := by
  unfold phDone
  apply foldl_id
  intro x hx a
  rcases isDn_shape (h x hx) with ⟨a', rv, mb, rfl, _⟩ | ⟨n, rfl⟩
  · simp
  · rfl

theorem phPoll_dn (j : J) : phPoll o j = j := by
  unfold phPoll
  apply foldl_id
  intro x hx a
  rcases isDn_shape (h x hx) with ⟨a', rv, mb, rfl, _⟩ | ⟨n, rfl⟩ <;> rfl

theorem notExecuted_dn : notExecuted o = false := by
  unfold notExecuted
  rw [List.any_eq_false]
  intro x hx
  rcases isDn_shape (h x hx) with ⟨a', rv, mb, rfl, _⟩ | ⟨n, rfl⟩ <;> simp

theorem phBlocked_dn (j : J) : phBlocked o j = j := by
  unfold phBlocked
  rw [if_neg]
  rw [Bool.not_eq_true, List.any_eq_false]
  intro x hx
  rcases isDn_shape (h x hx) with ⟨a', rv, mb, rfl, _⟩ | ⟨n, rfl⟩ <;> simp

/-- the judge's step for an event without a clause of its own whose outputs are error completions -/
theorem step_dn2 (j : J) (ev : Ev) (hc : j.closed = false) (he : evAioOf ev = none) (hov : ∀ j', phOver ev j' = j')
    (hcl : (phEv (phA none o j) ev o (o.contains (.rv 0))).1.closed = false) :
    step j ev o = quiescent (phReset none false o (phEv (phA none o j) ev o (o.contains (.rv 0))).1) := by
  rw [step_eq, notExecuted_dn h, he]
  simp only [hc, Bool.false_eq_true, if_false, phRest, hcl, phPipe_eq, phPipeF_dn h, phClosed_dn h, psF_dn h, he, phDone_dn h,
    phPoll_dn h, hov, phBlocked_dn h]

theorem step_dn (j : J) (ev : Ev) (hc : j.closed = false) (he : evAioOf ev = none)
    (hev : ∀ j' ok, phEv j' ev o ok = (j', [])) (hov : ∀ j', phOver ev j' = j') :
    step j ev o = quiescent (phReset none false o (phA none o j)) := by
  rw [step_eq, notExecuted_dn h, he, hev]
  have hcl : (phA none o j).closed = false := by rw [phA_closed, hc]
  simp only [hc, Bool.false_eq_true, if_false, phRest, hcl, phPipe_eq, phPipeF_dn h, phClosed_dn h, psF_dn h, he, phDone_dn h,
    phPoll_dn h, hov, phBlocked_dn h]

end dn

theorem phBlocked_of (outs : List Out) (j : J) (h : ∀ x, x ∈ outs → ∀ ms, x ≠ .blocked ms) : phBlocked outs j = j := by
  unfold phBlocked
  rw [if_neg]
  rw [Bool.not_eq_true, List.any_eq_false]
  intro x hx
  cases x with
  | blocked ms => exact absurd rfl (h _ hx ms)
  | _ => simp

/-- outputs of a `send`: completions without a message (none of them ECONNRESET) and transmissions -/
def isSd : Out → Bool
  | .psend _ _ => true
  | .done _ rv none _ => rv != Err.econnreset
  | _ => false

theorem isSd_shape {x : Out} (h : isSd x = true) :
    (∃ p m, x = .psend p m) ∨ (∃ a rv mb, x = .done a rv none mb ∧ rv ≠ Err.econnreset) := by
  cases x with
  | psend p m => exact Or.inl ⟨p, m, rfl⟩
  | done a rv m mb =>
    cases m with
    | some _ => simp [isSd] at h
    | none => exact Or.inr ⟨a, rv, mb, rfl, by simpa [isSd] using h⟩
  | _ => simp [isSd] at h

section sd
variable {o : List Out} (h : ∀ x, x ∈ o → isSd x = true)
include h

theorem phPipeF_sd (all : List Out) (j : J) : phPipeF all o j = j := by
  unfold phPipeF
  apply foldl_id
  intro x hx a
  rcases isSd_shape (h x hx) with ⟨p, m, rfl⟩ | ⟨a', rv, mb, rfl, _⟩ <;> rfl

theorem phClosed_sd (all : List Out) (c : Bool) (j : J) : phClosed all c o j = j := by
  unfold phClosed
  apply foldl_id
  intro x hx a
  rcases isSd_shape (h x hx) with ⟨p, m, rfl⟩ | ⟨a', rv, mb, rfl, _⟩ <;> rfl

theorem phReset_sd (e : Option Nat) (c : Bool) (j : J) : phReset e c o j = j := by
  unfold phReset
  apply foldl_id
  intro x hx a
  rcases isSd_shape (h x hx) with ⟨p, m, rfl⟩ | ⟨a', rv, mb, rfl, hrv⟩
  · rfl
  · simp [hrv]

theorem phPoll_sd (j : J) : phPoll o j = j := by
  unfold phPoll
  apply foldl_id
  intro x hx a
  rcases isSd_shape (h x hx) with ⟨p, m, rfl⟩ | ⟨a', rv, mb, rfl, _⟩ <;> rfl

theorem notExecuted_sd : notExecuted o = false := by
  unfold notExecuted
  rw [List.any_eq_false]
  intro x hx
  rcases isSd_shape (h x hx) with ⟨p, m, rfl⟩ | ⟨a', rv, mb, rfl, _⟩ <;> simp

theorem phBlocked_sd (j : J) : phBlocked o j = j := by
  unfold phBlocked
  rw [if_neg]
  rw [Bool.not_eq_true, List.any_eq_false]
  intro x hx
  rcases isSd_shape (h x hx) with ⟨p, m, rfl⟩ | ⟨a', rv, mb, rfl, _⟩ <;> simp

/-- the judge's step for `send` -/
theorem step_send (j : J) (c : Option Nat) (a : Nat) (m : WMsg) (mode : Mode) (hc : j.closed = false)
    (hcl : (evSend (phA (some a) o j) c a m o).1.closed = false) :
    step j (.send c a m mode) o =
      quiescent (phDone (.send c a m mode) (some a) (evSend (phA (some a) o j) c a m o).2 o
        (psF o (evSend (phA (some a) o j) c a m o).1)) := by
  rw [step_eq, notExecuted_sd h]
  simp only [hc, Bool.false_eq_true, if_false, evAioOf, phEv, phRest, hcl, phPipe_eq, phPipeF_sd h, phClosed_sd h,
    phReset_sd h, phPoll_sd h, phOver, phBlocked_sd h]

end sd

end Nng.ReqSpec
