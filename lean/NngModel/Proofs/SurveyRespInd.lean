/-
  RESPONDENT model: a generic induction principle over `step`/`run`.  To show that a state
  predicate `P` holds along every event sequence it is enough to show that each protocol
  callback (and each of the few in-line state updates of `step`) preserves it; the folds
  (aio expiry, socket close) and the case analysis of `step` are done here once.  `R` is a
  side invariant already known to hold along runs (it is only handed to the send callback).
-/
import NngModel.Proofs.SurveyResp
namespace Nng.Respond
open Nng Nng.Proto

structure StepOK (R P : State → Prop) : Prop where
  hOpen : ∀ s : State, P s → s.opened = false →
    P { s with opened := true, ttl := Nng.Generated.respTtlInit, ctxs := [{ key := none }] }
  setNow : ∀ (s : State) (n : Nat), P s → P { s with now := n }
  setTtl : ∀ (s : State) (n : Nat), P s → P { s with ttl := n }
  setClosed : ∀ s : State, P s → P { s with closed := true }
  hPipeAdd : ∀ (s : State) (pp : Pipe), P s → s.opened = true → pp.sendq = [] → pp.busy = false → pp.held = none →
    P { s with pipes := s.pipes ++ [pp] }
  hClosePipe : ∀ (s : State) (p : Nat), P s → P (closePipe s p).1
  hPipeSent : ∀ (s : State) (p : Nat) (pp : Pipe), P s → getPipe s p = some pp → pp.closed = false →
    pp.busy = true → P (pipeSent s pp).1
  hPipeRecv : ∀ (s : State) (p : Nat) (pp : Pipe) (wm : WMsg), P s → getPipe s p = some pp →
    pp.closed = false → wm.hdr ≠ [] → P (pipeRecv s pp wm).1
  hCtxSend : ∀ (s : State) (k : Option Nat) (c : Ctx) (a : Nat) (m : WMsg) (mode : Mode), R s → P s →
    getCtx s k = some c → P (ctxSend s c a m mode).1
  hCtxRecv : ∀ (s : State) (k : Option Nat) (c : Ctx) (a : Nat) (mode : Mode), P s →
    getCtx s k = some c → P (ctxRecv s c a mode).1
  hCancel : ∀ (s : State) (a rv : Nat), P s → P (cancelAio s a rv).1
  hCloseCtx : ∀ (s : State) (k : Option Nat) (c : Ctx), P s → getCtx s k = some c → P (closeCtx s c).1
  hCtxOpen : ∀ (s : State) (k : Nat), P s → getCtx s (some k) = none →
    P { s with ctxs := s.ctxs ++ [{ key := some k }] }
  hCtxClose : ∀ (s : State) (k : Nat) (c : Ctx), P s → getCtx s (some k) = some c →
    P { (closeCtx s c).1 with ctxs := (closeCtx s c).1.ctxs.filter (·.key != some k) }

/-- a survey header split off by the backtrace loop is never empty -/
theorem splitBt_hdr_ne (n : Nat) : ∀ (h b hdr body : Bytes), splitBt n h b = .ok hdr body → hdr ≠ [] := by
  induction n with
  | zero => intro h b hdr body e; simp [splitBt] at e
  | succ n ih =>
    intro h b hdr body e
    unfold splitBt at e
    split at e
    · cases e
    · rename_i hl
      simp only at e
      split at e
      · injection e with e1 e2
        subst e1
        intro hnil
        have := congrArg List.length hnil
        simp only [List.length_append, List.length_take, List.length_nil] at this
        omega
      · exact ih _ _ _ _ e

theorem foldl_inv {P : State → Prop} {α : Type} (f : State → α → State × List Out)
    (hf : ∀ s x, P s → P (f s x).1) (xs : List α) (acc : State × List Out) (h : P acc.1) :
    P (xs.foldl (fun (acc : State × List Out) x => ((f acc.1 x).1, acc.2 ++ (f acc.1 x).2)) acc).1 := by
  induction xs generalizing acc with
  | nil => exact h
  | cons x rest ih => simp only [List.foldl_cons]; exact ih _ (hf _ _ h)

theorem expire_inv {R P : State → Prop} (H : StepOK R P) {s : State} (h : P s) : P (expire s).1 := by
  unfold expire
  exact foldl_inv (fun s a => cancelAio s a Err.etimedout) (fun s a h => H.hCancel s a _ h) _ (s, []) h

theorem closeCtxs_inv {R P : State → Prop} (H : StepOK R P) {s : State} (sel : Ctx → Bool) (h : P s) :
    P (closeCtxs s sel).1 := by
  unfold closeCtxs
  generalize s.ctxs = xs
  have : ∀ (acc : State × List Out), P acc.1 →
      P (xs.foldl (fun (acc : State × List Out) c =>
        if sel c = true then
          match getCtx acc.1 c.key with
          | some c' => ((closeCtx acc.1 c').1, acc.2 ++ (closeCtx acc.1 c').2)
          | none => acc
        else acc) acc).1 := by
    induction xs with
    | nil => intro acc h; exact h
    | cons x rest ih =>
      intro acc h
      simp only [List.foldl_cons]
      apply ih
      split
      · split
        · rename_i c' hg
          exact H.hCloseCtx _ _ _ h hg
        · exact h
      · exact h
  exact this (s, []) h

theorem closePipes_inv {R P : State → Prop} (H : StepOK R P) {s : State} (h : P s) : P (closePipes s).1 := by
  unfold closePipes
  exact foldl_inv (fun s (pp : Pipe) => closePipe s pp.id) (fun s pp h => H.hClosePipe s pp.id h) _ (s, []) h

theorem closeAll_inv {R P : State → Prop} (H : StepOK R P) {s : State} (h : P s) : P (closeAll s).1 := by
  unfold closeAll
  exact H.setClosed _ (closeCtxs_inv H _ (closePipes_inv H (closeCtxs_inv H _ h)))

theorem step_inv {R P : State → Prop} (H : StepOK R P) (s : State) (ev : Ev) (hr : R s) (h : P s) :
    P (step s ev).1 := by
  unfold step
  split
  · rename_i ho
    have ho' : s.opened = false := by simpa using ho
    cases ev <;> try exact h
    case openSock p r => exact H.hOpen s h ho'
    case advance ms => exact H.setNow s _ h
  · rename_i ho
    have ho' : s.opened = true := by simpa using ho
    split
    · cases ev <;> try exact h
      case advance ms => exact H.setNow s _ h
    · cases ev with
      | openSock _ _ => exact h
      | pipeAdd peer =>
        simp only
        split
        · exact H.hPipeAdd s _ h ho' rfl rfl rfl
        · exact H.hPipeAdd s _ h ho' rfl rfl rfl
      | pipeDrop p =>
        simp only
        split
        · split
          · exact h
          · exact H.hClosePipe s p h
        · exact h
      | sendDone p rv =>
        simp only
        split
        · rename_i pp hg
          split
          · exact h
          · rename_i hc
            split
            · exact H.hClosePipe s p h
            · have hc1 : pp.closed = false := by
                cases hx : pp.closed
                · rfl
                · simp [hx] at hc
              have hc2 : pp.busy = true := by
                cases hx : pp.busy
                · simp [hx] at hc
                · rfl
              exact H.hPipeSent s p pp h hg hc1 hc2
        · exact h
      | recvDone p r =>
        simp only
        split
        · rename_i pp hg
          split
          · exact h
          · rename_i hc
            have hc1 : pp.closed = false := by
              cases hx : pp.closed
              · rfl
              · simp [hx] at hc
            split
            · exact H.hClosePipe s p h
            · split
              · exact h
              · exact H.hClosePipe s p h
              · rename_i hdr body hsb
                exact H.hPipeRecv s p pp _ h hg hc1 (splitBt_hdr_ne _ _ _ _ _ hsb)
        · exact h
      | send k a m mode =>
        simp only
        split
        · exact h
        · split
          · exact h
          · rename_i c hg
            exact H.hCtxSend s k c a m mode hr h hg
      | recv k a mode =>
        simp only
        split
        · exact h
        · split
          · exact h
          · rename_i c hg
            exact H.hCtxRecv s k c a mode h hg
      | cancel a => exact H.hCancel s a _ h
      | abort a rv => exact H.hCancel s a rv h
      | advance ms => exact expire_inv H (s := { s with now := s.now + ms }) (H.setNow s _ h)
      | ctxOpen k =>
        simp only
        split
        · exact h
        · split
          · exact h
          · rename_i hn
            have hg : getCtx s (some k) = none := by
              cases hx : getCtx s (some k)
              · rfl
              · simp [hx] at hn
            exact H.hCtxOpen s k h hg
      | ctxClose k =>
        simp only
        split
        · exact h
        · rename_i c hg
          exact H.hCtxClose s k c h hg
      | setopt k name ty v =>
        simp only
        split
        · split
          · exact h
          · exact H.setTtl s _ h
        · exact h
      | getopt k name ty => simp only; split <;> exact h
      | poll => exact h
      | sub _ _ => exact h
      | unsub _ _ => exact h
      | close => exact closeAll_inv H h

theorem run_inv {R P : State → Prop} (H : StepOK R P) (hR : ∀ s ev, R s → R (step s ev).1)
    (s : State) (evs : List Ev) (hr : R s) (h : P s) : P (run s evs).1 := by
  induction evs generalizing s with
  | nil => exact h
  | cons e es ih => simp only [run]; exact ih _ (hR s e hr) (step_inv H s e hr h)

/-! ### membership and lookup lemmas shared by the invariants -/

theorem mem_setCtx' {s : State} {c' q : Ctx} (h : q ∈ (setCtx s c').ctxs) :
    q = c' ∨ (q ∈ s.ctxs ∧ q.key ≠ c'.key) := by
  simp only [setCtx, List.mem_map] at h
  obtain ⟨x, hx, rfl⟩ := h
  by_cases hk : (x.key == c'.key) = true
  · simp [hk]
  · right
    simp only [hk]
    exact ⟨hx, by simpa using hk⟩

theorem mem_setPipe' {s : State} {pp' q : Pipe} (h : q ∈ (setPipe s pp').pipes) :
    q = pp' ∨ (q ∈ s.pipes ∧ q.id ≠ pp'.id) := by
  simp only [setPipe, List.mem_map] at h
  obtain ⟨x, hx, rfl⟩ := h
  by_cases hk : (x.id == pp'.id) = true
  · simp [hk]
  · right
    simp only [hk]
    exact ⟨hx, by simpa using hk⟩

theorem getPipe_mem {s : State} {p : Nat} {pp : Pipe} (h : getPipe s p = some pp) : pp ∈ s.pipes :=
  List.mem_of_find?_eq_some h

theorem getPipe_id {s : State} {p : Nat} {pp : Pipe} (h : getPipe s p = some pp) : pp.id = p := by
  have := List.find?_some h
  simpa using this

theorem getCtx_key {s : State} {k : Option Nat} {c : Ctx} (h : getCtx s k = some c) : c.key = k := by
  have := List.find?_some h
  simpa using this

theorem livePipe_some {s : State} {p : Option Nat} {pp : Pipe} (h : livePipe s p = some pp) :
    p = some pp.id ∧ getPipe s pp.id = some pp ∧ pp.closed = false := by
  unfold livePipe at h
  split at h
  · simp at h
  · rename_i q
    split at h
    · rename_i x hx
      split at h
      · simp at h
      · rename_i hc
        simp only [Option.some.injEq] at h
        subst h
        have hid := getPipe_id hx
        subst hid
        exact ⟨rfl, hx, by simpa using hc⟩
    · simp at h

/-! ### field lemmas -/

@[simp] theorem raiseWritableIf_ctxs (s : State) (b : Bool) : (raiseWritableIf s b).ctxs = s.ctxs := by
  unfold raiseWritableIf; split <;> rfl
@[simp] theorem raiseWritableIf_pipes (s : State) (b : Bool) : (raiseWritableIf s b).pipes = s.pipes := by
  unfold raiseWritableIf; split <;> rfl
@[simp] theorem raiseWritableIf_wire (s : State) (b : Bool) : (raiseWritableIf s b).wire = s.wire := by
  unfold raiseWritableIf; split <;> rfl
@[simp] theorem raiseWritableIf_opened (s : State) (b : Bool) : (raiseWritableIf s b).opened = s.opened := by
  unfold raiseWritableIf; split <;> rfl
@[simp] theorem setWritableFor_ctxs (s : State) (k : Option Nat) (b : Bool) : (setWritableFor s k b).ctxs = s.ctxs := by
  unfold setWritableFor; split <;> rfl
@[simp] theorem setWritableFor_pipes (s : State) (k : Option Nat) (b : Bool) : (setWritableFor s k b).pipes = s.pipes := by
  unfold setWritableFor; split <;> rfl
@[simp] theorem setWritableFor_wire (s : State) (k : Option Nat) (b : Bool) : (setWritableFor s k b).wire = s.wire := by
  unfold setWritableFor; split <;> rfl
@[simp] theorem setWritableFor_opened (s : State) (k : Option Nat) (b : Bool) : (setWritableFor s k b).opened = s.opened := by
  unfold setWritableFor; split <;> rfl
@[simp] theorem dropRecvPipe_ctxs (s : State) (p : Nat) : (dropRecvPipe s p).ctxs = s.ctxs := by
  unfold dropRecvPipe; split <;> rfl
@[simp] theorem dropRecvPipe_pipes (s : State) (p : Nat) : (dropRecvPipe s p).pipes = s.pipes := by
  unfold dropRecvPipe; split <;> rfl
@[simp] theorem dropRecvPipe_wire (s : State) (p : Nat) : (dropRecvPipe s p).wire = s.wire := by
  unfold dropRecvPipe; split <;> rfl
@[simp] theorem dropRecvPipe_opened (s : State) (p : Nat) : (dropRecvPipe s p).opened = s.opened := by
  unfold dropRecvPipe; split <;> rfl
@[simp] theorem setCtx_pipes (s : State) (c : Ctx) : (setCtx s c).pipes = s.pipes := rfl
@[simp] theorem setCtx_wire (s : State) (c : Ctx) : (setCtx s c).wire = s.wire := rfl
@[simp] theorem setCtx_opened (s : State) (c : Ctx) : (setCtx s c).opened = s.opened := rfl
@[simp] theorem setPipe_ctxs (s : State) (pp : Pipe) : (setPipe s pp).ctxs = s.ctxs := rfl
@[simp] theorem setPipe_wire (s : State) (pp : Pipe) : (setPipe s pp).wire = s.wire := rfl
@[simp] theorem setPipe_opened (s : State) (pp : Pipe) : (setPipe s pp).opened = s.opened := rfl

theorem setPipe_pipes_nil {s : State} (pp : Pipe) (h : s.pipes = []) : (setPipe s pp).pipes = [] := by
  simp [setPipe, h]

@[simp] theorem raiseWritableIf_writable (s : State) (b : Bool) : (raiseWritableIf s b).writable = (s.writable || b) := by
  unfold raiseWritableIf; split <;> simp_all
@[simp] theorem dropRecvPipe_writable (s : State) (p : Nat) : (dropRecvPipe s p).writable = s.writable := by
  unfold dropRecvPipe; split <;> rfl
@[simp] theorem setCtx_writable (s : State) (c : Ctx) : (setCtx s c).writable = s.writable := rfl
@[simp] theorem setPipe_writable (s : State) (pp : Pipe) : (setPipe s pp).writable = s.writable := rfl
@[simp] theorem setWritableFor_writable (s : State) (k : Option Nat) (b : Bool) :
    (setWritableFor s k b).writable = if k == none then !b else s.writable := by
  unfold setWritableFor; split <;> rfl

end Nng.Respond
