/-
  The REP model satisfies the C04 trace predicate `repJudge` (Spec/Rep.lean) on every event sequence
  satisfying the hypotheses below: simulation between the model state and the judge state.

  Pieces: RepJudgeCut (the judge cut into named pieces, the judge on single outputs), RepJudgeInv /
  RepJudgeInv6 / RepJudgeK (model invariants and frame facts), RepJudgeA (relation `R`, end-of-step checks,
  new pipe, poll, receive), RepJudgeB (send), RepJudgeC (a pipe goes away), RepJudgeD (transport
  completions), RepJudgeF (cancel / abort / expiry), RepJudgeG (contexts, options), RepJudgeH (close).
-/
import NngModel.Proofs.RepJudgeD
import NngModel.Proofs.RepJudgeF
import NngModel.Proofs.RepJudgeH
import NngModel.Proofs.RepJudgeInv6
import NngModel.Proofs.RepJudgeK
namespace Nng.RepProofs
open Nng Nng.Proto Nng.Rep Nng.RepSpec

/-! ### hypotheses on event lists -/

/-- `abort aio 0` and `abort aio NNG_ESTATE` are harness-only misuse: the parked operation completes with a
    result that the protocol itself never produces for it (success without a message / "wrong state") -/
def badAbort : Ev → Bool
  | .abort _ rv => rv == 0 || rv == Err.estate
  | _ => false

def NoBadAbort (evs : List Ev) : Prop := ∀ ev ∈ evs, badAbort ev = false

/-- `ctx_open c` only on a harness slot that is free (the judge names contexts by their slot) -/
def slotFree (s : State) : Ev → Prop
  | .ctxOpen c => s.slot c = none
  | _ => True

def SlotsFresh (s : State) : List Ev → Prop
  | [] => True
  | e :: es => slotFree s e ∧ SlotsFresh (step s e).1 es

/-- the trace (event, outputs) the model produces from state `s` -/
def traceOf (s : State) : List Ev → List (Ev × List Out)
  | [] => []
  | e :: es => (e, (step s e).2) :: traceOf (step s e).1 es

/-! ### all invariants together -/

structure AllInv (s : State) (used : List Bytes) : Prop where
  i1 : Inv1 s
  i2 : Inv2 s
  i3 : Inv3 s
  i4 : Inv4 s
  i5 : Inv5 s used
  i6 : Inv6 s
  un : Unopened s
  co : s.closed = true → s.opened = true

theorem allInv_init : AllInv ({} : State) [] :=
  ⟨inv1_init, inv2_init, inv3_init, inv4_init, inv5_init, inv6_init, unopened_init, fun h => by cases h⟩

theorem step_allInv {s : State} {used : List Bytes} (h : AllInv s used) (ev : Ev)
    (hb : ∀ b, evBody ev = some b → b ∉ used) : AllInv (step s ev).1 (used ++ (evBody ev).toList) := by
  refine ⟨step_inv1 s ev h.i1, step_inv2 s ev h.i2, step_inv3 s ev h.i3, step_inv4 s ev h.i4,
    step_inv5 s ev used h.i5 h.i2 h.i3 h.i4 hb h.un, step_inv6 s ev h.i6 h.i4, step_unopened s ev h.un, ?_⟩
  intro hc
  cases ho : s.opened with
  | true => exact step_opened s ev ho
  | false =>
    rw [step_closed_idle s ev ho] at hc
    have := h.co hc; rw [ho] at this; cases this

/-! ### one step -/

theorem refused_R {s : State} {j : RepJ} (hR : R s j) (ev : Ev) (msg : String) : R s (repStep j ev [.other msg]) := by
  rw [repStep_refused rfl]; exact hR

theorem now_sim (s : State) (n : Nat) : Sim s { s with now := n } := ⟨rfl, rfl, rfl, rfl, rfl, rfl, rfl⟩

theorem R_sim {s s' : State} {j : RepJ} (h : Sim s s') (hR : R s j) : R s' j := ⟨R0_sim h hR.r0, hR.acc⟩

theorem idle_advance_sim {s : State} {j : RepJ} (hR : R s j) (h3 : Inv3 s) (ms n : Nat) :
    R { s with now := n } (repStep j (.advance ms) []) := by
  rw [repStep_eq hR.r0.err rfl]
  have hpre : repPre (unfresh j) (.advance ms) [] = (unfresh j, none) := rfl
  rw [hpre]
  have hp : procOuts [] (unfresh j) = unfresh j := rfl
  rw [hp]
  refine R_sim (now_sim s n) (post_R (R0_unfresh hR.r0) h3 ?_ (Or.inl rfl) rfl (by simp))
  have : (unfresh j).acc = [] := hR.acc
  rw [this]; intro x hx; cases hx

/-- the live socket (opened, not closed): every event except `close` keeps `R`, `close` ends in `Rc` -/
theorem stepLive_sim {s : State} {j : RepJ} {used : List Bytes} (hI : AllInv s used) (hR : R s j)
    (ho : s.opened = true) (hc : s.closed = false) (ev : Ev) (hab : badAbort ev = false) (hsl : slotFree s ev)
    (hb : ∀ b, evBody ev = some b → b ∉ used) :
    if isClose ev then Rc (repStep j ev (step s ev).2) else R (step s ev).1 (repStep j ev (step s ev).2) := by
  obtain ⟨h1, h2, h3, h4, h5, h6, _, _⟩ := hI
  have h3' := step_inv3 s ev h3
  generalize hst : step s ev = res at h3' ⊢
  unfold step at hst
  rw [if_neg (by simp [ho]), if_neg (by simp [hc])] at hst
  split at hst
  · -- openSock
    subst hst; exact refused_R hR _ _
  · -- pipeAdd
    rename_i peer
    dsimp only at hst
    split at hst
    · subst hst
      exact pipeAdd_sim hR h5 h2 _ _ (Or.inl ⟨rfl, rfl⟩) h3'
    · subst hst
      exact pipeAdd_sim hR h5 h2 _ _ (Or.inr ⟨rfl, rfl⟩) h3'
  · -- pipeDrop
    rename_i p
    split at hst
    · rename_i hl
      subst hst
      exact pipeDrop_sim hR h5 p hl h3'
    · subst hst
      exact step_plain hR h3 (fun _ => rfl) rfl rfl rfl rfl rfl (fun _ => rfl)
  · -- sendDone
    rename_i p rv
    split at hst
    · subst hst
      refine step_plain hR h3 (fun j => ?_) rfl rfl rfl rfl rfl (fun _ => rfl)
      simp [repPre]
    · rename_i hg
      have hg' : livePipe s p = true ∧ (s.pipe p).busy = true := by
        simpa using hg
      split at hst
      · rename_i hrv
        subst hst
        exact sendErr_sim hR h5 p rv (by simpa using hrv) hg'.1 h3'
      · rename_i hrv
        have : rv = 0 := by simpa using hrv
        subst this
        subst hst
        exact pipeSent_sim hR h5 p hg'.1 hg'.2 h3'
  · -- recvDone
    rename_i p r
    split at hst
    · subst hst
      refine step_plain hR h3 (fun j => ?_) rfl rfl rfl rfl rfl (fun _ => rfl)
      cases r <;> simp [repPre]
    · rename_i hg
      have hg' : livePipe s p = true ∧ (s.pipe p).armed = true := by
        simpa using hg
      split at hst
      · rename_i e
        subst hst
        exact recvErr_sim hR h5 p e hg'.1 h3'
      · rename_i b
        subst hst
        by_cases hm : parseBacktrace s.ttl b = .malformed
        · exact recvMalformed_sim hR h5 p b hg'.1 hg'.2 hm h3'
        · exact pipeRecv_sim hR h2 h3 h5 p b hg'.1 hg'.2 hm h6.rq h3'
  · -- send
    rename_i c a m mode
    split at hst
    · subst hst; exact refused_R hR _ _
    · rename_i hbusy
      have hf := aioFree_of_not_busy h5 (by simpa using hbusy)
      have := send_sim hR h1 h2 h3 h5 c a m mode hf (hb m.body rfl) (fun k => ctxSend_inv3 s k a m mode h3)
      cases hres : resolve s c with
      | none => rw [hres] at hst this; subst hst; exact this
      | some k => rw [hres] at hst this; subst hst; exact this
  · -- recv
    rename_i c a mode
    split at hst
    · subst hst; exact refused_R hR _ _
    · rename_i hbusy
      have hf := aioFree_of_not_busy h5 (by simpa using hbusy)
      have := recv_sim hR h2 h3 h5 c a mode hf (fun k => ctxRecv_inv3 s k a mode h3)
      cases hres : resolve s c with
      | none => rw [hres] at hst this; subst hst; exact this
      | some k => rw [hres] at hst this; subst hst; exact this
  · -- cancel
    rename_i a
    rw [← failAll_one] at hst
    subst hst
    exact failBatch_sim (.cancel a) (fun _ _ => rfl) hR h5 [a] Err.ecanceled (by simp [Err.ecanceled]) (by simp [Err.ecanceled, Err.estate]) h3'
  · -- abort
    rename_i a rv
    have hrv : rv ≠ 0 ∧ rv ≠ Err.estate := by
      simpa [badAbort] using hab
    rw [← failAll_one] at hst
    subst hst
    exact failBatch_sim (.abort a rv) (fun _ _ => rfl) hR h5 [a] _ hrv.1 hrv.2 h3'
  · -- advance
    rename_i ms
    have he : expire { s with now := s.now + ms } =
        failAll { s with now := s.now + ms } (dueAios { s with now := s.now + ms }) Err.etimedout := rfl
    rw [he] at hst
    subst hst
    exact failBatch_sim (s0 := { s with now := s.now + ms }) (.advance ms) (fun _ _ => rfl) (R_sim (now_sim s (s.now + ms)) hR)
      (inv5_same h5 rfl rfl rfl rfl rfl rfl rfl) (dueAios { s with now := s.now + ms }) Err.etimedout (by simp [Err.etimedout]) (by simp [Err.etimedout, Err.estate]) h3'
  · -- ctxOpen
    rename_i c
    split at hst
    · subst hst; exact refused_R hR _ _
    · subst hst
      exact ctxOpen_sim hR h4 h5 c hsl h3'
  · -- ctxClose
    rename_i c
    split at hst
    · subst hst; exact refused_R hR _ _
    · split at hst
      · subst hst
        refine step_plain hR h3 (fun j => ?_) rfl rfl rfl rfl rfl (fun _ => rfl)
        simp [repPre]
      · rename_i k hk
        subst hst
        exact ctxClose_sim hR h4 h5 c k hk h3'
  · -- setopt ttl-max
    rename_i v
    split at hst
    · subst hst; exact setopt_refused_sim hR h3 v
    · subst hst; exact setTtl_sim hR h3 v
  · subst hst; exact refused_R hR _ _
  · -- getopt ttl-max
    subst hst
    exact getopt_sim hR h3 none "ttl-max" "int" _ ⟨_, _, rfl⟩
  · subst hst; exact refused_R hR _ _
  · -- poll
    subst hst; exact poll_sim hR h2 h3 hc
  · subst hst; exact refused_R hR _ _
  · subst hst; exact refused_R hR _ _
  · -- close
    subst hst
    exact close_sim hR h5 _ (fun s => List.range s.npipes) (fun s => List.range s.nctx)

/-! ### the simulation over a whole run -/

/-- what relates the model state and the judge state between two events -/
structure SimSt (s : State) (j : RepJ) : Prop where
  live : s.closed = false → R s j
  dead : s.closed = true → Rc j

theorem step_close_closed (s : State) (ho : s.opened = true) (hc : s.closed = false) :
    (step s .close).1.closed = true := by
  unfold step
  rw [if_neg (by simp [ho]), if_neg (by simp [hc])]
  rfl

theorem step_SimSt {s : State} {j : RepJ} {used : List Bytes} (hI : AllInv s used) (hS : SimSt s j) (ev : Ev)
    (hab : badAbort ev = false) (hsl : slotFree s ev) (hb : ∀ b, evBody ev = some b → b ∉ used) :
    SimSt (step s ev).1 (repStep j ev (step s ev).2) := by
  cases hc : s.closed with
  | true =>
    -- the socket is closed: nothing is executed any more
    have hRc := hS.dead hc
    have ho := hI.co hc
    have hcl := step_closed_closed s ev hc
    refine ⟨fun h => (by rw [hcl] at h; cases h), fun _ => ?_⟩
    generalize hst : step s ev = res
    unfold step at hst
    rw [if_neg (by simp [ho]), if_pos hc] at hst
    split at hst
    · subst hst; exact Rc_step hRc _ (fun _ => rfl)
    · subst hst; rw [repStep_refused rfl]; exact hRc
  | false =>
    have hR := hS.live hc
    cases ho : s.opened with
    | false =>
      -- not yet opened
      have hcl := step_closed_idle s ev ho
      have h3' := step_inv3 s ev hI.i3
      refine ⟨fun _ => ?_, fun h => by rw [hcl, hc] at h; cases h⟩
      generalize hst : step s ev = res at h3' ⊢
      unfold step at hst
      rw [if_pos (by simp [ho])] at hst
      split at hst
      · subst hst
        exact openSock_sim hR h3' (hI.i6.un ho).2 _ _
      · subst hst
        exact idle_advance_sim hR hI.i3 _ _
      · subst hst; exact refused_R hR _ _
    | true =>
      have hlive := stepLive_sim hI hR ho hc ev hab hsl hb
      cases hcl : isClose ev with
      | true =>
        rw [hcl] at hlive
        have : ev = .close := by cases ev <;> first | rfl | cases hcl
        subst this
        have hcc := step_close_closed s ho hc
        exact ⟨fun h => (by rw [hcc] at h; cases h), fun _ => hlive⟩
      | false =>
        rw [hcl] at hlive
        have hne : ev ≠ .close := by intro h; subst h; cases hcl
        have hcc := step_closed s ev ho hc hne
        exact ⟨fun _ => hlive, fun h => by rw [hcc] at h; cases h⟩

theorem SimSt_init : SimSt ({} : State) ({} : RepJ) := ⟨fun _ => R_init, fun h => by cases h⟩

theorem SimSt_err {s : State} {j : RepJ} (h : SimSt s j) : j.err = none := by
  cases hc : s.closed with
  | true => exact (h.dead hc).err
  | false => exact (h.live hc).r0.err

def bodiesOf (evs : List Ev) : List Bytes := evs.filterMap evBody

theorem bodiesOf_cons (e : Ev) (es : List Ev) : bodiesOf (e :: es) = (evBody e).toList ++ bodiesOf es := by
  unfold bodiesOf
  rw [List.filterMap_cons]
  cases evBody e <;> rfl

theorem judge_from (evs : List Ev) : ∀ {s : State} {j : RepJ} {used : List Bytes}, AllInv s used → SimSt s j →
    NoBadAbort evs → SlotsFresh s evs → (used ++ bodiesOf evs).Nodup →
    ((traceOf s evs).foldl (fun j x => repStep j x.1 x.2) j).err = none := by
  induction evs with
  | nil => intro s j used _ hS _ _ _; exact SimSt_err hS
  | cons e es ih =>
    intro s j used hI hS hab hsl hnd
    simp only [traceOf, List.foldl_cons]
    rw [bodiesOf_cons, ← List.append_assoc] at hnd
    have hb : ∀ b, evBody e = some b → b ∉ used := by
      intro b hb hmem
      rw [hb] at hnd
      have h1 := (List.nodup_append.1 hnd).1
      have h2 := List.nodup_append.1 h1
      exact h2.2.2 b hmem b (by simp) rfl
    exact ih (step_allInv hI e hb) (step_SimSt hI hS e (hab e (by simp)) hsl.1 hb)
      (fun ev hev => hab ev (by simp [hev])) hsl.2 hnd

theorem zip_run_eq_traceOf (evs : List Ev) : ∀ s : State, evs.zip (run s evs).2 = traceOf s evs := by
  induction evs with
  | nil => intro s; rfl
  | cons e es ih =>
    intro s
    show (e :: es).zip ((step s e).2 :: (run (step s e).1 es).2) = _
    rw [List.zip_cons_cons, ih]; rfl

/-- JUDGE (REP): the model's trace satisfies the C04 (replier) trace predicate -/
theorem rep_judge_ok (evs : List Ev) (hab : NoBadAbort evs) (hsl : SlotsFresh {} evs) (hnd : (bodiesOf evs).Nodup) :
    repJudge (evs.zip (run {} evs).2) = none := by
  rw [zip_run_eq_traceOf]
  exact judge_from evs allInv_init SimSt_init hab hsl (by simpa using hnd)

end Nng.RepProofs
