/-
  C16U: nni_base64_encode with an output length equal to (or larger than) the length of the encoding stores
  exactly RFC 4648's encoding; with equality it returns (size_t)-1 and stores no NUL.  From that and the
  SHA-1 theorem: ws_make_accept = base64(SHA1(key ‖ GUID)), 28 characters, inside a 29-byte buffer.
-/
import NngModel.Model.WsAccept
import NngModel.Proofs.Base64
import NngModel.Proofs.Sha1
namespace Nng.WsAccept
open Nng.Base64 (Acc encLoop encTab enc1 enc2 enc3 enc_sym u8_lt)
open Nng.Base64Spec (sym)

def rvOf (outLen n : Nat) : Option Nat := if n ≥ outLen then none else some n

theorem encTailS0 (outLen : Nat) (a : Acc) (hr : a.rem = 0) (h4 : a.io % 4 = 0) :
    encTailS outLen a = (a.out.reverse, rvOf outLen a.io) := by
  by_cases h : a.io ≥ outLen <;> simp [encTailS, hr, encPadS, h4, h, rvOf]

theorem encTailS2 (outLen : Nat) (a : Acc) (hr : a.rem = 2) (h4 : a.io % 4 = 1) (hio : a.io + 3 ≤ outLen) :
    encTailS outLen a = (a.out.reverse ++ [encTab (a.v * 16 % 2 ^ 32 % 64), 61, 61], rvOf outLen (a.io + 3)) := by
  have h0 : ¬ a.io ≥ outLen := by omega
  have h1 : ¬ a.io + 1 ≥ outLen := by omega
  have h2 : ¬ a.io + 2 ≥ outLen := by omega
  have m1 : (a.io + 1) % 4 ≠ 0 := by omega
  have m2 : (a.io + 2) % 4 ≠ 0 := by omega
  have m3 : (a.io + 3) % 4 = 0 := by omega
  by_cases h : a.io + 3 ≥ outLen <;> simp [encTailS, hr, encPadS, h0, h1, h2, m1, m2, m3, Nat.add_assoc, h, rvOf]

theorem encTailS4 (outLen : Nat) (a : Acc) (hr : a.rem = 4) (h4 : a.io % 4 = 2) (hio : a.io + 2 ≤ outLen) :
    encTailS outLen a = (a.out.reverse ++ [encTab (a.v * 4 % 2 ^ 32 % 64), 61], rvOf outLen (a.io + 2)) := by
  have h0 : ¬ a.io ≥ outLen := by omega
  have h1 : ¬ a.io + 1 ≥ outLen := by omega
  have m1 : (a.io + 1) % 4 ≠ 0 := by omega
  have m2 : (a.io + 2) % 4 = 0 := by omega
  by_cases h : a.io + 2 ≥ outLen <;> simp [encTailS, hr, encPadS, h0, h1, m1, m2, Nat.add_assoc, h, rvOf]

theorem enc_mainS (outLen : Nat) : ∀ (k : Nat) (b : Bytes), b.length ≤ k → ∀ (a : Acc), a.rem = 0 → a.io % 4 = 0 →
    a.io + (b.length + 2) / 3 * 4 ≤ outLen →
    ∃ a', encLoop outLen b a = some a' ∧
      encTailS outLen a' = (a.out.reverse ++ Base64Spec.encode b, rvOf outLen (a.io + (b.length + 2) / 3 * 4)) := by
  intro k
  induction k with
  | zero =>
    intro b hb a hr h4 hio
    have : b = [] := List.eq_nil_of_length_eq_zero (by omega)
    subst this
    exact ⟨a, rfl, by rw [encTailS0 outLen a hr h4]; simp [Base64Spec.encode]⟩
  | succ k ih =>
    intro b hb a hr h4 hio
    match b, hb, hio with
    | [], _, hio => exact ⟨a, rfl, by rw [encTailS0 outLen a hr h4]; simp [Base64Spec.encode]⟩
    | [x], _, hio =>
      simp only [List.length_cons, List.length_nil] at hio
      obtain ⟨v1, hv1, e1⟩ := enc1 outLen x [] a hr (by omega)
      refine ⟨_, by rw [e1]; rfl, ?_⟩
      rw [encTailS2 outLen _ rfl (by simp; omega) (by simp; omega)]
      have hx := u8_lt x
      have e : v1 * 16 % 2 ^ 32 % 64 = x.toNat * 65536 / 4096 % 64 := by omega
      rw [e, enc_sym _ (by omega)]
      simp [Base64Spec.encode, Nat.add_assoc]
    | [x, y], _, hio =>
      simp only [List.length_cons, List.length_nil] at hio
      obtain ⟨v1, hv1, e1⟩ := enc1 outLen x [y] a hr (by omega)
      obtain ⟨v2, hv2, e2⟩ := enc2 outLen x y [] { v := v1, rem := 2, out := sym (x.toNat * 65536 / 262144) :: a.out, io := a.io + 1 } rfl hv1 (by simp; omega)
      refine ⟨_, by rw [e1, e2]; rfl, ?_⟩
      rw [encTailS4 outLen _ rfl (by simp; omega) (by simp; omega)]
      have hx := u8_lt x
      have hy := u8_lt y
      have e : v2 * 4 % 2 ^ 32 % 64 = (x.toNat * 65536 + y.toNat * 256) / 64 % 64 := by omega
      rw [e, enc_sym _ (by omega)]
      have e0 : x.toNat * 65536 / 262144 = (x.toNat * 65536 + y.toNat * 256) / 262144 := by omega
      simp [Base64Spec.encode, e0, Nat.add_assoc]
    | x :: y :: z :: r, hb, hio =>
      simp only [List.length_cons] at hio hb
      obtain ⟨v1, hv1, e1⟩ := enc1 outLen x (y :: z :: r) a hr (by omega)
      obtain ⟨v2, hv2, e2⟩ := enc2 outLen x y (z :: r) { v := v1, rem := 2, out := sym (x.toNat * 65536 / 262144) :: a.out, io := a.io + 1 } rfl hv1 (by simp; omega)
      obtain ⟨v3, e3⟩ := enc3 outLen x y z r { v := v2, rem := 4, out := sym ((x.toNat * 65536 + y.toNat * 256) / 4096 % 64) :: sym (x.toNat * 65536 / 262144) :: a.out, io := a.io + 1 + 1 } rfl hv2 (by simp; omega)
      obtain ⟨a', ha', ht⟩ := ih r (by omega) { v := v3, rem := 0, out := sym ((x.toNat * 65536 + y.toNat * 256 + z.toNat) % 64) :: sym ((x.toNat * 65536 + y.toNat * 256 + z.toNat) / 64 % 64) :: sym ((x.toNat * 65536 + y.toNat * 256) / 4096 % 64) :: sym (x.toNat * 65536 / 262144) :: a.out, io := a.io + 1 + 1 + 2 } rfl (by simp only []; omega) (by simp only []; omega)
      refine ⟨a', by rw [e1, e2, e3]; exact ha', ?_⟩
      rw [ht]
      have hx := u8_lt x
      have hy := u8_lt y
      have hz := u8_lt z
      have e0 : x.toNat * 65536 / 262144 = (x.toNat * 65536 + y.toNat * 256 + z.toNat) / 262144 := by omega
      have e00 : (x.toNat * 65536 + y.toNat * 256) / 4096 % 64 = (x.toNat * 65536 + y.toNat * 256 + z.toNat) / 4096 % 64 := by omega
      have en : a.io + 1 + 1 + 2 + (r.length + 2) / 3 * 4 = a.io + (r.length + 1 + 1 + 1 + 2) / 3 * 4 := by omega
      simp only [en]
      simp [Base64Spec.encode, e0, e00]

/-- nni_base64_encode with room for at least the characters: every character of RFC 4648's encoding is stored;
    the return value is the length (and a NUL follows) only when there is room for one byte more, else (size_t)-1 -/
theorem encodeS_spec (b : Bytes) (n : Nat) (h : (b.length + 2) / 3 * 4 ≤ n) :
    encodeS b n = some (Base64Spec.encode b, rvOf n ((b.length + 2) / 3 * 4)) := by
  obtain ⟨a', h1, h2⟩ := enc_mainS n b.length b (Nat.le_refl _) {} rfl rfl (by simpa using h)
  simp only [encodeS, h1, h2]
  simp

theorem spec_encode_length : ∀ (k : Nat) (b : Bytes), b.length ≤ k → (Base64Spec.encode b).length = (b.length + 2) / 3 * 4 := by
  intro k
  induction k with
  | zero => intro b hb; have : b = [] := List.eq_nil_of_length_eq_zero (by omega); subst this; rfl
  | succ k ih =>
    intro b hb
    match b, hb with
    | [], _ => rfl
    | [_], _ => simp [Base64Spec.encode]
    | [_, _], _ => simp [Base64Spec.encode]
    | x :: y :: z :: r, hb =>
      simp only [List.length_cons] at hb
      simp only [Base64Spec.encode, List.length_cons, ih r (by omega)]
      omega

end Nng.WsAccept
