/-
  C05: one judge step on the SUB model's outputs = `absJ` of the model's next state; hence
  `subJudge` accepts the model's trace on every event sequence without `abort aio 0`.
-/
import NngModel.Proofs.SubSim
import NngModel.Generated.C05
namespace Nng.Sub
open Nng Nng.Proto Nng.PubSubSpec

/-! ### `subStep` cut into named pieces (definitionally the same function) -/

def subEv (j : SubJ) (ev : Ev) (outs : List Out) : SubJ :=
  let rv := rvOf outs
    match ev with
    | .recvDone _ (.ok b) =>
      if rv == some 0 then { j with ctxs := j.ctxs.map (arriveJ b) } else j
    | .recv c a _ =>
      match findCtx j c with
      | none => j
      | some cx =>
        match cx.queue with
        | b :: rest => putCtx j { cx with queue := rest, owed := some b, waiting := cx.waiting ++ [a] }
        | [] => putCtx j { cx with waiting := cx.waiting ++ [a] }
    | .sub c t =>
      match findCtx j c with
      | none => if rv == some 0 then j.fail "subscribe on a closed context succeeded" else j
      | some cx =>
        if rv != some 0 then j.fail s!"subscribe failed with {rv.getD (-1)}"
        else if cx.topics.contains t then j else putCtx j { cx with topics := cx.topics ++ [t] }
    | .unsub c t =>
      match findCtx j c with
      | none => if rv == some 0 then j.fail "unsubscribe on a closed context succeeded" else j
      | some cx =>
        if cx.topics.contains t then
          if rv != some 0 then j.fail s!"unsubscribe of a subscribed topic failed with {rv.getD (-1)}"
          else
            let ts := cx.topics.erase t
            putCtx j { cx with topics := ts, queue := cx.queue.filter (prefixMatch ts) }
        else if rv != some (Int.ofNat Err.enoent) then j.fail s!"unsubscribe of a topic that is not subscribed returned {rv.getD (-1)} instead of NNG_ENOENT"
        else j
    | .setopt c name ty v =>
      match findCtx j c with
      | none => j
      | some cx =>
        if rv != some 0 then j
        else if name == Nng.Generated.c05OptRecvBuf && ty == "int" then
          let j := putCtx j { cx with cap := v.toNat, queue := cx.queue.take v.toNat }
          if cx.key == 0 then { j with defCap := v.toNat } else j
        else if name == Nng.Generated.c05OptPrefNew && ty == "bool" then
          let j := putCtx j { cx with prefNew := v != 0 }
          if cx.key == 0 then { j with defPref := v != 0 } else j
        else j
    | .getopt c name ty =>
      match findCtx j c, outs with
      | some cx, [.rv2 0 v] =>
        if name == Nng.Generated.c05OptRecvBuf && ty == "int" && v != cx.cap then
          j.fail s!"{ctxName cx} reports receive buffer depth {v}, configured {cx.cap}"
        else if name == Nng.Generated.c05OptPrefNew && ty == "bool" && (v != 0) != cx.prefNew then
          j.fail s!"{ctxName cx} reports PREFNEW {v}, configured {cx.prefNew}"
        else j
      | _, _ => j
    | .ctxOpen h =>
      if rv == some 0 then
        let old := j.ctxs.map fun x => if x.handle == some h then { x with handle := none } else x
        { j with ctxs := old ++ [{ key := j.next, handle := some h, cap := j.defCap, prefNew := j.defPref }], next := j.next + 1 }
      else j
    | _ => j

def stail1 (ev : Ev) (j : SubJ) : SubJ :=
  match j.ctxs.find? (fun c => c.owed.isSome) with
    | some c =>
      (match ev with
       | .recv _ _ _ => j.fail s!"receive on {ctxName c} did not return the message it has queued"
       | _ => j.fail s!"{ctxName c} has a receive outstanding and a matching message arrived, but it was not delivered")
    | none => j

def stail2 (ev : Ev) (outs : List Out) (j : SubJ) : SubJ :=
  let rv := rvOf outs
  match ev with
    | .recv _ a mode =>
      let pending := j.ctxs.any (fun c => c.waiting.contains a)
      (match mode with
       | .nb => if pending then j.fail s!"non-blocking receive {a} did not complete at once" else j
       | .ms 0 => if pending then j.fail s!"zero-timeout receive {a} did not complete at once" else j
       | _ => j)
    | .ctxClose h =>
      if rv == some 0 then
        match findCtx j (some h) with
        | some cx =>
          if !cx.waiting.isEmpty then j.fail s!"context {h} closed but a receive on it is still pending"
          else { j with ctxs := j.ctxs.filter (·.key != cx.key) }
        | none => j
      else j
    | .close =>
      if j.ctxs.any (fun c => !c.waiting.isEmpty) then j.fail "socket closed but a receive is still pending"
      else { j with closed := true }
    | .poll =>
      match findCtx j none, outs with
      | some cx, [.poll (some r) _] =>
        if r != !cx.queue.isEmpty then
          j.fail (if r then "the socket polls readable but has no message to receive" else "the socket has a message queued but does not poll readable")
        else j
      | _, _ => j
    | _ => j

def stail3 (j : SubJ) : SubJ :=
  match j.ctxs.find? (fun c => c.queue.length > c.cap) with
    | some c => j.fail s!"{ctxName c} buffers more messages than its receive buffer depth"
    | none => j

def subMid (j : SubJ) (ev : Ev) (outs : List Out) : SubJ := outs.foldl (subDone ev) (subEv j ev outs)

def subTail (ev : Ev) (outs : List Out) (j : SubJ) : SubJ :=
  let j := stail3 (stail2 ev outs (stail1 ev j))
  if hasBlocked outs then j.fail "a non-blocking call blocked" else j

theorem subStep_open (j : SubJ) (ev : Ev) (outs : List Out) (he : j.err = none)
    (hn : notExecuted outs = false) (ho : j.opened = true) (hc : j.closed = false) :
    subStep j ev outs =
      if (subMid j ev outs).err.isSome then subMid j ev outs else subTail ev outs (subMid j ev outs) := by
  have h1 : ¬ (j.err.isSome = true) := by simp [he]
  have h3 : ¬ (notExecuted outs = true) := by simp [hn]
  have h4 : ¬ ((!j.opened) = true) := by simp [ho]
  have h5 : ¬ (j.closed = true) := by simp [hc]
  unfold subStep
  rw [if_neg h1, if_neg h3, if_neg h4, if_neg h5]
  rfl

theorem subStep_skip (j : SubJ) (ev : Ev) (outs : List Out) (he : j.err = none)
    (hn : notExecuted outs = true) : subStep j ev outs = j := by
  have h1 : ¬ (j.err.isSome = true) := by simp [he]
  unfold subStep
  rw [if_neg h1, if_pos hn]

theorem subStep_closed (j : SubJ) (ev : Ev) (outs : List Out) (he : j.err = none)
    (ho : j.opened = true) (hc : j.closed = true) : subStep j ev outs = j := by
  have h1 : ¬ (j.err.isSome = true) := by simp [he]
  have h4 : ¬ ((!j.opened) = true) := by simp [ho]
  unfold subStep
  rw [if_neg h1]
  split <;> first | rfl | (rw [if_neg h4, if_pos hc])

/-! ### the fold of `subDone` over the completions of one context after the other -/

structure Good (l : List JCtx) : Prop where
  keys : (l.map (·.key)).Nodup
  aios : (l.flatMap (·.waiting)).Nodup

theorem Good.notin_pre {pre rest : List JCtx} {x : JCtx} (h : Good (pre ++ x :: rest)) {a : Nat} (ha : a ∈ x.waiting) :
    ∀ y ∈ pre, a ∉ y.waiting := by
  intro y hy hay
  have := h.aios
  simp only [List.flatMap_append, List.flatMap_cons, List.nodup_append] at this
  exact this.2.2 a (List.mem_flatMap.2 ⟨y, hy, hay⟩) a (List.mem_append.2 (Or.inl ha)) rfl

theorem Good.xnodup {pre rest : List JCtx} {x : JCtx} (h : Good (pre ++ x :: rest)) : x.waiting.Nodup := by
  have := h.aios
  simp only [List.flatMap_append, List.flatMap_cons, List.nodup_append] at this
  exact this.2.1.1

theorem Good.replace {pre rest : List JCtx} {x y : JCtx} (h : Good (pre ++ x :: rest)) (hk : y.key = x.key)
    (hs : y.waiting.Sublist x.waiting) : Good (pre ++ y :: rest) := by
  refine ⟨?_, ?_⟩
  · have := h.keys
    simpa [hk] using this
  · refine h.aios.sublist ?_
    simp only [List.flatMap_append, List.flatMap_cons]
    exact List.Sublist.append (List.Sublist.refl _) (List.Sublist.append hs (List.Sublist.refl _))

theorem find_waiting {pre rest : List JCtx} {x : JCtx} (h : Good (pre ++ x :: rest)) {a : Nat} (ha : a ∈ x.waiting) :
    (pre ++ x :: rest).find? (fun c => c.waiting.contains a) = some x := by
  rw [List.find?_append]
  have : pre.find? (fun c => c.waiting.contains a) = none := by
    rw [List.find?_eq_none]
    intro y hy
    simpa using h.notin_pre ha y hy
  rw [this]
  simp [ha]

theorem put_unique (j : SubJ) {pre rest : List JCtx} {x : JCtx} (y : JCtx) (h : Good (pre ++ x :: rest))
    (hk : y.key = x.key) :
    putCtx { j with ctxs := pre ++ x :: rest } y = { j with ctxs := pre ++ y :: rest } := by
  have hnd := h.keys
  simp only [List.map_append, List.map_cons, List.nodup_append, List.nodup_cons] at hnd
  obtain ⟨_, ⟨hx, _⟩, hd⟩ := hnd
  have h1 : pre.map (fun z => if z.key == y.key then y else z) = pre := by
    conv => rhs; rw [← List.map_id pre]
    apply List.map_congr_left
    intro z hz
    have : z.key ≠ y.key := fun he => hd z.key (List.mem_map.2 ⟨z, hz, rfl⟩) x.key (by simp) (he.trans hk)
    simp [this]
  have h2 : rest.map (fun z => if z.key == y.key then y else z) = rest := by
    conv => rhs; rw [← List.map_id rest]
    apply List.map_congr_left
    intro z hz
    have : z.key ≠ y.key := fun he => hx (by rw [← hk, ← he]; exact List.mem_map.2 ⟨z, hz, rfl⟩)
    simp [this]
  simp only [putCtx]
  rw [List.map_append, List.map_cons, h1, h2]
  simp [hk]

/-- success: the context that is owed `b` delivers it through its first waiting aio -/
theorem subDone_deliver (ev : Ev) (j : SubJ) (he : j.err = none) {pre rest : List JCtx} {x : JCtx} {a : Nat} {w : List Nat}
    {b : Bytes} (h : Good (pre ++ x :: rest)) (hw : x.waiting = a :: w) (ho : x.owed = some b) :
    subDone ev { j with ctxs := pre ++ x :: rest } (.done a 0 (some ⟨[], b⟩) false) =
      { j with ctxs := pre ++ { x with waiting := w, owed := none } :: rest } := by
  have hf := find_waiting h (a := a) (by simp [hw])
  have hnd := h.xnodup
  rw [hw, List.nodup_cons] at hnd
  have hflt : (a :: w).filter (· != a) = w := by
    simp only [List.filter_cons, bne_self_eq_false, Bool.false_eq_true, if_false]
    rw [List.filter_eq_self]
    intro z hz
    have : z ≠ a := fun e => hnd.1 (e ▸ hz)
    simp [this]
  simp only [subDone, hf, ho, hw, hflt]
  simp only [bne_self_eq_false, Bool.false_eq_true, if_false, List.isEmpty_nil, Bool.not_true]
  exact put_unique j _ h rfl

theorem failureAllowed_handle (ev : Ev) (c c' : JCtx) (a : Nat) (h : c'.handle = c.handle) :
    failureAllowed ev c' a = failureAllowed ev c a := by
  cases ev <;> simp [failureAllowed, h]

/-- failure of one waiting aio of a context that is owed nothing -/
theorem subDone_fail (ev : Ev) (j : SubJ) (he : j.err = none) {pre rest : List JCtx} {x : JCtx} {a rv : Nat}
    (h : Good (pre ++ x :: rest)) (ha : a ∈ x.waiting) (ho : x.owed = none) (hrv : rv ≠ 0)
    (hal : failureAllowed ev x a = true) :
    subDone ev { j with ctxs := pre ++ x :: rest } (.done a rv none false) =
      { j with ctxs := pre ++ { x with waiting := x.waiting.filter (· != a) } :: rest } := by
  have hf := find_waiting h ha
  cases rv with
  | zero => exact absurd rfl hrv
  | succ n =>
    simp only [subDone, hf, hal, ho]
    simp only [Bool.false_eq_true, if_false, Bool.not_true]
    exact put_unique j _ h rfl

theorem subDone_fail_list (ev : Ev) (j : SubJ) (he : j.err = none) {pre rest : List JCtx} {rv : Nat} (hrv : rv ≠ 0) :
    ∀ (as : List Nat) (x : JCtx), Good (pre ++ x :: rest) → as.Nodup → (∀ a ∈ as, a ∈ x.waiting) → x.owed = none →
      (∀ a ∈ as, failureAllowed ev x a = true) →
      (as.map (fun a => Out.done a rv none false)).foldl (subDone ev) { j with ctxs := pre ++ x :: rest } =
        { j with ctxs := pre ++ { x with waiting := x.waiting.filter (fun z => !as.contains z) } :: rest }
  | [], x, _, _, _, _, _ => by
    have : x.waiting.filter (fun z => !([] : List Nat).contains z) = x.waiting := by
      rw [List.filter_eq_self]; intro z _; simp
    simp only [List.map_nil, List.foldl_nil]
    rw [this]
  | a :: as, x, h, hnd, hin, ho, hal => by
    rw [List.map_cons, List.foldl_cons, subDone_fail ev j he h (hin a (by simp)) ho hrv (hal a (by simp))]
    have hnd' := List.nodup_cons.1 hnd
    have h' : Good (pre ++ { x with waiting := x.waiting.filter (· != a) } :: rest) :=
      h.replace rfl List.filter_sublist
    rw [subDone_fail_list ev j he hrv as _ h' hnd'.2 ?_ ho ?_]
    · simp only [List.filter_filter]
      have hfun : (fun z => !as.contains z && z != a) = (fun z => !(a :: as).contains z) := by
        funext z
        by_cases hz : z = a <;> simp [hz, List.contains_cons]
      rw [hfun]
    · intro a' ha'
      have : a' ≠ a := fun e => hnd'.1 (e ▸ ha')
      simp only [List.mem_filter]
      exact ⟨hin a' (by simp [ha']), by simp [this]⟩
    · intro a' ha'
      rw [failureAllowed_handle ev x { x with waiting := x.waiting.filter (· != a) } a' rfl]
      exact hal a' (by simp [ha'])

theorem fold_ctxs (ev : Ev) (view post : Ctx → JCtx) (outsOf : Ctx → List Out) (Q : Ctx → Prop)
    (hkey : ∀ c, (post c).key = (view c).key) (hsub : ∀ c, (post c).waiting.Sublist (view c).waiting)
    (hstep : ∀ (j : SubJ) (pre rest : List JCtx) (c : Ctx), j.err = none → Good (pre ++ view c :: rest) → Q c →
        (outsOf c).foldl (subDone ev) { j with ctxs := pre ++ view c :: rest } = { j with ctxs := pre ++ post c :: rest })
    (j : SubJ) (he : j.err = none) : ∀ (rest : List Ctx) (pre : List JCtx), Good (pre ++ rest.map view) → (∀ c ∈ rest, Q c) →
      (rest.flatMap outsOf).foldl (subDone ev) { j with ctxs := pre ++ rest.map view } =
        { j with ctxs := pre ++ rest.map post }
  | [], pre, _, _ => by simp
  | c :: rest, pre, hg, hq => by
    rw [List.flatMap_cons, List.foldl_append, List.map_cons, hstep j pre _ c he hg (hq c (by simp))]
    have hg' : Good ((pre ++ [post c]) ++ rest.map view) := by
      have := hg.replace (hkey c) (hsub c)
      simpa using this
    have := fold_ctxs ev view post outsOf Q hkey hsub hstep j he rest (pre ++ [post c]) hg'
      (fun c' hc' => hq c' (by simp [hc']))
    simpa using this

/-! ### one step -/

def JS (cs : List JCtx) (nx dc : Nat) (dp cl : Bool) : SubJ :=
  { opened := true, closed := cl, ctxs := cs, next := nx, defCap := dc, defPref := dp, err := none }

def JA (s : State) (cl : Bool) : SubJ := JS ((allCtx s).map absC) (s.nctx + 1) s.recvBufLen s.preferNew cl

theorem absJ_open {s : State} (ho : s.opened = true) : absJ s = JA s s.closed := by
  simp [absJ, ho, JA, JS]

theorem abs_owed (L : List Ctx) : (L.map absC).find? (fun c => c.owed.isSome) = none := by
  rw [List.find?_eq_none]; intro x hx
  obtain ⟨c, _, rfl⟩ := List.mem_map.1 hx
  simp [absC]

theorem abs_bound {s : State} (hi : Inv s) (ho : s.opened = true) (L : List Ctx) (hL : ∀ c ∈ L, c ∈ allCtx s) :
    (L.map absC).find? (fun c => c.queue.length > c.cap) = none := by
  rw [List.find?_eq_none]; intro x hx
  obtain ⟨c, hc, rfl⟩ := List.mem_map.1 hx
  have hm := hL c hc
  simp only [allCtx, List.mem_cons] at hm
  have : c.q.length ≤ c.cap := by
    rcases hm with rfl | hm
    · exact (hi.master ho).len
    · exact (hi.ctxs c hm).1.len
  simp [absC]; omega

theorem sim_finish (s : State) (ev : Ev) (outs : List Out) (cs' cs'' : List JCtx) (nx dc : Nat) (dp cl : Bool)
    (ho : s.opened = true) (hc : s.closed = false) (hn : notExecuted outs = false)
    (hmid : subMid (JA s false) ev outs = JS cs' nx dc dp false)
    (hown : cs'.find? (fun c => c.owed.isSome) = none)
    (h2 : stail2 ev outs (JS cs' nx dc dp false) = JS cs'' nx dc dp cl)
    (hbound : cs''.find? (fun c => c.queue.length > c.cap) = none)
    (hb : hasBlocked outs = false) :
    subStep (absJ s) ev outs = JS cs'' nx dc dp cl := by
  rw [absJ_open ho, hc, subStep_open _ _ _ rfl hn rfl rfl, hmid]
  have h1 : stail1 ev (JS cs' nx dc dp false) = JS cs' nx dc dp false := by
    simp only [stail1, JS, hown]
  have h3 : stail3 (JS cs'' nx dc dp cl) = JS cs'' nx dc dp cl := by
    simp only [stail3, JS, hbound]
  have he : (JS cs' nx dc dp false).err.isSome = false := rfl
  simp only [he, Bool.false_eq_true, if_false, subTail, h1, h2, h3, hb]

/-- the usual case: the judge ends on the abstraction of the model's next state -/
theorem sim_finish' (s s' : State) (ev : Ev) (outs : List Out) (cl : Bool)
    (ho : s.opened = true) (hc : s.closed = false) (hn : notExecuted outs = false)
    (hmid : subMid (JA s false) ev outs = JA s' false)
    (h2 : stail2 ev outs (JA s' false) = JA s' cl)
    (hi' : Inv s') (ho' : s'.opened = true) (hc' : s'.closed = cl)
    (hb : hasBlocked outs = false) :
    subStep (absJ s) ev outs = absJ s' := by
  rw [absJ_open ho', hc']
  exact sim_finish s ev outs _ _ _ _ _ cl ho hc hn hmid (abs_owed _) h2 (abs_bound hi' ho' _ (fun _ h => h)) hb

theorem findCtx_abs {s : State} (hi : Inv s) (ha : AInv s) (cl : Bool) (c : Option Nat) :
    findCtx (JA s cl) c = (getCtx s c).map absC := by
  cases c with
  | none => simp [findCtx, JA, JS, allCtx, absC, hi.mcid, getCtx]
  | some h =>
    simp only [findCtx, JA, JS, allCtx, List.map_cons, getCtx]
    rw [List.find?_cons]
    have : ((absC s.master).handle == some h) = false := by simp [absC, ha.mh]
    rw [this, List.find?_map]
    rfl

/-- a context addressed by an operation, seen in the judge's list -/
theorem upd_ctx {s : State} (hi : Inv s) (hci : CidInv s) (ha : AInv s) {c : Option Nat} {cx : Ctx}
    (hg : getCtx s c = some cx) :
    ∃ l1 l2 : List Ctx, allCtx s = l1 ++ cx :: l2 ∧ Good (l1.map absC ++ absC cx :: l2.map absC) ∧
      ∀ c' : Ctx, c'.cid = cx.cid → allCtx (setCtx s c') = l1 ++ c' :: l2 := by
  obtain ⟨l1, l2, hsplit⟩ := List.append_of_mem (getCtx_mem hg)
  refine ⟨l1, l2, hsplit, ?_, ?_⟩
  · have hk := allCtx_cids_nodup hi hci
    have hao := ha.aios
    unfold allAios at hao
    rw [hsplit] at hk hao
    refine ⟨?_, ?_⟩
    · simpa [absC, List.map_map, Function.comp_def] using hk
    · have hfun : aiosOf = (fun a : Ctx => List.map (fun x => x.aio) a.rq) := rfl
      simpa [absC, hfun, List.flatMap_map] using hao
  · intro c' hcid
    rw [allCtx_setCtx hi, hsplit]
    have hk := allCtx_cids_nodup hi hci
    rw [hsplit] at hk
    simp only [List.map_append, List.map_cons, List.nodup_append, List.nodup_cons] at hk
    obtain ⟨_, ⟨hx, _⟩, hd⟩ := hk
    have h1 : l1.map (fun z => if z.cid == c'.cid then c' else z) = l1 := by
      conv => rhs; rw [← List.map_id l1]
      apply List.map_congr_left
      intro z hz
      have : z.cid ≠ c'.cid := fun he => hd z.cid (List.mem_map.2 ⟨z, hz, rfl⟩) cx.cid (by simp) (he.trans hcid)
      simp [this]
    have h2 : l2.map (fun z => if z.cid == c'.cid then c' else z) = l2 := by
      conv => rhs; rw [← List.map_id l2]
      apply List.map_congr_left
      intro z hz
      have : z.cid ≠ c'.cid := fun he => hx (by rw [← hcid, ← he]; exact List.mem_map.2 ⟨z, hz, rfl⟩)
      simp [this]
    rw [List.map_append, List.map_cons, h1, h2]
    simp [hcid]

theorem closePipe_JA (s : State) (p : Nat) (cl : Bool) : JA (closePipe s p).1 cl = JA s cl := by
  obtain ⟨ps, h⟩ := closePipe_same s p
  rw [h]; rfl

theorem closePipe_outs (s : State) (p : Nat) : (closePipe s p).2 = [] ∨ (closePipe s p).2 = [Out.pclosed p] := by
  unfold closePipe
  split
  · exact Or.inl rfl
  · split
    · exact Or.inl rfl
    · exact Or.inr rfl

/-- an event whose outputs carry no completion and which the judge's bookkeeping ignores -/
theorem sim_quiet (s s' : State) (ev : Ev) (outs : List Out) (ho : s.opened = true) (hc : s.closed = false)
    (hn : notExecuted outs = false) (hb : hasBlocked outs = false)
    (hmid : subMid (JA s false) ev outs = JA s false) (h2 : stail2 ev outs (JA s false) = JA s false)
    (hi : Inv s) (hs' : JA s' false = JA s false) (ho' : s'.opened = true) (hc' : s'.closed = false) :
    subStep (absJ s) ev outs = absJ s' := by
  rw [absJ_open ho', hc', hs', ← hc, ← absJ_open ho]
  exact sim_finish' s s ev outs false ho hc hn hmid h2 hi ho hc hb

theorem nf_of_free {s : State} {a : Nat} (h : a ∉ allAios s) :
    ((allCtx s).map absC).find? (fun c => c.waiting.contains a) = none := by
  rw [List.find?_eq_none]
  intro x hx
  obtain ⟨c, hc, rfl⟩ := List.mem_map.1 hx
  simp only [absC, List.contains_eq_mem, decide_eq_true_eq]
  intro hm
  exact h (List.mem_flatMap.2 ⟨c, hc, hm⟩)

theorem setCtx_JA_fields (s : State) (c : Ctx) : (setCtx s c).nctx = s.nctx ∧ (setCtx s c).recvBufLen = s.recvBufLen ∧
    (setCtx s c).preferNew = s.preferNew ∧ (setCtx s c).opened = s.opened ∧ (setCtx s c).closed = s.closed := by
  unfold setCtx; split <;> exact ⟨rfl, rfl, rfl, rfl, rfl⟩

theorem put_abs {s : State} (hi : Inv s) (hci : CidInv s) (ha : AInv s) {c : Option Nat} {cx : Ctx}
    (hg : getCtx s c = some cx) (c' : Ctx) (hcid : c'.cid = cx.cid) (cl : Bool) :
    putCtx (JA s cl) (absC c') = JA (setCtx s c') cl := by
  obtain ⟨l1, l2, hsplit, hgood, hupd⟩ := upd_ctx hi hci ha hg
  obtain ⟨f1, f2, f3, _, _⟩ := setCtx_JA_fields s c'
  have h1 : JA s cl = { JS [] (s.nctx + 1) s.recvBufLen s.preferNew cl with
      ctxs := l1.map absC ++ absC cx :: l2.map absC } := by simp [JA, JS, hsplit]
  have h2 : JA (setCtx s c') cl = { JS [] (s.nctx + 1) s.recvBufLen s.preferNew cl with
      ctxs := l1.map absC ++ absC c' :: l2.map absC } := by simp [JA, JS, hupd c' hcid, f1, f2, f3]
  rw [h1, h2]
  exact put_unique _ _ hgood (by simp [absC, hcid])

theorem setCtx_self_JA {s : State} (hi : Inv s) (hci : CidInv s) (ha : AInv s) {c : Option Nat} {cx : Ctx}
    (hg : getCtx s c = some cx) (cl : Bool) : JA (setCtx s cx) cl = JA s cl := by
  obtain ⟨l1, l2, hsplit, _, hupd⟩ := upd_ctx hi hci ha hg
  obtain ⟨f1, f2, f3, _, _⟩ := setCtx_JA_fields s cx
  simp [JA, JS, hupd cx rfl, hsplit, f1, f2, f3]

theorem stail2_recv (c : Option Nat) (a : Nat) (mode : Mode) (outs : List Out) (cs : List JCtx) (nx dc : Nat) (dp : Bool)
    (h : mode = .nb ∨ mode = .ms 0 → cs.any (fun c => c.waiting.contains a) = false) :
    stail2 (.recv c a mode) outs (JS cs nx dc dp false) = JS cs nx dc dp false := by
  unfold stail2
  cases mode with
  | nb => have := h (Or.inl rfl); simp only [JS, this]; rfl
  | ms n =>
    cases n with
    | zero => have := h (Or.inr rfl); simp only [JS, this]; rfl
    | succ n => rfl
  | inf => rfl
  | dflt => rfl

theorem Good.park {pre rest : List JCtx} {x : JCtx} (h : Good (pre ++ x :: rest)) {a : Nat}
    (ha : a ∉ (pre ++ x :: rest).flatMap (·.waiting)) (y : JCtx) (hk : y.key = x.key)
    (hw : y.waiting = x.waiting ++ [a]) : Good (pre ++ y :: rest) := by
  refine ⟨by have := h.keys; simpa [hk] using this, ?_⟩
  have hnd := h.aios
  simp only [List.flatMap_append, List.flatMap_cons, List.mem_append, not_or] at ha hnd ⊢
  rw [hw]
  rw [List.nodup_append] at hnd ⊢
  obtain ⟨h1, h2, h3⟩ := hnd
  rw [List.nodup_append] at h2
  obtain ⟨h21, h22, h23⟩ := h2
  refine ⟨h1, ?_, ?_⟩
  · rw [List.nodup_append]
    refine ⟨?_, h22, ?_⟩
    · rw [List.nodup_append]
      refine ⟨h21, by simp, ?_⟩
      intro z hz b hb
      simp only [List.mem_singleton] at hb; subst hb
      exact fun e => ha.2.1 (e ▸ hz)
    · intro z hz b hb
      simp only [List.mem_append, List.mem_singleton] at hz
      rcases hz with hz | rfl
      · exact h23 z hz b hb
      · exact fun e => ha.2.2 (e ▸ hb)
  · intro z hz b hb
    simp only [List.mem_append, List.mem_singleton] at hb
    rcases hb with (hb | rfl) | hb
    · exact h3 z hz b (List.mem_append.2 (Or.inl hb))
    · exact fun e => ha.1 (e ▸ hz)
    · exact h3 z hz b (List.mem_append.2 (Or.inr hb))

theorem recvCtx_out (c : Ctx) (a : Nat) (mode : Mode) (now : Nat) :
    (recvCtx c a mode now).2 = [] ∨ ∃ rv msg, (recvCtx c a mode now).2 = [Out.done a rv msg false] := by
  unfold recvCtx
  split
  · split
    · exact Or.inr ⟨_, _, rfl⟩
    · exact Or.inr ⟨_, _, rfl⟩
    · exact Or.inl rfl
    · exact Or.inl rfl
  · exact Or.inr ⟨_, _, rfl⟩

theorem good_all {s : State} (hi : Inv s) (hci : CidInv s) (ha : AInv s) : Good ((allCtx s).map absC) := by
  refine ⟨?_, ?_⟩
  · have := allCtx_cids_nodup hi hci
    simpa [absC, List.map_map, Function.comp_def] using this
  · have := ha.aios
    unfold allAios at this
    have hfun : aiosOf = (fun a : Ctx => List.map (fun x => x.aio) a.rq) := rfl
    simpa [absC, hfun, List.flatMap_map] using this

theorem mapList_outs (f : Ctx → Ctx × List Out) : ∀ cs : List Ctx, (mapList f cs).2 = cs.flatMap (fun c => (f c).2)
  | [] => rfl
  | c :: cs => by simp [mapList, mapList_outs f cs]

theorem mapAll_outs (s : State) (f : Ctx → Ctx × List Out) : (mapAll s f).2 = (allCtx s).flatMap (fun c => (f c).2) := by
  simp [mapAll, allCtx, mapList_outs]

theorem mapAll_allCtx (s : State) (f : Ctx → Ctx × List Out) :
    allCtx (mapAll s f).1 = (allCtx s).map (fun c => (f c).1) := by
  simp [allCtx, mapAll, mapList_eq_map]

/-- the whole `mapAll` of a per-context failure action, as seen by the judge -/
theorem fold_mapAll {s : State} (hi : Inv s) (hci : CidInv s) (ha : AInv s) (ev : Ev) (f : Ctx → Ctx × List Out)
    (hcid : ∀ c, (f c).1.cid = c.cid) (hsub : ∀ c, (aiosOf (f c).1).Sublist (aiosOf c))
    (hstep : ∀ (j : SubJ) (pre rest : List JCtx) (c : Ctx), j.err = none → Good (pre ++ absC c :: rest) → True →
        ((f c).2).foldl (subDone ev) { j with ctxs := pre ++ absC c :: rest } = { j with ctxs := pre ++ absC (f c).1 :: rest })
    (j : SubJ) (he : j.err = none) :
    (mapAll s f).2.foldl (subDone ev) { j with ctxs := (allCtx s).map absC } =
      { j with ctxs := (allCtx (mapAll s f).1).map absC } := by
  rw [mapAll_outs, mapAll_allCtx, List.map_map]
  have := fold_ctxs ev absC (fun c => absC (f c).1) (fun c => (f c).2) (fun _ => True)
    (fun c => by simp [absC, hcid]) (fun c => hsub c) hstep j he (allCtx s) []
    (by simpa using good_all hi hci ha) (fun _ _ => trivial)
  simpa [Function.comp_def] using this

theorem failCtx_step (ev : Ev) (a rv : Nat) (hrv : rv ≠ 0) (hal : ∀ x : JCtx, failureAllowed ev x a = true)
    (j : SubJ) (pre rest : List JCtx) (c : Ctx) (he : j.err = none) (hg : Good (pre ++ absC c :: rest)) (_ : True) :
    ((failCtx a rv c).2).foldl (subDone ev) { j with ctxs := pre ++ absC c :: rest } =
      { j with ctxs := pre ++ absC (failCtx a rv c).1 :: rest } := by
  unfold failCtx
  by_cases hany : (c.rq.any (·.aio == a)) = true
  · rw [if_pos hany]
    have hmem : a ∈ (absC c).waiting := by
      simp only [List.any_eq_true, beq_iff_eq] at hany
      obtain ⟨x, hx, rfl⟩ := hany
      exact List.mem_map.2 ⟨x, hx, rfl⟩
    simp only [List.foldl_cons, List.foldl_nil]
    rw [subDone_fail ev j he hg hmem rfl hrv (hal _)]
    have : (absC c).waiting.filter (· != a) = (c.rq.filter (·.aio != a)).map (·.aio) := by
      simp only [absC, List.filter_map]; rfl
    simp only [this]; rfl
  · rw [if_neg hany]; rfl

theorem expire_waiting (now : Nat) : ∀ (l : List Parked), (l.map (·.aio)).Nodup →
    (l.map (·.aio)).filter (fun z => !((l.filter (isDue now)).map (·.aio)).contains z) =
      (l.filter (fun pk => !isDue now pk)).map (·.aio) := by
  intro l hnd
  rw [List.filter_map]
  congr 1
  apply List.filter_congr
  intro x hx
  simp only [Function.comp]
  by_cases hd : isDue now x = true
  · have : x.aio ∈ (l.filter (isDue now)).map (·.aio) := List.mem_map.2 ⟨x, List.mem_filter.2 ⟨hx, hd⟩, rfl⟩
    simp [hd, this]
  · have : x.aio ∉ (l.filter (isDue now)).map (·.aio) := by
      intro hm
      obtain ⟨y, hy, hya⟩ := List.mem_map.1 hm
      have hy' := List.mem_filter.1 hy
      have : y = x := by
        have key : ∀ (l : List Parked), (l.map (·.aio)).Nodup → ∀ x ∈ l, ∀ y ∈ l, y.aio = x.aio → y = x := by
          intro l
          induction l with
          | nil => intro _ x hx; cases hx
          | cons z l ih =>
            intro hnd x hx y hy he
            simp only [List.map_cons, List.nodup_cons] at hnd
            simp only [List.mem_cons] at hx hy
            rcases hx with rfl | hx <;> rcases hy with rfl | hy
            · rfl
            · exact absurd (List.mem_map.2 ⟨y, hy, he⟩) hnd.1
            · exact absurd (List.mem_map.2 ⟨x, hx, he.symm⟩) hnd.1
            · exact ih hnd.2 x hx y hy he
        exact key l hnd x hx y hy'.1 hya
      rw [this] at hy'
      exact hd hy'.2
    simp [hd, this]

theorem expireCtx_step (ev : Ev) (now : Nat) (hal : ∀ (x : JCtx) (a : Nat), failureAllowed ev x a = true)
    (j : SubJ) (pre rest : List JCtx) (c : Ctx) (he : j.err = none) (hg : Good (pre ++ absC c :: rest)) (_ : True) :
    ((expireCtx now c).2).foldl (subDone ev) { j with ctxs := pre ++ absC c :: rest } =
      { j with ctxs := pre ++ absC (expireCtx now c).1 :: rest } := by
  have hnd : (c.rq.map (·.aio)).Nodup := hg.xnodup
  have houts : (expireCtx now c).2 = ((c.rq.filter (isDue now)).map (·.aio)).map (fun a => Out.done a Err.etimedout none false) := by
    simp [expireCtx, List.map_map, Function.comp_def]
  rw [houts, subDone_fail_list ev j he (by decide) _ (absC c) hg
    (hnd.sublist (List.Sublist.map _ List.filter_sublist))
    (fun a ha => by
      obtain ⟨x, hx, rfl⟩ := List.mem_map.1 ha
      exact List.mem_map.2 ⟨x, (List.mem_filter.1 hx).1, rfl⟩) rfl (fun a _ => hal _ a)]
  have := expire_waiting now c.rq hnd
  simp only [absC, this, expireCtx]

theorem closeCtx_step (ev : Ev) (hal : ∀ (a : Nat), failureAllowed ev (absC c) a = true)
    (j : SubJ) (pre rest : List JCtx) (he : j.err = none) (hg : Good (pre ++ absC c :: rest)) :
    ((closeCtx c).2).foldl (subDone ev) { j with ctxs := pre ++ absC c :: rest } =
      { j with ctxs := pre ++ absC (closeCtx c).1 :: rest } := by
  have hnd : (c.rq.map (·.aio)).Nodup := hg.xnodup
  have houts : (closeCtx c).2 = (c.rq.map (·.aio)).map (fun a => Out.done a Err.eclosed none false) := by
    simp [closeCtx, List.map_map, Function.comp_def]
  rw [houts, subDone_fail_list ev j he (by decide) _ (absC c) hg hnd (fun a ha => ha) rfl (fun a _ => hal a)]
  have : (absC c).waiting.filter (fun z => !(c.rq.map (·.aio)).contains z) = [] := by
    rw [List.filter_eq_nil_iff]; intro z hz; simpa [absC] using hz
  simp only [this]
  simp [absC, closeCtx]

theorem fold_quiet (ev : Ev) : ∀ (l : List Out) (j : SubJ), (∀ o ∈ l, ∀ a rv m mb, o ≠ Out.done a rv m mb) →
    l.foldl (subDone ev) j = j
  | [], _, _ => rfl
  | o :: l, j, h => by
    have h1 : subDone ev j o = j := by
      cases o with
      | done a rv m mb => exact absurd rfl (h _ (by simp) a rv m mb)
      | _ => rfl
    rw [List.foldl_cons, h1]
    exact fold_quiet ev l j (fun o ho => h o (by simp [ho]))

def AllDone (l : List Out) : Prop := ∀ o ∈ l, ∃ a rv m mb, o = Out.done a rv m mb

theorem allDone_flags {l : List Out} (h : AllDone l) : notExecuted l = false ∧ hasBlocked l = false ∧ rvOf l = none := by
  refine ⟨?_, ?_, ?_⟩
  · simp only [notExecuted, List.any_eq_false]; intro o ho; obtain ⟨a, rv, m, mb, rfl⟩ := h o ho; simp
  · simp only [hasBlocked, List.any_eq_false]; intro o ho; obtain ⟨a, rv, m, mb, rfl⟩ := h o ho; simp
  · simp only [rvOf, List.findSome?_eq_none_iff]; intro o ho; obtain ⟨a, rv, m, mb, rfl⟩ := h o ho; rfl

theorem allDone_mapAll (s : State) (f : Ctx → Ctx × List Out) (hf : ∀ c, AllDone (f c).2) : AllDone (mapAll s f).2 := by
  rw [mapAll_outs]
  intro o ho
  obtain ⟨c, _, hc⟩ := List.mem_flatMap.1 ho
  exact hf c o hc

theorem failCtx_allDone (a rv : Nat) (c : Ctx) : AllDone (failCtx a rv c).2 := by
  unfold failCtx; split
  · intro o ho; simp at ho; exact ⟨_, _, _, _, ho⟩
  · intro o ho; cases ho

theorem expireCtx_allDone (now : Nat) (c : Ctx) : AllDone (expireCtx now c).2 := by
  intro o ho
  simp only [expireCtx, List.mem_map] at ho
  obtain ⟨pk, _, rfl⟩ := ho
  exact ⟨_, _, _, _, rfl⟩

theorem closeCtx_allDone (c : Ctx) : AllDone (closeCtx c).2 := by
  intro o ho
  simp only [closeCtx, List.mem_map] at ho
  obtain ⟨pk, _, rfl⟩ := ho
  exact ⟨_, _, _, _, rfl⟩

theorem failCtx_aios (a rv : Nat) (c : Ctx) : (aiosOf (failCtx a rv c).1).Sublist (aiosOf c) := by
  unfold failCtx aiosOf; split
  · exact List.Sublist.map _ List.filter_sublist
  · exact List.Sublist.refl _

theorem closePipes_spec_aux : ∀ (l : List Pipe) (acc : State × List Out) (s0 : State),
    (∃ ps, acc.1 = { s0 with pipes := ps }) → (∀ o ∈ acc.2, ∃ p, o = Out.pclosed p) →
    (∃ ps, (l.foldl (fun (acc : State × List Out) pp =>
      let x := closePipe acc.1 pp.id
      (x.1, acc.2 ++ x.2)) acc).1 = { s0 with pipes := ps }) ∧
    (∀ o ∈ (l.foldl (fun (acc : State × List Out) pp =>
      let x := closePipe acc.1 pp.id
      (x.1, acc.2 ++ x.2)) acc).2, ∃ p, o = Out.pclosed p)
  | [], _, _, h1, h2 => ⟨h1, h2⟩
  | pp :: l, acc, s0, h1, h2 => by
    simp only [List.foldl_cons]
    apply closePipes_spec_aux l _ s0
    · obtain ⟨ps, h⟩ := h1
      obtain ⟨ps', h'⟩ := closePipe_same acc.1 pp.id
      exact ⟨ps', by rw [h', h]⟩
    · intro o ho
      simp only [List.mem_append] at ho
      rcases ho with ho | ho
      · exact h2 o ho
      · rcases closePipe_outs acc.1 pp.id with h | h <;> rw [h] at ho
        · cases ho
        · simp at ho; exact ⟨_, ho⟩

theorem closePipes_spec (s : State) : (∃ ps, (closePipes s).1 = { s with pipes := ps }) ∧
    (∀ o ∈ (closePipes s).2, ∃ p, o = Out.pclosed p) :=
  closePipes_spec_aux s.pipes (s, []) s ⟨s.pipes, rfl⟩ (by intro o ho; cases ho)

theorem find_map_replace' {α : Type} (p : α → Bool) (k : α → Bool) (x' : α) (hp : p x' = true) :
    ∀ (l : List α) (x : α), l.find? p = some x → k x = true →
      (l.map (fun y => if k y then x' else y)).find? p = some x'
  | [], _, h, _ => by simp at h
  | y :: l, x, h, hk => by
    rw [List.map_cons]
    by_cases hy : p y = true
    · simp only [List.find?_cons, hy, Option.some.injEq] at h
      subst h
      rw [if_pos hk]
      simp only [List.find?_cons, hp]
    · have hy' : p y = false := by simpa using hy
      simp only [List.find?_cons, hy'] at h
      by_cases hky : k y = true
      · rw [if_pos hky]
        simp only [List.find?_cons, hp]
      · rw [if_neg hky]
        simp only [List.find?_cons, hy']
        exact find_map_replace' p k x' hp l x h hk

theorem arriveJ_kw (b : Bytes) (x : JCtx) : (arriveJ b x).key = x.key ∧ (arriveJ b x).waiting = x.waiting := by
  unfold arriveJ
  split
  · exact ⟨rfl, rfl⟩
  · split
    · exact ⟨rfl, rfl⟩
    · split
      · exact ⟨rfl, rfl⟩
      · split <;> exact ⟨rfl, rfl⟩

theorem arrive_step (ev : Ev) (gm : GMsg) {arr : List GMsg}
    (j : SubJ) (pre rest : List JCtx) (c : Ctx) (he : j.err = none)
    (hg : Good (pre ++ arriveJ gm.body (absC c) :: rest)) (hc : CtxInv arr c) :
    ((arriveCtx gm c).2.1).foldl (subDone ev) { j with ctxs := pre ++ arriveJ gm.body (absC c) :: rest } =
      { j with ctxs := pre ++ absC (arriveCtx gm c).1 :: rest } := by
  have hm : prefixMatch c.topics gm.body = subMatches c.topics gm.body :=
    (subMatches_eq_prefixMatch c.topics gm.body).symm
  have hm' : prefixMatch (absC c).topics gm.body = subMatches c.topics gm.body := hm
  cases hrq : c.rq with
  | cons a rq' =>
    have hq : c.q = [] := hc.wait (by simp [hrq])
    rw [arriveCtx_waiter gm c a rq' hq hc.cap hrq]
    by_cases hmm : subMatches c.topics gm.body = true
    · have hview : arriveJ gm.body (absC c) = { absC c with owed := some gm.body } := by
        simp [arriveJ, hm, hmm, absC, hrq]
      rw [hview] at hg ⊢
      simp only [hmm, if_true, List.foldl_cons, List.foldl_nil]
      rw [subDone_deliver ev j he hg (a := a.aio) (w := rq'.map (·.aio)) (b := gm.body) (by simp [absC, hrq]) rfl]
      simp [absC]
    · have hview : arriveJ gm.body (absC c) = absC c := by simp [arriveJ, hm', hmm]
      rw [hview]
      simp [hmm]
  | nil =>
    by_cases hroom : c.q.length < c.cap
    · rw [arriveCtx_room gm c hroom hrq]
      by_cases hmm : subMatches c.topics gm.body = true
      · have hview : arriveJ gm.body (absC c) = { absC c with queue := (absC c).queue ++ [gm.body] } := by
          simp [arriveJ, hm, hmm, absC, hrq, hroom]
        rw [hview]
        simp [hmm, absC]
      · have hview : arriveJ gm.body (absC c) = absC c := by simp [arriveJ, hm', hmm]
        rw [hview]
        simp [hmm]
    · have hfull : c.q.length = c.cap := by have := hc.len; omega
      cases hq : c.q with
      | nil => have := hc.cap; rw [hq] at hfull; simp at hfull; omega
      | cons old t =>
        rw [arriveCtx_full gm c old t hq hfull hrq]
        have hnr : ¬ (t.length + 1 < c.cap) := by rw [hq] at hroom; simpa using hroom
        by_cases hmm : subMatches c.topics gm.body = true
        · by_cases hpn : c.preferNew = true
          · have hview : arriveJ gm.body (absC c) = { absC c with queue := (absC c).queue.drop 1 ++ [gm.body] } := by
              simp [arriveJ, hm, hmm, absC, hrq, hq, hnr, hpn]
            rw [hview]
            simp [hmm, hpn, absC, hq]
          · have hview : arriveJ gm.body (absC c) = absC c := by
              simp [arriveJ, hm, hmm, absC, hrq, hq, hnr, hpn]
            rw [hview]
            simp [hmm, hpn]
        · have hview : arriveJ gm.body (absC c) = absC c := by simp [arriveJ, hm', hmm]
          rw [hview]
          simp [hmm]

theorem arriveList_outs (gm : GMsg) : ∀ cs : List Ctx, (arriveList gm cs).2 = cs.flatMap (fun c => (arriveCtx gm c).2.1)
  | [] => rfl
  | c :: cs => by simp [arriveList, arriveList_outs gm cs]

theorem sim_open {s : State} (ev : Ev) (hnz : ∀ a, ev ≠ .abort a 0) (hi : Inv s) (hci : CidInv s) (ha : AInv s)
    (ho : s.opened = true) (hc : s.closed = false) :
    subStep (absJ s) ev (stepOpen s ev).2 = absJ (stepOpen s ev).1 := by
  have hskip : ∀ (t : String), t.startsWith "done" = false →
      subStep (absJ s) ev [.other t] = absJ s := by
    intro t ht
    exact subStep_skip _ _ _ (absJ_err s) (by simp [notExecuted, ht])
  cases ev with
  | openSock _ _ => exact hskip _ (by simp)
  | pipeAdd peer =>
    simp only [stepOpen]
    unfold opPipeAdd
    split
    · exact sim_quiet s _ _ _ ho hc (by simp [notExecuted]) (by simp [hasBlocked])
        (by simp [subMid, subEv, subDone]) (by simp [stail2]) hi rfl ho hc
    · exact sim_quiet s _ _ _ ho hc (by simp [notExecuted]) (by simp [hasBlocked])
        (by simp [subMid, subEv, subDone]) (by simp [stail2]) hi rfl ho hc
  | pipeDrop p =>
    simp only [stepOpen]
    unfold opPipeDrop
    have hsame : subStep (absJ s) (.pipeDrop p) [.rv (-1)] = absJ s :=
      sim_quiet s s _ _ ho hc (by simp [notExecuted]) (by simp [hasBlocked])
        (by simp [subMid, subEv, subDone]) (by simp [stail2]) hi rfl ho hc
    split
    · split
      · exact hsame
      · obtain ⟨ps, h⟩ := closePipe_same s p
        show subStep _ _ ([Out.rv 0] ++ (closePipe s p).2) = absJ (closePipe s p).1
        rcases closePipe_outs s p with h' | h' <;> rw [h'] <;>
        exact sim_quiet s _ _ _ ho hc (by simp [notExecuted]) (by simp [hasBlocked])
          (by simp [subMid, subEv, subDone]) (by simp [stail2]) hi (closePipe_JA s p false)
          (by rw [h]; exact ho) (by rw [h]; exact hc)
    · exact hsame
  | sendDone p rv =>
    exact sim_quiet s s _ _ ho hc (by simp [notExecuted, stepOpen]) (by simp [hasBlocked, stepOpen])
      (by simp [subMid, subEv, subDone, stepOpen]) (by simp [stail2]) hi rfl ho hc
  | poll =>
    refine sim_quiet s s _ _ ho hc (by simp [notExecuted, stepOpen]) (by simp [hasBlocked, stepOpen])
      (by simp [subMid, subEv, subDone, stepOpen]) ?_ hi rfl ho hc
    simp only [stail2, stepOpen, findCtx_abs hi ha, getCtx, Option.map_some]
    have := hi.rd ho
    simp [absC, this]
  | send c a m mode =>
    simp only [stepOpen]
    unfold opSend
    by_cases hp : anyParked s a = true
    · rw [if_pos hp]; exact hskip _ (by simp)
    · rw [if_neg hp]
      have hnf := nf_of_free (s := s) (a := a) (fun h => hp ((anyParked_iff s a).2 h))
      cases getCtx s c <;> simp only [] <;>
      exact sim_quiet s s _ _ ho hc (by simp [notExecuted]) (by simp [hasBlocked])
        (by simp only [subMid, subEv, List.foldl_cons, List.foldl_nil, subDone, JA, JS, hnf]
            simp [Err.enotsup, Err.eclosed]) (by simp [stail2]) hi rfl ho hc
  | getopt c name ty =>
    simp only [stepOpen]
    unfold opGetopt
    have hf := findCtx_abs hi ha false c
    by_cases h1 : (name == optRecvBuf && ty == "int") = true
    · rw [if_pos h1]
      simp only [Bool.and_eq_true] at h1
      have hn1 : (name == Nng.Generated.c05OptRecvBuf) = true := h1.1
      have hty : ty = "int" := by simpa using h1.2
      cases hg : getCtx s c with
      | none =>
        rw [hg] at hf
        exact sim_quiet s s _ _ ho hc (by simp [notExecuted]) (by simp [hasBlocked])
          (by simp [subMid, subEv, subDone, hf, Err.eclosed]) (by simp [stail2]) hi rfl ho hc
      | some cx =>
        rw [hg] at hf
        exact sim_quiet s s _ _ ho hc (by simp [notExecuted]) (by simp [hasBlocked])
          (by simp [subMid, subEv, subDone, hf, hn1, hty, absC]) (by simp [stail2]) hi rfl ho hc
    · rw [if_neg h1]
      by_cases h2 : (name == optPrefNew && ty == "bool") = true
      · rw [if_pos h2]
        simp only [Bool.and_eq_true] at h2
        have hn2 : (name == Nng.Generated.c05OptPrefNew) = true := h2.1
        have hty : ty = "bool" := by simpa using h2.2
        cases hg : getCtx s c with
        | none =>
          rw [hg] at hf
          exact sim_quiet s s _ _ ho hc (by simp [notExecuted]) (by simp [hasBlocked])
            (by simp [subMid, subEv, subDone, hf, Err.eclosed]) (by simp [stail2]) hi rfl ho hc
        | some cx =>
          rw [hg] at hf
          refine sim_quiet s s _ _ ho hc (by simp [notExecuted]) (by simp [hasBlocked])
            ?_ (by simp [stail2]) hi rfl ho hc
          cases hpn : cx.preferNew <;> simp [subMid, subEv, subDone, hf, hn2, hty, absC, hpn]
      · rw [if_neg h2]; exact hskip _ (by simp)
  | ctxOpen k =>
    simp only [stepOpen]
    unfold opCtxOpen
    have hi' := opCtxOpen_inv k hi ho
    unfold opCtxOpen at hi'
    refine sim_finish' s _ _ _ false ho hc (by simp [notExecuted]) ?_ (by simp [stail2]) hi' ho hc (by simp [hasBlocked])
    have hmh : ¬ (s.master.handle = some k) := by rw [ha.mh]; simp
    simp only [subMid, subEv, rvOf, List.findSome?_cons, List.foldl_cons, List.foldl_nil, subDone, JA, JS, allCtx]
    simp [absC, hmh, List.map_map, Function.comp_def]
    intro x _
    by_cases hx : x.handle = some k <;> simp [hx]
  | sub c t =>
    simp only [stepOpen]
    have hi' := opSub_inv c t hi ho
    unfold opSub at hi' ⊢
    have hf := findCtx_abs hi ha false c
    cases hg : getCtx s c with
    | none =>
      rw [hg] at hf
      exact sim_quiet s s _ _ ho hc (by simp [notExecuted]) (by simp [hasBlocked])
        (by simp [subMid, subEv, subDone, hf, rvOf, Err.eclosed]) (by simp [stail2]) hi rfl ho hc
    | some cx =>
      rw [hg] at hf hi'
      simp only [] at hi' ⊢
      obtain ⟨_, _, _, f4, f5⟩ := setCtx_JA_fields s (subscribeCtx cx t)
      refine sim_finish' s _ _ _ false ho hc (by simp [notExecuted]) ?_ (by simp [stail2]) hi' (f4.trans ho) (f5.trans hc)
        (by simp [hasBlocked])
      by_cases ht : t ∈ cx.topics
      · rw [subscribeCtx_present cx t ht, setCtx_self_JA hi hci ha hg]
        simp [subMid, subEv, subDone, hf, rvOf, absC, ht]
      · rw [← put_abs hi hci ha hg _ (subscribeCtx_cid cx t), subscribeCtx_absent cx t ht]
        simp [subMid, subEv, subDone, hf, rvOf, absC, ht]
  | unsub c t =>
    simp only [stepOpen]
    have hi' := opUnsub_inv c t hi ho
    unfold opUnsub at hi' ⊢
    have hf := findCtx_abs hi ha false c
    cases hg : getCtx s c with
    | none =>
      rw [hg] at hf
      exact sim_quiet s s _ _ ho hc (by simp [notExecuted]) (by simp [hasBlocked])
        (by simp [subMid, subEv, subDone, hf, rvOf, Err.eclosed]) (by simp [stail2]) hi rfl ho hc
    | some cx =>
      rw [hg] at hf hi'
      simp only [] at hi' ⊢
      have hlen : cx.q.length ≤ cx.cap := by
        rcases getCtx_cases hg with rfl | h
        · exact (hi.master ho).len
        · exact (hi.ctxs cx h).1.len
      by_cases ht : t ∈ cx.topics
      · obtain ⟨cx', h0, h1, h2, _, h4, h5, _, h7, h8, h9⟩ := unsubscribeCtx_present cx t ht hlen
        rw [h0] at hi' ⊢
        simp only [] at hi' ⊢
        obtain ⟨_, _, _, f4, f5⟩ := setCtx_JA_fields s cx'
        have hfin : ∀ (s' : State), JA s' false = JA (setCtx s cx') false → Inv s' → s'.opened = true →
            s'.closed = false → subStep (absJ s) (Ev.unsub c t) [Out.rv 0] = absJ s' := by
          intro s' hs' hi'' ho' hc'
          refine sim_finish' s _ _ _ false ho hc (by simp [notExecuted]) ?_ (by simp [stail2]) hi'' ho' hc'
            (by simp [hasBlocked])
          rw [hs', ← put_abs hi hci ha hg _ h7]
          have hflt : List.filter (prefixMatch (cx.topics.erase t)) (List.map (fun x => x.body) cx.q) =
              List.map (fun x => x.body) (List.filter (fun m => subMatches (cx.topics.erase t) m.body) cx.q) := by
            rw [List.filter_map]
            congr 1
            apply List.filter_congr
            intro x _
            simp [Function.comp, subMatches_eq_prefixMatch]
          simp [subMid, subEv, subDone, hf, rvOf, absC, ht, h1, h2, h4, h5, h7, h8, h9, hflt]
        by_cases hcond : (cx.cid == 0 && cx'.q.isEmpty) = true
        · rw [if_pos hcond] at hi' ⊢
          exact hfin _ rfl hi' (f4.trans ho) (f5.trans hc)
        · rw [if_neg hcond] at hi' ⊢
          exact hfin _ rfl hi' (f4.trans ho) (f5.trans hc)
      · rw [unsubscribeCtx_absent cx t ht]
        simp only []
        exact sim_quiet s s _ _ ho hc (by simp [notExecuted]) (by simp [hasBlocked])
          (by simp [subMid, subEv, subDone, hf, rvOf, absC, ht, Err.enoent]) (by simp [stail2]) hi rfl ho hc
  | setopt c name ty v =>
    simp only [stepOpen]
    have hi' := opSetopt_inv c name ty v hi ho
    unfold opSetopt at hi' ⊢
    have hf := findCtx_abs hi ha false c
    by_cases h1 : (name == optRecvBuf && ty == "int") = true
    · rw [if_pos h1] at hi' ⊢
      have h1' : (name == Nng.Generated.c05OptRecvBuf && ty == "int") = true := h1
      cases hg : getCtx s c with
      | none =>
        rw [hg] at hf
        exact sim_quiet s s _ _ ho hc (by simp [notExecuted]) (by simp [hasBlocked])
          (by simp [subMid, subEv, subDone, hf]) (by simp [stail2]) hi rfl ho hc
      | some cx =>
        rw [hg] at hf hi'
        simp only [] at hi' ⊢
        by_cases hr : (decide (v < recvBufMin) || decide (v > recvBufMax)) = true
        · rw [if_pos hr]
          exact sim_quiet s s _ _ ho hc (by simp [notExecuted]) (by simp [hasBlocked])
            (by simp [subMid, subEv, subDone, hf, rvOf, Err.einval]) (by simp [stail2]) hi rfl ho hc
        · rw [if_neg hr] at hi' ⊢
          obtain ⟨_, _, _, f4, f5⟩ := setCtx_JA_fields s (resizeCtx cx v.toNat)
          have hput := put_abs hi hci ha hg (resizeCtx cx v.toNat) rfl false
          by_cases h0 : (cx.cid == 0) = true
          · rw [if_pos h0] at hi' ⊢
            refine sim_finish' s _ _ _ false ho hc (by simp [notExecuted]) ?_ (by simp [stail2]) hi' (f4.trans ho)
              (f5.trans hc) (by simp [hasBlocked])
            have hJ : JA { setCtx s (resizeCtx cx v.toNat) with recvBufLen := v.toNat } false =
                { JA (setCtx s (resizeCtx cx v.toNat)) false with defCap := v.toNat } := rfl
            rw [hJ, ← hput]
            have h0' : cx.cid = 0 := by simpa using h0
            simp [subMid, subEv, subDone, hf, rvOf, h1', absC, resizeCtx, h0', putCtx]
          · rw [if_neg h0] at hi' ⊢
            refine sim_finish' s _ _ _ false ho hc (by simp [notExecuted]) ?_ (by simp [stail2]) hi' (f4.trans ho)
              (f5.trans hc) (by simp [hasBlocked])
            rw [← hput]
            have h0' : ¬ cx.cid = 0 := by simpa using h0
            simp [subMid, subEv, subDone, hf, rvOf, h1', absC, resizeCtx, h0']
    · rw [if_neg h1] at hi' ⊢
      have h1' : (name == Nng.Generated.c05OptRecvBuf && ty == "int") = false := by
        have : (name == optRecvBuf && ty == "int") = false := by simpa using h1
        exact this
      by_cases h2 : (name == optPrefNew && ty == "bool") = true
      · rw [if_pos h2] at hi' ⊢
        have h2' : (name == Nng.Generated.c05OptPrefNew && ty == "bool") = true := h2
        cases hg : getCtx s c with
        | none =>
          rw [hg] at hf
          exact sim_quiet s s _ _ ho hc (by simp [notExecuted]) (by simp [hasBlocked])
            (by simp [subMid, subEv, subDone, hf]) (by simp [stail2]) hi rfl ho hc
        | some cx =>
          rw [hg] at hf hi'
          simp only [] at hi' ⊢
          obtain ⟨_, _, _, f4, f5⟩ := setCtx_JA_fields s (prefCtx cx (boolOfInt v))
          have hput := put_abs hi hci ha hg (prefCtx cx (boolOfInt v)) rfl false
          by_cases h0 : (cx.cid == 0) = true
          · rw [if_pos h0] at hi' ⊢
            refine sim_finish' s _ _ _ false ho hc (by simp [notExecuted]) ?_ (by simp [stail2]) hi' (f4.trans ho)
              (f5.trans hc) (by simp [hasBlocked])
            have hJ : JA { setCtx s (prefCtx cx (boolOfInt v)) with preferNew := boolOfInt v } false =
                { JA (setCtx s (prefCtx cx (boolOfInt v))) false with defPref := boolOfInt v } := rfl
            rw [hJ, ← hput]
            have h0' : cx.cid = 0 := by simpa using h0
            simp [subMid, subEv, subDone, hf, rvOf, h1', h2', absC, prefCtx, h0', putCtx, boolOfInt]
          · rw [if_neg h0] at hi' ⊢
            refine sim_finish' s _ _ _ false ho hc (by simp [notExecuted]) ?_ (by simp [stail2]) hi' (f4.trans ho)
              (f5.trans hc) (by simp [hasBlocked])
            rw [← hput]
            have h0' : ¬ cx.cid = 0 := by simpa using h0
            simp [subMid, subEv, subDone, hf, rvOf, h1', h2', absC, prefCtx, h0', boolOfInt]
      · rw [if_neg h2]; exact hskip _ (by simp)
  | recv c a mode =>
    simp only [stepOpen]
    have hi' := opRecv_inv c a mode hi ho
    unfold opRecv at hi' ⊢
    by_cases hp : anyParked s a = true
    · rw [if_pos hp]; exact hskip _ (by simp)
    · rw [if_neg hp] at hi' ⊢
      have hfree : a ∉ allAios s := fun h => hp ((anyParked_iff s a).2 h)
      have hnf := nf_of_free hfree
      have hf := findCtx_abs hi ha false c
      cases hg : getCtx s c with
      | none =>
        rw [hg] at hf
        simp only []
        have hany : ((allCtx s).map absC).any (fun c => c.waiting.contains a) = false := by
          rw [List.any_eq_false]; intro x hx
          have := List.find?_eq_none.1 hnf x hx
          simpa using this
        refine sim_quiet s s _ _ ho hc (by simp [notExecuted]) (by simp [hasBlocked]) ?_
          (stail2_recv _ _ _ _ _ _ _ _ (fun _ => hany)) hi rfl ho hc
        have e1 : subEv (JA s false) (.recv c a mode) [Out.done a Err.eclosed none false] = JA s false := by
          simp only [subEv, hf]; rfl
        have hnf' : (JA s false).ctxs.find? (fun c => c.waiting.contains a) = none := hnf
        have e2 : subDone (.recv c a mode) (JA s false) (.done a Err.eclosed none false) = JA s false := by
          unfold subDone
          simp only [hnf']
          simp [hf, Err.eclosed]
        simp only [subMid, e1, List.foldl_cons, List.foldl_nil, e2]
      | some cx =>
        rw [hg] at hf hi'
        simp only [] at hi' ⊢
        obtain ⟨l1, l2, hsplit, hgood, hupd⟩ := upd_ctx hi hci ha hg
        have hcx : CtxInv s.arrived cx := by
          rcases getCtx_cases hg with rfl | h
          · exact hi.master ho
          · exact (hi.ctxs cx h).1
        have hfree' : a ∉ (l1.map absC ++ absC cx :: l2.map absC).flatMap (·.waiting) := by
          intro hm
          apply hfree
          unfold allAios
          rw [hsplit]
          have hfun : aiosOf = (fun a : Ctx => List.map (fun x => x.aio) a.rq) := rfl
          simpa [absC, hfun, List.flatMap_map] using hm
        have hJ : JA s false = { JS [] (s.nctx + 1) s.recvBufLen s.preferNew false with
            ctxs := l1.map absC ++ absC cx :: l2.map absC } := by simp [JA, JS, hsplit]
        have hJ' : ∀ c' : Ctx, c'.cid = cx.cid → JA (setCtx s c') false =
            { JS [] (s.nctx + 1) s.recvBufLen s.preferNew false with ctxs := l1.map absC ++ absC c' :: l2.map absC } := by
          intro c' hcid
          obtain ⟨f1, f2, f3, _, _⟩ := setCtx_JA_fields s c'
          simp [JA, JS, hupd c' hcid, f1, f2, f3]
        obtain ⟨_, _, _, f4, f5⟩ := setCtx_JA_fields s (recvCtx cx a mode s.now).1
        -- what remains to be shown about the judge
        have hcore : subMid (JA s false) (.recv c a mode) (recvCtx cx a mode s.now).2 =
              JA (setCtx s (recvCtx cx a mode s.now).1) false ∧
            (mode = .nb ∨ mode = .ms 0 →
              (l1.map absC ++ absC (recvCtx cx a mode s.now).1 :: l2.map absC).any (fun c => c.waiting.contains a) = false) := by
          rw [hJ' _ (recvCtx_cid cx a mode s.now)]
          have hothers : ∀ y, y ∈ l1.map absC ∨ y ∈ l2.map absC → a ∉ y.waiting := by
            intro y hy hay
            apply hfree'
            simp only [List.flatMap_append, List.flatMap_cons, List.mem_append, List.mem_flatMap]
            rcases hy with hy | hy
            · exact Or.inl ⟨y, hy, hay⟩
            · exact Or.inr (Or.inr ⟨y, hy, hay⟩)
          have hacx : a ∉ (absC cx).waiting := by
            intro h
            apply hfree'
            simp only [List.flatMap_append, List.flatMap_cons, List.mem_append]
            exact Or.inr (Or.inl h)
          have hanyOf : ∀ Y : JCtx, a ∉ Y.waiting →
              (l1.map absC ++ Y :: l2.map absC).any (fun c => c.waiting.contains a) = false := by
            intro Y hY
            rw [List.any_eq_false]
            intro y hy
            simp only [List.mem_append, List.mem_cons] at hy
            rcases hy with hy | rfl | hy
            · simpa using hothers y (Or.inl hy)
            · simpa using hY
            · simpa using hothers y (Or.inr hy)
          have hfj : findCtx (JA s false) c = some (absC cx) := hf
          cases hq : cx.q with
          | cons m rest =>
            have hrq : cx.rq = [] := by
              cases hr : cx.rq with
              | nil => rfl
              | cons x xs => have := hcx.wait (by simp [hr]); rw [hq] at this; cases this
            rw [recvCtx_nonempty cx a mode s.now m rest hq]
            let X : JCtx := { absC cx with queue := rest.map (·.body), owed := some m.body, waiting := (absC cx).waiting ++ [a] }
            have e1 : subEv (JA s false) (.recv c a mode) [Out.done a 0 (some ⟨[], m.body⟩) false] = putCtx (JA s false) X := by
              simp only [subEv, hfj]
              simp [absC, hq, X]
            rw [hJ, put_unique _ X hgood rfl] at e1
            have hgX : Good (l1.map absC ++ X :: l2.map absC) := hgood.park hfree' X rfl rfl
            have e2 := subDone_deliver (.recv c a mode) (JS [] (s.nctx + 1) s.recvBufLen s.preferNew false) rfl hgX
              (a := a) (w := []) (b := m.body) (by simp [X, absC, hrq]) rfl
            refine ⟨?_, fun _ => hanyOf _ (by simp [absC, hrq])⟩
            simp only [subMid, List.foldl_cons, List.foldl_nil]
            rw [hJ, e1, e2]
            simp [X, absC, hrq]
          | nil =>
            have hpark : ∀ dl : Option Nat, recvCtx cx a mode s.now = ({ cx with rq := cx.rq ++ [⟨a, dl⟩] }, []) →
                subMid (JA s false) (.recv c a mode) (recvCtx cx a mode s.now).2 =
                  { JS [] (s.nctx + 1) s.recvBufLen s.preferNew false with
                    ctxs := l1.map absC ++ absC (recvCtx cx a mode s.now).1 :: l2.map absC } := by
              intro dl hr
              rw [hr]
              let X : JCtx := { absC cx with waiting := (absC cx).waiting ++ [a] }
              have e1 : subEv (JA s false) (.recv c a mode) [] = putCtx (JA s false) X := by
                simp only [subEv, hfj]
                simp [absC, hq, X]
              rw [hJ, put_unique _ X hgood rfl] at e1
              simp only [subMid, List.foldl_nil]
              rw [hJ, e1]
              simp [X, absC]
            have hfail : ∀ rv : Nat, rv ≠ 0 → recvCtx cx a mode s.now = (cx, [Out.done a rv none false]) →
                subMid (JA s false) (.recv c a mode) (recvCtx cx a mode s.now).2 =
                  { JS [] (s.nctx + 1) s.recvBufLen s.preferNew false with
                    ctxs := l1.map absC ++ absC (recvCtx cx a mode s.now).1 :: l2.map absC } := by
              intro rv hrv hr
              rw [hr]
              let X : JCtx := { absC cx with waiting := (absC cx).waiting ++ [a] }
              have e1 : subEv (JA s false) (.recv c a mode) [Out.done a rv none false] = putCtx (JA s false) X := by
                simp only [subEv, hfj]
                simp [absC, hq, X]
              rw [hJ, put_unique _ X hgood rfl] at e1
              have hgX : Good (l1.map absC ++ X :: l2.map absC) := hgood.park hfree' X rfl rfl
              have e2 := subDone_fail (.recv c a mode) (JS [] (s.nctx + 1) s.recvBufLen s.preferNew false) rfl hgX
                (a := a) (rv := rv) (by simp [X]) rfl hrv (by simp [failureAllowed])
              simp only [subMid, List.foldl_cons, List.foldl_nil]
              rw [hJ, e1, e2]
              have hflt : ((absC cx).waiting ++ [a]).filter (· != a) = (absC cx).waiting := by
                rw [List.filter_append]
                have : (absC cx).waiting.filter (· != a) = (absC cx).waiting := by
                  rw [List.filter_eq_self]; intro z hz
                  have : z ≠ a := fun e => hacx (e ▸ hz)
                  simp [this]
                simp [this]
              simp only [X, hflt]
            cases mode with
            | nb =>
              have hr := recvCtx_empty_nb cx a s.now hq
              exact ⟨hfail _ (by decide) hr, fun _ => by rw [hr]; exact hanyOf _ hacx⟩
            | ms n =>
              cases n with
              | zero =>
                have hr : recvCtx cx a (.ms 0) s.now = (cx, [Out.done a Err.etimedout none false]) := by
                  simp [recvCtx, hq]
                exact ⟨hfail _ (by decide) hr, fun _ => by rw [hr]; exact hanyOf _ hacx⟩
              | succ n =>
                have hr : recvCtx cx a (.ms (n + 1)) s.now = ({ cx with rq := cx.rq ++ [⟨a, some (s.now + (n + 1))⟩] }, []) := by
                  simp [recvCtx, hq]
                exact ⟨hpark _ hr, fun h => by rcases h with h | h <;> cases h⟩
            | inf =>
              have hr : recvCtx cx a .inf s.now = ({ cx with rq := cx.rq ++ [⟨a, none⟩] }, []) := by
                simp [recvCtx, hq]
              exact ⟨hpark _ hr, fun h => by rcases h with h | h <;> cases h⟩
            | dflt =>
              have hr : recvCtx cx a .dflt s.now = ({ cx with rq := cx.rq ++ [⟨a, none⟩] }, []) := by
                simp [recvCtx, hq]
              exact ⟨hpark _ hr, fun h => by rcases h with h | h <;> cases h⟩
        have hfin : ∀ (s' : State), JA s' false = JA (setCtx s (recvCtx cx a mode s.now).1) false → Inv s' → s'.opened = true →
            s'.closed = false → subStep (absJ s) (.recv c a mode) (recvCtx cx a mode s.now).2 = absJ s' := by
          intro s' hs' hi'' ho' hc'
          refine sim_finish' s _ _ _ false ho hc ?_ (by rw [hs']; exact hcore.1) ?_ hi'' ho' hc' ?_
          · rcases recvCtx_out cx a mode s.now with h | ⟨rv, msg, h⟩ <;> rw [h] <;> simp [notExecuted]
          · rw [hs', hJ' _ (recvCtx_cid cx a mode s.now)]
            exact stail2_recv _ _ _ _ _ _ _ _ hcore.2
          · rcases recvCtx_out cx a mode s.now with h | ⟨rv, msg, h⟩ <;> rw [h] <;> simp [hasBlocked]
        by_cases hcond : (cx.cid == 0 && !cx.q.isEmpty && (recvCtx cx a mode s.now).1.q.isEmpty) = true
        · rw [if_pos hcond] at hi' ⊢
          exact hfin _ rfl hi' (f4.trans ho) (f5.trans hc)
        · rw [if_neg hcond] at hi' ⊢
          exact hfin _ rfl hi' (f4.trans ho) (f5.trans hc)
  | cancel a =>
    have hi' := stepOpen_inv (.cancel a) hi ho
    simp only [stepOpen] at hi' ⊢
    have hfold := fold_mapAll hi hci ha (.cancel a) (failCtx a Err.ecanceled) (failCtx_cid a _) (failCtx_aios a _)
      (failCtx_step (.cancel a) a Err.ecanceled (by decide) (fun x => by simp [failureAllowed]))
      (JS [] (s.nctx + 1) s.recvBufLen s.preferNew false) rfl
    have hfl := allDone_flags (allDone_mapAll s _ (failCtx_allDone a Err.ecanceled))
    exact sim_finish' s _ _ _ false ho hc hfl.1 hfold (by simp [stail2]) hi' ho hc hfl.2.1
  | abort a rv =>
    have hi' := stepOpen_inv (.abort a rv) hi ho
    simp only [stepOpen] at hi' ⊢
    have hrv : rv ≠ 0 := fun h => hnz a (by rw [h])
    have hfold := fold_mapAll hi hci ha (.abort a rv) (failCtx a rv) (failCtx_cid a _) (failCtx_aios a _)
      (failCtx_step (.abort a rv) a rv hrv (fun x => by simp [failureAllowed]))
      (JS [] (s.nctx + 1) s.recvBufLen s.preferNew false) rfl
    have hfl := allDone_flags (allDone_mapAll s _ (failCtx_allDone a rv))
    exact sim_finish' s _ _ _ false ho hc hfl.1 hfold (by simp [stail2]) hi' ho hc hfl.2.1
  | advance ms =>
    have hi' := stepOpen_inv (.advance ms) hi ho
    simp only [stepOpen] at hi' ⊢
    have hi0 : Inv { s with now := s.now + ms } := Inv.of_eq hi rfl rfl rfl rfl rfl rfl rfl hi.rbl
    have hci0 : CidInv { s with now := s.now + ms } := ⟨hci.bound, hci.nodup⟩
    have ha0 : AInv { s with now := s.now + ms } := ainv_of_eq ha rfl rfl rfl rfl rfl
    have hfold := fold_mapAll hi0 hci0 ha0 (.advance ms) (expireCtx (s.now + ms)) (expireCtx_cid _)
      (fun c => List.Sublist.map _ List.filter_sublist)
      (expireCtx_step (.advance ms) (s.now + ms) (fun x a => by simp [failureAllowed]))
      (JS [] (s.nctx + 1) s.recvBufLen s.preferNew false) rfl
    have hfl := allDone_flags (allDone_mapAll { s with now := s.now + ms } _ (expireCtx_allDone (s.now + ms)))
    exact sim_finish' s _ _ _ false ho hc hfl.1 hfold (by simp [stail2]) hi' ho hc hfl.2.1
  | close =>
    have hi' := stepOpen_inv .close hi ho
    simp only [stepOpen] at hi' ⊢
    unfold closeAll at hi' ⊢
    obtain ⟨⟨ps, hps⟩, hpc⟩ := closePipes_spec (mapAll s closeCtx).1
    have hfold := fold_mapAll hi hci ha .close closeCtx closeCtx_cid (fun c => by simp [closeCtx, aiosOf])
      (fun j pre rest c he hg _ => closeCtx_step .close (fun a => by simp [failureAllowed]) j pre rest he hg)
      (JS [] (s.nctx + 1) s.recvBufLen s.preferNew false) rfl
    have hfl := allDone_flags (allDone_mapAll s _ closeCtx_allDone)
    have hq : ∀ o ∈ (closePipes (mapAll s closeCtx).1).2, ∀ a rv m mb, o ≠ Out.done a rv m mb := by
      intro o ho a rv m mb; obtain ⟨p, rfl⟩ := hpc o ho; simp
    have hJ : JA ({ (closePipes (mapAll s closeCtx).1).1 with closed := true }) true = JA (mapAll s closeCtx).1 true := by
      rw [hps]; rfl
    have hR : absJ ({ (closePipes (mapAll s closeCtx).1).1 with closed := true }) = JA (mapAll s closeCtx).1 true := by
      rw [absJ_open (by rw [hps]; exact ho)]; exact hJ
    simp only []
    rw [hR]
    refine sim_finish s _ _ ((allCtx (mapAll s closeCtx).1).map absC) _ _ _ _ true ho hc ?_ ?_ (abs_owed _) ?_ ?_ ?_
    · simp only [notExecuted, List.any_append, Bool.or_eq_false_iff]
      refine ⟨hfl.1, ?_⟩
      rw [List.any_eq_false]; intro o ho'; obtain ⟨p, rfl⟩ := hpc o ho'; simp
    · show List.foldl (subDone .close) (JA s false) _ = _
      rw [List.foldl_append, fold_quiet _ _ _ hq]
      exact hfold
    · have hall : ((allCtx (mapAll s closeCtx).1).map absC).any (fun c => !c.waiting.isEmpty) = false := by
        rw [List.any_eq_false]
        intro x hx
        obtain ⟨c, hc', rfl⟩ := List.mem_map.1 hx
        rw [mapAll_allCtx] at hc'
        obtain ⟨c0, _, rfl⟩ := List.mem_map.1 hc'
        simp [absC, closeCtx]
      simp only [stail2, JS, hall]
      rfl
    · have hi1 := mapAll_inv closeCtx (fun c hc => closeCtx_inv hc) closeCtx_cid (fun _ => rfl) hi
      exact abs_bound hi1 ho _ (fun _ h => h)
    · simp only [hasBlocked, List.any_append, Bool.or_eq_false_iff]
      refine ⟨hfl.2.1, ?_⟩
      rw [List.any_eq_false]; intro o ho'; obtain ⟨p, rfl⟩ := hpc o ho'; simp
  | ctxClose h =>
    have hi' := stepOpen_inv (.ctxClose h) hi ho
    simp only [stepOpen] at hi' ⊢
    unfold opCtxClose at hi' ⊢
    cases hg : getCtx s (some h) with
    | none =>
      simp only []
      exact sim_quiet s s _ _ ho hc (by simp [notExecuted]) (by simp [hasBlocked])
        (by simp [subMid, subEv, subDone]) (by simp [stail2, rvOf]) hi rfl ho hc
    | some cx =>
      rw [hg] at hi'
      simp only [] at hi' ⊢
      have hmem : cx ∈ s.ctxs := by simp only [getCtx] at hg; exact List.mem_of_find?_eq_some hg
      have hhandle : (cx.handle == some h) = true := by
        simp only [getCtx] at hg
        have := List.find?_some hg
        exact this
      have hne := (hi.ctxs cx hmem).2
      -- intermediate model state: the context's receivers failed, the context still listed
      have hcid1 : (closeCtx cx).1.cid ≠ 0 := hne
      have hi1 : Inv (setCtx s (closeCtx cx).1) := by
        rw [setCtx_other hcid1]; exact inv_setOther hi _ (closeCtx_inv (hi.ctxs cx hmem).1) hcid1
      have hci1 : CidInv (setCtx s (closeCtx cx).1) := Keeps.inv (setCtx_cids s _) hci
      have ha1 : AInv (setCtx s (closeCtx cx).1) :=
        ainv_setCtx ha hi hci ho (getCtx_mem hg) rfl rfl (by simp [closeCtx, aiosOf])
      obtain ⟨f1, f2, f3, f4, f5⟩ := setCtx_JA_fields s (closeCtx cx).1
      obtain ⟨l1, l2, hsplit, hgood, hupd⟩ := upd_ctx hi hci ha hg
      have hJ : JA s false = { JS [] (s.nctx + 1) s.recvBufLen s.preferNew false with
          ctxs := l1.map absC ++ absC cx :: l2.map absC } := by simp [JA, JS, hsplit]
      have hJ1 : JA (setCtx s (closeCtx cx).1) false = { JS [] (s.nctx + 1) s.recvBufLen s.preferNew false with
          ctxs := l1.map absC ++ absC (closeCtx cx).1 :: l2.map absC } := by
        simp [JA, JS, hupd (closeCtx cx).1 rfl, f1, f2, f3]
      have hJA1 : JA (setCtx s (closeCtx cx).1) false =
          JS ((allCtx (setCtx s (closeCtx cx).1)).map absC) (s.nctx + 1) s.recvBufLen s.preferNew false := by
        simp [JA, f1, f2, f3]
      have hstep := closeCtx_step (c := cx) (.ctxClose h) (fun a => by simp [failureAllowed, absC, hhandle])
        (JS [] (s.nctx + 1) s.recvBufLen s.preferNew false) (l1.map absC) (l2.map absC) rfl hgood
      have hfl := allDone_flags (closeCtx_allDone cx)
      have hrv : rvOf ((closeCtx cx).2 ++ [Out.rv 0]) = some 0 := by
        simp only [rvOf, List.findSome?_append]
        have := hfl.2.2
        simp only [rvOf] at this
        rw [this]; rfl
      -- the judge finds the context by its handle
      have hget1 : getCtx (setCtx s (closeCtx cx).1) (some h) = some (closeCtx cx).1 := by
        rw [setCtx_other hcid1]
        simp only [getCtx] at hg ⊢
        have := find_map_replace' (fun x : Ctx => x.handle == some h) (fun y => y.cid == (closeCtx cx).1.cid)
          (closeCtx cx).1 hhandle s.ctxs cx hg (by simp [closeCtx])
        exact this
      have hfind1 := findCtx_abs hi1 ha1 false (some h)
      rw [hget1] at hfind1
      -- the final list
      have hfinal : ((allCtx (setCtx s (closeCtx cx).1)).map absC).filter (fun x => x.key != (absC (closeCtx cx).1).key) =
          (allCtx { s with ctxs := s.ctxs.filter (·.cid != cx.cid), dead := s.dead ++ [{ (closeCtx cx).1 with dropped := (closeCtx cx).1.dropped ++ (closeCtx cx).1.q, q := [] }] }).map absC := by
        rw [setCtx_other hcid1]
        simp only [allCtx, List.map_cons, List.filter_cons]
        have hm : ((absC s.master).key != (absC (closeCtx cx).1).key) = true := by
          simp [absC, closeCtx, hi.mcid]; exact fun e => hne e.symm
        rw [hm]
        simp only [if_true, List.cons.injEq, true_and]
        rw [List.filter_map]
        congr 1
        have : ∀ L : List Ctx, (L.map fun x => if x.cid == (closeCtx cx).1.cid then (closeCtx cx).1 else x).filter
            ((fun x => x.key != (absC (closeCtx cx).1).key) ∘ absC) = L.filter (·.cid != cx.cid) := by
          intro L
          induction L with
          | nil => rfl
          | cons y L ih =>
            simp only [List.map_cons, List.filter_cons, ih, Function.comp]
            by_cases hy : y.cid = cx.cid
            · simp [hy, absC, closeCtx]
            · simp [hy, absC, closeCtx]
        exact this s.ctxs
      have hR : absJ ({ s with ctxs := s.ctxs.filter (·.cid != cx.cid), dead := s.dead ++ [{ (closeCtx cx).1 with dropped := (closeCtx cx).1.dropped ++ (closeCtx cx).1.q, q := [] }] }) =
          JS (((allCtx (setCtx s (closeCtx cx).1)).map absC).filter (fun x => x.key != (absC (closeCtx cx).1).key))
            (s.nctx + 1) s.recvBufLen s.preferNew false := by
        rw [absJ_open (by exact ho), hfinal]
        simp [JA, hc]
      rw [hR]
      refine sim_finish s _ _ ((allCtx (setCtx s (closeCtx cx).1)).map absC) _ _ _ _ false ho hc ?_ ?_ (abs_owed _) ?_ ?_ ?_
      · simp only [notExecuted, List.any_append, Bool.or_eq_false_iff]
        exact ⟨hfl.1, by simp⟩
      · rw [← hJA1]
        show List.foldl (subDone (.ctxClose h)) (JA s false) _ = JA (setCtx s (closeCtx cx).1) false
        rw [List.foldl_append, hJ, hstep, hJ1]
        rfl
      · rw [← hJA1]
        simp only [stail2, hrv, hfind1]
        simp [absC, closeCtx, JA, JS]
        exact ⟨(setCtx_JA_fields s _).1, (setCtx_JA_fields s _).2.1, (setCtx_JA_fields s _).2.2.1⟩
      · rw [hfinal]; exact abs_bound hi' ho _ (fun _ h => h)
      · simp only [hasBlocked, List.any_append, Bool.or_eq_false_iff]
        exact ⟨hfl.2.1, by simp⟩
  | recvDone p r =>
    have hi' := stepOpen_inv (.recvDone p r) hi ho
    simp only [stepOpen] at hi' ⊢
    unfold opRecvDone at hi' ⊢
    have hsame : subStep (absJ s) (.recvDone p r) [.rv (-1)] = absJ s := by
      refine sim_quiet s s _ _ ho hc (by simp [notExecuted]) (by simp [hasBlocked]) ?_ (by simp [stail2]) hi rfl ho hc
      cases r <;> simp [subMid, subEv, subDone, rvOf]
    cases hg : getPipe s p with
    | none => exact hsame
    | some pp =>
      rw [hg] at hi'
      simp only [] at hi' ⊢
      by_cases hcl : (pp.closed || !pp.armed) = true
      · rw [if_pos hcl]; exact hsame
      · rw [if_neg hcl] at hi' ⊢
        cases r with
        | error e =>
          simp only []
          obtain ⟨ps, h⟩ := closePipe_same s p
          show subStep _ _ ([Out.rv 0] ++ (closePipe s p).2) = absJ (closePipe s p).1
          rcases closePipe_outs s p with h' | h' <;> rw [h'] <;>
          exact sim_quiet s _ _ _ ho hc (by simp [notExecuted]) (by simp [hasBlocked])
            (by simp [subMid, subEv, subDone]) (by simp [stail2]) hi (closePipe_JA s p false)
            (by rw [h]; exact ho) (by rw [h]; exact hc)
        | ok b =>
          simp only [] at hi' ⊢
          have hall : allCtx (arrive s p b).1 = (allCtx s).map (fun c => (arriveCtx ⟨s.narrive, p, b⟩ c).1) := by
            simp [arrive, allCtx, arriveList_eq_map]
          have houts : (arrive s p b).2 = (allCtx s).flatMap (fun c => (arriveCtx ⟨s.narrive, p, b⟩ c).2.1) := by
            simp [arrive, allCtx, arriveList_outs]
          have hQ : ∀ c ∈ allCtx s, CtxInv s.arrived c := by
            intro c hc'
            simp only [allCtx, List.mem_cons] at hc'
            rcases hc' with rfl | hc'
            · exact hi.master ho
            · exact (hi.ctxs c hc').1
          have hgv : Good ((allCtx s).map (fun c => arriveJ b (absC c))) := by
            have hga := good_all hi hci ha
            refine ⟨?_, ?_⟩
            · have : ((allCtx s).map (fun c => arriveJ b (absC c))).map (·.key) = ((allCtx s).map absC).map (·.key) := by
                rw [List.map_map, List.map_map]; apply List.map_congr_left; intro c _; exact (arriveJ_kw b _).1
              rw [this]; exact hga.keys
            · have : ((allCtx s).map (fun c => arriveJ b (absC c))).flatMap (·.waiting) = ((allCtx s).map absC).flatMap (·.waiting) := by
                rw [List.flatMap_map, List.flatMap_map]
                congr 1; funext c; exact (arriveJ_kw b _).2
              rw [this]; exact hga.aios
          have hfold := fold_ctxs (.recvDone p (.ok b)) (fun c => arriveJ b (absC c))
            (fun c => absC (arriveCtx ⟨s.narrive, p, b⟩ c).1) (fun c => (arriveCtx ⟨s.narrive, p, b⟩ c).2.1)
            (CtxInv s.arrived)
            (fun c => by rw [(arriveJ_kw b _).1]; simp [absC, arriveCtx_cid])
            (fun c => by rw [(arriveJ_kw b _).2]; exact (arriveCtx_hr _ c).2)
            (fun j pre rest c he hg hc' => arrive_step _ ⟨s.narrive, p, b⟩ j pre rest c he hg hc')
            (JS [] (s.nctx + 1) s.recvBufLen s.preferNew false) rfl (allCtx s) []
            (by simpa using hgv) hQ
          have hdone : AllDone (arrive s p b).2 := by
            rw [houts]
            intro o ho'
            obtain ⟨c, _, hc'⟩ := List.mem_flatMap.1 ho'
            obtain ⟨a, rfl⟩ := arriveCtx_out _ c o hc'
            exact ⟨_, _, _, _, rfl⟩
          have hfl := allDone_flags hdone
          have hop : (arrive s p b).1.opened = true := ho
          have hcl' : (arrive s p b).1.closed = false := hc
          refine sim_finish' s (arrive s p b).1 _ _ false ho hc ?_ ?_ (by simp [stail2]) hi' hop hcl' ?_
          · simp only [notExecuted, List.any_append, Bool.or_eq_false_iff] at hfl ⊢
            exact ⟨⟨by simp, hfl.1⟩, by simp⟩
          · have hev : subEv (JA s false) (.recvDone p (.ok b)) ([Out.rv 0] ++ (arrive s p b).2 ++ [Out.parm p]) =
                { JS [] (s.nctx + 1) s.recvBufLen s.preferNew false with
                  ctxs := [] ++ (allCtx s).map (fun c => arriveJ b (absC c)) } := by
              simp [subEv, rvOf, JA, JS, List.map_map, Function.comp_def]
            simp only [subMid, hev, List.foldl_append, List.foldl_cons, List.foldl_nil]
            have h1 : ∀ j : SubJ, subDone (.recvDone p (.ok b)) j (Out.rv 0) = j := fun _ => rfl
            have h2 : ∀ j : SubJ, subDone (.recvDone p (.ok b)) j (Out.parm p) = j := fun _ => rfl
            rw [h1, houts, hfold, h2]
            have hJfin : JA (arrive s p b).1 false =
                JS ((allCtx (arrive s p b).1).map absC) (s.nctx + 1) s.recvBufLen s.preferNew false := rfl
            rw [hJfin, hall]
            simp [JS, List.map_map, Function.comp_def]
          · simp only [hasBlocked, List.any_append, Bool.or_eq_false_iff] at hfl ⊢
            exact ⟨⟨by simp, hfl.2.1⟩, by simp⟩

theorem sim_step {s : State} (ev : Ev) (hnz : ∀ a, ev ≠ .abort a 0) (hi : Inv s) (hci : CidInv s) (ha : AInv s) :
    subStep (absJ s) ev (step s ev).2 = absJ (step s ev).1 := by
  unfold step
  by_cases ho : s.opened = true
  · have h1 : ¬ ((!s.opened) = true) := by simp [ho]
    rw [if_neg h1]
    by_cases hc : s.closed = true
    · rw [if_pos hc]
      have hj : absJ s = JA s true := by rw [absJ_open ho, hc]
      have hnosock : subStep (absJ s) ev [.other "nosock"] = absJ s :=
        subStep_skip _ _ _ (absJ_err s) (by simp [notExecuted])
      cases ev with
      | advance ms =>
        simp only []
        rw [hj, subStep_closed _ _ _ rfl rfl rfl]
        simp [absJ, ho, hc, JA, JS, allCtx]
      | _ => exact hnosock
    · rw [if_neg hc]; exact sim_open ev hnz hi hci ha ho (by simpa using hc)
  · have ho' : s.opened = false := by simpa using ho
    have h1 : (!s.opened) = true := by simp [ho']
    rw [if_pos h1]
    have hj : absJ s = {} := by simp [absJ, ho']
    have hu := ha.unopened ho'
    have hnosock : subStep (absJ s) ev [.other "nosock"] = absJ s :=
      subStep_skip _ _ _ (absJ_err s) (by simp [notExecuted])
    cases ev with
    | openSock _ _ =>
      simp only []
      rw [hj]
      simp [subStep, notExecuted, absJ, openState, hu.1, hu.2.1, hu.2.2, allCtx, absC]
    | advance ms =>
      simp only []
      rw [hj]
      simp [subStep, notExecuted, absJ, ho']
    | _ => exact hnosock

/-- no `abort aio 0` (API misuse: aborting with the "success" code) among the events -/
def NoAbort0 (evs : List Ev) : Prop := ∀ e ∈ evs, ∀ a, e ≠ Ev.abort a 0

/-- the judge's state after the model's trace is `absJ` of the model's state -/
theorem judge_from : ∀ (evs : List Ev) (s : State), NoAbort0 evs → Inv s → CidInv s → AInv s →
    (traceOf s evs).foldl (fun j x => subStep j x.1 x.2) (absJ s) =
      absJ (evs.foldl (fun s e => (step s e).1) s)
  | [], _, _, _, _, _ => rfl
  | e :: es, s, hn, hi, hci, ha => by
    simp only [traceOf, List.foldl_cons]
    rw [sim_step e (hn e (by simp)) hi hci ha]
    exact judge_from es _ (fun e' he' => hn e' (by simp [he'])) (step_inv e hi) (step_cid e hci) (step_ainv e ha hi hci)

/-- JUDGE (SUB): for every event sequence without `abort aio 0` the trace produced by the
    model is accepted by the executable C05 trace predicate `subJudge` -/
theorem sub_judge_ok (evs : List Ev) (hn : NoAbort0 evs) : subJudge (traceOf {} evs) = none := by
  unfold subJudge
  have := judge_from evs {} hn inv_init ⟨(by intro k hk; cases hk), List.nodup_nil⟩ ainv_init
  have h0 : absJ ({} : State) = {} := rfl
  rw [h0] at this
  rw [this]
  exact absJ_err _

end Nng.Sub
