/-
  One iteration of req0_run_send_queue (`sendOne`) against the judge's `onPsend`; the whole queue
  (`runQ`) against the judge's fold over the transmissions of a step.
-/
import NngModel.Proofs.ReqJudgeFrame
namespace Nng.ReqJ
open Nng Nng.Proto Nng.Req Nng.ReqSpec

/-- the wire index `sendOne` gives to handle `h` -/
def idxFor (s : State) (h : Nat) : Nat :=
  match s.alias.idxOf? h with
  | some n => n
  | none => s.alias.length

def aliasFor (s : State) (h : Nat) : List Nat :=
  match s.alias.idxOf? h with
  | some _ => s.alias
  | none => s.alias ++ [h]

/-- the state after one iteration of the send queue -/
def txSt (s : State) (k p h : Nat) : State :=
  { s with
    sendQueue := s.sendQueue.erase k
    retryQueue := if (s.ctx k).retry > 0 then s.retryQueue.erase k ++ [k] else s.retryQueue
    pipe := upd (eraseCtxs s.pipe k) p { s.pipe p with ctxs := (s.pipe p).ctxs.erase k ++ [k], busy := some h }
    readyPipes := s.readyPipes.erase p
    busyPipes := s.busyPipes ++ [p]
    writable := if (s.readyPipes.erase p).isEmpty then false else s.writable
    msgs := upd s.msgs h { s.msgs h with tranRefs := (s.msgs h).tranRefs + 1 }
    alias := aliasFor s h
    ctx := upd s.ctx k { s.ctx k with sendAio := none, wired := true, wireCount := (s.ctx k).wireCount + 1 }
    wire := s.wire ++ [(p, h, (s.msgs h).body)] }

theorem sendPrep_eq (s : State) (k p : Nat) (r : Int) :
    sendPrep s k p r = { s with
      sendQueue := s.sendQueue.erase k
      retryQueue := if r > 0 then s.retryQueue.erase k ++ [k] else s.retryQueue
      pipe := upd (eraseCtxs s.pipe k) p { s.pipe p with ctxs := (s.pipe p).ctxs.erase k ++ [k] }
      readyPipes := s.readyPipes.erase p
      busyPipes := s.busyPipes ++ [p]
      writable := if (s.readyPipes.erase p).isEmpty then false else s.writable } := by
  unfold sendPrep setPipe eraseCtxs unlist
  dsimp only
  split <;> split <;> simp

theorem sendOne_eq {s : State} (k p h : Nat) (hm : (s.ctx k).reqMsg = some h) (hr : (s.msgs h).ctxRef = true)
    (hid : (s.ctx k).requestId = h) :
    (sendOne s k p).1 = txSt s k p h ∧
    (sendOne s k p).2 = (match (s.ctx k).sendAio with | some ua => [Out.done ua.aio 0 none false] | none => []) ++
      [Out.psend p ⟨wireHdr (idxFor s h), (s.msgs h).body⟩] := by
  unfold sendOne txSt
  simp only [hm, hid, sendPrep_eq, tranClone, MsgObj.alive, setMsg, hr, Bool.true_or, if_true]
  unfold wireIndex idxFor aliasFor setPipe setCtx
  dsimp only
  cases hi : s.alias.idxOf? h with
  | some n =>
    dsimp only
    refine ⟨?_, ?_⟩
    · simp [upd_upd]
    · cases (s.ctx k).sendAio <;> simp
  | none =>
    dsimp only
    refine ⟨?_, ?_⟩
    · simp [upd_upd]
    · cases (s.ctx k).sendAio <;> simp

theorem psF_append (a b : List Out) (j : J) : psF (a ++ b) j = psF b (psF a j) := by
  unfold psF; rw [List.foldl_append]

theorem aliasFor_mem (s : State) (h x : Nat) : x ∈ aliasFor s h ↔ x ∈ s.alias ∨ x = h := by
  unfold aliasFor
  cases hi : s.alias.idxOf? h with
  | none => simp
  | some n =>
    have := List.mem_of_getElem? (getElem_idxOf hi)
    constructor
    · exact Or.inl
    · rintro (a | a)
      · exact a
      · rw [a]; exact this

theorem aliasFor_idx (s : State) (h : Nat) : (aliasFor s h).idxOf? h = some (idxFor s h) := by
  unfold aliasFor idxFor
  cases hi : s.alias.idxOf? h with
  | none =>
    simp only [List.idxOf?] at hi ⊢
    rw [List.findIdx?_append, hi]
    simp
  | some n => exact hi

theorem aliasFor_stable (s : State) (h x n : Nat) (hx : s.alias.idxOf? x = some n) : (aliasFor s h).idxOf? x = some n := by
  unfold aliasFor
  cases hi : s.alias.idxOf? h with
  | none => exact idxOf_append_stable hx
  | some _ => exact hx

theorem aliasFor_get (s : State) (h n x : Nat) :
    (aliasFor s h)[n]? = some x ↔ s.alias[n]? = some x ∨ (s.alias.idxOf? h = none ∧ n = s.alias.length ∧ x = h) := by
  unfold aliasFor
  cases hi : s.alias.idxOf? h with
  | some _ => simp
  | none =>
    simp only [true_and]
    by_cases hn : n < s.alias.length
    · rw [List.getElem?_append_left hn]
      constructor
      · exact Or.inl
      · rintro (a | ⟨a, _⟩)
        · exact a
        · omega
    · rw [List.getElem?_append_right (by omega)]
      have e0 : s.alias[n]? = none := by simp; omega
      rw [e0]
      by_cases hn2 : n = s.alias.length
      · subst hn2; simp [eq_comm]
      · have : n - s.alias.length ≠ 0 := by omega
        cases hc : n - s.alias.length with
        | zero => omega
        | succ c => simp; omega

theorem txSt_body (s : State) (k p h x : Nat) : ((txSt s k p h).msgs x).body = (s.msgs x).body := by
  simp only [txSt, upd]; split
  · rename_i e; rw [e]
  · rfl

theorem txSt_ctx_other (s : State) (k p h x : Nat) (hx : x ≠ k) : (txSt s k p h).ctx x = s.ctx x := by
  simp [txSt, upd, hx]

theorem txSt_ctx_same (s : State) (k p h : Nat) :
    (txSt s k p h).ctx k = { s.ctx k with sendAio := none, wired := true, wireCount := (s.ctx k).wireCount + 1 } := by
  simp [txSt, upd]

theorem txSt_pipe_mem (s : State) (k p h x q : Nat) (hx : x ≠ k) :
    x ∈ ((txSt s k p h).pipe q).ctxs ↔ x ∈ (s.pipe q).ctxs := by
  simp only [txSt, upd, eraseCtxs]
  split
  · rename_i e; subst e
    simp [hx, List.mem_erase_of_ne hx]
  · simp [List.mem_erase_of_ne hx]

theorem txSt_pipe_self (s : State) (k p h : Nat) : k ∈ ((txSt s k p h).pipe p).ctxs := by
  simp [txSt, upd]

theorem txSt_closed (s : State) (k p h q : Nat) : ((txSt s k p h).pipe q).closed = (s.pipe q).closed := by
  simp only [txSt, upd, eraseCtxs]
  split
  · rename_i e; subst e; rfl
  · rfl

theorem txSt_liveH (s : State) (k p h x : Nat) (hm : (s.ctx k).reqMsg = some h) (hl : LiveH (txSt s k p h) x) : LiveH s x := by
  rcases hl with hl | ⟨k', hl⟩
  · rcases (aliasFor_mem s h x).1 hl with a | a
    · exact Or.inl a
    · exact Or.inr ⟨k, by rw [a]; exact hm⟩
  · by_cases e : k' = k
    · subst e; rw [txSt_ctx_same] at hl; exact Or.inr ⟨k', hl⟩
    · rw [txSt_ctx_other _ _ _ _ _ e] at hl; exact Or.inr ⟨k', hl⟩

theorem sendOne_MI {y x : Option Nat} {rest : List Ev} {s : State} (k p h : Nat) (hI : Inv2 y x s) (hm : MI rest s)
    (hq : (s.ctx k).reqMsg = some h) : MI rest (txSt s k p h) := by
  have hid := hI.req_id k h hq
  constructor
  · intro k' hk'
    by_cases e : k' = k
    · subst e; rw [txSt_ctx_same]; exact hm.biglive k' hk'
    · rw [txSt_ctx_other _ _ _ _ _ e]; exact hm.biglive k' hk'
  · intro k' hk'
    by_cases e : k' = k
    · subst e; rw [txSt_ctx_same] at hk' ⊢
      have := (hm.dead k' hk').2.2.1
      rw [hq] at this; cases this
    · rw [txSt_ctx_other _ _ _ _ _ e] at hk' ⊢; exact hm.dead k' hk'
  · have sub : ∀ k' b a, aioOf (txSt s k p h) k' b = some a → aioOf s k' b = some a := by
      intro k' b a ha
      by_cases e : k' = k
      · subst e
        unfold aioOf at ha ⊢
        rw [txSt_ctx_same] at ha
        cases b <;> simp at ha ⊢
        exact ha
      · unfold aioOf at ha ⊢
        rw [txSt_ctx_other _ _ _ _ _ e] at ha
        exact ha
    intro k1 b1 k2 b2 a h1 h2
    exact hm.park k1 b1 k2 b2 a (sub _ _ _ h1) (sub _ _ _ h2)
  · intro k' hk'
    by_cases e : k' = k
    · subst e; rw [txSt_ctx_same] at hk'
      have := (hm.creset k' hk').1
      rw [hq] at this; cases this
    · rw [txSt_ctx_other _ _ _ _ _ e] at hk' ⊢; exact hm.creset k' hk'
  · intro k' hk'
    by_cases e : k' = k
    · subst e; rw [txSt_ctx_same] at hk'
      have := (hm.rep k' hk').1
      rw [hq] at this; cases this
    · rw [txSt_ctx_other _ _ _ _ _ e] at hk' ⊢; exact hm.rep k' hk'
  · intro k' q hk'
    by_cases e : k' = k
    · subst e; rw [txSt_ctx_same]; simp [hq]
    · rw [txSt_ctx_other _ _ _ _ _ e]; exact hm.onp k' q ((txSt_pipe_mem s k p h k' q e).1 hk')
  · intro k' h' hr hw
    by_cases e : k' = k
    · subst e; rw [txSt_ctx_same] at hr ⊢
      have : h' = h := by rw [hq] at hr; cases hr; rfl
      subst this
      refine ⟨rfl, (aliasFor_mem s h' h').2 (Or.inr rfl), ?_⟩
      simp
    · rw [txSt_ctx_other _ _ _ _ _ e] at hr hw ⊢
      obtain ⟨a, b, c⟩ := hm.wir k' h' hr hw
      exact ⟨a, (aliasFor_mem s h h').2 (Or.inl b), c⟩
  · intro k' h' hr hw
    by_cases e : k' = k
    · subst e; rw [txSt_ctx_same] at hw; cases hw
    · rw [txSt_ctx_other _ _ _ _ _ e] at hr hw ⊢
      obtain ⟨a, b, c⟩ := hm.unw k' h' hr hw
      exact ⟨a, (List.mem_erase_of_ne e).2 b, c⟩
  · intro k' hs
    by_cases e : k' = k
    · subst e; rw [txSt_ctx_same] at hs; cases hs
    · rw [txSt_ctx_other _ _ _ _ _ e] at hs ⊢; exact hm.sa k' hs
  · intro k' hs
    by_cases e : k' = k
    · subst e; rw [txSt_ctx_same] at hs ⊢; exact hm.rid k' hs
    · rw [txSt_ctx_other _ _ _ _ _ e] at hs ⊢; exact hm.rid k' hs
  · show (aliasFor s h).Nodup
    unfold aliasFor
    cases hi : s.alias.idxOf? h with
    | some _ => exact hm.al_nodup
    | none =>
      refine List.nodup_append.2 ⟨hm.al_nodup, by simp, ?_⟩
      intro a ha b hb
      simp only [List.mem_singleton] at hb
      subst hb
      intro e; subst e
      exact idxOf_none hi ha
  · intro h' hh
    rcases (aliasFor_mem s h h').1 hh with a | a
    · exact hm.al_le h' a
    · subst a; exact ⟨hid.2.1, hid.2.2⟩
  · intro h' hl
    rw [txSt_body]; exact hm.fresh h' (txSt_liveH s k p h h' hq hl)
  · intro h1 h2 l1 l2
    rw [txSt_body, txSt_body]
    exact hm.inj h1 h2 (txSt_liveH s k p h h1 hq l1) (txSt_liveH s k p h h2 hq l2)
  · exact hm.bound
  · exact hm.open_
  · exact hm.notgone
  · exact hm.notclosed

/-- the judge's state after it has seen the transmission -/
def txJ (j : J) (k p : Nat) (r : RJ) (m : WMsg) : J :=
  { j with idle := j.idle.filter (· != p), busy := j.busy ++ [p], seen := seenAdd j.seen m,
           ctx := fun x => if x = k then { j.ctx k with req := some (txR r p m.hdr j.now) } else j.ctx x }

theorem seen_hs {rest : List Ev} {s : State} {j : J} (hm : MI rest s) (hg : G s j) {k h : Nat}
    (hq : (s.ctx k).reqMsg = some h) (id b : Bytes) (hin : (id, b) ∈ j.seen) (hb : b = (s.msgs h).body) :
    id = wireHdr (idxFor s h) ∧ s.alias.idxOf? h ≠ none := by
  obtain ⟨n, h', a, b', c⟩ := (hg.seen id b).1 hin
  have : h' = h := hm.inj h' h (Or.inl (List.mem_of_getElem? a)) (Or.inr ⟨k, hq⟩) (by rw [← c, hb])
  subst this
  have hi := idxOf_getElem hm.al_nodup a
  refine ⟨?_, by rw [hi]; simp⟩
  rw [b']; unfold idxFor; rw [hi]

theorem sendOne_G {y x : Option Nat} {rest : List Ev} {s : State} {j : J} (k p h : Nat) (r : RJ)
    (hI : Inv2 y x s) (hm : MI rest s) (hg : G s j) (hq : (s.ctx k).reqMsg = some h) (hp : p ∈ s.readyPipes) :
    G (txSt s k p h) (txJ j k p r ⟨wireHdr (idxFor s h), (s.msgs h).body⟩) := by
  have hrp : p < s.npipes ∧ (s.pipe p).closed = false ∧ (s.pipe p).busy = none := hI.ready_ok p hp
  have hnd : s.readyPipes.Nodup := hI.ready_nodup
  constructor
  · exact hg.now
  · intro q
    show q ∈ j.idle.filter (· != p) ↔ q ∈ s.readyPipes.erase p
    rw [hnd.mem_erase_iff, List.mem_filter, hg.idle q]
    simp [and_comm]
  · intro q
    show q ∈ j.busy ++ [p] ↔ _
    rw [List.mem_append, hg.busy q, txSt_closed]
    by_cases e : q = p
    · subst e
      simp [txSt, upd, hrp.1, hrp.2.1]
    · simp [txSt, upd, e, eraseCtxs]
  · exact hg.sock
  · exact hg.closed
  · intro id b
    show (id, b) ∈ seenAdd j.seen _ ↔ _
    rw [mem_seenAdd _ _ (fun id b hin hb => (seen_hs hm hg hq id b hin hb).1)]
    rw [hg.seen id b]
    constructor
    · rintro (⟨n, h', a, b', c⟩ | a)
      · exact ⟨n, h', (aliasFor_get s h n h').2 (Or.inl a), b', by rw [txSt_body]; exact c⟩
      · simp only [Prod.mk.injEq] at a
        refine ⟨idxFor s h, h, getElem_idxOf (aliasFor_idx s h), a.1, by rw [txSt_body]; exact a.2⟩
    · rintro ⟨n, h', a, b', c⟩
      rw [txSt_body] at c
      rcases (aliasFor_get s h n h').1 a with a | ⟨a1, a2, a3⟩
      · exact Or.inl ⟨n, h', a, b', c⟩
      · right
        subst a3
        simp only [Prod.mk.injEq]
        refine ⟨?_, c⟩
        rw [b', a2]; unfold idxFor; rw [a1]
  · exact hg.tick
  · exact hg.tkle
  · exact hg.tknv
  · intro hn
    have := (hg.nosend hn).1 k
    rw [hq] at this; cases this
  · exact hg.stab

theorem txSt_frame {s : State} {j j' : J} (k p h x : Nat) {cj : CJ} (hx : x ≠ k)
    (hjs : j'.tickStable = j.tickStable) (hjt : j'.tick = j.tick) (h0 : RCx s j x cj) : RCx (txSt s k p h) j' x cj :=
  h0.frame (txSt_ctx_other s k p h x hx) (fun _ _ => txSt_body s k p h _)
    (fun h' n _ hi => aliasFor_stable s h h' n hi) (Nat.le_refl _) (fun q => txSt_pipe_mem s k p h x q hx)
    (fun q _ hc => by rw [txSt_closed]; exact hc)
    (by show x ∈ s.sendQueue.erase k ↔ _; rw [List.mem_erase_of_ne hx]) (Nat.le_refl _) (Or.inl rfl) hjs hjt

theorem sendOne_M {y x : Option Nat} {pend : List Nat} {rest : List Ev} {s : State} {j : J} (k p : Nat)
    (hI : Inv2 y x s) (hM : M pend rest s j) (hk : k ∈ s.sendQueue) (hp : p ∈ s.readyPipes) (hkp : k ∉ pend) :
    M pend rest (sendOne s k p).1 (psF (sendOne s k p).2 j) ∧
    (psF (sendOne s k p).2 j).err04 = j.err04 ∧ (psF (sendOne s k p).2 j).err12 = j.err12 := by
  obtain ⟨h, hq⟩ := Option.isSome_iff_exists.1 (hI.sq_req k hk)
  have hq : (s.ctx k).reqMsg = some h := hq
  have hid : (s.ctx k).requestId = h ∧ h ≠ 0 ∧ h ≤ s.nalloc := hI.req_id k h hq
  have hheld : (s.msgs h).ctxRef = true := hI.held k h hq
  obtain ⟨e1, e2⟩ := sendOne_eq k p h hq hheld hid.1
  rw [e1, e2, psF_append]
  have e3 : psF (match (s.ctx k).sendAio with | some ua => [Out.done ua.aio 0 none false] | none => []) j = j := by
    cases (s.ctx k).sendAio <;> rfl
  rw [e3]
  show M pend rest _ (onPsend j p _) ∧ (onPsend j p _).err04 = _ ∧ (onPsend j p _).err12 = _
  obtain ⟨r, hr, hrq⟩ := (hM.rc k hkp).req h hq
  have hrp : p < s.npipes ∧ (s.pipe p).closed = false ∧ (s.pipe p).busy = none := hI.ready_ok p hp
  have hsqn : s.sendQueue.Nodup := hI.sq_nodup
  have key := onPsend_eq j p ⟨wireHdr (idxFor s h), (s.msgs h).body⟩ k r ((hM.g.idle p).2 hp)
    (hM.mi.key (by rw [hq]; rfl)) hr hrq.body hrq.ans ?_ ?_ ?_ ?_ ?_
  · rw [key]
    refine ⟨?_, rfl, rfl⟩
    have hjs : (txJ j k p r ⟨wireHdr (idxFor s h), (s.msgs h).body⟩).tickStable = j.tickStable := rfl
    have hjt : (txJ j k p r ⟨wireHdr (idxFor s h), (s.msgs h).body⟩).tick = j.tick := rfl
    refine ⟨sendOne_MI k p h hI hM.mi hq, sendOne_G k p h r hI hM.mi hM.g hq hp, ?_, ?_⟩
    · intro k' hk'
      by_cases e : k' = k
      · subst e
        show RCx _ _ k' (if k' = k' then _ else _)
        rw [if_pos rfl]
        have h0 := hM.rc k' hkp
        constructor
        · rw [txSt_ctx_same]; exact h0.opened
        · rw [txSt_ctx_same]; exact h0.retry
        · rw [txSt_ctx_same]; exact h0.rw
        · rw [txSt_ctx_same]; exact h0.stash
        · rw [txSt_ctx_same]; exact h0.latched
        · rw [txSt_ctx_same]; intro a; rw [hq] at a; cases a
        · rw [txSt_ctx_same]; intro a
          have := (hM.mi.rep k' a).1
          rw [hq] at this; cases this
        · rw [txSt_ctx_same]
          intro h' hh'
          have : h' = h := by rw [hq] at hh'; cases hh'; rfl
          subst this
          refine ⟨_, rfl, ?_⟩
          constructor
          · exact hrq.ans
          · rw [txSt_body]; exact hrq.body
          · rw [txSt_ctx_same]; rfl
          · rw [txSt_ctx_same]; intro a; cases a
          · intro _; exact ⟨_, aliasFor_idx s h', rfl⟩
          · intro _; exact ⟨hrp.1, Or.inl (txSt_pipe_self s k' p h')⟩
          · rw [txSt_ctx_same]; show r.txCount + 1 = _; rw [hrq.cnt]
          · rw [txSt_ctx_same]; exact hrq.ever
          · rw [txSt_ctx_same]; exact hrq.dl
          · rw [txSt_ctx_same]; exact hrq.clean
          · intro a; cases a
          · intro a
            exact absurd a (hsqn.not_mem_erase)
          · rw [txSt_ctx_same]
            intro a b _ c d dd f
            show (r.txSince || _) = true ∨ _
            have f' : r.deadline = some dd := f
            rw [f']
            by_cases hdn : dd ≤ j.now
            · left; simp [hdn]
            · right; right
              have hras : (s.ctx k').retryAtSend = (s.ctx k').retry := hrq.clean c
              have hact : s.retryActive = true := hI.rq_active k' (Option.isSome_iff_exists.2 ⟨h', hq⟩) (show 0 < (s.ctx k').retryAtSend by rw [hras]; exact d)
              have htm : s.tickAt.isSome = true ∨ s.tickNever = true := hI.timer hM.mi.notclosed hact
              have hnv := hM.g.tknv a b
              rcases htm with htm | htm
              · obtain ⟨T, hT⟩ := Option.isSome_iff_exists.1 htm
                refine ⟨T, hT, ?_⟩
                have := hM.g.tkle a T hT
                have := hM.g.now
                show T ≤ dd + j.tick.toNat
                omega
              · rw [hnv] at htm; cases htm
      · show RCx _ _ k' (if k' = k then _ else _)
        rw [if_neg e]
        exact txSt_frame k p h k' e hjs hjt (hM.rc k' hk')
    · intro k' hk'
      have e : k' ≠ k := fun e => hkp (e ▸ hk')
      obtain ⟨cj0, a, b, c⟩ := hM.rl k' hk'
      refine ⟨cj0, txSt_frame k p h k' e hjs hjt a, ?_, c⟩
      show (if k' = k then _ else _) = _
      rw [if_neg e]; exact b
  · -- uniqueness of the body
    intro k' _ hpred
    unfold psendPred at hpred
    cases hr' : (j.ctx k').req with
    | none => simp [hr'] at hpred
    | some r' =>
      simp only [hr', Bool.and_eq_true, beq_iff_eq, Bool.not_eq_true'] at hpred
      obtain ⟨h', a, b⟩ := hM.held hr' hpred.2
      have : h' = h := hM.mi.inj h' h (Or.inr ⟨k', a⟩) (Or.inr ⟨k, hq⟩) (by rw [← b]; exact hpred.1)
      subst this
      exact hI.req_uniq k' k h' a hq
  · intro id b hin hb
    exact (seen_hs hM.mi hM.g hq id b hin hb).1
  · intro hno id b hin
    obtain ⟨n, h', a, b', c⟩ := (hM.g.seen id b).1 hin
    have hlt : n < s.alias.length := by
      have := List.getElem?_eq_some_iff.1 a
      exact this.1
    have hnone : s.alias.idxOf? h = none := by
      cases hi : s.alias.idxOf? h with
      | none => rfl
      | some n0 =>
        exfalso
        have hg := getElem_idxOf hi
        exact hno (wireHdr n0) (s.msgs h).body ((hM.g.seen _ _).2 ⟨n0, h, hg, rfl, rfl⟩) rfl
    show id ≠ wireHdr (idxFor s h)
    unfold idxFor; rw [hnone, b']
    intro e
    have := wireHdr_inj (by have := hM.mi.alias_len; omega) hM.mi.alias_len e
    omega
  · intro hc
    rcases hI.sq_cnt k hk with a | a
    · rw [hrq.ever]; exact a
    · have a : (s.ctx k).wireCount = 0 := a
      rw [hrq.cnt] at hc; omega
  · intro d hd hc _ hn
    have hw : (s.ctx k).wired = true := by
      cases hw : (s.ctx k).wired with
      | true => rfl
      | false =>
        have := (hM.mi.unw k h hq hw).2.2
        rw [hrq.cnt] at hc; omega
    rw [hM.g.now]
    exact hrq.early hk hw hn d hd

theorem runQ_M {y x : Option Nat} {pend : List Nat} {rest : List Ev} (fuel : Nat) {s : State} {j : J}
    (hI : Inv2 y x s) (hM : M pend rest s j) (hdis : s.readyPipes = [] ∨ ∀ k, k ∈ pend → k ∉ s.sendQueue) :
    M pend rest (runQ fuel s).1 (psF (runQ fuel s).2 j) ∧
    (psF (runQ fuel s).2 j).err04 = j.err04 ∧ (psF (runQ fuel s).2 j).err12 = j.err12 := by
  induction fuel generalizing s j with
  | zero => exact ⟨hM, rfl, rfl⟩
  | succ n ih =>
    unfold runQ
    split
    · rename_i k t p t' hs hp
      have hk : k ∈ s.sendQueue := by rw [hs]; simp
      have hpm : p ∈ s.readyPipes := by rw [hp]; simp
      have hkp : k ∉ pend := by
        rcases hdis with a | a
        · rw [a] at hp; cases hp
        · exact fun hk' => a k hk' hk
      obtain ⟨m1, a1, b1⟩ := sendOne_M k p hI hM hk hpm hkp
      have hI1 := inv2_sendOne k p hI hk hpm
      obtain ⟨h, hq⟩ := Option.isSome_iff_exists.1 (hI.sq_req k hk)
      have hq : (s.ctx k).reqMsg = some h := hq
      have e1 := (sendOne_eq k p h hq (hI.held k h hq) (hI.req_id k h hq).1).1
      have hdis1 : (sendOne s k p).1.readyPipes = [] ∨ ∀ k', k' ∈ pend → k' ∉ (sendOne s k p).1.sendQueue := by
        rw [e1]
        rcases hdis with a | a
        · rw [a] at hp; cases hp
        · right; intro k' hk' hin
          exact a k' hk' (List.mem_of_mem_erase hin)
      obtain ⟨m2, a2, b2⟩ := ih hI1 m1 hdis1
      dsimp only
      rw [psF_append]
      exact ⟨m2, by rw [a2, a1], by rw [b2, b1]⟩
    · exact ⟨hM, rfl, rfl⟩

theorem runSendQueue_M {y x : Option Nat} {pend : List Nat} {rest : List Ev} {s : State} {j : J}
    (hI : Inv2 y x s) (hM : M pend rest s j) (hdis : s.readyPipes = [] ∨ ∀ k, k ∈ pend → k ∉ s.sendQueue) :
    M pend rest (runSendQueue s).1 (psF (runSendQueue s).2 j) ∧
    (psF (runSendQueue s).2 j).err04 = j.err04 ∧ (psF (runSendQueue s).2 j).err12 = j.err12 :=
  runQ_M _ hI hM hdis

end Nng.ReqJ
