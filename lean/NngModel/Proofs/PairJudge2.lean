/-
  C08 judge simulation, part 2: frame lemmas for the relation, the judge's step cut into its
  pieces, failed completions (cancel / abort / expiry / close).
-/
import NngModel.Proofs.PairJudge
namespace Nng.Pair0
open Nng Nng.Proto Nng.PairSpec

/-- the part of the model state the relation looks at -/
def view (s : State) :=
  (s.raw, s.ttl, s.cur, s.wrReady, s.pipes.any (·.armed), s.waq, s.wmq, s.wmqCap, s.rmqCap,
   s.raq, s.rmq, s.held, s.closed)

theorem R_view {V : Variant} {v1 : Bool} {sS sR : List Bytes} {s s' : State} {j : PairJ}
    (hv : view s' = view s) (hR : R V v1 sS sR s j) : R V v1 sS sR s' j := by
  simp only [view, Prod.mk.injEq] at hv
  obtain ⟨e1, e2, e3, e4, e5, e6, e7, e8, e9, e10, e11, e12, e13⟩ := hv
  cases hR
  constructor
  all_goals first
    | assumption
    | (simp only [e1, e2, e3, e4, e5, e6, e7, e8, e9, e10, e11, e12, e13]; assumption)

theorem R_mono {V : Variant} {v1 : Bool} {sS sR sS' sR' : List Bytes} {s : State} {j : PairJ}
    (h1 : ∀ b ∈ sS, b ∈ sS') (h2 : ∀ b ∈ sR, b ∈ sR') (hR : R V v1 sS sR s j) : R V v1 sS' sR' s j := by
  exact { hR with subS := fun b hb => h1 b (hR.subS b hb), subR := fun e he => h2 _ (hR.subR e he) }

/-! ### the judge's step -/

theorem pairStep_eq {j : PairJ} {ev : Ev} {outs : List Out} (herr : j.err = none)
    (hne : notExecuted outs = false) :
    pairStepOld j ev outs =
      pairQuiescent (pairPost false j.lastPoll (pairPre false { j with lastPoll := none } ev outs).2 ev outs
        (pairMid false (pairPre false { j with lastPoll := none } ev outs).2 ev outs
          (pairPre false { j with lastPoll := none } ev outs).1)) := by
  unfold pairStepOld pairStepWithOld
  simp [herr, hne]

theorem pairStep_refused {j : PairJ} {ev : Ev} {outs : List Out} (hne : notExecuted outs = true) :
    pairStepOld j ev outs = j := by
  unfold pairStepOld pairStepWithOld; simp [hne]

def isPipeAdd : Ev → Bool | .pipeAdd _ => true | _ => false
def isPoll : Ev → Bool | .poll => true | _ => false

/-- outputs the judge's per-output function ignores -/
def neutral : Out → Bool
  | .rv _ => true | .rv2 _ _ => true | .pipe _ => true | .poll _ _ => true | _ => false

theorem fold_neutral (nb : Nb) (l : List Out) (h : ∀ o ∈ l, neutral o = true) (j : PairJ) :
    l.foldl (pairOut nb) j = j := by
  induction l generalizing j with
  | nil => rfl
  | cons o l ih =>
    have ho := h o (by simp)
    have : pairOut nb j o = j := by cases o <;> simp [neutral] at ho <;> rfl
    simp only [List.foldl_cons, this]
    exact ih (fun o' h' => h o' (by simp [h'])) j

theorem pairMid_eq {nb : Nb} {ev : Ev} {outs : List Out} {j : PairJ} (hr : j.racing = false)
    (hev : isPipeAdd ev = false) :
    pairMid false nb ev outs j =
      ((outs.filter (fun o => !isDone o)).filter (fun o => !onOld j.live o && !oldGone j.live o)).foldl (pairOut nb)
        (((outs.filter (fun o => !isDone o)).filter (oldGone j.live)).foldl (pairOut nb)
          (((outs.filter (fun o => !isDone o)).filter (onOld j.live)).foldl (pairOut nb)
            ((outs.filter isDone).foldl (pairOut nb) j))) := by
  unfold pairMid
  simp only [hr, Bool.or_false, Bool.false_and, Bool.false_eq_true, if_false]
  cases ev <;> first | rfl | (simp [isPipeAdd] at hev)

theorem pairMid_add {nb : Nb} {peer : Nat} {outs : List Out} {j : PairJ} (hr : j.racing = false) :
    pairMid false nb (.pipeAdd peer) outs j =
      ((outs.filter (fun o => !isDone o)).filter (fun o => !onOld j.live o && !oldGone j.live o)).foldl (pairOut nb)
        (connectClause false
          (((outs.filter (fun o => !isDone o)).filter (oldGone j.live)).foldl (pairOut nb)
            (((outs.filter (fun o => !isDone o)).filter (onOld j.live)).foldl (pairOut nb)
              ((outs.filter isDone).foldl (pairOut nb) j))) peer outs) := by
  unfold pairMid
  simp only [hr, Bool.or_false, Bool.false_and, Bool.false_eq_true, if_false]

theorem setRacing_eq {j : PairJ} (h : j.racing = false) : { j with racing := false } = j := by
  cases j; simp at h; subst h; rfl

theorem setLastPoll_eq {j : PairJ} (h : j.lastPoll = none) : { j with lastPoll := none } = j := by
  cases j; simp at h; subst h; rfl

def noBlocked (outs : List Out) : Prop := outs.any isBlocked = false

theorem recordPoll_other {ev : Ev} {outs : List Out} {j : PairJ} (hp : isPoll ev = false) :
    recordPoll ev outs j = j := by
  cases ev <;> first | (simp [isPoll] at hp; done) | rfl

theorem pairPost_none {polled : Option (Bool × Bool)} {ev : Ev} {outs : List Out} {j : PairJ}
    (hp : isPoll ev = false) (hb : noBlocked outs) (hr : j.racing = false) :
    pairPost false polled .none ev outs j = j := by
  unfold noBlocked at hb
  unfold pairPost
  simp only [hb, Bool.false_eq_true, if_false, nbClause]
  have : pollClause polled .none outs j = j := by cases polled <;> rfl
  rw [this, recordPoll_other hp]
  exact setRacing_eq hr

theorem pairPost_poll {polled : Option (Bool × Bool)} {r w : Bool} {j : PairJ} (hr : j.racing = false) :
    pairPost false polled .none .poll [.poll (some r) (some w)] j = { j with lastPoll := some (r, w) } := by
  unfold pairPost
  have : pollClause polled .none [.poll (some r) (some w)] j = j := by cases polled <;> rfl
  simp only [nbClause, List.any_cons, List.any_nil, isBlocked, Bool.or_self, Bool.false_eq_true, if_false, this,
    recordPoll, List.foldl_cons, List.foldl_nil]
  cases j; simp at hr; subst hr; rfl

theorem pairPost_send {polled : Option (Bool × Bool)} {ev : Ev} {outs : List Out} {j : PairJ} {a rv : Nat} {m : WMsg}
    (hp : isPoll ev = false) (hb : noBlocked outs) (hr : j.racing = false) (hd : doneOf outs a = some rv)
    (hpoll : ∀ r w, polled = some (r, w) → ¬ (w = true ∧ rv = Err.eagain) ∧ ¬ (w = false ∧ rv = 0)) :
    pairPost false polled (.send a m) ev outs j = j := by
  unfold noBlocked at hb
  unfold pairPost
  simp only [hb, hd, Bool.false_eq_true, if_false, Option.isSome_some, if_true, nbClause]
  have hpl : pollClause polled (.send a m) outs j = j := by
    cases polled with
    | none => rfl
    | some x =>
      obtain ⟨r, w⟩ := x
      obtain ⟨h1, h2⟩ := hpoll r w rfl
      simp only [pollClause, hd]
      rw [if_neg (by simpa using h1), if_neg (by simpa using h2)]
  rw [hpl, recordPoll_other hp]
  exact setRacing_eq hr

theorem pairPost_recv {polled : Option (Bool × Bool)} {ev : Ev} {outs : List Out} {j : PairJ} {a rv : Nat}
    (hp : isPoll ev = false) (hb : noBlocked outs) (hr : j.racing = false) (hd : doneOf outs a = some rv)
    (hpoll : ∀ r w, polled = some (r, w) → ¬ (r = true ∧ rv = Err.eagain) ∧ ¬ (r = false ∧ rv = 0)) :
    pairPost false polled (.recv a) ev outs j = j := by
  unfold noBlocked at hb
  unfold pairPost
  simp only [hb, hd, Bool.false_eq_true, if_false, Option.isSome_some, if_true, nbClause]
  have hpl : pollClause polled (.recv a) outs j = j := by
    cases polled with
    | none => rfl
    | some x =>
      obtain ⟨r, w⟩ := x
      obtain ⟨h1, h2⟩ := hpoll r w rfl
      simp only [pollClause, hd]
      rw [if_neg (by simpa using h1), if_neg (by simpa using h2)]
  rw [hpl, recordPoll_other hp]
  exact setRacing_eq hr

/-! ### failed completions: cancel, abort, timer expiry, close -/

theorem filter_map_pend (l : List (Nat × WMsg)) (f : WMsg → WMsg) (a : Nat) :
    (l.filter (·.1 != a)).map (fun x => (x.1, f x.2)) = (l.map (fun x => (x.1, f x.2))).filter (·.1 != a) := by
  induction l with
  | nil => rfl
  | cons x l ih => simp only [List.filter_cons, List.map_cons]; split <;> simp [ih]

theorem filter_map_waq (l : List PSend) (f : PSend → WMsg) (a : Nat) :
    (l.filter (·.aio != a)).map (fun pk => (pk.aio, f pk)) = (l.map (fun pk => (pk.aio, f pk))).filter (·.1 != a) := by
  induction l with
  | nil => rfl
  | cons x l ih => simp only [List.filter_cons, List.map_cons]; split <;> simp [ih]

theorem allB_sub {j j' : PairJ} (h1 : j'.pendingS.Sublist j.pendingS) (h2 : j'.unsent.Sublist j.unsent)
    (h3 : j'.wired = j.wired) : (allB j').Sublist (allB j) := by
  unfold allB
  rw [h3]
  exact (h1.map _).append ((h2.map _).append (List.Sublist.refl _))

/-- the judge's pending operations versus the model's wait queues -/
structure P (V : Variant) (v1 raw : Bool) (waq : List PSend) (raq : List PRecv) (j : PairJ) : Prop where
  err : j.err = none
  jv1 : j.v1 = v1
  jraw : j.raw = raw
  pend : j.pendingS.map (fun x => (x.1, wireForm v1 raw x.2)) = waq.map (fun pk => (pk.aio, V.txWire pk.msg.m))
  pendOk : ∀ x ∈ j.pendingS, badHdr v1 raw x.2 = false
  waitR : j.waitingR = raq.map (·.aio)
  disj : ∀ pk ∈ waq, ∀ r ∈ raq, pk.aio ≠ r.aio
  waqNd : (waq.map (·.aio)).Nodup
  raqNd : (raq.map (·.aio)).Nodup

theorem R.toP {V : Variant} {v1 : Bool} {sS sR : List Bytes} {s : State} {j : PairJ} (h : R V v1 sS sR s j) :
    P V v1 s.raw s.waq s.raq j :=
  ⟨h.err, h.jv1, h.raw, h.pend, h.pendOk, h.waitR, h.disj, h.waqNd, h.raqNd⟩

theorem P.fsts {V : Variant} {v1 raw : Bool} {waq : List PSend} {raq : List PRecv} {j : PairJ}
    (h : P V v1 raw waq raq j) : j.pendingS.map (·.1) = waq.map (·.aio) := by
  have := congrArg (List.map Prod.fst) h.pend
  simpa [Function.comp_def] using this

theorem P.find_send {V : Variant} {v1 raw : Bool} {waq : List PSend} {raq : List PRecv} {j : PairJ}
    (h : P V v1 raw waq raq j) {pk : PSend} (hpk : pk ∈ waq) :
    ∃ m, j.pendingS.find? (·.1 == pk.aio) = some (pk.aio, m) ∧ (pk.aio, m) ∈ j.pendingS := by
  have hm : pk.aio ∈ j.pendingS.map (·.1) := by rw [h.fsts]; exact List.mem_map.2 ⟨pk, hpk, rfl⟩
  obtain ⟨x, hx, hxa⟩ := List.mem_map.1 hm
  have : (j.pendingS.find? (·.1 == pk.aio)).isSome = true := by
    rw [List.find?_isSome]; exact ⟨x, hx, by simpa using hxa⟩
  obtain ⟨y, hy⟩ := Option.isSome_iff_exists.1 this
  have hy1 : y.1 = pk.aio := by simpa using List.find?_some hy
  refine ⟨y.2, ?_, ?_⟩
  · rw [hy, ← hy1]
  · rw [← hy1]; exact List.mem_of_find?_eq_some hy

theorem P.find_none {V : Variant} {v1 raw : Bool} {waq : List PSend} {raq : List PRecv} {j : PairJ}
    (h : P V v1 raw waq raq j) {a : Nat} (ha : ∀ pk ∈ waq, pk.aio ≠ a) :
    j.pendingS.find? (·.1 == a) = none := by
  rw [List.find?_eq_none]
  intro x hx hxa
  have : x.1 ∈ waq.map (·.aio) := by rw [← h.fsts]; exact List.mem_map.2 ⟨x, hx, rfl⟩
  obtain ⟨pk, hpk, e⟩ := List.mem_map.1 this
  exact ha pk hpk (by rw [e]; simpa using hxa)

theorem P.fail_send {V : Variant} {v1 raw : Bool} {waq : List PSend} {raq : List PRecv} {j : PairJ}
    (h : P V v1 raw waq raq j) (nb : Nb) {pk : PSend} (hpk : pk ∈ waq) {rv : Nat} (h0 : rv ≠ 0)
    (h1 : rv ≠ Err.eproto) :
    pairOut nb j (.done pk.aio rv none true) = { j with pendingS := j.pendingS.filter (·.1 != pk.aio) } ∧
    P V v1 raw (waq.filter (·.aio != pk.aio)) raq { j with pendingS := j.pendingS.filter (·.1 != pk.aio) } := by
  obtain ⟨m, hf, hm⟩ := h.find_send hpk
  constructor
  · rw [pairOut_done_send (Or.inl ⟨pk.aio, hf⟩)]
    apply sendCompletion_fail h0
    rw [h.jv1, h.jraw, h.pendOk _ hm]
    simpa using h1
  · refine ⟨h.err, h.jv1, h.jraw, ?_, ?_, h.waitR, ?_, ?_, h.raqNd⟩
    · simp only []
      rw [filter_map_pend, filter_map_waq (f := fun pk => V.txWire pk.msg.m), h.pend]
    · intro x hx; exact h.pendOk x (List.mem_filter.1 hx).1
    · intro pk' hpk'; exact h.disj pk' (List.mem_filter.1 hpk').1
    · exact h.waqNd.sublist (List.filter_sublist.map _)

theorem P.fail_recv {V : Variant} {v1 raw : Bool} {waq : List PSend} {raq : List PRecv} {j : PairJ}
    (h : P V v1 raw waq raq j) {nb : Nb} {r : PRecv} (hr : r ∈ raq) (hnb : nbNotSend nb r.aio) {rv : Nat} (h0 : rv ≠ 0) :
    pairOut nb j (.done r.aio rv none false) = { j with waitingR := j.waitingR.filter (· != r.aio) } ∧
    P V v1 raw waq (raq.filter (·.aio != r.aio)) { j with waitingR := j.waitingR.filter (· != r.aio) } := by
  have hnone := h.find_none (a := r.aio) (fun pk hpk => h.disj pk hpk r hr)
  constructor
  · rw [pairOut_done_recv hnone hnb (Or.inl (by rw [h.waitR]; exact List.mem_map.2 ⟨r, hr, rfl⟩))]
    exact recvCompletion_fail h0
  · refine ⟨h.err, h.jv1, h.jraw, h.pend, h.pendOk, ?_, ?_, h.waqNd, ?_⟩
    · simp only [h.waitR, List.filter_map]; rfl
    · intro pk hpk r' hr'; exact h.disj pk hpk r' (List.mem_filter.1 hr').1
    · exact h.raqNd.sublist (List.filter_sublist.map _)

theorem filter_head_waq {a : PSend} {l : List PSend} (hn : ((a :: l).map (·.aio)).Nodup) :
    (a :: l).filter (·.aio != a.aio) = l := by
  simp only [List.map_cons, List.nodup_cons] at hn
  simp only [List.filter_cons, bne_self_eq_false, Bool.false_eq_true, if_false]
  rw [List.filter_eq_self]
  intro x hx
  have : x.aio ≠ a.aio := fun e => hn.1 (e ▸ List.mem_map.2 ⟨x, hx, rfl⟩)
  simpa using this

theorem filter_head_raq {a : PRecv} {l : List PRecv} (hn : ((a :: l).map (·.aio)).Nodup) :
    (a :: l).filter (·.aio != a.aio) = l := by
  simp only [List.map_cons, List.nodup_cons] at hn
  simp only [List.filter_cons, bne_self_eq_false, Bool.false_eq_true, if_false]
  rw [List.filter_eq_self]
  intro x hx
  have : x.aio ≠ a.aio := fun e => hn.1 (e ▸ List.mem_map.2 ⟨x, hx, rfl⟩)
  simpa using this

/-- the fields of the judge a failed completion leaves alone -/
def sameRest (j j' : PairJ) : Prop :=
  j'.v1 = j.v1 ∧ j'.peerProto = j.peerProto ∧ j'.raw = j.raw ∧ j'.ttl = j.ttl ∧ j'.live = j.live ∧
  j'.busy = j.busy ∧ j'.armed = j.armed ∧ j'.unsent = j.unsent ∧ j'.wired = j.wired ∧ j'.scap = j.scap ∧
  j'.held = j.held ∧ j'.rcap = j.rcap ∧ j'.lastPoll = j.lastPoll ∧ j'.racing = j.racing ∧ j'.closed = j.closed ∧
  j'.pendingS.Sublist j.pendingS

theorem sameRest.refl (j : PairJ) : sameRest j j :=
  ⟨rfl, rfl, rfl, rfl, rfl, rfl, rfl, rfl, rfl, rfl, rfl, rfl, rfl, rfl, rfl, List.Sublist.refl _⟩

theorem sameRest.trans {j j' j'' : PairJ} (h1 : sameRest j j') (h2 : sameRest j' j'') : sameRest j j'' := by
  obtain ⟨a1, a2, a3, a4, a5, a6, a7, a8, a9, a10, a11, a12, a13, a14, a15, a16⟩ := h1
  obtain ⟨b1, b2, b3, b4, b5, b6, b7, b8, b9, b10, b11, b12, b13, b14, b15, b16⟩ := h2
  exact ⟨b1.trans a1, b2.trans a2, b3.trans a3, b4.trans a4, b5.trans a5, b6.trans a6, b7.trans a7, b8.trans a8,
    b9.trans a9, b10.trans a10, b11.trans a11, b12.trans a12, b13.trans a13, b14.trans a14, b15.trans a15,
    b16.trans a16⟩

/-- socket close: every parked receive, then every parked send fails with NNG_ECLOSED -/
theorem closeDones_recv {V : Variant} {v1 raw : Bool} {waq : List PSend} (nb : Nb) (raq : List PRecv) :
    ∀ {j : PairJ}, P V v1 raw waq raq j → (∀ r ∈ raq, nbNotSend nb r.aio) →
      P V v1 raw waq [] ((raq.map fun pk => Out.done pk.aio Err.eclosed none false).foldl (pairOut nb) j) ∧
      sameRest j ((raq.map fun pk => Out.done pk.aio Err.eclosed none false).foldl (pairOut nb) j) := by
  induction raq with
  | nil => intro j h _; exact ⟨h, sameRest.refl j⟩
  | cons r rest ih =>
    intro j h hnb
    obtain ⟨e, h'⟩ := h.fail_recv (nb := nb) (r := r) (by simp) (hnb r (by simp)) (rv := Err.eclosed) (by simp [Err.eclosed])
    rw [filter_head_raq h.raqNd] at h'
    simp only [List.map_cons, List.foldl_cons, e]
    obtain ⟨p1, p2⟩ := ih h' (fun r' hr' => hnb r' (by simp [hr']))
    have hs : sameRest j { j with waitingR := j.waitingR.filter (· != r.aio) } :=
      ⟨rfl, rfl, rfl, rfl, rfl, rfl, rfl, rfl, rfl, rfl, rfl, rfl, rfl, rfl, rfl, List.Sublist.refl _⟩
    exact ⟨p1, sameRest.trans hs p2⟩

theorem closeDones_send {V : Variant} {v1 raw : Bool} (nb : Nb) (waq : List PSend) :
    ∀ {j : PairJ}, P V v1 raw waq [] j →
      P V v1 raw [] [] ((waq.map fun pk => Out.done pk.aio Err.eclosed none true).foldl (pairOut nb) j) ∧
      sameRest j ((waq.map fun pk => Out.done pk.aio Err.eclosed none true).foldl (pairOut nb) j) := by
  induction waq with
  | nil => intro j h; exact ⟨h, sameRest.refl j⟩
  | cons r rest ih =>
    intro j h
    obtain ⟨e, h'⟩ := h.fail_send nb (pk := r) (by simp) (rv := Err.eclosed) (by simp [Err.eclosed])
      (by simp [Err.eclosed, Err.eproto])
    rw [filter_head_waq h.waqNd] at h'
    simp only [List.map_cons, List.foldl_cons, e]
    obtain ⟨p1, p2⟩ := ih h'
    have hs : sameRest j { j with pendingS := j.pendingS.filter (·.1 != r.aio) } :=
      ⟨rfl, rfl, rfl, rfl, rfl, rfl, rfl, rfl, rfl, rfl, rfl, rfl, rfl, rfl, rfl, List.filter_sublist⟩
    exact ⟨p1, sameRest.trans hs p2⟩

end Nng.Pair0
