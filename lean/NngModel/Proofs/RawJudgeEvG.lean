/-
  Raw judges vs raw models: `send` on the socket, all pipes together.
-/
import NngModel.Proofs.RawJudgeEvF
namespace Nng.RawSurv
open Nng Nng.Proto Nng.RawMq Nng.RawSurveySpec

attribute [local simp] xOut_rv xOut_rv2 xOut_parm xOut_pipe

theorem fold_pipe_psends (X : List Out) : ∀ (ws : List (Nat × WMsg)) (j : XJ),
    (ws.map (fun x => Out.psend x.1 x.2)).foldl (pipeStep X) j = j := by
  intro ws
  induction ws with
  | nil => intro j; rfl
  | cons x ws ih => intro j; simp only [List.map_cons, List.foldl_cons, pipeStep]; exact ih j

theorem filter_done_psends (ws : List (Nat × WMsg)) : (ws.map (fun x => Out.psend x.1 x.2)).filter isDone = [] := by
  rw [List.filter_eq_nil_iff]
  intro o ho
  obtain ⟨x, _, rfl⟩ := List.mem_map.1 ho
  simp [isDone]

theorem filter_rest_psends (ws : List (Nat × WMsg)) :
    (ws.map (fun x => Out.psend x.1 x.2)).filter (fun o => !isDone o) = ws.map (fun x => Out.psend x.1 x.2) := by
  rw [List.filter_eq_self]
  intro o ho
  obtain ⟨x, _, rfl⟩ := List.mem_map.1 ho
  simp [isDone]

theorem procOuts_send (resp : Bool) (a rv : Nat) (mm : Option WMsg) (mb : Bool) (ws : List (Nat × WMsg)) (j0 : XJ) :
    procOuts resp ([Out.done a rv mm mb] ++ ws.map (fun x => Out.psend x.1 x.2)) j0 =
      (ws.map (fun x => Out.psend x.1 x.2)).foldl (xOut resp) (xDone resp j0 a rv mm mb) := by
  unfold procOuts
  have e1 : ([Out.done a rv mm mb] ++ ws.map (fun x => Out.psend x.1 x.2)).foldl
      (pipeStep ([Out.done a rv mm mb] ++ ws.map (fun x => Out.psend x.1 x.2))) j0 = j0 := by
    rw [List.foldl_append]
    simp only [List.foldl_cons, List.foldl_nil, pipeStep]
    exact fold_pipe_psends _ _ _
  have e2 : ([Out.done a rv mm mb] ++ ws.map (fun x => Out.psend x.1 x.2)).filter isDone = [Out.done a rv mm mb] := by
    rw [List.filter_append, filter_done_psends]; rfl
  have e3 : ([Out.done a rv mm mb] ++ ws.map (fun x => Out.psend x.1 x.2)).filter (fun o => !isDone o) =
      ws.map (fun x => Out.psend x.1 x.2) := by
    rw [List.filter_append, filter_rest_psends]; rfl
  rw [e1, e2, e3]
  rfl

theorem notExecuted_send (a rv : Nat) (mm : Option WMsg) (mb : Bool) (ws : List (Nat × WMsg)) :
    notExecuted ([Out.done a rv mm mb] ++ ws.map (fun x => Out.psend x.1 x.2)) = false := by
  unfold notExecuted
  rw [List.any_eq_false]
  intro o ho
  rcases List.mem_append.1 ho with h | h
  · simp at h; subst h; simp
  · obtain ⟨x, _, rfl⟩ := List.mem_map.1 h; simp

theorem blocked_send (a rv : Nat) (mm : Option WMsg) (mb : Bool) (ws : List (Nat × WMsg)) :
    ([Out.done a rv mm mb] ++ ws.map (fun x => Out.psend x.1 x.2)).any isBlocked = false := by
  rw [List.any_eq_false]
  intro o ho
  rcases List.mem_append.1 ho with h | h
  · simp at h; subst h; simp [isBlocked]
  · obtain ⟨x, _, rfl⟩ := List.mem_map.1 h; simp [isBlocked]

theorem pollOf_send (a rv : Nat) (mm : Option WMsg) (mb : Bool) (ws : List (Nat × WMsg)) :
    pollOf ([Out.done a rv mm mb] ++ ws.map (fun x => Out.psend x.1 x.2)) = none := by
  unfold pollOf
  rw [List.findSome?_eq_none_iff]
  intro o ho
  rcases List.mem_append.1 ho with h | h
  · simp at h; subst h; rfl
  · obtain ⟨x, _, rfl⟩ := List.mem_map.1 h; rfl

theorem xPre_send (resp : Bool) (j : XJ) (a : Nat) (m : WMsg) (mode : Mode) (outs : List Out) :
    xPre resp j (.send none a m mode) outs = ({ j with sends := j.sends ++ [⟨a, m.hdr, m.body, mode == .nb⟩] }, nbOf a mode) := by
  cases mode <;> rfl

theorem wiresNow_facts {pp : Pipe} (h : wiresNow pp = true) : pp.closed = false ∧ pp.sq.getq ≠ [] := by
  unfold wiresNow at h
  simp only [Bool.and_eq_true, Bool.not_eq_true', List.isEmpty_eq_false_iff] at h
  exact ⟨h.1.1, h.2⟩

theorem ev_send {k : Kind} {sel : Sel} {resp : Bool} {s : State} {j : XJ} (hk : KindOK k sel) (hrt : RouteSpec k sel)
    (hac : AcceptSpec resp sel) (hsb : SelBody sel) (hcap : k.sqCap = depth resp) (hI : Inv k sel s) (hR : R s j)
    (ho : s.opened = true) (hc : s.closed = false) (a : Nat) (m : WMsg) (mode : Mode) (hb : aioBusy s a = false)
    (hS : ((sockSend k s a m mode).1.sent.map (·.body)).Nodup) :
    R (sockSend k s a m mode).1 (xStep resp j (.send none a m mode) (sockSend k s a m mode).2) := by
  have hI1 := sockSend_inv hk s a m mode hI ho hc
  revert hI1 hS
  rw [sockSend_eq s a m mode hI ho hc, hrt s.pipes m]
  intro hS hI1
  simp only [] at hS hI1 ⊢
  have hc0 := hR.core
  have ha := not_busy_tags hb
  obtain ⟨ws, w1, w2, w3, w4⟩ := specRoute_outs sel m s.pipes 0
  rw [w1]
  -- the pipes after the send
  have hget : ∀ q pp1, (specRoute sel m 0 s.pipes).1[q]? = some pp1 →
      ∃ pp, s.pipes[q]? = some pp ∧ pp1 = (offerSel sel m q pp).1 := by
    intro q pp1 h
    rw [specRoute_get] at h
    cases hp : s.pipes[q]? with
    | none => rw [hp] at h; cases h
    | some pp => rw [hp] at h; simp only [Option.map_some, Option.some.injEq, Nat.zero_add] at h; exact ⟨pp, rfl, h.symm⟩
  have hws : ∀ q pp, s.pipes[q]? = some pp → ∀ m1, (q, m1) ∈ ws ↔ (sel q m = some m1 ∧ wiresNow pp = true) := by
    intro q pp hp m1
    rw [w4 q m1]
    simp only [Nat.zero_le, Nat.sub_zero, true_and, hp, Option.some.injEq, exists_eq_left']
  -- the judge: the send completes, `accept`
  have hsendable : sendable s.uwq = true := by simp [sendable, hI.uwq.rdr ho hc, hI.uwq.putq]
  obtain ⟨acc1, ea, hacc1⟩ := hac { j with sends := [] } ⟨a, m.hdr, m.body, mode == .nb⟩ hc0.liveN
  have hdone : xDone resp { j with sends := j.sends ++ [⟨a, m.hdr, m.body, mode == .nb⟩] } a 0 none false =
      { j with sends := [], acc := acc1 } := by
    rw [xDone_send_ok resp { j with sends := j.sends ++ [(⟨a, m.hdr, m.body, mode == .nb⟩ : Offer)] } a
      ⟨a, m.hdr, m.body, mode == .nb⟩ none (find_old_none hc0 ha) (by simp [hc0.sends])]
    · have : ({ j with sends := j.sends ++ [(⟨a, m.hdr, m.body, mode == .nb⟩ : Offer)] } : XJ).sends.filter (·.aio != a) = [] := by
        show (j.sends ++ [(⟨a, m.hdr, m.body, mode == .nb⟩ : Offer)]).filter (·.aio != a) = []
        rw [hc0.sends]; simp
      simp only [this]
      exact ea
    · intro _ rd wr hp
      rw [(hR.polled rd wr hp).2, hsendable]
  have hacc1' : ∀ q, acc1.filter (·.pipe == q) = j.acc.filter (·.pipe == q) ++
      (if q ∈ j.live ∧ takes resp j q = true then
        (match sel q m with | some m1 => [⟨q, m1.hdr, m1.body, false⟩] | none => []) else []) := hacc1
  -- the judge: the wire hand-overs
  have hpre : ∀ x ∈ ws, x.1 ∈ j.live ∧ x.1 ∉ j.busy ∧ (x.1, x.2.body) ∉ j.wired ∧
      (acc1.filter (·.pipe == x.1)).head? = some ⟨x.1, x.2.hdr, x.2.body, false⟩ := by
    intro x hx
    obtain ⟨_, pp, hp, hs, hw⟩ := (w4 x.1 x.2).1 hx
    simp only [Nat.sub_zero] at hp
    obtain ⟨hcl, hg⟩ := wiresNow_facts hw
    have hpr := hc0.pipes x.1 pp hp
    have hpo := hI.core.pipes x.1 pp hp
    have hbz : pp.busy = false := (hpr.idle hcl).2 hg
    have hlive : x.1 ∈ j.live := hpr.live.2 hcl
    have hnb : x.1 ∉ j.busy := fun h => by rw [(hpr.busy hcl).1 h] at hbz; cases hbz
    refine ⟨hlive, hnb, ?_, ?_⟩
    · intro hm
      have hm1 := hpr.wired _ hm
      -- the pipe after the offer carries the body once
      have hg1 : (specRoute sel m 0 s.pipes).1[x.1]? = some (offer x.1 pp x.2).1 := by
        rw [specRoute_get, hp]; simp [offerSel, hs]
      have hpo1 := hI1.core.pipes x.1 _ hg1
      obtain ⟨hc1, hcase⟩ := offer_cases hpo hcl x.2
      rcases hcase with ⟨_, _, _, _, _, o4⟩ | ⟨hg0, _⟩ | ⟨hg0, _⟩
      · have hnd := pipe_bodies_nodup hsb hpo1 hc1 hS
        rw [o4, List.map_append, List.map_append, List.nodup_append] at hnd
        have := hnd.1
        rw [List.nodup_append] at this
        exact this.2.2 _ hm1 _ (by simp) rfl
      · exact hg hg0
      · exact hg hg0
    · rw [hacc1' x.1, hpr.acc]
      have htk : takes resp j x.1 = true := by
        rw [takes_eq (resp := resp) hpr hcl hcap, hbz]; rfl
      rw [if_pos ⟨hlive, htk⟩, hs]
      unfold accOf
      rw [if_neg (by simp [hcl]), (hpo.idle hg).1]
      rfl
  obtain ⟨acc2, e2, h2, h3⟩ := xOut_psends resp ws { j with sends := [], acc := acc1 } w2 hpre
  have hlt : ∀ x ∈ ws, x.1 < s.pipes.length := by
    intro x hx
    obtain ⟨_, pp, hp, _⟩ := (w4 x.1 x.2).1 hx
    simp only [Nat.sub_zero] at hp
    exact lt_of_get hp
  refine step_finish hI1 hc0.err (notExecuted_send _ _ _ _ _) ?_ ?_ (blocked_send _ _ _ _ _) ?_
  · rw [xPre_send, procOuts_send, hdone, e2]
    have hRp : Rc { s with pipes := (specRoute sel m 0 s.pipes).1 }
        { j with sends := [], acc := acc2, wired := j.wired ++ ws.map (fun x => (x.1, x.2.body)), busy := j.busy ++ ws.map (·.1) } := by
      refine hc0.pipesUpd _ _ (specRoute_len sel m s.pipes 0) rfl rfl rfl rfl rfl rfl rfl ?_ ?_
      · intro q pp1 hq
        obtain ⟨pp, hp, rfl⟩ := hget q pp1 hq
        exact send_pipe m (hc0.pipes q pp hp) (hI.core.pipes q pp hp) hcap acc1 acc2 ws (hacc1' q) (h2 q) (hws q pp hp)
      · refine ⟨hc0.out.live, ?_, ?_, ?_⟩
        · intro q hq
          have hq : q ∈ j.busy ++ ws.map (·.1) := hq
          rcases List.mem_append.1 hq with h | h
          · exact hc0.out.busy q h
          · obtain ⟨x, hx, rfl⟩ := List.mem_map.1 h; exact hlt x hx
        · intro x hx
          have hx1 : x ∈ acc1 := h3 x hx
          have : x ∈ acc1.filter (·.pipe == x.pipe) := List.mem_filter.2 ⟨hx1, by simp⟩
          rw [hacc1' x.pipe] at this
          rcases List.mem_append.1 this with h | h
          · exact hc0.out.acc x (List.mem_filter.1 h).1
          · by_cases hcond : x.pipe ∈ j.live ∧ takes resp j x.pipe = true
            · exact hc0.out.live _ hcond.1
            · rw [if_neg hcond] at h; cases h
        · intro x hx
          have hx : x ∈ j.wired ++ ws.map (fun x => (x.1, x.2.body)) := hx
          rcases List.mem_append.1 hx with h | h
          · exact hc0.out.wired x h
          · obtain ⟨y, hy, rfl⟩ := List.mem_map.1 h; exact hlt y hy
    exact hRp.frame rfl rfl rfl rfl
  · rw [xPre_send]
    cases mode with
    | nb => exact nbChk_some _ _ _ ⟨0, none, false, by simp⟩
    | _ => rfl
  · intro rd wr hp; rw [pollOf_send] at hp; cases hp

end Nng.RawSurv
