/- frame lemmas: which paths an event touches, and which receives it posts -/
import NngModel.Proofs.DeviceRv
namespace Nng.Device
open Nng
set_option linter.unusedSimpArgs false

/-- everything of a path except the ghost `aborted` mark -/
def Path.core (p : Path) : PState × Nat × Nat × Nat × Option Msg × List Msg × List Msg × List Msg × List Msg :=
  (p.state, p.src, p.dst, p.ares, p.amsg, p.rcvd, p.subm, p.acked, p.freed)

/-- the receives a list of calls posts: (socket, path) -/
def posts : List Act → List (Nat × Nat)
  | [] => []
  | .sockRecv s i :: as => (s, i) :: posts as
  | _ :: as => posts as

theorem posts_append (a b : List Act) : posts (a ++ b) = posts a ++ posts b := by
  induction a with
  | nil => rfl
  | cons x xs ih => cases x <;> simp [posts, ih]

theorem abortPaths_core (skip : Option Nat) (rv : Nat) (ps : List Path) (j : Nat)
    (h : j < (abortPaths skip rv ps).1.length) :
    (abortPaths skip rv ps).1[j].core = (ps[j]'(by simpa [abortPaths] using h)).core := by
  rw [abortPaths_getElem]
  split <;> rfl

theorem abortPaths_skip (i rv : Nat) (ps : List Path) (h : i < (abortPaths (some i) rv ps).1.length) :
    (abortPaths (some i) rv ps).1[i] = ps[i]'(by simpa [abortPaths] using h) := by
  rw [abortPaths_getElem]
  simp

theorem posts_flatten_nil (l : List (List Act)) (h : ∀ x ∈ l, posts x = []) : posts l.flatten = [] := by
  induction l with
  | nil => rfl
  | cons x xs ih =>
    simp only [List.flatten_cons, posts_append]
    rw [h x (by simp), ih (fun y hy => h y (by simp [hy]))]
    rfl

theorem abortPaths_posts (skip : Option Nat) (rv : Nat) (ps : List Path) : posts (abortPaths skip rv ps).2 = [] := by
  unfold abortPaths
  apply posts_flatten_nil
  intro x hx
  rcases List.mem_iff_getElem.mp hx with ⟨j, hj, hxj⟩
  rw [List.getElem_mapIdx] at hxj
  rw [← hxj]
  split <;> rfl

theorem map_sockClose_posts (l : List Nat) : posts (l.map Act.sockClose) = [] := by
  induction l with
  | nil => rfl
  | cons x xs ih => simp [posts, ih]

theorem cbFinish_posts (d : Dev) : posts (cbFinish d).2 = [] := by
  unfold cbFinish deviceClose
  by_cases ho : d.owned = true <;> by_cases hu : d.user = true <;>
    simp [ho, hu, posts_append, posts, map_sockClose_posts]

theorem cbFinish_paths (d : Dev) : (cbFinish d).1.paths = d.paths := by
  unfold cbFinish deviceClose
  by_cases ho : d.owned = true <;> simp [ho]

theorem cbFail_posts (d : Dev) (i : Nat) (p1 : Path) (rv : Nat) : posts (cbFail d i p1 rv).2 = [] := by
  unfold cbFail
  simp only
  split
  · simp [posts_append, abortPaths_posts, cbFinish_posts]
  · exact abortPaths_posts _ _ _

theorem cbFail_paths (d : Dev) (i : Nat) (p1 : Path) (rv : Nat) :
    (cbFail d i p1 rv).1.paths = (abortPaths (some i) rv (d.paths.set i p1)).1 := by
  unfold cbFail
  simp only
  split
  · rw [cbFinish_paths]
  · rfl

theorem cbPath_posts (drv i : Nat) (p : Path) : posts (cbPath drv i p).2.2 = [] := by
  cases hs : p.state <;> by_cases h1 : p.ares = 0 <;> by_cases h2 : drv = 0 <;>
    simp [cbPath, freeMsg, hs, h1, h2, posts]

theorem cbPath_rcvd (drv i : Nat) (p : Path) : (cbPath drv i p).1.rcvd = p.rcvd ∧ (cbPath drv i p).1.src = p.src := by
  cases hs : p.state <;> by_cases h1 : p.ares = 0 <;> by_cases h2 : drv = 0 <;>
    simp [cbPath, freeMsg, hs, h1, h2]

theorem advance_rcvd (i : Nat) (p : Path) : (advance i p).1.rcvd = p.rcvd ∧ (advance i p).1.src = p.src := by
  unfold advance
  cases p.state <;> simp

theorem advance_posts (i : Nat) (p : Path) :
    posts (advance i p).2 = if p.state = .send then [(p.src, i)] else [] := by
  unfold advance
  cases p.state <;> simp [posts]

theorem advance_state (i : Nat) (p : Path) :
    (advance i p).1.state = match p.state with | .send => .recv | .recv => .send | s => s := by
  unfold advance
  cases p.state <;> rfl

/-- what device_cb does to the list of paths and which receive it posts -/
theorem deviceCb_frame (d : Dev) (i : Nat) (p : Path) (hi : i < d.paths.length) :
    let r := deviceCb { d with paths := d.paths.set i p } i
    let q := cbPath d.rv i p
    (q.2.1 ≠ 0 → r.1.paths = (abortPaths (some i) q.2.1 (d.paths.set i q.1)).1 ∧ posts r.2 = []) ∧
    (q.2.1 = 0 → r.1.paths = d.paths.set i (advance i q.1).1 ∧ posts r.2 = posts (advance i q.1).2) := by
  intro r q
  have hget : ({ d with paths := d.paths.set i p } : Dev).paths[i]? = some p := by simp [hi]
  constructor
  · intro hrv
    have hne : (q.2.1 != 0) = true := by simp [hrv]
    have : r = ((cbFail { d with paths := d.paths.set i p } i q.1 q.2.1).1,
        q.2.2 ++ (cbFail { d with paths := d.paths.set i p } i q.1 q.2.1).2) := by
      show deviceCb _ i = _
      unfold deviceCb
      simp only [hget]
      rw [if_pos hne]
    rw [this]
    refine ⟨?_, ?_⟩
    · rw [cbFail_paths]; simp [List.set_set]
    · rw [posts_append, cbPath_posts, cbFail_posts]; rfl
  · intro hrv
    have hne : ¬ (q.2.1 != 0) = true := by simp [hrv]
    have : r = ((cbCont { d with paths := d.paths.set i p } i q.1).1,
        q.2.2 ++ (cbCont { d with paths := d.paths.set i p } i q.1).2) := by
      show deviceCb _ i = _
      unfold deviceCb
      simp only [hget]
      rw [if_neg hne]
    rw [this]
    refine ⟨?_, ?_⟩
    · simp [cbCont, List.set_set]
    · rw [posts_append, cbPath_posts]; simp [cbCont]

theorem cbPath_state_cont (drv i : Nat) (p : Path) (h : (cbPath drv i p).2.1 = 0) :
    (cbPath drv i p).1.state = p.state := by
  revert h
  cases hs : p.state <;> by_cases h1 : p.ares = 0 <;> by_cases h2 : drv = 0 <;>
    simp [cbPath, freeMsg, hs, h1, h2]

theorem cbPath_state_fail (drv i : Nat) (p : Path) (h : (cbPath drv i p).2.1 ≠ 0) :
    (cbPath drv i p).1.state = .fini := by
  revert h
  cases hs : p.state <;> by_cases h1 : p.ares = 0 <;> by_cases h2 : drv = 0 <;>
    simp [cbPath, freeMsg, hs, h1, h2]

/-- the paths after a callback of path `i` whose aio was completed into `p'` -/
structure CbFrame (d : Dev) (i : Nat) (p' : Path) (r : Dev × List Act) : Prop where
  len : r.1.paths.length = d.paths.length
  other : ∀ j (hj : j < d.paths.length) (hj' : j < r.1.paths.length), j ≠ i → r.1.paths[j].core = d.paths[j].core
  src : ∀ (hi' : i < r.1.paths.length), r.1.paths[i].src = p'.src
  rcvd : ∀ (hi' : i < r.1.paths.length), r.1.paths[i].rcvd = p'.rcvd
  next : ∀ (hi' : i < r.1.paths.length),
    (r.1.paths[i].state = .fini ∧ posts r.2 = []) ∨
    (p'.state = .recv ∧ r.1.paths[i].state = .send ∧ posts r.2 = []) ∨
    (p'.state = .send ∧ r.1.paths[i].state = .recv ∧ posts r.2 = [(p'.src, i)])

theorem deviceCb_cbFrame (d : Dev) (i : Nat) (p' : Path) (hi : i < d.paths.length)
    (hst : p'.state = .recv ∨ p'.state = .send) :
    CbFrame d i p' (deviceCb { d with paths := d.paths.set i p' } i) := by
  have hf := deviceCb_frame d i p' hi
  simp only at hf
  by_cases hrv : (cbPath d.rv i p').2.1 = 0
  · have h := hf.2 hrv
    have hs := cbPath_state_cont d.rv i p' hrv
    refine ⟨by rw [h.1]; simp, ?_, ?_, ?_, ?_⟩
    · intro j hj hj' hne
      simp only [h.1, List.getElem_set]
      rw [if_neg (fun e => hne e.symm)]
    · intro hi'
      simp only [h.1, List.getElem_set_self]
      rw [(advance_rcvd i _).2, (cbPath_rcvd d.rv i p').2]
    · intro hi'
      simp only [h.1, List.getElem_set_self]
      rw [(advance_rcvd i _).1, (cbPath_rcvd d.rv i p').1]
    · intro hi'
      right
      simp only [h.1, List.getElem_set_self]
      rw [h.2, advance_posts, advance_state, hs, (cbPath_rcvd d.rv i p').2]
      rcases hst with h1 | h1
      · left; simp [h1]
      · right; simp [h1]
  · have h := hf.1 hrv
    have hs := cbPath_state_fail d.rv i p' hrv
    have hlen : (abortPaths (some i) (cbPath d.rv i p').2.1 (d.paths.set i (cbPath d.rv i p').1)).1.length = d.paths.length := by
      rw [abortPaths_length]; simp
    refine ⟨by rw [h.1]; exact hlen, ?_, ?_, ?_, ?_⟩
    · intro j hj hj' hne
      simp only [h.1]
      rw [abortPaths_core]
      simp only [List.getElem_set]
      rw [if_neg (fun e => hne e.symm)]
    · intro hi'
      simp only [h.1]
      rw [abortPaths_skip]
      simp only [List.getElem_set_self]
      exact (cbPath_rcvd d.rv i p').2
    · intro hi'
      simp only [h.1]
      rw [abortPaths_skip]
      simp only [List.getElem_set_self]
      exact (cbPath_rcvd d.rv i p').1
    · intro hi'
      left
      refine ⟨?_, h.2⟩
      simp only [h.1]
      rw [abortPaths_skip]
      simp only [List.getElem_set_self]
      exact hs

theorem deviceCancel_frame (d : Dev) (rv : Nat) :
    (deviceCancel d rv).1.paths.length = d.paths.length ∧
    (∀ j (hj : j < d.paths.length) (hj' : j < (deviceCancel d rv).1.paths.length),
      (deviceCancel d rv).1.paths[j].core = d.paths[j].core) ∧
    posts (deviceCancel d rv).2 = [] := by
  unfold deviceCancel
  by_cases hu : d.user = true
  · simp only [hu, if_true]
    refine ⟨abortPaths_length _ _ _, ?_, abortPaths_posts _ _ _⟩
    intro j hj hj'
    exact abortPaths_core none rv d.paths j hj'
  · simp only [hu, if_false]
    exact ⟨rfl, fun _ _ _ => rfl, rfl⟩

end Nng.Device
