/- layer 3 of the aio invariants: nng_aio_stop / nng_aio_free -/
import NngModel.Proofs.Aio
import NngModel.Proofs.AioLemmas
namespace Nng.Aio
open Nng.AioSpec

structure Inv3 (s : State) : Prop where
  stopMono : s.stoppedAt.isSome = true → s.stop = true
  pcStop : 2 ≤ s.stopPc → s.stop = true
  freedStop : s.freed = true → s.stop = true
  noOnExp : s.stop = true → s.onExp = false
  late : s.lateBad = false
  pc3 : 3 ≤ s.stopPc → s.expiring = false ∧ s.cancelFn = none
  stopPcLe : s.stopPc ≤ 5
  freeQ : (s.stopPc ≠ 0 ∧ s.stopFree = true) →
    (s.subPc = 0 ∨ s.subFromCb = true) ∧ s.aborts = [] ∧ s.calls = [] ∧ s.closes = 0
  freedQ : s.freed = true →
    s.busy = 0 ∧ s.subPc = 0 ∧ s.aborts = [] ∧ s.calls = [] ∧ s.closes = 0 ∧ s.expiring = false ∧
    s.cancelFn = none ∧ (s.stopPc = 5 ∨ s.stopPc = 0)

theorem inv3_init : Inv3 ({} : State) := by
  constructor <;> simp

/-- the task is idle: nothing queued, running or parked, every completion has reported -/
theorem busy_zero {s : State} (h : Inv1 s) (hb : s.busy = 0) :
    s.prep = false ∧ s.queued = 0 ∧ s.popped = 0 ∧ s.inCb = 0 ∧ s.parked = false ∧ s.pendFin = none ∧
    s.expDispatch = false ∧ s.subPc ≠ 2 ∧ s.completions = s.reported + s.skips ∧
    (s.opTok = true → s.subPc = 1) := by
  rcases h with ⟨h1,h2,h3,h4,h5,h6,h7,h8,h9,h10,h11,h12,h13,h14,h15,h16,h17,h18⟩
  have hp : s.prep = false ∧ s.queued = 0 ∧ s.popped = 0 ∧ s.inCb = 0 := by
    cases hp : s.prep <;> simp only [b2n, hp, ↓reduceIte, Bool.false_eq_true] at h7 <;>
      refine ⟨?_, ?_, ?_, ?_⟩ <;> first | rfl | omega
  obtain ⟨hp, hq, hpo, hi⟩ := hp
  rw [hp] at h11
  have h11' := h11.symm
  simp only [Bool.or_eq_false_iff, beq_eq_false_iff_ne, ne_eq] at h11'
  obtain ⟨⟨⟨ha, hb'⟩, hc⟩, hd⟩ := h11'
  have hpf : s.pendFin = none := by
    cases hf : s.pendFin with
    | none => rfl
    | some v => rw [hf] at hc; cases hc
  refine ⟨hp, hq, hpo, hi, hb', hpf, hd, ha, ?_, ?_⟩
  · simp only [b2n, hd, hq, hpo, ↓reduceIte, Bool.false_eq_true] at h5; omega
  · intro ht
    rw [h8, hb', hpf] at ht
    simp at ht
    omega

macro "inv3_close" : tactic => `(tactic| (
  rcases ‹Inv1 _› with ⟨h1,h2,h3,h4,h5,h6,h7,h8,h9,h10,h11,h12,h13,h14,h15,h16,h17,h18⟩
  rcases ‹Inv3 _› with ⟨k1,k2,k3,k4,k5,k6,k7,k8,k9⟩
  clear h4 h5 h6
  constructor <;> simp_all [b2n, dispatch, completed, finishCore, cancelSlp_noop, takeFn, provLocked, userQuiet, Cfg.fixed] <;> (try omega) <;> (try (intros; omega)) <;> (try grind) <;> (try rfl) <;> (try (split <;> simp_all)) <;> (try grind)))

macro "inv3_label" hs:ident : tactic => `(tactic| (
  simp only [step] at $hs:ident
  repeat' (split at $hs:ident)
  all_goals (try (cases $hs:ident))
  all_goals inv3_close))

set_option maxHeartbeats 4000000 in
theorem inv3_step {s s' : State} {l : Label} (h : Inv1 s) (k : Inv3 s) (hl : NoSleepL l)
    (hs : step Cfg.fixed s l = some s') : Inv3 s' := by
  cases l with
  | tick d => inv3_label hs
  | setTimeout t => inv3_label hs
  | setExpire e => inv3_label hs
  | skipArm => inv3_label hs
  | subCall k f => inv3_label hs
  | prepare => inv3_label hs
  | begin => inv3_label hs
  | direct => inv3_label hs
  | subRet g v => inv3_label hs
  | complete rv => inv3_label hs
  | finish => inv3_label hs
  | abortCall rv => inv3_label hs
  | abortSec rv => inv3_label hs
  | closeCall => inv3_label hs
  | closeSec => inv3_label hs
  | callCancel p rv =>
    simp only [step] at hs
    split at hs
    · have hs := Option.some.inj hs
      subst hs
      cases p <;> inv3_close
    · cases hs
  | stopCall f => inv3_label hs
  | stopMark => inv3_label hs
  | stopTake => inv3_label hs
  | stopCancel =>
    simp only [step] at hs
    split at hs
    · cases hs
    · split at hs
      · split at hs
        · cases hs
        · have hs := Option.some.inj hs
          subst hs
          rename_i p _ _
          cases p <;> inv3_close
      · have hs := Option.some.inj hs
        subst hs
        inv3_close
  | stopWait =>
    simp only [step] at hs
    split at hs
    · rename_i hg
      have hb : s.busy = 0 := by simp_all
      have hz := busy_zero h hb
      cases hs
      obtain ⟨z1,z2,z3,z4,z5,z6,z7,z8,-,-⟩ := hz
      inv3_close
    · cases hs
  | stopRet => inv3_label hs
  | expScan => inv3_label hs
  | expTake =>
    simp only [step] at hs
    split at hs
    · cases hs
    · have hsl := h.sleepF
      simp only [hsl, Bool.false_eq_true, ↓reduceIte] at hs
      split at hs
      · have hs := Option.some.inj hs
        subst hs
        inv3_close
      · have hs := Option.some.inj hs
        subst hs
        inv3_close
  | expCall =>
    simp only [step] at hs
    split at hs
    · cases hs
    · have hs := Option.some.inj hs
      subst hs
      cases hf : s.expFn <;> inv3_close
  | expRelease => inv3_label hs
  | pop => inv3_label hs
  | cbRead => inv3_label hs
  | cbDone => inv3_label hs
  | peek => inv3_label hs

end Nng.Aio
