/-
  Simulation (12): time — `advance`: the clock, the timeouts of parked operations.
-/
import NngModel.Proofs.ReqJudgeEvK
namespace Nng.ReqJ
open Nng Nng.Proto Nng.Req Nng.ReqSpec

/-- the clock moves -/
theorem time_R {rest : List Ev} {s : State} {j : J} (ms : Nat) (hM : R rest s j) :
    R rest { s with now := s.now + ms } { j with now := j.now + ms } := by
  have hm := hM.mi
  have hg := hM.g
  refine ⟨⟨hm.biglive, hm.dead, hm.park, hm.creset, hm.rep, hm.onp, hm.wir, hm.unw, hm.sa, hm.rid, hm.al_nodup, hm.al_le, hm.fresh,
    hm.inj, hm.bound, hm.open_, hm.notgone, hm.notclosed⟩,
    ⟨by show j.now + ms = s.now + ms; rw [hg.now], hg.idle, hg.busy, hg.sock, hg.closed, hg.seen, hg.tick, ?_, hg.tknv, hg.nosend,
      hg.stab⟩, fun x hx => ?_, fun x hx => by cases hx⟩
  · intro hs T hT
    have := hg.tkle hs T hT
    show T ≤ s.now + ms + j.tick.toNat
    omega
  · exact RCx.frame (s := s) (j := j) rfl (fun _ _ => rfl) (fun _ _ _ hi => hi) (Nat.le_refl _) (fun _ => Iff.rfl)
      (fun _ _ hq => hq) Iff.rfl (Nat.le_add_right _ _) (Or.inl rfl) rfl rfl (hM.rc x hx)

theorem oldDone_setNow (j : J) (a rv n : Nat) : oldDone { j with now := n } a rv = { oldDone j a rv with now := n } := by
  rw [oldDone_eq, oldDone_eq]

theorem phA_setNow (e : Option Nat) (o : List Out) (j : J) (n : Nat) :
    phA e o { j with now := n } = { phA e o j with now := n } := by
  induction o generalizing j with
  | nil => rfl
  | cons x t ih =>
    rw [phA_cons, phA_cons]
    have : phAf e { j with now := n } x = { phAf e j x with now := n } := by
      unfold phAf
      split
      · split
        · exact oldDone_setNow _ _ _ _
        · rfl
      · rfl
    rw [this, ih]

/-- facts about one expiry step that the loop over the contexts carries along -/
structure Keeps (s s' : State) (o : List Out) : Prop where
  tick : s'.tickAt = s.tickAt
  now : s'.now = s.now
  dn : ∀ x, x ∈ o → isDn x = true
  no19 : ∀ x, x ∈ o → ∀ a mb, x ≠ .done a Err.econnreset none mb

theorem expireOne_sim {rest : List Ev} {s : State} {j : J} (k : Nat) (hM : R rest s j) (hI : Inv2 none none s) (hD : Dr s) :
    R rest (expireOne s k).1 (phA none (expireOne s k).2 j) ∧ Dr (expireOne s k).1 ∧ Keeps s (expireOne s k).1 (expireOne s k).2 := by
  have hsq : s.sendQueue.Nodup := hI.sq_nodup
  unfold expireOne
  dsimp only
  by_cases h1 : dueAio s.now (s.ctx k).recvAio = true
  · -- the parked receive times out
    rw [if_pos h1]
    obtain ⟨ra, hr⟩ : ∃ ra, (s.ctx k).recvAio = some ra := by
      cases hr : (s.ctx k).recvAio with
      | none => rw [hr] at h1; simp [dueAio] at h1
      | some ra => exact ⟨ra, rfl⟩
    obtain ⟨e1, e2⟩ := cancelRecv_eq s k Err.etimedout ra hr hsq
    obtain ⟨hA, hR⟩ := cancelRecv_sim hM hI Err.etimedout hr (by decide) (by decide)
    have hsa : ((cancelRecv s k Err.etimedout).1.ctx k).sendAio = none := by
      have : (cancelRecv s k Err.etimedout).1.ctx = upd s.ctx k (wipeCtx (s.ctx k) true false) := congrArg MV.ctx e1
      rw [this, upd_same]; rfl
    have h2 : dueAio (cancelRecv s k Err.etimedout).1.now ((cancelRecv s k Err.etimedout).1.ctx k).sendAio = false := by
      rw [hsa]; rfl
    rw [h2]
    simp only [Bool.false_eq_true, if_false, List.append_nil]
    rw [hA]
    refine ⟨hR, dr_wipe k true hD e1, congrArg MV.tickAt e1, congrArg MV.now e1, cancelRecv_dn hr hsq (by decide), ?_⟩
    rw [e2]
    intro x hx a mb e
    cases hs : (s.ctx k).sendAio with
    | none => simp [hs, e, Err.etimedout, Err.econnreset] at hx
    | some ua => simp [hs, e, Err.etimedout, Err.ecanceled, Err.econnreset] at hx
  · rw [if_neg h1]
    dsimp only
    by_cases h2 : dueAio s.now (s.ctx k).sendAio = true
    · rw [if_pos h2]
      obtain ⟨ua, hs⟩ : ∃ ua, (s.ctx k).sendAio = some ua := by
        cases hs : (s.ctx k).sendAio with
        | none => rw [hs] at h2; simp [dueAio] at h2
        | some ua => exact ⟨ua, rfl⟩
      obtain ⟨e1, e2⟩ := cancelSend_eq s k Err.etimedout ua hs hsq
      obtain ⟨hA, hR⟩ := cancelSend_sim hM hI Err.etimedout hs (by decide) (by decide)
      simp only [List.nil_append]
      rw [hA]
      refine ⟨hR, dr_wipe k false hD e1, congrArg MV.tickAt e1, congrArg MV.now e1, cancelSend_dn hs hsq (by decide), ?_⟩
      rw [e2]
      intro x hx a mb e
      simp [e, Err.etimedout, Err.econnreset] at hx
    · rw [if_neg h2]
      exact ⟨hM, hD, rfl, rfl, (fun x hx => by cases hx), (fun x hx => by cases hx)⟩

theorem Keeps.trans {s s1 s2 : State} {o1 o2 : List Out} (h1 : Keeps s s1 o1) (h2 : Keeps s1 s2 o2) : Keeps s s2 (o1 ++ o2) :=
  ⟨h2.tick.trans h1.tick, h2.now.trans h1.now,
    fun x hx => (List.mem_append.1 hx).elim (h1.dn x) (h2.dn x),
    fun x hx => (List.mem_append.1 hx).elim (h1.no19 x) (h2.no19 x)⟩

theorem expireAll_sim {rest : List Ev} (ks : List Nat) :
    ∀ (s : State) (j : J) (o0 : List Out), R rest s j → Inv2 none none s → Dr s →
      ∃ o, (ks.foldl (fun (acc : State × List Out) k => let (s', o) := expireOne acc.1 k; (s', acc.2 ++ o)) (s, o0)).2 = o0 ++ o ∧
        R rest (ks.foldl (fun (acc : State × List Out) k => let (s', o) := expireOne acc.1 k; (s', acc.2 ++ o)) (s, o0)).1
          (phA none o j) ∧
        Inv2 none none (ks.foldl (fun (acc : State × List Out) k => let (s', o) := expireOne acc.1 k; (s', acc.2 ++ o)) (s, o0)).1 ∧
        Dr (ks.foldl (fun (acc : State × List Out) k => let (s', o) := expireOne acc.1 k; (s', acc.2 ++ o)) (s, o0)).1 ∧
        Keeps s (ks.foldl (fun (acc : State × List Out) k => let (s', o) := expireOne acc.1 k; (s', acc.2 ++ o)) (s, o0)).1 o := by
  induction ks with
  | nil =>
    intro s j o0 hM hI hD
    exact ⟨[], by simp, hM, hI, hD, rfl, rfl, (fun x hx => by cases hx), (fun x hx => by cases hx)⟩
  | cons k t ih =>
    intro s j o0 hM hI hD
    rw [List.foldl_cons]
    obtain ⟨hR1, hD1, hK1⟩ := expireOne_sim k hM hI hD
    have hI1 := inv2_expireOne k hI
    obtain ⟨o, e, hR2, hI2, hD2, hK2⟩ := ih (expireOne s k).1 (phA none (expireOne s k).2 j) (o0 ++ (expireOne s k).2) hR1 hI1 hD1
    refine ⟨(expireOne s k).2 ++ o, ?_, ?_, hI2, hD2, hK1.trans hK2⟩
    · dsimp only; rw [e, List.append_assoc]
    · rw [phA_append]; exact hR2

end Nng.ReqJ
