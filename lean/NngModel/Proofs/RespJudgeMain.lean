/-
  RESPONDENT: the judge `respJudge` (Spec/Survey.lean) accepts every trace of the model (Model/Respond.lean), for
  event lists with pairwise distinct send bodies and without the harness-only `abort <aio> 0`.

  Pieces: RespJudgeCut / RespJudgeOut / RespJudgeEvE (judge only), RespJudgeInv* (model invariants), RespJudgeRel
  (the relation), RespJudgeEvA … EvJ (one family of events each), this file (case analysis of `step`, induction).
-/
import NngModel.Proofs.RespJudgeEvJ
namespace Nng.RespJudge
open Nng Nng.Proto Nng.Respond Nng.SurveySpec

/-! ### hypotheses on event lists -/

def sendBody : Ev → Option Bytes
  | .send _ _ m _ => some m.body
  | _ => none

/-- bodies of all `send` events, in order -/
def sendBodies (evs : List Ev) : List Bytes := evs.filterMap sendBody

/-- `abort <aio> 0`: the harness completes a parked operation with "success" although nothing was sent or
    received — no protocol callback does that -/
def isAbort0 : Ev → Bool
  | .abort _ rv => rv == 0
  | _ => false

def NoAbort0 (evs : List Ev) : Prop := ∀ ev ∈ evs, isAbort0 ev = false

instance (evs : List Ev) : Decidable (NoAbort0 evs) := by unfold NoAbort0; exact inferInstance

def usedAfter (ev : Ev) (used : List Bytes) : List Bytes :=
  match sendBody ev with
  | some b => b :: used
  | none => used

theorem used_mono (ev : Ev) (used : List Bytes) : ∀ b ∈ used, b ∈ usedAfter ev used := by
  intro b hb
  unfold usedAfter
  split
  · exact List.mem_cons_of_mem _ hb
  · exact hb

def isClose : Ev → Bool
  | .close => true
  | _ => false

/-- the trace (event, outputs) the model produces from state `s` -/
def traceOf (s : State) : List Ev → List (Ev × List Out)
  | [] => []
  | e :: es => (e, (step s e).2) :: traceOf (step s e).1 es

theorem traceOf_eq_zip (s : State) (evs : List Ev) : traceOf s evs = evs.zip (run s evs).2 := by
  induction evs generalizing s with
  | nil => rfl
  | cons e es ih =>
    simp only [traceOf, run, List.zip_cons_cons]
    rw [ih]

/-! ### one step of the live socket -/

theorem contains_rv0 (l : List Out) : ([Out.rv 0] ++ l).contains (Out.rv 0) = true := by simp

theorem stepLive_sim {s : State} {j : RespJ} {used : List Bytes} (hI : MInv s) (hR : Rel s j used)
    (ho : s.opened = true) (hcl : s.closed = false) (ev : Ev) (hab : isAbort0 ev = false)
    (hb : ∀ b, sendBody ev = some b → b ∉ used) :
    if isClose ev then Rc (respStep j ev (step s ev).2)
    else Rel (step s ev).1 (respStep j ev (step s ev).2) (usedAfter ev used) := by
  have hmono := used_mono ev used
  generalize hst : step s ev = res
  unfold step at hst
  rw [if_neg (by simp [ho]), if_neg (by simp [hcl])] at hst
  cases ev with
  | openSock proto raw =>
    subst hst
    exact (refused_ok hR _ _).mono hmono
  | pipeAdd peer =>
    simp only at hst
    split at hst
    · subst hst; exact (pipeAdd_bad_ok hR hI.n ho peer).mono hmono
    · subst hst; exact (pipeAdd_good_ok hR hI.n ho peer).mono hmono
  | pipeDrop p =>
    simp only at hst
    split at hst
    · rename_i pp hg
      split at hst
      · subst hst; exact (rvNeg_ok hR hI.n _ (Or.inl ⟨p, rfl⟩)).mono hmono
      · rename_i hc
        subst hst
        have hc' : pp.closed = false := by simpa using hc
        exact (closePipe_ok hR hI (.pipeDrop p) hg hc' (Or.inl rfl) (fun _ => rfl) rfl (by intro h; cases h)).mono hmono
    · subst hst; exact (rvNeg_ok hR hI.n _ (Or.inl ⟨p, rfl⟩)).mono hmono
  | sendDone p rv =>
    simp only at hst
    split at hst
    · rename_i pp hg
      split at hst
      · subst hst; exact (rvNeg_ok hR hI.n _ (Or.inr (Or.inl ⟨p, rv, rfl⟩))).mono hmono
      · rename_i hc
        have hc1 : pp.closed = false := by
          cases hx : pp.closed
          · rfl
          · simp [hx] at hc
        have hc2 : pp.busy = true := by
          cases hx : pp.busy
          · simp [hx] at hc
          · rfl
        split at hst
        · subst hst
          refine (closePipe_ok hR hI (.sendDone p rv) hg hc1 (Or.inr ?_) (fun _ => rfl) rfl (by intro h; cases h)).mono hmono
          exact respPre_sendDone _ _ _ _ (contains_rv0 _)
        · rename_i hrv
          have : rv = 0 := by simpa using hrv
          subst this
          subst hst
          exact (pipeSent_ok hR hI p pp hg hc2).mono hmono
    · subst hst; exact (rvNeg_ok hR hI.n _ (Or.inr (Or.inl ⟨p, rv, rfl⟩))).mono hmono
  | recvDone p r =>
    simp only at hst
    split at hst
    · rename_i pp hg
      split at hst
      · subst hst; exact (rvNeg_ok hR hI.n _ (Or.inr (Or.inr (Or.inl ⟨p, r, rfl⟩)))).mono hmono
      · rename_i hc
        have hc1 : pp.closed = false := by
          cases hx : pp.closed
          · rfl
          · simp [hx] at hc
        have hc2 : pp.armed = true := by
          cases hx : pp.armed
          · simp [hx] at hc
          · rfl
        split at hst
        · rename_i e
          subst hst
          exact (closePipe_ok hR hI (.recvDone p (.error e)) hg hc1 (Or.inl rfl) (fun _ => rfl) rfl (by intro h; cases h)).mono hmono
        · rename_i b
          split at hst
          · rename_i hd
            subst hst
            exact (recvDrop_ok hR hI ho p b hd).mono hmono
          · rename_i hgb
            subst hst
            refine (closePipe_ok hR hI (.recvDone p (.ok b)) hg hc1 (Or.inl ?_) (fun _ => rfl) rfl (by intro h; cases h)).mono hmono
            unfold respPre
            have : ([Out.rv 0] ++ (closePipe s p).2).contains (Out.pclosed p) = true := by
              rw [closePipe_out hg hc1]; simp
            simp only [this, Bool.not_true, Bool.and_false, Bool.false_eq_true, ↓reduceIte]
          · rename_i hdr body hsb
            subst hst
            exact (pipeRecv_ok hR hI ho p pp b hdr body hg hc2 hsb).mono hmono
    · subst hst; exact (rvNeg_ok hR hI.n _ (Or.inr (Or.inr (Or.inl ⟨p, r, rfl⟩)))).mono hmono
  | send k a m mode =>
    simp only at hst
    split at hst
    · subst hst; exact (refused_ok hR _ _).mono hmono
    · rename_i hbusy
      have hbz : aioBusy s a = false := by simpa using hbusy
      have hfresh : m.body ∉ used := hb m.body rfl
      split at hst
      · rename_i hg
        subst hst
        have hfr := aio_fresh hR.core hbz
        have hgj : j.getCtx k = none := by rw [getCtxJ_eq hR.core.ctxs, hg]; rfl
        refine (send_fail_ok hR.core hI.n k a m mode Err.eclosed hfr (by decide) ?_).mono hmono
        rw [respPre_send]
        cases hz : isZeroMode mode with
        | false => exact sendPre_noctx hgj
        | true =>
          unfold sendPre
          simp [doneOf, hgj, Err.eclosed, Err.eagain, Err.etimedout]
      · rename_i c hg
        subst hst
        exact ctxSend_ok hR hI k c a m mode hg hbz hfresh
  | recv k a mode =>
    simp only at hst
    split at hst
    · subst hst; exact (refused_ok hR _ _).mono hmono
    · rename_i hbusy
      have hbz : aioBusy s a = false := by simpa using hbusy
      split at hst
      · subst hst
        exact (recv_fail_ok hR hI k a mode Err.eclosed hbz (by decide) (fun _ _ e => absurd e (by decide))).mono hmono
      · rename_i c hg
        subst hst
        exact (ctxRecv_ok hR hI k c a mode hg hbz).mono hmono
  | cancel a =>
    subst hst
    exact (cancel_ok hR hI (.cancel a) a Err.ecanceled (by decide) (Or.inl rfl)).mono hmono
  | abort a rv =>
    subst hst
    have hrv : rv ≠ 0 := by simpa [isAbort0] using hab
    exact (cancel_ok hR hI (.abort a rv) a rv hrv (Or.inr rfl)).mono hmono
  | advance ms =>
    subst hst
    exact (expire_ok hR hI ms).mono hmono
  | ctxOpen k =>
    simp only at hst
    split at hst
    · subst hst; exact (refused_ok hR _ _).mono hmono
    · split at hst
      · subst hst; exact (refused_ok hR _ _).mono hmono
      · rename_i hn
        have hg : getCtx s (some k) = none := by
          cases hx : getCtx s (some k)
          · rfl
          · simp [hx] at hn
        subst hst
        exact (ctxOpen_ok hR hI.n k hg).mono hmono
  | ctxClose k =>
    simp only at hst
    split at hst
    · subst hst; exact (rvNeg_ok hR hI.n _ (Or.inr (Or.inr (Or.inr ⟨k, rfl⟩)))).mono hmono
    · rename_i c hg
      subst hst
      exact (ctxClose_ok hR hI k c hg).mono hmono
  | setopt k name ty v =>
    simp only at hst
    split at hst
    · rename_i hcond
      have h3 : name = "ttl-max" ∧ ty = "int" ∧ k = none := by
        simpa [Bool.and_eq_true, beq_iff_eq, and_assoc] using hcond
      obtain ⟨rfl, rfl, rfl⟩ := h3
      split at hst
      · subst hst; exact (setopt_bad_ok hR hI.n v).mono hmono
      · subst hst; exact (setopt_ok hR hI.n ho v).mono hmono
    · subst hst; exact (refused_ok hR _ _).mono hmono
  | getopt k name ty =>
    simp only at hst
    split at hst
    · subst hst; exact (getopt_ok hR hI.n k name ty _).mono hmono
    · subst hst; exact (refused_ok hR _ _).mono hmono
  | poll =>
    subst hst
    exact (poll_ok hR hI.n).mono hmono
  | sub k t =>
    subst hst; exact (refused_ok hR _ _).mono hmono
  | unsub k t =>
    subst hst; exact (refused_ok hR _ _).mono hmono
  | close =>
    subst hst
    exact close_rc hR hI

/-! ### before `open`, after `close` -/

theorem stepIdle_sim {s : State} {j : RespJ} {used : List Bytes} (hI : MInv s) (hR : Rel s j used) (ho : s.opened = false)
    (ev : Ev) : Rel (step s ev).1 (respStep j ev (step s ev).2) used := by
  unfold step
  rw [if_pos (by simp [ho])]
  cases ev with
  | openSock proto raw => exact open_ok hR hI ho proto raw
  | advance ms => exact advance_idle_ok hR hI.n ms _
  | _ => exact refused_ok hR _ _

theorem stepClosed_sim {s : State} {j : RespJ} (ho : s.opened = true) (hc : s.closed = true) (h : Rc j) (ev : Ev) :
    Rc (respStep j ev (step s ev).2) := by
  unfold step
  rw [if_neg (by simp [ho]), if_pos hc]
  cases ev with
  | advance ms => exact rc_advance h ms
  | _ => exact rc_refused h _ _

theorem rc_of_rel {s : State} {j : RespJ} {used : List Bytes} (hR : Rel s j used) (hc : s.closed = true) : Rc j :=
  ⟨hR.core.err, hR.core.closed.trans hc, hR.core.zero⟩

theorem closeAll_closed (s : State) : (closeAll s).1.closed = true := by
  unfold closeAll; rfl

/-! ### all steps -/

def Sim (s : State) (j : RespJ) (used : List Bytes) : Prop := Rel s j used ∨ (s.closed = true ∧ Rc j)

theorem step_sim {s : State} {j : RespJ} {used : List Bytes} (hI : MInv s) (h : Sim s j used) (ev : Ev)
    (hab : isAbort0 ev = false) (hb : ∀ b, sendBody ev = some b → b ∉ used) :
    Sim (step s ev).1 (respStep j ev (step s ev).2) (usedAfter ev used) := by
  rcases h with hR | ⟨hc, hrc⟩
  · cases ho : s.opened with
    | false => exact Or.inl ((stepIdle_sim hI hR ho ev).mono (used_mono ev used))
    | true =>
      cases hc : s.closed with
      | false =>
        have := stepLive_sim hI hR ho hc ev hab hb
        cases hcl : isClose ev with
        | false => rw [hcl] at this; exact Or.inl this
        | true =>
          rw [hcl] at this
          refine Or.inr ⟨?_, this⟩
          cases ev <;> first | cases hcl | skip
          have : step s .close = closeAll s := by
            unfold step; rw [if_neg (by simp [ho]), if_neg (by simp [hc])]
          rw [this]; exact closeAll_closed s
      | true =>
        exact Or.inr ⟨step_closed_of_closed s ev ho hc, stepClosed_sim ho hc (rc_of_rel hR hc) ev⟩
  · have ho := hI.co hc
    exact Or.inr ⟨step_closed_of_closed s ev ho hc, stepClosed_sim ho hc hrc ev⟩

theorem sim_err {s : State} {j : RespJ} {used : List Bytes} (h : Sim s j used) : j.err = none := by
  rcases h with h | ⟨_, h⟩
  · exact h.core.err
  · exact h.err

theorem judge_from : ∀ (evs : List Ev) (s : State) (j : RespJ) (used : List Bytes), MInv s → Sim s j used →
    NoAbort0 evs → (sendBodies evs).Nodup → (∀ b ∈ sendBodies evs, b ∉ used) →
    ((traceOf s evs).foldl (fun j x => respStep j x.1 x.2) j).err = none := by
  intro evs
  induction evs with
  | nil => intro s j used _ h _ _ _; exact sim_err h
  | cons e es ih =>
    intro s j used hI h hab hnd hfr
    simp only [traceOf, List.foldl_cons]
    have hab' : isAbort0 e = false := hab e List.mem_cons_self
    have hbe : ∀ b, sendBody e = some b → b ∉ used := by
      intro b hb
      apply hfr b
      unfold sendBodies
      simp only [List.filterMap_cons, hb]
      exact List.mem_cons_self
    refine ih (step s e).1 _ (usedAfter e used) (step_minv s e hI) (step_sim hI h e hab' hbe)
      (fun ev hev => hab ev (List.mem_cons_of_mem _ hev)) ?_ ?_
    · unfold sendBodies at hnd ⊢
      cases hs : sendBody e with
      | none => simpa [List.filterMap_cons, hs] using hnd
      | some b =>
        simp only [List.filterMap_cons, hs, List.nodup_cons] at hnd
        exact hnd.2
    · intro b hb
      unfold usedAfter
      cases hs : sendBody e with
      | none =>
        simp only
        apply hfr b
        unfold sendBodies at hb ⊢
        simpa [List.filterMap_cons, hs] using hb
      | some b' =>
        simp only [List.mem_cons, not_or]
        unfold sendBodies at hnd hb
        simp only [List.filterMap_cons, hs, List.nodup_cons] at hnd
        constructor
        · intro e'; subst e'; exact hnd.1 hb
        · apply hfr b
          unfold sendBodies
          simp only [List.filterMap_cons, hs]
          exact List.mem_cons_of_mem _ hb

theorem rel_init : Rel ({} : State) ({} : RespJ) [] := by
  refine ⟨⟨rfl, rfl, (fun h => by cases h), (fun _ => rfl), rfl, rfl, ?_, ?_, List.nodup_nil, ?_, ?_, List.nodup_nil, ?_⟩, ?_⟩
  · intro x; constructor
    · intro h; cases h
    · rintro ⟨c, hc, _⟩; cases hc
  · intro e; constructor
    · intro h; cases h
    · rintro ⟨c, hc, _⟩; cases hc
  · intro p; constructor
    · intro h; cases h
    · intro h; cases h
  · intro p; constructor
    · intro h; cases h
    · intro h; cases h
  · intro e h; cases h
  · intro r w h; cases h

/-- **the RESPONDENT judge accepts every trace of the RESPONDENT model**, for event lists whose send bodies are
    pairwise distinct and which do not use the harness-only `abort <aio> 0` -/
theorem resp_judge_accepts_model (evs : List Ev) (hb : (sendBodies evs).Nodup) (hab : NoAbort0 evs) :
    respJudge (evs.zip (run {} evs).2) = none := by
  unfold respJudge
  rw [← traceOf_eq_zip]
  exact judge_from evs {} {} [] minv_init (Or.inl rel_init) hab hb (fun b _ h => by cases h)

/-! ### the hypotheses are needed -/

/-- `abort <aio> 0` on a parked receive: "receive 0 succeeded without a message" -/
def abort0Evs : List Ev := [.openSock "respondent" false, .recv none 0 .inf, .abort 0 0]

theorem needs_no_abort0 : (sendBodies abort0Evs).Nodup ∧ respJudge (abort0Evs.zip (run {} abort0Evs).2) ≠ none := by decide

/-- two responses with the same body: the second one (direct, pipe 1) is taken for the first one, which is parked
    behind busy pipe 0: "response of send 3 went to pipe 1, but the survey last received came from pipe 0" -/
def dupBodyEvs : List Ev :=
  [.openSock "respondent" false, .pipeAdd 98, .pipeAdd 98, .ctxOpen 1,
   .recvDone 0 (.ok [0x80, 0, 0, 2, 9]), .recv (some 1) 0 .inf, .send (some 1) 1 ⟨[], [1]⟩ .inf,
   .recvDone 0 (.ok [0x80, 0, 0, 2, 9]), .recv (some 1) 2 .inf, .send (some 1) 3 ⟨[], [7]⟩ .inf,
   .recvDone 1 (.ok [0x80, 0, 0, 2, 9]), .recv none 4 .inf, .send none 5 ⟨[], [7]⟩ .inf]

theorem needs_distinct_bodies : NoAbort0 dupBodyEvs ∧ respJudge (dupBodyEvs.zip (run {} dupBodyEvs).2) ≠ none := by decide

/-! ### non-vacuity -/

/-- two pipes, a context, a direct response, a response parked behind a busy pipe, the recorded observation
    (the socket polls writable, the send is refused with NNG_ESTATE because its previous response is still parked),
    transport completion, a timed receive that expires, cancel, malformed and over-long surveys, context close,
    pipe loss, close -/
def demoEvs : List Ev :=
  [.openSock "respondent" false, .pipeAdd 98, .pipeAdd 98, .ctxOpen 1,
   .recvDone 0 (.ok [0, 0, 0, 1, 0x80, 0, 0, 2, 9]), .recv (some 1) 0 .inf, .send (some 1) 1 ⟨[], [5]⟩ .inf,
   .recvDone 0 (.ok [0x80, 0, 0, 3, 8]), .recv none 2 .inf, .send none 3 ⟨[], [6]⟩ .inf,
   .recvDone 1 (.ok [0x80, 0, 0, 4, 7]), .recv none 4 .inf, .poll, .send none 5 ⟨[], [7]⟩ .inf,
   .sendDone 0 0, .recv (some 1) 6 (.ms 50), .advance 60, .recv (some 1) 7 .inf, .cancel 7,
   .recvDone 0 (.ok [1, 2]), .setopt none "ttl-max" "int" 1, .recvDone 1 (.ok [0, 0, 0, 1, 0x80, 0, 0, 5, 3]),
   .send none 8 ⟨[], [10]⟩ .nb, .send none 9 ⟨[], [11]⟩ .inf, .ctxClose 1, .pipeDrop 1, .close, .advance 5]

example : (sendBodies demoEvs).Nodup ∧ NoAbort0 demoEvs := by decide

/-- the demo run is not trivial: the observation shows (poll: writable, then NNG_ESTATE), a response is parked and
    goes out when the transport completes, a receive times out -/
example : (run {} demoEvs).2.drop 12 =
    [[.poll (some false) (some true)], [.done 5 Err.estate none true],
     [.rv 0, .psend 0 ⟨[0x80, 0, 0, 3], [6]⟩, .done 3 0 none false], [], [.done 6 Err.etimedout none false], [],
     [.done 7 Err.ecanceled none false], [.rv 0, .pclosed 0], [.rv 0], [.rv 0, .parm 1],
     [.done 8 Err.eagain none true], [.psend 1 ⟨[0x80, 0, 0, 4], [11]⟩, .done 9 0 none false], [.rv 0], [.rv 0, .pclosed 1],
     [], []] := by decide

theorem demo_accepted : respJudge (demoEvs.zip (run {} demoEvs).2) = none :=
  resp_judge_accepts_model demoEvs (by decide) (by decide)

end Nng.RespJudge
