/-
  The RESPONDENT judge on single outputs (`respOut_*`), the bulk lemma for a list of completions that
  only remove parked operations (`fold_dones`), and the end-of-step checks.  Judge-only facts.
-/
import NngModel.Proofs.RespJudgeCut
namespace Nng.SurveySpec
open Nng Nng.Proto

/-- aios of all operations the judge has outstanding -/
def aiosOf (j : RespJ) : List Nat := j.pendRecv.map (·.1) ++ j.pendSend.map (·.aio)

def NoPsend (outs : List Out) (body : Bytes) : Prop := ∀ p m, Out.psend p m ∈ outs → m.body ≠ body

/-! ### outputs that the judge ignores -/

theorem respOut_rv (outs : List Out) (j : RespJ) (n : Int) : respOut outs j (.rv n) = j := rfl
theorem respOut_rv2 (outs : List Out) (j : RespJ) (n v : Int) : respOut outs j (.rv2 n v) = j := rfl
theorem respOut_pipe (outs : List Out) (j : RespJ) (n : Int) : respOut outs j (.pipe n) = j := rfl
theorem respOut_parm (outs : List Out) (j : RespJ) (p : Nat) : respOut outs j (.parm p) = j := rfl
theorem respOut_poll (outs : List Out) (j : RespJ) (r w : Option Bool) : respOut outs j (.poll r w) = j := rfl

theorem respOut_pclosed (outs : List Out) (j : RespJ) (p : Nat) :
    respOut outs j (.pclosed p) =
      { j with gone := j.gone ++ [p], arrivals := j.arrivals.filter (·.pipe != p), inflight := j.inflight.filter (· != p) } := rfl

/-! ### a response on the wire -/

theorem respOut_psend {outs : List Out} {j : RespJ} {p : Nat} {m : WMsg} {e : Expect}
    (h1 : p ∉ j.inflight) (hf : j.pendSend.find? (·.body == m.body) = some e)
    (hp : e.pipe = p) (hh : e.hdr = m.hdr) (hd : doneOf outs e.aio = some (0, none)) :
    respOut outs j (.psend p m) =
      { j with inflight := j.inflight ++ [p], pendSend := j.pendSend.filter (·.aio != e.aio) } := by
  unfold respOut
  simp [h1, hf, hp, hh, hd]

/-! ### completions -/

theorem respOut_done_none {outs : List Out} {j : RespJ} {a rv : Nat} {msg : Option WMsg} {mb : Bool}
    (h1 : j.pendRecv.find? (·.1 == a) = none) (h2 : j.pendSend.find? (·.aio == a) = none) :
    respOut outs j (.done a rv msg mb) = j := by
  unfold respOut
  simp only [h1, h2]

theorem respOut_done_recv_fail {outs : List Out} {j : RespJ} {a rv : Nat} {mb : Bool} {x : Nat × Option Nat × Bool}
    (hf : j.pendRecv.find? (·.1 == a) = some x) (h0 : rv ≠ 0) :
    respOut outs j (.done a rv none mb) = { j with pendRecv := j.pendRecv.filter (·.1 != a) } := by
  obtain ⟨n, rfl⟩ : ∃ n, rv = n + 1 := ⟨rv - 1, by omega⟩
  obtain ⟨x1, x2, x3⟩ := x
  unfold respOut
  simp only [hf]

theorem respOut_done_recv_ok {outs : List Out} {j : RespJ} {a : Nat} {mb : Bool} {x : Nat × Option Nat × Bool}
    {m : WMsg} {ar : RArrival} {rest : List RArrival} {c : RCtxJ}
    (hf : j.pendRecv.find? (·.1 == a) = some x) (hh : m.hdr = []) (harr : j.arrivals = ar :: rest)
    (hb : ar.body = m.body) (hc : j.getCtx x.2.1 = some c) :
    respOut outs j (.done a 0 (some m) mb) =
      RespJ.setCtx { j with pendRecv := j.pendRecv.filter (·.1 != a), arrivals := rest }
        { c with cur := some (ar.pipe, ar.hdr) } := by
  obtain ⟨x1, x2, x3⟩ := x
  have hc' : RespJ.getCtx { j with pendRecv := j.pendRecv.filter (·.1 != a), arrivals := rest } x2 = some c := hc
  have hc'' : RespJ.getCtx { j with pendRecv := j.pendRecv.filter (·.1 != a), arrivals := (ar :: rest).erase ar } x2 = some c := hc
  unfold respOut
  simp only [hf, hh, harr, List.isEmpty_nil, Bool.not_true, Bool.false_eq_true, ↓reduceIte, List.find?_cons, hb,
    beq_self_eq_true, hc'']
  simp

theorem respOut_done_send_fail {outs : List Out} {j : RespJ} {a rv : Nat} {msg : Option WMsg} {mb : Bool} {e : Expect}
    (h1 : j.pendRecv.find? (·.1 == a) = none) (h2 : j.pendSend.find? (·.aio == a) = some e)
    (hfr : e.fresh = false) (h0 : rv ≠ 0) :
    respOut outs j (.done a rv msg mb) = { j with pendSend := j.pendSend.filter (·.aio != a) } := by
  unfold respOut
  simp [h1, h2, hfr, h0]

theorem respOut_done_send_gone {outs : List Out} {j : RespJ} {a : Nat} {msg : Option WMsg} {mb : Bool} {e : Expect}
    (h1 : j.pendRecv.find? (·.1 == a) = none) (h2 : j.pendSend.find? (·.aio == a) = some e)
    (hfr : e.fresh = false) (hn : NoPsend outs e.body)
    (hg : (j.gone.contains e.pipe || outs.contains (.pclosed e.pipe)) = true) :
    respOut outs j (.done a 0 msg mb) = { j with pendSend := j.pendSend.filter (·.aio != a) } := by
  unfold respOut
  simp only [h1, h2, hfr, Bool.false_eq_true, ↓reduceIte, beq_self_eq_true]
  have hg' : ((RespJ.gone { j with pendSend := j.pendSend.filter (·.aio != a) }).contains e.pipe ||
      outs.contains (.pclosed e.pipe)) = true := hg
  rw [if_pos hg']
  split
  · rename_i h
    obtain ⟨o, ho, hp⟩ := List.any_eq_true.1 h
    cases o <;> simp at hp
    exact absurd hp (hn _ _ ho)
  · rfl

/-- a completion that only takes a parked operation off the judge's books -/
theorem respOut_done_remove {outs : List Out} {j : RespJ} {a rv : Nat} {mb : Bool}
    (hnd : (aiosOf j).Nodup)
    (h1 : ∀ x ∈ j.pendRecv, x.1 = a → rv ≠ 0)
    (h2 : ∀ e ∈ j.pendSend, e.aio = a → e.fresh = false ∧
      (rv = 0 → NoPsend outs e.body ∧ (j.gone.contains e.pipe || outs.contains (.pclosed e.pipe)) = true)) :
    respOut outs j (.done a rv none mb) =
      { j with pendRecv := j.pendRecv.filter (·.1 != a), pendSend := j.pendSend.filter (·.aio != a) } := by
  unfold aiosOf at hnd
  obtain ⟨_, _, hdis⟩ := List.nodup_append.1 hnd
  cases hf : j.pendRecv.find? (·.1 == a) with
  | some x =>
    have hx := List.mem_of_find?_eq_some hf
    have hxa : x.1 = a := by simpa using List.find?_some hf
    rw [respOut_done_recv_fail hf (h1 x hx hxa)]
    have : j.pendSend.filter (·.aio != a) = j.pendSend := by
      rw [List.filter_eq_self]
      intro e he
      have := hdis x.1 (List.mem_map.2 ⟨x, hx, rfl⟩) e.aio (List.mem_map.2 ⟨e, he, rfl⟩)
      simp only [bne_iff_ne, ne_eq]
      intro h; exact this (hxa.trans h.symm)
    rw [this]
  | none =>
    have hr : j.pendRecv.filter (·.1 != a) = j.pendRecv := by
      rw [List.filter_eq_self]
      intro x hx
      have := List.find?_eq_none.1 hf x hx
      simpa using this
    rw [hr]
    cases hs : j.pendSend.find? (·.aio == a) with
    | none =>
      rw [respOut_done_none hf hs]
      have : j.pendSend.filter (·.aio != a) = j.pendSend := by
        rw [List.filter_eq_self]
        intro e he
        have := List.find?_eq_none.1 hs e he
        simpa using this
      rw [this]
    | some e =>
      have he := List.mem_of_find?_eq_some hs
      have hea : e.aio = a := by simpa using List.find?_some hs
      obtain ⟨hfr, h3⟩ := h2 e he hea
      by_cases h0 : rv = 0
      · subst h0
        obtain ⟨hn, hg⟩ := h3 rfl
        rw [respOut_done_send_gone hf hs hfr hn hg]
      · rw [respOut_done_send_fail hf hs hfr h0]

/-! ### a list of such completions -/

def doneAio : Out → Option Nat
  | .done a _ _ _ => some a
  | _ => none

def doneAios (ds : List Out) : List Nat := ds.filterMap doneAio

/-- the condition under which `done a rv` merely removes -/
def Removes (outs : List Out) (j : RespJ) (o : Out) : Prop :=
  ∃ a rv mb, o = .done a rv none mb ∧
    (∀ x ∈ j.pendRecv, x.1 = a → rv ≠ 0) ∧
    (∀ e ∈ j.pendSend, e.aio = a → e.fresh = false ∧
      (rv = 0 → NoPsend outs e.body ∧ (j.gone.contains e.pipe || outs.contains (.pclosed e.pipe)) = true))

theorem fold_dones (outs : List Out) : ∀ (ds : List Out) (j : RespJ), (aiosOf j).Nodup →
    (∀ o ∈ ds, Removes outs j o) →
    ds.foldl (respOut outs) j =
      { j with pendRecv := j.pendRecv.filter (fun x => !(doneAios ds).contains x.1),
               pendSend := j.pendSend.filter (fun e => !(doneAios ds).contains e.aio) } := by
  intro ds
  induction ds with
  | nil =>
    intro j _ _
    have e1 : j.pendRecv.filter (fun x => !(doneAios []).contains x.1) = j.pendRecv := by
      rw [List.filter_eq_self]; intro x _; rfl
    have e2 : j.pendSend.filter (fun e => !(doneAios []).contains e.aio) = j.pendSend := by
      rw [List.filter_eq_self]; intro x _; rfl
    rw [e1, e2]; rfl
  | cons o rest ih =>
    intro j hnd hall
    obtain ⟨a, rv, mb, rfl, h1, h2⟩ := hall _ (List.mem_cons_self)
    simp only [List.foldl_cons]
    rw [respOut_done_remove hnd h1 h2]
    rw [ih]
    · simp only [List.filter_filter]
      have e1 : (fun (x : Nat × Option Nat × Bool) => (!(doneAios rest).contains x.1) && (x.1 != a)) =
          (fun x => !(doneAios (Out.done a rv none mb :: rest)).contains x.1) := by
        funext x
        simp only [doneAios, List.filterMap_cons, doneAio, List.contains_cons]
        cases (List.filterMap doneAio rest).contains x.1 <;> simp [bne]
      have e2 : (fun (e : Expect) => (!(doneAios rest).contains e.aio) && (e.aio != a)) =
          (fun e => !(doneAios (Out.done a rv none mb :: rest)).contains e.aio) := by
        funext e
        simp only [doneAios, List.filterMap_cons, doneAio, List.contains_cons]
        cases (List.filterMap doneAio rest).contains e.aio <;> simp [bne]
      rw [e1, e2]
    · unfold aiosOf at hnd ⊢
      exact List.Sublist.nodup (List.Sublist.append (List.Sublist.map _ List.filter_sublist)
        (List.Sublist.map _ List.filter_sublist)) hnd
    · intro o ho
      obtain ⟨a', rv', mb', rfl, g1, g2⟩ := hall _ (List.mem_cons_of_mem _ ho)
      refine ⟨a', rv', mb', rfl, ?_, ?_⟩
      · intro x hx; exact g1 x (List.mem_filter.1 hx).1
      · intro e he; exact g2 e (List.mem_filter.1 he).1

/-! ### end-of-step checks -/

theorem zeroChk_ok {j : RespJ} (h : ∀ x ∈ j.pendRecv, x.2.2 = false) : zeroChk j = j := by
  unfold zeroChk
  have : j.pendRecv.find? (·.2.2) = none := by
    rw [List.find?_eq_none]; intro x hx; simp [h x hx]
  rw [this]

theorem blockedChk_ok {outs : List Out} {j : RespJ} (h : hasBlocked outs = false) : blockedChk outs j = j := by
  unfold blockedChk; simp [h]

theorem pollChk_ok {ev : Ev} {outs : List Out} {j : RespJ} (h : pollClause j.lastPoll ev outs = none) :
    pollChk ev outs j = j := by
  unfold pollChk; rw [h]

theorem stallChk_ok {j : RespJ} (h : j.closed = true ∨ j.pendRecv = [] ∨ j.arrivals = []) : stallChk j = j := by
  unfold stallChk
  rcases h with h | h | h <;> simp [h]

theorem unfreshJ_id {j : RespJ} (h : ∀ e ∈ j.pendSend, e.fresh = false) : unfreshJ j = j := by
  unfold unfreshJ
  have : j.pendSend.map (fun e => { e with fresh := false }) = j.pendSend := by
    conv => rhs; rw [← List.map_id j.pendSend]
    apply List.map_congr_left
    intro e he
    have := h e he
    cases e; simp_all
  rw [this]

/-- the pollable clause only looks at non-blocking calls on the socket itself -/
theorem pollClause_none_of_lastPoll {ev : Ev} {outs : List Out} : pollClause none ev outs = none := by
  unfold pollClause; rfl

end Nng.SurveySpec
