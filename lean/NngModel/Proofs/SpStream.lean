/- lemmas for C01: scatter/gather bookkeeping, sender loop, receiver state machine -/
import NngModel.Model.SpStream
import NngModel.Proofs.BytesLemmas
import NngModel.Generated.C01
namespace Nng.Sp
open Nng

/-! ### iov bookkeeping -/

/-- well-formed aio: the count of valid entries fits the array -/
def AWF (a : Aio) : Prop := a.nio ≤ a.iov.length

theorem iovCount_eq_length (a : Aio) : iovCount a = (pending a).length := by
  simp [iovCount, pending, List.length_flatten]

theorem pending_cons (e0 : Bytes) (rest : List Bytes) (nio : Nat) (sf : Bool) (h : nio ≠ 0) :
    pending { iov := e0 :: rest, nio := nio, safe := sf } = e0 ++ (rest.take (nio - 1)).flatten := by
  obtain ⟨k, rfl⟩ := Nat.exists_eq_succ_of_ne_zero h
  simp [pending]

theorem pending_nio_zero (a : Aio) (h : a.nio = 0) : pending a = [] := by
  simp [pending, h]

theorem shiftIov_length (iov : List Bytes) (nio : Nat) (h : nio + 1 ≤ iov.length) :
    (shiftIov iov nio).length = iov.length := by
  simp [shiftIov, List.length_take, List.length_drop]; omega

theorem shiftIov_take (e0 : Bytes) (rest : List Bytes) (nio : Nat) (h : nio ≤ rest.length) :
    (shiftIov (e0 :: rest) nio).take nio = rest.take nio := by
  simp only [shiftIov, List.drop_succ_cons, List.drop_zero]
  rw [List.take_append_of_le_length (by simp [List.length_take]; omega)]
  simp [List.take_take]

/-- nni_aio_iov_advance by at most the pending count: in range, consumes exactly the
    first `n` pending bytes, returns 0 -/
theorem iovAdvanceGo_spec (a : Aio) (n residual : Nat) (hwf : AWF a) (hs : a.safe = true)
    (hn : n ≤ (pending a).length) (hres : residual = n) :
    (iovAdvanceGo a n residual).1.safe = true ∧ AWF (iovAdvanceGo a n residual).1 ∧
    (iovAdvanceGo a n residual).1.iov.length = a.iov.length ∧
    pending (iovAdvanceGo a n residual).1 = (pending a).drop n ∧
    (iovAdvanceGo a n residual).2 = 0 := by
  generalize hk : a.nio = k
  induction k using Nat.strongRecOn generalizing a n residual with
  | ind k ih =>
    by_cases h0 : n = 0
    · subst h0; subst hres
      have e : iovAdvanceGo a 0 0 = (a, 0) := by rw [iovAdvanceGo]; simp
      rw [e]; simp [hs, hwf]
    · obtain ⟨iov, nio, sf⟩ := a
      simp only at hs hk
      subst hs
      by_cases hnio : nio = 0
      · exfalso; rw [pending_nio_zero _ hnio] at hn; simp at hn; exact h0 hn
      · cases iov with
        | nil => exfalso; simp [AWF] at hwf; exact hnio hwf
        | cons e0 rest =>
          simp only [AWF, List.length_cons] at hwf
          rw [pending_cons _ _ _ _ hnio] at hn ⊢
          by_cases hgt : e0.length > n
          · have e : iovAdvanceGo ⟨e0 :: rest, nio, true⟩ n residual
                = (⟨(e0.drop n) :: rest, nio, true⟩, 0) := by
              rw [iovAdvanceGo]; simp [h0, hgt]
            rw [e]
            refine ⟨rfl, ?_, by simp, ?_, rfl⟩
            · simp [AWF]; omega
            · rw [pending_cons _ _ _ _ hnio, List.drop_append_of_le_length (by omega)]
          · have e : iovAdvanceGo ⟨e0 :: rest, nio, true⟩ n residual
                = iovAdvanceGo ⟨shiftIov (e0 :: rest) (nio - 1), nio - 1, true && decide (nio ≤ (e0 :: rest).length)⟩
                    (n - e0.length) (residual - e0.length) := by
              rw [iovAdvanceGo]; simp [h0, hgt, hnio]
            rw [e]
            have hlen : nio - 1 ≤ rest.length := by omega
            have hwf' : AWF ⟨shiftIov (e0 :: rest) (nio - 1), nio - 1, true && decide (nio ≤ (e0 :: rest).length)⟩ := by
              simp only [AWF]; rw [shiftIov_length _ _ (by simp; omega)]; simp; omega
            have hp' : pending ⟨shiftIov (e0 :: rest) (nio - 1), nio - 1, true && decide (nio ≤ (e0 :: rest).length)⟩
                = (rest.take (nio - 1)).flatten := by
              simp only [pending]; rw [shiftIov_take _ _ _ hlen]
            have hsafe' : (true && decide (nio ≤ (e0 :: rest).length)) = true := by simp; omega
            have := ih (nio - 1) (by omega) _ (n - e0.length) (residual - e0.length) hwf' hsafe'
              (by rw [hp']; simp at hn ⊢; omega) (by omega) rfl
            obtain ⟨r1, r2, r3, r4, r5⟩ := this
            refine ⟨r1, r2, ?_, ?_, r5⟩
            · rw [r3, shiftIov_length _ _ (by simp; omega)]
            · rw [r4, hp']
              have : n = e0.length + (n - e0.length) := by omega
              conv => rhs; rw [this, ← List.drop_drop]
              simp

theorem iovAdvance_spec (a : Aio) (n : Nat) (hwf : AWF a) (hs : a.safe = true)
    (hn : n ≤ iovCount a) :
    (iovAdvance a n).1.safe = true ∧ AWF (iovAdvance a n).1 ∧
    (iovAdvance a n).1.iov.length = a.iov.length ∧
    pending (iovAdvance a n).1 = (pending a).drop n ∧
    iovCount (iovAdvance a n).1 = iovCount a - n ∧
    (iovAdvance a n).2 = 0 := by
  rw [iovCount_eq_length] at hn
  obtain ⟨h1, h2, h3, h4, h5⟩ := iovAdvanceGo_spec a n n hwf hs hn rfl
  refine ⟨h1, h2, h3, h4, ?_, h5⟩
  rw [iovCount_eq_length, iovCount_eq_length]
  unfold iovAdvance; rw [h4]; simp

/-! ### sender loop -/

theorem txRun_spec (ns : List Nat) (a : Aio) (hwf : AWF a) (hs : a.safe = true)
    (hadm : Admissible (iovCount a) ns) :
    (txRun a ns).1.safe = true ∧ AWF (txRun a ns).1 ∧
    (txRun a ns).1.iov.length = a.iov.length ∧
    (txRun a ns).2 ++ pending (txRun a ns).1 = pending a := by
  induction ns generalizing a with
  | nil => simp [txRun, hs, hwf]
  | cons n ns ih =>
    obtain ⟨hle, hrest⟩ := hadm
    obtain ⟨h1, h2, h3, h4, h5, _⟩ := iovAdvance_spec a n hwf hs hle
    unfold txRun
    simp only []
    by_cases hc : iovCount (iovAdvance a n).1 > 0
    · rw [if_pos hc]
      have hlt : n < iovCount a := by omega
      have hadm' : Admissible (iovCount (iovAdvance a n).1) ns := by rw [h5]; exact hrest hlt
      obtain ⟨r1, r2, r3, r4⟩ := ih (iovAdvance a n).1 h2 h1 hadm'
      refine ⟨r1, r2, by rw [r3, h3], ?_⟩
      simp only [List.append_assoc]
      rw [r4, h4, List.take_append_drop]
    · rw [if_neg hc]
      refine ⟨h1, h2, h3, ?_⟩
      simp only []
      rw [h4, List.take_append_drop]

theorem pending_eq_nil_of_count (a : Aio) (h : iovCount a = 0) : pending a = [] := by
  rw [iovCount_eq_length] at h; exact List.eq_nil_of_length_eq_zero h

theorem txEntries_flatten (k : Kind) (m : SpMsg) : (txEntries k m).flatten = encode k m := by
  have hh : (if m.hdr.length > 0 then [m.hdr] else []).flatten = m.hdr := by
    by_cases h : m.hdr.length > 0
    · simp [h]
    · have : m.hdr = [] := List.eq_nil_of_length_eq_zero (by omega)
      simp [this]
  have hb : (if m.body.length > 0 then [m.body] else []).flatten = m.body := by
    by_cases h : m.body.length > 0
    · simp [h]
    · have : m.body = [] := List.eq_nil_of_length_eq_zero (by omega)
      simp [this]
  unfold txEntries
  rw [List.flatten_append, List.flatten_append, hh, hb]
  cases k <;> simp [encode, encodeTcp, encodeIpc, headBytes]

theorem txEntries_length_le (k : Kind) (m : SpMsg) : (txEntries k m).length ≤ 3 := by
  unfold txEntries
  by_cases h1 : m.hdr.length > 0 <;> by_cases h2 : m.body.length > 0 <;> simp [h1, h2]

theorem txStart_spec (k : Kind) (prev : Aio) (m : SpMsg) (hlen : prev.iov.length = maxIov)
    (hs : prev.safe = true) :
    (txStart k prev m).safe = true ∧ AWF (txStart k prev m) ∧ (txStart k prev m).iov.length = maxIov ∧
    pending (txStart k prev m) = encode k m := by
  have h3 := txEntries_length_le k m
  have hmax : maxIov = 8 := rfl
  have hle : ¬ (txEntries k m).length > prev.iov.length := by omega
  unfold txStart setIov
  rw [if_neg hle]
  refine ⟨hs, ?_, ?_, ?_⟩
  · simp [AWF]
  · simp [List.length_drop]; omega
  · simp only [pending]
    rw [List.take_append_of_le_length (by omega), List.take_of_length_le (by omega)]
    exact txEntries_flatten k m

/-! ### receiver -/

/-- the receive path waiting for a new frame: nothing gathered, header read armed -/
def idle (c : Cfg) (o : List Bytes) : Rx :=
  { head := [], want := c.kind.headLen, msg := none, err := 0, out := o }

theorem rxInit_eq_idle (c : Cfg) : rxInit c.kind = idle c [] := rfl

theorem rxFeed_err (c : Cfg) (s : Rx) (d : Bytes) (h : s.err ≠ 0) : rxFeed c s d = s := by
  rw [rxFeed]; simp [h]

theorem rxFeed_nil (c : Cfg) (s : Rx) : rxFeed c s [] = s := by
  rw [rxFeed]; simp

theorem rxFeed_want0 (c : Cfg) (s : Rx) (d : Bytes) (h : s.want = 0) : rxFeed c s d = s := by
  rw [rxFeed]; simp [h]

theorem rxFeed_step (c : Cfg) (s : Rx) (d : Bytes) (he : s.err = 0) (hd : d ≠ []) (hw : s.want ≠ 0) :
    rxFeed c s d = rxFeed c (rxRead c s (d.take (min d.length s.want))) (d.drop (min d.length s.want)) := by
  rw [rxFeed]; simp [he, hd, hw]

/-- a read that does not fill the request only stores the data -/
theorem rxRead_partial (c : Cfg) (s : Rx) (d : Bytes) (h : d.length < s.want) :
    rxRead c s d =
      (match s.msg with
       | none => { s with head := s.head ++ d, want := s.want - d.length }
       | some b => { s with msg := some (b ++ d), want := s.want - d.length }) := by
  unfold rxRead
  cases hm : s.msg with
  | none => simp only []; rw [if_pos (by simp; omega)]
  | some b => simp only []; rw [if_pos (by simp; omega)]

theorem rxRead_partial_err (c : Cfg) (s : Rx) (d : Bytes) (h : d.length < s.want) :
    (rxRead c s d).err = s.err ∧ (rxRead c s d).want = s.want - d.length ∧ (rxRead c s d).out = s.out := by
  rw [rxRead_partial c s d h]
  cases s.msg <;> simp

/-- two short reads are the same as one read of both pieces -/
theorem rxRead_append (c : Cfg) (s : Rx) (d1 d2 : Bytes) (h : d1.length < s.want) :
    rxRead c s (d1 ++ d2) = rxRead c (rxRead c s d1) d2 := by
  rw [rxRead_partial c s d1 h]
  unfold rxRead
  cases hm : s.msg with
  | none => simp [List.append_assoc, Nat.sub_sub]
  | some b => simp [List.append_assoc, Nat.sub_sub]

theorem rxFeed_append (c : Cfg) (a b : Bytes) (s : Rx) :
    rxFeed c s (a ++ b) = rxFeed c (rxFeed c s a) b := by
  generalize hk : a.length = k
  induction k using Nat.strongRecOn generalizing a s with
  | ind k ih =>
    by_cases he : s.err = 0
    · by_cases ha : a = []
      · subst ha; simp [rxFeed_nil]
      · by_cases hw : s.want = 0
        · rw [rxFeed_want0 c s _ hw, rxFeed_want0 c s _ hw, rxFeed_want0 c s _ hw]
        · have hapos : a.length ≠ 0 := by intro h; exact ha (List.eq_nil_of_length_eq_zero h)
          by_cases hge : s.want ≤ a.length
          · -- the first read is served from `a` alone
            rw [rxFeed_step c s (a ++ b) he (by simp [ha]) hw, rxFeed_step c s a he ha hw]
            have m1 : min (a ++ b).length s.want = s.want := by simp; omega
            have m2 : min a.length s.want = s.want := by omega
            rw [m1, m2, List.take_append_of_le_length hge, List.drop_append_of_le_length hge]
            exact ih (a.drop s.want).length (by simp; omega) _ _ rfl
          · -- `a` is shorter than the request: it is stored, the read continues into `b`
            have hlt : a.length < s.want := by omega
            have hfa : rxFeed c s a = rxRead c s a := by
              rw [rxFeed_step c s a he ha hw]
              have m2 : min a.length s.want = a.length := by omega
              rw [m2, List.take_length, List.drop_length, rxFeed_nil]
            rw [hfa]
            by_cases hb : b = []
            · subst hb; rw [rxFeed_nil, List.append_nil, hfa]
            · obtain ⟨e1, e2, _⟩ := rxRead_partial_err c s a hlt
              have hbpos : b.length ≠ 0 := by intro h; exact hb (List.eq_nil_of_length_eq_zero h)
              rw [rxFeed_step c s (a ++ b) he (by simp [ha]) hw,
                rxFeed_step c (rxRead c s a) b (by rw [e1]; exact he) hb (by rw [e2]; omega)]
              rw [e2]
              have m1 : min (a ++ b).length s.want = a.length + min b.length (s.want - a.length) := by
                simp; omega
              rw [m1, List.take_append, List.drop_append]
              simp only [Nat.add_sub_cancel_left]
              rw [List.take_of_length_le (by omega), List.drop_of_length_le (by omega), List.nil_append]
              rw [rxRead_append c s a _ hlt]
    · rw [rxFeed_err c s _ he, rxFeed_err c s _ he, rxFeed_err c s _ he]

theorem rxRun_eq_feed (c : Cfg) (chunks : List Bytes) (s : Rx) :
    rxRun c s chunks = rxFeed c s chunks.flatten := by
  induction chunks generalizing s with
  | nil => simp [rxRun, rxFeed_nil]
  | cons x xs ih =>
    simp only [rxRun, List.foldl_cons, List.flatten_cons] at ih ⊢
    rw [ih, rxFeed_append]

/-! ### whole frames -/

/-- the receiver accepts a payload of `n` bytes: nni_msg_size_valid and the rcvmax rule -/
def Fits (c : Cfg) (n : Nat) : Prop :=
  n ≤ Generated.c01MaxStreamMsgSz ∧ (c.rcvmax = 0 ∨ n ≤ c.rcvmax)

theorem headBytes_length (k : Kind) (n : Nat) : (headBytes k n).length = k.headLen := by
  cases k <;> simp [headBytes, be64, Kind.headLen, Generated.c01TcpHeadLen, Generated.c01IpcHeadLen]

theorem be64_roundtrip (n : Nat) (h : n < 2 ^ 64) : beDecode (be64 n) = n := by
  unfold be64
  rw [Nng.Msg.beDecode_beEncode]
  exact Nat.mod_eq_of_lt (by simpa using h)

theorem fits_lt (c : Cfg) (n : Nat) (h : Fits c n) : n < 2 ^ 64 := by
  have := h.1
  simp only [Generated.c01MaxStreamMsgSz] at this
  omega

theorem rxHeader_ok (c : Cfg) (n : Nat) (o : List Bytes) (h : Fits c n) :
    rxHeader c ⟨headBytes c.kind n, 0, none, 0, o⟩ =
      if n = 0 then idle c (o ++ [[]]) else ⟨headBytes c.kind n, n, some [], 0, o⟩ := by
  have hlt := fits_lt c n h
  have hdec := be64_roundtrip n hlt
  obtain ⟨hv, hm⟩ := h
  have hvalid : sizeValid n = true := by simp [sizeValid, hv]
  have hmax : ¬ (n > c.rcvmax ∧ c.rcvmax > 0) := by omega
  obtain ⟨kind, rcvmax⟩ := c
  cases kind with
  | tcp =>
    unfold rxHeader
    simp only [headBytes, Kind.headLen, Generated.c01TcpHeadLen, Nat.sub_self, List.drop_zero, hdec]
    rw [if_neg (by simp), hvalid]
    simp only [Bool.not_true, Bool.false_eq_true, ↓reduceIte]
    rw [if_neg hmax]
    by_cases h0 : n = 0
    · simp [h0, rxDeliver, idle, Kind.headLen, Generated.c01TcpHeadLen]
    · simp [h0]
  | ipc =>
    unfold rxHeader
    simp only [headBytes, Kind.headLen, Generated.c01IpcHeadLen, List.headD_cons]
    rw [if_neg (by simp)]
    have : List.drop (9 - 8) (UInt8.ofNat Generated.c01IpcMsgType :: be64 n) = be64 n := by simp
    simp only [this, hdec, hvalid, Bool.not_true, Bool.false_eq_true, ↓reduceIte]
    rw [if_neg hmax]
    by_cases h0 : n = 0
    · simp [h0, rxDeliver, idle, Kind.headLen, Generated.c01IpcHeadLen]
    · simp [h0]

theorem rxRead_head (c : Cfg) (n : Nat) (o : List Bytes) (h : Fits c n) :
    rxRead c (idle c o) (headBytes c.kind n) =
      if n = 0 then idle c (o ++ [[]]) else ⟨headBytes c.kind n, n, some [], 0, o⟩ := by
  unfold rxRead idle
  simp only [List.nil_append, headBytes_length, Nat.sub_self, Nat.lt_irrefl, ↓reduceIte]
  exact rxHeader_ok c n o h

theorem rxRead_body (c : Cfg) (hd p : Bytes) (o : List Bytes) :
    rxRead c ⟨hd, p.length, some [], 0, o⟩ p = idle c (o ++ [p]) := by
  unfold rxRead
  simp [rxDeliver, idle]

/-- one complete frame at the front of the available data is delivered whole, and the
    receive path is idle again in front of the rest -/
theorem rxFeed_frame (c : Cfg) (m : SpMsg) (rest : Bytes) (o : List Bytes) (h : Fits c m.size) :
    rxFeed c (idle c o) (encode c.kind m ++ rest) = rxFeed c (idle c (o ++ [m.flat])) rest := by
  have henc : encode c.kind m = headBytes c.kind m.size ++ m.flat := by
    cases hk : c.kind <;> simp [encode, encodeTcp, encodeIpc, headBytes, SpMsg.size, SpMsg.flat]
  have hpos : c.kind.headLen ≠ 0 := by
    cases c.kind <;> simp [Kind.headLen, Generated.c01TcpHeadLen, Generated.c01IpcHeadLen]
  have hflat : m.flat.length = m.size := by simp [SpMsg.flat, SpMsg.size]
  rw [henc, List.append_assoc]
  rw [rxFeed_step c (idle c o) _ rfl (by
        intro hnil
        have := congrArg List.length hnil
        simp [headBytes_length] at this; omega) hpos]
  have m1 : min (headBytes c.kind m.size ++ (m.flat ++ rest)).length (idle c o).want = (headBytes c.kind m.size).length := by
    simp [idle, headBytes_length]
  rw [m1, List.take_left, List.drop_left, rxRead_head c m.size o h]
  by_cases h0 : m.size = 0
  · rw [if_pos h0]
    have : m.flat = [] := List.eq_nil_of_length_eq_zero (by omega)
    rw [this, List.nil_append]
  · rw [if_neg h0]
    rw [rxFeed_step c _ _ rfl (by
          intro hnil
          have h1 := (List.append_eq_nil_iff.mp hnil).1
          rw [h1] at hflat; simp at hflat; omega) h0]
    have m2 : min (m.flat ++ rest).length (⟨headBytes c.kind m.size, m.size, some [], 0, o⟩ : Rx).want = m.flat.length := by
      simp [hflat]
    rw [m2, List.take_left, List.drop_left, ← hflat, rxRead_body]

theorem rxFeed_stream (c : Cfg) (ms : List SpMsg) (rest : Bytes) (o : List Bytes)
    (h : ∀ m ∈ ms, Fits c m.size) :
    rxFeed c (idle c o) (stream c.kind ms ++ rest) = rxFeed c (idle c (o ++ ms.map SpMsg.flat)) rest := by
  induction ms generalizing o with
  | nil => simp [stream]
  | cons m ms ih =>
    have hm := h m (by simp)
    have hms : ∀ x ∈ ms, Fits c x.size := fun x hx => h x (by simp [hx])
    have : stream c.kind (m :: ms) = encode c.kind m ++ stream c.kind ms := by simp [stream]
    rw [this, List.append_assoc, rxFeed_frame c m _ o hm, ih _ hms]
    simp [List.append_assoc]

/-- feeding never removes anything from the delivered list -/
theorem rxRead_out_mono (c : Cfg) (s : Rx) (d : Bytes) : ∃ l, (rxRead c s d).out = s.out ++ l := by
  unfold rxRead
  cases hm : s.msg with
  | none =>
    simp only []
    split
    · exact ⟨[], by simp⟩
    · simp only [rxHeader]
      split
      · exact ⟨[], by simp [rxFail]⟩
      · split
        · exact ⟨[], by simp [rxFail]⟩
        · split
          · exact ⟨[], by simp [rxFail]⟩
          · split
            · exact ⟨[], by simp⟩
            · exact ⟨[[]], by simp [rxDeliver]⟩
  | some b =>
    simp only []
    split
    · exact ⟨[], by simp⟩
    · exact ⟨[b ++ d], by simp [rxDeliver]⟩

theorem rxFeed_out_mono (c : Cfg) (d : Bytes) (s : Rx) : ∃ l, (rxFeed c s d).out = s.out ++ l := by
  generalize hk : d.length = k
  induction k using Nat.strongRecOn generalizing d s with
  | ind k ih =>
    by_cases he : s.err = 0
    · by_cases hd : d = []
      · subst hd; exact ⟨[], by simp [rxFeed_nil]⟩
      · by_cases hw : s.want = 0
        · exact ⟨[], by simp [rxFeed_want0 c s _ hw]⟩
        · rw [rxFeed_step c s d he hd hw]
          have hdpos : d.length ≠ 0 := by intro h; exact hd (List.eq_nil_of_length_eq_zero h)
          obtain ⟨l1, h1⟩ := rxRead_out_mono c s (d.take (min d.length s.want))
          obtain ⟨l2, h2⟩ := ih (d.drop (min d.length s.want)).length (by simp; omega) _
            (rxRead c s (d.take (min d.length s.want))) rfl
          exact ⟨l1 ++ l2, by rw [h2, h1, List.append_assoc]⟩
    · exact ⟨[], by simp [rxFeed_err c s _ he]⟩
