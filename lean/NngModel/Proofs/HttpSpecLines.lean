/-
  C16 (HTTP layer): the model's meaning of request lines (`msem true`: http_req_parse_line, http_parse_header,
  nni_http_add_header with its header NODES — the embedded Host / Content-Type / Content-Length nodes are
  unlinked by identity) is the specification's (`HttpSpec.reqSem`: header fields by NAME).
  The two agree because of an invariant of the header list that every operation of the request parser keeps:
  the node tagged "host_header" is exactly the header named Host, the nodes tagged content_type /
  content_length are named Content-Type / Content-Length (`TagsOk`).
-/
import NngModel.Proofs.HttpSemRel
namespace Nng.HttpConn
open Nng

/-- name and value of a header node -/
def nv (h : Hdr) : Bytes × Bytes := (h.name, h.value)

def TagOk (h : Hdr) : Prop :=
  (h.tag = 1 ↔ ieq sHost h.name = true) ∧ (h.tag = 2 → ieq sContentType h.name = true) ∧
    (h.tag = 3 → ieq sContentLength h.name = true)

/-- the embedded nodes carry the names they are meant for, and no other node is named Host -/
def TagsOk (hs : List Hdr) : Prop := ∀ h ∈ hs, TagOk h

theorem tagsOk_nil : TagsOk [] := by intro h hm; cases hm

theorem tagsOk_filter (hs : List Hdr) (p : Hdr → Bool) (h : TagsOk hs) : TagsOk (hs.filter p) :=
  fun x hx => h x (List.mem_filter.mp hx).1

theorem tagsOk_append (a b : List Hdr) (ha : TagsOk a) (hb : TagsOk b) : TagsOk (a ++ b) := by
  intro x hx
  rcases List.mem_append.mp hx with h | h
  · exact ha x h
  · exact hb x h

theorem tagsOk_cons (a : Hdr) (b : List Hdr) (ha : TagOk a) (hb : TagsOk b) : TagsOk (a :: b) := by
  intro x hx
  rcases List.mem_cons.mp hx with h | h
  · rw [h]; exact ha
  · exact hb x h

/-! ### http_add_header / combine -/

theorem addPlain_map (hs : List Hdr) (k v : Bytes) : (addPlain hs k v).map nv = HttpSpec.combine (hs.map nv) k v := by
  induction hs with
  | nil => rfl
  | cons h r ih =>
    unfold addPlain
    rw [List.map_cons]
    unfold HttpSpec.combine
    have hn : (nv h).1 = h.name := rfl
    rw [hn, sameName_eq]
    by_cases hk : ieq k h.name = true
    · rw [if_pos hk, if_pos hk]; rfl
    · rw [if_neg hk, if_neg hk, List.map_cons, ih]

theorem addPlain_tags (hs : List Hdr) (k v : Bytes) (h : TagsOk hs) (hk : ieq sHost k = false) : TagsOk (addPlain hs k v) := by
  induction hs with
  | nil =>
    unfold addPlain
    apply tagsOk_cons _ _ _ tagsOk_nil
    refine ⟨?_, ?_, ?_⟩
    · simp [hk]
    · intro h0; cases h0
    · intro h0; cases h0
  | cons a r ih =>
    unfold addPlain
    have ha : TagOk a := h a (by simp)
    have hr : TagsOk r := fun x hx => h x (by simp [hx])
    by_cases hka : ieq k a.name = true
    · rw [if_pos hka]
      exact tagsOk_cons _ _ ha hr
    · rw [if_neg hka]
      exact tagsOk_cons _ _ ha (ih hr)

/-! ### nni_http_del_header, nni_http_set_static_header, nni_http_set_host -/

theorem delHeader_map (hs : List Hdr) (k : Bytes) : (delHeader hs k).map nv = HttpSpec.without (hs.map nv) k := by
  unfold delHeader HttpSpec.without
  induction hs with
  | nil => rfl
  | cons h r ih =>
    rw [List.map_cons, List.filter_cons, List.filter_cons]
    have hn : (nv h).1 = h.name := rfl
    rw [hn, sameName_eq]
    by_cases hk : (!ieq k h.name) = true
    · rw [if_pos hk, if_pos hk, List.map_cons, ih]
    · rw [if_neg hk, if_neg hk, ih]

theorem setStatic_map (hs : List Hdr) (t : Nat) (key val : Bytes) (h : ∀ x ∈ hs, x.tag = t → ieq key x.name = true) :
    (setStatic hs t key val).map nv = HttpSpec.without (hs.map nv) key ++ [(key, val)] := by
  unfold setStatic
  have hf : (delHeader hs key).filter (fun x => x.tag != t) = delHeader hs key := by
    rw [List.filter_eq_self]
    intro a ha
    unfold delHeader at ha
    obtain ⟨h1, h2⟩ := List.mem_filter.mp ha
    have : ¬ a.tag = t := by
      intro e
      have := h a h1 e
      rw [this] at h2
      cases h2
    simpa using this
  rw [hf, List.map_append, delHeader_map]
  rfl

theorem setStatic_tags (hs : List Hdr) (t : Nat) (key val : Bytes) (h : TagsOk hs)
    (hnew : TagOk { name := key, value := val, tag := t }) : TagsOk (setStatic hs t key val) := by
  unfold setStatic delHeader
  exact tagsOk_append _ _ (tagsOk_filter _ _ (tagsOk_filter _ _ h)) (tagsOk_cons _ _ hnew tagsOk_nil)

theorem setHostHdr_map (hs : List Hdr) (v : Bytes) (h : TagsOk hs) :
    (setHostHdr hs v).map nv = (sHost, v) :: HttpSpec.without (hs.map nv) sHost := by
  unfold setHostHdr
  have hf : hs.filter (fun x => x.tag != 1) = delHeader hs sHost := by
    unfold delHeader
    apply List.filter_congr
    intro x hx
    have := (h x hx).1
    by_cases ht : x.tag = 1
    · have hi := this.mp ht
      simp [ht, hi]
    · have hi : ieq sHost x.name = false := by
        cases hq : ieq sHost x.name with
        | false => rfl
        | true => exact absurd (this.mpr hq) ht
      simp [ht, hi]
  rw [List.map_cons, hf, delHeader_map]
  rfl

theorem setHostHdr_tags (hs : List Hdr) (v : Bytes) (h : TagsOk hs) : TagsOk (setHostHdr hs v) := by
  unfold setHostHdr
  apply tagsOk_cons _ _ _ (tagsOk_filter _ _ h)
  refine ⟨?_, ?_, ?_⟩
  · constructor
    · intro _; show ieq sHost sHost = true; decide
    · intro _; rfl
  · intro h0; cases h0
  · intro h0; cases h0

/-! ### nni_http_add_header on the request list = the specification's addField -/

theorem names_distinct : ieq sHost sContentType = false ∧ ieq sHost sContentLength = false ∧
    ieq sContentType sContentType = true ∧ ieq sContentLength sContentLength = true ∧ ieq sHost sHost = true := by decide

/-- the fields of the message that header operations leave alone -/
theorem addHeader_fields (m : Msg) (cl : Bool) (k v : Bytes) :
    (addHeader m cl k v).parsedReq = m.parsedReq ∧ (addHeader m cl k v).parsedRes = m.parsedRes ∧
    (addHeader m cl k v).code = m.code ∧ (addHeader m cl k v).rsn = m.rsn ∧ (addHeader m cl k v).meth = m.meth ∧
    (addHeader m cl k v).uri = m.uri ∧ (addHeader m cl k v).vers = m.vers := by
  unfold addHeader setKnown withHdrs
  by_cases h1 : ieq k sContentType = true
  · rw [if_pos h1]; cases cl <;> simp
  · rw [if_neg h1]
    by_cases h2 : ieq k sContentLength = true
    · rw [if_pos h2]; cases cl <;> simp
    · rw [if_neg h2]
      by_cases h3 : (cl && ieq k sHost) = true
      · rw [if_pos h3]; simp
      · rw [if_neg h3]; cases cl <;> simp

structure HdrParams (p : HttpSpec.Params) : Prop where
  host : p.hostMax = hostSize - 1
  ctype : p.ctypeMax = ctypeSize - 1
  clen : p.clenMax = clenSize - 1

theorem addHeader_req (p : HttpSpec.Params) (hp : HdrParams p) (m : Msg) (k v : Bytes) (h : TagsOk m.reqHdrs) :
    (addHeader m true k v).reqHdrs.map nv = HttpSpec.addField p true (m.reqHdrs.map nv) k v ∧
      TagsOk (addHeader m true k v).reqHdrs := by
  have e1 : HttpSpec.sContentType = sContentType := rfl
  have e2 : HttpSpec.sContentLength = sContentLength := rfl
  have e3 : HttpSpec.sHost = sHost := rfl
  obtain ⟨n1, n2, n3, n4, n5⟩ := names_distinct
  unfold addHeader setKnown HttpSpec.addField
  rw [sameName_eq, sameName_eq, sameName_eq, e1, e2, e3, hp.host, hp.ctype, hp.clen]
  simp only [hdrsOf, withHdrs, if_true, Bool.true_and]
  by_cases h1 : ieq k sContentType = true
  · rw [if_pos h1, if_pos h1]
    refine ⟨setStatic_map _ _ _ _ (fun x hx ht => (h x hx).2.1 ht), setStatic_tags _ _ _ _ h ⟨?_, ?_, ?_⟩⟩
    · simp [n1]
    · intro _; exact n3
    · intro h0; cases h0
  · rw [if_neg h1, if_neg h1]
    by_cases h2 : ieq k sContentLength = true
    · rw [if_pos h2, if_pos h2]
      refine ⟨setStatic_map _ _ _ _ (fun x hx ht => (h x hx).2.2 ht), setStatic_tags _ _ _ _ h ⟨?_, ?_, ?_⟩⟩
      · simp [n2]
      · intro h0; cases h0
      · intro _; exact n4
    · rw [if_neg h2, if_neg h2]
      by_cases h3 : ieq k sHost = true
      · rw [if_pos h3, if_pos h3]
        exact ⟨setHostHdr_map _ _ h, setHostHdr_tags _ _ h⟩
      · rw [if_neg h3, if_neg h3]
        have h3' : ieq sHost k = false := by
          rw [ieq_comm]; simpa using h3
        exact ⟨addPlain_map _ _ _, addPlain_tags _ _ _ h h3'⟩

/-! ### the relation between the model's message state and the specification's request -/

structure RR (m : Msg) (r : HttpSpec.Req) : Prop where
  started : m.parsedReq = r.started
  status : m.code = r.status
  meth : m.meth = r.meth
  uri : getUri m = r.uri
  vers : m.vers = r.vers
  hdrs : m.reqHdrs.map nv = r.hdrs
  tags : TagsOk m.reqHdrs

structure ReqParams (p : HttpSpec.Params) : Prop extends HdrParams p where
  versions : p.versions = versions
  canon : p.canon = Url.canonify
  meth : p.methMax = methSize - 1

theorem status_consts : stOk = 200 ∧ stBadRequest = 400 ∧ stVersionNotSupp = 505 ∧ stHeadersTooLarge = 431 ∧
    stUriTooLong = 414 := by decide

theorem effStatus_eq (m : Msg) (r : HttpSpec.Req) (h : m.code = r.status) : getStatus m = r.effStatus := by
  unfold getStatus HttpSpec.Req.effStatus
  rw [h, status_consts.1]

theorem getUri_setUri (m : Msg) (u : Bytes) : getUri (setUri m u) = if u.isEmpty then sSlash else u := rfl

/-- http_req_parse_line = the specification's requestLine -/
theorem reqParseLine_rel (p : HttpSpec.Params) (hp : ReqParams p) (m : Msg) (r : HttpSpec.Req) (line : Bytes)
    (h : RR m r) : RR (reqParseLine m line) (HttpSpec.requestLine p r line) := by
  obtain ⟨c200, c400, c505, _, _⟩ := status_consts
  have eSP : HttpSpec.SP = SP := rfl
  have eSl : HttpSpec.sSlash = sSlash := rfl
  unfold reqParseLine HttpSpec.requestLine
  rw [← effStatus_eq m r h.status, c400, eSP, splitFirst_eq]
  by_cases hs : getStatus m ≥ 400
  · rw [if_pos hs, if_pos hs]; exact h
  · rw [if_neg hs, if_neg hs]
    have hbad : ∀ code, RR (setStatus m code) { r with status := code } := by
      intro code
      exact ⟨h.started, rfl, h.meth, h.uri, h.vers, h.hdrs, h.tags⟩
    cases h1 : strchr SP line with
    | none => exact hbad 400
    | some q =>
      obtain ⟨method, r1⟩ := q
      simp only
      rw [splitFirst_eq]
      cases h2 : strchr SP r1 with
      | none => exact hbad 400
      | some q2 =>
        obtain ⟨uri, version⟩ := q2
        simp only
        rw [hp.canon]
        cases h3 : Url.canonify uri with
        | none => exact hbad 400
        | some u =>
          simp only [setVersion]
          rw [hp.versions, hp.meth, c505]
          by_cases hv : versions.contains version = true
          · rw [if_pos hv, if_pos hv]
            simp only
            refine ⟨h.started, h.status, rfl, ?_, rfl, h.hdrs, h.tags⟩
            rw [eSl]; rfl
          · rw [if_neg hv, if_neg hv]
            exact hbad 505

theorem rv_zero : rvOk = 0 ∧ rvAgain = 8 := by decide

/-- THE simulation: the model's line meaning for requests against the specification's -/
theorem msem_reqSem (hflag : reqIgnoresHeaderError = true) (p : HttpSpec.Params) (hp : ReqParams p) :
    SemRel RR (msem true) (HttpSpec.reqSem p) := by
  obtain ⟨_, _, _, c431, c414⟩ := status_consts
  refine ⟨?_, ?_, ?_⟩
  · intro m r line h
    simp only [msem, lineStep, if_true, reqLineStep, HttpSpec.reqSem, hflag]
    rw [← h.started]
    by_cases hp1 : m.parsedReq = true
    · rw [if_pos hp1, if_pos hp1, headerLine_eq]
      unfold parseHeader
      cases hc : strchr COLON line with
      | none => exact ⟨rv_zero.1, h⟩
      | some kv =>
        obtain ⟨k, v⟩ := kv
        simp only [Option.map_some]
        refine ⟨rv_zero.1, ?_⟩
        obtain ⟨f1, _, f3, _, f5, f6, f7⟩ := addHeader_fields m true k (trimTrail (trimLead v))
        obtain ⟨a1, a2⟩ := addHeader_req p hp.toHdrParams m k (trimTrail (trimLead v)) h.tags
        refine ⟨f1, f3.trans h.status, f5.trans h.meth, ?_, f7.trans h.vers, ?_, a2⟩
        · have : getUri (addHeader m true k (trimTrail (trimLead v))) = getUri m := by unfold getUri; rw [f6]
          rw [this]; exact h.uri
        · rw [a1, h.hdrs]
    · rw [if_neg hp1, if_neg hp1]
      refine ⟨rv_zero.1, ?_⟩
      apply reqParseLine_rel p hp
      exact ⟨rfl, h.status, h.meth, h.uri, h.vers, h.hdrs, h.tags⟩
  · intro m r h
    right
    refine ⟨_, _, rfl, rfl, ?_⟩
    rw [← h.started, c431, c414]
    exact ⟨rfl, rfl, h.meth, h.uri, h.vers, h.hdrs, h.tags⟩
  · intro m r h
    have he : emptyRv true m = rvOk := by simp [emptyRv]
    simp only [msem, he, HttpSpec.reqSem]
    refine ⟨rv_zero.1, ?_⟩
    have hpe : (parseEnd true m 0 rvOk).m = { m with parsedReq := false } := by
      simp [parseEnd, rv_zero.1, rv_zero.2]
    rw [hpe]
    exact ⟨rfl, h.status, h.meth, h.uri, h.vers, h.hdrs, h.tags⟩

/-- the initial states: a fresh connection after nni_http_conn_reset against the specification's empty request -/
theorem init_rel : RR (connReset {}) { vers := defaultVersion } := by
  refine ⟨rfl, rfl, rfl, ?_, rfl, rfl, ?_⟩
  · decide
  · have : (connReset {}).reqHdrs = [] := by decide
    rw [this]; exact tagsOk_nil

end Nng.HttpConn
