/- basic lemmas about the poller-layer model (Model/Pfd.lean): event sets, frames of threads after a step -/
import NngModel.Model.PfdObs
import NngModel.Proofs.PfdAttr
namespace Nng.Pfd
open Nng.PfdSpec

/-- the frame thread `t` is in (the poller's = that of the running callback) -/
def frameOf (s : State) : Tid → Frame
  | .p => s.p.frame
  | .c i => match s.cs[i]? with
    | some c => c.frame
    | none => .idle

/-- the call thread `t` is in / about to begin -/
def opOf (s : State) : Tid → Option Op
  | .p => s.p.rem.head?
  | .c i => match s.cs[i]? with
    | some c => c.prog.head?
    | none => none

theorem frameOf_c {s : State} {i : Nat} {c : Client} (h : s.cs[i]? = some c) : frameOf s (.c i) = c.frame := by
  simp [frameOf, h]

theorem opOf_c {s : State} {i : Nat} {c : Client} (h : s.cs[i]? = some c) : opOf s (.c i) = c.prog.head? := by
  simp [opOf, h]

theorem wakeClient_frame (c : Client) :
    (wakeClient c).frame = if c.frame = .stopSleep then .stopChk else c.frame := by
  unfold wakeClient; split <;> simp_all

theorem wakeClient_prog (c : Client) : (wakeClient c).prog = c.prog := by
  unfold wakeClient; split <;> rfl

theorem wakeClient_res (c : Client) : (wakeClient c).res = c.res := by
  unfold wakeClient; split <;> rfl


/-! ### event sets -/
section evs
theorem Evs.subset_refl (a : Evs) : a.subset a = true := by
  rcases a with ⟨a1, a2, a3, a4⟩
  cases a1 <;> cases a2 <;> cases a3 <;> cases a4 <;> rfl

theorem Evs.subset_union_left (a b : Evs) : a.subset (a.union b) = true := by
  rcases a with ⟨a1, a2, a3, a4⟩; rcases b with ⟨b1, b2, b3, b4⟩
  cases a1 <;> cases a2 <;> cases a3 <;> cases a4 <;> cases b1 <;> cases b2 <;> cases b3 <;> cases b4 <;> rfl

theorem Evs.subset_union_right (a b : Evs) : b.subset (a.union b) = true := by
  rcases a with ⟨a1, a2, a3, a4⟩; rcases b with ⟨b1, b2, b3, b4⟩
  cases a1 <;> cases a2 <;> cases a3 <;> cases a4 <;> cases b1 <;> cases b2 <;> cases b3 <;> cases b4 <;> rfl

theorem Evs.diff_subset (a m b : Evs) (h : a.subset b = true) : (a.diff m).subset b = true := by
  rcases a with ⟨a1, a2, a3, a4⟩; rcases b with ⟨b1, b2, b3, b4⟩; rcases m with ⟨m1, m2, m3, m4⟩
  revert h
  cases a1 <;> cases a2 <;> cases a3 <;> cases a4 <;> cases b1 <;> cases b2 <;> cases b3 <;> cases b4 <;>
    cases m1 <;> cases m2 <;> cases m3 <;> cases m4 <;> decide

theorem Evs.none_subset (a : Evs) : Evs.none.subset a = true := by
  rcases a with ⟨a1, a2, a3, a4⟩
  cases a1 <;> cases a2 <;> cases a3 <;> cases a4 <;> rfl

theorem Evs.none_isEmpty : Evs.none.isEmpty = true := rfl

theorem Evs.subset_none (a : Evs) (h : a.subset Evs.none = true) : a.isEmpty = true := by
  rcases a with ⟨a1, a2, a3, a4⟩
  revert h
  cases a1 <;> cases a2 <;> cases a3 <;> cases a4 <;> decide
end evs

/-! ### the call machine -/

theorem callStep_fin_idle (g : G) (t : Tid) (f : Frame) (op : Op) :
    (callStep g t f op).fin = true → (callStep g t f op).frame = .idle := by
  unfold callStep
  cases f <;> cases op <;> simp <;> (repeat' split) <;> simp_all

/-- a blocked thread's step changes nothing -/
theorem callStep_blocked (g : G) (t : Tid) (f : Frame) (op : Op) (h : f.blocked g = true) :
    callStep g t f op = { g := g, frame := f } := by
  cases f <;> simp [Frame.blocked] at h <;> simp [callStep, h]

theorem acct_blocked (g : G) (t : Tid) (f : Frame) (op : Op) (h : f.blocked g = true) : acct g t f op false = g := by
  have : f ≠ .idle := by intro hf; subst hf; simp [Frame.blocked] at h
  unfold acct
  split
  · rfl
  · simp [this]

/-! ### the call counters touch nothing else -/
@[simp, pfd_simp] theorem acct_events (g : G) (t : Tid) (f : Frame) (op : Op) (fin : Bool) : (acct g t f op fin).events = g.events := by
  unfold acct; split <;> rfl
@[simp, pfd_simp] theorem acct_added (g : G) (t : Tid) (f : Frame) (op : Op) (fin : Bool) : (acct g t f op fin).added = g.added := by
  unfold acct; split <;> rfl
@[simp, pfd_simp] theorem acct_closing (g : G) (t : Tid) (f : Frame) (op : Op) (fin : Bool) : (acct g t f op fin).closing = g.closing := by
  unfold acct; split <;> rfl
@[simp, pfd_simp] theorem acct_stopped (g : G) (t : Tid) (f : Frame) (op : Op) (fin : Bool) : (acct g t f op fin).stopped = g.stopped := by
  unfold acct; split <;> rfl
@[simp, pfd_simp] theorem acct_onReap (g : G) (t : Tid) (f : Frame) (op : Op) (fin : Bool) : (acct g t f op fin).onReap = g.onReap := by
  unfold acct; split <;> rfl
@[simp, pfd_simp] theorem acct_mtx (g : G) (t : Tid) (f : Frame) (op : Op) (fin : Bool) : (acct g t f op fin).mtx = g.mtx := by
  unfold acct; split <;> rfl
@[simp, pfd_simp] theorem acct_evfd (g : G) (t : Tid) (f : Frame) (op : Op) (fin : Bool) : (acct g t f op fin).evfd = g.evfd := by
  unfold acct; split <;> rfl
@[simp, pfd_simp] theorem acct_reg (g : G) (t : Tid) (f : Frame) (op : Op) (fin : Bool) : (acct g t f op fin).reg = g.reg := by
  unfold acct; split <;> rfl
@[simp, pfd_simp] theorem acct_mask (g : G) (t : Tid) (f : Frame) (op : Op) (fin : Bool) : (acct g t f op fin).mask = g.mask := by
  unfold acct; split <;> rfl
@[simp, pfd_simp] theorem acct_en (g : G) (t : Tid) (f : Frame) (op : Op) (fin : Bool) : (acct g t f op fin).en = g.en := by
  unfold acct; split <;> rfl
@[simp, pfd_simp] theorem acct_fdOpen (g : G) (t : Tid) (f : Frame) (op : Op) (fin : Bool) : (acct g t f op fin).fdOpen = g.fdOpen := by
  unfold acct; split <;> rfl
@[simp, pfd_simp] theorem acct_shut (g : G) (t : Tid) (f : Frame) (op : Op) (fin : Bool) : (acct g t f op fin).shut = g.shut := by
  unfold acct; split <;> rfl
@[simp, pfd_simp] theorem acct_freed (g : G) (t : Tid) (f : Frame) (op : Op) (fin : Bool) : (acct g t f op fin).freed = g.freed := by
  unfold acct; split <;> rfl
@[simp, pfd_simp] theorem acct_sect (g : G) (t : Tid) (f : Frame) (op : Op) (fin : Bool) : (acct g t f op fin).sect = g.sect := by
  unfold acct; split <;> rfl
@[simp, pfd_simp] theorem acct_closeStarted (g : G) (t : Tid) (f : Frame) (op : Op) (fin : Bool) : (acct g t f op fin).closeStarted = g.closeStarted := by
  unfold acct; split <;> rfl
@[simp, pfd_simp] theorem acct_closeDone (g : G) (t : Tid) (f : Frame) (op : Op) (fin : Bool) : (acct g t f op fin).closeDone = g.closeDone := by
  unfold acct; split <;> rfl
@[simp, pfd_simp] theorem acct_synced (g : G) (t : Tid) (f : Frame) (op : Op) (fin : Bool) : (acct g t f op fin).synced = g.synced := by
  unfold acct; split <;> rfl
@[simp, pfd_simp] theorem acct_finiDone (g : G) (t : Tid) (f : Frame) (op : Op) (fin : Bool) : (acct g t f op fin).finiDone = g.finiDone := by
  unfold acct; split <;> rfl
@[simp, pfd_simp] theorem acct_inCb (g : G) (t : Tid) (f : Frame) (op : Op) (fin : Bool) : (acct g t f op fin).inCb = g.inCb := by
  unfold acct; split <;> rfl
@[simp, pfd_simp] theorem acct_harvested (g : G) (t : Tid) (f : Frame) (op : Op) (fin : Bool) : (acct g t f op fin).harvested = g.harvested := by
  unfold acct; split <;> rfl
@[simp, pfd_simp] theorem acct_cbBegun (g : G) (t : Tid) (f : Frame) (op : Op) (fin : Bool) : (acct g t f op fin).cbBegun = g.cbBegun := by
  unfold acct; split <;> rfl
@[simp, pfd_simp] theorem acct_cbEnded (g : G) (t : Tid) (f : Frame) (op : Op) (fin : Bool) : (acct g t f op fin).cbEnded = g.cbEnded := by
  unfold acct; split <;> rfl
@[simp, pfd_simp] theorem acct_cbAfterClose (g : G) (t : Tid) (f : Frame) (op : Op) (fin : Bool) : (acct g t f op fin).cbAfterClose = g.cbAfterClose := by
  unfold acct; split <;> rfl
@[simp, pfd_simp] theorem acct_lastArm (g : G) (t : Tid) (f : Frame) (op : Op) (fin : Bool) : (acct g t f op fin).lastArm = g.lastArm := by
  unfold acct; split <;> rfl
@[simp, pfd_simp] theorem acct_hm (g : G) (t : Tid) (f : Frame) (op : Op) (fin : Bool) : (acct g t f op fin).hm = g.hm := by
  unfold acct; split <;> rfl
@[simp, pfd_simp] theorem acct_cm (g : G) (t : Tid) (f : Frame) (op : Op) (fin : Bool) : (acct g t f op fin).cm = g.cm := by
  unfold acct; split <;> rfl
@[simp, pfd_simp] theorem acct_late (g : G) (t : Tid) (f : Frame) (op : Op) (fin : Bool) : (acct g t f op fin).late = g.late := by
  unfold acct; split <;> rfl
@[simp, pfd_simp] theorem acct_uaf (g : G) (t : Tid) (f : Frame) (op : Op) (fin : Bool) : (acct g t f op fin).uaf = g.uaf := by
  unfold acct; split <;> rfl
@[simp, pfd_simp] theorem acct_badfd (g : G) (t : Tid) (f : Frame) (op : Op) (fin : Bool) : (acct g t f op fin).badfd = g.badfd := by
  unfold acct; split <;> rfl
@[simp, pfd_simp] theorem acct_regAtClose (g : G) (t : Tid) (f : Frame) (op : Op) (fin : Bool) : (acct g t f op fin).regAtClose = g.regAtClose := by
  unfold acct; split <;> rfl

/-! ### epoll_ctl touches only the epoll entry (and the bad-descriptor flag) -/
@[simp, pfd_simp] theorem ctlDel_events (g : G) : (ctlDel g).events = g.events := by
  unfold ctlDel; (repeat' split) <;> rfl
@[simp, pfd_simp] theorem ctlDel_added (g : G) : (ctlDel g).added = g.added := by
  unfold ctlDel; (repeat' split) <;> rfl
@[simp, pfd_simp] theorem ctlDel_closing (g : G) : (ctlDel g).closing = g.closing := by
  unfold ctlDel; (repeat' split) <;> rfl
@[simp, pfd_simp] theorem ctlDel_stopped (g : G) : (ctlDel g).stopped = g.stopped := by
  unfold ctlDel; (repeat' split) <;> rfl
@[simp, pfd_simp] theorem ctlDel_onReap (g : G) : (ctlDel g).onReap = g.onReap := by
  unfold ctlDel; (repeat' split) <;> rfl
@[simp, pfd_simp] theorem ctlDel_mtx (g : G) : (ctlDel g).mtx = g.mtx := by
  unfold ctlDel; (repeat' split) <;> rfl
@[simp, pfd_simp] theorem ctlDel_evfd (g : G) : (ctlDel g).evfd = g.evfd := by
  unfold ctlDel; (repeat' split) <;> rfl
@[simp, pfd_simp] theorem ctlDel_mask (g : G) : (ctlDel g).mask = g.mask := by
  unfold ctlDel; (repeat' split) <;> rfl
@[simp, pfd_simp] theorem ctlDel_en (g : G) : (ctlDel g).en = g.en := by
  unfold ctlDel; (repeat' split) <;> rfl
@[simp, pfd_simp] theorem ctlDel_fdOpen (g : G) : (ctlDel g).fdOpen = g.fdOpen := by
  unfold ctlDel; (repeat' split) <;> rfl
@[simp, pfd_simp] theorem ctlDel_shut (g : G) : (ctlDel g).shut = g.shut := by
  unfold ctlDel; (repeat' split) <;> rfl
@[simp, pfd_simp] theorem ctlDel_freed (g : G) : (ctlDel g).freed = g.freed := by
  unfold ctlDel; (repeat' split) <;> rfl
@[simp, pfd_simp] theorem ctlDel_sect (g : G) : (ctlDel g).sect = g.sect := by
  unfold ctlDel; (repeat' split) <;> rfl
@[simp, pfd_simp] theorem ctlDel_closeStarted (g : G) : (ctlDel g).closeStarted = g.closeStarted := by
  unfold ctlDel; (repeat' split) <;> rfl
@[simp, pfd_simp] theorem ctlDel_closeDone (g : G) : (ctlDel g).closeDone = g.closeDone := by
  unfold ctlDel; (repeat' split) <;> rfl
@[simp, pfd_simp] theorem ctlDel_synced (g : G) : (ctlDel g).synced = g.synced := by
  unfold ctlDel; (repeat' split) <;> rfl
@[simp, pfd_simp] theorem ctlDel_finiDone (g : G) : (ctlDel g).finiDone = g.finiDone := by
  unfold ctlDel; (repeat' split) <;> rfl
@[simp, pfd_simp] theorem ctlDel_inCb (g : G) : (ctlDel g).inCb = g.inCb := by
  unfold ctlDel; (repeat' split) <;> rfl
@[simp, pfd_simp] theorem ctlDel_harvested (g : G) : (ctlDel g).harvested = g.harvested := by
  unfold ctlDel; (repeat' split) <;> rfl
@[simp, pfd_simp] theorem ctlDel_cbBegun (g : G) : (ctlDel g).cbBegun = g.cbBegun := by
  unfold ctlDel; (repeat' split) <;> rfl
@[simp, pfd_simp] theorem ctlDel_cbEnded (g : G) : (ctlDel g).cbEnded = g.cbEnded := by
  unfold ctlDel; (repeat' split) <;> rfl
@[simp, pfd_simp] theorem ctlDel_cbAfterClose (g : G) : (ctlDel g).cbAfterClose = g.cbAfterClose := by
  unfold ctlDel; (repeat' split) <;> rfl
@[simp, pfd_simp] theorem ctlDel_lastArm (g : G) : (ctlDel g).lastArm = g.lastArm := by
  unfold ctlDel; (repeat' split) <;> rfl
@[simp, pfd_simp] theorem ctlDel_hm (g : G) : (ctlDel g).hm = g.hm := by
  unfold ctlDel; (repeat' split) <;> rfl
@[simp, pfd_simp] theorem ctlDel_cm (g : G) : (ctlDel g).cm = g.cm := by
  unfold ctlDel; (repeat' split) <;> rfl
@[simp, pfd_simp] theorem ctlDel_n (g : G) : (ctlDel g).n = g.n := by
  unfold ctlDel; (repeat' split) <;> rfl
@[simp, pfd_simp] theorem ctlDel_late (g : G) : (ctlDel g).late = g.late := by
  unfold ctlDel; (repeat' split) <;> rfl
@[simp, pfd_simp] theorem ctlDel_uaf (g : G) : (ctlDel g).uaf = g.uaf := by
  unfold ctlDel; (repeat' split) <;> rfl
@[simp, pfd_simp] theorem ctlDel_regAtClose (g : G) : (ctlDel g).regAtClose = g.regAtClose := by
  unfold ctlDel; (repeat' split) <;> rfl
@[simp, pfd_simp] theorem ctlAdd_events (g : G) (e : Evs) : (ctlAdd g e).events = g.events := by
  unfold ctlAdd; (repeat' split) <;> rfl
@[simp, pfd_simp] theorem ctlAdd_added (g : G) (e : Evs) : (ctlAdd g e).added = g.added := by
  unfold ctlAdd; (repeat' split) <;> rfl
@[simp, pfd_simp] theorem ctlAdd_closing (g : G) (e : Evs) : (ctlAdd g e).closing = g.closing := by
  unfold ctlAdd; (repeat' split) <;> rfl
@[simp, pfd_simp] theorem ctlAdd_stopped (g : G) (e : Evs) : (ctlAdd g e).stopped = g.stopped := by
  unfold ctlAdd; (repeat' split) <;> rfl
@[simp, pfd_simp] theorem ctlAdd_onReap (g : G) (e : Evs) : (ctlAdd g e).onReap = g.onReap := by
  unfold ctlAdd; (repeat' split) <;> rfl
@[simp, pfd_simp] theorem ctlAdd_mtx (g : G) (e : Evs) : (ctlAdd g e).mtx = g.mtx := by
  unfold ctlAdd; (repeat' split) <;> rfl
@[simp, pfd_simp] theorem ctlAdd_evfd (g : G) (e : Evs) : (ctlAdd g e).evfd = g.evfd := by
  unfold ctlAdd; (repeat' split) <;> rfl
@[simp, pfd_simp] theorem ctlAdd_fdOpen (g : G) (e : Evs) : (ctlAdd g e).fdOpen = g.fdOpen := by
  unfold ctlAdd; (repeat' split) <;> rfl
@[simp, pfd_simp] theorem ctlAdd_shut (g : G) (e : Evs) : (ctlAdd g e).shut = g.shut := by
  unfold ctlAdd; (repeat' split) <;> rfl
@[simp, pfd_simp] theorem ctlAdd_freed (g : G) (e : Evs) : (ctlAdd g e).freed = g.freed := by
  unfold ctlAdd; (repeat' split) <;> rfl
@[simp, pfd_simp] theorem ctlAdd_sect (g : G) (e : Evs) : (ctlAdd g e).sect = g.sect := by
  unfold ctlAdd; (repeat' split) <;> rfl
@[simp, pfd_simp] theorem ctlAdd_closeStarted (g : G) (e : Evs) : (ctlAdd g e).closeStarted = g.closeStarted := by
  unfold ctlAdd; (repeat' split) <;> rfl
@[simp, pfd_simp] theorem ctlAdd_closeDone (g : G) (e : Evs) : (ctlAdd g e).closeDone = g.closeDone := by
  unfold ctlAdd; (repeat' split) <;> rfl
@[simp, pfd_simp] theorem ctlAdd_synced (g : G) (e : Evs) : (ctlAdd g e).synced = g.synced := by
  unfold ctlAdd; (repeat' split) <;> rfl
@[simp, pfd_simp] theorem ctlAdd_finiDone (g : G) (e : Evs) : (ctlAdd g e).finiDone = g.finiDone := by
  unfold ctlAdd; (repeat' split) <;> rfl
@[simp, pfd_simp] theorem ctlAdd_inCb (g : G) (e : Evs) : (ctlAdd g e).inCb = g.inCb := by
  unfold ctlAdd; (repeat' split) <;> rfl
@[simp, pfd_simp] theorem ctlAdd_harvested (g : G) (e : Evs) : (ctlAdd g e).harvested = g.harvested := by
  unfold ctlAdd; (repeat' split) <;> rfl
@[simp, pfd_simp] theorem ctlAdd_cbBegun (g : G) (e : Evs) : (ctlAdd g e).cbBegun = g.cbBegun := by
  unfold ctlAdd; (repeat' split) <;> rfl
@[simp, pfd_simp] theorem ctlAdd_cbEnded (g : G) (e : Evs) : (ctlAdd g e).cbEnded = g.cbEnded := by
  unfold ctlAdd; (repeat' split) <;> rfl
@[simp, pfd_simp] theorem ctlAdd_cbAfterClose (g : G) (e : Evs) : (ctlAdd g e).cbAfterClose = g.cbAfterClose := by
  unfold ctlAdd; (repeat' split) <;> rfl
@[simp, pfd_simp] theorem ctlAdd_lastArm (g : G) (e : Evs) : (ctlAdd g e).lastArm = g.lastArm := by
  unfold ctlAdd; (repeat' split) <;> rfl
@[simp, pfd_simp] theorem ctlAdd_hm (g : G) (e : Evs) : (ctlAdd g e).hm = g.hm := by
  unfold ctlAdd; (repeat' split) <;> rfl
@[simp, pfd_simp] theorem ctlAdd_cm (g : G) (e : Evs) : (ctlAdd g e).cm = g.cm := by
  unfold ctlAdd; (repeat' split) <;> rfl
@[simp, pfd_simp] theorem ctlAdd_n (g : G) (e : Evs) : (ctlAdd g e).n = g.n := by
  unfold ctlAdd; (repeat' split) <;> rfl
@[simp, pfd_simp] theorem ctlAdd_late (g : G) (e : Evs) : (ctlAdd g e).late = g.late := by
  unfold ctlAdd; (repeat' split) <;> rfl
@[simp, pfd_simp] theorem ctlAdd_uaf (g : G) (e : Evs) : (ctlAdd g e).uaf = g.uaf := by
  unfold ctlAdd; (repeat' split) <;> rfl
@[simp, pfd_simp] theorem ctlAdd_regAtClose (g : G) (e : Evs) : (ctlAdd g e).regAtClose = g.regAtClose := by
  unfold ctlAdd; (repeat' split) <;> rfl
@[simp, pfd_simp] theorem ctlMod_events (g : G) (e : Evs) : (ctlMod g e).events = g.events := by
  unfold ctlMod; (repeat' split) <;> rfl
@[simp, pfd_simp] theorem ctlMod_added (g : G) (e : Evs) : (ctlMod g e).added = g.added := by
  unfold ctlMod; (repeat' split) <;> rfl
@[simp, pfd_simp] theorem ctlMod_closing (g : G) (e : Evs) : (ctlMod g e).closing = g.closing := by
  unfold ctlMod; (repeat' split) <;> rfl
@[simp, pfd_simp] theorem ctlMod_stopped (g : G) (e : Evs) : (ctlMod g e).stopped = g.stopped := by
  unfold ctlMod; (repeat' split) <;> rfl
@[simp, pfd_simp] theorem ctlMod_onReap (g : G) (e : Evs) : (ctlMod g e).onReap = g.onReap := by
  unfold ctlMod; (repeat' split) <;> rfl
@[simp, pfd_simp] theorem ctlMod_mtx (g : G) (e : Evs) : (ctlMod g e).mtx = g.mtx := by
  unfold ctlMod; (repeat' split) <;> rfl
@[simp, pfd_simp] theorem ctlMod_evfd (g : G) (e : Evs) : (ctlMod g e).evfd = g.evfd := by
  unfold ctlMod; (repeat' split) <;> rfl
@[simp, pfd_simp] theorem ctlMod_reg (g : G) (e : Evs) : (ctlMod g e).reg = g.reg := by
  unfold ctlMod; (repeat' split) <;> rfl
@[simp, pfd_simp] theorem ctlMod_fdOpen (g : G) (e : Evs) : (ctlMod g e).fdOpen = g.fdOpen := by
  unfold ctlMod; (repeat' split) <;> rfl
@[simp, pfd_simp] theorem ctlMod_shut (g : G) (e : Evs) : (ctlMod g e).shut = g.shut := by
  unfold ctlMod; (repeat' split) <;> rfl
@[simp, pfd_simp] theorem ctlMod_freed (g : G) (e : Evs) : (ctlMod g e).freed = g.freed := by
  unfold ctlMod; (repeat' split) <;> rfl
@[simp, pfd_simp] theorem ctlMod_sect (g : G) (e : Evs) : (ctlMod g e).sect = g.sect := by
  unfold ctlMod; (repeat' split) <;> rfl
@[simp, pfd_simp] theorem ctlMod_closeStarted (g : G) (e : Evs) : (ctlMod g e).closeStarted = g.closeStarted := by
  unfold ctlMod; (repeat' split) <;> rfl
@[simp, pfd_simp] theorem ctlMod_closeDone (g : G) (e : Evs) : (ctlMod g e).closeDone = g.closeDone := by
  unfold ctlMod; (repeat' split) <;> rfl
@[simp, pfd_simp] theorem ctlMod_synced (g : G) (e : Evs) : (ctlMod g e).synced = g.synced := by
  unfold ctlMod; (repeat' split) <;> rfl
@[simp, pfd_simp] theorem ctlMod_finiDone (g : G) (e : Evs) : (ctlMod g e).finiDone = g.finiDone := by
  unfold ctlMod; (repeat' split) <;> rfl
@[simp, pfd_simp] theorem ctlMod_inCb (g : G) (e : Evs) : (ctlMod g e).inCb = g.inCb := by
  unfold ctlMod; (repeat' split) <;> rfl
@[simp, pfd_simp] theorem ctlMod_harvested (g : G) (e : Evs) : (ctlMod g e).harvested = g.harvested := by
  unfold ctlMod; (repeat' split) <;> rfl
@[simp, pfd_simp] theorem ctlMod_cbBegun (g : G) (e : Evs) : (ctlMod g e).cbBegun = g.cbBegun := by
  unfold ctlMod; (repeat' split) <;> rfl
@[simp, pfd_simp] theorem ctlMod_cbEnded (g : G) (e : Evs) : (ctlMod g e).cbEnded = g.cbEnded := by
  unfold ctlMod; (repeat' split) <;> rfl
@[simp, pfd_simp] theorem ctlMod_cbAfterClose (g : G) (e : Evs) : (ctlMod g e).cbAfterClose = g.cbAfterClose := by
  unfold ctlMod; (repeat' split) <;> rfl
@[simp, pfd_simp] theorem ctlMod_lastArm (g : G) (e : Evs) : (ctlMod g e).lastArm = g.lastArm := by
  unfold ctlMod; (repeat' split) <;> rfl
@[simp, pfd_simp] theorem ctlMod_hm (g : G) (e : Evs) : (ctlMod g e).hm = g.hm := by
  unfold ctlMod; (repeat' split) <;> rfl
@[simp, pfd_simp] theorem ctlMod_cm (g : G) (e : Evs) : (ctlMod g e).cm = g.cm := by
  unfold ctlMod; (repeat' split) <;> rfl
@[simp, pfd_simp] theorem ctlMod_n (g : G) (e : Evs) : (ctlMod g e).n = g.n := by
  unfold ctlMod; (repeat' split) <;> rfl
@[simp, pfd_simp] theorem ctlMod_late (g : G) (e : Evs) : (ctlMod g e).late = g.late := by
  unfold ctlMod; (repeat' split) <;> rfl
@[simp, pfd_simp] theorem ctlMod_uaf (g : G) (e : Evs) : (ctlMod g e).uaf = g.uaf := by
  unfold ctlMod; (repeat' split) <;> rfl
@[simp, pfd_simp] theorem ctlMod_regAtClose (g : G) (e : Evs) : (ctlMod g e).regAtClose = g.regAtClose := by
  unfold ctlMod; (repeat' split) <;> rfl
@[simp, pfd_simp] theorem ctlDel_reg (g : G) : (ctlDel g).reg = (g.reg && !g.fdOpen) := by
  unfold ctlDel; cases h : g.fdOpen <;> simp
@[simp, pfd_simp] theorem ctlDel_badfd (g : G) : (ctlDel g).badfd = (g.badfd || !g.fdOpen) := by
  unfold ctlDel; cases h : g.fdOpen <;> simp
@[simp, pfd_simp] theorem ctlAdd_badfd (g : G) (e : Evs) : (ctlAdd g e).badfd = (g.badfd || !g.fdOpen) := by
  unfold ctlAdd; cases h : g.fdOpen <;> simp <;> split <;> simp
@[simp, pfd_simp] theorem ctlMod_badfd (g : G) (e : Evs) : (ctlMod g e).badfd = (g.badfd || !g.fdOpen) := by
  unfold ctlMod; cases h : g.fdOpen <;> simp <;> split <;> simp
@[simp, pfd_simp] theorem ctlAdd_reg (g : G) (e : Evs) : (ctlAdd g e).reg = (g.reg || g.fdOpen) := by
  unfold ctlAdd; cases h : g.fdOpen <;> cases h2 : g.reg <;> simp [h2]
@[simp, pfd_simp] theorem ctlAdd_mask (g : G) (e : Evs) : (ctlAdd g e).mask = if g.fdOpen && !g.reg then e else g.mask := by
  unfold ctlAdd; cases h : g.fdOpen <;> cases h2 : g.reg <;> simp [h2]
@[simp, pfd_simp] theorem ctlAdd_en (g : G) (e : Evs) : (ctlAdd g e).en = (g.en || (g.fdOpen && !g.reg)) := by
  unfold ctlAdd; cases h : g.fdOpen <;> cases h2 : g.reg <;> simp [h2]
@[simp, pfd_simp] theorem ctlMod_mask (g : G) (e : Evs) : (ctlMod g e).mask = if g.fdOpen && g.reg then e else g.mask := by
  unfold ctlMod; cases h : g.fdOpen <;> cases h2 : g.reg <;> simp [h2]
@[simp, pfd_simp] theorem ctlMod_en (g : G) (e : Evs) : (ctlMod g e).en = (g.en || (g.fdOpen && g.reg)) := by
  unfold ctlMod; cases h : g.fdOpen <;> cases h2 : g.reg <;> simp [h2]

end Nng.Pfd
