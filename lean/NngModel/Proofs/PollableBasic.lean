/- list/pipe lemmas for the pollable model -/
import NngModel.Model.Pollable
namespace Nng.Pollable

theorem countP_set_add {α : Type} (p : α → Bool) (l : List α) (i : Nat) (a : α) (h : i < l.length) :
    (l.set i a).countP p + (if p l[i] then 1 else 0) = l.countP p + (if p a then 1 else 0) := by
  induction l generalizing i with
  | nil => simp at h
  | cons x xs ih =>
    cases i with
    | zero => simp [List.countP_cons]; omega
    | succ i =>
      simp at h
      have := ih i h
      simp [List.countP_cons]; omega

theorem getElem?_set_cases {α : Type} {l : List α} {i j : Nat} {a b : α}
    (h : (l.set i a)[j]? = some b) : (j = i ∧ b = a ∧ i < l.length) ∨ (j ≠ i ∧ l[j]? = some b) := by
  rw [List.getElem?_set] at h
  by_cases hij : i = j
  · subst hij
    by_cases hl : i < l.length
    · simp [hl] at h; exact Or.inl ⟨rfl, h.symm, hl⟩
    · simp [hl] at h
  · simp [hij] at h; exact Or.inr ⟨fun e => hij e.symm, h⟩

theorem openAt_lt {ps : List Pipe} {p : Nat} (h : openAt ps p = true) : p < ps.length := by
  unfold openAt at h
  split at h
  · rename_i q hq
    exact (List.getElem?_eq_some_iff.mp hq).1
  · simp at h

theorem openAt_eq {ps : List Pipe} {p : Nat} (h : p < ps.length) : openAt ps p = ps[p].isOpen := by
  simp [openAt, List.getElem?_eq_getElem h]

theorem bytesAt_eq {ps : List Pipe} {p : Nat} (h : p < ps.length) : bytesAt ps p = ps[p].bytes := by
  simp [bytesAt, List.getElem?_eq_getElem h]

theorem openAt_set (ps : List Pipe) (p k : Nat) (x : Pipe) :
    openAt (ps.set p x) k = if k = p ∧ p < ps.length then x.isOpen else openAt ps k := by
  unfold openAt
  rw [List.getElem?_set]
  by_cases h : p = k
  · subst h
    by_cases hl : p < ps.length <;> simp [hl]
  · have : ¬ (k = p) := fun e => h e.symm
    simp [h, this]

theorem bytesAt_set (ps : List Pipe) (p k : Nat) (x : Pipe) :
    bytesAt (ps.set p x) k = if k = p ∧ p < ps.length then x.bytes else bytesAt ps k := by
  unfold bytesAt
  rw [List.getElem?_set]
  by_cases h : p = k
  · subst h
    by_cases hl : p < ps.length <;> simp [hl]
  · have : ¬ (k = p) := fun e => h e.symm
    simp [h, this]

theorem openAt_append (ps : List Pipe) (x : Pipe) (k : Nat) :
    openAt (ps ++ [x]) k = if k < ps.length then openAt ps k else if k = ps.length then x.isOpen else false := by
  unfold openAt
  rw [List.getElem?_append]
  by_cases h : k < ps.length
  · simp [h]
  · simp [h]
    by_cases h2 : k = ps.length
    · subst h2; simp
    · have : k - ps.length ≠ 0 := by omega
      simp [h2]
      cases hk : k - ps.length with
      | zero => omega
      | succ n => simp

theorem bytesAt_append (ps : List Pipe) (x : Pipe) (k : Nat) :
    bytesAt (ps ++ [x]) k = if k < ps.length then bytesAt ps k else if k = ps.length then x.bytes else 0 := by
  unfold bytesAt
  rw [List.getElem?_append]
  by_cases h : k < ps.length
  · simp [h]
  · simp [h]
    by_cases h2 : k = ps.length
    · subst h2; simp
    · simp [h2]
      cases hk : k - ps.length with
      | zero => omega
      | succ n => simp

theorem bytesAt_ge_len {ps : List Pipe} {k : Nat} (h : ps.length ≤ k) : bytesAt ps k = 0 := by
  unfold bytesAt
  have : ps[k]? = none := by simp; omega
  simp [this]

/-! effect of the three pipe operations on an OPEN pipe -/

theorem write_open {sh : Shared} {p : Nat} (h : openAt sh.pipes p = true) :
    sh.write p = { sh with pipes := sh.pipes.set p ⟨bytesAt sh.pipes p + 1, true⟩ } := by
  simp [Shared.write, h]

theorem drain_open {sh : Shared} {p : Nat} (h : openAt sh.pipes p = true) :
    sh.drain p = { sh with pipes := sh.pipes.set p ⟨0, true⟩ } := by
  simp [Shared.drain, h]

theorem close_open {sh : Shared} {p : Nat} (h : openAt sh.pipes p = true) :
    sh.closeP p = { sh with pipes := sh.pipes.set p ⟨bytesAt sh.pipes p, false⟩ } := by
  simp [Shared.closeP, h]

theorem nOpen_set_open {ps : List Pipe} {p : Nat} {b : Nat} (h : openAt ps p = true) :
    (ps.set p ⟨b, true⟩).countP (·.isOpen) = ps.countP (·.isOpen) := by
  have hl := openAt_lt h
  have := countP_set_add (·.isOpen) ps p ⟨b, true⟩ hl
  rw [openAt_eq hl] at h
  simp [h] at this
  exact this

theorem nOpen_set_closed {ps : List Pipe} {p : Nat} {b : Nat} (h : openAt ps p = true) :
    (ps.set p ⟨b, false⟩).countP (·.isOpen) + 1 = ps.countP (·.isOpen) := by
  have hl := openAt_lt h
  have := countP_set_add (·.isOpen) ps p ⟨b, false⟩ hl
  rw [openAt_eq hl] at h
  simp [h] at this
  exact this

end Nng.Pollable
