/-
  P6: the pollable flags of the REP model equal "a non-blocking receive / send would be
  accepted" in every reachable state (with the rep-readable / rep-writable fixes).
-/
import NngModel.Proofs.RepInv
namespace Nng.RepProofs
open Nng Nng.Proto Nng.Rep

structure Inv2 (s : State) : Prop where
  R : s.closed = false → s.readable = !s.recvpipes.isEmpty
  W : s.closed = false → s.writable = sockCanSend s
  B : ∀ k p, (s.ctx k).pipeId = some p → p < s.npipes ∧ (s.ctx k).btrace ≠ []
  H : ∀ r ∈ s.recvpipes, r.bt ≠ [] ∧ livePipe s r.pipe = true
  N : 1 ≤ s.nctx

theorem inv2_init : Inv2 ({} : State) := by
  constructor
  · intro _; rfl
  · intro _; rfl
  · intro k p h; simp at h
  · intro r h; simp at h
  · simp

theorem livePipe_congr {s s' : State} (p : Nat) (hn : s'.npipes = s.npipes) (hc : (s'.pipe p).closed = (s.pipe p).closed) :
    livePipe s' p = livePipe s p := by
  unfold livePipe; rw [hn, hc]

theorem sockCanSend_congr {s s' : State} (hb : (s'.ctx 0).btrace = (s.ctx 0).btrace)
    (hp : (s'.ctx 0).pipeId = (s.ctx 0).pipeId) (hn : s'.npipes = s.npipes)
    (hc : ∀ p, (s.ctx 0).pipeId = some p → (s'.pipe p).closed = (s.pipe p).closed)
    (hbu : ∀ p, (s.ctx 0).pipeId = some p → (s'.pipe p).busy = (s.pipe p).busy) :
    sockCanSend s' = sockCanSend s := by
  unfold sockCanSend
  rw [hb, hp]
  cases hpid : (s.ctx 0).pipeId with
  | none => rfl
  | some p => simp only; rw [livePipe_congr p hn (hc p hpid), hbu p hpid]

/-- Inv2 reads readable, writable, recvpipes, npipes, nctx, closed; btrace/pipeId of contexts;
    closed/busy of pipes -/
theorem inv2_transfer {s s' : State}
    (hcl : s'.closed = s.closed) (hr : s'.readable = s.readable) (hw : s'.writable = s.writable)
    (hrp : s'.recvpipes = s.recvpipes) (hn : s'.npipes = s.npipes) (hnc : s'.nctx = s.nctx)
    (hb : ∀ k, (s'.ctx k).btrace = (s.ctx k).btrace) (hp : ∀ k, (s'.ctx k).pipeId = (s.ctx k).pipeId)
    (hpc : ∀ p, (s'.pipe p).closed = (s.pipe p).closed) (hpb : ∀ p, (s'.pipe p).busy = (s.pipe p).busy)
    (h : Inv2 s) : Inv2 s' := by
  constructor
  · intro hc; rw [hr, hrp]; exact h.R (hcl ▸ hc)
  · intro hc
    rw [hw, sockCanSend_congr (hb 0) (hp 0) hn (fun p _ => hpc p) (fun p _ => hpb p)]
    exact h.W (hcl ▸ hc)
  · intro k p hk
    rw [hp] at hk
    rw [hn, hb]
    exact h.B k p hk
  · intro r hr'
    rw [hrp] at hr'
    rw [livePipe_congr r.pipe hn (hpc _)]
    exact h.H r hr'
  · rw [hnc]; exact h.N

theorem inv2_setCtx (s : State) (k : Nat) (c : Ctx) (h1 : c.btrace = (s.ctx k).btrace)
    (h3 : c.pipeId = (s.ctx k).pipeId) (h : Inv2 s) : Inv2 (setCtx s k c) := by
  refine inv2_transfer (s := s) rfl rfl rfl rfl rfl rfl ?_ ?_ (fun _ => rfl) (fun _ => rfl) h
  all_goals
    intro k'
    rw [setCtx_ctx, upd_apply]
    by_cases hk : k' = k
    · rw [if_pos hk]; subst hk; assumption
    · rw [if_neg hk]

theorem inv2_setPipe (s : State) (p : Nat) (pp : Pipe) (h1 : pp.closed = (s.pipe p).closed)
    (h2 : pp.busy = (s.pipe p).busy) (h : Inv2 s) : Inv2 (setPipe s p pp) := by
  refine inv2_transfer (s := s) rfl rfl rfl rfl rfl rfl (fun _ => rfl) (fun _ => rfl) ?_ ?_ h
  all_goals
    intro q
    rw [setPipe_pipe, upd_apply]
    by_cases hq : q = p
    · rw [if_pos hq]; subst hq; assumption
    · rw [if_neg hq]

/-! #### closePipe -/
theorem dropHeld_inv2 (s : State) (p : Nat) (h : Inv2 s) :
    Inv2 (dropHeld s p) ∧ ∀ r ∈ (dropHeld s p).recvpipes, r.pipe ≠ p := by
  unfold dropHeld
  split
  · rename_i hany
    dsimp only
    have hsub : ∀ r ∈ s.recvpipes.filter (·.pipe != p), r ∈ s.recvpipes ∧ r.pipe ≠ p := by
      intro r hr
      have := List.mem_filter.mp hr
      exact ⟨this.1, by simpa using this.2⟩
    split
    · rename_i hemp
      refine ⟨?_, ?_⟩
      · constructor
        · intro _; show false = !(List.filter _ _).isEmpty; rw [hemp]; rfl
        · intro hc; show s.writable = sockCanSend _
          rw [h.W hc]; exact (sockCanSend_congr rfl rfl rfl (fun _ _ => rfl) (fun _ _ => rfl)).symm
        · exact h.B
        · intro r hr; exact h.H r (hsub r hr).1
        · exact h.N
      · intro r hr; exact (hsub r hr).2
    · rename_i hemp
      refine ⟨?_, ?_⟩
      · constructor
        · intro hc
          show s.readable = !(List.filter _ _).isEmpty
          rw [h.R hc]
          have h1 : s.recvpipes.isEmpty = false := by
            cases hrp : s.recvpipes with
            | nil => rw [hrp] at hany; simp at hany
            | cons _ _ => rfl
          rw [h1]
          cases hf : (List.filter (fun x => x.pipe != p) s.recvpipes).isEmpty with
          | true => exact absurd hf hemp
          | false => rfl
        · intro hc; show s.writable = sockCanSend _
          rw [h.W hc]; exact (sockCanSend_congr rfl rfl rfl (fun _ _ => rfl) (fun _ _ => rfl)).symm
        · exact h.B
        · intro r hr; exact h.H r (hsub r hr).1
        · exact h.N
      · intro r hr; exact (hsub r hr).2
  · rename_i hany
    refine ⟨h, ?_⟩
    intro r hr hp
    apply hany
    rw [List.any_eq_true]
    exact ⟨r, hr, by simp [hp]⟩

theorem closeTail_inv2 (s : State) (p : Nat) (h : Inv2 s) (hH : ∀ r ∈ s.recvpipes, r.pipe ≠ p) :
    Inv2 (setPipe (raiseIfSock s p) p { (raiseIfSock s p).pipe p with closed := true, armed := false, sendq := [] }) := by
  have hr := raiseIfSock_frame s p
  obtain ⟨hr1, hr2, _, _, _, hr6, hr7, hr8, _, _, _, hr12⟩ := hr
  have hlive : ∀ q, q ≠ p → livePipe (setPipe (raiseIfSock s p) p { (raiseIfSock s p).pipe p with closed := true, armed := false, sendq := [] }) q
      = livePipe s q := by
    intro q hq
    unfold livePipe
    rw [setPipe_npipes, setPipe_pipe, upd_other _ _ hq, hr6, hr2]
  constructor
  · intro hc
    rw [setPipe_readable, setPipe_recvpipes, hr8, hr7]
    apply h.R
    have : (raiseIfSock s p).closed = s.closed := by unfold raiseIfSock; split <;> rfl
    rw [setPipe_closed, this] at hc; exact hc
  · intro hc
    have hcl : (raiseIfSock s p).closed = s.closed := by unfold raiseIfSock; split <;> rfl
    rw [setPipe_closed, hcl] at hc
    have hW := h.W hc
    rw [setPipe_writable]
    unfold sockCanSend
    rw [setPipe_ctx, hr1]
    cases hpid : (s.ctx 0).pipeId with
    | none =>
      have : (raiseIfSock s p).writable = s.writable := by
        unfold raiseIfSock; rw [hpid]; rfl
      rw [this, hW]; unfold sockCanSend; rw [hpid]
    | some q =>
      by_cases hq : q = p
      · subst hq
        have : (raiseIfSock s q).writable = true := by
          unfold raiseIfSock; rw [hpid]; simp
        rw [this]
        have hb := (h.B 0 q hpid).2
        have hl : livePipe (setPipe (raiseIfSock s q) q { (raiseIfSock s q).pipe q with closed := true, armed := false, sendq := [] }) q = false := by
          unfold livePipe; rw [setPipe_pipe, upd_same]; simp
        simp only [hl]
        cases hbt : (s.ctx 0).btrace with
        | nil => exact absurd hbt hb
        | cons _ _ => rfl
      · have : (raiseIfSock s p).writable = s.writable := by
          unfold raiseIfSock; rw [hpid]
          have : (some q == some p) = false := by simp [hq]
          rw [this]; rfl
        rw [this, hW]; unfold sockCanSend; rw [hpid]
        simp only
        rw [hlive q hq, setPipe_pipe, upd_other _ _ hq, hr2]
  · intro k q hk
    rw [setPipe_ctx, hr1] at hk ⊢
    rw [setPipe_npipes, hr6]
    exact h.B k q hk
  · intro r hr'
    rw [setPipe_recvpipes, hr7] at hr'
    rw [hlive r.pipe (hH r hr')]
    exact h.H r hr'
  · rw [setPipe_nctx, hr12]; exact h.N

theorem closePipe_inv2 (s : State) (p : Nat) (h : Inv2 s) : Inv2 (closePipe s p).1 := by
  unfold closePipe
  split
  · exact h
  · dsimp only
    obtain ⟨h1, hH⟩ := dropHeld_inv2 s p h
    have hf := clearSaio_frame (s.pipe p).sendq (dropHeld s p)
    have h2 : Inv2 (clearSaio (dropHeld s p) (s.pipe p).sendq) :=
      inv2_transfer (s := dropHeld s p) hf.closed hf.readable hf.writable hf.recvpipes hf.npipes hf.nctx hf.btrace hf.pipeId
        (fun q => by rw [hf.pipe]) (fun q => by rw [hf.pipe]) h1
    have h3 : Inv2 (addDiscarded (clearSaio (dropHeld s p) (s.pipe p).sendq) ((s.pipe p).sendq.map (wireOf p))) :=
      inv2_transfer (s := clearSaio (dropHeld s p) (s.pipe p).sendq) rfl rfl rfl rfl rfl rfl (fun _ => rfl) (fun _ => rfl)
        (fun _ => rfl) (fun _ => rfl) h2
    apply closeTail_inv2 _ p h3
    intro r hr
    have : (addDiscarded (clearSaio (dropHeld s p) (s.pipe p).sendq) ((s.pipe p).sendq.map (wireOf p))).recvpipes
        = (dropHeld s p).recvpipes := hf.recvpipes
    rw [this] at hr
    exact hH r hr

/-! #### deliver -/
theorem deliver_flags (s : State) (k : Nat) (r : Req) :
    (deliver s k r).writable = (if k == 0 then !(s.pipe r.pipe).busy else s.writable) ∧
    (deliver s k r).closed = s.closed := by
  unfold deliver recvWritable; split <;> simp [*]

theorem livePipe_lt {s : State} {p : Nat} (h : livePipe s p = true) : p < s.npipes := by
  unfold livePipe at h; simp at h; exact h.1

theorem deliver_inv2 (s : State) (k : Nat) (r : Req) (h : Inv2 s) (hbt : r.bt ≠ []) (hl : livePipe s r.pipe = true) :
    Inv2 (deliver s k r) := by
  obtain ⟨hw1, hw2, hw3, hw4, hw5, hw6, hw7, hw8, hw9, hw10⟩ := deliver_wire s k r
  obtain ⟨hf1, hf2⟩ := deliver_flags s k r
  have hlive : ∀ q, livePipe (deliver s k r) q = livePipe s q := by
    intro q
    unfold livePipe
    rw [hw4, deliver_pipe, upd_apply]
    by_cases hq : q = r.pipe
    · rw [if_pos hq, hq]
    · rw [if_neg hq]
  have hbusy : ∀ q, ((deliver s k r).pipe q).busy = (s.pipe q).busy := by
    intro q
    rw [deliver_pipe, upd_apply]
    by_cases hq : q = r.pipe
    · rw [if_pos hq, hq]
    · rw [if_neg hq]
  constructor
  · intro hc; rw [hw6, hw5]; exact h.R (hf2 ▸ hc)
  · intro hc
    rw [hf2] at hc
    rw [hf1]
    unfold sockCanSend
    rw [deliver_ctx, upd_apply]
    by_cases hk : k = 0
    · subst hk
      simp only [beq_self_eq_true, ↓reduceIte]
      rw [hlive, hl, hbusy]
      cases hb : r.bt with
      | nil => exact absurd hb hbt
      | cons _ _ => simp
    · have hk' : (k == 0) = false := by simp [hk]
      have hk'' : ¬ (0 = k) := fun e => hk e.symm
      rw [hk', if_neg hk'']
      rw [h.W hc]
      unfold sockCanSend
      cases hpid : (s.ctx 0).pipeId with
      | none => simp
      | some q => simp only [Bool.false_eq_true, if_false]; rw [hlive, hbusy]
  · intro k' q hk'
    rw [deliver_ctx, upd_apply] at hk' ⊢
    rw [hw4]
    by_cases hkk : k' = k
    · rw [if_pos hkk] at hk' ⊢
      simp only at hk'
      injection hk' with hk'
      subst hk'
      exact ⟨livePipe_lt hl, hbt⟩
    · rw [if_neg hkk] at hk' ⊢
      exact h.B k' q hk'
  · intro r' hr'
    rw [hw5] at hr'
    rw [hlive]
    exact h.H r' hr'
  · rw [hw10]; exact h.N

/-- record updates that touch nothing Inv2 reads -/
theorem inv2_same {s s' : State} (hcl : s'.closed = s.closed) (hr : s'.readable = s.readable) (hw : s'.writable = s.writable)
    (hrp : s'.recvpipes = s.recvpipes) (hn : s'.npipes = s.npipes) (hnc : s'.nctx = s.nctx)
    (hc : s'.ctx = s.ctx) (hp : s'.pipe = s.pipe) (h : Inv2 s) : Inv2 s' :=
  inv2_transfer (s := s) hcl hr hw hrp hn hnc (fun k => by rw [hc]) (fun k => by rw [hc]) (fun q => by rw [hp]) (fun q => by rw [hp]) h

/-! #### pipeRecv -/
theorem pipeRecv_inv2 (s : State) (p : Nat) (b : Bytes) (h : Inv2 s) (hl : livePipe s p = true) :
    Inv2 (pipeRecv s p b).1 := by
  have h0 : Inv2 (setPipe s p { s.pipe p with armed := false }) := inv2_setPipe s p _ rfl rfl h
  have hl0 : livePipe (setPipe s p { s.pipe p with armed := false }) p = true := by
    unfold livePipe at hl ⊢; rw [setPipe_npipes, setPipe_pipe, upd_same]; exact hl
  unfold pipeRecv
  dsimp only
  generalize setPipe s p { s.pipe p with armed := false } = s0 at h0 hl0 ⊢
  split
  · exact inv2_setPipe s0 p _ rfl rfl h0
  · exact closePipe_inv2 _ _ h0
  · rename_i hdr body hparse
    have hne : hdr ≠ [] := by
      have := (parse_ok_facts hparse).1
      intro e; rw [e] at this; simp at this
    split
    · -- hold
      constructor
      · intro _; show true = !(s0.recvpipes ++ _).isEmpty; simp
      · intro hc
        show s0.writable = sockCanSend _
        rw [h0.W hc]; exact (sockCanSend_congr rfl rfl rfl (fun _ _ => rfl) (fun _ _ => rfl)).symm
      · exact h0.B
      · intro r hr
        have hr' : r ∈ s0.recvpipes ++ [⟨s0.narrive, p, hdr, body⟩] := hr
        rw [List.mem_append, List.mem_singleton] at hr'
        cases hr' with
        | inl hr' => exact h0.H r hr'
        | inr hr' => subst hr'; exact ⟨hne, hl0⟩
      · exact h0.N
    · rename_i k rest _
      split
      · exact inv2_same (s := s0) rfl rfl rfl rfl rfl rfl rfl rfl h0
      · rename_i pk _
        dsimp only
        apply deliver_inv2
        · apply inv2_setCtx
          · rfl
          · rfl
          exact inv2_same (s := s0) rfl rfl rfl rfl rfl rfl rfl rfl h0
        · exact hne
        · exact hl0

/-! #### ctxRecv -/
theorem ctxRecv_inv2 (s : State) (k a : Nat) (mode : Mode) (h : Inv2 s) : Inv2 (ctxRecv s k a mode).1 := by
  unfold ctxRecv
  split
  · split
    · exact h
    · exact h
    · split
      · exact h
      · dsimp only
        refine inv2_same (s := setCtx s k _) rfl rfl rfl rfl rfl rfl rfl rfl ?_
        apply inv2_setCtx
        · rfl
        · rfl
        exact h
  · rename_i r rest hrp
    dsimp only
    have hr := h.H r (by rw [hrp]; exact List.mem_cons_self)
    have h1 : Inv2 (if rest.isEmpty = true then setR { s with recvpipes := rest } false
                    else { s with recvpipes := rest }) := by
      split
      · rename_i he
        constructor
        · intro _; show false = !rest.isEmpty; rw [he]; rfl
        · intro hc; show s.writable = sockCanSend _
          rw [h.W hc]; exact (sockCanSend_congr rfl rfl rfl (fun _ _ => rfl) (fun _ _ => rfl)).symm
        · exact h.B
        · intro r' hr'; exact h.H r' (by rw [hrp]; exact List.mem_cons_of_mem _ hr')
        · exact h.N
      · rename_i he
        constructor
        · intro hc; show s.readable = !rest.isEmpty
          rw [h.R hc, hrp]
          cases hre : rest.isEmpty with
          | true => exact absurd hre he
          | false => rfl
        · intro hc; show s.writable = sockCanSend _
          rw [h.W hc]; exact (sockCanSend_congr rfl rfl rfl (fun _ _ => rfl) (fun _ _ => rfl)).symm
        · exact h.B
        · intro r' hr'; exact h.H r' (by rw [hrp]; exact List.mem_cons_of_mem _ hr')
        · exact h.N
    apply deliver_inv2 _ _ _ h1 hr.1
    have : livePipe (if rest.isEmpty = true then setR { s with recvpipes := rest } false
                    else { s with recvpipes := rest }) r.pipe = livePipe s r.pipe := by
      split <;> rfl
    rw [this]; exact hr.2

/-! #### ctxSend -/
theorem sockCanSend_false_of_nil {s : State} (h : (s.ctx 0).btrace = []) : sockCanSend s = false := by
  unfold sockCanSend; rw [h]; rfl

theorem ctxSend_inv2 (s : State) (k a : Nat) (m : WMsg) (mode : Mode) (h : Inv2 s) : Inv2 (ctxSend s k a m mode).1 := by
  -- after the saved state was consumed
  have h2 : Inv2 (if (k == 0) = true then setW (setCtx s k { s.ctx k with btrace := [], pipeId := none }) false
                  else setCtx s k { s.ctx k with btrace := [], pipeId := none }) := by
    have hB : ∀ k' p, ((setCtx s k { s.ctx k with btrace := [], pipeId := none }).ctx k').pipeId = some p →
        p < s.npipes ∧ ((setCtx s k { s.ctx k with btrace := [], pipeId := none }).ctx k').btrace ≠ [] := by
      intro k' p hk'
      rw [setCtx_ctx, upd_apply] at hk' ⊢
      by_cases hkk : k' = k
      · rw [if_pos hkk] at hk'; simp at hk'
      · rw [if_neg hkk] at hk' ⊢; exact h.B k' p hk'
    by_cases hk : k = 0
    · subst hk
      simp only [beq_self_eq_true, ↓reduceIte]
      constructor
      · intro hc; exact h.R hc
      · intro _
        exact (sockCanSend_false_of_nil (by rw [setW_ctx, setCtx_ctx, upd_same])).symm
      · exact hB
      · intro r hr; exact h.H r hr
      · exact h.N
    · have hk' : (k == 0) = false := by simp [hk]
      rw [hk']
      simp only [Bool.false_eq_true, ↓reduceIte]
      have hk'' : (0 : Nat) ≠ k := fun e => hk e.symm
      constructor
      · intro hc; exact h.R hc
      · intro hc
        show s.writable = sockCanSend _
        rw [h.W hc]
        have e1 : ((setCtx s k { s.ctx k with btrace := [], pipeId := none }).ctx 0).btrace = (s.ctx 0).btrace := by
          rw [setCtx_ctx, upd_other _ _ hk'']
        have e2 : ((setCtx s k { s.ctx k with btrace := [], pipeId := none }).ctx 0).pipeId = (s.ctx 0).pipeId := by
          rw [setCtx_ctx, upd_other _ _ hk'']
        exact (sockCanSend_congr (s := s) (s' := setCtx s k { s.ctx k with btrace := [], pipeId := none }) e1 e2 rfl
          (fun _ _ => rfl) (fun _ _ => rfl)).symm
      · exact hB
      · intro r hr; exact h.H r hr
      · exact h.N
  unfold ctxSend
  dsimp only
  split
  · exact h
  · generalize (if (k == 0) = true then setW (setCtx s k { s.ctx k with btrace := [], pipeId := none }) false
                  else setCtx s k { s.ctx k with btrace := [], pipeId := none }) = s2 at h2 ⊢
    split
    · exact h2
    · split
      · exact h2
      · rename_i p _
        split
        · exact inv2_same (s := s2) rfl rfl rfl rfl rfl rfl rfl rfl h2
        · rename_i hlive
          have hlive' : livePipe s2 p = true := by
            cases hl : livePipe s2 p with
            | true => rfl
            | false => rw [hl] at hlive; simp at hlive
          split
          · -- idle pipe: busy := true, FIX clears writable when it is the socket's pipe
            apply inv2_same (s := if (((setPipe s2 p { s2.pipe p with busy := true }).ctx 0).pipeId == some p) = true
                then setW (setPipe s2 p { s2.pipe p with busy := true }) false
                else setPipe s2 p { s2.pipe p with busy := true })
            · split <;> rfl
            · split <;> rfl
            · split <;> rfl
            · split <;> rfl
            · split <;> rfl
            · split <;> rfl
            · split <;> rfl
            · split <;> rfl
            have hlv : ∀ q, livePipe (setPipe s2 p { s2.pipe p with busy := true }) q = livePipe s2 q := by
              intro q
              unfold livePipe
              rw [setPipe_npipes, setPipe_pipe, upd_apply]
              by_cases hq : q = p
              · rw [if_pos hq, hq]
              · rw [if_neg hq]
            split
            · rename_i hpid
              have hpid' : (s2.ctx 0).pipeId = some p := by
                have : ((setPipe s2 p { s2.pipe p with busy := true }).ctx 0).pipeId = (s2.ctx 0).pipeId := rfl
                rw [this] at hpid; simpa using hpid
              constructor
              · intro hc; exact h2.R hc
              · intro _
                show false = sockCanSend (setPipe s2 p { s2.pipe p with busy := true })
                unfold sockCanSend
                rw [setPipe_ctx, hpid']
                simp only
                rw [hlv, hlive', setPipe_pipe, upd_same]
                simp
              · intro k' q hk'; exact h2.B k' q hk'
              · intro r hr
                show r.bt ≠ [] ∧ livePipe (setPipe s2 p { s2.pipe p with busy := true }) r.pipe = true
                rw [hlv]; exact h2.H r hr
              · exact h2.N
            · rename_i hpid
              have hpid' : (s2.ctx 0).pipeId ≠ some p := by
                have : ((setPipe s2 p { s2.pipe p with busy := true }).ctx 0).pipeId = (s2.ctx 0).pipeId := rfl
                rw [this] at hpid; simpa using hpid
              constructor
              · intro hc; exact h2.R hc
              · intro hc
                show s2.writable = sockCanSend (setPipe s2 p { s2.pipe p with busy := true })
                rw [h2.W hc]
                unfold sockCanSend
                rw [setPipe_ctx]
                cases hq : (s2.ctx 0).pipeId with
                | none => rfl
                | some q =>
                  have hqp : q ≠ p := by intro e; apply hpid'; rw [hq, e]
                  simp only
                  rw [hlv, setPipe_pipe, upd_other _ _ hqp]
              · intro k' q hk'; exact h2.B k' q hk'
              · intro r hr; rw [hlv]; exact h2.H r hr
              · exact h2.N
          · split
            · exact h2
            · exact h2
            · dsimp only
              apply inv2_setPipe
              · rfl
              · rfl
              apply inv2_setCtx
              · rfl
              · rfl
              exact h2

/-! #### pipeSent -/
theorem pipeSent_inv2 (s : State) (p : Nat) (h : Inv2 s) (hbusy : (s.pipe p).busy = true) : Inv2 (pipeSent s p).1 := by
  unfold pipeSent
  dsimp only
  split
  · dsimp only
    have hlv : ∀ q, livePipe (setPipe s p { s.pipe p with busy := false }) q = livePipe s q := by
      intro q
      unfold livePipe
      rw [setPipe_npipes, setPipe_pipe, upd_apply]
      by_cases hq : q = p
      · rw [if_pos hq, hq]
      · rw [if_neg hq]
    split
    · rename_i hpid
      have hpid' : (s.ctx 0).pipeId = some p := by
        have : ((setPipe s p { s.pipe p with busy := false }).ctx 0).pipeId = (s.ctx 0).pipeId := rfl
        rw [this] at hpid; simpa using hpid
      constructor
      · intro hc; exact h.R hc
      · intro _
        show true = sockCanSend (setPipe s p { s.pipe p with busy := false })
        unfold sockCanSend
        rw [setPipe_ctx, hpid']
        simp only
        rw [setPipe_pipe, upd_same]
        have hb := (h.B 0 p hpid').2
        cases hbt : (s.ctx 0).btrace with
        | nil => exact absurd hbt hb
        | cons _ _ => simp
      · intro k' q hk'; exact h.B k' q hk'
      · intro r hr
        show r.bt ≠ [] ∧ livePipe (setPipe s p { s.pipe p with busy := false }) r.pipe = true
        rw [hlv]; exact h.H r hr
      · exact h.N
    · rename_i hpid
      have hpid' : (s.ctx 0).pipeId ≠ some p := by
        have : ((setPipe s p { s.pipe p with busy := false }).ctx 0).pipeId = (s.ctx 0).pipeId := rfl
        rw [this] at hpid; simpa using hpid
      constructor
      · intro hc; exact h.R hc
      · intro hc
        show s.writable = sockCanSend (setPipe s p { s.pipe p with busy := false })
        rw [h.W hc]
        unfold sockCanSend
        rw [setPipe_ctx]
        cases hq : (s.ctx 0).pipeId with
        | none => rfl
        | some q =>
          have hqp : q ≠ p := by intro e; apply hpid'; rw [hq, e]
          simp only
          rw [hlv, setPipe_pipe, upd_other _ _ hqp]
      · intro k' q hk'; exact h.B k' q hk'
      · intro r hr; rw [hlv]; exact h.H r hr
      · exact h.N
  · rename_i e rest _
    refine inv2_same (s := setCtx (setPipe s p { s.pipe p with busy := true, sendq := rest }) e.ctx _) rfl rfl rfl rfl rfl rfl rfl rfl ?_
    apply inv2_setCtx
    · rfl
    · rfl
    apply inv2_setPipe
    · rfl
    · exact hbusy.symm
    exact h

/-! #### cancel functions, context close -/
theorem failAio_inv2 (s : State) (a rv : Nat) (h : Inv2 s) : Inv2 (failAio s a rv).1 := by
  unfold failAio
  split
  · rename_i k _
    dsimp only
    refine inv2_same (s := setCtx s k _) rfl rfl rfl rfl rfl rfl rfl rfl ?_
    apply inv2_setCtx
    · rfl
    · rfl
    exact h
  · split
    · rename_i k _
      dsimp only
      apply inv2_setCtx
      · rfl
      · rfl
      split
      · exact inv2_setPipe s _ _ rfl rfl h
      · exact h
    · exact h

/-- folds of a state-preserving step preserve any predicate -/
theorem foldl_pres (P : State → Prop) (f : State → Nat → State × List Out) (hf : ∀ s k, P s → P (f s k).1)
    (ks : List Nat) : ∀ (s : State) (o : List Out), P s →
    P (ks.foldl (fun (acc : State × List Out) k =>
      let (s', o) := f acc.1 k
      (s', acc.2 ++ o)) (s, o)).1 := by
  induction ks with
  | nil => intro s o h; exact h
  | cons k ks ih =>
    intro s o h
    rw [List.foldl_cons]
    exact ih _ _ (hf s k h)

theorem closeAll_pres (P : State → Prop) (f : State → Nat → State × List Out) (hf : ∀ s k, P s → P (f s k).1)
    (ks : List Nat) (s : State) (h : P s) : P (closeAll s ks f).1 := foldl_pres P f hf ks s [] h

theorem expire_inv2 (s : State) (h : Inv2 s) : Inv2 (expire s).1 := by
  unfold expire failAll
  exact foldl_pres Inv2 (fun s a => failAio s a Err.etimedout) (fun s a h => failAio_inv2 s a _ h) _ s [] h

theorem ctxCloseParked_inv2 (s : State) (k : Nat) (h : Inv2 s) : Inv2 (ctxCloseParked s k).1 := by
  have h1 : Inv2 (ctxCloseSend s k).1 := by
    unfold ctxCloseSend
    split
    · dsimp only
      apply inv2_setCtx
      · rfl
      · rfl
      split
      · exact inv2_setPipe s _ _ rfl rfl h
      · exact h
    · exact h
  have h2 : Inv2 (ctxCloseRecv (ctxCloseSend s k).1 k).1 := by
    generalize (ctxCloseSend s k).1 = s1 at h1 ⊢
    unfold ctxCloseRecv
    split
    · dsimp only
      refine inv2_same (s := setCtx s1 k _) rfl rfl rfl rfl rfl rfl rfl rfl ?_
      apply inv2_setCtx
      · rfl
      · rfl
      exact h1
    · exact h1
  unfold ctxCloseParked
  dsimp only
  apply inv2_setCtx
  · rfl
  · rfl
  exact h2

/-! #### step -/
theorem step_inv2 (s : State) (ev : Ev) (h : Inv2 s) : Inv2 (step s ev).1 := by
  unfold step
  split
  · split
    · -- open: fresh s->ctx, not writable
      constructor
      · intro hc; exact h.R hc
      · intro _
        exact (sockCanSend_false_of_nil (by rw [setCtx_ctx, upd_same])).symm
      · intro k p hk
        rw [setCtx_ctx, upd_apply] at hk ⊢
        by_cases hk0 : k = 0
        · rw [if_pos hk0] at hk; simp at hk
        · rw [if_neg hk0] at hk ⊢; exact h.B k p hk
      · intro r hr; exact h.H r hr
      · exact h.N
    · exact inv2_same (s := s) rfl rfl rfl rfl rfl rfl rfl rfl h
    · exact h
  · split
    · split
      · exact inv2_same (s := s) rfl rfl rfl rfl rfl rfl rfl rfl h
      · exact h
    · split
      · exact h
      · -- pipeAdd: the new index is beyond every pipe id in use
        dsimp only
        have key : ∀ (pp : Pipe), Inv2 (setPipe (addPipeSlot s) s.npipes pp) := by
          intro pp
          have hlv : ∀ q, q < s.npipes → livePipe (setPipe (addPipeSlot s) s.npipes pp) q = livePipe s q := by
            intro q hq
            have hne : q ≠ s.npipes := Nat.ne_of_lt hq
            unfold livePipe
            rw [setPipe_pipe, upd_other _ _ hne]
            show (decide (q < s.npipes + 1) && !(s.pipe q).closed) = (decide (q < s.npipes) && !(s.pipe q).closed)
            have : decide (q < s.npipes + 1) = decide (q < s.npipes) := by
              simp [hq, Nat.lt_succ_of_lt hq]
            rw [this]
          constructor
          · intro hc; exact h.R hc
          · intro hc
            show s.writable = _
            rw [h.W hc]
            unfold sockCanSend
            rw [setPipe_ctx]
            have hctx : (addPipeSlot s).ctx = s.ctx := rfl
            rw [hctx]
            cases hq : (s.ctx 0).pipeId with
            | none => rfl
            | some q =>
              have hlt := (h.B 0 q hq).1
              have hne : q ≠ s.npipes := Nat.ne_of_lt hlt
              simp only
              rw [hlv q hlt, setPipe_pipe, upd_other _ _ hne]
              rfl
          · intro k q hk
            have := h.B k q hk
            exact ⟨Nat.lt_succ_of_lt this.1, this.2⟩
          · intro r hr
            have hr' := h.H r hr
            rw [hlv r.pipe (livePipe_lt hr'.2)]
            exact hr'
          · exact h.N
        split
        · exact key _
        · exact key _
      · split
        · exact closePipe_inv2 s _ h
        · exact h
      · -- sendDone
        rename_i p rv
        split
        · exact h
        · rename_i hcond
          have hbusy : (s.pipe p).busy = true := by
            simp at hcond; exact hcond.2
          split
          · exact closePipe_inv2 s _ h
          · exact pipeSent_inv2 s _ h hbusy
      · -- recvDone
        rename_i p r
        split
        · exact h
        · rename_i hcond
          have hl : livePipe s p = true := by
            simp at hcond; exact hcond.1
          split
          · exact closePipe_inv2 s _ h
          · exact pipeRecv_inv2 s _ _ h hl
      · split
        · exact h
        · split
          · exact h
          · exact ctxSend_inv2 s _ _ _ _ h
      · split
        · exact h
        · split
          · exact h
          · exact ctxRecv_inv2 s _ _ _ h
      · exact failAio_inv2 s _ _ h
      · exact failAio_inv2 s _ _ h
      · exact expire_inv2 _ (inv2_same (s := s) rfl rfl rfl rfl rfl rfl rfl rfl h)
      · -- ctxOpen: the new uid is not 0
        rename_i c
        split
        · exact h
        · have hN := h.N
          have hne : (0 : Nat) ≠ s.nctx := by omega
          constructor
          · intro hc; exact h.R hc
          · intro hc
            show s.writable = _
            rw [h.W hc]
            have e1 : ((setCtx (allocCtx s c) s.nctx { isOpen := true }).ctx 0).btrace = (s.ctx 0).btrace := by
              rw [setCtx_ctx, upd_other _ _ hne]; rfl
            have e2 : ((setCtx (allocCtx s c) s.nctx { isOpen := true }).ctx 0).pipeId = (s.ctx 0).pipeId := by
              rw [setCtx_ctx, upd_other _ _ hne]; rfl
            exact (sockCanSend_congr (s := s) e1 e2 rfl (fun _ _ => rfl) (fun _ _ => rfl)).symm
          · intro k p hk
            rw [setCtx_ctx, upd_apply] at hk ⊢
            by_cases hkk : k = s.nctx
            · rw [if_pos hkk] at hk; simp at hk
            · rw [if_neg hkk] at hk ⊢; exact h.B k p hk
          · intro r hr; exact h.H r hr
          · show 1 ≤ s.nctx + 1; omega
      · -- ctxClose
        split
        · exact h
        · split
          · exact h
          · exact inv2_same (s := (ctxCloseParked s _).1) rfl rfl rfl rfl rfl rfl rfl rfl (ctxCloseParked_inv2 s _ h)
      · split
        · exact h
        · exact inv2_same (s := s) rfl rfl rfl rfl rfl rfl rfl rfl h
      · exact h
      · exact h
      · exact h
      · exact h
      · exact h
      · exact h
      · -- close
        dsimp only
        have finish : ∀ s3, Inv2 s3 → Inv2 (finishClose s3) := by
          intro s3 h3
          constructor
          · intro hc; exact absurd hc (by simp [finishClose])
          · intro hc; exact absurd hc (by simp [finishClose])
          · exact h3.B
          · intro r hr; simp [finishClose] at hr
          · exact h3.N
        apply finish
        apply closeAll_pres Inv2 ctxCloseParked ctxCloseParked_inv2
        apply closeAll_pres Inv2 closePipe closePipe_inv2
        apply closeAll_pres Inv2 ctxCloseParked ctxCloseParked_inv2
        exact h

theorem run_inv2 (evs : List Ev) : ∀ s, Inv2 s → Inv2 (run s evs).1 := by
  induction evs with
  | nil => intro s h; exact h
  | cons e es ih =>
    intro s h
    exact ih _ (step_inv2 s e h)

end Nng.RepProofs
