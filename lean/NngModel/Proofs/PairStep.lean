/-
  C08: the three invariants together are preserved by every event (all variants), hence
  hold in every reachable state.
-/
import NngModel.Proofs.PairInv
import NngModel.Proofs.PairCons
import NngModel.Proofs.PairPipes
namespace Nng.Pair0
open Nng Nng.Proto List

theorem getPipe_some {s : State} {p : Nat} {pp : Pipe} (h : getPipe s p = some pp) : pp ∈ s.pipes ∧ pp.id = p := by
  unfold getPipe at h
  exact ⟨List.mem_of_find?_eq_some h, by simpa using List.find?_some h⟩

/-- what `recv_done` on an armed, open pipe implies: nothing is held, and it is the attached pipe -/
theorem armed_facts {s : State} {p : Nat} {pp : Pipe} (hp : PInv s) (hg : getPipe s p = some pp)
    (hc : pp.closed = false) (ha : pp.armed = true) : s.rdReady = false ∧ s.cur = some p := by
  obtain ⟨hm, hid⟩ := getPipe_some hg
  refine ⟨?_, hid ▸ hp.single pp hm hc⟩
  cases hr : s.rdReady with
  | false => rfl
  | true => have := hp.heldNotArmed hr pp hm; rw [ha] at this; exact absurd this (by simp)

theorem disarm_pinv (s : State) (p : Nat) (h : PInv s) : PInv (modPipe s p fun q => { q with armed := false }) :=
  modPipe_pinv s p (fun q => { q with armed := false }) h (fun _ => rfl) (fun _ => rfl)
    (fun q hq _ hc => Or.inr ⟨(h.closedInert q hq hc).1, rfl⟩) (fun _ q ha => by simp at ha)

theorem idle_pinv (s : State) (p : Nat) (h : PInv s) : PInv (modPipe s p fun q => { q with busy := none }) :=
  modPipe_pinv s p (fun q => { q with busy := none }) h (fun _ => rfl) (fun _ => rfl)
    (fun q hq _ hc => Or.inr ⟨rfl, (h.closedInert q hq hc).2⟩) (fun _ q ha => ha)

theorem disarm_unarmed (s : State) (p : Nat) :
    ∀ pp ∈ (modPipe s p fun q => { q with armed := false }).pipes, pp.id = p → pp.armed = false := by
  intro pp hm hid
  obtain ⟨q, _, h | h⟩ := mem_modPipe hm
  · obtain ⟨_, rfl⟩ := h; rfl
  · obtain ⟨hne, rfl⟩ := h; exact absurd hid hne

structure All (V : Variant) (s : State) : Prop where
  inv : Inv s
  cons : Cons V s
  pinv : PInv s

theorem all_init (V : Variant) : All V ({} : State) := ⟨inv_init, cons_init V, pinv_init⟩

theorem step_pinv (V : Variant) (s : State) (ev : Ev) (h : All V s) : PInv (step V s ev).1 := by
  obtain ⟨hi, hc, hp⟩ := h
  unfold step
  split
  · split
    · constructor <;> simp
    · exact pinv_of_eq s _ hp rfl rfl (fun h => h)
    · exact hp
  · split
    · split
      · exact pinv_of_eq s _ hp rfl rfl (fun h => h)
      · exact hp
    · split
      all_goals first
        | exact hp
        | exact failParked_pinv _ _ _ hp
        | exact sockRecv_pinv _ _ _ hp hi
        | exact sockSend_pinv _ _ _ _ _ hp
        | skip
      case h_2 peer => exact pipeAdd_pinv V s peer hp
      case h_3 p =>
        split
        · split
          · exact hp
          · exact closePipe_pinv _ _ hp
        · exact hp
      case h_4 p rv =>
        split
        · split
          · exact hp
          · split
            · exact closePipe_pinv _ _ hp
            · exact sendSched_pinv _ _ _ (idle_pinv _ _ hp)
        · exact hp
      case h_5 p r =>
        split
        · rename_i pp hg
          split
          · exact hp
          · rename_i hca
            have hcl : pp.closed = false := by
              cases hx : pp.closed with
              | false => rfl
              | true => simp [hx] at hca
            have har : pp.armed = true := by
              cases hx : pp.armed with
              | true => rfl
              | false => simp [hx] at hca
            obtain ⟨hd, hcur⟩ := armed_facts hp hg hcl har
            split
            · exact closePipe_pinv _ _ (disarm_pinv _ _ hp)
            · exact recvCb_pinv V _ p _ (disarm_pinv _ _ hp) (modPipe_inv _ _ _ hi) hd (disarm_unarmed s p) hcur
        · exact hp
      case h_6 => split <;> first | exact hp | exact sockSend_pinv _ _ _ _ _ hp
      case h_7 => split <;> first | exact hp | exact sockRecv_pinv _ _ _ hp hi
      case h_10 ms => exact expire_pinv _ (pinv_of_eq s _ hp rfl rfl (fun h => h))
      case h_13 => split <;> first | exact hp | exact pinv_of_eq s _ hp rfl rfl (fun h => h)
      case h_14 => split <;> first | exact hp | exact pinv_of_eq s _ hp rfl rfl (fun h => h)
      case h_15 =>
        split
        · exact hp
        · split
          · exact hp
          · exact pinv_of_eq s _ hp rfl rfl (fun h => h)
      case h_19 => split <;> exact hp
      case h_24 =>
        simp only
        refine pinv_of_eq _ _ (closeAll_pinv s.pipes s [] hp) ?_ ?_ ?_ <;> simp [sockClose, closeAllPipes]

theorem step_cons (V : Variant) (s : State) (ev : Ev) (h : All V s) : Cons V (step V s ev).1 := by
  obtain ⟨hi, hc, hp⟩ := h
  unfold step
  split
  · split
    · constructor <;> simp
    · obtain ⟨c1, c2, c3, c4⟩ := hc; cons_frame
    · exact hc
  · split
    · split
      · obtain ⟨c1, c2, c3, c4⟩ := hc; cons_frame
      · exact hc
    · split
      all_goals first
        | exact hc
        | exact failParked_cons _ _ _ _ hc
        | exact sockRecv_cons _ _ _ _ hc hi
        | exact sockSend_cons _ _ _ _ _ hc hi
        | exact setSendBuf_cons _ _ _ hc
        | exact setRecvBuf_cons _ _ _ hc
        | skip
      case h_2 peer =>
        simp only
        apply pipeStart_cons
        · obtain ⟨c1, c2, c3, c4⟩ := hc; cons_frame
        · obtain ⟨h1, h2, h3, h4, h5, h6, h7, h8, h9, h10⟩ := hi; inv_auto
      case h_3 p =>
        split
        · split
          · exact hc
          · exact closePipe_cons _ _ _ hc hi
        · exact hc
      case h_4 p rv =>
        split
        · split
          · exact hc
          · split
            · exact closePipe_cons _ _ _ hc hi
            · exact sendSched_cons _ _ _ (modPipe_cons _ _ _ _ hc) (modPipe_inv _ _ _ hi)
        · exact hc
      case h_5 p r =>
        split
        · rename_i pp hg
          split
          · exact hc
          · rename_i hca
            have hcl : pp.closed = false := by
              cases hx : pp.closed with
              | false => rfl
              | true => simp [hx] at hca
            have har : pp.armed = true := by
              cases hx : pp.armed with
              | true => rfl
              | false => simp [hx] at hca
            obtain ⟨hd, hcur⟩ := armed_facts hp hg hcl har
            split
            · exact closePipe_cons _ _ _ (modPipe_cons _ _ _ _ hc) (modPipe_inv _ _ _ hi)
            · exact recvCb_cons V _ p _ (modPipe_cons _ _ _ _ hc) (modPipe_inv _ _ _ hi) hd
        · exact hc
      case h_6 => split <;> first | exact hc | exact sockSend_cons _ _ _ _ _ hc hi
      case h_7 => split <;> first | exact hc | exact sockRecv_cons _ _ _ _ hc hi
      case h_10 ms =>
        apply expire_cons
        obtain ⟨c1, c2, c3, c4⟩ := hc; cons_frame
      case h_13 => split <;> first | exact hc | exact setSendBuf_cons _ _ _ hc
      case h_14 => split <;> first | exact hc | exact setRecvBuf_cons _ _ _ hc
      case h_15 =>
        split
        · exact hc
        · split
          · exact hc
          · obtain ⟨c1, c2, c3, c4⟩ := hc; cons_frame
      case h_19 => split <;> exact hc
      case h_24 =>
        simp only
        apply sockClose_cons
        unfold closeAllPipes
        exact closeAll_cons V _ _ _ hc hi

theorem step_all (V : Variant) (hV : V.sendBufInit = 0) (s : State) (ev : Ev) (h : All V s) : All V (step V s ev).1 :=
  ⟨step_inv V hV s ev h.inv, step_cons V s ev h, step_pinv V s ev h⟩

theorem run_all (V : Variant) (hV : V.sendBufInit = 0) (evs : List Ev) (s : State) (h : All V s) :
    All V (run V s evs).1 := by
  induction evs generalizing s with
  | nil => exact h
  | cons e es ih =>
    simp only [run]
    exact ih _ (step_all V hV s e h)

end Nng.Pair0
