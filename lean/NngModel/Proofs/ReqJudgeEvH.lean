/-
  Simulation (8): a connection goes away (req0_pipe_close).  The judge processes `pclosed` before the
  transmissions of the same step; the model walks the pipe's context list (`closeLoop`).  `M pend`
  relates the two while `pend` = the contexts the model has not reached yet.
-/
import NngModel.Proofs.ReqJudgeEvG
namespace Nng.ReqJ
open Nng Nng.Proto Nng.Req Nng.ReqSpec

/-! ### model-level frame facts about the send queue -/

theorem sendOne_ctx_other (s : State) (k p x : Nat) (hx : x ≠ k) : (sendOne s k p).1.ctx x = s.ctx x := by
  unfold sendOne
  have e : (sendPrep s k p (s.ctx k).retry).ctx = s.ctx := by rw [sendPrep_eq]
  dsimp only
  split
  · unfold flag; split <;> (dsimp only; rw [e])
  · unfold wireIndex tranClone flag
    simp only [setPipe, setCtx, setMsg]
    (repeat' split) <;> simp [upd, hx, e]

theorem sendOne_sq (s : State) (k p : Nat) : (sendOne s k p).1.sendQueue = s.sendQueue.erase k := by
  unfold sendOne
  have e : (sendPrep s k p (s.ctx k).retry).sendQueue = s.sendQueue.erase k := by rw [sendPrep_eq]
  dsimp only
  split
  · unfold flag; split <;> (dsimp only; rw [e])
  · unfold wireIndex tranClone flag
    simp only [setPipe, setCtx, setMsg]
    (repeat' split) <;> simp [e]

theorem sendOne_ready (s : State) (k p : Nat) : (sendOne s k p).1.readyPipes = s.readyPipes.erase p := by
  unfold sendOne
  have e : (sendPrep s k p (s.ctx k).retry).readyPipes = s.readyPipes.erase p := by rw [sendPrep_eq]
  dsimp only
  split
  · unfold flag; split <;> (dsimp only; rw [e])
  · unfold wireIndex tranClone flag
    simp only [setPipe, setCtx, setMsg]
    (repeat' split) <;> simp [e]

theorem sendOne_pipe_other (s : State) (k p p0 : Nat) (hp : p0 ≠ p) :
    ((sendOne s k p).1.pipe p0).ctxs = (s.pipe p0).ctxs.erase k := by
  unfold sendOne
  have e : ((sendPrep s k p (s.ctx k).retry).pipe p0).ctxs = (s.pipe p0).ctxs.erase k := by
    rw [sendPrep_eq]; simp [upd, hp, eraseCtxs]
  dsimp only
  split
  · unfold flag; split <;> (dsimp only; rw [e])
  · unfold wireIndex tranClone flag
    simp only [setPipe, setCtx, setMsg]
    (repeat' split) <;> simp [upd, hp, e]

theorem runQ_ctx_notin (fuel : Nat) (s : State) (x : Nat) (hx : x ∉ s.sendQueue) : (runQ fuel s).1.ctx x = s.ctx x := by
  induction fuel generalizing s with
  | zero => rfl
  | succ n ih =>
    unfold runQ
    split
    · rename_i k t p t' hs hp
      dsimp only
      have hk : x ≠ k := fun e => hx (by rw [hs, e]; simp)
      rw [ih _ (by rw [sendOne_sq]; exact fun h => hx (List.mem_of_mem_erase h)), sendOne_ctx_other _ _ _ _ hk]
    · rfl

theorem runQ_nil_ready (fuel : Nat) (s : State) (h : s.readyPipes = []) : runQ fuel s = (s, []) := by
  cases fuel with
  | zero => rfl
  | succ n =>
    unfold runQ
    split
    · rename_i hp; rw [h] at hp; cases hp
    · rfl

theorem runQ_pipe_keep (fuel : Nat) (s : State) (p0 : Nat) (hp0 : p0 ∉ s.readyPipes)
    (hd : s.readyPipes = [] ∨ ∀ k, k ∈ (s.pipe p0).ctxs → k ∉ s.sendQueue) :
    ((runQ fuel s).1.pipe p0).ctxs = (s.pipe p0).ctxs := by
  induction fuel generalizing s with
  | zero => rfl
  | succ n ih =>
    unfold runQ
    split
    · rename_i k t p t' hs hp
      dsimp only
      have hne : p0 ≠ p := fun e => hp0 (by rw [hp, e]; simp)
      have hk : k ∉ (s.pipe p0).ctxs := by
        rcases hd with a | a
        · rw [a] at hp; cases hp
        · exact fun h => a k h (by rw [hs]; simp)
      have e1 : ((sendOne s k p).1.pipe p0).ctxs = (s.pipe p0).ctxs := by
        rw [sendOne_pipe_other _ _ _ _ hne, List.erase_of_not_mem hk]
      rw [ih _ (by rw [sendOne_ready]; exact fun h => hp0 (List.mem_of_mem_erase h)) ?_, e1]
      rcases hd with a | a
      · rw [a] at hp; cases hp
      · right; intro k' hk'; rw [e1] at hk'; rw [sendOne_sq]; exact fun h => a k' hk' (List.mem_of_mem_erase h)
    · rfl

theorem runQ_ready_sub (fuel : Nat) (s : State) (x : Nat) (hx : x ∈ (runQ fuel s).1.readyPipes) : x ∈ s.readyPipes := by
  induction fuel generalizing s with
  | zero => exact hx
  | succ n ih =>
    unfold runQ at hx
    split at hx
    · dsimp only at hx
      have := ih _ hx
      rw [sendOne_ready] at this
      exact List.mem_of_mem_erase this
    · exact hx

theorem runQ_sq_sub (fuel : Nat) (s : State) (x : Nat) (hx : x ∈ (runQ fuel s).1.sendQueue) : x ∈ s.sendQueue := by
  induction fuel generalizing s with
  | zero => exact hx
  | succ n ih =>
    unfold runQ at hx
    split at hx
    · dsimp only at hx
      have := ih _ hx
      rw [sendOne_sq] at this
      exact List.mem_of_mem_erase this
    · exact hx

/-! ### one context of the closing pipe: resending disabled -/

theorem eraseCtxs_unlisted (f : Nat → Pipe) (p k : Nat) (hn : (f p).ctxs.Nodup) :
    eraseCtxs (upd f p { f p with ctxs := (f p).ctxs.erase k }) k = eraseCtxs f k := by
  funext q
  simp only [eraseCtxs, upd]
  split
  · rename_i e; subst e; simp [erase_erase hn]
  · rfl

theorem closeOne_lost_eq (s : State) (p k : Nat) (hr : (s.ctx k).retry ≤ 0) (hs : (s.ctx k).sendAio = none)
    (hn : (s.pipe p).ctxs.Nodup) :
    (match (s.ctx k).recvAio with
      | some ua => mv (closeOne s p k).1 = wipeV (mv s) k true false ∧
          (closeOne s p k).2 = [Out.done ua.aio Err.econnreset none false]
      | none => mv (closeOne s p k).1 = wipeV (mv s) k true true ∧ (closeOne s p k).2 = []) := by
  unfold closeOne
  have hc0 : (setPipe s p { s.pipe p with ctxs := (s.pipe p).ctxs.erase k }).ctx k = s.ctx k := rfl
  simp only [hc0, hr, if_true]
  cases hra : (s.ctx k).recvAio with
  | some ua =>
    refine ⟨?_, rfl⟩
    rw [mv_ctxReset, mv_setCtx]
    simp only [resetV, setCtxV, wipeV, mv, setPipe, MV.mk.injEq, true_and, and_true, upd_upd, upd_same,
      eraseCtxs_unlisted _ _ _ hn]
    congr 1
    simp [resetCtx, wipeCtx, hs]
  | none =>
    refine ⟨?_, rfl⟩
    rw [mv_setCtx]
    have e := mv_ctxReset (setPipe s p { s.pipe p with ctxs := (s.pipe p).ctxs.erase k }) k
    have ec : (ctxReset (setPipe s p { s.pipe p with ctxs := (s.pipe p).ctxs.erase k }) k).ctx k =
        resetCtx (s.ctx k) := by
      have := congrArg MV.ctx e
      have h2 : (ctxReset (setPipe s p { s.pipe p with ctxs := (s.pipe p).ctxs.erase k }) k).ctx = _ := this
      rw [h2]; simp [resetV, mv, setPipe]
    rw [ec, e]
    simp only [resetV, setCtxV, wipeV, mv, setPipe, MV.mk.injEq, true_and, and_true, upd_upd, upd_same,
      eraseCtxs_unlisted _ _ _ hn]
    congr 1
    simp [resetCtx, wipeCtx, hs, hra]

theorem G.of_setC {s : State} {j : J} {k : Nat} {c : CJ} (hg : G s (ReqSpec.setC j k c)) : G s j :=
  ⟨hg.now, hg.idle, hg.busy, hg.sock, hg.closed, hg.seen, hg.tick, hg.tkle, hg.tknv, hg.nosend, hg.stab⟩

/-- the model wipes a context of the closing pipe whose loss the judge has already recorded -/
theorem lost_wipe {rest : List Ev} {s s' : State} {j : J} (k : Nat) (t : List Nat) (cr : Bool)
    (hM : M (k :: t) rest s j) (hnd : ∀ q, (s.pipe q).ctxs.Nodup) (hkt : k ∉ t)
    (e : mv s' = wipeV (mv s) k true cr) (hlive : (s.ctx k).live = true)
    (hj : ∀ cj0, RCx s j k cj0 → j.ctx k = lostC s.now cj0 → j.ctx k = wipeCJ cj0 true cr) :
    M t rest s' j := by
  have e' : mv s' = mv (wipeSt s k true cr) := by rw [e, mv_wipeSt]
  refine M.congr (s := wipeSt s k true cr) e' ?_
  obtain ⟨cj0, h0, hjk, _⟩ := hM.rl k (by simp)
  refine ⟨wipe_MI k true cr hM.mi hnd (Or.inl rfl) (fun _ => hlive), (wipe_G k true cr hM.g).of_setC, fun x hx => ?_,
    fun x hx => ?_⟩
  · by_cases ex : x = k
    · subst ex
      rw [hj cj0 h0 hjk]
      exact wipe_RC x true cr h0
    · exact wipe_frame (j := j) k x true cr ex rfl rfl (hM.rc x (by simp [ex, hx]))
  · have ex : x ≠ k := fun e => hkt (e ▸ hx)
    obtain ⟨cjx, a, b, c⟩ := hM.rl x (by simp [hx])
    exact ⟨cjx, wipe_frame (j := j) k x true cr ex rfl rfl a, b, c⟩

/-! ### one context of the closing pipe: the request goes back to the send queue -/

/-- the state after req0_pipe_close moved context `k` from the pipe's list to the send queue -/
def requeueSt (s : State) (p k : Nat) (sq : List Nat) : State :=
  { s with pipe := upd s.pipe p { s.pipe p with ctxs := (s.pipe p).ctxs.erase k },
           ctx := upd s.ctx k { s.ctx k with retryTime := s.now + (s.ctx k).retry.toNat },
           sendQueue := sq }

theorem requeue_M {rest : List Ev} {s : State} {j : J} (p k : Nat) (t sq : List Nat)
    (hI : Inv2 (some p) none s) (hM : M (k :: t) rest s j) (hl : (s.pipe p).ctxs = k :: t)
    (hr : 0 < (s.ctx k).retry) (hsq1 : k ∈ sq) (hsq2 : ∀ x, x ≠ k → (x ∈ sq ↔ x ∈ s.sendQueue)) :
    M t rest (requeueSt s p k sq) j := by
  have hnd : (k :: t).Nodup := by rw [← hl]; exact hI.pc_nodup p
  have hkt : k ∉ t := (List.nodup_cons.1 hnd).1
  have hpc : (s.pipe p).closed = true := hI.closing p rfl
  have hkp : k ∈ (s.pipe p).ctxs := by rw [hl]; simp
  have huniq : ∀ q, k ∈ (s.pipe q).ctxs → q = p := fun q hq => hI.pc_uniq q p k hq hkp
  have hc : ∀ x, x ≠ k → (requeueSt s p k sq).ctx x = s.ctx x := fun x hx => by simp [requeueSt, upd, hx]
  have hck : (requeueSt s p k sq).ctx k = { s.ctx k with retryTime := s.now + (s.ctx k).retry.toNat } := by
    simp [requeueSt, upd]
  have hpm : ∀ x q, x ≠ k → (x ∈ ((requeueSt s p k sq).pipe q).ctxs ↔ x ∈ (s.pipe q).ctxs) := by
    intro x q hx
    simp only [requeueSt, upd]
    split
    · rename_i e; subst e; simp [List.mem_erase_of_ne hx]
    · rfl
  have hpk : ∀ q, k ∉ ((requeueSt s p k sq).pipe q).ctxs := by
    intro q
    simp only [requeueSt, upd]
    split
    · rename_i e; subst e; simp only; rw [hl]; simp [hkt]
    · rename_i e
      intro hin
      exact e (huniq q hin)
  have hcl : ∀ q, ((requeueSt s p k sq).pipe q).closed = (s.pipe q).closed := by
    intro q; simp only [requeueSt, upd]; split
    · rename_i e; rw [e]
    · rfl
  have hbz : ∀ q, ((requeueSt s p k sq).pipe q).busy = (s.pipe q).busy := by
    intro q; simp only [requeueSt, upd]; split
    · rename_i e; rw [e]
    · rfl
  obtain ⟨cj0, h0, hjk, r0, hr0, hw0, ha0⟩ := hM.rl k (by simp)
  obtain ⟨hq, hwir⟩ := hM.mi.onp k p hkp
  obtain ⟨h, hq⟩ := Option.isSome_iff_exists.1 hq
  have hlive : (s.ctx k).live = true := by
    cases hlv : (s.ctx k).live with
    | true => rfl
    | false => have := (hM.mi.dead k hlv).2.2.1; rw [hq] at this; cases this
  obtain ⟨r, hr', hrq⟩ := h0.req h hq
  rw [hr0] at hr'; cases hr'
  have hlv : ∀ x, LiveH (requeueSt s p k sq) x → LiveH s x := by
    intro x hx
    rcases hx with hx | ⟨k', hx⟩
    · exact Or.inl hx
    · by_cases e : k' = k
      · subst e; rw [hck] at hx; exact Or.inr ⟨k', hx⟩
      · rw [hc _ e] at hx; exact Or.inr ⟨k', hx⟩
  have ha : ∀ x b, aioOf (requeueSt s p k sq) x b = aioOf s x b := by
    intro x b; unfold aioOf
    by_cases e : x = k
    · subst e; rw [hck]
    · rw [hc _ e]
  have hmi : MI rest (requeueSt s p k sq) := by
    have hm := hM.mi
    constructor
    · intro x hx
      by_cases e : x = k
      · subst e; rw [hck]; exact hm.biglive x hx
      · rw [hc _ e]; exact hm.biglive x hx
    · intro x hx
      by_cases e : x = k
      · subst e; rw [hck] at hx ⊢; exact hm.dead x hx
      · rw [hc _ e] at hx ⊢; exact hm.dead x hx
    · intro k1 b1 k2 b2 a h1 h2
      rw [ha] at h1 h2; exact hm.park k1 b1 k2 b2 a h1 h2
    · intro x hx
      by_cases e : x = k
      · subst e; rw [hck] at hx ⊢; exact hm.creset x hx
      · rw [hc _ e] at hx ⊢; exact hm.creset x hx
    · intro x hx
      by_cases e : x = k
      · subst e; rw [hck] at hx ⊢; exact hm.rep x hx
      · rw [hc _ e] at hx ⊢; exact hm.rep x hx
    · intro x q hx
      by_cases e : x = k
      · subst e; exact absurd hx (hpk q)
      · rw [hc _ e]; exact hm.onp x q ((hpm x q e).1 hx)
    · intro x h' hr1 hw
      by_cases e : x = k
      · subst e; rw [hck] at hr1 hw ⊢; exact hm.wir x h' hr1 hw
      · rw [hc _ e] at hr1 hw ⊢; exact hm.wir x h' hr1 hw
    · intro x h' hr1 hw
      by_cases e : x = k
      · subst e; rw [hck] at hr1 hw ⊢
        obtain ⟨a1, a2, a3⟩ := hm.unw x h' hr1 hw
        exact ⟨a1, hsq1, a3⟩
      · rw [hc _ e] at hr1 hw ⊢
        obtain ⟨a1, a2, a3⟩ := hm.unw x h' hr1 hw
        exact ⟨a1, (hsq2 x e).2 a2, a3⟩
    · intro x hs
      by_cases e : x = k
      · subst e; rw [hck] at hs ⊢; exact hm.sa x hs
      · rw [hc _ e] at hs ⊢; exact hm.sa x hs
    · intro x hs
      by_cases e : x = k
      · subst e; rw [hck] at hs ⊢; exact hm.rid x hs
      · rw [hc _ e] at hs ⊢; exact hm.rid x hs
    · exact hm.al_nodup
    · exact hm.al_le
    · intro h' hh; exact hm.fresh h' (hlv h' hh)
    · intro h1 h2 l1 l2; exact hm.inj h1 h2 (hlv h1 l1) (hlv h2 l2)
    · exact hm.bound
    · exact hm.open_
    · exact hm.notgone
    · exact hm.notclosed
  have hg : G (requeueSt s p k sq) j := by
    have hg := hM.g
    refine ⟨hg.now, hg.idle, ?_, hg.sock, hg.closed, hg.seen, hg.tick, hg.tkle, hg.tknv, ?_, hg.stab⟩
    · intro q; rw [hcl, hbz]; exact hg.busy q
    · intro hn
      obtain ⟨a1, a2, a3⟩ := hg.nosend hn
      have := a1 k; rw [hq] at this; cases this
  have hfr : ∀ x cj, x ≠ k → RCx s j x cj → RCx (requeueSt s p k sq) j x cj := by
    intro x cj ex hx
    exact RCx.frame (s := s) (j := j) (hc x ex) (fun _ _ => rfl) (fun _ _ _ hi => hi) (Nat.le_refl _)
      (fun q => hpm x q ex) (fun q _ hcq => by rw [hcl]; exact hcq) (hsq2 x ex) (Nat.le_refl _) (Or.inl rfl) rfl rfl hx
  refine ⟨hmi, hg, fun x hx => ?_, fun x hx => ?_⟩
  · by_cases ex : x = k
    · subst ex
      -- the judge's record after the loss
      have hret : cj0.retry = (s.ctx x).retry := h0.retry hlive
      have hjx : j.ctx x = { cj0 with req := some { r0 with needTx := true, deadline := some (s.now + cj0.retry.toNat), txSince := false } } := by
        rw [hjk]; unfold lostC
        simp only [hr0]
        rw [if_neg (by rw [hret]; omega)]
      rw [hjx]
      have hlp := hrq.lp hwir
      have hlast : r0.lastPipe = p := by
        rcases hlp.2 with a | ⟨_, a⟩
        · exact huniq _ a
        · exact absurd hkp (a p)
      constructor
      · rw [hck]; exact h0.opened
      · rw [hck]; exact h0.retry
      · rw [hck]; exact h0.rw
      · rw [hck]; exact h0.stash
      · rw [hck]; exact h0.latched
      · rw [hck]; intro a; rw [hq] at a; cases a
      · rw [hck]; intro a
        have := (hM.mi.rep x a).1
        rw [hq] at this; cases this
      · rw [hck]; intro h' hh'
        have : h' = h := by rw [hq] at hh'; cases hh'; rfl
        subst this
        refine ⟨_, rfl, ?_⟩
        constructor
        · exact hrq.ans
        · exact hrq.body
        · rw [hck]; exact hrq.wired
        · rw [hck]; exact hrq.unsent
        · rw [hck]; exact hrq.id
        · rw [hck]; intro _
          refine ⟨hlp.1, Or.inr ⟨?_, hpk⟩⟩
          rw [hcl]; show (s.pipe r0.lastPipe).closed = true; rw [hlast]; exact hpc
        · rw [hck]; exact hrq.cnt
        · rw [hck]; exact hrq.ever
        · rw [hck]; intro d hd
          simp only [Option.some.injEq] at hd
          rw [← hd, hret]
        · rw [hck]; exact hrq.clean
        · intro _; exact hsq1
        · intro _ _ a; cases a
        · intro _ _ _ _ _ _ _; exact Or.inr (Or.inl hsq1)
    · exact hfr x _ ex (hM.rc x (by simp [ex, hx]))
  · have ex : x ≠ k := fun e => hkt (e ▸ hx)
    obtain ⟨cjx, a, b, c⟩ := hM.rl x (by simp [hx])
    exact ⟨cjx, hfr x _ ex a, b, c⟩

theorem psF_nil (j : J) : psF [] j = j := rfl

/-- one iteration of the loop of req0_pipe_close -/
theorem closeOne_M {rest : List Ev} {s : State} {j : J} (p k : Nat) (t : List Nat)
    (hI : Inv2 (some p) none s) (hM : M (k :: t) rest s j) (hl : (s.pipe p).ctxs = k :: t)
    (hdis : s.readyPipes = [] ∨ ∀ x, x ∈ k :: t → x ∉ s.sendQueue) :
    M t rest (closeOne s p k).1 (psF (closeOne s p k).2 j) ∧
    (psF (closeOne s p k).2 j).err04 = j.err04 ∧ (psF (closeOne s p k).2 j).err12 = j.err12 ∧
    ((closeOne s p k).1.pipe p).ctxs = t ∧
    ((closeOne s p k).1.readyPipes = [] ∨ ∀ x, x ∈ t → x ∉ (closeOne s p k).1.sendQueue) ∧
    (∀ x, x ∈ t → (closeOne s p k).1.ctx x = s.ctx x) ∧ (closeOne s p k).1.now = s.now ∧
    (∀ o, o ∈ (closeOne s p k).2 → isCl o = true) ∧
    (∀ a mb, Out.done a Err.econnreset none mb ∈ (closeOne s p k).2 ↔
      (mb = false ∧ (s.ctx k).retry ≤ 0 ∧ ∃ dl, (s.ctx k).recvAio = some ⟨a, dl⟩)) := by
  have hnd : (k :: t).Nodup := by rw [← hl]; exact hI.pc_nodup p
  have hkt : k ∉ t := (List.nodup_cons.1 hnd).1
  have hkp : k ∈ (s.pipe p).ctxs := by rw [hl]; simp
  have hpc : (s.pipe p).closed = true := hI.closing p rfl
  obtain ⟨hq, hwir⟩ := hM.mi.onp k p hkp
  obtain ⟨h, hq⟩ := Option.isSome_iff_exists.1 hq
  have hsa : (s.ctx k).sendAio = none := (hM.mi.wir k h hq hwir).1
  have hlive : (s.ctx k).live = true := by
    cases hlv : (s.ctx k).live with
    | true => rfl
    | false => have := (hM.mi.dead k hlv).2.2.1; rw [hq] at this; cases this
  have hcr : (s.ctx k).connReset = false := by
    cases hc : (s.ctx k).connReset with
    | false => rfl
    | true => have := (hM.mi.creset k hc).1; rw [hq] at this; cases this
  have hrep : (s.ctx k).repMsg = none := by
    cases hp' : (s.ctx k).repMsg with
    | none => rfl
    | some _ => have := (hM.mi.rep k (by rw [hp']; rfl)).1; rw [hq] at this; cases this
  have hpnd : ∀ q, (s.pipe q).ctxs.Nodup := hI.pc_nodup
  by_cases hr : (s.ctx k).retry ≤ 0
  · -- resending disabled
    have hlost := closeOne_lost_eq s p k hr hsa (hpnd p)
    have hjl : ∀ (cr : Bool) cj0, RCx s j k cj0 → j.ctx k = lostC s.now cj0 →
        ((s.ctx k).recvAio.isSome = !cr) → j.ctx k = wipeCJ cj0 true cr := by
      intro cr cj0 h0 hjk hra
      obtain ⟨r, hr0, _⟩ := h0.req h hq
      have hret : cj0.retry = (s.ctx k).retry := h0.retry hlive
      rw [hjk]
      unfold lostC wipeCJ
      simp only [hr0]
      rw [if_pos (by rw [hret]; exact hr)]
      have hst : cj0.stash = none := by rw [h0.stash, hrep]
      have hla : cj0.latched = false := by rw [h0.latched, hcr]
      cases hra' : (s.ctx k).recvAio with
      | none =>
        have : cj0.recvWait = none := by rw [h0.rw, hra']; rfl
        rw [hra'] at hra
        have : cr = true := by cases cr <;> simp_all
        subst this
        simp [*]
      | some ua =>
        have hw : cj0.recvWait = some ua.aio := by rw [h0.rw, hra']; rfl
        rw [hra'] at hra
        have : cr = false := by cases cr <;> simp_all
        subst this
        simp [hw, hst, hla.symm]
    cases hra : (s.ctx k).recvAio with
    | some ua =>
      rw [hra] at hlost
      obtain ⟨e1, e2⟩ := hlost
      have hMt := lost_wipe k t false hM hpnd hkt e1 hlive (fun cj0 a b => hjl false cj0 a b (by rw [hra]; rfl))
      rw [e2]
      have hps : psF [Out.done ua.aio Err.econnreset none false] j = j := rfl
      rw [hps]
      refine ⟨hMt, rfl, rfl, ?_, ?_, ?_, congrArg MV.now e1, ?_, ?_⟩
      · have : (closeOne s p k).1.pipe = eraseCtxs s.pipe k := congrArg MV.pipe e1
        rw [this]; simp [eraseCtxs, hl]
      · have h1 : (closeOne s p k).1.readyPipes = s.readyPipes := congrArg MV.readyPipes e1
        have h2 : (closeOne s p k).1.sendQueue = s.sendQueue.erase k := congrArg MV.sendQueue e1
        rcases hdis with a | a
        · left; rw [h1, a]
        · right; intro x hx; rw [h2]; exact fun hm => a x (by simp [hx]) (List.mem_of_mem_erase hm)
      · intro x hx
        have : (closeOne s p k).1.ctx = upd s.ctx k (wipeCtx (s.ctx k) true false) := congrArg MV.ctx e1
        rw [this, upd_other _ _ _ _ (fun e => hkt (by rw [← e]; exact hx))]
      · intro o ho; simp at ho; subst ho; simp [isCl]
      · intro a mb
        simp only [List.mem_singleton, Out.done.injEq, true_and]
        constructor
        · rintro ⟨rfl, rfl⟩; exact ⟨rfl, hr, ua.deadline, rfl⟩
        · rintro ⟨rfl, _, dl, hdl⟩
          simp only [Option.some.injEq] at hdl
          rw [hdl]; exact ⟨rfl, rfl⟩
    | none =>
      rw [hra] at hlost
      obtain ⟨e1, e2⟩ := hlost
      have hMt := lost_wipe k t true hM hpnd hkt e1 hlive (fun cj0 a b => hjl true cj0 a b (by rw [hra]; rfl))
      rw [e2, psF_nil]
      refine ⟨hMt, rfl, rfl, ?_, ?_, ?_, congrArg MV.now e1, ?_, ?_⟩
      · have : (closeOne s p k).1.pipe = eraseCtxs s.pipe k := congrArg MV.pipe e1
        rw [this]; simp [eraseCtxs, hl]
      · have h1 : (closeOne s p k).1.readyPipes = s.readyPipes := congrArg MV.readyPipes e1
        have h2 : (closeOne s p k).1.sendQueue = s.sendQueue.erase k := congrArg MV.sendQueue e1
        rcases hdis with a | a
        · left; rw [h1, a]
        · right; intro x hx; rw [h2]; exact fun hm => a x (by simp [hx]) (List.mem_of_mem_erase hm)
      · intro x hx
        have : (closeOne s p k).1.ctx = upd s.ctx k (wipeCtx (s.ctx k) true true) := congrArg MV.ctx e1
        rw [this, upd_other _ _ _ _ (fun e => hkt (by rw [← e]; exact hx))]
      · intro o ho; cases ho
      · intro a mb
        constructor
        · intro hh; cases hh
        · rintro ⟨_, _, dl, hdl⟩; cases hdl
  · -- the request goes back to the send queue
    have hr' : 0 < (s.ctx k).retry := by omega
    have hqs : (s.ctx k).reqMsg.isSome = true := by rw [hq]; rfl
    have hclose : closeOne s p k =
        (if (requeueSt s p k s.sendQueue).sendQueue.contains k then (requeueSt s p k s.sendQueue, [])
         else runSendQueue (requeueSt s p k (s.sendQueue ++ [k]))) := by
      unfold closeOne
      have hc0 : (setPipe s p { s.pipe p with ctxs := (s.pipe p).ctxs.erase k }).ctx k = s.ctx k := rfl
      simp only [hc0, hr, if_false, hqs, if_true]
      rfl
    rw [hclose]
    have hnoCl : ∀ (o : List Out), (∀ x, x ∈ o → isTx x = true) →
        (∀ x, x ∈ o → isCl x = true) ∧
        (∀ a mb, Out.done a Err.econnreset none mb ∈ o ↔
          (mb = false ∧ (s.ctx k).retry ≤ 0 ∧ ∃ dl, (s.ctx k).recvAio = some ⟨a, dl⟩)) := by
      intro o ho
      refine ⟨fun x hx => isCl_of_isTx (ho x hx), fun a mb => ⟨fun hin => ?_, fun ⟨_, hle, _⟩ => absurd hle hr⟩⟩
      rcases isTx_shape (ho _ hin) with ⟨_, _, e⟩ | ⟨_, e⟩
      · cases e
      · simp [Err.econnreset] at e
    split
    · rename_i hcont
      have hks : k ∈ s.sendQueue := by simpa [requeueSt] using hcont
      have hrd : s.readyPipes = [] := by
        rcases hdis with a | a
        · exact a
        · exact absurd hks (a k (by simp))
      have hMt := requeue_M p k t s.sendQueue hI hM hl hr' hks (fun _ _ => Iff.rfl)
      rw [psF_nil]
      refine ⟨hMt, rfl, rfl, ?_, Or.inl hrd, ?_, rfl, (hnoCl [] (fun x hx => by cases hx)).1, (hnoCl [] (fun x hx => by cases hx)).2⟩
      · simp [requeueSt, upd, hl]
      · intro x hx
        have hxk : x ≠ k := fun e => hkt (by rw [← e]; exact hx)
        simp [requeueSt, upd, hxk]
    · rename_i hcont
      have hks : k ∉ s.sendQueue := by simpa [requeueSt] using hcont
      have hMt := requeue_M p k t (s.sendQueue ++ [k]) hI hM hl hr' (by simp)
        (fun x hx => by rw [List.mem_append]; simp [hx])
      -- `Inv2` of the state whose queue is run
      have h0 := inv2_unlistP p k hI
      have h2 : Inv2 (some p) (some k) (setCtx (setPipe s p { s.pipe p with ctxs := (s.pipe p).ctxs.erase k }) k
          { s.ctx k with retryTime := s.now + (s.ctx k).retry.toNat }) :=
        inv2_setCtx_same k _ h0 ⟨rfl, rfl, rfl, rfl, rfl, rfl⟩
      have h3 : Inv2 (some p) none (requeueSt s p k (s.sendQueue ++ [k])) := by
        have := invV_enqueue k h2 hks (by show ((upd s.ctx k _) k).reqMsg.isSome = true; rw [upd_same]; exact hqs)
          (Or.inl (by show ((upd s.ctx k _) k).everRetry = true; rw [upd_same]; exact hI.ever1 k hqs hr'))
          (by show 0 < ((upd s.ctx k _) k).retryAtSend → _; rw [upd_same]; exact hI.rq_place k (by simp) hqs)
        exact this
      have hdis2 : (requeueSt s p k (s.sendQueue ++ [k])).readyPipes = [] ∨
          ∀ x, x ∈ t → x ∉ (requeueSt s p k (s.sendQueue ++ [k])).sendQueue := by
        rcases hdis with a | a
        · exact Or.inl a
        · right; intro x hx hm
          have hm' : x ∈ s.sendQueue ++ [k] := hm
          rw [List.mem_append] at hm'
          rcases hm' with hm' | hm'
          · exact a x (by simp [hx]) hm'
          · simp at hm'; exact hkt (by rw [← hm']; exact hx)
      obtain ⟨hfin, he04, he12⟩ := runSendQueue_M h3 hMt hdis2
      have hpnr : p ∉ (requeueSt s p k (s.sendQueue ++ [k])).readyPipes := by
        intro hin
        have : (s.pipe p).closed = false := (hI.ready_ok p hin).2.1
        rw [hpc] at this; cases this
      have hpt : ((requeueSt s p k (s.sendQueue ++ [k])).pipe p).ctxs = t := by simp [requeueSt, upd, hl]
      have hkeep := runQ_pipe_keep (requeueSt s p k (s.sendQueue ++ [k])).sendQueue.length _ p hpnr
        (by
          rcases hdis2 with a | a
          · exact Or.inl a
          · right; intro x hx; rw [hpt] at hx; exact a x hx)
      have htx := runSendQueue_tx (requeueSt s p k (s.sendQueue ++ [k]))
      refine ⟨hfin, he04, he12, by rw [← hpt]; exact hkeep, ?_, ?_, ?_, (hnoCl _ htx).1, (hnoCl _ htx).2⟩
      · rcases hdis2 with a | a
        · left
          cases hrr : (runSendQueue (requeueSt s p k (s.sendQueue ++ [k]))).1.readyPipes with
          | nil => rfl
          | cons y ys =>
            have := runQ_ready_sub _ _ y (by unfold runSendQueue at hrr; rw [hrr]; simp)
            rw [a] at this; cases this
        · right; intro x hx hm
          exact a x hx (runQ_sq_sub _ _ x hm)
      · intro x hx
        have hxk : x ≠ k := fun e => hkt (by rw [← e]; exact hx)
        have hbase : (requeueSt s p k (s.sendQueue ++ [k])).ctx x = s.ctx x := by simp [requeueSt, upd, hxk]
        rcases hdis2 with a | a
        · unfold runSendQueue; rw [runQ_nil_ready _ _ a]; exact hbase
        · unfold runSendQueue; rw [runQ_ctx_notin _ _ x (a x hx)]; exact hbase
      · have : ∀ (fuel : Nat) (s0 : State), (runQ fuel s0).1.now = s0.now := by
          intro fuel
          induction fuel with
          | zero => intro s0; rfl
          | succ n ih =>
            intro s0
            unfold runQ
            split
            · dsimp only
              rw [ih]
              unfold sendOne
              dsimp only
              split
              · unfold flag sendPrep; dsimp only; (repeat' split) <;> rfl
              · unfold wireIndex tranClone flag sendPrep
                simp only [setPipe, setCtx, setMsg]
                (repeat' split) <;> rfl
            · rfl
        unfold runSendQueue; rw [this]; rfl

end Nng.ReqJ
