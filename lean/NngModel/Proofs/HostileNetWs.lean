/-
  C11T — ws://: the frame receiver of C16 (`Ws.rx`, message mode) never completes a message longer than
  NNG_OPT_RECVMAXSZ, for ANY byte stream in ANY segmentation: an invariant of the receiver (the local rule — a frame that
  would take the message above the limit closes the connection — is C16 `header_violation_rejected`).
-/
import NngModel.Model.HostileNet
import NngModel.Proofs.WsRx
namespace Nng.Ws
open Nng

/-- bytes queued for the message being assembled -/
def qlen (s : St) : Nat := (s.rxq.map List.length).sum

def EvOk (cfg : Cfg) (e : Ev) : Prop := ∀ m, e = .msg m → m.length ≤ cfg.recvmax

/-- message mode, a receive limit, a frame limit, and no size_t wrap between them -/
structure LimCfg (cfg : Cfg) : Prop where
  msgmode : cfg.isstream = false
  lim : cfg.recvmax > 0
  frame : cfg.maxframe > 0
  nowrap : cfg.maxframe + cfg.recvmax < sizeMax

structure RxInv (cfg : Cfg) (s : St) : Prop where
  qsum : qlen s ≤ cfg.recvmax
  acc : s.got = s.accR.length
  room : s.want ≠ 0 → s.got < s.want
  data : ∀ f, s.phase = .data f → s.want = f.len ∧ (f.op / 8 % 2 = 0 → f.len + qlen s ≤ cfg.recvmax)

/-! ### unmasking never lengthens -/

theorem xorWord_length_le (key : Bytes) (w : Nat) (blk : Bytes) : (xorWord key w blk).length ≤ blk.length := by
  unfold xorWord
  simp only [List.length_zipWith]
  exact Nat.min_le_left _ _

theorem stride_length_le (key : Bytes) (w : Nat) : ∀ (fuel : Nat) (buf : Bytes),
    (stride key w fuel buf).1.length + (stride key w fuel buf).2.length ≤ buf.length := by
  intro fuel
  induction fuel with
  | zero => intro buf; simp [stride]
  | succ n ih =>
    intro buf
    unfold stride
    by_cases h : buf.length ≥ w ∧ w > 0
    · rw [if_pos h]
      have h1 := ih (buf.drop w)
      have h2 := xorWord_length_le key w (buf.take w)
      simp only [List.length_append, List.length_take, List.length_drop] at h1 h2 ⊢
      omega
    · rw [if_neg h]; simp

theorem maskTail_length (key : Bytes) : ∀ (i : Nat) (b : Bytes), (maskTail key i b).length = b.length := by
  intro i b
  induction b generalizing i with
  | nil => rfl
  | cons x xs ih => simp [maskTail, ih]

theorem applyMask_length_le (key buf : Bytes) : (applyMask key buf).length ≤ buf.length := by
  unfold applyMask
  have a := stride_length_le key 16 buf.length buf
  have b := stride_length_le key 8 (stride key 16 buf.length buf).2.length (stride key 16 buf.length buf).2
  have c := stride_length_le key 4 (stride key 8 (stride key 16 buf.length buf).2.length (stride key 16 buf.length buf).2).2.length
    (stride key 8 (stride key 16 buf.length buf).2.length (stride key 16 buf.length buf).2).2
  simp only [List.length_append, maskTail_length]
  omega

/-! ### the receiver's functions -/

theorem wsClose_ok (cfg : Cfg) (s : St) (code : Nat) :
    (wsClose cfg s code).1.rxq = s.rxq ∧ ∀ e ∈ (wsClose cfg s code).2, EvOk cfg e := by
  unfold wsClose
  split
  · exact ⟨rfl, by simp⟩
  · split
    · refine ⟨rfl, ?_⟩
      intro e he m hm
      simp at he
      rcases he with he | he <;> rw [he] at hm <;> cases hm
    · refine ⟨rfl, ?_⟩
      intro e he m hm
      simp at he
      rw [he] at hm; cases hm

theorem fail_ok (cfg : Cfg) (s : St) (code : Nat) (h : qlen s ≤ cfg.recvmax) :
    RxInv cfg (fail cfg s code).1 ∧ ∀ e ∈ (fail cfg s code).2, EvOk cfg e := by
  obtain ⟨h1, h2⟩ := wsClose_ok cfg s code
  unfold fail
  refine ⟨⟨?_, rfl, fun h0 => absurd rfl h0, fun f hf => by cases hf⟩, h2⟩
  show qlen _ ≤ _
  unfold qlen at h ⊢
  simp only
  rw [h1]; exact h

theorem startRead_ok (cfg : Cfg) (s : St) (h : qlen s ≤ cfg.recvmax) : RxInv cfg (startRead s) := by
  unfold startRead
  split
  · exact ⟨h, rfl, fun h0 => absurd rfl h0, fun f hf => by cases hf⟩
  · exact ⟨h, rfl, fun _ => by simp, fun f hf => by cases hf⟩

theorem finishAndRestart_ok (cfg : Cfg) (hc : LimCfg cfg) (s : St) (evs : List Ev) (h : qlen s ≤ cfg.recvmax)
    (he : ∀ e ∈ evs, EvOk cfg e) :
    RxInv cfg (finishAndRestart cfg s evs).1 ∧ ∀ e ∈ (finishAndRestart cfg s evs).2, EvOk cfg e := by
  unfold finishAndRestart readFinish
  simp only [hc.msgmode, Bool.false_eq_true, if_false]
  unfold readFinishMsg
  split
  · refine ⟨startRead_ok cfg s h, ?_⟩
    simpa using he
  · refine ⟨startRead_ok cfg _ (by simp [qlen]), ?_⟩
    intro e hmem
    simp only [List.mem_append, List.mem_singleton] at hmem
    rcases hmem with hmem | hmem
    · exact he e hmem
    · intro m hm
      rw [hmem] at hm
      cases hm
      rw [List.length_flatten]
      exact h

theorem sendControl_ok (cfg : Cfg) (s : St) (op : Nat) (payload : Bytes) :
    (sendControl cfg s op payload).1.rxq = s.rxq ∧ ∀ e ∈ (sendControl cfg s op payload).2, EvOk cfg e := by
  unfold sendControl
  split
  · exact ⟨rfl, by simp⟩
  · split
    · refine ⟨rfl, ?_⟩
      intro e he m hm
      simp at he
      rw [he] at hm; cases hm
    · exact ⟨rfl, by simp⟩

theorem qlen_append (s : St) (p : Bytes) (s' : St) (h : s'.rxq = s.rxq ++ [p]) : qlen s' = qlen s + p.length := by
  unfold qlen; rw [h]; simp

/-- a complete frame with its (unmasked) payload: data frames were admitted against the limit -/
theorem frameCb_ok (cfg : Cfg) (hc : LimCfg cfg) (s : St) (f : RxFrame) (payload : Bytes) (h : qlen s ≤ cfg.recvmax)
    (hd : f.op / 8 % 2 = 0 → payload.length + qlen s ≤ cfg.recvmax) :
    RxInv cfg (frameCb cfg s f payload).1 ∧ ∀ e ∈ (frameCb cfg s f payload).2, EvOk cfg e := by
  have happ : ∀ (im : Bool), f.op / 8 % 2 = 0 →
      RxInv cfg (finishAndRestart cfg { s with inmsg := im, rxq := s.rxq ++ [payload] } []).1 ∧
      ∀ e ∈ (finishAndRestart cfg { s with inmsg := im, rxq := s.rxq ++ [payload] } []).2, EvOk cfg e := by
    intro im hop
    apply finishAndRestart_ok cfg hc _ [] _ (by simp)
    rw [qlen_append s payload _ rfl]
    have := hd hop
    omega
  unfold frameCb
  by_cases h0 : f.op = 0
  · rw [if_pos h0]
    split
    · exact fail_ok cfg s _ h
    · exact happ _ (by rw [h0])
  · rw [if_neg h0]
    by_cases h1 : f.op = 1
    · rw [if_pos h1]
      split
      · exact fail_ok cfg s _ h
      · unfold dataFrame
        split
        · exact fail_ok cfg s _ h
        · exact happ _ (by rw [h1])
    · rw [if_neg h1]
      by_cases h2 : f.op = 2
      · rw [if_pos h2]
        unfold dataFrame
        split
        · exact fail_ok cfg s _ h
        · exact happ _ (by rw [h2])
      · rw [if_neg h2]
        by_cases h9 : f.op = 9
        · rw [if_pos h9]
          split
          · exact fail_ok cfg s _ h
          · obtain ⟨hr, he⟩ := sendControl_ok cfg s opPong payload
            apply finishAndRestart_ok cfg hc _ _ _ he
            unfold qlen at h ⊢; rw [hr]; exact h
        · rw [if_neg h9]
          by_cases h10 : f.op = 10
          · rw [if_pos h10]
            split
            · exact fail_ok cfg s _ h
            · exact finishAndRestart_ok cfg hc s [] h (by simp)
          · rw [if_neg h10]
            split
            · exact fail_ok cfg _ _ h
            · exact fail_ok cfg s _ h

theorem complete_ok (cfg : Cfg) (hc : LimCfg cfg) (s : St) (f : RxFrame) (payload : Bytes) (h : qlen s ≤ cfg.recvmax)
    (hd : f.op / 8 % 2 = 0 → payload.length + qlen s ≤ cfg.recvmax) :
    RxInv cfg (complete cfg s f payload).1 ∧ ∀ e ∈ (complete cfg s f payload).2, EvOk cfg e := by
  unfold complete
  apply frameCb_ok cfg hc s f _ h
  intro hop
  have := hd hop
  split
  · have := applyMask_length_le f.mask payload; omega
  · exact this

theorem checks_ok (cfg : Cfg) (hc : LimCfg cfg) (s : St) (f0 : RxFrame) (h : qlen s ≤ cfg.recvmax)
    (hi : s.phase = .idle ∧ s.want = 0 ∧ s.got = 0 ∧ s.accR = []) :
    RxInv cfg (checks cfg s f0).1 ∧ ∀ e ∈ (checks cfg s f0).2, EvOk cfg e := by
  unfold checks
  split
  · exact fail_ok cfg s _ h
  · split
    · exact fail_ok cfg s _ h
    · split
      · exact fail_ok cfg s _ h
      · split
        · exact fail_ok cfg s _ h
        · split
          · exact fail_ok cfg s _ h
          · split
            · exact fail_ok cfg s _ h
            · rename_i hframe hrecv _ _
              -- the frame fits the frame limit; a data frame fits the message limit
              have hlen : hdrLen f0 ≤ cfg.maxframe := by
                have := hc.frame
                by_cases hx : hdrLen f0 > cfg.maxframe
                · exact absurd ⟨hx, this⟩ hframe
                · omega
              have hdata : f0.op / 8 % 2 = 0 → hdrLen f0 + qlen s ≤ cfg.recvmax := by
                intro hop
                by_cases hx : totlen s (hdrLen f0) > cfg.recvmax
                · exact absurd ⟨hc.msgmode, hc.lim, Or.inr hop, hx⟩ hrecv
                · unfold totlen at hx
                  have hw := hc.nowrap
                  have : hdrLen f0 + (s.rxq.map List.length).sum < sizeMax := by unfold qlen at h; omega
                  rw [Nat.mod_eq_of_lt this] at hx
                  unfold qlen; omega
              unfold acceptHdr
              simp only
              split
              · split
                · exact fail_ok cfg s _ h
                · refine ⟨⟨h, rfl, fun _ => by simp; omega, ?_⟩, by simp⟩
                  intro f hf
                  simp only at hf
                  cases hf
                  exact ⟨rfl, hdata⟩
              · rename_i hz
                apply complete_ok cfg hc s _ [] h
                intro _
                simp; exact h

theorem headCb_ok (cfg : Cfg) (hc : LimCfg cfg) (s : St) (b0 b1 : UInt8) (h : qlen s ≤ cfg.recvmax)
    (hi : s.phase = .idle ∧ s.want = 0 ∧ s.got = 0 ∧ s.accR = []) :
    RxInv cfg (headCb cfg s b0 b1).1 ∧ ∀ e ∈ (headCb cfg s b0 b1).2, EvOk cfg e := by
  unfold headCb
  extract_lets masked l7 hlen f
  by_cases hh : hlen ≠ 2
  · rw [if_pos hh]
    refine ⟨⟨h, rfl, fun _ => ?_, fun f hf => by cases hf⟩, by simp⟩
    show 0 < hlen - 2
    have : hlen ≥ 2 := by simp only [hlen]; omega
    omega
  · rw [if_neg hh]
    exact checks_ok cfg hc s _ h hi

theorem idleOf_props (s : St) : qlen (idleOf s) = qlen s ∧
    ((idleOf s).phase = .idle ∧ (idleOf s).want = 0 ∧ (idleOf s).got = 0 ∧ (idleOf s).accR = []) :=
  ⟨rfl, rfl, rfl, rfl, rfl⟩

theorem readCb_ok (cfg : Cfg) (hc : LimCfg cfg) (s : St) (bytes : Bytes) (hs : RxInv cfg s) (hb : bytes.length = s.want) :
    RxInv cfg (readCb cfg s bytes).1 ∧ ∀ e ∈ (readCb cfg s bytes).2, EvOk cfg e := by
  have hq := hs.qsum
  unfold readCb
  split
  · exact headCb_ok cfg hc _ _ _ hq (idleOf_props s).2
  · exact checks_ok cfg hc _ _ hq (idleOf_props s).2
  · rename_i f hf
    obtain ⟨hw, hd⟩ := hs.data f hf
    apply complete_ok cfg hc (idleOf s) f bytes hq
    intro hop
    have := hd hop
    show bytes.length + qlen s ≤ _
    omega
  · exact ⟨⟨hq, rfl, fun h0 => absurd rfl h0, fun f hf => by cases hf⟩, by simp⟩

theorem rxByte_ok (cfg : Cfg) (hc : LimCfg cfg) (s : St) (b : UInt8) (hs : RxInv cfg s) :
    RxInv cfg (rxByte cfg s b).1 ∧ ∀ e ∈ (rxByte cfg s b).2, EvOk cfg e := by
  unfold rxByte
  split
  · exact ⟨hs, by simp⟩
  · rename_i hw
    split
    · rename_i hg
      refine ⟨⟨hs.qsum, by simp [hs.acc], fun _ => hg, ?_⟩, by simp⟩
      intro f hf
      exact hs.data f hf
    · rename_i hg
      apply readCb_ok cfg hc s _ hs
      have := hs.room hw
      simp [← hs.acc]
      omega

theorem rx_ok (cfg : Cfg) (hc : LimCfg cfg) (bs : Bytes) : ∀ (s : St), RxInv cfg s →
    RxInv cfg (rx cfg s bs).1 ∧ ∀ e ∈ (rx cfg s bs).2, EvOk cfg e := by
  induction bs with
  | nil => intro s hs; exact ⟨hs, by simp [rx]⟩
  | cons b bs ih =>
    intro s hs
    obtain ⟨h1, h2⟩ := rxByte_ok cfg hc s b hs
    obtain ⟨h3, h4⟩ := ih _ h1
    simp only [rx]
    refine ⟨h3, ?_⟩
    intro e he
    rcases List.mem_append.1 he with he | he
    · exact h2 e he
    · exact h4 e he

theorem init_inv (cfg : Cfg) : RxInv cfg {} :=
  ⟨by simp [qlen], rfl, fun _ => by decide, fun f hf => by cases hf⟩

end Nng.Ws
