/-
  Lemmas for Props/C16Queue.lean, part 4: STREAM mode (ws_read_finish_str) - the queue model against the
  always-posted frame-layer model, which hands every non-empty data frame over at once.  The queue model may keep
  part of a frame (the receive's buffer was smaller) or whole frames (nobody waits): the bytes delivered so far
  followed by what is left in rxq are the bytes the always-posted model delivered.
-/
import NngModel.Proofs.WsQueueRun
import NngModel.Proofs.WsQueueInv
set_option linter.unusedSimpArgs false
namespace Nng.WsQ.Str
open Nng Nng.Ws Nng.WsQ

/-- bytes the always-posted model delivered in stream mode -/
def dataOf : List Ev → Bytes
  | [] => []
  | .data b :: es => b ++ dataOf es
  | _ :: es => dataOf es

theorem dataOf_append (a b : List Ev) : dataOf (a ++ b) = dataOf a ++ dataOf b := by
  induction a with
  | nil => rfl
  | cons x xs ih => cases x <;> simp [dataOf, ih]

/-- all bytes the receives completed with -/
def bytesOf (o : List Out) : Bytes := (delivered o).flatten

theorem bytesOf_append (a b : List Out) : bytesOf (a ++ b) = bytesOf a ++ bytesOf b := by
  simp [bytesOf, delivered_append]

def absS (q : QSt) : St :=
  { q.w with
    rxq := [],
    phase := if q.w.want = 0 ∧ q.w.closed = false then .head else q.w.phase,
    want := if q.w.want = 0 ∧ q.w.closed = false then 2 else q.w.want,
    got := 0, accR := [] }

structure InvS (q : QSt) : Prop where
  got : q.w.got = 0
  acc : q.w.accR = []
  rdframe : q.w.want ≠ 0 → q.rxframe = true
  framerd : q.rxframe = true → q.w.want ≠ 0 ∨ q.w.closed = true
  closedIdle : q.w.closed = true → q.recvq = [] ∧ q.w.want = 0 ∧ q.w.rxq = []
  readEmpty : q.w.want ≠ 0 → q.w.rxq = []
  waitEmpty : q.recvq ≠ [] → q.w.rxq = []
  waitReads : q.w.closed = false → q.recvq ≠ [] → q.w.want ≠ 0
  rdphase : q.w.want ≠ 0 → q.w.phase ≠ .idle

structure InCbS (q : QSt) : Prop where
  got : q.w.got = 0
  acc : q.w.accR = []
  idle : q.w.want = 0
  open_ : q.w.closed = false
  frame : q.rxframe = true
  cur : q.w.rxq = []

structure RS (rq : QSt × List Out) (rb : St × List Ev) : Prop where
  st : rb.1 = absS rq.1
  data : dataOf rb.2 = bytesOf rq.2 ++ rq.1.w.rxq.flatten
  tx : txOf rb.2 = txOfQ rq.2
  inv : InvS rq.1

theorem bytesOf_fails (l : List Rcv) : bytesOf (l.map fun r => Out.done r.id closeErr []) = [] := by
  simp [bytesOf, delivered_fails]

theorem RS_fail (cfg : Cfg) (q : QSt) (h : InCbS q) (code : Nat) : RS (qFail cfg q code) (fail cfg q.w code) := by
  have hc := h.open_
  have hcur := h.cur
  unfold qFail qClose fail wsClose
  simp only [hc, Bool.false_eq_true, if_false]
  cases he : encodeControl cfg.server q.w.rng opClose (beEncode 2 code) with
  | none =>
    refine ⟨?_, ?_, ?_, ?_⟩
    · simp only [absS]; simp_all
    · simp [dataOf, bytesOf_fails, hcur]
    · simp [txOf, txOfQ_fails]
    · constructor <;> simp_all
  | some p =>
    obtain ⟨fr, rng'⟩ := p
    refine ⟨?_, ?_, ?_, ?_⟩
    · simp only [absS]; simp_all
    · rw [bytesOf_append, bytesOf_fails]; simp [dataOf, bytesOf, delivered, hcur]
    · simp [txOf, txOfQ_append, txOfQ_fails, txOfQ]
    · constructor <;> simp_all

/-! ### ws_read_finish_str -/

theorem strCopy_bytes : ∀ (l : List Bytes) (cap : Nat), (strCopy cap l).1 ++ (strCopy cap l).2.1.flatten = l.flatten := by
  intro l
  induction l with
  | nil => intro cap; rfl
  | cons f fs ih =>
    intro cap
    unfold strCopy
    split
    · simp
    · split
      · have := ih (cap - f.length); simp only [List.flatten_cons, List.append_assoc]; rw [this]
      · simp only [List.flatten_cons, ← List.append_assoc, List.take_append_drop]

/-- what the `for (;;)` of ws_read_finish_str does to the state -/
structure LoopOk (q q' : QSt) (o : List Out) : Prop where
  w : q'.w.phase = q.w.phase ∧ q'.w.want = q.w.want ∧ q'.w.got = q.w.got ∧ q'.w.accR = q.w.accR ∧ q'.w.inmsg = q.w.inmsg ∧
      q'.w.closed = q.w.closed ∧ q'.w.peerClosed = q.w.peerClosed ∧ q'.w.rng = q.w.rng
  frame : q'.rxframe = q.rxframe
  io : q'.pend = q.pend ∧ q'.used = q.used
  bytes : bytesOf o ++ q'.w.rxq.flatten = q.w.rxq.flatten
  tx : txOfQ o = []
  suffix : ∃ k, q'.recvq = q.recvq.drop k

theorem LoopOk.refl (q : QSt) : LoopOk q q [] := ⟨⟨rfl, rfl, rfl, rfl, rfl, rfl, rfl, rfl⟩, rfl, ⟨rfl, rfl⟩, by simp [bytesOf, delivered], rfl, ⟨0, rfl⟩⟩

theorem loop_ok : ∀ (fuel : Nat) (q : QSt), LoopOk q (qReadFinishStrLoop fuel q).1 (qReadFinishStrLoop fuel q).2 := by
  intro fuel
  induction fuel with
  | zero => intro q; exact LoopOk.refl q
  | succ n ih =>
    intro q
    unfold qReadFinishStrLoop
    split
    · exact LoopOk.refl q
    · rename_i r rest hr
      split
      · exact LoopOk.refl q
      · rename_i f fs hq
        split
        · rename_i hz
          have := ih { q with frees := q.frees + 1, w := { q.w with rxq := fs } }
          have hf : f = [] := List.eq_nil_of_length_eq_zero hz
          refine ⟨this.w, this.frame, this.io, ?_, this.tx, this.suffix⟩
          · have := this.bytes; simp only [] at this; rw [this, hq, hf]; simp
        · have hb := strCopy_bytes (f :: fs) r.cap
          have := ih { q with recvq := rest, frees := q.frees + (strCopy r.cap (f :: fs)).2.2, w := { q.w with rxq := (strCopy r.cap (f :: fs)).2.1 } }
          refine ⟨this.w, this.frame, this.io, ?_, ?_, ?_⟩
          · have h2 := this.bytes; simp only [] at h2
            simp only [bytesOf, delivered, List.flatten_cons, List.append_assoc] at h2 ⊢
            rw [h2, hq]; exact hb
          · simp only [txOfQ]; exact this.tx
          · obtain ⟨k, hk⟩ := this.suffix
            exact ⟨k + 1, by rw [hk, hr]; rfl⟩

/-- with enough fuel the loop stops because nobody waits or nothing is queued -/
theorem loop_done : ∀ (fuel : Nat) (q : QSt), q.recvq.length + q.w.rxq.length < fuel →
    (qReadFinishStrLoop fuel q).1.recvq = [] ∨ (qReadFinishStrLoop fuel q).1.w.rxq = [] := by
  intro fuel
  induction fuel with
  | zero => intro q h; omega
  | succ n ih =>
    intro q h
    unfold qReadFinishStrLoop
    split
    · rename_i hr; exact Or.inl hr
    · rename_i r rest hr
      split
      · rename_i hq; exact Or.inr hq
      · rename_i f fs hq
        split
        · apply ih
          simp only [hr, hq, List.length_cons] at h ⊢; omega
        · apply ih
          have hc := strCopy_count (f :: fs) r.cap
          simp only [hr, hq, List.length_cons] at h hc ⊢; omega

end Nng.WsQ.Str

namespace Nng.WsQ.Str
open Nng Nng.Ws Nng.WsQ

theorem flatten_dropWhile_empty : ∀ (l : List Bytes), (l.dropWhile (·.isEmpty)).flatten = l.flatten := by
  intro l
  induction l with
  | nil => rfl
  | cons x xs ih =>
    cases x with
    | nil => simpa [List.dropWhile] using ih
    | cons b bs => simp [List.dropWhile]

/-- the always-posted model after a frame, stream mode, connection up -/
theorem base_far (cfg : Cfg) (hst : cfg.isstream = true) (s : St) (e : List Ev) (hc : s.closed = false) :
    ∃ evs, finishAndRestart cfg s e = ({ s with rxq := [], phase := .head, want := 2, got := 0, accR := [] }, e ++ evs) ∧
      dataOf evs = s.rxq.flatten ∧ txOf evs = [] := by
  unfold finishAndRestart readFinish readFinishStr startRead
  simp only [hst, if_true, hc, Bool.false_eq_true, if_false]
  have hfl := flatten_dropWhile_empty s.rxq
  cases hd : s.rxq.dropWhile (·.isEmpty) with
  | nil =>
    refine ⟨[], by simp, ?_, rfl⟩
    rw [hd] at hfl; simpa [dataOf] using hfl
  | cons x xs =>
    refine ⟨[.data (x :: xs).flatten], by simp, ?_, rfl⟩
    rw [hd] at hfl; simpa [dataOf] using hfl

theorem RS_far (cfg : Cfg) (hst : cfg.isstream = true) (q : QSt) (o : List Out) (e : List Ev)
    (hg : q.w.got = 0) (ha : q.w.accR = []) (hi : q.w.want = 0) (hc : q.w.closed = false) (hf : q.rxframe = false)
    (hm : dataOf e = bytesOf o) (ht : txOf e = txOfQ o) :
    RS (qFinishAndRestart cfg q o) (finishAndRestart cfg q.w e) := by
  obtain ⟨evs, hb, hd, htx⟩ := base_far cfg hst q.w e hc
  rw [hb]
  unfold qFinishAndRestart qReadFinish qReadFinishStr
  simp only [hst, if_true]
  have hl := loop_ok (q.recvq.length + q.w.rxq.length + 1) q
  have hdone := loop_done (q.recvq.length + q.w.rxq.length + 1) q (by omega)
  generalize qReadFinishStrLoop (q.recvq.length + q.w.rxq.length + 1) q = r at hl hdone
  obtain ⟨⟨w1, w2, w3, w4, w5, w6, w7, w8⟩, hfr, _, hby, hlt, _⟩ := hl
  have hrf : r.1.rxframe = false := by rw [hfr]; exact hf
  have hrc : r.1.w.closed = false := by rw [w6]; exact hc
  have hrw : r.1.w.want = 0 := by rw [w2]; exact hi
  unfold qStartRead
  have c1 : ¬ (r.1.rxframe || r.1.w.closed) = true := by simp [hrf, hrc]
  rw [if_neg c1]
  by_cases c2 : (r.1.recvq.isEmpty && !r.1.w.rxq.isEmpty) = true
  · rw [if_pos c2]
    have hre : r.1.recvq = [] := by simp at c2; exact c2.1
    refine ⟨?_, ?_, ?_, ?_⟩
    · simp [absS, hrw, hrc, w5, w6, w7, w8, hc]
    · simp only [dataOf_append, bytesOf_append, hm, hd, List.append_assoc, hby]
    · simp only [txOf_append, txOfQ_append, ht, htx, hlt]
    · constructor <;> simp_all
  · rw [if_neg c2]
    have hrq : r.1.w.rxq = [] := by
      rcases hdone with h | h
      · simp [h] at c2; exact c2
      · exact h
    refine ⟨?_, ?_, ?_, ?_⟩
    · simp [absS, w5, w6, w7, w8, hc]
    · simp only [dataOf_append, bytesOf_append, hm, hd, List.append_assoc, hby]
    · simp only [txOf_append, txOfQ_append, ht, htx, hlt]
    · constructor <;> simp_all

end Nng.WsQ.Str

namespace Nng.WsQ.Str
open Nng Nng.Ws Nng.WsQ

theorem sendControl_data (cfg : Cfg) (s : St) (op : Nat) (p : Bytes) : dataOf (sendControl cfg s op p).2 = [] := by
  unfold sendControl
  split
  · rfl
  · split <;> rfl

theorem RS_frameCb (cfg : Cfg) (hst : cfg.isstream = true) (q : QSt) (h : InCbS q) (f : RxFrame) (p : Bytes) :
    RS (qFrameCb cfg q f p) (frameCb cfg q.w f p) := by
  have hfar : ∀ im, RS (qFinishAndRestart cfg (qAppend q im p) []) (finishAndRestart cfg { q.w with inmsg := im, rxq := q.w.rxq ++ [p] } []) :=
    fun im => RS_far cfg hst (qAppend q im p) [] [] h.got h.acc h.idle h.open_ rfl rfl rfl
  unfold qFrameCb frameCb
  by_cases h0 : f.op = 0
  · simp only [h0, if_true]
    cases hi : q.w.inmsg
    · simpa using RS_fail cfg q h 1002
    · simpa using hfar (if f.final then false else true)
  simp only [h0, if_false]
  have hdata : RS (qDataFrame cfg q f p) (dataFrame cfg q.w f p) := by
    unfold qDataFrame dataFrame
    cases hi : q.w.inmsg
    · simpa using hfar (!f.final)
    · simpa using RS_fail cfg q h 1002
  by_cases h1 : f.op = 1
  · simp only [h1, if_true]
    cases cfg.recvText
    · simpa using RS_fail cfg q h 1003
    · simpa using hdata
  simp only [h1, if_false]
  by_cases h2 : f.op = 2
  · simp only [h2, if_true]; exact hdata
  simp only [h2, if_false]
  by_cases h9 : f.op = 9
  · simp only [h9, if_true]
    by_cases hl : f.len > 125
    · simp only [hl, if_true]; exact RS_fail cfg q h 1002
    · simp only [hl, if_false]
      obtain ⟨e1, e2, e3, _, _, e6, e7, e8, e9, e10, e11, e12, _, _⟩ := sendControl_sim cfg q opPong p
      have := RS_far cfg hst (qDrop (qSendControl cfg q opPong p).1) (qSendControl cfg q opPong p).2 (sendControl cfg q.w opPong p).2
        (by simp [qDrop, e1, e9, h.got]) (by simp [qDrop, e1, e10, h.acc]) (by simp [qDrop, e1, e11, h.idle])
        (by simp [qDrop, e1, e12, h.open_]) (by simp [qDrop]) (by rw [sendControl_data, bytesOf, e7]; rfl) e8
      simpa [qDrop, e1] using this
  simp only [h9, if_false]
  by_cases h10 : f.op = 10
  · simp only [h10, if_true]
    by_cases hl : f.len > 125
    · simp only [hl, if_true]; exact RS_fail cfg q h 1002
    · simp only [hl, if_false]
      have := RS_far cfg hst (qDrop q) [] [] (by simp [qDrop, h.got]) (by simp [qDrop, h.acc]) (by simp [qDrop, h.idle])
        (by simp [qDrop, h.open_]) (by simp [qDrop]) rfl rfl
      simpa [qDrop] using this
  simp only [h10, if_false]
  by_cases h8 : f.op = 8
  · simp only [h8, if_true]
    rw [if_neg (by simp [h.open_] : ¬ q.w.closed = true)]
    have hq : InCbS { q with w := { q.w with peerClosed := true } } := ⟨h.got, h.acc, h.idle, h.open_, h.frame, h.cur⟩
    exact RS_fail cfg _ hq 1000
  simp only [h8, if_false]
  exact RS_fail cfg q h 1002


/-- ws_read_cb asks for more bytes of the same frame -/
theorem RS_more (q : QSt) (h : InCbS q) (ph : Phase) (n : Nat) (hn : n ≠ 0) (hph : ph ≠ .idle) :
    RS ({ q with w := { q.w with phase := ph, want := n, got := 0, accR := [] } }, [])
      ({ q.w with phase := ph, want := n, got := 0, accR := [] }, []) := by
  have hcur := h.cur
  refine ⟨?_, ?_, ?_, ?_⟩
  · simp only [absS]; simp_all
  · simp [dataOf, bytesOf, delivered, hcur]
  · rfl
  · constructor <;> simp_all [h.frame, h.open_]

theorem RS_complete (cfg : Cfg) (hst : cfg.isstream = true) (q : QSt) (h : InCbS q) (f : RxFrame) (p : Bytes) :
    RS (qComplete cfg q f p) (complete cfg q.w f p) := RS_frameCb cfg hst q h f _

theorem RS_acceptHdr (cfg : Cfg) (hst : cfg.isstream = true) (q : QSt) (h : InCbS q) (f0 : RxFrame) :
    RS (qAcceptHdr cfg q f0) (acceptHdr cfg q.w f0) := by
  unfold qAcceptHdr acceptHdr
  by_cases hz : hdrLen f0 ≠ 0
  · rw [if_pos hz, if_pos hz]
    by_cases hb : hdrLen f0 ≥ 126 ∧ hdrLen f0 > cfg.allocLimit
    · rw [if_pos hb, if_pos hb]; exact RS_fail cfg q h 1011
    · rw [if_neg hb, if_neg hb]; exact RS_more q h _ _ hz (by intro h; cases h)
  · rw [if_neg hz, if_neg hz]; exact RS_complete cfg hst q h _ _

theorem RS_checks (cfg : Cfg) (hst : cfg.isstream = true) (q : QSt) (h : InCbS q) (f0 : RxFrame) :
    RS (qChecks cfg q f0) (checks cfg q.w f0) := by
  unfold qChecks checks
  by_cases c1 : f0.b1.toNat % 128 = 127 ∧ hdrLen f0 < 65536
  · simp only [c1, and_self, if_true]; exact RS_fail cfg q h 1002
  simp only [c1, if_false]
  by_cases c2 : f0.b1.toNat % 128 = 126 ∧ hdrLen f0 < 126
  · simp only [c2, and_self, if_true]; exact RS_fail cfg q h 1002
  simp only [c2, if_false]
  by_cases c3 : hdrLen f0 > cfg.maxframe ∧ cfg.maxframe > 0
  · simp only [c3, and_self, if_true]; exact RS_fail cfg q h 1009
  simp only [c3, if_false]
  by_cases c4 : cfg.isstream = false ∧ cfg.recvmax > 0 ∧ (Generated.wsRecvmaxSkipsControl = false ∨ f0.op / 8 % 2 = 0) ∧
      totlen q.w (hdrLen f0) > cfg.recvmax
  · rw [if_pos c4, if_pos c4]; exact RS_fail cfg q h 1009
  rw [if_neg c4, if_neg c4]
  by_cases c5 : f0.masked = true ∧ cfg.server = false
  · rw [if_pos c5, if_pos c5]; exact RS_fail cfg q h 1002
  rw [if_neg c5, if_neg c5]
  by_cases c6 : f0.masked = false ∧ cfg.server = true
  · rw [if_pos c6, if_pos c6]; exact RS_fail cfg q h 1002
  rw [if_neg c6, if_neg c6]
  exact RS_acceptHdr cfg hst q h f0

theorem RS_headCb (cfg : Cfg) (hst : cfg.isstream = true) (q : QSt) (h : InCbS q) (b0 b1 : UInt8) :
    RS (qHeadCb cfg q b0 b1) (headCb cfg q.w b0 b1) := by
  unfold qHeadCb headCb
  simp only []
  generalize hh : (2 + (if decide (b1.toNat ≥ 128) = true then 4 else 0) +
    (if b1.toNat % 128 = 127 then 8 else if b1.toNat % 128 = 126 then 2 else 0)) = hl
  have hge : 2 ≤ hl := by
    rw [← hh]; exact Nat.le_trans (Nat.le_add_right 2 _) (Nat.le_add_right _ _)
  by_cases hne : hl ≠ 2
  · rw [if_pos hne, if_pos hne]
    exact RS_more q h _ _ (by omega) (by intro h; cases h)
  · rw [if_neg hne, if_neg hne]
    exact RS_checks cfg hst q h _

theorem InCbS_idle (q : QSt) (hi : InvS q) (hw : q.w.want ≠ 0) : InCbS (qIdle q) := by
  have hc : q.w.closed = false := by
    cases hcl : q.w.closed
    · rfl
    · exact absurd (hi.closedIdle hcl).2.1 hw
  exact ⟨rfl, rfl, rfl, hc, hi.rdframe hw, hi.readEmpty hw⟩

/-- one ws_read_cb of the queue model against one of the always-posted model, from the same frame-layer state -/
theorem RS_readCb (cfg : Cfg) (hst : cfg.isstream = true) (q : QSt) (hi : InvS q) (hw : q.w.want ≠ 0) (bytes : Bytes) :
    RS (qReadCb cfg q bytes) (readCb cfg q.w bytes) := by
  have h := InCbS_idle q hi hw
  unfold qReadCb readCb
  cases hp : q.w.phase with
  | head => exact RS_headCb cfg hst (qIdle q) h _ _
  | ext f => exact RS_checks cfg hst (qIdle q) h _
  | data f => exact RS_complete cfg hst (qIdle q) h f bytes
  | idle => exact absurd hp (hi.rdphase hw)


end Nng.WsQ.Str

namespace Nng.WsQ.Str
open Nng Nng.Ws Nng.WsQ

structure GoodS (cfg : Cfg) (q : QSt) (O : List Out) : Prop where
  inv : InvS q
  st : (rx cfg {} q.used).1 = absS q
  data : dataOf (rx cfg {} q.used).2 = bytesOf O ++ q.w.rxq.flatten
  tx : txOf (rx cfg {} q.used).2 = txOfQ O

theorem absS_reading (q : QSt) (hi : InvS q) (hw : q.w.want ≠ 0) : absS q = q.w := by
  have hcur := hi.readEmpty hw
  have hg := hi.got
  have ha := hi.acc
  unfold absS
  cases hw' : q.w with
  | mk phase want got accR inmsg rxq closed peerClosed rng =>
    simp only [hw'] at hw hcur hg ha
    simp_all

theorem InvS_io (q q' : QSt) (hw : q'.w = q.w) (hr : q'.recvq = q.recvq) (hf : q'.rxframe = q.rxframe) (hi : InvS q) : InvS q' := by
  constructor <;> (first | rw [hw] | skip) <;> (first | rw [hr] | skip) <;> (first | rw [hf] | skip)
  · exact hi.got
  · exact hi.acc
  · exact hi.rdframe
  · exact hi.framerd
  · exact hi.closedIdle
  · exact hi.readEmpty
  · exact hi.waitEmpty
  · exact hi.waitReads
  · exact hi.rdphase

theorem goodS_cb (cfg : Cfg) (hst : cfg.isstream = true) (q : QSt) (O : List Out) (hg : GoodS cfg q O)
    (hw : q.w.want ≠ 0) (hl : q.w.want ≤ q.pend.length) :
    GoodS cfg (qReadCb cfg { q with pend := q.pend.drop q.w.want, used := q.used ++ q.pend.take q.w.want } (q.pend.take q.w.want)).1
      (O ++ (qReadCb cfg { q with pend := q.pend.drop q.w.want, used := q.used ++ q.pend.take q.w.want } (q.pend.take q.w.want)).2) := by
  generalize hq' : ({ q with pend := q.pend.drop q.w.want, used := q.used ++ q.pend.take q.w.want } : QSt) = q'
  have hw' : q'.w = q.w := by rw [← hq']
  have hI' : InvS q' := InvS_io q q' hw' (by rw [← hq']) (by rw [← hq']) hg.inv
  have hR := RS_readCb cfg hst q' hI' (by rw [hw']; exact hw) (q.pend.take q.w.want)
  have hio := io_qReadCb cfg q' (q.pend.take q.w.want)
  have hlen : (q.pend.take q.w.want).length = q.w.want := by simp [List.length_take]; omega
  have hne : q.pend.take q.w.want ≠ [] := by
    intro h; rw [h] at hlen; simp at hlen; exact hw hlen.symm
  have hab : absS q = q.w := absS_reading q hg.inv hw
  have hrx : rx cfg {} (q.used ++ q.pend.take q.w.want) =
      ((readCb cfg q.w (q.pend.take q.w.want)).1, (rx cfg {} q.used).2 ++ (readCb cfg q.w (q.pend.take q.w.want)).2) := by
    rw [rx_append, hg.st, hab]
    have := rx_exact cfg q.w (q.pend.take q.w.want) [] hne hlen.symm hg.inv.got hg.inv.acc
    rw [List.append_nil] at this
    rw [this]
    simp [rx_nil]
  have hused : (qReadCb cfg q' (q.pend.take q.w.want)).1.used = q.used ++ q.pend.take q.w.want := by
    rw [hio.2, ← hq']
  rw [hw'] at hR
  refine ⟨hR.inv, ?_, ?_, ?_⟩
  · rw [hused, hrx]; exact hR.st
  · rw [hused, hrx]
    simp only [dataOf_append, bytesOf_append, hg.data, hR.data, hg.inv.readEmpty hw, List.flatten_nil, List.append_nil, List.append_assoc]
  · rw [hused, hrx]
    simp only [txOf_append, txOfQ_append, hg.tx, hR.tx]

theorem goodS_pump (cfg : Cfg) (hst : cfg.isstream = true) : ∀ (fuel : Nat) (q : QSt) (O : List Out), GoodS cfg q O →
    GoodS cfg (pump cfg fuel q).1 (O ++ (pump cfg fuel q).2) ∧
    (pump cfg fuel q).1.used ++ (pump cfg fuel q).1.pend = q.used ++ q.pend ∧
    (q.pend.length < fuel → Quiet (pump cfg fuel q).1) := by
  intro fuel
  induction fuel with
  | zero =>
    intro q O hg
    refine ⟨by simpa [pump] using hg, rfl, ?_⟩
    intro h; omega
  | succ n ih =>
    intro q O hg
    unfold pump
    by_cases hstop : q.w.want = 0 ∨ q.pend.length < q.w.want
    · rw [if_pos hstop]
      exact ⟨by simpa using hg, rfl, fun _ => hstop⟩
    · rw [if_neg hstop]
      have hw : q.w.want ≠ 0 := fun h => hstop (Or.inl h)
      have hl : q.w.want ≤ q.pend.length := by
        rcases Nat.lt_or_ge q.pend.length q.w.want with h | h
        · exact absurd (Or.inr h) hstop
        · exact h
      have hcb := goodS_cb cfg hst q O hg hw hl
      have hio := io_qReadCb cfg { q with pend := q.pend.drop q.w.want, used := q.used ++ q.pend.take q.w.want } (q.pend.take q.w.want)
      obtain ⟨h1, h2, h3⟩ := ih _ _ hcb
      simp only []
      refine ⟨?_, ?_, ?_⟩
      · simpa [List.append_assoc] using h1
      · rw [h2, hio.1, hio.2]
        simp [List.append_assoc]
      · intro hf
        apply h3
        rw [hio.1]
        simp only [List.length_drop]
        omega

structure StillS (q : QSt) (q2 : QSt) (o : List Out) : Prop where
  inv : InvS q2
  abs : absS q2 = absS q
  data : bytesOf o ++ q2.w.rxq.flatten = q.w.rxq.flatten
  tx : txOfQ o = []
  io : SameIo q q2

theorem goodS_still (cfg : Cfg) (q q2 : QSt) (O o : List Out) (hg : GoodS cfg q O) (h : StillS q q2 o) : GoodS cfg q2 (O ++ o) := by
  refine ⟨h.inv, ?_, ?_, ?_⟩
  · rw [h.io.2, hg.st, h.abs]
  · rw [h.io.2, hg.data, bytesOf_append, List.append_assoc, h.data]
  · rw [h.io.2, hg.tx, txOfQ_append, h.tx, List.append_nil]

theorem loop_nil_rxq (fuel : Nat) (q : QSt) (h : q.w.rxq = []) : qReadFinishStrLoop fuel q = (q, []) := by
  cases fuel with
  | zero => rfl
  | succ n =>
    unfold qReadFinishStrLoop
    split
    · rfl
    · simp [h]

end Nng.WsQ.Str

namespace Nng.WsQ.Str
open Nng Nng.Ws Nng.WsQ

theorem stillS_recv (cfg : Cfg) (hst : cfg.isstream = true) (q : QSt) (hi : InvS q) (r : Rcv) :
    StillS q (qRecv cfg q r).1 (qRecv cfg q r).2 := by
  have h1 := hi.got; have h2 := hi.acc; have h3 := hi.rdframe; have h4 := hi.framerd; have h5 := hi.closedIdle
  have h6 := hi.readEmpty; have h7 := hi.waitEmpty; have h8 := hi.waitReads; have h9 := hi.rdphase
  unfold qRecv qReadFinish qReadFinishStr
  simp only [hst, if_true]
  cases hr : q.recvq with
  | nil =>
    simp only [List.isEmpty_nil, if_true, List.nil_append]
    by_cases hq0 : q.w.rxq = []
    · -- nothing queued: the loop does nothing
      rw [loop_nil_rxq _ _ (by simpa using hq0)]
      cases hc : q.w.closed <;> cases hf : q.rxframe <;>
        (refine ⟨?_, ?_, ?_, ?_, ?_⟩
         · constructor <;> simp_all [qStartRead]
         · simp_all [absS, qStartRead]
         · simp_all [bytesOf, delivered, qStartRead, closeErr]
         · simp_all [txOfQ]
         · simp_all [SameIo, qStartRead])
    · -- something queued: reading is paused and the connection is up
      have hw : q.w.want = 0 := by
        cases hw : q.w.want with
        | zero => rfl
        | succ n => exact absurd (h6 (by simp [hw])) hq0
      have hc : q.w.closed = false := by
        cases hc : q.w.closed
        · rfl
        · exact absurd (h5 hc).2.2 hq0
      have hf : q.rxframe = false := by
        cases hf : q.rxframe
        · rfl
        · rcases h4 hf with h | h
          · exact absurd hw h
          · simp [hc] at h
      have hl := loop_ok ([r].length + q.w.rxq.length + 1) { q with recvq := [r] }
      have hdone := loop_done ([r].length + q.w.rxq.length + 1) { q with recvq := [r] } (by simp)
      generalize qReadFinishStrLoop ([r].length + q.w.rxq.length + 1) { q with recvq := [r] } = f at hl hdone
      obtain ⟨⟨w1, w2, w3, w4, w5, w6, w7, w8⟩, hfr, ⟨io1, io2⟩, hby, hlt, _⟩ := hl
      simp only [] at w1 w2 w3 w4 w5 w6 w7 w8 hfr io1 io2 hby
      have hfc : f.1.w.closed = false := by rw [w6]; exact hc
      simp only [hfc, Bool.false_and, Bool.false_eq_true, if_false]
      unfold qStartRead
      have c1 : ¬ (f.1.rxframe || f.1.w.closed) = true := by simp [hfr, hf, hfc]
      rw [if_neg c1]
      by_cases c2 : (f.1.recvq.isEmpty && !f.1.w.rxq.isEmpty) = true
      · rw [if_pos c2]
        have hre : f.1.recvq = [] := by simp at c2; exact c2.1
        refine ⟨?_, ?_, hby, hlt, ⟨io1, io2⟩⟩
        · constructor <;> simp_all
        · simp [absS, w2, w5, w6, w7, w8, hw, hc]
      · rw [if_neg c2]
        have hrq : f.1.w.rxq = [] := by
          rcases hdone with h | h
          · simp [h] at c2; exact c2
          · exact h
        refine ⟨?_, ?_, hby, hlt, ⟨io1, io2⟩⟩
        · constructor <;> simp_all
        · simp [absS, w5, w6, w7, w8, hw, hc]
  | cons x xs =>
    have hq0 : q.w.rxq = [] := h7 (by simp [hr])
    have hc : q.w.closed = false := by
      cases hcl : q.w.closed
      · rfl
      · have := (h5 hcl).1; simp [hr] at this
    have hw : q.w.want ≠ 0 := h8 hc (by simp [hr])
    have hf : q.rxframe = true := h3 hw
    simp only [List.isEmpty_cons, Bool.false_eq_true, if_false, hc, Bool.false_and]
    refine ⟨?_, ?_, ?_, ?_, ?_⟩
    · constructor <;> simp_all [qStartRead]
    · simp_all [absS, qStartRead]
    · simp_all [bytesOf, delivered, qStartRead]
    · simp_all [txOfQ]
    · simp_all [SameIo, qStartRead]

theorem stillS_cancel (q : QSt) (hi : InvS q) (id rv : Nat) (hrv : rv ≠ 0) :
    StillS q (qCancel q id rv).1 (qCancel q id rv).2 := by
  unfold qCancel
  split
  · refine ⟨?_, rfl, ?_, rfl, ⟨rfl, rfl⟩⟩
    · refine ⟨hi.got, hi.acc, hi.rdframe, hi.framerd, ?_, hi.readEmpty, ?_, ?_, hi.rdphase⟩
      · intro hc; have := hi.closedIdle hc; exact ⟨by simp [this.1], this.2⟩
      · intro b; exact hi.waitEmpty (filter_ne_nil _ _ b)
      · intro a b; exact hi.waitReads a (filter_ne_nil _ _ b)
    · cases rv with
      | zero => exact absurd rfl hrv
      | succ n => simp [bytesOf, delivered]
  · exact ⟨hi, rfl, by simp [bytesOf, delivered], rfl, ⟨rfl, rfl⟩⟩

theorem GoodS_pend (cfg : Cfg) (q : QSt) (O : List Out) (p : Bytes) (hg : GoodS cfg q O) : GoodS cfg { q with pend := p } O :=
  ⟨InvS_io q _ rfl rfl rfl hg.inv, hg.st, hg.data, hg.tx⟩

theorem goodS_step (cfg : Cfg) (hst : cfg.isstream = true) (q : QSt) (O : List Out) (hg : GoodS cfg q O) (hq : Quiet q)
    (e : QEv) (he : e.plain) :
    GoodS cfg (step cfg q e).1 (O ++ (step cfg q e).2) ∧ Quiet (step cfg q e).1 ∧
    (step cfg q e).1.used ++ (step cfg q e).1.pend = q.used ++ q.pend ++ streamOf [e] := by
  cases e with
  | bytes bs =>
    simp only [step, streamOf, List.append_nil]
    obtain ⟨h1, h2, h3⟩ := goodS_pump cfg hst (q.pend.length + bs.length + 1) { q with pend := q.pend ++ bs } O (GoodS_pend cfg q O _ hg)
    refine ⟨h1, h3 (by simp), ?_⟩
    rw [h2]; simp [List.append_assoc]
  | post id cap =>
    simp only [step, streamOf, List.append_nil]
    have hs := stillS_recv cfg hst q hg.inv { id := id, cap := cap }
    have hg2 := goodS_still cfg q _ O _ hg hs
    obtain ⟨h1, h2, h3⟩ := goodS_pump cfg hst ((qRecv cfg q { id := id, cap := cap }).1.pend.length + 1) _ _ hg2
    refine ⟨by simpa [List.append_assoc] using h1, h3 (by omega), ?_⟩
    rw [h2, hs.io.1, hs.io.2]
  | cancel id rv =>
    simp only [step, streamOf, List.append_nil]
    have hs := stillS_cancel q hg.inv id rv he
    refine ⟨goodS_still cfg q _ O _ hg hs, ?_, by rw [hs.io.1, hs.io.2]⟩
    have hw : (qCancel q id rv).1.w = q.w := by unfold qCancel; split <;> rfl
    unfold Quiet; rw [hw, hs.io.1]; exact hq
  | close => exact absurd he (by simp [QEv.plain])

theorem goodS_init (cfg : Cfg) : GoodS cfg init [] := by
  refine ⟨?_, rfl, rfl, rfl⟩
  constructor <;> simp [init]

theorem goodS_run (cfg : Cfg) (hst : cfg.isstream = true) : ∀ (evs : List QEv) (q : QSt) (O : List Out),
    GoodS cfg q O → Quiet q → (∀ e ∈ evs, e.plain) →
    GoodS cfg (run cfg q evs).1 (O ++ (run cfg q evs).2) ∧ Quiet (run cfg q evs).1 ∧
    (run cfg q evs).1.used ++ (run cfg q evs).1.pend = q.used ++ q.pend ++ streamOf evs := by
  intro evs
  induction evs with
  | nil => intro q O hg hq _; exact ⟨by simpa [run] using hg, hq, by simp [run, streamOf]⟩
  | cons e es ih =>
    intro q O hg hq hp
    obtain ⟨h1, h2, h3⟩ := goodS_step cfg hst q O hg hq e (hp e (by simp))
    obtain ⟨k1, k2, k3⟩ := ih _ _ h1 h2 (fun x hx => hp x (by simp [hx]))
    simp only [run]
    refine ⟨by simpa [List.append_assoc] using k1, k2, ?_⟩
    rw [k3, h3]
    have : streamOf (e :: es) = streamOf [e] ++ streamOf es := by
      have := streamOf_append [e] es; simpa using this
    rw [this]; simp [List.append_assoc]

theorem goodS_final (cfg : Cfg) (q : QSt) (O : List Out) (stream : Bytes) (hg : GoodS cfg q O) (hq : Quiet q)
    (hs : q.used ++ q.pend = stream) :
    dataOf (rx cfg {} stream).2 = bytesOf O ++ q.w.rxq.flatten ++ dataOf (rx cfg (absS q) q.pend).2 ∧
    ((q.w.want ≠ 0 ∨ q.w.closed = true) → dataOf (rx cfg (absS q) q.pend).2 = [] ∧ q.w.rxq = []) := by
  constructor
  · rw [← hs, rx_append, hg.st]
    simp only [dataOf_append, hg.data]
  · intro h
    rcases h with h | h
    · rw [absS_reading q hg.inv h]
      rcases hq with hq | hq
      · exact absurd hq h
      · rw [rx_short cfg q.pend q.w h (by rw [hg.inv.got]; omega)]; exact ⟨rfl, hg.inv.readEmpty h⟩
    · have hw := (hg.inv.closedIdle h).2.1
      have : (absS q).want = 0 := by simp [absS, hw, h]
      rw [rx_idle cfg _ this]; exact ⟨rfl, (hg.inv.closedIdle h).2.2⟩

end Nng.WsQ.Str
