/-
  C16U: nni_sha1_process = the FIPS 180-4 compression function (`Sha1Spec.compress`).
  The masks `& 0xFFFFFFFF` are no-ops on 32-bit words, the circular-shift macro is ROTL, the OR forms of
  Ch and Maj equal the XOR forms, the four 20-round loops are the single 80-round loop with f_t / K_t,
  the shift/or big-endian load is the numeric one, the W[16..79] loop is the FIPS schedule.
-/
import NngModel.Model.Sha1
import NngModel.Spec.Sha1
namespace Nng.Sha1
open Nng.Sha1Spec (State rotl step compress schedule toWords be32)

def Regs.toState (r : Regs) : State := (r.a, r.b, r.c, r.d, r.e)
def Regs.ofState (s : State) : Regs := ⟨s.1, s.2.1, s.2.2.1, s.2.2.2.1, s.2.2.2.2⟩

@[simp] theorem Regs.ofState_toState (r : Regs) : Regs.ofState r.toState = r := rfl
@[simp] theorem Regs.toState_ofState (s : State) : (Regs.ofState s).toState = s := rfl

theorem mask_noop (w : Word) : w &&& mask32 = w := by
  have : mask32 = BitVec.allOnes 32 := by decide
  rw [this, BitVec.and_allOnes]

theorem circ_eq_rotl (n : Nat) (h : n < 32) (w : Word) : circ n w = rotl n w := by
  simp only [circ, mask_noop, rotl, BitVec.rotateLeft_def, Nat.mod_eq_of_lt h]

theorem circ_rotA (w : Word) : circ Generated.sha1RotA w = rotl 5 w := circ_eq_rotl 5 (by omega) w
theorem circ_rotB (w : Word) : circ Generated.sha1RotB w = rotl 30 w := circ_eq_rotl 30 (by omega) w
theorem circ_rotW (w : Word) : circ Generated.sha1RotW w = rotl 1 w := circ_eq_rotl 1 (by omega) w

theorem f0_eq_ch (b c d : Word) : f0 b c d = (b &&& c) ^^^ (~~~b &&& d) := by
  unfold f0
  ext i hi
  simp
  cases b[i] <;> cases c[i] <;> cases d[i] <;> rfl

theorem f2_eq_maj (b c d : Word) : f2 b c d = (b &&& c) ^^^ (b &&& d) ^^^ (c &&& d) := by
  unfold f2
  ext i hi
  simp
  cases b[i] <;> cases c[i] <;> cases d[i] <;> rfl

theorem kWord_vals : kWord 0 = 0x5a827999#32 ∧ kWord 1 = 0x6ed9eba1#32 ∧ kWord 2 = 0x8f1bbcdc#32 ∧ kWord 3 = 0xca62c1d6#32 := by
  decide

theorem init_vals : (initWord 0, initWord 1, initWord 2, initWord 3, initWord 4) = Sha1Spec.H0 := by decide

/-! ### one round -/

theorem add_swap (x w k : Word) : x + w + k = x + k + w := by ac_rfl

theorem round0 (w : List Word) (r : Regs) (t : Nat) (h : t < 20) :
    (round f0 (kWord 0) w r t).toState = step w r.toState t := by
  have hf : Sha1Spec.f t r.b r.c r.d = f0 r.b r.c r.d := by rw [f0_eq_ch]; simp [Sha1Spec.f, h]
  have hk : Sha1Spec.K t = kWord 0 := by rw [kWord_vals.1]; simp [Sha1Spec.K, h]
  simp only [round, Regs.toState, step, mask_noop, circ_rotA, circ_rotB, hf, hk, add_swap]

theorem round1 (w : List Word) (r : Regs) (t : Nat) (h1 : 20 ≤ t) (h2 : t < 40) :
    (round f1 (kWord 1) w r t).toState = step w r.toState t := by
  have hf : Sha1Spec.f t r.b r.c r.d = f1 r.b r.c r.d := by
    have : ¬ t < 20 := by omega
    simp [Sha1Spec.f, this, h2, f1]
  have hk : Sha1Spec.K t = kWord 1 := by
    have : ¬ t < 20 := by omega
    rw [kWord_vals.2.1]; simp [Sha1Spec.K, this, h2]
  simp only [round, Regs.toState, step, mask_noop, circ_rotA, circ_rotB, hf, hk, add_swap]

theorem round2 (w : List Word) (r : Regs) (t : Nat) (h1 : 40 ≤ t) (h2 : t < 60) :
    (round f2 (kWord 2) w r t).toState = step w r.toState t := by
  have a1 : ¬ t < 20 := by omega
  have a2 : ¬ t < 40 := by omega
  have hf : Sha1Spec.f t r.b r.c r.d = f2 r.b r.c r.d := by rw [f2_eq_maj]; simp [Sha1Spec.f, a1, a2, h2]
  have hk : Sha1Spec.K t = kWord 2 := by rw [kWord_vals.2.2.1]; simp [Sha1Spec.K, a1, a2, h2]
  simp only [round, Regs.toState, step, mask_noop, circ_rotA, circ_rotB, hf, hk, add_swap]

theorem round3 (w : List Word) (r : Regs) (t : Nat) (h1 : 60 ≤ t) :
    (round f1 (kWord 3) w r t).toState = step w r.toState t := by
  have a1 : ¬ t < 20 := by omega
  have a2 : ¬ t < 40 := by omega
  have a3 : ¬ t < 60 := by omega
  have hf : Sha1Spec.f t r.b r.c r.d = f1 r.b r.c r.d := by simp [Sha1Spec.f, a1, a2, a3, f1]
  have hk : Sha1Spec.K t = kWord 3 := by rw [kWord_vals.2.2.2]; simp [Sha1Spec.K, a1, a2, a3]
  simp only [round, Regs.toState, step, mask_noop, circ_rotA, circ_rotB, hf, hk, add_swap]

/-- a fold over model registers is the fold of the specification step when they agree on every index of the list -/
theorem foldl_hom (g : Regs → Nat → Regs) (st : State → Nat → State) :
    ∀ (l : List Nat) (r : Regs), (∀ r t, t ∈ l → (g r t).toState = st r.toState t) →
      (l.foldl g r).toState = l.foldl st r.toState := by
  intro l
  induction l with
  | nil => intro r _; rfl
  | cons x xs ih =>
    intro r h
    simp only [List.foldl_cons]
    rw [ih (g r x) (fun r t ht => h r t (List.mem_cons_of_mem _ ht)), h r x (List.mem_cons_self ..)]

theorem range80 : List.range 80 = List.range' 0 20 ++ List.range' 20 20 ++ List.range' 40 20 ++ List.range' 60 20 := by decide

theorem rounds_eq (w : List Word) (r : Regs) : (rounds w r).toState = (List.range 80).foldl (step w) r.toState := by
  rw [range80]
  simp only [List.foldl_append, rounds]
  rw [foldl_hom _ (step w) _ _ (fun r t ht => round3 w r t (by have := List.mem_range'_1.mp ht; omega)),
      foldl_hom _ (step w) _ _ (fun r t ht => round2 w r t (by have := List.mem_range'_1.mp ht; omega) (by have := List.mem_range'_1.mp ht; omega)),
      foldl_hom _ (step w) _ _ (fun r t ht => round1 w r t (by have := List.mem_range'_1.mp ht; omega) (by have := List.mem_range'_1.mp ht; omega)),
      foldl_hom _ (step w) _ _ (fun r t ht => round0 w r t (by have := List.mem_range'_1.mp ht; omega))]

/-! ### the message schedule -/

theorem natBE (a b c d : Nat) (hb : b < 256) (hc : c < 256) (hd : d < 256) :
    a <<< 24 ||| b <<< 16 ||| c <<< 8 ||| d = a * 2 ^ 24 + b * 2 ^ 16 + c * 2 ^ 8 + d := by
  have h1 : a <<< 8 ||| b = a <<< 8 + b := (Nat.shiftLeft_add_eq_or_of_lt (i := 8) (by omega) a).symm
  have h2 : (a <<< 8 + b) <<< 8 ||| c = (a <<< 8 + b) <<< 8 + c := (Nat.shiftLeft_add_eq_or_of_lt (i := 8) (by omega) _).symm
  have h3 : ((a <<< 8 + b) <<< 8 + c) <<< 8 ||| d = ((a <<< 8 + b) <<< 8 + c) <<< 8 + d :=
    (Nat.shiftLeft_add_eq_or_of_lt (i := 8) (by omega) _).symm
  have e : a <<< 24 ||| b <<< 16 ||| c <<< 8 ||| d = ((a <<< 8 ||| b) <<< 8 ||| c) <<< 8 ||| d := by
    simp only [Nat.shiftLeft_or_distrib, ← Nat.shiftLeft_add]
  rw [e, h1, h2, h3]
  simp only [Nat.shiftLeft_eq]
  omega

/-- the shift/or load of the source is the numeric big-endian word -/
theorem load_be (a b c d : UInt8) :
    (((byteW a <<< 24) ||| (byteW b <<< 16)) ||| (byteW c <<< 8)) ||| byteW d = be32 a b c d := by
  apply BitVec.eq_of_toNat_eq
  have ha := a.toNat_lt
  have hb := b.toNat_lt
  have hc := c.toNat_lt
  have hd := d.toNat_lt
  simp only [byteW, be32, BitVec.toNat_or, BitVec.toNat_shiftLeft, BitVec.toNat_ofNat]
  have e1 : a.toNat % 2 ^ 32 = a.toNat := Nat.mod_eq_of_lt (by omega)
  have e2 : b.toNat % 2 ^ 32 = b.toNat := Nat.mod_eq_of_lt (by omega)
  have e3 : c.toNat % 2 ^ 32 = c.toNat := Nat.mod_eq_of_lt (by omega)
  have e4 : d.toNat % 2 ^ 32 = d.toNat := Nat.mod_eq_of_lt (by omega)
  rw [e1, e2, e3, e4]
  have s1 : a.toNat <<< 24 % 2 ^ 32 = a.toNat <<< 24 := Nat.mod_eq_of_lt (by rw [Nat.shiftLeft_eq]; omega)
  have s2 : b.toNat <<< 16 % 2 ^ 32 = b.toNat <<< 16 := Nat.mod_eq_of_lt (by rw [Nat.shiftLeft_eq]; omega)
  have s3 : c.toNat <<< 8 % 2 ^ 32 = c.toNat <<< 8 := Nat.mod_eq_of_lt (by rw [Nat.shiftLeft_eq]; omega)
  rw [s1, s2, s3, natBE _ _ _ _ hb hc hd]
  exact (Nat.mod_eq_of_lt (by omega)).symm

theorem loadWord_zero (a b c d : UInt8) (r : Bytes) : loadWord (a :: b :: c :: d :: r) 0 = be32 a b c d := by
  simp only [loadWord, Nat.zero_mul, Nat.zero_add, List.getD_cons_zero, List.getD_cons_succ]
  exact load_be a b c d

theorem loadWord_succ (a b c d : UInt8) (r : Bytes) (t : Nat) : loadWord (a :: b :: c :: d :: r) (t + 1) = loadWord r t := by
  have e0 : (t + 1) * 4 = t * 4 + 1 + 1 + 1 + 1 := by omega
  have e1 : t * 4 + 1 + 1 + 1 + 1 + 1 = (t * 4 + 1) + 1 + 1 + 1 + 1 := by omega
  have e2 : t * 4 + 1 + 1 + 1 + 1 + 2 = (t * 4 + 2) + 1 + 1 + 1 + 1 := by omega
  have e3 : t * 4 + 1 + 1 + 1 + 1 + 3 = (t * 4 + 3) + 1 + 1 + 1 + 1 := by omega
  simp only [loadWord, e0]
  rw [e1, e2, e3]
  simp only [List.getD_cons_succ]

theorem w16_aux : ∀ (n : Nat) (blk : Bytes), blk.length = 4 * n → (List.range n).map (loadWord blk) = toWords blk := by
  intro n
  induction n with
  | zero =>
    intro blk h
    have : blk = [] := List.eq_nil_of_length_eq_zero (by omega)
    subst this; rfl
  | succ n ih =>
    intro blk h
    match blk, h with
    | a :: b :: c :: d :: r, h =>
      simp only [List.length_cons] at h
      rw [List.range_succ_eq_map, List.map_cons, List.map_map, loadWord_zero]
      have : (loadWord (a :: b :: c :: d :: r) ∘ Nat.succ) = loadWord r := by
        funext t; exact loadWord_succ a b c d r t
      rw [this, ih r (by omega), toWords]
    | [], h => simp only [List.length_nil] at h; omega
    | [_], h => simp only [List.length_cons, List.length_nil] at h; omega
    | [_, _], h => simp only [List.length_cons, List.length_nil] at h; omega
    | [_, _, _], h => simp only [List.length_cons, List.length_nil] at h; omega

theorem w16_eq (blk : Bytes) (h : blk.length = 64) : w16 blk = toWords blk := w16_aux 16 blk (by omega)

theorem toWords_length : ∀ (n : Nat) (blk : Bytes), blk.length = 4 * n → (toWords blk).length = n := by
  intro n blk h
  rw [← w16_aux n blk h]; simp

theorem wNext_eq (w : List Word) :
    wNext w w.length = rotl 1 (w.getD (w.length - 3) 0 ^^^ w.getD (w.length - 8) 0 ^^^ w.getD (w.length - 14) 0 ^^^ w.getD (w.length - 16) 0) := by
  simp only [wNext, circ_rotW]

theorem schedule_fold : ∀ (n : Nat) (w : List Word),
    (List.range' w.length n).foldl (fun w t => w ++ [wNext w t]) w = schedule n w := by
  intro n
  induction n with
  | zero => intro w; rfl
  | succ n ih =>
    intro w
    rw [List.range'_succ, List.foldl_cons, wNext_eq]
    have hl : w.length + 1 = (w ++ [rotl 1 (w.getD (w.length - 3) 0 ^^^ w.getD (w.length - 8) 0 ^^^ w.getD (w.length - 14) 0 ^^^ w.getD (w.length - 16) 0)]).length := by
      simp
    rw [hl, ih]
    rfl

theorem wAll_eq (blk : Bytes) (h : blk.length = 64) : wAll blk = schedule 64 (toWords blk) := by
  have hl : (toWords blk).length = 16 := toWords_length 16 blk (by omega)
  unfold wAll
  rw [w16_eq blk h]
  have := schedule_fold 64 (toWords blk)
  rw [hl] at this
  exact this

/-! ### nni_sha1_process -/

theorem process_eq (c : Ctx) (h : c.blk.length = 64) :
    process c = { c with dig := Regs.ofState (compress c.dig.toState c.blk), idx := 0 } := by
  have hr := rounds_eq (wAll c.blk) c.dig
  rw [wAll_eq c.blk h] at hr
  have hc : compress c.dig.toState c.blk =
      (c.dig.a + (rounds (schedule 64 (toWords c.blk)) c.dig).a, c.dig.b + (rounds (schedule 64 (toWords c.blk)) c.dig).b,
       c.dig.c + (rounds (schedule 64 (toWords c.blk)) c.dig).c, c.dig.d + (rounds (schedule 64 (toWords c.blk)) c.dig).d,
       c.dig.e + (rounds (schedule 64 (toWords c.blk)) c.dig).e) := by
    simp only [compress, ← hr]
    rfl
  rw [hc]
  simp only [process, wAll_eq c.blk h, mask_noop, Regs.ofState]

end Nng.Sha1
