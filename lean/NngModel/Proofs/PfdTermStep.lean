/- every effective step decreases the measure; the step bound -/
import NngModel.Proofs.PfdTerm
namespace Nng.Pfd
open Nng.PfdSpec

theorem progW_idle (K : Nat) (l : List Op) : progW K .idle l = (l.map (W K)).sum := by
  cases l <;> simp [progW, fw]

theorem gpot_acct (K : Nat) (g : G) (t : Tid) (f : Frame) (op : Op) (fin : Bool) (p : Poller) :
    gpot K (acct g t f op fin) p = gpot K g p := by
  simp [gpot]

theorem set_self {α : Type} (l : List α) (i : Nat) (a : α) (h : l[i]? = some a) : l.set i a = l := by
  induction l generalizing i with
  | nil => rfl
  | cons b l ih =>
    cases i with
    | zero => simp at h; subst h; rfl
    | succ j => simp at h; simp [ih j h]

/-- weight of a thread after a step of the call machine -/
theorem progW_after (K : Nat) (g : G) (t : Tid) (f : Frame) (op : Op) (rest : List Op) :
    progW K (callStep g t f op).frame (if (callStep g t f op).fin then rest else op :: rest) =
      (if (callStep g t f op).fin then 0 else fw K (callStep g t f op).frame op) + (rest.map (W K)).sum := by
  cases hfin : (callStep g t f op).fin with
  | true =>
    have := callStep_fin_idle g t f op hfin
    simp [this, progW_idle]
  | false => simp [progW]

theorem gpot_p (K : Nat) (g : G) (p p' : Poller) (h1 : p'.pc = p.pc) (h2 : p'.batch = p.batch) : gpot K g p' = gpot K g p := by
  unfold gpot; rw [h1, h2]

theorem mu_client {s : State} {i : Nat} {c : Client} (h : s.cs[i]? = some c) : cstep s i c = s ∨ mu (cstep s i c) < mu s := by
  cases hp : c.prog with
  | nil => left; simp [cstep, hp]
  | cons op rest =>
    by_cases hb : c.frame.blocked s.g = true
    · left
      have h1 := callStep_blocked s.g (.c i) c.frame op hb
      have h2 := acct_blocked s.g (.c i) c.frame op hb
      have hset : s.cs.set i c = s.cs := set_self _ _ _ h
      have hc : ({ frame := c.frame, prog := op :: rest, res := c.res } : Client) = c := by rw [← hp]
      simp [cstep, hp, h1, h2, hc, hset]
    · right
      have hb' : c.frame.blocked s.g = false := by simpa using hb
      have hd := call_decreases s.cs.length s.g (.c i) c.frame op s.p hb'
      obtain ⟨c', hc'⟩ : ∃ c' : Client, c' = (⟨(callStep s.g (.c i) c.frame op).frame, (if (callStep s.g (.c i) c.frame op).fin then rest else op :: rest), (match (callStep s.g (.c i) c.frame op).rv with | some v => c.res ++ [v] | none => c.res)⟩ : Client) := ⟨_, rfl⟩
      have hcs : cstep s i c = { s with g := acct (callStep s.g (.c i) c.frame op).g (.c i) c.frame op (callStep s.g (.c i) c.frame op).fin,
                                        cs := s.cs.set i c' } := by
        rw [hc']; simp only [cstep, hp]; rfl
      have hs := sum_map_set (cw s.cs.length) s.cs i c c' h
      have hw := progW_after s.cs.length s.g (.c i) c.frame op rest
      have e1 : cw s.cs.length c = fw s.cs.length c.frame op + (rest.map (W s.cs.length)).sum := by
        simp only [cw, hp]; rfl
      have e2 : cw s.cs.length c' = progW s.cs.length (callStep s.g (.c i) c.frame op).frame
          (if (callStep s.g (.c i) c.frame op).fin then rest else op :: rest) := by
        rw [hc']; rfl
      rw [hcs]
      simp only [mu, List.length_set, gpot_acct]
      omega

theorem mu_pcall {s : State} {op : Op} {rest : List Op} {r : Evs} {w : Bool} (hpc : s.p.pc = .inCb) (hr : s.p.rem = op :: rest) :
    pstep s r w = s ∨ mu (pstep s r w) < mu s := by
  obtain ⟨g, cs, p⟩ := s
  obtain ⟨pc, batch, reap, cur, rem, frame, scripts⟩ := p
  simp only at hpc hr
  subst hpc hr
  by_cases hb : frame.blocked g = true
  · left
    have h1 := callStep_blocked g .p frame op hb
    have h2 := acct_blocked g .p frame op hb
    simp [pstep, h1, h2]
  · right
    have hb' : frame.blocked g = false := by simpa using hb
    have hd := call_decreases cs.length g .p frame op ⟨.inCb, batch, reap, cur, op :: rest, frame, scripts⟩ hb'
    have hw := progW_after cs.length g .p frame op rest
    have hg := gpot_p cs.length (callStep g .p frame op).g ⟨.inCb, batch, reap, cur, op :: rest, frame, scripts⟩
      ⟨.inCb, batch, reap, cur, if (callStep g .p frame op).fin then rest else op :: rest, (callStep g .p frame op).frame, scripts⟩ rfl rfl
    have e1 : progW cs.length frame (op :: rest) = fw cs.length frame op + (rest.map (W cs.length)).sum := rfl
    simp only [mu, pstep, gpot_acct, reapW]
    rw [e1]
    omega

theorem harvest_shape (g : G) (r : Evs) (w : Bool) :
    let pe := if g.reg && g.en then deliver r g.mask else Evs.none
    harvest g r w = (if w then (if g.evfd > 0 then [BEv.wake] else []) ++ (if pe.isEmpty then [] else [BEv.pfd pe])
                     else (if pe.isEmpty then [] else [BEv.pfd pe]) ++ (if g.evfd > 0 then [BEv.wake] else [])) := by
  simp [harvest]

theorem mu_poll {s s' : State} {ready : Evs} {wf : Bool} (hs : SInv s) (r : PollRel s ready wf s') : mu s' < mu s := by
  obtain ⟨g, cs, p⟩ := s
  obtain ⟨pc, batch, reap, cur, rem, frame, scripts⟩ := p
  cases r with
  | harvest hpc hne =>
    simp only at hpc hne
    subst hpc
    have hb : batch = [] := hs.waitB rfl
    subst hb
    have hsh := harvest_shape g ready wf
    simp only at hsh
    by_cases he : 0 < g.evfd <;> by_cases hre : (g.reg && g.en) = true <;>
      by_cases hpe : (deliver ready g.mask).isEmpty = true <;> cases wf <;>
      simp [hsh, he, hre, hpe, Evs.none_isEmpty] at hne ⊢ <;>
      simp [mu, gpot, reapW, pcW, itemW, hsh, he, hre, hpe, Evs.none_isEmpty, BEv.isPfd, CA, CW] <;>
      (try simp_all) <;> omega
  | dispNil hpc hb =>
    simp only at hpc hb
    subst hpc hb
    cases reap <;> simp [mu, gpot, reapW, pcW, afterEntry] <;> omega
  | dispWake rest hpc hb =>
    simp only at hpc hb
    subst hpc hb
    cases hr : rest.isEmpty <;> simp [mu, gpot, reapW, pcW, itemW, afterEntry, hr, CW] <;> (repeat' split) <;> omega
  | dispPfd m rest hpc hb =>
    simp only at hpc hb
    subst hpc hb
    simp [mu, gpot, reapW, pcW, itemW, touch]
    (repeat' split) <;> omega
  | cbBegin hpc =>
    simp only at hpc
    subst hpc
    cases scripts with
    | nil => simp [mu, gpot, reapW, pcW, progW, touch]; omega
    | cons sc tl => simp [mu, gpot, reapW, pcW, progW_idle, touch]; omega
  | cbEnd hpc hr =>
    simp only at hpc hr
    subst hpc hr
    cases hb : batch.isEmpty <;> cases reap <;> simp [mu, gpot, reapW, pcW, progW, afterEntry, hb] <;>
      (try (have : batch = [] := by simpa using hb)) <;> (try subst this) <;> simp <;> (repeat' split) <;> omega
  | reap hpc hm =>
    simp only at hpc hm
    subst hpc
    have hb : batch = [] := hs.reapB rfl
    subst hb
    have hw := sum_wake_le cs.length cs
    rw [List.map_map] at hw
    simp [mu, gpot, reapW, pcW]
    (repeat' split) <;> omega

theorem mu_step {s : State} (hs : SInv s) (ch : Choice) : step s ch = s ∨ mu (step s ch) < mu s := by
  rcases ch with ⟨tid, ready, wf⟩
  cases tid with
  | c i =>
    simp only [step]
    cases h : s.cs[i]? with
    | none => left; rfl
    | some c => exact mu_client h
  | p =>
    rcases step_cases s ⟨.p, ready, wf⟩ with e | ⟨f, op, r⟩ | r
    · left; exact e
    · simp only [step] at r ⊢
      have hpc := r.tp rfl
      have hop := r.hop
      simp only [opOf] at hop
      cases hr : s.p.rem with
      | nil => rw [hr] at hop; cases hop
      | cons o rest => exact mu_pcall hpc hr
    · right; exact mu_poll hs r

/-- number of steps of a schedule that change the state -/
def effSteps (s : State) : List Choice → Nat
  | [] => 0
  | ch :: rest => (if step s ch = s then 0 else 1) + effSteps (step s ch) rest

theorem effSteps_le {s : State} (hs : SInv s) (sched : List Choice) : effSteps s sched + mu (run s sched) ≤ mu s := by
  induction sched generalizing s with
  | nil => simp [effSteps, run]
  | cons ch rest ih =>
    have h1 := ih (sinv_step hs ch)
    have hrun : run s (ch :: rest) = run (step s ch) rest := rfl
    rw [hrun]
    simp only [effSteps]
    rcases mu_step hs ch with e | hlt
    · rw [if_pos e]; rw [e] at h1 ⊢; omega
    · split <;> omega

end Nng.Pfd
