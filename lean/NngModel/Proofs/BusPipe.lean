/-
  BUS model, send side: the invariant of one pipe and its preservation by the per-pipe
  sub-actions (`offer`, `sendCb`, `closeP`, `resizeP`).
-/
import NngModel.Model.Bus
namespace Nng.Bus
open Nng Nng.Proto

/-- invariant of pipe number `i`; `n` = number of sends so far -/
structure PInv (raw : Bool) (n : Nat) (i : Nat) (pp : Pipe) : Prop where
  /-- an idle pipe has nothing queued -/
  idle_empty : pp.busy = none → pp.sq = []
  /-- the queue never exceeds its depth -/
  cap : pp.sq.length ≤ pp.sqCap
  /-- wire history followed by the queue is in strictly increasing send order -/
  sorted : ((pp.wire ++ pp.sq).map (·.gid)).Pairwise (· < ·)
  bound : ∀ m ∈ pp.wire ++ pp.sq, m.gid < n
  /-- nothing on the wire or queued names this pipe as its origin -/
  noecho : raw = true → ∀ m ∈ pp.wire ++ pp.sq, m.excl ≠ pid i
  /-- every message considered for this pipe is on the wire, queued, or released — once -/
  conserve : ∀ x : SMsg, pp.offered.count x = (pp.wire ++ pp.sq ++ pp.dropped).count x
  /-- a detached pipe holds no message -/
  closed_clean : pp.closed = true → pp.busy = none ∧ pp.sq = []

theorem PInv.mono {raw n n' i pp} (h : PInv raw n i pp) (hn : n ≤ n') : PInv raw n' i pp :=
  { h with bound := fun m hm => Nat.lt_of_lt_of_le (h.bound m hm) hn }

theorem pinv_fresh (raw : Bool) (n i : Nat) (closed armed : Bool) (cap : Nat) :
    PInv raw n i { closed := closed, armed := armed, sqCap := cap } := by
  constructor <;> simp

theorem pairwise_snoc {l : List SMsg} {g : SMsg}
    (hs : (l.map (·.gid)).Pairwise (· < ·)) (hb : ∀ m ∈ l, m.gid < g.gid) :
    ((l ++ [g]).map (·.gid)).Pairwise (· < ·) := by
  rw [List.map_append, List.pairwise_append]
  refine ⟨hs, by simp, ?_⟩
  intro a ha b hb'
  simp at hb'
  subst hb'
  obtain ⟨m, hm, rfl⟩ := List.mem_map.mp ha
  exact hb m hm

/-! the four outcomes of one loop iteration of `bus0_sock_send` -/

theorem offer_detached {raw gm i pp} (hc : pp.closed = true) : offer raw gm i pp = (pp, []) := by
  simp [offer, hc]

theorem offer_origin {raw gm i pp} (he : (raw && pid i == gm.excl) = true) : offer raw gm i pp = (pp, []) := by
  unfold offer; simp only [he, if_true]; split <;> rfl

theorem offer_direct {raw gm i pp} (hc : pp.closed = false) (he : (raw && pid i == gm.excl) = false)
    (hb : pp.busy = none) :
    offer raw gm i pp =
      ({ pp with offered := pp.offered ++ [gm], busy := some gm, wire := pp.wire ++ [gm] }, [Out.psend i gm.m]) := by
  simp [offer, hc, he, hb]

theorem offer_queued {raw gm i pp} (hc : pp.closed = false) (he : (raw && pid i == gm.excl) = false)
    (hb : pp.busy.isNone = false) (hq : pp.sq.length < pp.sqCap) :
    offer raw gm i pp = ({ pp with offered := pp.offered ++ [gm], sq := pp.sq ++ [gm] }, []) := by
  simp [offer, hc, he, hb, hq]

/-- a full queue refuses the NEW message, whole; nothing else changes -/
theorem offer_full {raw gm i pp} (hc : pp.closed = false) (he : (raw && pid i == gm.excl) = false)
    (hb : pp.busy.isNone = false) (hq : ¬ pp.sq.length < pp.sqCap) :
    offer raw gm i pp = ({ pp with offered := pp.offered ++ [gm], dropped := pp.dropped ++ [gm] }, []) := by
  simp [offer, hc, he, hb, hq]

/-- `offer` with a fresh message number keeps the invariant -/
theorem pinv_offer {raw n i pp} (gm : SMsg) (hg : gm.gid = n) (h : PInv raw n i pp) :
    PInv raw (n + 1) i (offer raw gm i pp).1 := by
  cases hc : pp.closed with
  | true => rw [offer_detached hc]; exact h.mono (Nat.le_succ n)
  | false =>
  cases he : (raw && pid i == gm.excl) with
  | true => rw [offer_origin he]; exact h.mono (Nat.le_succ n)
  | false =>
  have hex : raw = true → gm.excl ≠ pid i := by
    intro hr hx; simp [hr, hx] at he
  have hcf : pp.closed = true → False := by simp [hc]
  cases hb : pp.busy.isNone with
  | true =>
    have hbn : pp.busy = none := by simpa using hb
    rw [offer_direct hc he hbn]
    have hsq : pp.sq = [] := h.idle_empty hbn
    have hbd := h.bound
    have hso := h.sorted
    have hne := h.noecho
    have hcs := h.conserve
    simp only [hsq, List.append_nil] at hbd hso hne hcs
    constructor
    · simp
    · simp [hsq]
    · simp only [hsq, List.append_nil]
      exact pairwise_snoc hso (fun m hm => by rw [hg]; exact hbd m hm)
    · intro m hm
      simp only [hsq, List.append_nil, List.mem_append, List.mem_singleton] at hm
      rcases hm with hm | hm
      · exact Nat.lt_succ_of_lt (hbd m hm)
      · subst hm; omega
    · intro hr m hm
      simp only [hsq, List.append_nil, List.mem_append, List.mem_singleton] at hm
      rcases hm with hm | hm
      · exact hne hr m hm
      · subst hm; exact hex hr
    · intro x
      have := hcs x
      simp only [hsq, List.append_nil, List.count_append] at this ⊢
      omega
    · intro hcl; exact absurd (show pp.closed = true from hcl) (by simp [hc])
  | false =>
    have hbs : pp.busy ≠ none := by
      intro hx; simp [hx] at hb
    by_cases hq : pp.sq.length < pp.sqCap
    · rw [offer_queued hc he hb hq]
      constructor
      · intro hx; exact absurd hx hbs
      · simp; omega
      · show (List.map (·.gid) (pp.wire ++ (pp.sq ++ [gm]))).Pairwise (· < ·)
        rw [← List.append_assoc]
        exact pairwise_snoc h.sorted (fun m hm => by rw [hg]; exact h.bound m hm)
      · intro m hm
        have hm' : m ∈ (pp.wire ++ pp.sq) ++ [gm] := by simpa [List.append_assoc] using hm
        rcases List.mem_append.mp hm' with hm' | hm'
        · exact Nat.lt_succ_of_lt (h.bound m hm')
        · simp at hm'; subst hm'; omega
      · intro hr m hm
        have hm' : m ∈ (pp.wire ++ pp.sq) ++ [gm] := by simpa [List.append_assoc] using hm
        rcases List.mem_append.mp hm' with hm' | hm'
        · exact h.noecho hr m hm'
        · simp at hm'; subst hm'; exact hex hr
      · intro x
        have := h.conserve x
        simp only [List.count_append] at this ⊢
        omega
      · intro hcl; exact absurd (show pp.closed = true from hcl) (by simp [hc])
    · rw [offer_full hc he hb hq]
      constructor
      · exact h.idle_empty
      · exact h.cap
      · exact h.sorted
      · intro m hm; exact Nat.lt_succ_of_lt (h.bound m hm)
      · exact h.noecho
      · intro x
        have := h.conserve x
        simp only [List.count_append] at this ⊢
        omega
      · exact h.closed_clean

theorem sendCb_nil {i pp} (h : pp.sq = []) : sendCb i pp = ({ pp with busy := none }, []) := by
  simp [sendCb, h]

theorem sendCb_cons {i pp m rest} (h : pp.sq = m :: rest) :
    sendCb i pp = ({ pp with sq := rest, busy := some m, wire := pp.wire ++ [m] }, [Out.psend i m.m]) := by
  simp [sendCb, h]

/-- `bus0_pipe_send_cb` (success) keeps the invariant -/
theorem pinv_sendCb {raw n i pp} (h : PInv raw n i pp) : PInv raw n i (sendCb i pp).1 := by
  cases hsq : pp.sq with
  | nil =>
    rw [sendCb_nil hsq]
    have hbd := h.bound; have hso := h.sorted; have hne := h.noecho; have hcs := h.conserve
    exact ⟨fun _ => hsq, h.cap, hso, hbd, hne, hcs, fun _ => ⟨rfl, hsq⟩⟩
  | cons m rest =>
    rw [sendCb_cons hsq]
    have hbd := h.bound; have hso := h.sorted; have hne := h.noecho; have hcs := h.conserve
    have hcap := h.cap
    simp only [hsq] at hbd hso hne hcs hcap
    constructor
    · intro hx; simp at hx
    · simp at hcap ⊢; omega
    · simpa [List.append_assoc] using hso
    · simpa [List.append_assoc] using hbd
    · simpa [List.append_assoc] using hne
    · intro x
      have := hcs x
      simp only [List.count_append, List.count_cons, List.count_nil] at this ⊢
      omega
    · intro hcl
      have := h.closed_clean hcl
      simp [hsq] at this

theorem count_take_drop (x : SMsg) (l : List SMsg) (c : Nat) :
    (l.take c).count x + (l.drop c).count x = l.count x := by
  rw [← List.count_append, List.take_append_drop]

theorem pairwise_prefix {l k : List SMsg} (c : Nat)
    (h : ((l ++ k).map (·.gid)).Pairwise (· < ·)) : ((l ++ k.take c).map (·.gid)).Pairwise (· < ·) := by
  have hsub : (l ++ k.take c).Sublist (l ++ k) := List.Sublist.append_left (List.take_sublist c k) l
  exact List.Pairwise.sublist (hsub.map _) h

theorem mem_prefix {l k : List SMsg} {c : Nat} {m : SMsg} (hm : m ∈ l ++ k.take c) : m ∈ l ++ k := by
  rcases List.mem_append.mp hm with h | h
  · exact List.mem_append_left _ h
  · exact List.mem_append_right _ (List.mem_of_mem_take h)

theorem resizeP_detached {c pp} (h : pp.closed = true) : resizeP c pp = pp := by simp [resizeP, h]

theorem resizeP_attached {c pp} (h : pp.closed = false) :
    resizeP c pp = { pp with sqCap := c, sq := pp.sq.take c, dropped := pp.dropped ++ pp.sq.drop c } := by
  simp [resizeP, h]

/-- `nni_lmq_resize` of the pipe's queue keeps the invariant -/
theorem pinv_resizeP {raw n i pp} (c : Nat) (h : PInv raw n i pp) : PInv raw n i (resizeP c pp) := by
  cases hc : pp.closed with
  | true => rw [resizeP_detached hc]; exact h
  | false =>
    rw [resizeP_attached hc]
    constructor
    · intro hb; simp [h.idle_empty hb]
    · simp; omega
    · exact pairwise_prefix c h.sorted
    · intro m hm; exact h.bound m (mem_prefix hm)
    · intro hr m hm; exact h.noecho hr m (mem_prefix hm)
    · intro x
      have h1 := h.conserve x
      have h2 := count_take_drop x pp.sq c
      simp only [List.count_append] at h1 ⊢
      omega
    · intro hcl; exact absurd (show pp.closed = true from hcl) (by simp [hc])

/-- detaching the pipe keeps the invariant (the queue is released) -/
theorem pinv_closeP {raw n i pp} (h : PInv raw n i pp) : PInv raw n i (closeP pp) := by
  unfold closeP
  have hsub : pp.wire.Sublist (pp.wire ++ pp.sq) := List.sublist_append_left _ _
  constructor
  · intro _; rfl
  · simp
  · simpa using List.Pairwise.sublist (hsub.map _) h.sorted
  · intro m hm; exact h.bound m (by simp at hm; exact List.mem_append_left _ hm)
  · intro hr m hm; exact h.noecho hr m (by simp at hm; exact List.mem_append_left _ hm)
  · intro x
    have := h.conserve x
    simp only [List.count_append, List.count_nil] at this ⊢
    omega
  · intro _; exact ⟨rfl, rfl⟩

end Nng.Bus
