/-
  "The SURVEYOR judge accepts every trace of the cooked SURVEYOR model": final statement, the
  hypotheses with their necessity examples (`decide`), and a non-vacuity example.

  Pieces: SurvJudgeCut (the judge cut into named pieces), SurvJudgeSent / SurvJudgeOut / SurvJudgeK
  (judge-only lemmas), SurvJudgeInv / SurvJudgeL (model invariants), SurvJudgeRel (the relation),
  SurvJudgeA … SurvJudgeJ (one lemma per event), SurvJudgeM (one step of the live socket),
  SurvJudgeN (phases, induction), SurvJudgeQ (a sufficient condition for `NoOverflow`).
-/
import NngModel.Proofs.SurvJudgeN
import NngModel.Proofs.SurvJudgeQ
namespace Nng.SurvProofs
open Nng Nng.Proto Nng.Survey Nng.SurveySpec Nng.SurvJudge

/-- whenever a response is dropped because the receive queue (depth 128) of its survey's context is full, the judge
    knows that survey's id, i.e. the survey has been handed to a pipe or a response to it has been delivered before
    (a peer can only answer a survey it has seen).  State-based: defined along the run of model and judge. -/
def NoBlindOverflow (evs : List Ev) : Prop := BlindFree {} {} evs

/-- no response is dropped on a full receive queue at all (implies `NoBlindOverflow`) -/
def NoOverflow (evs : List Ev) : Prop := Along overflowAt {} evs

theorem blindFree_of_along : ∀ (evs : List Ev) (s : State) (j : SurvJ), Along overflowAt s evs → BlindFree s j evs
  | [], _, _, _ => trivial
  | e :: es, s, j, h => ⟨fun ho => (by rw [h.1] at ho; cases ho), blindFree_of_along es _ _ h.2⟩

theorem noBlindOverflow_of_noOverflow (evs : List Ev) (h : NoOverflow evs) : NoBlindOverflow evs :=
  blindFree_of_along evs {} {} h

/-- the judge's queue depth is the one of the C source -/
theorem surv_judge_depth : Nng.SurveySpec.survRecvDepth = Nng.Generated.survRecvBufInit := by decide

/-- JUDGE (SURVEYOR, corrected judge): for every event sequence satisfying the four hypotheses the trace of the model is
    accepted by the executable trace predicate `survJudge` (Spec/Survey.lean).
    * survey bodies pairwise distinct (the judge identifies surveys by their bodies);
    * at most 2^31 surveys (`idSpan`): after that `nni_id_alloc` wraps and ids repeat, the judge demands fresh ids;
    * no `abort aio 0`;
    * `NoBlindOverflow`: a response is dropped on a full receive queue only for a survey whose id the judge has seen. -/
theorem surv_judge_accepts_model (evs : List Ev) (hb : (sendBodies evs).Nodup) (hn : (sendBodies evs).length ≤ idSpan)
    (ha : NoAbort0 evs) (ho : NoBlindOverflow evs) :
    Nng.SurveySpec.survJudge (evs.zip (Nng.Survey.run {} evs).2) = none := by
  rw [zip_run_eq_traceOf]
  exact judge_from evs SimSt_init (by simp [keysOf]) ha ho (by simpa [fstOf] using hb) (by simpa [fstOf] using hn)

/-- the bound on the number of surveys follows from a bound on the number of events -/
theorem sendBodies_length_le (evs : List Ev) : (sendBodies evs).length ≤ evs.length := by
  unfold sendBodies; exact List.length_filterMap_le _ _

theorem surv_judge_accepts_model_short (evs : List Ev) (hb : (sendBodies evs).Nodup) (hn : evs.length ≤ 2147483648)
    (ha : NoAbort0 evs) (ho : NoBlindOverflow evs) :
    Nng.SurveySpec.survJudge (evs.zip (Nng.Survey.run {} evs).2) = none :=
  surv_judge_accepts_model evs hb (by rw [idSpan_eq]; exact Nat.le_trans (sendBodies_length_le evs) hn) ha ho

/-- `NoOverflow` (hence `NoBlindOverflow`) holds in particular when the transport delivers at most 128 messages (the
    depth of the receive queue) in the whole run -/
theorem noOverflow_of_few_arrivals (evs : List Ev) (h : arrivalCount evs ≤ 128) : NoOverflow evs :=
  along_overflow_of_few evs {} (by intro c hc; cases hc) (by
    have : Nng.Generated.survRecvBufInit = 128 := by decide
    rw [this]; simpa using h)

/-- what the bound on the number of surveys is about: after the last id the allocator starts again at the first -/
theorem id_wraps : idNext idMax = idMin := by decide

/-! ### decidability of the hypotheses -/

instance alongDec (bad : State → Ev → Bool) : ∀ (evs : List Ev) (s : State), Decidable (Along bad s evs)
  | [], _ => isTrue trivial
  | e :: es, s =>
    have := alongDec bad es (step s e).1
    (inferInstance : Decidable (bad s e = false ∧ Along bad (step s e).1 es))

instance blindFreeDec : ∀ (evs : List Ev) (s : State) (j : SurvJ), Decidable (BlindFree s j evs)
  | [], _, _ => isTrue trivial
  | e :: es, s, j =>
    have := blindFreeDec es (step s e).1 (survStep j e (step s e).2)
    (inferInstance : Decidable ((overflowAt s e = true → knowsAt j e = true) ∧ BlindFree (step s e).1 (survStep j e (step s e).2) es))

instance (evs : List Ev) : Decidable (NoOverflow evs) := alongDec overflowAt evs {}
instance (evs : List Ev) : Decidable (NoBlindOverflow evs) := blindFreeDec evs {} {}
instance (evs : List Ev) : Decidable (NoAbort0 evs) := by unfold NoAbort0; infer_instance

/-! ### each hypothesis is needed -/

/-- two surveys with the same body look like one survey that went out with two ids -/
def cexSameBody : List Ev :=
  [.openSock "surveyor" false, .pipeAdd 99, .send none 0 ⟨[], [1]⟩ .inf, .sendDone 0 0, .send none 1 ⟨[], [1]⟩ .inf]
theorem surv_judge_needs_distinct_bodies :
    (sendBodies cexSameBody).length ≤ idSpan ∧ NoAbort0 cexSameBody ∧ NoBlindOverflow cexSameBody ∧
    (Nng.SurveySpec.survJudge (cexSameBody.zip (run {} cexSameBody).2)).isSome = true := by decide

/-- `abort aio 0` completes a parked receive "successfully" without a message -/
def cexAbort0 : List Ev :=
  [.openSock "surveyor" false, .send none 0 ⟨[], [1]⟩ .inf, .recv none 1 .inf, .abort 1 0]
theorem surv_judge_needs_no_abort0 :
    (sendBodies cexAbort0).Nodup ∧ (sendBodies cexAbort0).length ≤ idSpan ∧ NoBlindOverflow cexAbort0 ∧
    (Nng.SurveySpec.survJudge (cexAbort0.zip (run {} cexAbort0).2)).isSome = true := by decide

/-- the remaining corner of the queue-depth clause: a survey that never reached a wire (sent before any pipe existed)
    is answered 129 times by a peer that guessed its id; the protocol keeps 128 and drops one; the judge, which learns
    ids only from wires and deliveries, could not know at arrival time which survey the responses belong to and still
    reports the 129th (parked) receive as "kept waiting although a response to its survey has arrived" -/
def cexBlind : List Ev :=
  [.openSock "surveyor" false, .send none 0 ⟨[], [1]⟩ .inf, .pipeAdd 99] ++
  List.replicate 129 (.recvDone 0 (.ok [0x80, 0, 0, 0, 9])) ++ (List.range 129).map fun i => .recv none (i + 1) .inf
set_option maxRecDepth 100000 in
theorem surv_judge_needs_no_blind_overflow :
    (sendBodies cexBlind).Nodup ∧ (sendBodies cexBlind).length ≤ idSpan ∧ NoAbort0 cexBlind ∧
    (Nng.SurveySpec.survJudge (cexBlind.zip (run {} cexBlind).2)).isSome = true := by decide

/-! ### the two former findings are accepted by the corrected judge -/

/-- a receive parked before the deadline is served by a response that arrives exactly at the deadline (as survey.c
    does): accepted now (clause "only until the deadline"; a *new* receive at that instant must still fail with
    NNG_ESTATE, see `surv_judge_estate_at_deadline_example`) -/
def cexDeadlineInstant : List Ev :=
  [.openSock "surveyor" false, .pipeAdd 99, .send none 0 ⟨[], [1]⟩ .inf, .recv none 1 .inf, .advance 1000,
   .recvDone 0 (.ok [0x80, 0, 0, 0, 9])]
theorem surv_judge_accepts_deadline_instant_example :
    (run {} cexDeadlineInstant).2.getLast? = some [.rv 0, .done 1 0 (some ⟨[0x80, 0, 0, 0], [9]⟩) false, .parm 0] ∧
    Nng.SurveySpec.survJudge (cexDeadlineInstant.zip (run {} cexDeadlineInstant).2) = none := by decide

/-- at the deadline instant a new receive fails with NNG_ESTATE (model), and the judge insists on it: the same trace
    with the completion turned into a delivery is rejected -/
def exEstateAtDeadline : List Ev :=
  [.openSock "surveyor" false, .pipeAdd 99, .send none 0 ⟨[], [1]⟩ .inf, .recvDone 0 (.ok [0x80, 0, 0, 0, 9]), .advance 1000,
   .recv none 1 .inf]
theorem surv_judge_estate_at_deadline_example :
    (run {} exEstateAtDeadline).2.getLast? = some [.done 1 Err.estate none false] ∧
    Nng.SurveySpec.survJudge (exEstateAtDeadline.zip (run {} exEstateAtDeadline).2) = none ∧
    (Nng.SurveySpec.survJudge (exEstateAtDeadline.zip
      ((run {} exEstateAtDeadline).2.dropLast ++ [[.done 1 0 (some ⟨[0x80, 0, 0, 0], [9]⟩) false]]))).isSome = true := by decide

/-- 129 responses to one (wired) survey before anybody receives: the protocol keeps 128 and drops the last; the judge
    no longer counts the dropped one, the 129th receive may wait -/
def cexOverflow : List Ev :=
  [.openSock "surveyor" false, .pipeAdd 99, .send none 0 ⟨[], [1]⟩ .inf] ++
  List.replicate 129 (.recvDone 0 (.ok [0x80, 0, 0, 0, 9])) ++ (List.range 129).map fun i => .recv none (i + 1) .inf
set_option maxRecDepth 100000 in
theorem surv_judge_accepts_overflow_example :
    ¬ NoOverflow cexOverflow ∧ NoBlindOverflow cexOverflow ∧
    Nng.SurveySpec.survJudge (cexOverflow.zip (run {} cexOverflow).2) = none := by decide

/-! ### non-vacuity -/

/-- a concrete history: a context and the socket each run a survey over two pipes; a response is handed to a parked
    receive, another is queued, polled and taken by a non-blocking receive; a survey waits behind a busy pipe and goes
    out after `send_done`; a parked receive is cancelled, one is aborted with NNG_ETIMEDOUT before its time, a third times
    out when `advance` passes the survey deadline; NNG_ESTATE afterwards; context and socket are closed; time passes on
    the closed socket -/
def demo : List Ev :=
  [.openSock "surveyor" false, .ctxOpen 0, .pipeAdd 99, .pipeAdd 99,
   .setopt (some 0) Nng.Survey.surveyTimeOpt "ms" 500,
   .send (some 0) 1 ⟨[], [0xa1]⟩ .inf, .recv (some 0) 2 .inf,
   .recvDone 0 (.ok [0x80, 0, 0, 0, 0x11]),
   .send none 3 ⟨[], [0xa2]⟩ .nb, .sendDone 0 0,
   .recvDone 1 (.ok [0x80, 0, 0, 1, 0x22]), .poll, .recv none 4 .nb,
   .recv none 5 (.ms 100), .recv (some 0) 6 .inf, .recv (some 0) 8 (.ms 50), .cancel 5, .abort 8 5,
   .advance 600, .recv (some 0) 7 .nb, .poll, .ctxClose 0, .close, .advance 5]

/-- the hypotheses hold for `demo` … -/
theorem demo_hyps : (sendBodies demo).Nodup ∧ (sendBodies demo).length ≤ idSpan ∧ NoAbort0 demo ∧ NoBlindOverflow demo := by
  decide

/-- … the model does something on it (two deliveries: one to a parked receive, one from the queue; a timeout; ESTATE) … -/
theorem demo_run :
    ((run {} demo).1.delivered.map fun d => (d.aio, d.direct)) = [(2, false), (4, true)] ∧
    (run {} demo).2.map showOuts =
      ["rv 0", "rv 0", "pipe 0 ; parm 0", "pipe 1 ; parm 1", "rv 0", "psend 0 80000000 a1 ; psend 1 80000000 a1 ; done 1 0",
       "-", "rv 0 ; done 2 0 80000000 11 ; parm 0", "done 3 0", "rv 0 ; psend 0 80000001 a2", "rv 0 ; parm 1", "poll 1 1",
       "done 4 0 80000001 22", "-", "-", "-", "done 5 20", "done 8 5", "done 6 5", "done 7 11", "poll 0 1", "rv 0",
       "pclosed 0 ; pclosed 1", "-"] := by decide

/-- … and the judge accepts its trace, through the theorem -/
theorem demo_accepted : Nng.SurveySpec.survJudge (demo.zip (run {} demo).2) = none :=
  surv_judge_accepts_model demo demo_hyps.1 demo_hyps.2.1 demo_hyps.2.2.1 demo_hyps.2.2.2

end Nng.SurvProofs
