/-
  RESPONDENT judge simulation, part H: cancel / abort / aio expiry (resp0_ctx_cancel_send, resp0_cancel_recv)
  and context close.
-/
import NngModel.Proofs.RespJudgeEvG
namespace Nng.RespJudge
open Nng Nng.Proto Nng.Respond Nng.SurveySpec

/-- the pipes change in fields the judge does not see -/
theorem rel_pipes_map {s : State} {j : RespJ} {used : List Bytes} (hc : RelCore s j used) (f : Pipe → Pipe)
    (hi : ∀ x, (f x).id = x.id) (h1 : ∀ x, (f x).closed = x.closed) (h2 : ∀ x, (f x).busy = x.busy)
    (h3 : ∀ x, (f x).held = x.held) : RelCore { s with pipes := s.pipes.map f } j used := by
  have hg : ∀ q, getPipe { s with pipes := s.pipes.map f } q = (getPipe s q).map f := getPipe_map s f hi
  refine ⟨hc.err, hc.closed, hc.ttl, hc.ttl0, hc.ctxs, ?_, hc.pr, hc.ps, hc.aios, ?_, ?_, hc.bodies, hc.used⟩
  · show j.arrivals.map some = s.recvpipes.map (arrOf _)
    rw [hc.arr]
    apply List.map_congr_left
    intro q _
    unfold arrOf
    rw [hg q]
    cases getPipe s q with
    | none => rfl
    | some x => simp [h3]
  · intro q
    rw [hc.gone q, hg q]
    cases getPipe s q with
    | none => rfl
    | some x => simp [h1]
  · intro q
    rw [hc.infl q, hg q]
    cases getPipe s q with
    | none => rfl
    | some x => simp [h2]

/-! ### one cancellation -/

/-- resp0_ctx_cancel_send / resp0_cancel_recv with a result other than success: the judge follows, whatever
    the rest of the step's outputs are -/
theorem cancel_core {s : State} {j : RespJ} {used : List Bytes} (hc : RelCore s j used) (hn : NInv s) (a rv : Nat)
    (h0 : rv ≠ 0) (outs : List Out) :
    RelCore (cancelAio s a rv).1 ((cancelAio s a rv).2.foldl (respOut outs) j) used ∧
    (∀ o ∈ (cancelAio s a rv).2, ∃ a' rv' m mb, o = Out.done a' rv' m mb) := by
  unfold cancelAio
  split
  · rename_i c hf
    have hcm : c ∈ s.ctxs := List.mem_of_find?_eq_some hf
    obtain ⟨ps, hps, hpa⟩ : ∃ ps, c.saio = some ps ∧ ps.aio = a := by
      have := List.find?_some hf
      cases hs : c.saio with
      | none => rw [hs] at this; cases this
      | some ps => rw [hs] at this; exact ⟨ps, rfl, by simpa using this⟩
    subst hpa
    have hem : expOf c ps ∈ j.pendSend := (hc.ps _).2 ⟨c, hcm, ps, hps, rfl⟩
    refine ⟨?_, by intro o ho; simp only [List.mem_singleton] at ho; exact ⟨_, _, _, _, ho⟩⟩
    simp only [List.foldl_cons, List.foldl_nil]
    have hf1 : j.pendRecv.find? (·.1 == ps.aio) = none := by
      rw [List.find?_eq_none]
      intro x hx
      have := recv_send_aio_ne hc.aios hx hem
      simpa [expOf] using this
    have hf2 : j.pendSend.find? (·.aio == ps.aio) = some (expOf c ps) := by
      cases hfd : j.pendSend.find? (·.aio == ps.aio) with
      | none =>
        have := List.find?_eq_none.1 hfd _ hem
        simp [expOf] at this
      | some e' =>
        have h1 := List.mem_of_find?_eq_some hfd
        have h2 : e'.aio = ps.aio := by simpa using List.find?_some hfd
        rw [send_aio_inj hc.aios h1 hem h2]
    rw [respOut_done_send_fail hf1 hf2 rfl h0]
    have h1 := rel_pipes_map hc (fun (pp : Pipe) => { pp with sendq := pp.sendq.filter (· != c.key) })
      (fun _ => rfl) (fun _ => rfl) (fun _ => rfl) (fun _ => rfl)
    exact rel_unpark_send h1 hn.keys { c with saio := none } ps hcm rfl hps rfl rfl rfl
  · split
    · rename_i c hf
      have hcm : c ∈ s.ctxs := List.mem_of_find?_eq_some hf
      obtain ⟨pr, hpr, hpa⟩ : ∃ pr, c.raio = some pr ∧ pr.aio = a := by
        have := List.find?_some hf
        cases hs : c.raio with
        | none => rw [hs] at this; cases this
        | some pr => rw [hs] at this; exact ⟨pr, rfl, by simpa using this⟩
      subst hpa
      have hxm : (pr.aio, c.key, false) ∈ j.pendRecv := (hc.pr _).2 ⟨c, hcm, pr, hpr, rfl⟩
      refine ⟨?_, by intro o ho; simp only [List.mem_singleton] at ho; exact ⟨_, _, _, _, ho⟩⟩
      simp only [List.foldl_cons, List.foldl_nil]
      have hf1 : j.pendRecv.find? (·.1 == pr.aio) = some (pr.aio, c.key, false) := by
        cases hfd : j.pendRecv.find? (·.1 == pr.aio) with
        | none =>
          have := List.find?_eq_none.1 hfd _ hxm
          simp at this
        | some x' =>
          have h1 := List.mem_of_find?_eq_some hfd
          have h2 : x'.1 = pr.aio := by simpa using List.find?_some hfd
          rw [recv_aio_inj hc.aios h1 hxm h2]
      rw [respOut_done_recv_fail hf1 h0]
      have h1 : RelCore { s with recvq := s.recvq.filter (· != c.key) } j used := hc.of_eq rfl rfl rfl rfl rfl rfl
      have h2 := rel_unpark_recv h1 hn.keys { c with raio := none } pr hcm rfl hpr rfl rfl
      have hab : absCtx { c with raio := none } = absCtx c := rfl
      rw [hab, setCtxJ_same (j := { j with pendRecv := j.pendRecv.filter (·.1 != pr.aio) }) (s := s) hc.ctxs hn.keys hcm] at h2
      exact h2
    · exact ⟨hc, by intro o ho; cases ho⟩

/-! ### a batch of cancellations (aio expiry) -/

theorem cancel_fold {used : List Bytes} (rv : Nat) (h0 : rv ≠ 0) (outs : List Out) :
    ∀ (as : List Nat) (s : State) (j : RespJ) (o : List Out), RelCore s (o.foldl (respOut outs) j) used → NInv s →
      (∀ x ∈ o, ∃ a' rv' m mb, x = Out.done a' rv' m mb) →
      let r := as.foldl (fun (acc : State × List Out) a => ((cancelAio acc.1 a rv).1, acc.2 ++ (cancelAio acc.1 a rv).2)) (s, o)
      RelCore r.1 (r.2.foldl (respOut outs) j) used ∧ NInv r.1 ∧ (∀ x ∈ r.2, ∃ a' rv' m mb, x = Out.done a' rv' m mb) := by
  intro as
  induction as with
  | nil => intro s j o h hn ho; exact ⟨h, hn, ho⟩
  | cons a rest ih =>
    intro s j o h hn ho
    simp only [List.foldl_cons]
    obtain ⟨h1, h2⟩ := cancel_core h hn a rv h0 outs
    apply ih
    · rw [List.foldl_append]; exact h1
    · exact cancelAio_ninv a rv hn
    · intro x hx
      rcases List.mem_append.1 hx with hx | hx
      · exact ho x hx
      · exact h2 x hx

/-! ### a step whose outputs are completions only -/

theorem respMid_dones {outs : List Out} (h : ∀ o ∈ outs, ∃ a rv m mb, o = Out.done a rv m mb) (j : RespJ) :
    respMid outs j = outs.foldl (respOut outs) j := by
  rw [respMid_eq, filter_done_self h, filter_notDone_nil h]
  rfl

theorem dones_plain {outs : List Out} (h : ∀ o ∈ outs, ∃ a rv m mb, o = Out.done a rv m mb) :
    notExecuted outs = false ∧ hasBlocked outs = false := by
  constructor
  · unfold notExecuted
    rw [List.any_eq_false]
    intro o ho
    obtain ⟨_, _, _, _, rfl⟩ := h o ho; simp
  · unfold hasBlocked
    rw [List.any_eq_false]
    intro o ho
    obtain ⟨_, _, _, _, rfl⟩ := h o ho; simp

theorem cancel_ok {s : State} {j : RespJ} {used : List Bytes} (hR : Rel s j used) (hI : MInv s) (ev : Ev) (a rv : Nat)
    (h0 : rv ≠ 0) (hev : ev = .cancel a ∨ ev = .abort a rv) :
    Rel (cancelAio s a rv).1 (respStep j ev (cancelAio s a rv).2) used := by
  obtain ⟨h1, h2⟩ := cancel_core hR.core hI.n a rv h0 (cancelAio s a rv).2
  obtain ⟨hne, hbl⟩ := dones_plain h2
  have hpre : respPre j ev (cancelAio s a rv).2 = j := by rcases hev with rfl | rfl <;> rfl
  have hcc : ∀ j', ctxCloseStep ev (cancelAio s a rv).2 j' = j' := by rcases hev with rfl | rfl <;> intro _ <;> rfl
  have hnb : isNbSock ev = false := by rcases hev with rfl | rfl <;> rfl
  have hnp : ev ≠ .poll := by rcases hev with rfl | rfl <;> intro h <;> cases h
  have hj2 : ctxCloseStep ev (cancelAio s a rv).2 (respMid (cancelAio s a rv).2 (respPre j ev (cancelAio s a rv).2)) =
      (cancelAio s a rv).2.foldl (respOut (cancelAio s a rv).2) j := by
    rw [hcc, hpre, respMid_dones h2]
  refine step_finish ev _ hR.core.err hne (cancelAio_ninv a rv hI.n) hj2 ?_ hbl (pollClause_skip _ _ _ hnb)
    (by rw [pollOf_skip hnp]; intro r w h; cases h)
  rw [unfreshJ_id h1.fresh]
  exact h1

theorem expire_ok {s : State} {j : RespJ} {used : List Bytes} (hR : Rel s j used) (hI : MInv s) (ms : Nat) :
    Rel (expire { s with now := s.now + ms }).1 (respStep j (.advance ms) (expire { s with now := s.now + ms }).2) used := by
  have hc0 : RelCore { s with now := s.now + ms } j used := hR.core.of_eq rfl rfl rfl rfl rfl rfl
  have hn0 : NInv { s with now := s.now + ms } := hI.n.of_eq rfl rfl rfl rfl
  have hjn : ∀ outs, respPre j (.advance ms) outs = { j with now := j.now + ms } := fun _ => rfl
  have key := cancel_fold (used := used) Err.etimedout (by decide) (expire { s with now := s.now + ms }).2
    (dueAios { s with now := s.now + ms }) { s with now := s.now + ms } { j with now := j.now + ms } []
    (hc0.now _) hn0 (by intro x hx; cases hx)
  obtain ⟨h1, hn1, h2⟩ := key
  have h2' : ∀ o ∈ (expire { s with now := s.now + ms }).2, ∃ a rv m mb, o = Out.done a rv m mb := h2
  obtain ⟨hne, hbl⟩ := dones_plain h2'
  have hj2 : ctxCloseStep (.advance ms) (expire { s with now := s.now + ms }).2
      (respMid (expire { s with now := s.now + ms }).2 (respPre j (.advance ms) (expire { s with now := s.now + ms }).2)) =
      (expire { s with now := s.now + ms }).2.foldl (respOut (expire { s with now := s.now + ms }).2) { j with now := j.now + ms } := by
    rw [hjn, respMid_dones h2']
    rfl
  refine step_finish _ _ hR.core.err hne hn1 hj2 ?_ hbl (pollClause_skip _ _ _ rfl) (by intro r w h; cases h)
  rw [unfreshJ_id]
  · exact h1
  · exact RelCore.fresh h1

end Nng.RespJudge
