/-
  C08 judge simulation, part 7: transport receive completion.
-/
import NngModel.Proofs.PairJudge6
namespace Nng.Pair0
open Nng Nng.Proto Nng.PairSpec

theorem find_map_pipe (f : Pipe → Pipe) (hid : ∀ q, (f q).id = q.id) (p : Nat) (pp : Pipe) (l : List Pipe) :
    l.find? (·.id == p) = some pp →
    (l.map fun q => if q.id == p then f q else q).find? (·.id == p) = some (f pp) := by
  induction l with
  | nil => simp
  | cons x xs ih =>
    intro h
    simp only [List.find?_cons] at h
    simp only [List.map_cons, List.find?_cons]
    by_cases hx : (x.id == p) = true
    · simp only [hx, if_true] at h ⊢
      cases h
      simp [hid, hx]
    · simp only [hx, Bool.false_eq_true, if_false] at h ⊢
      exact ih h

theorem getPipe_modPipe {s : State} {p : Nat} {pp : Pipe} (f : Pipe → Pipe) (hid : ∀ q, (f q).id = q.id)
    (hg : getPipe s p = some pp) : getPipe (modPipe s p f) p = some (f pp) := by
  unfold getPipe modPipe at *
  exact find_map_pipe f hid p pp s.pipes hg

def keyOf (m : WMsg) : Bytes := m.hdr ++ m.body

theorem key_eq (e : Acc) : key e = keyOf e.m := rfl

theorem nodup_m_of_key {l : List Acc} (h : (l.map key).Nodup) : (l.map (·.m)).Nodup := by
  have : (l.map (·.m)).map keyOf = l.map key := by simp [key_eq]
  exact nodup_of_map keyOf (this ▸ h)

theorem pairMid_parm_done {j : PairJ} {p a : Nat} {m : WMsg} :
    ∀ o ∈ [Out.done a 0 (some m) false], isDone o = true ∧ tame o = true := by simp [isDone, tame]

theorem recvCbLocked_R {V : Variant} {v1 : Bool} {sS sR : List Bytes} {s : State} {j : PairJ} {p : Nat} {pp : Pipe}
    (hR : R V v1 sS sR s j) (hI : Inv s) (hc : s.cur = some p) (hrd : s.rdReady = false)
    (ha : j.armed = false) (hg : getPipe s p = some pp) (gm : GMsg) (hfr : keyOf gm.m ∉ sR) :
    ∃ ps dn, (recvCbLocked s p gm).2 = ps ++ dn ∧ (∀ o ∈ dn, isDone o = true ∧ tame o = true) ∧
      (∀ o ∈ ps, onP p o = true) ∧
      R V v1 sS (sR ++ [keyOf gm.m]) (recvCbLocked s p gm).1
        (ps.foldl (pairOut .none) (dn.foldl (pairOut .none) { j with held := j.held ++ [⟨gm.m, false⟩] })) := by
  have hheld0 : s.held = none := held_none_of s hI hrd
  have hUR : UR (j.held ++ [⟨gm.m, false⟩]) ((s.rmq ++ s.held.toList).map (·.m) ++ [gm.m]) := hR.held.snoc _
  have hnR : ((j.held ++ [(⟨gm.m, false⟩ : Acc)]).map key).Nodup := by
    simp only [List.map_append, List.map_cons, List.map_nil]
    rw [List.nodup_append]
    refine ⟨hR.nodupR, by simp, ?_⟩
    intro a ha' b hb
    simp only [List.mem_singleton] at hb
    subst hb
    obtain ⟨e, he, rfl⟩ := List.mem_map.1 ha'
    intro heq
    exact hfr (by rw [show keyOf gm.m = key (⟨gm.m, false⟩ : Acc) from rfl, ← heq]; exact hR.subR e he)
  have hsR : ∀ e ∈ j.held ++ [(⟨gm.m, false⟩ : Acc)], key e ∈ sR ++ [keyOf gm.m] := by
    intro e he
    rcases List.mem_append.1 he with h | h
    · exact List.mem_append_left _ (hR.subR e h)
    · simp only [List.mem_singleton] at h; subst h; simp [key_eq]
  have hlive : j.live = some p := hR.live.trans hc
  unfold recvCbLocked
  rw [if_neg (by simp [hc])]
  cases hq : s.raq with
  | cons a rest =>
    obtain ⟨e1, _⟩ := hI.raqEmpty (by simp [hq])
    have hnone : j.pendingS.find? (·.1 == a.aio) = none :=
      hR.toP.find_none (fun pk hpk => hR.disj pk hpk a (by simp [hq]))
    have hw : a.aio ∈ j.waitingR := by rw [hR.waitR, hq]; simp
    rw [e1, hheld0] at hUR
    obtain ⟨i, A, b, B, hu, h1, h2, h3, hB⟩ := (show UR (j.held ++ [⟨gm.m, false⟩]) (gm.m :: []) from hUR).pop'
      (nodup_m_of_key hnR)
    refine ⟨[Out.parm p], [Out.done a.aio 0 (some gm.m) false], rfl, by simp [isDone, tame], by simp [onP], ?_⟩
    simp only [List.foldl_cons, List.foldl_nil]
    rw [pairOut_done_recv (nb := .none) (by exact hnone) (show nbNotSend .none a.aio from trivial) (Or.inl (by exact hw)), recvCompletion_ok (by exact h1) (by exact h2)]
    rw [pairOut_parm (by exact hlive) (by exact ha)]
    have hnd := hR.raqNd
    rw [hq] at hnd
    have hsub : B.Sublist (j.held ++ [⟨gm.m, false⟩]) := by rw [hu]; simp
    refine { hR with armed := ?_, waitR := ?_, held := ?_, disj := ?_, raqNd := ?_, nodupR := ?_, subR := ?_ }
    · exact (any_armed_set hg _ (fun _ => rfl)).symm
    · simp only [hR.waitR, hq, List.map_cons, List.filter_cons, bne_self_eq_false, Bool.false_eq_true, if_false]
      show (rest.map (·.aio)).filter (· != a.aio) = rest.map (·.aio)
      rw [List.filter_eq_self]
      intro x hx
      simp only [List.map_cons, List.nodup_cons] at hnd
      have : x ≠ a.aio := fun e => hnd.1 (e ▸ hx)
      simpa using this
    · simp only [modPipe, h3, e1, hheld0]; exact hB
    · intro pk hpk r hr; exact hR.disj pk hpk r (by rw [hq]; exact List.mem_cons_of_mem _ hr)
    · simp only [List.map_cons, List.nodup_cons] at hnd; exact hnd.2
    · simp only [h3]; exact hnR.sublist (hsub.map _)
    · intro e he; simp only [h3] at he; exact hsR e (hsub.subset he)
  | nil =>
    simp only []
    by_cases hf : (!rmqFull s) = true
    · rw [if_pos hf]
      refine ⟨[Out.parm p], [], rfl, by simp, by simp [onP], ?_⟩
      simp only [List.foldl_cons, List.foldl_nil]
      rw [pairOut_parm (by exact hlive) (by exact ha)]
      refine { hR with armed := ?_, held := ?_, nodupR := hnR, subR := hsR,
                       waitR := by simp [hR.waitR, hq, modPipe], disj := by simp [modPipe], raqNd := by simp [modPipe] }
      · exact (any_armed_set (s := { s with rmq := s.rmq ++ [gm] }) hg _ (fun _ => rfl)).symm
      · simp only [modPipe, hheld0] at hUR ⊢
        simpa using hUR
    · rw [if_neg hf]
      refine ⟨[], [], rfl, by simp, by simp, ?_⟩
      simp only [List.foldl_nil]
      refine { hR with held := ?_, nodupR := hnR, subR := hsR,
                       waitR := by simp [hR.waitR, hq, modPipe], disj := by simp [modPipe], raqNd := by simp [modPipe] }
      rw [hheld0] at hUR
      simpa using hUR

theorem arrival_spec {V : Variant} {v1 : Bool} {sS sR : List Bytes} {s : State} {j : PairJ} (hV : VJ V v1)
    (hR : R V v1 sS sR s j) (b : Bytes) :
    arrivalRule j.v1 j.ttl b = Nng.Pair1.toSpec (V.rxDecide s.ttl b) := by
  rw [hR.jv1, hV.rx]
  cases v1 with
  | true => rw [hR.ttl rfl]
  | false => simp [arrivalRule]

theorem arrival_key {v1 : Bool} {ttl : Nat} {b : Bytes} {m : WMsg} (h : arrivalRule v1 ttl b = .deliver m) :
    keyOf m = b := by
  unfold arrivalRule at h
  cases v1 with
  | false => simp at h; subst h; simp [keyOf]
  | true =>
    simp only [if_true, hopRule] at h
    split at h
    · cases h
    · split at h
      · cases h
      · split at h
        · cases h
        · simp at h; subst h; simp [keyOf]

def evArr : Ev → List Bytes
  | .recvDone _ (.ok b) => [b]
  | _ => []

theorem pairMid_one {nb : Nb} {ev : Ev} {j : PairJ} {p : Nat}
    (hr : j.racing = false) (hev : isPipeAdd ev = false) (hl : j.live = some p) :
    pairMid false nb ev [.rv 0, .parm p] j = pairOut nb j (.parm p) := by
  have := pairMid_sched (nb := nb) (ev := ev) (ps := [.parm p]) (dn := []) hr hev hl (by simp) (by simp [onP])
  simpa using this

theorem ev_recvDone {V : Variant} {v1 : Bool} {sS sR : List Bytes} {s : State} {j : PairJ} (hV : VJ V v1)
    (hA : All V s) (hR : R' V v1 sS sR s j) (p : Nat) (r : Except Nat Bytes)
    (hfr : ∀ b ∈ evArr (.recvDone p r), b ∉ sR)
    (hA' : All V (stepLive V s (.recvDone p r)).1) :
    R' V v1 sS (sR ++ evArr (.recvDone p r)) (stepLive V s (.recvDone p r)).1
      (pairStepOld j (.recvDone p r) (stepLive V s (.recvDone p r)).2) := by
  have hmono : ∀ {s' : State} {j' : PairJ}, R' V v1 sS sR s' j' → R' V v1 sS (sR ++ evArr (.recvDone p r)) s' j' :=
    fun h => ⟨R_mono (fun _ h => h) (fun _ h => List.mem_append_left _ h) h.1, h.2⟩
  simp only [stepLive] at hA' ⊢
  have hplain : ∀ j0 : PairJ, pairPre false j0 (.recvDone p r) [.rv (-1)] = (j0, .none) := by
    intro j0; cases r <;> simp [pairPre]
  cases hg : getPipe s p with
  | none =>
    simp only [hg] at hA' ⊢
    exact hmono (step_plain hR hA' rfl hplain rfl rfl (by simp [neutral]))
  | some pp =>
    simp only [hg] at hA' ⊢
    by_cases hcb : (pp.closed || !pp.armed) = true
    · simp only [hcb, if_true] at hA' ⊢
      exact hmono (step_plain hR hA' rfl hplain rfl rfl (by simp [neutral]))
    · simp only [hcb, Bool.false_eq_true, if_false] at hA' ⊢
      have hcl' : pp.closed = false := by
        cases h : pp.closed with
        | false => rfl
        | true => simp [h] at hcb
      have har : pp.armed = true := by
        cases h : pp.armed with
        | true => rfl
        | false => simp [h] at hcb
      obtain ⟨hm, hid⟩ := getPipe_some hg
      obtain ⟨hrd, hcur⟩ := armed_facts hA.pinv hg hcl' har
      have hR0 := hR.1
      have hlive : j.live = some p := hR0.live.trans hcur
      have harmed : j.armed = true := by
        have := hR0.armed
        simp only [] at this
        rw [this, List.any_eq_true]; exact ⟨pp, hm, har⟩
      obtain ⟨s1, hs1⟩ : ∃ s1, s1 = modPipe s p fun q => { q with armed := false } := ⟨_, rfl⟩
      obtain ⟨j1, hj1⟩ : ∃ j1 : PairJ, j1 = { j with lastPoll := none, armed := false } := ⟨_, rfl⟩
      have hP1 : PInv s1 := hs1 ▸ disarm_pinv s p hA.pinv
      have hI1 : Inv s1 := hs1 ▸ modPipe_inv _ _ _ hA.inv
      have hg1 : getPipe s1 p = some { pp with armed := false } :=
        hs1 ▸ getPipe_modPipe (fun q => { q with armed := false }) (fun _ => rfl) hg
      have hcur1 : s1.cur = some p := by rw [hs1]; exact hcur
      have hrd1 : s1.rdReady = false := by rw [hs1]; exact hrd
      have hR1 : R V v1 sS sR s1 j1 := by
        rw [hs1, hj1]
        refine { hR0 with armed := ?_ }
        exact (any_armed_clear hA.pinv hcur (fun q => { q with armed := false }) (fun _ => rfl)).symm
      have hlive1 : j1.live = some p := by rw [hj1]; exact hlive
      have harm1 : j1.armed = false := by rw [hj1]
      rw [← hs1] at hA' ⊢
      cases r with
      | error e =>
        simp only [] at hA' ⊢
        rw [closePipe_pair hg1 hcl'] at hA' ⊢
        simp only [List.cons_append, List.nil_append] at hA' ⊢
        refine hmono (step_lost hR ?_ rfl rfl hR1 hP1 hg1 hcl' hA')
        rw [hj1]; simp [pairPre, hlive]
      | ok b =>
        simp only [] at hA' ⊢
        have hspec := arrival_spec hV hR0 b
        have httl : s1.ttl = s.ttl := by rw [hs1]; rfl
        have hfresh : b ∉ sR := hfr b (by simp [evArr])
        unfold recvCb at hA' ⊢
        cases hdec : V.rxDecide s1.ttl b with
        | close =>
          simp only [hdec] at hA' ⊢
          have hspec' : arrivalRule j.v1 j.ttl b = .close := by
            have := hspec; rw [← httl, hdec] at this; exact this
          have hg2 : getPipe { s1 with malformed := s1.malformed + 1 } p = some { pp with armed := false } := hg1
          rw [closePipe_pair hg2 hcl'] at hA' ⊢
          simp only [List.cons_append, List.nil_append] at hA' ⊢
          refine hmono (step_lost hR ?_ rfl rfl (R_view (s := s1) rfl hR1) ?_ hg2 hcl' hA')
          · rw [hj1]; simp [pairPre, hlive, harmed, hspec']
          · exact pinv_of_eq _ _ hP1 rfl rfl (fun h => h)
        | drop =>
          simp only [hdec] at hA' ⊢
          have hspec' : arrivalRule j.v1 j.ttl b = .drop := by
            have := hspec; rw [← httl, hdec] at this; exact this
          simp only [List.cons_append, List.nil_append] at hA' ⊢
          have hpre : pairPre false { j with lastPoll := none } (.recvDone p (.ok b)) [.rv 0, .parm p] =
              (j1, .none) := by
            rw [hj1]; simp [pairPre, hlive, harmed, hspec']
          have hg2 : getPipe { s1 with hopDropped := s1.hopDropped + 1 } p = some { pp with armed := false } := hg1
          refine hmono (step_general hR (by simp [notExecuted]) hpre
            (pairMid_one hR1.racing rfl hlive1) (pairPost_none rfl (by simp [noBlocked, isBlocked]) ?_) hA' ?_)
          · rw [pairOut_parm hlive1 harm1]; exact hR1.racing
          · rw [pairOut_parm hlive1 harm1]
            refine { hR1 with armed := ?_ }
            exact (any_armed_set hg2 _ (fun _ => rfl)).symm
        | deliver m =>
          simp only [hdec] at hA' ⊢
          have hspec' : arrivalRule j.v1 j.ttl b = .deliver m := by
            have := hspec; rw [← httl, hdec] at this; exact this
          have hkey : keyOf m = b := arrival_key hspec'
          have hev : evArr (.recvDone p (.ok b)) = [keyOf m] := by rw [hkey]; rfl
          rw [hev]
          have hg2 : getPipe { s1 with narrive := s1.narrive + 1, arrived := s1.arrived ++ [⟨s1.narrive, m⟩] } p =
              some { pp with armed := false } := hg1
          obtain ⟨ps, dn, h1, h2, h3, h5⟩ := recvCbLocked_R (p := p)
            (gm := ⟨s1.narrive, m⟩)
            (s := { s1 with narrive := s1.narrive + 1, arrived := s1.arrived ++ [⟨s1.narrive, m⟩] })
            (R_view (s := s1) rfl hR1)
            (by obtain ⟨i1, i2, i3, i4, i5, i6, i7, i8, i9, i10⟩ := hI1
                exact ⟨i1, i2, i3, i4, i5, i6, i7, i8, i9, i10⟩)
            hcur1 hrd1 harm1 hg2 (by rw [hkey]; exact hfresh)
          generalize hrc : recvCbLocked _ p ⟨s1.narrive, m⟩ = rc at h1 h5 hA' ⊢
          obtain ⟨rs, ro⟩ := rc
          simp only [] at h1 h5 hA' ⊢
          subst h1
          have ht := tame_all (sched_tame h2 h3)
          have hpre : pairPre false { j with lastPoll := none } (.recvDone p (.ok b)) ([.rv 0] ++ (ps ++ dn)) =
              ({ j1 with held := j1.held ++ [⟨m, false⟩] }, .none) := by
            have hng1 : Out.pclosed p ∉ ps := fun h => by have := h3 _ h; simp [onP] at this
            have hng2 : Out.pclosed p ∉ dn := fun h => by have := (h2 _ h).1; simp [isDone] at this
            rw [hj1]; simp [pairPre, hlive, harmed, hspec', hng1, hng2]
          exact step_general hR ht.1 hpre (pairMid_sched hR1.racing rfl hlive1 h2 h3)
            (pairPost_none rfl ht.2 h5.racing) hA' h5

end Nng.Pair0
