/-
  Acceptance of conforming frames by the receiver machine and byte-level reassembly
  (C16 `rx_reassembles`).  `rx_encode`: running `rx` over the bytes of one encoded frame from
  the peer role (header accepted by `checks`) invokes `frameCb` with exactly that frame.
  `rx_pieces`: induction over fragments with interleaved control frames, the open message
  buffer (`rxq`, `inmsg`) being the invariant.
-/
import NngModel.Proofs.WsRules
import NngModel.Proofs.WsConform
import NngModel.Generated.C16
namespace Nng.Ws
open Nng.Msg (length_beEncode beDecode_beEncode)

/-! ### the header of an encoded frame, as `checks` sees it -/

/-- bytes of the header after the first two: extended length, then the key -/
def ekOf (srv : Bool) (key : Bytes) (len : Nat) : Bytes := extOf len ++ keyBytes srv key

theorem byte1_mod (srv : Bool) (len : Nat) : (byte1 srv len).toNat % 128 = lenCode len := by
  have := lenCode_lt len
  rw [byte1_toNat]; cases srv <;> simp <;> omega

theorem byte1_masked (srv : Bool) (len : Nat) : decide ((byte1 srv len).toNat ≥ 128) = !srv := by
  have := lenCode_lt len
  rw [byte1_toNat]; cases srv <;> simp <;> omega

theorem keyBytes_length (srv : Bool) (key : Bytes) (hk : srv = false → key.length = 4) :
    (keyBytes srv key).length = if srv then 0 else 4 := by
  unfold keyBytes; cases srv
  · simp [hk rfl]
  · simp

theorem ekOf_length (srv : Bool) (key : Bytes) (len : Nat) (hk : srv = false → key.length = 4) :
    (ekOf srv key len).length = (if (byte1 srv len).toNat ≥ 128 then 4 else 0) +
      (if (byte1 srv len).toNat % 128 = 127 then 8 else if (byte1 srv len).toNat % 128 = 126 then 2 else 0) := by
  have hm := byte1_masked srv len
  rw [byte1_mod]
  unfold ekOf
  rw [List.length_append, extOf_length, keyBytes_length srv key hk]
  cases srv
  · have : (byte1 false len).toNat ≥ 128 := by simpa using hm
    simp [this]; omega
  · have : ¬ (byte1 true len).toNat ≥ 128 := by simpa using hm
    simp [this]

theorem hdrLen_mkF0 (b0 : UInt8) (srv : Bool) (key : Bytes) (len : Nat) (hlen : len < 2 ^ 64) :
    hdrLen (mkF0 b0 (byte1 srv len) (ekOf srv key len)) = len := by
  unfold hdrLen mkF0
  simp only [byte1_mod]
  have hd := extOf_decode len hlen
  have hl := extOf_length len
  unfold ekOf
  by_cases c1 : lenCode len = 127
  · simp only [c1, if_true] at hd hl ⊢
    rw [List.take_append_of_le_length (by omega)]; exact hd
  · by_cases c2 : lenCode len = 126
    · have ne : ¬ ((126 : Nat) = 127) := by decide
      simp only [c2, ne, if_true, if_false] at hd hl ⊢
      rw [List.take_append_of_le_length (by omega)]; exact hd
    · simp only [c1, c2, if_false] at hd ⊢
      exact hd

theorem head0_op (op : Nat) (fin : Bool) : (head0 op fin).toNat % 128 = op % 128 := by
  rw [head0_toNat]; cases fin <;> simp <;> omega

theorem head0_fin (op : Nat) (fin : Bool) : decide ((head0 op fin).toNat ≥ 128) = fin := by
  rw [head0_toNat]; cases fin <;> simp <;> omega

/-- the mask key ws_read_cb picks out of the header: the last four header bytes -/
theorem ekOf_mask (key : Bytes) (len : Nat) (hk : key.length = 4) :
    ((ekOf false key len).drop (2 + (ekOf false key len).length - 6)).take 4 = key := by
  unfold ekOf keyBytes
  simp only [Bool.false_eq_true, if_false, List.length_append, hk]
  have : 2 + ((extOf len).length + 4) - 6 = (extOf len).length := by omega
  rw [this, List.drop_left' rfl, List.take_of_length_le (by omega)]

/-- hypotheses under which `checks` accepts the header of a frame of `len` payload bytes -/
structure Accept (cfg : Cfg) (s : St) (op len : Nat) : Prop where
  small : len < 2 ^ 64
  maxframe : cfg.maxframe = 0 ∨ len ≤ cfg.maxframe
  recvmax : cfg.isstream = true ∨ cfg.recvmax = 0 ∨ op % 128 / 8 % 2 = 1 ∨ len + (s.rxq.map List.length).sum ≤ cfg.recvmax
  alloc : len < 126 ∨ len ≤ cfg.allocLimit

theorem totlen_le (s : St) (len : Nat) : totlen s len ≤ len + (s.rxq.map List.length).sum := by
  unfold totlen; exact Nat.mod_le _ _

theorem checks_accepts (cfg : Cfg) (s : St) (b0 : UInt8) (key : Bytes) (op len : Nat)
    (hb0 : b0.toNat % 128 = op % 128) (ha : Accept cfg s op len) :
    checks cfg s (mkF0 b0 (byte1 (!cfg.server) len) (ekOf (!cfg.server) key len)) =
      acceptHdr cfg s (mkF0 b0 (byte1 (!cfg.server) len) (ekOf (!cfg.server) key len)) := by
  have hl := hdrLen_mkF0 b0 (!cfg.server) key len ha.small
  have hm := byte1_mod (!cfg.server) len
  have hmk := byte1_masked (!cfg.server) len
  unfold checks
  rw [hl]
  have e1 : (mkF0 b0 (byte1 (!cfg.server) len) (ekOf (!cfg.server) key len)).b1 = byte1 (!cfg.server) len := rfl
  have e2 : (mkF0 b0 (byte1 (!cfg.server) len) (ekOf (!cfg.server) key len)).op = b0.toNat % 128 := rfl
  have e3 : (mkF0 b0 (byte1 (!cfg.server) len) (ekOf (!cfg.server) key len)).masked = cfg.server := by
    show decide ((byte1 (!cfg.server) len).toNat ≥ 128) = cfg.server
    rw [hmk]; simp
  rw [e1, e2, e3, hm, hb0]
  have c1 : ¬ (lenCode len = 127 ∧ len < 65536) := by
    intro h; have := lenCode_127 len h.1; omega
  have c2 : ¬ (lenCode len = 126 ∧ len < 126) := by
    intro h; have := lenCode_126 len h.1; omega
  have c3 : ¬ (len > cfg.maxframe ∧ cfg.maxframe > 0) := by
    intro h; rcases ha.maxframe with h' | h' <;> omega
  have c4 : ¬ (cfg.isstream = false ∧ cfg.recvmax > 0 ∧ (Generated.wsRecvmaxSkipsControl = false ∨ op % 128 / 8 % 2 = 0) ∧
      totlen s len > cfg.recvmax) := by
    intro h
    have ht := totlen_le s len
    rcases ha.recvmax with h' | h' | h' | h'
    · rw [h'] at h; exact absurd h.1 (by decide)
    · omega
    · rcases h.2.2.1 with h'' | h''
      · exact absurd h'' (by decide)
      · omega
    · omega
  have c5 : ¬ (cfg.server = true ∧ cfg.server = false) := by
    intro h; rw [h.1] at h; exact absurd h.2 (by decide)
  have c6 : ¬ (cfg.server = false ∧ cfg.server = true) := by
    intro h; rw [h.1] at h; exact absurd h.2 (by decide)
  rw [if_neg c1, if_neg c2, if_neg c3, if_neg c4, if_neg c5, if_neg c6]

theorem wireBody_length (srv : Bool) (key payload : Bytes) (hk : srv = false → key.length = 4) :
    (wireBody srv key payload).length = payload.length := by
  unfold wireBody; cases srv
  · simp [applyMask_length key (hk rfl)]
  · simp

/-- the frame record handed to ws_read_frame_cb for an accepted header -/
def accFrame (f0 : RxFrame) : RxFrame :=
  { f0 with len := hdrLen f0, mask := if f0.masked then (f0.ext.drop (f0.hlen - 6)).take 4 else [] }

theorem acceptHdr_eq (cfg : Cfg) (s : St) (f0 : RxFrame) :
    acceptHdr cfg s f0 =
      if hdrLen f0 ≠ 0 then
        if hdrLen f0 ≥ 126 ∧ hdrLen f0 > cfg.allocLimit then fail cfg s 1011
        else ({ s with phase := .data (accFrame f0), want := hdrLen f0, got := 0, accR := [] }, [])
      else complete cfg s (accFrame f0) [] := rfl

/-- ws_unmask_frame gives back the sender's payload -/
theorem unmask_wire (srv : Bool) (b0 : UInt8) (key payload : Bytes) (hk : srv = false → key.length = 4) :
    (if (accFrame (mkF0 b0 (byte1 srv payload.length) (ekOf srv key payload.length))).masked
      then applyMask (accFrame (mkF0 b0 (byte1 srv payload.length) (ekOf srv key payload.length))).mask (wireBody srv key payload)
      else wireBody srv key payload) = payload := by
  have hm : (accFrame (mkF0 b0 (byte1 srv payload.length) (ekOf srv key payload.length))).masked = !srv :=
    byte1_masked srv payload.length
  rw [hm]
  cases srv
  · have hk4 := hk rfl
    have hmask : (accFrame (mkF0 b0 (byte1 false payload.length) (ekOf false key payload.length))).mask = key := by
      show (if decide ((byte1 false payload.length).toNat ≥ 128) = true then
        ((ekOf false key payload.length).drop (2 + (ekOf false key payload.length).length - 6)).take 4 else []) = key
      rw [byte1_masked, if_pos (by rfl)]
      exact ekOf_mask key payload.length hk4
    rw [if_pos (by rfl), hmask]
    simp only [wireBody, Bool.false_eq_true, if_false]
    exact applyMask_involutive key hk4 payload
  · simp [wireBody]

/-- acceptance: the bytes of one conforming encoded frame from the peer drive the machine from a frame
    boundary through header, checks and payload read into exactly one `frameCb` on that frame -/
theorem rx_encode (cfg : Cfg) (s : St) (hb : Boundary s) (key : Bytes) (op : Nat) (fin : Bool) (payload rest : Bytes)
    (hk : cfg.server = true → key.length = 4) (ha : Accept cfg s op payload.length) :
    ∃ f : RxFrame, f.op = op % 128 ∧ f.final = fin ∧ f.len = payload.length ∧
      rx cfg s (encode (!cfg.server) key op fin payload ++ rest) =
        ((rx cfg (frameCb cfg (idleOf s) f payload).1 rest).1,
         (frameCb cfg (idleOf s) f payload).2 ++ (rx cfg (frameCb cfg (idleOf s) f payload).1 rest).2) := by
  have hk' : (!cfg.server) = false → key.length = 4 := by intro h; exact hk (by simpa using h)
  let b0 := head0 op fin
  let b1 := byte1 (!cfg.server) payload.length
  let ek := ekOf (!cfg.server) key payload.length
  let wb := wireBody (!cfg.server) key payload
  let f := accFrame (mkF0 b0 b1 ek)
  have hlen : hdrLen (mkF0 b0 b1 ek) = payload.length := hdrLen_mkF0 b0 _ key _ ha.small
  refine ⟨f, ?_, ?_, hlen, ?_⟩
  · exact head0_op op fin
  · exact head0_fin op fin
  have hsh : encode (!cfg.server) key op fin payload ++ rest = b0 :: b1 :: (ek ++ (wb ++ rest)) := by
    rw [encode_shape]; simp [b0, b1, ek, wb, ekOf]
  rw [hsh]
  have h := rx_header cfg s hb b0 b1 ek (wb ++ rest) (ekOf_length _ key _ hk')
  simp only [] at h
  rw [h]
  have ha' : Accept cfg (idleOf s) op payload.length := ⟨ha.small, ha.maxframe, ha.recvmax, ha.alloc⟩
  rw [checks_accepts cfg (idleOf s) b0 key op payload.length (head0_op op fin) ha']
  have hun : (if f.masked then applyMask f.mask wb else wb) = payload := unmask_wire _ b0 key payload hk'
  have hwl : wb.length = payload.length := wireBody_length _ key payload hk'
  rw [acceptHdr_eq, hlen]
  by_cases hz : payload.length = 0
  · have hw : wb = [] := List.eq_nil_of_length_eq_zero (by omega)
    have hn : ¬ (payload.length ≠ 0) := by omega
    rw [if_neg hn]
    have hc : complete cfg (idleOf s) f [] = frameCb cfg (idleOf s) f payload := by
      unfold complete
      rw [hw] at hun
      rw [hun]
    show ((rx cfg (complete cfg (idleOf s) f []).1 (wb ++ rest)).1,
      (complete cfg (idleOf s) f []).2 ++ (rx cfg (complete cfg (idleOf s) f []).1 (wb ++ rest)).2) = _
    rw [hc, hw, List.nil_append]
  · rw [if_pos hz]
    have hn : ¬ (payload.length ≥ 126 ∧ payload.length > cfg.allocLimit) := by
      intro h; rcases ha.alloc with h' | h' <;> omega
    rw [if_neg hn]
    let sx : St := { idleOf s with phase := Phase.data f, want := payload.length, got := 0, accR := [] }
    show ((rx cfg sx (wb ++ rest)).1, [] ++ (rx cfg sx (wb ++ rest)).2) = _
    have hne : wb ≠ [] := by intro h; rw [h] at hwl; simp at hwl; omega
    have h2 := rx_exact cfg sx wb rest hne (by simp [sx, hwl]) rfl rfl
    have e : readCb cfg sx wb = frameCb cfg (idleOf s) f payload := by
      show complete cfg (idleOf sx) f wb = _
      have : idleOf sx = idleOf s := idleOf_idem s _ _
      rw [this]
      unfold complete
      rw [hun]
    rw [h2, e]
    simp

/-! ### what `frameCb` does with the frames of a well-formed stream -/

/-- the canonical state at a frame boundary of an open connection -/
def bd (im : Bool) (q : List Bytes) (pc : Bool) (rng : Nat) : St :=
  { phase := .head, want := 2, got := 0, accR := [], inmsg := im, rxq := q, closed := false, peerClosed := pc, rng := rng }

theorem bd_boundary (im : Bool) (q : List Bytes) (pc : Bool) (rng : Nat) : Boundary (bd im q pc rng) := ⟨rfl, rfl, rfl, rfl⟩

/-- the PONG ws_send_control builds for a PING payload, and the random state afterwards -/
def pongOf (server : Bool) (rng : Nat) (payload : Bytes) : Bytes × Nat :=
  if server then (encode true [] opPong true payload, rng)
  else (encode false (keyOf (nextRand rng)) opPong true payload, nextRand rng)

theorem encodeControl_pong (server : Bool) (rng : Nat) (payload : Bytes) (h : payload.length ≤ 125) :
    encodeControl server rng opPong payload = some (pongOf server rng payload) := by
  have : ¬ payload.length > 125 := by omega
  unfold encodeControl pongOf
  cases server <;> simp [this]

theorem frameCb_ping (cfg : Cfg) (im : Bool) (q : List Bytes) (pc : Bool) (rng : Nat) (f : RxFrame) (payload : Bytes)
    (hst : cfg.isstream = false) (hq : im = false → q = []) (hop : f.op = 9) (hl : f.len = payload.length)
    (h125 : payload.length ≤ 125) :
    frameCb cfg (idleOf (bd im q pc rng)) f payload =
      (bd im q pc (pongOf cfg.server rng payload).2, [.tx (pongOf cfg.server rng payload).1]) := by
  have hn : ¬ f.len > 125 := by omega
  unfold frameCb
  simp only [hop, hn, if_false, Nat.reduceEqDiff, if_true]
  cases im
  · have := hq rfl; subst this
    simp [sendControl, idleOf, bd, encodeControl_pong _ _ _ h125, finishAndRestart, readFinish, hst, readFinishMsg, startRead]
  · simp [sendControl, idleOf, bd, encodeControl_pong _ _ _ h125, finishAndRestart, readFinish, hst, readFinishMsg, startRead]

theorem frameCb_pong (cfg : Cfg) (im : Bool) (q : List Bytes) (pc : Bool) (rng : Nat) (f : RxFrame) (payload : Bytes)
    (hst : cfg.isstream = false) (hq : im = false → q = []) (hop : f.op = 10) (hl : f.len = payload.length)
    (h125 : payload.length ≤ 125) :
    frameCb cfg (idleOf (bd im q pc rng)) f payload = (bd im q pc rng, []) := by
  have hn : ¬ f.len > 125 := by omega
  unfold frameCb
  simp only [hop, hn, if_false, Nat.reduceEqDiff, if_true]
  cases im
  · have := hq rfl; subst this
    simp [idleOf, bd, finishAndRestart, readFinish, hst, readFinishMsg, startRead]
  · simp [idleOf, bd, finishAndRestart, readFinish, hst, readFinishMsg, startRead]

/-- BINARY opens a message (or is a whole one), CONT extends the open one; FIN delivers the concatenation -/
theorem frameCb_data (cfg : Cfg) (first : Bool) (q : List Bytes) (pc : Bool) (rng : Nat) (f : RxFrame) (payload : Bytes)
    (hst : cfg.isstream = false) (hq : first = true → q = []) (hop : f.op = if first then 2 else 0) :
    frameCb cfg (idleOf (bd (!first) q pc rng)) f payload =
      if f.final then (bd false [] pc rng, [.msg (q ++ [payload]).flatten])
      else (bd true (q ++ [payload]) pc rng, []) := by
  unfold frameCb
  cases first
  · simp only [Bool.false_eq_true, if_false] at hop
    cases hf : f.final <;>
      simp [hop, idleOf, bd, finishAndRestart, readFinish, hst, readFinishMsg, startRead]
  · have := hq rfl; subst this
    simp only [if_true] at hop
    cases hf : f.final <;>
      simp [hop, hf, dataFrame, idleOf, bd, finishAndRestart, readFinish, hst, readFinishMsg, startRead]

/-! ### control frames between fragments, fragments, whole messages -/

/-- a control frame of the stream: (is PING (else PONG), key, payload) -/
abbrev Ctl := Bool × Bytes × Bytes
/-- a fragment with the control frames that precede it: (controls, key, payload) -/
abbrev Piece := List Ctl × Bytes × Bytes

def ctlWire (srv : Bool) (cs : List Ctl) : Bytes :=
  (cs.map fun c => encode srv c.2.1 (if c.1 then opPing else opPong) true c.2.2).flatten

/-- the PONGs the receiver writes for the PINGs of a control list (in order), and the random state afterwards -/
def pongRun (server : Bool) : Nat → List Ctl → List Bytes × Nat
  | rng, [] => ([], rng)
  | rng, c :: cs =>
    if c.1 then ((pongOf server rng c.2.2).1 :: (pongRun server (pongOf server rng c.2.2).2 cs).1,
                 (pongRun server (pongOf server rng c.2.2).2 cs).2)
    else pongRun server rng cs

theorem pongRun_append (server : Bool) (rng : Nat) (a b : List Ctl) :
    pongRun server rng (a ++ b) =
      ((pongRun server rng a).1 ++ (pongRun server (pongRun server rng a).2 b).1, (pongRun server (pongRun server rng a).2 b).2) := by
  induction a generalizing rng with
  | nil => simp [pongRun]
  | cons c cs ih =>
    by_cases hc : c.1 = true
    · simp [pongRun, hc, ih]
    · simp [pongRun, hc, ih]

def CtlOk (cfg : Cfg) (c : Ctl) : Prop :=
  c.2.1.length = 4 ∧ c.2.2.length ≤ 125 ∧ (cfg.maxframe = 0 ∨ c.2.2.length ≤ cfg.maxframe)

theorem rx_ctls (cfg : Cfg) (hst : cfg.isstream = false) (im : Bool) (q : List Bytes) (pc : Bool) (hq : im = false → q = [])
    (cs : List Ctl) (hcs : ∀ c ∈ cs, CtlOk cfg c) (rng : Nat) (rest : Bytes) :
    rx cfg (bd im q pc rng) (ctlWire (!cfg.server) cs ++ rest) =
      ((rx cfg (bd im q pc (pongRun cfg.server rng cs).2) rest).1,
       (pongRun cfg.server rng cs).1.map Ev.tx ++ (rx cfg (bd im q pc (pongRun cfg.server rng cs).2) rest).2) := by
  induction cs generalizing rng with
  | nil => simp [ctlWire, pongRun]
  | cons c cs ih =>
    have hc := hcs c (by simp)
    have ih' := ih (fun c' h => hcs c' (by simp [h]))
    have hw : ctlWire (!cfg.server) (c :: cs) ++ rest =
        encode (!cfg.server) c.2.1 (if c.1 then opPing else opPong) true c.2.2 ++ (ctlWire (!cfg.server) cs ++ rest) := by
      simp [ctlWire]
    rw [hw]
    have hacc : Accept cfg (bd im q pc rng) (if c.1 then opPing else opPong) c.2.2.length := by
      refine ⟨by have := hc.2.1; omega, hc.2.2, ?_, Or.inl (by have := hc.2.1; omega)⟩
      right; right; left
      cases c.1 <;> decide
    obtain ⟨f, hop, _, hl, hrx⟩ := rx_encode cfg (bd im q pc rng) (bd_boundary ..) c.2.1 (if c.1 then opPing else opPong) true c.2.2
      (ctlWire (!cfg.server) cs ++ rest) (fun _ => hc.1) hacc
    rw [hrx]
    by_cases hp : c.1 = true
    · have hop' : f.op = 9 := by rw [hop, hp]; decide
      rw [frameCb_ping cfg im q pc rng f c.2.2 hst hq hop' hl hc.2.1, ih']
      simp [pongRun, hp]
    · have hop' : f.op = 10 := by
        rw [hop]; simp only [hp, Bool.false_eq_true, if_false]; decide
      rw [frameCb_pong cfg im q pc rng f c.2.2 hst hq hop' hl hc.2.1, ih']
      simp [pongRun, hp]

def PieceOk (cfg : Cfg) (p : Piece) : Prop :=
  p.2.1.length = 4 ∧ (cfg.maxframe = 0 ∨ p.2.2.length ≤ cfg.maxframe) ∧ p.2.2.length ≤ cfg.allocLimit ∧
    p.2.2.length < 2 ^ 64 ∧ ∀ c ∈ p.1, CtlOk cfg c

/-- one fragment preceded by its control frames -/
theorem rx_piece (cfg : Cfg) (hst : cfg.isstream = false) (first fin : Bool) (q : List Bytes) (pc : Bool)
    (hq : first = true → q = []) (p : Piece) (hp : PieceOk cfg p)
    (hmax : cfg.recvmax = 0 ∨ p.2.2.length + (q.map List.length).sum ≤ cfg.recvmax) (rng : Nat) (rest : Bytes) :
    rx cfg (bd (!first) q pc rng)
        (ctlWire (!cfg.server) p.1 ++ encode (!cfg.server) p.2.1 (if first then opBinary else opCont) fin p.2.2 ++ rest) =
      ((rx cfg (if fin then bd false [] pc (pongRun cfg.server rng p.1).2
                else bd true (q ++ [p.2.2]) pc (pongRun cfg.server rng p.1).2) rest).1,
       (pongRun cfg.server rng p.1).1.map Ev.tx ++ ((if fin then [Ev.msg (q ++ [p.2.2]).flatten] else []) ++
        (rx cfg (if fin then bd false [] pc (pongRun cfg.server rng p.1).2
                else bd true (q ++ [p.2.2]) pc (pongRun cfg.server rng p.1).2) rest).2)) := by
  have hq' : (!first) = false → q = [] := by intro h; exact hq (by simpa using h)
  rw [List.append_assoc, rx_ctls cfg hst (!first) q pc hq' p.1 hp.2.2.2.2 rng]
  have hacc : Accept cfg (bd (!first) q pc (pongRun cfg.server rng p.1).2) (if first then opBinary else opCont) p.2.2.length := by
    refine ⟨hp.2.2.2.1, hp.2.1, ?_, Or.inr hp.2.2.1⟩
    rcases hmax with h | h
    · exact Or.inr (Or.inl h)
    · exact Or.inr (Or.inr (Or.inr h))
  obtain ⟨f, hop, hfin, _, hrx⟩ := rx_encode cfg (bd (!first) q pc (pongRun cfg.server rng p.1).2) (bd_boundary ..) p.2.1
    (if first then opBinary else opCont) fin p.2.2 rest (fun _ => hp.1) hacc
  have hop' : f.op = if first then 2 else 0 := by rw [hop]; cases first <;> decide
  rw [hrx, frameCb_data cfg first q pc _ f p.2.2 hst hq hop', hfin]
  cases fin <;> simp

def wireFrom (srv : Bool) (n k : Nat) (l : List Piece) : Bytes :=
  ((l.zipIdx k).map fun (p, i) =>
    ctlWire srv p.1 ++ encode srv p.2.1 (if i = 0 then opBinary else opCont) (decide (i + 1 = n)) p.2.2).flatten

theorem wireFrom_cons (srv : Bool) (n k : Nat) (p : Piece) (l : List Piece) :
    wireFrom srv n k (p :: l) =
      ctlWire srv p.1 ++ encode srv p.2.1 (if k = 0 then opBinary else opCont) (decide (k + 1 = n)) p.2.2 ++ wireFrom srv n (k + 1) l := by
  simp [wireFrom, List.zipIdx_cons]

/-- fragments `k ..` of an `n`-fragment message, the first `k` already queued in `q` -/
theorem rx_pieces (cfg : Cfg) (hst : cfg.isstream = false) (pc : Bool) (n : Nat) (rest : Bytes) :
    ∀ (l : List Piece) (k : Nat) (q : List Bytes) (rng : Nat), l ≠ [] → k + l.length = n → (k = 0 → q = []) →
      (∀ p ∈ l, PieceOk cfg p) →
      (cfg.recvmax = 0 ∨ (q.map List.length).sum + ((l.map (·.2.2)).map List.length).sum ≤ cfg.recvmax) →
      rx cfg (bd (decide (k ≠ 0)) q pc rng) (wireFrom (!cfg.server) n k l ++ rest) =
        ((rx cfg (bd false [] pc (pongRun cfg.server rng (l.flatMap (·.1))).2) rest).1,
         (pongRun cfg.server rng (l.flatMap (·.1))).1.map Ev.tx ++ (Ev.msg (q ++ l.map (·.2.2)).flatten ::
           (rx cfg (bd false [] pc (pongRun cfg.server rng (l.flatMap (·.1))).2) rest).2)) := by
  intro l
  induction l with
  | nil => intro _ _ _ h; exact absurd rfl h
  | cons p l ih =>
    intro k q rng _ hn hq hok hmax
    have hp := hok p (by simp)
    have hmax1 : cfg.recvmax = 0 ∨ p.2.2.length + (q.map List.length).sum ≤ cfg.recvmax := by
      rcases hmax with h | h
      · exact Or.inl h
      · right; simp at h; omega
    have hst0 : bd (decide (k ≠ 0)) q pc rng = bd (!decide (k = 0)) q pc rng := by
      by_cases h : k = 0 <;> simp [h]
    have hop0 : (if k = 0 then opBinary else opCont) = (if decide (k = 0) = true then opBinary else opCont) := by
      by_cases h : k = 0 <;> simp [h]
    rw [wireFrom_cons, hst0, hop0, List.append_assoc,
      rx_piece cfg hst (decide (k = 0)) (decide (k + 1 = n)) q pc (by simpa using hq) p hp hmax1 rng]
    by_cases hl : l = []
    · subst hl
      have hfin : k + 1 = n := by simpa using hn
      simp [hfin, wireFrom]
    · have hlen : l.length > 0 := List.length_pos_iff.mpr hl
      have hfin : ¬ k + 1 = n := by simp at hn; omega
      have hmax2 : cfg.recvmax = 0 ∨ ((q ++ [p.2.2]).map List.length).sum + ((l.map (·.2.2)).map List.length).sum ≤ cfg.recvmax := by
        rcases hmax with h | h
        · exact Or.inl h
        · right; simp at h ⊢; omega
      have ih' := ih (k + 1) (q ++ [p.2.2]) (pongRun cfg.server rng p.1).2 hl (by simp at hn; omega) (by omega)
        (fun p' h => hok p' (by simp [h])) hmax2
      have hk1 : decide (k + 1 ≠ 0) = true := by simp
      rw [hk1] at ih'
      simp only [hfin, decide_false, Bool.false_eq_true, if_false, List.nil_append]
      rw [ih']
      simp [pongRun_append]

/-- a frame-boundary state of an open connection with no message open is the canonical one -/
theorem eq_bd (s : St) (hb : Boundary s) (hc : s.closed = false) (him : s.inmsg = false) (hq : s.rxq = []) :
    s = bd false [] s.peerClosed s.rng := by
  obtain ⟨h1, h2, h3, h4⟩ := hb
  cases s
  simp only [bd] at *
  subst h1 h2 h3 h4 hc him hq
  rfl

theorem bd_rng (s : St) (hb : Boundary s) (hc : s.closed = false) (him : s.inmsg = false) (hq : s.rxq = []) (r : Nat) :
    bd false [] s.peerClosed r = { s with rng := r } := by
  obtain ⟨h1, h2, h3, h4⟩ := hb
  cases s
  simp only [bd] at *
  subst h1 h2 h3 h4 hc him hq
  rfl

/-- every PONG written is a conforming control frame of the receiver's role that echoes the PING's payload -/
theorem pongOf_echo (server : Bool) (rng : Nat) (payload : Bytes) (h : payload.length ≤ 125) :
    WsSpec.conforming (!server) (pongOf server rng payload).1 = true ∧
    ∃ f, WsSpec.parseFrame (pongOf server rng payload).1 = some (f, []) ∧ f.opcode = 10 ∧ f.fin = true ∧ f.payload = payload := by
  unfold pongOf
  cases server
  · have hk : (keyOf (nextRand rng)).length = 4 := by simp [keyOf]
    refine ⟨encode_conforming false _ opPong true payload (fun _ => hk) (by decide) (by omega) (fun _ => ⟨h, rfl⟩), ?_⟩
    have := parseFrame_encode false (keyOf (nextRand rng)) opPong true payload [] (fun _ => hk) (by omega)
    rw [List.append_nil] at this
    exact ⟨_, this, rfl, rfl, rfl⟩
  · refine ⟨encode_conforming true [] opPong true payload (fun h => by cases h) (by decide) (by omega) (fun _ => ⟨h, rfl⟩), ?_⟩
    have := parseFrame_encode true [] opPong true payload [] (fun h => by cases h) (by omega)
    rw [List.append_nil] at this
    exact ⟨_, this, rfl, rfl, rfl⟩

end Nng.Ws
