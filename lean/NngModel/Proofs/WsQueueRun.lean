/-
  Lemmas for Props/C16Queue.lean, part 2: event sequences of the queue model (message mode, no user close) against the
  always-posted frame-layer model run on the bytes consumed so far.
-/
import NngModel.Proofs.WsQueue
set_option linter.unusedSimpArgs false
namespace Nng.WsQ
open Nng Nng.Ws

/-! ### the frame-level functions do not touch the transport buffer or the consumed-bytes ghost -/

/-- `q'` has the transport fields of `q` -/
def SameIo (q q' : QSt) : Prop := q'.pend = q.pend ∧ q'.used = q.used

theorem SameIo.rfl' (q : QSt) : SameIo q q := ⟨rfl, rfl⟩
theorem SameIo.trans {a b c : QSt} (h1 : SameIo a b) (h2 : SameIo b c) : SameIo a c := ⟨h2.1.trans h1.1, h2.2.trans h1.2⟩

theorem io_qClose (cfg : Cfg) (q : QSt) (code : Nat) : SameIo q (qClose cfg q code).1 := by
  unfold qClose
  split
  · exact ⟨rfl, rfl⟩
  · split <;> exact ⟨rfl, rfl⟩

theorem io_qFail (cfg : Cfg) (q : QSt) (code : Nat) : SameIo q (qFail cfg q code).1 := by
  have := io_qClose cfg q code
  unfold qFail; exact ⟨this.1, this.2⟩

theorem io_qSendControl (cfg : Cfg) (q : QSt) (op : Nat) (p : Bytes) : SameIo q (qSendControl cfg q op p).1 := by
  unfold qSendControl
  split
  · exact ⟨rfl, rfl⟩
  · split <;> exact ⟨rfl, rfl⟩

theorem io_qStartRead (q : QSt) : SameIo q (qStartRead q) := by
  unfold qStartRead
  split
  · exact ⟨rfl, rfl⟩
  · split <;> exact ⟨rfl, rfl⟩

theorem io_qReadFinishMsg (q : QSt) : SameIo q (qReadFinishMsg q).1 := by
  unfold qReadFinishMsg
  split
  · exact ⟨rfl, rfl⟩
  · split <;> exact ⟨rfl, rfl⟩

theorem io_qReadFinishStrLoop (fuel : Nat) (q : QSt) : SameIo q (qReadFinishStrLoop fuel q).1 := by
  induction fuel generalizing q with
  | zero => exact ⟨rfl, rfl⟩
  | succ n ih =>
    unfold qReadFinishStrLoop
    split
    · exact ⟨rfl, rfl⟩
    · split
      · exact ⟨rfl, rfl⟩
      · split
        · exact SameIo.trans ⟨rfl, rfl⟩ (ih _)
        · exact SameIo.trans (b := { q with recvq := _, frees := _, w := _ }) ⟨rfl, rfl⟩ (ih _)

theorem io_qReadFinish (cfg : Cfg) (q : QSt) : SameIo q (qReadFinish cfg q).1 := by
  unfold qReadFinish qReadFinishStr
  split
  · exact io_qReadFinishStrLoop _ q
  · exact io_qReadFinishMsg q

theorem io_qFinishAndRestart (cfg : Cfg) (q : QSt) (o : List Out) : SameIo q (qFinishAndRestart cfg q o).1 := by
  unfold qFinishAndRestart
  exact SameIo.trans (io_qReadFinish cfg q) (io_qStartRead _)

theorem io_qDataFrame (cfg : Cfg) (q : QSt) (f : RxFrame) (p : Bytes) : SameIo q (qDataFrame cfg q f p).1 := by
  unfold qDataFrame
  split
  · exact io_qFail cfg q _
  · exact SameIo.trans (b := qAppend q (!f.final) p) ⟨rfl, rfl⟩ (io_qFinishAndRestart cfg _ _)

theorem io_qFrameCb (cfg : Cfg) (q : QSt) (f : RxFrame) (p : Bytes) : SameIo q (qFrameCb cfg q f p).1 := by
  unfold qFrameCb
  split
  · split
    · exact io_qFail cfg q _
    · exact SameIo.trans (b := qAppend q _ p) ⟨rfl, rfl⟩ (io_qFinishAndRestart cfg _ _)
  · split
    · split
      · exact io_qFail cfg q _
      · exact io_qDataFrame cfg q f p
    · split
      · exact io_qDataFrame cfg q f p
      · split
        · split
          · exact io_qFail cfg q _
          · exact SameIo.trans (io_qSendControl cfg q opPong p)
              (SameIo.trans (b := qDrop (qSendControl cfg q opPong p).1) ⟨rfl, rfl⟩ (io_qFinishAndRestart cfg _ _))
        · split
          · split
            · exact io_qFail cfg q _
            · exact SameIo.trans (b := qDrop q) ⟨rfl, rfl⟩ (io_qFinishAndRestart cfg _ _)
          · split
            · split
              · exact ⟨rfl, rfl⟩
              · exact SameIo.trans (b := { q with w := { q.w with peerClosed := true } }) ⟨rfl, rfl⟩ (io_qFail cfg _ _)
            · exact io_qFail cfg q _

theorem io_qAcceptHdr (cfg : Cfg) (q : QSt) (f0 : RxFrame) : SameIo q (qAcceptHdr cfg q f0).1 := by
  unfold qAcceptHdr qComplete
  simp only []
  split
  · split
    · exact io_qFail cfg q _
    · exact ⟨rfl, rfl⟩
  · exact io_qFrameCb cfg q _ _

theorem io_qChecks (cfg : Cfg) (q : QSt) (f0 : RxFrame) : SameIo q (qChecks cfg q f0).1 := by
  unfold qChecks
  repeat' split
  all_goals first | exact io_qFail cfg q _ | exact io_qAcceptHdr cfg q f0

theorem io_qHeadCb (cfg : Cfg) (q : QSt) (b0 b1 : UInt8) : SameIo q (qHeadCb cfg q b0 b1).1 := by
  unfold qHeadCb
  simp only []
  generalize (2 + (if decide (b1.toNat ≥ 128) = true then 4 else 0) +
    (if b1.toNat % 128 = 127 then 8 else if b1.toNat % 128 = 126 then 2 else 0)) = hl
  by_cases hne : hl ≠ 2
  · rw [if_pos hne]; exact ⟨rfl, rfl⟩
  · rw [if_neg hne]; exact io_qChecks cfg q _

theorem io_qReadCb (cfg : Cfg) (q : QSt) (bytes : Bytes) : SameIo q (qReadCb cfg q bytes).1 := by
  unfold qReadCb
  split
  · exact SameIo.trans (b := qIdle q) ⟨rfl, rfl⟩ (io_qHeadCb cfg _ _ _)
  · exact SameIo.trans (b := qIdle q) ⟨rfl, rfl⟩ (io_qChecks cfg _ _)
  · exact SameIo.trans (b := qIdle q) ⟨rfl, rfl⟩ (io_qFrameCb cfg _ _ _)
  · exact ⟨rfl, rfl⟩

end Nng.WsQ

namespace Nng.WsQ
open Nng Nng.Ws

/-- the queue state and its outputs so far agree with the always-posted model run on the consumed bytes -/
structure Good (cfg : Cfg) (q : QSt) (O : List Out) : Prop where
  inv : Inv q
  st : (rx cfg {} q.used).1 = absW q
  msgs : msgsOf (rx cfg {} q.used).2 = delivered O ++ held q
  tx : txOf (rx cfg {} q.used).2 = txOfQ O

/-- the transport has nothing more to hand over -/
def Quiet (q : QSt) : Prop := q.w.want = 0 ∨ q.pend.length < q.w.want

theorem absW_reading (q : QSt) (hi : Inv q) (hw : q.w.want ≠ 0) : absW q = q.w := by
  have hcur : q.w.inmsg = false → q.w.rxq = [] := by
    intro him
    cases hq : q.w.rxq with
    | nil => rfl
    | cons x xs => exact absurd (hi.heldPaused him (by simp [hq])).2 hw
  have hg := hi.got
  have ha := hi.acc
  unfold absW
  cases hw' : q.w with
  | mk phase want got accR inmsg rxq closed peerClosed rng =>
    simp only [hw'] at hw hcur hg ha
    cases inmsg <;> simp_all

theorem held_reading (q : QSt) (hi : Inv q) (hw : q.w.want ≠ 0) : held q = [] := by
  unfold held
  split
  · rename_i h; exact absurd (hi.heldPaused h.1 h.2).2 hw
  · rfl

theorem Inv_io (q q' : QSt) (hw : q'.w = q.w) (hr : q'.recvq = q.recvq) (hf : q'.rxframe = q.rxframe) (hi : Inv q) : Inv q' := by
  constructor <;> (first | rw [hw] | skip) <;> (first | rw [hr] | skip) <;> (first | rw [hf] | skip)
  · exact hi.got
  · exact hi.acc
  · exact hi.rdframe
  · exact hi.framerd
  · exact hi.closedIdle
  · exact hi.heldPaused
  · exact hi.waitReads
  · exact hi.rdphase
  · exact hi.closedCur

theorem rx_nil (cfg : Cfg) (s : St) : rx cfg s [] = (s, []) := rfl

/-- one completed read -/
theorem good_cb (cfg : Cfg) (hst : cfg.isstream = false) (q : QSt) (O : List Out) (hg : Good cfg q O)
    (hw : q.w.want ≠ 0) (hl : q.w.want ≤ q.pend.length) :
    Good cfg (qReadCb cfg { q with pend := q.pend.drop q.w.want, used := q.used ++ q.pend.take q.w.want } (q.pend.take q.w.want)).1
      (O ++ (qReadCb cfg { q with pend := q.pend.drop q.w.want, used := q.used ++ q.pend.take q.w.want } (q.pend.take q.w.want)).2) := by
  generalize hq' : ({ q with pend := q.pend.drop q.w.want, used := q.used ++ q.pend.take q.w.want } : QSt) = q'
  have hw' : q'.w = q.w := by rw [← hq']
  have hI' : Inv q' := Inv_io q q' hw' (by rw [← hq']) (by rw [← hq']) hg.inv
  have hR := R_readCb cfg hst q' hI' (by rw [hw']; exact hw) (q.pend.take q.w.want)
  have hio := io_qReadCb cfg q' (q.pend.take q.w.want)
  have hlen : (q.pend.take q.w.want).length = q.w.want := by simp [List.length_take]; omega
  have hne : q.pend.take q.w.want ≠ [] := by
    intro h; rw [h] at hlen; simp at hlen; exact hw hlen.symm
  have hab : absW q = q.w := absW_reading q hg.inv hw
  have hrx : rx cfg {} (q.used ++ q.pend.take q.w.want) =
      ((readCb cfg q.w (q.pend.take q.w.want)).1, (rx cfg {} q.used).2 ++ (readCb cfg q.w (q.pend.take q.w.want)).2) := by
    rw [rx_append, hg.st, hab]
    have := rx_exact cfg q.w (q.pend.take q.w.want) [] hne hlen.symm hg.inv.got hg.inv.acc
    rw [List.append_nil] at this
    rw [this]
    simp [rx_nil]
  have hused : (qReadCb cfg q' (q.pend.take q.w.want)).1.used = q.used ++ q.pend.take q.w.want := by
    rw [hio.2, ← hq']
  rw [hw'] at hR
  refine ⟨hR.inv, ?_, ?_, ?_⟩
  · rw [hused, hrx]; exact hR.st
  · rw [hused, hrx]
    simp only [msgsOf_append, delivered_append, hg.msgs, hR.msgs, held_reading q hg.inv hw, List.append_nil, List.append_assoc]
  · rw [hused, hrx]
    simp only [txOf_append, txOfQ_append, hg.tx, hR.tx]

end Nng.WsQ

namespace Nng.WsQ
open Nng Nng.Ws

theorem good_pump (cfg : Cfg) (hst : cfg.isstream = false) : ∀ (fuel : Nat) (q : QSt) (O : List Out), Good cfg q O →
    Good cfg (pump cfg fuel q).1 (O ++ (pump cfg fuel q).2) ∧
    (pump cfg fuel q).1.used ++ (pump cfg fuel q).1.pend = q.used ++ q.pend ∧
    (q.pend.length < fuel → Quiet (pump cfg fuel q).1) := by
  intro fuel
  induction fuel with
  | zero =>
    intro q O hg
    refine ⟨by simpa [pump] using hg, rfl, ?_⟩
    intro h; omega
  | succ n ih =>
    intro q O hg
    unfold pump
    by_cases hstop : q.w.want = 0 ∨ q.pend.length < q.w.want
    · rw [if_pos hstop]
      exact ⟨by simpa using hg, rfl, fun _ => hstop⟩
    · rw [if_neg hstop]
      have hw : q.w.want ≠ 0 := fun h => hstop (Or.inl h)
      have hl : q.w.want ≤ q.pend.length := by
        rcases Nat.lt_or_ge q.pend.length q.w.want with h | h
        · exact absurd (Or.inr h) hstop
        · exact h
      have hcb := good_cb cfg hst q O hg hw hl
      have hio := io_qReadCb cfg { q with pend := q.pend.drop q.w.want, used := q.used ++ q.pend.take q.w.want } (q.pend.take q.w.want)
      obtain ⟨h1, h2, h3⟩ := ih _ _ hcb
      simp only []
      refine ⟨?_, ?_, ?_⟩
      · simpa [List.append_assoc] using h1
      · rw [h2, hio.1, hio.2]
        simp [List.append_assoc]
      · intro hf
        apply h3
        rw [hio.1]
        simp only [List.length_drop]
        omega

end Nng.WsQ

namespace Nng.WsQ
open Nng Nng.Ws

/-- what a step that consumes no bytes must preserve -/
structure Still (q : QSt) (q2 : QSt) (o : List Out) : Prop where
  inv : Inv q2
  abs : absW q2 = absW q
  msgs : delivered o ++ held q2 = held q
  tx : txOfQ o = []
  io : SameIo q q2

theorem good_still (cfg : Cfg) (q q2 : QSt) (O o : List Out) (hg : Good cfg q O) (h : Still q q2 o) : Good cfg q2 (O ++ o) := by
  refine ⟨h.inv, ?_, ?_, ?_⟩
  · rw [h.io.2, hg.st, h.abs]
  · rw [h.io.2, hg.msgs, delivered_append, List.append_assoc, h.msgs]
  · rw [h.io.2, hg.tx, txOfQ_append, h.tx, List.append_nil]

theorem still_recv (cfg : Cfg) (hst : cfg.isstream = false) (q : QSt) (hi : Inv q) (r : Rcv) :
    Still q (qRecv cfg q r).1 (qRecv cfg q r).2 := by
  unfold qRecv qReadFinish
  simp only [hst, Bool.false_eq_true, if_false]
  cases hr : q.recvq with
  | nil =>
    simp only [List.isEmpty_nil, if_true, List.nil_append]
    unfold qReadFinishMsg
    simp only []
    cases him : q.w.inmsg <;> cases hq : q.w.rxq <;> cases hc : q.w.closed <;> cases hf : q.rxframe <;>
      (have h1 := hi.got; have h2 := hi.acc; have h3 := hi.rdframe; have h4 := hi.framerd; have h5 := hi.closedIdle
       have h6 := hi.heldPaused; have h7 := hi.waitReads; have h8 := hi.rdphase
       refine ⟨?_, ?_, ?_, ?_, ?_⟩
       · constructor <;> simp_all [qStartRead]
       · simp_all [absW, qStartRead]
       · simp_all [delivered, held, qStartRead, closeErr]
       · simp_all [txOfQ]
       · simp_all [SameIo, qStartRead])
  | cons x xs =>
    have hc : q.w.closed = false := by
      cases hcl : q.w.closed
      · rfl
      · have := (hi.closedIdle hcl).1; simp [hr] at this
    have hw : q.w.want ≠ 0 := hi.waitReads hc (by simp [hr])
    have hf : q.rxframe = true := hi.rdframe hw
    simp only [List.isEmpty_cons, Bool.false_eq_true, if_false, hc, Bool.false_and]
    have h1 := hi.got; have h2 := hi.acc; have h3 := hi.rdframe; have h4 := hi.framerd; have h5 := hi.closedIdle
    have h6 := hi.heldPaused; have h7 := hi.waitReads; have h8 := hi.rdphase
    refine ⟨?_, ?_, ?_, ?_, ?_⟩
    · constructor <;> simp_all [qStartRead]
    · simp_all [absW, qStartRead]
    · simp_all [delivered, held, qStartRead]
    · simp_all [txOfQ]
    · simp_all [SameIo, qStartRead]

end Nng.WsQ

namespace Nng.WsQ
open Nng Nng.Ws

theorem filter_ne_nil {α} (p : α → Bool) (l : List α) (h : l.filter p ≠ []) : l ≠ [] := by
  intro hl; rw [hl] at h; exact h rfl

theorem still_cancel (q : QSt) (hi : Inv q) (id rv : Nat) (hrv : rv ≠ 0) :
    Still q (qCancel q id rv).1 (qCancel q id rv).2 := by
  unfold qCancel
  split
  · refine ⟨?_, rfl, ?_, rfl, ⟨rfl, rfl⟩⟩
    · refine ⟨hi.got, hi.acc, hi.rdframe, hi.framerd, ?_, ?_, ?_, hi.rdphase, hi.closedCur⟩
      · intro hc; have := hi.closedIdle hc; exact ⟨by simp [this.1], this.2⟩
      · intro a b; have := hi.heldPaused a b; exact ⟨by simp [this.1], this.2⟩
      · intro a b; exact hi.waitReads a (filter_ne_nil _ _ b)
    · cases rv with
      | zero => exact absurd rfl hrv
      | succ n => simp [delivered, held]
  · exact ⟨hi, rfl, by simp [delivered], rfl, ⟨rfl, rfl⟩⟩

/-- the events of an interleaving the simulation covers: no user close, cancellations carry an error code -/
def QEv.plain : QEv → Prop
  | .close => False
  | .cancel _ rv => rv ≠ 0
  | _ => True

theorem Good_pend (cfg : Cfg) (q : QSt) (O : List Out) (p : Bytes) (hg : Good cfg q O) : Good cfg { q with pend := p } O :=
  ⟨Inv_io q _ rfl rfl rfl hg.inv, hg.st, hg.msgs, hg.tx⟩

theorem good_step (cfg : Cfg) (hst : cfg.isstream = false) (q : QSt) (O : List Out) (hg : Good cfg q O) (hq : Quiet q)
    (e : QEv) (he : e.plain) :
    Good cfg (step cfg q e).1 (O ++ (step cfg q e).2) ∧ Quiet (step cfg q e).1 ∧
    (step cfg q e).1.used ++ (step cfg q e).1.pend = q.used ++ q.pend ++ streamOf [e] := by
  cases e with
  | bytes bs =>
    simp only [step, streamOf, List.append_nil]
    obtain ⟨h1, h2, h3⟩ := good_pump cfg hst (q.pend.length + bs.length + 1) { q with pend := q.pend ++ bs } O (Good_pend cfg q O _ hg)
    refine ⟨h1, h3 (by simp), ?_⟩
    rw [h2]; simp [List.append_assoc]
  | post id cap =>
    simp only [step, streamOf, List.append_nil]
    have hs := still_recv cfg hst q hg.inv { id := id, cap := cap }
    have hg2 := good_still cfg q _ O _ hg hs
    obtain ⟨h1, h2, h3⟩ := good_pump cfg hst ((qRecv cfg q { id := id, cap := cap }).1.pend.length + 1) _ _ hg2
    refine ⟨by simpa [List.append_assoc] using h1, h3 (by omega), ?_⟩
    rw [h2, hs.io.1, hs.io.2]
  | cancel id rv =>
    simp only [step, streamOf, List.append_nil]
    have hs := still_cancel q hg.inv id rv he
    refine ⟨good_still cfg q _ O _ hg hs, ?_, by rw [hs.io.1, hs.io.2]⟩
    have hw : (qCancel q id rv).1.w = q.w := by unfold qCancel; split <;> rfl
    unfold Quiet; rw [hw, hs.io.1]; exact hq
  | close => exact absurd he (by simp [QEv.plain])

theorem good_init (cfg : Cfg) : Good cfg init [] := by
  refine ⟨?_, rfl, rfl, rfl⟩
  constructor <;> simp [init]

theorem streamOf_append (a b : List QEv) : streamOf (a ++ b) = streamOf a ++ streamOf b := by
  induction a with
  | nil => rfl
  | cons x xs ih => cases x <;> simp [streamOf, ih]

theorem good_run (cfg : Cfg) (hst : cfg.isstream = false) : ∀ (evs : List QEv) (q : QSt) (O : List Out),
    Good cfg q O → Quiet q → (∀ e ∈ evs, e.plain) →
    Good cfg (run cfg q evs).1 (O ++ (run cfg q evs).2) ∧ Quiet (run cfg q evs).1 ∧
    (run cfg q evs).1.used ++ (run cfg q evs).1.pend = q.used ++ q.pend ++ streamOf evs := by
  intro evs
  induction evs with
  | nil => intro q O hg hq _; exact ⟨by simpa [run] using hg, hq, by simp [run, streamOf]⟩
  | cons e es ih =>
    intro q O hg hq hp
    obtain ⟨h1, h2, h3⟩ := good_step cfg hst q O hg hq e (hp e (by simp))
    obtain ⟨k1, k2, k3⟩ := ih _ _ h1 h2 (fun x hx => hp x (by simp [hx]))
    simp only [run]
    refine ⟨by simpa [List.append_assoc] using k1, k2, ?_⟩
    rw [k3, h3]
    have : streamOf (e :: es) = streamOf [e] ++ streamOf es := by
      have := streamOf_append [e] es; simpa using this
    rw [this]; simp [List.append_assoc]

end Nng.WsQ

namespace Nng.WsQ
open Nng Nng.Ws

/-- fewer bytes than the outstanding read wants: the frame layer only accumulates -/
theorem rx_short (cfg : Cfg) : ∀ (bs : Bytes) (s : St), s.want ≠ 0 → s.got + bs.length < s.want → (rx cfg s bs).2 = [] := by
  intro bs
  induction bs with
  | nil => intro s _ _; rfl
  | cons b bs ih =>
    intro s h0 hl
    simp only [List.length_cons] at hl
    rw [rx_cons, rxByte_acc cfg s b h0 (by omega)]
    simp only [List.nil_append]
    exact ih _ h0 (by simp only []; omega)

/-- the messages of the whole stream, split at what the queue model has consumed -/
theorem good_final (cfg : Cfg) (q : QSt) (O : List Out) (stream : Bytes) (hg : Good cfg q O) (hq : Quiet q)
    (hs : q.used ++ q.pend = stream) :
    msgsOf (rx cfg {} stream).2 = delivered O ++ held q ++ msgsOf (rx cfg (absW q) q.pend).2 ∧
    ((q.w.want ≠ 0 ∨ q.w.closed = true) → msgsOf (rx cfg (absW q) q.pend).2 = []) := by
  constructor
  · rw [← hs, rx_append, hg.st]
    simp only [msgsOf_append, hg.msgs]
  · intro h
    rcases h with h | h
    · rw [absW_reading q hg.inv h]
      rcases hq with hq | hq
      · exact absurd hq h
      · rw [rx_short cfg q.pend q.w h (by rw [hg.inv.got]; omega)]; rfl
    · have hw := (hg.inv.closedIdle h).2
      have : (absW q).want = 0 := by simp [absW, hw, h]
      rw [rx_idle cfg _ this]; rfl

end Nng.WsQ
