/- the safety invariant of the poller-layer model under the contract (Model/Pfd.lean `respects`):
   mutual exclusion of the sections, no arm after close, the stop / reap handshake, nothing after
   fini / free - and with it the flags `late`, `uaf`, `badfd`, `regAtClose` stay false -/
import NngModel.Proofs.PfdInvP
namespace Nng.Pfd
open Nng.PfdSpec

def Frame.isArm : Frame → Bool
  | .armCtl _ _ _ => true
  | _ => false

/-- the poller holds an undelivered event of the pfd or is inside the callback -/
def pfdBusy (p : Poller) : Prop := 0 < pfdCount p ∨ p.pc = .inCb

structure KInv (s : State) : Prop where
  sec : ∀ t, (frameOf s t).inSection = true → s.g.sect = some t
  noArm : s.g.closeStarted = true → ∀ t, (frameOf s t).isArm = false
  mid : s.g.closing = true → s.g.closeDone = false →
    ∃ t, s.g.sect = some t ∧ (frameOf s t = .closeShut ∨ frameOf s t = .closeDel)
  cdone : s.g.closeDone = true → s.g.closing = true ∧ s.g.closeStarted = true ∧ s.g.reg = false
  clFr : ∀ t, (frameOf s t = .closeShut ∨ frameOf s t = .closeDel) → s.g.closing = true ∧ s.g.closeStarted = true
  scFr : ∀ t, frameOf s t = .stopClose → s.g.closeStarted = true
  stopF : ∀ t, (frameOf s t = .stopLock ∨ frameOf s t = .stopWrite ∨ frameOf s t = .stopSleep ∨ frameOf s t = .stopChk) →
    s.g.closeDone = true
  stopOp : ∀ t, frameOf s t ≠ .idle → opOf s t = some .stop → s.g.stopped = true
  stopFr : ∀ t, (frameOf s t = .stopClose ∨ frameOf s t = .stopLock ∨ frameOf s t = .stopWrite ∨ frameOf s t = .stopSleep ∨
    frameOf s t = .stopChk) → opOf s t = some .stop
  chk : ∀ t, frameOf s t = .stopChk → s.g.onReap = true ∨ ¬pfdBusy s.p
  syn : s.g.synced = true → ¬pfdBusy s.p ∧ s.g.closeDone = true ∧ s.g.stopped = true
  fin : s.g.finiDone = true → s.g.synced = true ∧ (∀ t, frameOf s t = .idle) ∧ s.g.onReap = false
  freed : s.g.freed = true → s.g.finiDone = true
  pOp : frameOf s .p ≠ .idle → opOf s .p ≠ some .stop
  flags : s.g.late = false ∧ s.g.uaf = false ∧ s.g.badfd = false ∧ s.g.regAtClose = false
  cac : s.g.closeDone = true → s.g.cbAfterClose + pfdCount s.p ≤ 1
  armW : ∀ t e r w, frameOf s t = .armCtl e r w → s.g.events.subset e = true ∧ w = s.g.added
  cov : s.g.reg = true → (∀ t, (frameOf s t).isArm = false) → s.g.events.subset s.g.mask = true

theorem frameOf_init (progs scripts : List (List Op)) (t : Tid) : frameOf (init progs scripts) t = .idle := by
  cases t with
  | p => rfl
  | c i =>
    simp only [frameOf, init]
    cases h : (List.map (fun p => ({ frame := .idle, prog := p, res := [] } : Client)) progs)[i]? with
    | none => rfl
    | some c =>
      simp only [List.getElem?_map, Option.map_eq_some_iff] at h
      obtain ⟨_, _, rfl⟩ := h
      rfl

theorem kinv_init (progs scripts : List (List Op)) : KInv (init progs scripts) := by
  have hfr := frameOf_init progs scripts
  constructor <;> (try simp only [hfr]) <;>
    simp [init, G.init, pfdCount, pfdBusy, Evs.none_isEmpty, opOf, Frame.inSection, Frame.isArm, Evs.none_subset]

theorem quiet_frames {s : State} (h : s.quiet = true) (t : Tid) : frameOf s t = .idle := by
  simp only [State.quiet, Bool.and_eq_true, List.all_eq_true, beq_iff_eq] at h
  cases t with
  | p => exact h.2
  | c i =>
    simp only [frameOf]
    cases hc : s.cs[i]? with
    | none => rfl
    | some c => exact h.1 c (List.mem_of_getElem? hc)

end Nng.Pfd
