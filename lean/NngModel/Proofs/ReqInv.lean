/-
  Inductive invariant of the REQ model relating the id map, the contexts' request ids, the
  "handed to a pipe" ghost flag and the log of accepted replies; preserved by every step.
-/
import NngModel.Model.Req
import NngModel.Generated.C04REQ
namespace Nng.Req
open Nng Nng.Proto

/-- the part of the invariant that may be broken for context `x` in the middle of a callback
    (`x = none`: holds for every context) -/
structure InvX (x : Option Nat) (s : State) : Prop where
  map_ctx : ∀ iid k, s.idmap iid = some k → (s.ctx k).requestId = iid ∧ iid ≤ s.nalloc ∧ iid ≠ 0
  ctx_map : ∀ k, (s.ctx k).requestId ≠ 0 → s.idmap (s.ctx k).requestId = some k
  acc_gone : ∀ iid, iid ∈ s.accepted → s.idmap iid = none ∧ iid ≤ s.nalloc
  acc_nodup : s.accepted.Nodup
  wired : ∀ k, some k ≠ x → (s.ctx k).requestId ≠ 0 → (s.ctx k).sendAio = none → (s.ctx k).wired = true
  dead : ∀ k, (s.ctx k).live = false → (s.ctx k).requestId = 0

abbrev Inv (s : State) : Prop := InvX none s

theorem InvX.weaken {x : Option Nat} {s : State} (h : Inv s) : InvX x s :=
  { h with wired := fun k _ => h.wired k (by simp) }

/-- a state change that leaves the id map, the counters and the relevant context fields alone -/
def SameCore (s t : State) : Prop :=
  t.idmap = s.idmap ∧ t.nalloc = s.nalloc ∧ t.accepted = s.accepted ∧
  ∀ k, (t.ctx k).requestId = (s.ctx k).requestId ∧ (t.ctx k).sendAio = (s.ctx k).sendAio ∧
       (t.ctx k).wired = (s.ctx k).wired ∧ (t.ctx k).live = (s.ctx k).live

theorem SameCore.refl (s : State) : SameCore s s := ⟨rfl, rfl, rfl, fun _ => ⟨rfl, rfl, rfl, rfl⟩⟩

theorem SameCore.trans {a b c : State} (h1 : SameCore a b) (h2 : SameCore b c) : SameCore a c := by
  obtain ⟨i1, n1, a1, c1⟩ := h1
  obtain ⟨i2, n2, a2, c2⟩ := h2
  refine ⟨by rw [i2, i1], by rw [n2, n1], by rw [a2, a1], fun k => ?_⟩
  obtain ⟨r1, s1, w1, l1⟩ := c1 k
  obtain ⟨r2, s2, w2, l2⟩ := c2 k
  exact ⟨by rw [r2, r1], by rw [s2, s1], by rw [w2, w1], by rw [l2, l1]⟩

theorem InvX.same {x : Option Nat} {s t : State} (h : InvX x s) (e : SameCore s t) : InvX x t := by
  obtain ⟨ei, en, ea, ec⟩ := e
  constructor
  · intro iid k hk
    rw [ei] at hk
    have := h.map_ctx iid k hk
    rw [(ec k).1, en]; exact this
  · intro k hk
    rw [(ec k).1] at hk ⊢
    rw [ei]; exact h.ctx_map k hk
  · intro iid hi
    rw [ea] at hi
    rw [ei, en]; exact h.acc_gone iid hi
  · rw [ea]; exact h.acc_nodup
  · intro k hx h1 h2
    rw [(ec k).1] at h1
    rw [(ec k).2.1] at h2
    rw [(ec k).2.2.1]; exact h.wired k hx h1 h2
  · intro k hl
    rw [(ec k).2.2.2] at hl
    rw [(ec k).1]; exact h.dead k hl


theorem same_flag (s : State) (m : String) : SameCore s (flag s m) := by
  unfold flag; split <;> exact ⟨rfl, rfl, rfl, fun _ => ⟨rfl, rfl, rfl, rfl⟩⟩

theorem same_setMsg (s : State) (h : Nat) (m : MsgObj) : SameCore s (setMsg s h m) :=
  ⟨rfl, rfl, rfl, fun _ => ⟨rfl, rfl, rfl, rfl⟩⟩

theorem same_setPipe (s : State) (p : Nat) (pp : Pipe) : SameCore s (setPipe s p pp) :=
  ⟨rfl, rfl, rfl, fun _ => ⟨rfl, rfl, rfl, rfl⟩⟩

theorem same_ctxRelease (s : State) (h : Nat) : SameCore s (ctxRelease s h) := by
  unfold ctxRelease; dsimp only; split
  · exact same_setMsg ..
  · exact same_flag ..

theorem same_giveBack (s : State) (h : Nat) : SameCore s (giveBack s h) := by
  unfold giveBack; dsimp only; split
  · exact same_setMsg ..
  · exact same_flag ..

theorem same_tranClone (s : State) (h : Nat) : SameCore s (tranClone s h) := by
  unfold tranClone; dsimp only; split
  · exact same_setMsg ..
  · exact same_flag ..

theorem same_tranRelease (s : State) (h : Nat) : SameCore s (tranRelease s h) := by
  unfold tranRelease; dsimp only; split
  · exact same_setMsg ..
  · exact same_flag ..

theorem same_armTick (s : State) : SameCore s (armTick s) := by
  unfold armTick; split <;> exact ⟨rfl, rfl, rfl, fun _ => ⟨rfl, rfl, rfl, rfl⟩⟩

theorem same_wireIndex (s : State) (i : Nat) : SameCore s (wireIndex s i).1 := by
  unfold wireIndex; split <;> exact ⟨rfl, rfl, rfl, fun _ => ⟨rfl, rfl, rfl, rfl⟩⟩

/-- updating a context without touching the fields the invariant talks about -/
theorem same_setCtx (s : State) (k : Nat) (c : Ctx)
    (h : c.requestId = (s.ctx k).requestId ∧ c.sendAio = (s.ctx k).sendAio ∧ c.wired = (s.ctx k).wired ∧ c.live = (s.ctx k).live) :
    SameCore s (setCtx s k c) := by
  refine ⟨rfl, rfl, rfl, fun k' => ?_⟩
  by_cases e : k' = k
  · subst e; simp [setCtx, h]
  · simp [setCtx, e]

/-! ### req0_run_send_queue -/

theorem same_sendPrep (s : State) (k p : Nat) (r : Int) : SameCore s (sendPrep s k p r) := by
  unfold sendPrep
  dsimp only
  split <;> split <;> exact ⟨rfl, rfl, rfl, fun _ => ⟨rfl, rfl, rfl, rfl⟩⟩

/-- a context whose request goes on the wire: send aio cleared, `wired` raised -/
theorem inv_setCtx_wired {x : Option Nat} {s : State} (h : InvX x s) (k : Nat) (c : Ctx)
    (hr : c.requestId = (s.ctx k).requestId) (hl : c.live = (s.ctx k).live) (hw : c.wired = true) :
    InvX x (setCtx s k c) := by
  constructor
  · intro iid k' hk
    have := h.map_ctx iid k' hk
    by_cases e : k' = k
    · subst e; simpa [setCtx, hr] using this
    · simpa [setCtx, e] using this
  · intro k' hk
    by_cases e : k' = k
    · subst e
      simp only [setCtx, upd_same] at hk ⊢
      rw [hr] at hk ⊢; exact h.ctx_map k' hk
    · simp only [setCtx, upd_other _ _ _ _ e] at hk ⊢
      exact h.ctx_map k' hk
  · exact h.acc_gone
  · exact h.acc_nodup
  · intro k' hx h1 h2
    by_cases e : k' = k
    · subst e; simpa [setCtx] using hw
    · simp only [setCtx, upd_other _ _ _ _ e] at h1 h2 ⊢
      exact h.wired k' hx h1 h2
  · intro k' hd
    by_cases e : k' = k
    · subst e
      simp only [setCtx, upd_same] at hd ⊢
      rw [hl] at hd; rw [hr]; exact h.dead k' hd
    · simp only [setCtx, upd_other _ _ _ _ e] at hd ⊢
      exact h.dead k' hd

theorem inv_sendOne {x : Option Nat} {s : State} (h : InvX x s) (k p : Nat) : InvX x (sendOne s k p).1 := by
  unfold sendOne
  dsimp only
  split
  · exact h.same ((same_sendPrep ..).trans (same_flag ..))
  · rename_i hh _
    have e3 : SameCore s (wireIndex (setPipe (tranClone (sendPrep s k p (s.ctx k).retry) hh) p
        { (tranClone (sendPrep s k p (s.ctx k).retry) hh).pipe p with busy := some hh }) (s.ctx k).requestId).1 :=
      (((same_sendPrep ..).trans (same_tranClone ..)).trans (same_setPipe ..)).trans (same_wireIndex ..)
    have h3 := h.same e3
    have := inv_setCtx_wired h3 k { s.ctx k with sendAio := none, wired := true, wireCount := (s.ctx k).wireCount + 1 }
      (by simp [(e3.2.2.2 k).1]) (by simp [(e3.2.2.2 k).2.2.2]) rfl
    exact this.same ⟨rfl, rfl, rfl, fun _ => ⟨rfl, rfl, rfl, rfl⟩⟩

theorem inv_runQ {x : Option Nat} (fuel : Nat) {s : State} (h : InvX x s) : InvX x (runQ fuel s).1 := by
  induction fuel generalizing s with
  | zero => exact h
  | succ n ih =>
    unfold runQ
    split
    · exact ih (inv_sendOne h _ _)
    · exact h

theorem inv_runSendQueue {x : Option Nat} {s : State} (h : InvX x s) : InvX x (runSendQueue s).1 :=
  inv_runQ _ h

/-! ### req0_ctx_reset -/

theorem ctxReset_shape (s : State) (k : Nat) :
    (ctxReset s k).nalloc = s.nalloc ∧ (ctxReset s k).accepted = s.accepted ∧
    (ctxReset s k).idmap = (if (s.ctx k).requestId != 0 then upd s.idmap (s.ctx k).requestId none else s.idmap) ∧
    (∀ k', k' ≠ k → (ctxReset s k).ctx k' = s.ctx k') ∧
    (ctxReset s k).ctx k = { s.ctx k with requestId := 0, reqMsg := none, repMsg := none, connReset := false,
                                          wired := false, wireCount := 0, everRetry := false } := by
  unfold ctxReset
  dsimp only
  cases hm : (s.ctx k).reqMsg with
  | none =>
    dsimp only
    refine ⟨?_, ?_, ?_, ?_, ?_⟩ <;> (try intro k' hk') <;> split <;> split <;> simp_all [setCtx]
  | some h =>
    dsimp only
    refine ⟨?_, ?_, ?_, ?_, ?_⟩ <;> (try intro k' hk') <;> simp only [setCtx, ctxRelease, setMsg, flag] <;> (repeat' split) <;> simp_all


theorem inv_ctxReset {s : State} (k : Nat) (h : InvX (some k) s) : Inv (ctxReset s k) := by
  obtain ⟨hn, ha, hi, ho, hk⟩ := ctxReset_shape s k
  constructor
  · intro iid k' hm
    rw [hi] at hm
    have hm' : s.idmap iid = some k' ∧ ((s.ctx k).requestId = 0 ∨ iid ≠ (s.ctx k).requestId) := by
      by_cases e : (s.ctx k).requestId = 0
      · simp [e] at hm; exact ⟨hm, Or.inl e⟩
      · by_cases e2 : iid = (s.ctx k).requestId
        · subst e2; simp [e] at hm
        · simp [e, upd, e2] at hm; exact ⟨hm, Or.inr e2⟩
    obtain ⟨h1, h2, h3⟩ := h.map_ctx iid k' hm'.1
    have hkk : k' ≠ k := by
      intro e; subst e
      rcases hm'.2 with e | e
      · exact h3 (h1 ▸ e)
      · exact e h1.symm
    rw [ho k' hkk, hn]; exact ⟨h1, h2, h3⟩
  · intro k' hr
    by_cases e : k' = k
    · subst e; rw [hk] at hr; simp at hr
    · rw [ho k' e] at hr ⊢
      have := h.ctx_map k' hr
      rw [hi]
      by_cases e0 : (s.ctx k).requestId = 0
      · simp [e0]; exact this
      · have hk2 := h.ctx_map k e0
        have : (s.ctx k').requestId ≠ (s.ctx k).requestId := by
          intro e3; rw [e3] at this; rw [hk2] at this; exact e (Option.some.inj this).symm
        simp [e0, upd, this]; assumption
  · intro iid hi'
    rw [ha] at hi'
    obtain ⟨h1, h2⟩ := h.acc_gone iid hi'
    rw [hi, hn]
    refine ⟨?_, h2⟩
    split
    · simp only [upd]; split <;> simp [h1]
    · exact h1
  · rw [ha]; exact h.acc_nodup
  · intro k' _ h1 h2
    by_cases e : k' = k
    · subst e; rw [hk] at h1; simp at h1
    · rw [ho k' e] at h1 h2 ⊢
      exact h.wired k' (by simpa using e) h1 h2
  · intro k' hd
    by_cases e : k' = k
    · subst e; rw [hk]
    · rw [ho k' e] at hd ⊢; exact h.dead k' hd


/-! ### context updates -/

theorem invx_setCtx_self {s : State} (k : Nat) (h : InvX (some k) s) (c : Ctx)
    (hr : c.requestId = (s.ctx k).requestId) (hl : c.live = (s.ctx k).live) : InvX (some k) (setCtx s k c) := by
  constructor
  · intro iid k' hk
    have := h.map_ctx iid k' hk
    by_cases e : k' = k
    · subst e; simpa [setCtx, hr] using this
    · simpa [setCtx, e] using this
  · intro k' hk
    by_cases e : k' = k
    · subst e
      simp only [setCtx, upd_same] at hk ⊢
      rw [hr] at hk ⊢; exact h.ctx_map k' hk
    · simp only [setCtx, upd_other _ _ _ _ e] at hk ⊢
      exact h.ctx_map k' hk
  · exact h.acc_gone
  · exact h.acc_nodup
  · intro k' hx h1 h2
    have e : k' ≠ k := fun e => hx (by rw [e])
    simp only [setCtx, upd_other _ _ _ _ e] at h1 h2 ⊢
    exact h.wired k' hx h1 h2
  · intro k' hd
    by_cases e : k' = k
    · subst e
      simp only [setCtx, upd_same] at hd ⊢
      rw [hl] at hd; rw [hr]; exact h.dead k' hd
    · simp only [setCtx, upd_other _ _ _ _ e] at hd ⊢
      exact h.dead k' hd


theorem inv_setCtx_zero {s : State} (h : Inv s) (k : Nat) (c : Ctx)
    (h0 : (s.ctx k).requestId = 0) (hc : c.requestId = 0) : Inv (setCtx s k c) := by
  constructor
  · intro iid k' hk
    have := h.map_ctx iid k' hk
    by_cases e : k' = k
    · subst e; rw [h0] at this; exact absurd this.1.symm this.2.2
    · simpa [setCtx, e] using this
  · intro k' hk
    by_cases e : k' = k
    · subst e; simp [setCtx, hc] at hk
    · simp only [setCtx, upd_other _ _ _ _ e] at hk ⊢
      exact h.ctx_map k' hk
  · exact h.acc_gone
  · exact h.acc_nodup
  · intro k' hx h1 h2
    by_cases e : k' = k
    · subst e; simp [setCtx, hc] at h1
    · simp only [setCtx, upd_other _ _ _ _ e] at h1 h2 ⊢
      exact h.wired k' hx h1 h2
  · intro k' hd
    by_cases e : k' = k
    · subst e; simp [setCtx, hc]
    · simp only [setCtx, upd_other _ _ _ _ e] at hd ⊢
      exact h.dead k' hd

/-- keeping the core fields of a context -/
theorem inv_setCtx_keep {x : Option Nat} {s : State} (h : InvX x s) (k : Nat) (c : Ctx)
    (hc : c.requestId = (s.ctx k).requestId ∧ c.sendAio = (s.ctx k).sendAio ∧ c.wired = (s.ctx k).wired ∧ c.live = (s.ctx k).live) :
    InvX x (setCtx s k c) := h.same (same_setCtx s k c hc)

theorem ctxReset_rid (s : State) (k : Nat) : ((ctxReset s k).ctx k).requestId = 0 := by
  rw [(ctxReset_shape s k).2.2.2.2]

/-! ### req0_pipe_close -/

theorem inv_closeOne {s : State} (h : Inv s) (p k : Nat) : Inv (closeOne s p k).1 := by
  unfold closeOne
  dsimp only
  have h1 : Inv (setPipe s p { s.pipe p with ctxs := (s.pipe p).ctxs.erase k }) := h.same (same_setPipe ..)
  generalize setPipe s p { s.pipe p with ctxs := (s.pipe p).ctxs.erase k } = s1 at h1 ⊢
  split
  · split
    · exact inv_ctxReset k (InvX.weaken (inv_setCtx_keep h1 k _ ⟨rfl, rfl, rfl, rfl⟩))
    · have h2 := inv_ctxReset k (InvX.weaken h1)
      exact inv_setCtx_keep h2 k _ ⟨rfl, rfl, rfl, rfl⟩
  · split
    · have h2 : Inv (setCtx s1 k { s1.ctx k with retryTime := s1.now + (s1.ctx k).retry.toNat }) :=
        inv_setCtx_keep h1 k _ ⟨rfl, rfl, rfl, rfl⟩
      split
      · exact h2
      · exact inv_runSendQueue (h2.same ⟨rfl, rfl, rfl, fun _ => ⟨rfl, rfl, rfl, rfl⟩⟩)
    · exact h1

theorem inv_closeLoop (fuel : Nat) {s : State} (h : Inv s) (p : Nat) : Inv (closeLoop fuel s p).1 := by
  induction fuel generalizing s with
  | zero => exact h
  | succ n ih =>
    unfold closeLoop
    split
    · exact h
    · exact ih (inv_closeOne h _ _)

theorem same_pipeClosePrep (s : State) (p : Nat) : SameCore s (pipeClosePrep s p) := by
  unfold pipeClosePrep
  dsimp only
  cases (s.pipe p).busy with
  | none => dsimp only; split <;> exact ⟨rfl, rfl, rfl, fun _ => ⟨rfl, rfl, rfl, rfl⟩⟩
  | some hh =>
    dsimp only
    refine (same_tranRelease s hh).trans ?_
    unfold SameCore
    split <;> simp [setPipe]

theorem inv_pipeClose {s : State} (h : Inv s) (p : Nat) : Inv (pipeClose s p).1 := by
  unfold pipeClose
  dsimp only
  split
  · exact h
  · exact inv_closeLoop _ (h.same (same_pipeClosePrep s p)) p


/-! ### callbacks -/

theorem inv_sendCb {s : State} (h : Inv s) (p : Nat) : Inv (sendCb s p).1 := by
  unfold sendCb
  dsimp only
  split
  · exact h
  · apply inv_runSendQueue
    refine h.same ?_
    split <;> exact ⟨rfl, rfl, rfl, fun _ => ⟨rfl, rfl, rfl, rfl⟩⟩

theorem same_retryPrep (s : State) : SameCore s (retryPrep s) := by
  unfold retryPrep
  dsimp only
  split
  · exact SameCore.trans ⟨rfl, rfl, rfl, fun _ => ⟨rfl, rfl, rfl, rfl⟩⟩ (same_armTick _)
  · exact ⟨rfl, rfl, rfl, fun _ => ⟨rfl, rfl, rfl, rfl⟩⟩

theorem inv_retryCb {s : State} (h : Inv s) : Inv (retryCb s).1 := by
  unfold retryCb
  split
  · exact h
  · split
    · exact inv_runSendQueue (h.same (same_retryPrep s))
    · exact h.same (same_retryPrep s)

theorem inv_ctxRecv {s : State} (h : Inv s) (k a : Nat) (mode : Mode) : Inv (ctxRecv s k a mode).1 := by
  unfold ctxRecv
  dsimp only
  split
  · split
    · exact inv_setCtx_keep h k _ ⟨rfl, rfl, rfl, rfl⟩
    · exact h
  · split
    · split
      · exact h
      · exact inv_setCtx_keep h k _ ⟨rfl, rfl, rfl, rfl⟩
    · have h1 := inv_setCtx_keep h k { s.ctx k with repMsg := none } ⟨rfl, rfl, rfl, rfl⟩
      split
      · exact h1.same ⟨rfl, rfl, rfl, fun _ => ⟨rfl, rfl, rfl, rfl⟩⟩
      · exact h1


/-! ### user operations -/

theorem invx_dropSend {s : State} (k : Nat) (h : InvX (some k) s) : InvX (some k) (dropSend s k) := by
  unfold dropSend
  dsimp only
  cases hm : (s.ctx k).reqMsg with
  | none =>
    dsimp only
    exact (invx_setCtx_self k h { s.ctx k with sendAio := none, reqMsg := none } rfl rfl).same
      ⟨rfl, rfl, rfl, fun _ => ⟨rfl, rfl, rfl, rfl⟩⟩
  | some hh =>
    dsimp only
    have e1 := same_giveBack s hh
    have h2 := invx_setCtx_self k (h.same e1) { s.ctx k with sendAio := none, reqMsg := none }
      (by simp [(e1.2.2.2 k).1]) (by simp [(e1.2.2.2 k).2.2.2])
    exact h2.same ⟨rfl, rfl, rfl, fun _ => ⟨rfl, rfl, rfl, rfl⟩⟩

theorem dropSend_live (s : State) (k : Nat) : ((dropSend s k).ctx k).live = (s.ctx k).live := by
  simp [dropSend, setCtx]

theorem ctxReset_live (s : State) (k : Nat) : ((ctxReset s k).ctx k).live = (s.ctx k).live := by
  rw [(ctxReset_shape s k).2.2.2.2]

theorem inv_ctxSendPrep {s : State} (h : Inv s) (k : Nat) :
    Inv (ctxSendPrep s k).1 ∧ ((ctxSendPrep s k).1.ctx k).requestId = 0 ∧
    ((ctxSendPrep s k).1.ctx k).live = (s.ctx k).live := by
  unfold ctxSendPrep
  dsimp only
  refine ⟨?_, ctxReset_rid _ _, ?_⟩
  · apply inv_ctxReset
    cases hr : (s.ctx k).recvAio with
    | none =>
      dsimp only
      cases hs : (s.ctx k).sendAio with
      | none => exact InvX.weaken h
      | some ua => exact invx_dropSend k (InvX.weaken h)
    | some ra =>
      dsimp only
      have h1 : InvX (some k) (setCtx s k { s.ctx k with recvAio := none }) :=
        InvX.weaken (inv_setCtx_keep h k _ ⟨rfl, rfl, rfl, rfl⟩)
      cases hs : ((setCtx s k { s.ctx k with recvAio := none }).ctx k).sendAio with
      | none => exact h1
      | some ua => exact invx_dropSend k h1
  · rw [ctxReset_live]
    cases hr : (s.ctx k).recvAio with
    | none =>
      dsimp only
      cases hs : (s.ctx k).sendAio with
      | none => rfl
      | some ua => exact dropSend_live s k
    | some ra =>
      dsimp only
      cases hs : ((setCtx s k { s.ctx k with recvAio := none }).ctx k).sendAio with
      | none => simp [setCtx]
      | some ua => dsimp only; rw [dropSend_live]; simp [setCtx]

theorem inv_bump {s : State} (h : Inv s) : Inv { s with nalloc := s.nalloc + 1 } := by
  constructor
  · intro iid k hk
    obtain ⟨a, b, c⟩ := h.map_ctx iid k hk
    exact ⟨a, Nat.le_succ_of_le b, c⟩
  · exact h.ctx_map
  · intro iid hi
    obtain ⟨a, b⟩ := h.acc_gone iid hi
    exact ⟨a, Nat.le_succ_of_le b⟩
  · exact h.acc_nodup
  · exact h.wired
  · exact h.dead

/-- a fresh id enters the map for a context that has none -/
theorem inv_install_core {s : State} (h : Inv s) (k id : Nat) (c : Ctx)
    (h0 : (s.ctx k).requestId = 0) (hfresh : s.idmap id = none) (hacc : id ∉ s.accepted) (hle : id ≤ s.nalloc) (hne : id ≠ 0)
    (hc : c.requestId = id) (hs : c.sendAio.isSome) (hl : c.live = true) :
    Inv (setCtx { s with idmap := upd s.idmap id (some k) } k c) := by
  constructor
  · intro iid k' hm
    simp only [setCtx] at hm ⊢
    by_cases e : iid = id
    · subst e
      simp at hm; subst hm
      simp [hc, hle, hne]
    · simp [upd, e] at hm
      obtain ⟨a, b, c'⟩ := h.map_ctx iid k' hm
      have : k' ≠ k := by intro e2; subst e2; rw [h0] at a; exact c' a.symm
      simp [upd, this]; exact ⟨a, b, c'⟩
  · intro k' hr
    simp only [setCtx] at hr ⊢
    by_cases e : k' = k
    · subst e; simp [hc]
    · simp only [upd_other _ _ _ _ e] at hr ⊢
      have := h.ctx_map k' hr
      have hne2 : (s.ctx k').requestId ≠ id := by
        intro e2; rw [e2, hfresh] at this; cases this
      simp [upd, hne2]; exact this
  · intro iid hi
    obtain ⟨a, b⟩ := h.acc_gone iid hi
    have : iid ≠ id := by intro e; subst e; exact hacc hi
    simp [setCtx, upd, this]; exact ⟨a, b⟩
  · exact h.acc_nodup
  · intro k' _ h1 h2
    by_cases e : k' = k
    · subst e
      simp only [setCtx, upd_same] at h2
      rw [h2] at hs; cases hs
    · simp only [setCtx, upd_other _ _ _ _ e] at h1 h2 ⊢
      exact h.wired k' (by simp) h1 h2
  · intro k' hd
    by_cases e : k' = k
    · subst e
      simp only [setCtx, upd_same] at hd
      rw [hl] at hd; cases hd
    · simp only [setCtx, upd_other _ _ _ _ e] at hd ⊢
      exact h.dead k' hd


theorem same_installPrep (s : State) (k id : Nat) (b : Bytes) (r : Bool) : SameCore s (installPrep s k id b r) := by
  unfold installPrep
  dsimp only
  split
  · split
    · exact (same_setMsg s id { body := b, ctxRef := true }).trans
        (SameCore.trans ⟨rfl, rfl, rfl, fun _ => ⟨rfl, rfl, rfl, rfl⟩⟩ (same_armTick _))
    · exact (same_setMsg s id { body := b, ctxRef := true }).trans ⟨rfl, rfl, rfl, fun _ => ⟨rfl, rfl, rfl, rfl⟩⟩
  · exact same_setMsg s id { body := b, ctxRef := true }

theorem inv_installReq {s : State} (h : Inv s) (k a id : Nat) (m : WMsg) (mode : Mode)
    (h0 : (s.ctx k).requestId = 0) (hfresh : s.idmap id = none) (hacc : id ∉ s.accepted) (hle : id ≤ s.nalloc) (hne : id ≠ 0)
    (hl : (s.ctx k).live = true) : Inv (installReq s k a m mode id) := by
  unfold installReq
  dsimp only
  have e := same_installPrep s k id m.body (decide ((s.ctx k).retry > 0))
  generalize installPrep s k id m.body (decide ((s.ctx k).retry > 0)) = s1 at e ⊢
  obtain ⟨ei, en, ea, ec⟩ := e
  exact inv_install_core (h.same ⟨ei, en, ea, ec⟩) k id _ (by rw [(ec k).1]; exact h0) (by rw [ei]; exact hfresh)
    (by rw [ea]; exact hacc) (by rw [en]; exact hle) hne rfl rfl hl

theorem inv_ctxSend {s : State} (h : Inv s) (k a : Nat) (m : WMsg) (mode : Mode) (hl : (s.ctx k).live = true) :
    Inv (ctxSend s k a m mode).1 := by
  unfold ctxSend
  dsimp only
  split
  · exact h
  · obtain ⟨h1, h0, hlive⟩ := inv_ctxSendPrep h k
    generalize ctxSendPrep s k = r at h1 h0 hlive ⊢
    have h2 := inv_bump h1
    split
    · exact h2
    · apply inv_runSendQueue
      have h3 : Inv (installReq { r.1 with nalloc := r.1.nalloc + 1 } k a m mode (r.1.nalloc + 1)) := by
        apply inv_installReq h2 k a (r.1.nalloc + 1) m mode h0
        · cases hm : r.1.idmap (r.1.nalloc + 1) with
          | none => rfl
          | some k' => have := (h1.map_ctx _ _ hm).2.1; omega
        · intro hin; have := (h1.acc_gone _ hin).2; omega
        · exact Nat.le_refl _
        · omega
        · rw [hlive]; exact hl
      exact h3.same ⟨rfl, rfl, rfl, fun _ => ⟨rfl, rfl, rfl, rfl⟩⟩

theorem inv_cancelSend {s : State} (h : Inv s) (k rv : Nat) : Inv (cancelSend s k rv).1 := by
  unfold cancelSend
  split
  · exact inv_ctxReset k (invx_dropSend k (InvX.weaken h))
  · exact h

theorem inv_cancelRecv {s : State} (h : Inv s) (k rv : Nat) : Inv (cancelRecv s k rv).1 := by
  unfold cancelRecv
  split
  · exact h
  · dsimp only
    cases hs : (s.ctx k).sendAio with
    | none => exact inv_ctxReset k (InvX.weaken (inv_setCtx_keep h k _ ⟨rfl, rfl, rfl, rfl⟩))
    | some ua =>
      dsimp only
      exact inv_ctxReset k (inv_setCtx_keep (invx_dropSend k (InvX.weaken h)) k _ ⟨rfl, rfl, rfl, rfl⟩)

theorem inv_ctxFini {s : State} (h : Inv s) (k : Nat) : Inv (ctxFini s k).1 := by
  unfold ctxFini
  dsimp only
  apply inv_setCtx_zero _ k _ (ctxReset_rid _ _) (by simp [ctxReset_rid])
  apply inv_ctxReset
  cases hr : (s.ctx k).recvAio with
  | none =>
    dsimp only
    cases hs : (s.ctx k).sendAio with
    | none => exact InvX.weaken h
    | some ua => exact invx_dropSend k (InvX.weaken h)
  | some ra =>
    dsimp only
    have h1 : InvX (some k) (setCtx s k { s.ctx k with recvAio := none }) :=
      InvX.weaken (inv_setCtx_keep h k _ ⟨rfl, rfl, rfl, rfl⟩)
    cases hs : ((setCtx s k { s.ctx k with recvAio := none }).ctx k).sendAio with
    | none => exact h1
    | some ua => exact invx_dropSend k h1


/-! ### req0_recv_cb -/

/-- what an accepted reply does to the core: id leaves the map, the context has no request id -/
theorem inv_accept_core {s : State} (h : Inv s) (iid k : Nat) (c : Ctx) (hm : s.idmap iid = some k)
    (hc : c.requestId = 0) (hl : c.live = (s.ctx k).live) :
    Inv (setCtx { s with idmap := upd s.idmap iid none, accepted := s.accepted ++ [iid] } k c) := by
  obtain ⟨hr, hle, hne⟩ := h.map_ctx iid k hm
  constructor
  · intro i k' hi
    simp only [setCtx] at hi ⊢
    by_cases e : i = iid
    · subst e; simp at hi
    · simp [upd, e] at hi
      obtain ⟨a, b, c'⟩ := h.map_ctx i k' hi
      have : k' ≠ k := by intro e2; subst e2; rw [hr] at a; exact e a.symm
      simp [upd, this]; exact ⟨a, b, c'⟩
  · intro k' hk
    simp only [setCtx] at hk ⊢
    by_cases e : k' = k
    · subst e; simp [hc] at hk
    · simp only [upd_other _ _ _ _ e] at hk ⊢
      have := h.ctx_map k' hk
      have hne2 : (s.ctx k').requestId ≠ iid := by
        intro e2; rw [e2, hm] at this; exact e (Option.some.inj this).symm
      simp [upd, hne2]; exact this
  · intro i hi
    simp only [setCtx, List.mem_append, List.mem_singleton] at hi ⊢
    rcases hi with hi | hi
    · obtain ⟨a, b⟩ := h.acc_gone i hi
      refine ⟨?_, b⟩
      simp only [upd]; split <;> simp [a]
    · subst hi; simp [upd, hle]
  · simp only [setCtx]
    refine List.nodup_append.mpr ⟨h.acc_nodup, by simp, ?_⟩
    intro a ha b hb
    simp at hb; subst hb
    intro e; subst e
    have := (h.acc_gone _ ha).1
    rw [hm] at this; cases this
  · intro k' _ h1 h2
    by_cases e : k' = k
    · subst e; simp [setCtx, hc] at h1
    · simp only [setCtx, upd_other _ _ _ _ e] at h1 h2 ⊢
      exact h.wired k' (by simp) h1 h2
  · intro k' hd
    by_cases e : k' = k
    · subst e; simp [setCtx, hc]
    · simp only [setCtx, upd_other _ _ _ _ e] at hd ⊢
      exact h.dead k' hd


theorem same_acceptPrep (s : State) (k : Nat) : SameCore s (acceptPrep s k) := by
  unfold acceptPrep
  dsimp only
  split
  · exact SameCore.trans ⟨rfl, rfl, rfl, fun _ => ⟨rfl, rfl, rfl, rfl⟩⟩ (same_ctxRelease _ _)
  · exact ⟨rfl, rfl, rfl, fun _ => ⟨rfl, rfl, rfl, rfl⟩⟩

theorem inv_recvCb {s : State} (h : Inv s) (iid? : Option Nat) (body : Bytes) : Inv (recvCb s iid? body).1 := by
  unfold recvCb
  split
  · exact h
  · split
    · exact h
    · rename_i iid _ k hm
      dsimp only
      split
      · exact h
      · have e := same_acceptPrep s k
        generalize acceptPrep s k = s1 at e ⊢
        obtain ⟨ei, en, ea, ec⟩ := e
        have h1 : Inv s1 := h.same ⟨ei, en, ea, ec⟩
        have hm1 : s1.idmap iid = some k := by rw [ei]; exact hm
        split
        · exact inv_accept_core h1 iid k _ hm1 rfl (by simp [(ec k).2.2.2])
        · have h3 := inv_accept_core h1 iid k { s.ctx k with requestId := 0, reqMsg := none, repMsg := some body } hm1 rfl
            (by simp [(ec k).2.2.2])
          split
          · exact h3.same ⟨rfl, rfl, rfl, fun _ => ⟨rfl, rfl, rfl, rfl⟩⟩
          · exact h3

/-! ### time -/

theorem inv_foldSteps (ks : List Nat) (f : State → Nat → State × List Out)
    (hf : ∀ s k, Inv s → Inv (f s k).1) {s : State} (h : Inv s) : Inv (foldSteps ks f s).1 := by
  unfold foldSteps
  suffices ∀ (acc : State × List Out), Inv acc.1 →
      Inv (ks.foldl (fun (acc : State × List Out) k => ((f acc.1 k).1, acc.2 ++ (f acc.1 k).2)) acc).1 from this (s, []) h
  induction ks with
  | nil => intro acc ha; exact ha
  | cons k t ih => intro acc ha; exact ih _ (hf _ _ ha)

theorem inv_expireOne {s : State} (h : Inv s) (k : Nat) : Inv (expireOne s k).1 := by
  unfold expireOne
  dsimp only
  have h1 : Inv (if dueAio s.now (s.ctx k).recvAio = true then cancelRecv s k Err.etimedout else (s, [])).1 := by
    split
    · exact inv_cancelRecv h _ _
    · exact h
  generalize (if dueAio s.now (s.ctx k).recvAio = true then cancelRecv s k Err.etimedout else (s, [])) = r1 at h1 ⊢
  split
  · exact inv_cancelSend h1 _ _
  · exact h1

theorem inv_advance {s : State} (h : Inv s) (ms : Nat) : Inv (advance s ms).1 := by
  unfold advance
  dsimp only
  have h0 : Inv { s with now := s.now + ms } := h.same ⟨rfl, rfl, rfl, fun _ => ⟨rfl, rfl, rfl, rfl⟩⟩
  have h1 := inv_foldSteps ctxKeys expireOne (fun s k hs => inv_expireOne hs k) h0
  generalize foldSteps ctxKeys expireOne { s with now := s.now + ms } = r at h1 ⊢
  split
  · split
    · exact inv_retryCb (h1.same ⟨rfl, rfl, rfl, fun _ => ⟨rfl, rfl, rfl, rfl⟩⟩)
    · exact h1
  · exact h1


/-! ### every harness event -/

theorem inv_setCtx_live {s : State} (h : Inv s) (k : Nat) (c : Ctx)
    (hc : c.requestId = (s.ctx k).requestId ∧ c.sendAio = (s.ctx k).sendAio ∧ c.wired = (s.ctx k).wired) (hl : c.live = true) :
    Inv (setCtx s k c) := by
  constructor
  · intro iid k' hk
    have := h.map_ctx iid k' hk
    by_cases e : k' = k
    · subst e; simpa [setCtx, hc.1] using this
    · simpa [setCtx, e] using this
  · intro k' hk
    by_cases e : k' = k
    · subst e
      simp only [setCtx, upd_same] at hk ⊢
      rw [hc.1] at hk ⊢; exact h.ctx_map k' hk
    · simp only [setCtx, upd_other _ _ _ _ e] at hk ⊢
      exact h.ctx_map k' hk
  · exact h.acc_gone
  · exact h.acc_nodup
  · intro k' hx h1 h2
    by_cases e : k' = k
    · subst e
      simp only [setCtx, upd_same] at h1 h2 ⊢
      rw [hc.1] at h1; rw [hc.2.1] at h2; rw [hc.2.2]; exact h.wired k' hx h1 h2
    · simp only [setCtx, upd_other _ _ _ _ e] at h1 h2 ⊢
      exact h.wired k' hx h1 h2
  · intro k' hd
    by_cases e : k' = k
    · subst e
      simp only [setCtx, upd_same] at hd
      rw [hl] at hd; cases hd
    · simp only [setCtx, upd_other _ _ _ _ e] at hd ⊢
      exact h.dead k' hd

theorem inv_init : Inv ({} : State) := by
  constructor <;> simp

macro "same_rfl" : tactic => `(tactic| exact ⟨rfl, rfl, rfl, fun _ => ⟨rfl, rfl, rfl, rfl⟩⟩)

theorem inv_step {s : State} (h : Inv s) (ev : Ev) : Inv (step s ev).1 := by
  unfold step
  split
  · -- not yet opened
    split
    · split
      · exact h
      · exact (inv_setCtx_live h 0 { s.ctx 0 with live := true, retry := (Nng.Generated.reqResendTimeDefault : Int) }
          ⟨rfl, rfl, rfl⟩ rfl).same (by same_rfl)
    · exact h.same (by same_rfl)
    · exact h
  · split
    · split
      · exact h.same (by same_rfl)
      · exact h
    · split
      · -- openSock
        exact h
      · -- pipeAdd
        dsimp only
        split
        · exact h.same (by same_rfl)
        · exact inv_runSendQueue (h.same (by same_rfl))
      · -- pipeDrop
        split
        · exact inv_pipeClose h _
        · exact h
      · -- sendDone
        split
        · split
          · rename_i hh _
            dsimp only
            have h1 : ∀ p pp, Inv (setPipe (tranRelease s hh) p pp) :=
              fun p pp => h.same ((same_tranRelease s hh).trans (same_setPipe _ p pp))
            split
            · exact inv_pipeClose (h1 _ _) _
            · exact inv_sendCb (h1 _ _) _
          · exact h
        · exact h
      · -- recvDone
        split
        · dsimp only
          have h1 : ∀ p pp, Inv (setPipe s p pp) := fun p pp => h.same (same_setPipe s p pp)
          split
          · exact inv_pipeClose (h1 _ _) _
          · split
            · exact inv_pipeClose (h1 _ _) _
            · exact inv_recvCb ((h1 _ _).same (same_setPipe ..)) _ _
        · exact h
      · -- send
        split
        · exact h
        · split
          · exact h
          · split
            · exact h
            · rename_i hl
              exact inv_ctxSend h _ _ _ _ (by simpa using hl)
      · -- recv
        split
        · exact h
        · split
          · exact h
          · split
            · exact h
            · exact inv_ctxRecv h _ _ _
      · -- cancel
        split
        · exact inv_cancelRecv h _ _
        · exact inv_cancelSend h _ _
        · exact h
      · -- abort
        split
        · exact inv_cancelRecv h _ _
        · exact inv_cancelSend h _ _
        · exact h
      · -- advance
        exact inv_advance h _
      · -- ctxOpen
        split
        · exact h
        · split
          · exact h
          · rename_i hl
            exact inv_setCtx_zero h _ _ (h.dead _ (by simpa using hl)) rfl
      · -- ctxClose
        split
        · exact h
        · split
          · exact inv_ctxFini h _
          · exact h
      · -- setopt
        (repeat' split) <;> dsimp only <;> first
          | exact h
          | exact h.same (by same_rfl)
          | exact inv_setCtx_keep (h.same (by same_rfl)) _ _ ⟨rfl, rfl, rfl, rfl⟩
          | exact inv_setCtx_keep h _ _ ⟨rfl, rfl, rfl, rfl⟩
      · -- getopt
        (repeat' split) <;> exact h
      · exact h
      · exact h
      · exact h
      · -- close
        dsimp only
        have h1 := inv_foldSteps ((List.range nCtxSlots).map (· + 1))
          (fun s k => if (s.ctx k).live then ctxFini s k else (s, []))
          (fun s k hs => by split; exact inv_ctxFini hs k; exact hs) h
        generalize foldSteps ((List.range nCtxSlots).map (· + 1))
          (fun s k => if (s.ctx k).live then ctxFini s k else (s, [])) s = r1 at h1 ⊢
        have h2 := inv_foldSteps (List.range r1.1.npipes) pipeClose (fun s k hs => inv_pipeClose hs k) h1
        generalize foldSteps (List.range r1.1.npipes) pipeClose r1.1 = r2 at h2 ⊢
        have h3 : Inv { r2.1 with sClosed := true, tickAt := none } := h2.same (by same_rfl)
        exact (inv_ctxFini h3 0).same (by same_rfl)

end Nng.Req
