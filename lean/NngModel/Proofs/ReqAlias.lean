/-
  Wire names of requests are stable: `alias` (wire index → internal request id) only grows at its end,
  so the header put in front of a request is the same on every transmission.
-/
import NngModel.Proofs.ReqPlaceSteps
namespace Nng.Req
open Nng Nng.Proto

/-- `t.alias` extends `s.alias` -/
def AExt (s t : State) : Prop := ∃ l, t.alias = s.alias ++ l

theorem AExt.refl (s : State) : AExt s s := ⟨[], by simp⟩
theorem AExt.of_eq {s t : State} (e : t.alias = s.alias) : AExt s t := ⟨[], by simp [e]⟩
theorem AExt.trans {a b c : State} (h1 : AExt a b) (h2 : AExt b c) : AExt a c := by
  obtain ⟨l1, e1⟩ := h1; obtain ⟨l2, e2⟩ := h2
  exact ⟨l1 ++ l2, by rw [e2, e1, List.append_assoc]⟩

theorem idxOf_append_stable {l l' : List Nat} {i n : Nat} (h : l.idxOf? i = some n) : (l ++ l').idxOf? i = some n := by
  simp only [List.idxOf?] at h ⊢
  rw [List.findIdx?_append, h]; rfl

theorem AExt.stable {s t : State} (h : AExt s t) {i n : Nat} (hi : s.alias.idxOf? i = some n) :
    t.alias.idxOf? i = some n := by
  obtain ⟨l, e⟩ := h; rw [e]; exact idxOf_append_stable hi

theorem wireIndex_spec (s : State) (i : Nat) :
    (wireIndex s i).1.alias.idxOf? i = some (wireIndex s i).2 ∧ AExt s (wireIndex s i).1 := by
  unfold wireIndex
  split
  · rename_i k hk; exact ⟨hk, AExt.refl s⟩
  · rename_i hk
    refine ⟨?_, ⟨[i], rfl⟩⟩
    simp only [List.idxOf?] at hk ⊢
    rw [List.findIdx?_append, hk]
    simp

theorem alias_ctxRelease (s : State) (h : Nat) : (ctxRelease s h).alias = s.alias := by
  simp only [ctxRelease, setMsg, flag]; (repeat' split) <;> rfl
theorem alias_giveBack (s : State) (h : Nat) : (giveBack s h).alias = s.alias := by
  simp only [giveBack, setMsg, flag]; (repeat' split) <;> rfl
theorem alias_tranClone (s : State) (h : Nat) : (tranClone s h).alias = s.alias := by
  simp only [tranClone, setMsg, flag]; (repeat' split) <;> rfl
theorem alias_tranRelease (s : State) (h : Nat) : (tranRelease s h).alias = s.alias := by
  simp only [tranRelease, setMsg, flag]; (repeat' split) <;> rfl
theorem alias_flag (s : State) (m : String) : (flag s m).alias = s.alias := by
  simp only [flag]; split <;> rfl
theorem alias_armTick (s : State) : (armTick s).alias = s.alias := by
  unfold armTick; split <;> rfl

theorem alias_sendPrep (s : State) (k p : Nat) (r : Int) : (sendPrep s k p r).alias = s.alias := by
  unfold sendPrep; dsimp only; split <;> split <;> rfl

/-- the header of the message handed to the transport is the wire name of the context's request id in
    the state after the hand-off -/
theorem sendOne_alias (s : State) (k p : Nat) :
    AExt s (sendOne s k p).1 ∧
    ∀ q m, Out.psend q m ∈ (sendOne s k p).2 →
      ∃ n, (sendOne s k p).1.alias.idxOf? (s.ctx k).requestId = some n ∧ m.hdr = wireHdr n := by
  unfold sendOne
  dsimp only
  have e1 := alias_sendPrep s k p (s.ctx k).retry
  generalize sendPrep s k p (s.ctx k).retry = s1 at e1 ⊢
  have hno : ∀ q m, Out.psend q m ∉ (match (s.ctx k).sendAio with
      | some ua => [Out.done ua.aio 0 none false]
      | none => []) := by
    intro q m; split <;> simp
  split
  · refine ⟨AExt.of_eq (by rw [alias_flag, e1]), fun q m hm => absurd hm (hno q m)⟩
  · rename_i hh _
    have e2 : (setPipe (tranClone s1 hh) p { (tranClone s1 hh).pipe p with busy := some hh }).alias = s.alias := by
      show (tranClone s1 hh).alias = _; rw [alias_tranClone, e1]
    generalize setPipe (tranClone s1 hh) p { (tranClone s1 hh).pipe p with busy := some hh } = s2 at e2 ⊢
    obtain ⟨w1, w2⟩ := wireIndex_spec s2 (s.ctx k).requestId
    refine ⟨(AExt.of_eq e2).trans w2, fun q m hm => ?_⟩
    rcases List.mem_append.1 hm with h1 | h1
    · exact absurd h1 (hno q m)
    · simp at h1
      exact ⟨(wireIndex s2 (s.ctx k).requestId).2, w1, by rw [h1.2]⟩

theorem aext_runQ (fuel : Nat) (s : State) : AExt s (runQ fuel s).1 := by
  induction fuel generalizing s with
  | zero => exact AExt.refl s
  | succ n ih =>
    unfold runQ
    split
    · exact (sendOne_alias s _ _).1.trans (ih _)
    · exact AExt.refl s

theorem alias_ctxReset (s : State) (k : Nat) : (ctxReset s k).alias = s.alias := by
  unfold ctxReset
  dsimp only
  cases (s.ctx k).reqMsg with
  | none => dsimp only; split <;> split <;> rfl
  | some h =>
    dsimp only
    simp only [setCtx, ctxRelease, setMsg, flag]
    (repeat' split) <;> rfl

theorem alias_dropSend (s : State) (k : Nat) : (dropSend s k).alias = s.alias := by
  unfold dropSend
  dsimp only
  cases (s.ctx k).reqMsg with
  | none => rfl
  | some h => dsimp only; simp only [giveBack, setMsg, flag, setCtx]; (repeat' split) <;> rfl

theorem aext_closeOne (s : State) (p k : Nat) : AExt s (closeOne s p k).1 := by
  unfold closeOne
  dsimp only
  split
  · split
    · exact AExt.of_eq (by rw [alias_ctxReset]; rfl)
    · exact AExt.of_eq (by show (ctxReset _ k).alias = _; rw [alias_ctxReset]; rfl)
  · split
    · split
      · exact AExt.of_eq rfl
      · exact (AExt.of_eq (by rfl)).trans (aext_runQ _ _)
    · exact AExt.of_eq rfl

theorem aext_closeLoop (fuel : Nat) (s : State) (p : Nat) : AExt s (closeLoop fuel s p).1 := by
  induction fuel generalizing s with
  | zero => exact AExt.refl s
  | succ n ih =>
    unfold closeLoop
    split
    · exact AExt.refl s
    · exact (aext_closeOne s p _).trans (ih _)

theorem alias_pipeClosePrep (s : State) (p : Nat) : (pipeClosePrep s p).alias = s.alias := by
  unfold pipeClosePrep
  dsimp only
  cases (s.pipe p).busy with
  | none => dsimp only; split <;> rfl
  | some h => dsimp only; simp only [tranRelease, setMsg, flag, setPipe]; (repeat' split) <;> rfl

theorem aext_pipeClose (s : State) (p : Nat) : AExt s (pipeClose s p).1 := by
  unfold pipeClose
  split
  · exact AExt.refl s
  · exact (AExt.of_eq (alias_pipeClosePrep s p)).trans (aext_closeLoop _ _ p)

theorem aext_sendCb (s : State) (p : Nat) : AExt s (sendCb s p).1 := by
  unfold sendCb
  split
  · exact AExt.refl s
  · dsimp only
    refine AExt.trans ?_ (aext_runQ _ _)
    split <;> exact AExt.of_eq rfl

theorem alias_retryPrep (s : State) : (retryPrep s).alias = s.alias := by
  unfold retryPrep; dsimp only; split
  · rw [alias_armTick]
  · rfl

theorem aext_retryCb (s : State) : AExt s (retryCb s).1 := by
  unfold retryCb
  split
  · exact AExt.refl s
  · split
    · exact (AExt.of_eq (alias_retryPrep s)).trans (aext_runQ _ _)
    · exact AExt.of_eq (alias_retryPrep s)

theorem alias_recvCb (s : State) (iid? : Option Nat) (b : Bytes) : (recvCb s iid? b).1.alias = s.alias := by
  unfold recvCb
  split
  · rfl
  · split
    · rfl
    · dsimp only
      split
      · rfl
      · rename_i k _ _
        have e : (acceptPrep s k).alias = s.alias := by
          unfold acceptPrep; dsimp only
          cases (s.ctx k).reqMsg with
          | none => rfl
          | some h => dsimp only; rw [alias_ctxRelease]
        split
        · exact e
        · split <;> exact e

theorem alias_finiChain (s : State) (k e : Nat) : (finiChain s k e).1.alias = s.alias := by
  unfold finiChain
  dsimp only
  rw [alias_ctxReset]
  cases (s.ctx k).recvAio with
  | none =>
    dsimp only
    cases (s.ctx k).sendAio with
    | none => rfl
    | some ua => exact alias_dropSend s k
  | some ra =>
    dsimp only
    cases ((setCtx s k { s.ctx k with recvAio := none }).ctx k).sendAio with
    | none => rfl
    | some ua => dsimp only; rw [alias_dropSend]; rfl

theorem alias_installReq (s : State) (k a : Nat) (m : WMsg) (mode : Mode) (id : Nat) :
    (installReq s k a m mode id).alias = s.alias := by
  have e : ∀ r, (installPrep s k id m.body r).alias = s.alias := by
    intro r
    unfold installPrep
    dsimp only
    split
    · split
      · rw [alias_armTick]; rfl
      · rfl
    · rfl
  unfold installReq
  exact e _

theorem aext_ctxSend (s : State) (k a : Nat) (m : WMsg) (mode : Mode) : AExt s (ctxSend s k a m mode).1 := by
  unfold ctxSend
  split
  · exact AExt.refl s
  · dsimp only
    rw [ctxSendPrep_eq]
    split
    · exact AExt.of_eq (alias_finiChain s k _)
    · refine AExt.trans (AExt.of_eq ?_) (aext_runQ _ _)
      show (installReq _ k a m mode _).alias = _
      rw [alias_installReq]; exact alias_finiChain s k _

theorem alias_ctxRecv (s : State) (k a : Nat) (mode : Mode) : (ctxRecv s k a mode).1.alias = s.alias := by
  unfold ctxRecv
  dsimp only
  split
  · split <;> rfl
  · split
    · split <;> rfl
    · split <;> rfl

theorem alias_cancelSend (s : State) (k rv : Nat) : (cancelSend s k rv).1.alias = s.alias := by
  unfold cancelSend
  split
  · show (ctxReset _ k).alias = _; rw [alias_ctxReset, alias_dropSend]
  · rfl

theorem alias_cancelRecv (s : State) (k rv : Nat) : (cancelRecv s k rv).1.alias = s.alias := by
  unfold cancelRecv
  split
  · rfl
  · dsimp only
    rw [alias_ctxReset]
    cases (s.ctx k).sendAio with
    | none => rfl
    | some ua => exact alias_dropSend s k

theorem alias_ctxFini (s : State) (k : Nat) : (ctxFini s k).1.alias = s.alias :=
  alias_finiChain s k Err.eclosed

theorem aext_expireOne (s : State) (k : Nat) : AExt s (expireOne s k).1 := by
  unfold expireOne
  dsimp only
  have h1 : AExt s (if dueAio s.now (s.ctx k).recvAio = true then cancelRecv s k Err.etimedout else (s, [])).1 := by
    split
    · exact AExt.of_eq (alias_cancelRecv _ _ _)
    · exact AExt.refl s
  generalize (if dueAio s.now (s.ctx k).recvAio = true then cancelRecv s k Err.etimedout else (s, [])) = r1 at h1 ⊢
  split
  · exact h1.trans (AExt.of_eq (alias_cancelSend _ _ _))
  · exact h1

theorem aext_foldSteps (ks : List Nat) (f : State → Nat → State × List Out) (hf : ∀ s k, AExt s (f s k).1)
    (s : State) : AExt s (foldSteps ks f s).1 :=
  foldSteps_ind (fun t => AExt s t) ks f (fun t k ht => ht.trans (hf t k)) (AExt.refl s)

theorem aext_advance (s : State) (ms : Nat) : AExt s (advance s ms).1 := by
  unfold advance
  dsimp only
  have h1 : AExt s (foldSteps ctxKeys expireOne { s with now := s.now + ms }).1 :=
    (AExt.of_eq (s := s) (t := { s with now := s.now + ms }) rfl).trans (aext_foldSteps _ _ aext_expireOne _)
  generalize foldSteps ctxKeys expireOne { s with now := s.now + ms } = r at h1 ⊢
  split
  · split
    · exact h1.trans ((AExt.of_eq (by rfl)).trans (aext_retryCb _))
    · exact h1
  · exact h1

theorem aext_step (s : State) (ev : Ev) : AExt s (step s ev).1 := by
  unfold step
  split
  · split
    · split <;> exact AExt.of_eq rfl
    · exact AExt.of_eq rfl
    · exact AExt.refl s
  · split
    · split
      · exact AExt.of_eq rfl
      · exact AExt.refl s
    · split
      · exact AExt.refl s
      · dsimp only
        split
        · exact AExt.of_eq rfl
        · exact (AExt.of_eq (by rfl)).trans (aext_runQ _ _)
      · split
        · exact aext_pipeClose _ _
        · exact AExt.refl s
      · split
        · split
          · dsimp only
            have h1 : ∀ hh p pp, AExt s (setPipe (tranRelease s hh) p pp) :=
              fun hh p pp => AExt.of_eq (alias_tranRelease s hh)
            split
            · exact (h1 _ _ _).trans (aext_pipeClose _ _)
            · exact (h1 _ _ _).trans (aext_sendCb _ _)
          · exact AExt.refl s
        · exact AExt.refl s
      · split
        · dsimp only
          split
          · exact (AExt.of_eq (by rfl)).trans (aext_pipeClose _ _)
          · split
            · exact (AExt.of_eq (by rfl)).trans (aext_pipeClose _ _)
            · exact AExt.of_eq (alias_recvCb _ _ _)
        · exact AExt.refl s
      · split
        · exact AExt.refl s
        · split
          · exact AExt.refl s
          · split
            · exact AExt.refl s
            · exact aext_ctxSend _ _ _ _ _
      · split
        · exact AExt.refl s
        · split
          · exact AExt.refl s
          · split
            · exact AExt.refl s
            · exact AExt.of_eq (alias_ctxRecv _ _ _ _)
      · split
        · exact AExt.of_eq (alias_cancelRecv _ _ _)
        · exact AExt.of_eq (alias_cancelSend _ _ _)
        · exact AExt.refl s
      · split
        · exact AExt.of_eq (alias_cancelRecv _ _ _)
        · exact AExt.of_eq (alias_cancelSend _ _ _)
        · exact AExt.refl s
      · exact aext_advance _ _
      · split
        · exact AExt.refl s
        · split
          · exact AExt.refl s
          · exact AExt.of_eq rfl
      · split
        · exact AExt.refl s
        · split
          · exact AExt.of_eq (alias_ctxFini _ _)
          · exact AExt.refl s
      · (repeat' split) <;> exact AExt.of_eq rfl
      · (repeat' split) <;> exact AExt.refl s
      · exact AExt.refl s
      · exact AExt.refl s
      · exact AExt.refl s
      · dsimp only
        have h1 := aext_foldSteps ((List.range nCtxSlots).map (· + 1))
          (fun s k => if (s.ctx k).live then ctxFini s k else (s, []))
          (fun s k => by split; exact AExt.of_eq (alias_ctxFini s k); exact AExt.refl s) s
        generalize foldSteps ((List.range nCtxSlots).map (· + 1))
          (fun s k => if (s.ctx k).live then ctxFini s k else (s, [])) s = r1 at h1 ⊢
        have h2 := h1.trans (aext_foldSteps (List.range r1.1.npipes) pipeClose aext_pipeClose r1.1)
        generalize foldSteps (List.range r1.1.npipes) pipeClose r1.1 = r2 at h2 ⊢
        exact h2.trans (AExt.of_eq (alias_ctxFini _ 0))

theorem aext_run (evs : List Ev) (s : State) : AExt s (run s evs).1 := by
  induction evs generalizing s with
  | nil => exact AExt.refl s
  | cons e es ih => unfold run; exact (aext_step s e).trans (ih _)

end Nng.Req
