/- nni_id_visit enumerates exactly the stored (key, value) pairs, each once -/
import NngModel.Proofs.IdRefine
namespace Nng.IdHash
open Nng.QSpec

/-- the occupied slots among `n` slots starting at `c`, in slot order -/
def livePairs (es : List Entry) : Nat → Nat → List (Nat × Nat)
  | _, 0 => []
  | c, n + 1 =>
    if (ent es c).val ≠ 0 then ((ent es c).key, (ent es c).val) :: livePairs es (c + 1) n
    else livePairs es (c + 1) n

theorem mem_livePairs (es : List Entry) (k v : Nat) : ∀ (n c : Nat),
    (k, v) ∈ livePairs es c n ↔ ∃ i, c ≤ i ∧ i < c + n ∧ (ent es i).val ≠ 0 ∧ (ent es i).key = k ∧ (ent es i).val = v := by
  intro n
  induction n with
  | zero => intro c; simp [livePairs]; intro i h1 h2; omega
  | succ n ih =>
    intro c
    unfold livePairs
    by_cases hv : (ent es c).val ≠ 0
    · rw [if_pos hv, List.mem_cons, ih]
      constructor
      · rintro (e | ⟨i, h1, h2, h3⟩)
        · injection e with e1 e2
          exact ⟨c, Nat.le_refl _, by omega, hv, e1.symm, e2.symm⟩
        · exact ⟨i, by omega, by omega, h3⟩
      · rintro ⟨i, h1, h2, h3, h4, h5⟩
        by_cases hic : i = c
        · subst hic; exact Or.inl (by rw [h4, h5])
        · exact Or.inr ⟨i, by omega, by omega, h3, h4, h5⟩
    · rw [if_neg hv, ih]
      constructor
      · rintro ⟨i, h1, h2, h3⟩; exact ⟨i, by omega, by omega, h3⟩
      · rintro ⟨i, h1, h2, h3, h4, h5⟩
        have hic : i ≠ c := by intro e; subst e; exact hv h3
        exact ⟨i, by omega, by omega, h3, h4, h5⟩

theorem livePairs_keysNodup (es : List Entry)
    (hd : ∀ s s', (ent es s).val ≠ 0 → (ent es s').val ≠ 0 → (ent es s).key = (ent es s').key → s = s') :
    ∀ (n c : Nat), KeysNodup (livePairs es c n) := by
  intro n
  induction n with
  | zero => intro c; exact List.nodup_nil
  | succ n ih =>
    intro c
    unfold livePairs
    by_cases hv : (ent es c).val ≠ 0
    · rw [if_pos hv]
      show ((ent es c).key :: (livePairs es (c + 1) n).map (·.1)).Nodup
      rw [List.nodup_cons]
      refine ⟨?_, ih (c + 1)⟩
      intro hm
      obtain ⟨⟨k, v⟩, hp, hk⟩ := List.mem_map.mp hm
      obtain ⟨i, h1, _, h3, h4, _⟩ := (mem_livePairs es k v n (c + 1)).mp hp
      have : i = c := hd i c h3 hv (by rw [h4]; exact hk)
      omega
    · rw [if_neg hv]; exact ih (c + 1)

theorem visitLoop_spec (m : IdMap) (hlen : m.entries.length = m.cap) : ∀ (n index : Nat), index + n = m.cap →
    ((visitLoop m (n + 1) index true).1 = false ∧ livePairs m.entries index n = [] ∧
      (visitLoop m (n + 1) index true).2.2.2.2 = true) ∨
    ((visitLoop m (n + 1) index true).1 = true ∧ ∃ i, index ≤ i ∧ i < m.cap ∧ (ent m.entries i).val ≠ 0 ∧
      (visitLoop m (n + 1) index true).2.1 = (ent m.entries i).key ∧
      (visitLoop m (n + 1) index true).2.2.1 = (ent m.entries i).val ∧
      (visitLoop m (n + 1) index true).2.2.2.1 = i + 1 ∧
      (visitLoop m (n + 1) index true).2.2.2.2 = true ∧
      livePairs m.entries index n =
        ((ent m.entries i).key, (ent m.entries i).val) :: livePairs m.entries (i + 1) (m.cap - (i + 1))) := by
  intro n
  induction n with
  | zero =>
    intro index hi
    have : ¬ index < m.cap := by omega
    unfold visitLoop
    rw [if_neg this]
    exact Or.inl ⟨rfl, rfl, rfl⟩
  | succ n ih =>
    intro index hi
    have hlt : index < m.cap := by omega
    unfold visitLoop
    rw [if_pos hlt]
    simp only [rdE_fst, rdE_snd, hlen, hlt, decide_true, Bool.and_self]
    by_cases hv : (ent m.entries index).val ≠ 0
    · rw [if_pos hv]
      refine Or.inr ⟨rfl, index, Nat.le_refl _, hlt, hv, rfl, rfl, rfl, rfl, ?_⟩
      rw [livePairs, if_pos hv, show m.cap - (index + 1) = n by omega]
    · rw [if_neg hv]
      rcases ih (index + 1) (by omega) with ⟨a, b, c⟩ | ⟨a, i, h1, h2, h3, h4, h5, h6, h7, h8⟩
      · exact Or.inl ⟨a, by rw [livePairs, if_neg hv]; exact b, c⟩
      · exact Or.inr ⟨a, i, by omega, h2, h3, h4, h5, h6, h7, by rw [livePairs, if_neg hv]; exact h8⟩

/-- repeated nni_id_visit from cursor `c` yields the occupied slots from `c` on, in slot order, and stops -/
theorem visitAll_spec (m : IdMap) (hlen : m.entries.length = m.cap) : ∀ (f c : Nat) (acc : List (Nat × Nat)),
    c ≤ m.cap → m.cap - c + 1 ≤ f →
    visitAll m f c acc true = (acc ++ livePairs m.entries c (m.cap - c), true) := by
  intro f
  induction f with
  | zero => intro c acc _ h; omega
  | succ f ih =>
    intro c acc hc hf
    unfold visitAll idVisit
    rcases visitLoop_spec m hlen (m.cap - c) c (by omega) with ⟨a, b, d⟩ | ⟨a, i, h1, h2, h3, h4, h5, h6, h7, h8⟩
    · simp only [a, d, b, Bool.false_eq_true, if_false, Bool.and_self, List.append_nil]
    · simp only [a, if_true, h4, h5, h6, h7, Bool.and_self]
      rw [ih (i + 1) _ (by omega) (by omega), h8, List.append_assoc]
      rfl

theorem KeysNodup.nodup {l : List (Nat × Nat)} (h : KeysNodup l) : l.Nodup := by
  unfold KeysNodup at h
  rw [List.nodup_iff_pairwise_ne, List.pairwise_map] at h
  exact List.Pairwise.imp (fun hab e => hab (by rw [e])) h

/-- a full enumeration with nni_id_visit yields exactly the pairs of the finite map (each once; the
    order is the table's) and never leaves the table -/
theorem Rep.visit {m : IdMap} {s : IdSpec} (h : Rep m s) :
    visitAll m (m.cap + 1) 0 [] true = (livePairs m.entries 0 m.cap, true) ∧
    (livePairs m.entries 0 m.cap).Perm s.m ∧ KeysNodup (livePairs m.entries 0 m.cap) ∧
    sortPairs (livePairs m.entries 0 m.cap) = s.visit := by
  obtain ⟨dist, wf⟩ := h.wf
  have hn := livePairs_keysNodup m.entries wf.raw.distinct m.cap 0
  have hperm : (livePairs m.entries 0 m.cap).Perm s.m := ?_
  · exact ⟨by simpa using visitAll_spec m wf.raw.len (m.cap + 1) 0 [] (Nat.zero_le _) (by omega), hperm, hn,
      sortPairs_eq_of_perm hperm hn⟩
  rw [List.perm_ext_iff_of_nodup (KeysNodup.nodup hn) (KeysNodup.nodup h.nodup)]
  intro ⟨k, v⟩
  rw [mem_livePairs, h.has]
  constructor
  · rintro ⟨i, _, _, h3, h4, h5⟩; exact ⟨i, h4, h5, h5 ▸ h3⟩
  · rintro ⟨i, h4, h5, h6⟩
    have h3 : (ent m.entries i).val ≠ 0 := by rw [h5]; exact h6
    exact ⟨i, Nat.zero_le _, by have := wf.raw.lt h3; omega, h3, h4, h5⟩

end Nng.IdHash
