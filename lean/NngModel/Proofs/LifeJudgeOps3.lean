/-
  "The lifecycle judge accepts every trace of the lifecycle model" (C14 / C10), part 10:
  ops whose judge bookkeeping comes after the events and touches what the relation talks about:
  open (socket table), notify (callback mask), setopt_ep (largest reconnect time configured).
  Their effect on the model commutes with the firing of the timers.
-/
import NngModel.Proofs.LifeJudgeOps2
namespace Nng.LifeModel
open Nng.Life Nng.Generated
open Nng.LifeSpec (J JPipe JEp JSock upd put KU onOut opConnEp preOp postOp quiescent flat isRace)

/-- the model invariants of the state after a step give the model part of `Mid` -/
theorem Mid_final (st : State) (j : J) (op : LOp) (orc : List Nat) (hr : Rel st j) (jp' : J)
    (hn : jp'.now = (step st op orc).1.now) (h14 : jp'.err14 = none) (h10 : jp'.err10 = none)
    (hs : SocksRel (step st op orc).1 jp') (he : EpsRel noSel (step st op orc).1 jp') (hp : PipesRel (step st op orc).1 jp') :
    Mid noSel (step st op orc).1 jp' :=
  have hinv := step_Inv st op orc hr.inv
  ⟨hinv.g.s.w, step_inv st op orc hr.pinv, lso_of_G hinv.g, hn, h14, h10, hs, he, hp⟩

/-- ops whose effect on the model commutes with the firing of the timers and that report one result
    the judge ignores: the judge's bookkeeping after the events re-establishes the relation -/
theorem finish_commute (st : State) (j : J) (op : LOp) (orc : List Nat) (hr : Rel st j) (hu : st.unmodelled = false)
    (hrace : isRace op = false) (hpre : ∀ outs j', preOp false outs j' op = j') (hadv : advJ j op = j)
    (x : Int) (happ : (apply st op).2 = [.rv x]) (hrv : ∀ j', onOut op j' (.rv x) = j')
    (hout : (fireTimers orc (apply st op).1).2 = (fireTimers orc st).2)
    (hnow : (apply st op).1.now = st.now)
    (hfin : ∀ je, Mid noSel (fireTimers orc st).1 je → SameJ j je →
      (postOp ([.rv x] ++ (fireTimers orc st).2) je op).now = je.now ∧
      (postOp ([.rv x] ++ (fireTimers orc st).2) je op).err14 = none ∧
      (postOp ([.rv x] ++ (fireTimers orc st).2) je op).err10 = none ∧
      SocksRel (fireTimers orc (apply st op).1).1 (postOp ([.rv x] ++ (fireTimers orc st).2) je op) ∧
      EpsRel noSel (fireTimers orc (apply st op).1).1 (postOp ([.rv x] ++ (fireTimers orc st).2) je op) ∧
      PipesRel (fireTimers orc (apply st op).1).1 (postOp ([.rv x] ++ (fireTimers orc st).2) je op) ∧
      CtxsRel (fireTimers orc (apply st op).1).1 (postOp ([.rv x] ++ (fireTimers orc st).2) je op) ∧
      PendRel (fireTimers orc (apply st op).1).1 (postOp ([.rv x] ++ (fireTimers orc st).2) je op)) :
    Rel (step st op orc).1 (Nng.LifeSpec.step j op (step st op orc).2) := by
  obtain ⟨h1, s1⟩ := fire_fin noSel op orc st j hr.mid (noSel_triv _)
  obtain ⟨f1, f2, f3, f4, f5, f6, f7, f8⟩ := hfin _ h1 s1
  have hjs : Nng.LifeSpec.step j op (step st op orc).2 =
      quiescent (postOp ([.rv x] ++ (fireTimers orc st).2) ((fireTimers orc st).2.foldl (onOut op) j) op) := by
    rw [step_def st op orc hu]
    simp only
    rw [happ, hout, jstep_np j op _ _ hrace (by intro o ho; rw [List.mem_singleton.mp ho]; rfl) (fire_NP _ _), hpre, hadv]
    simp only [List.foldl_cons, List.foldl_nil, hrv]
  have hst : (step st op orc).1 = (fireTimers orc (apply st op).1).1 := by rw [step_def st op orc hu]
  apply assemble st j op orc hr _ hjs
  · apply Mid_final st j op orc hr
    · rw [f1, h1.now, hst]; show st.now = (apply st op).1.now; rw [hnow]
    · exact f2
    · exact f3
    · rw [hst]; exact f4
    · rw [hst]; exact f5
    · rw [hst]; exact f6
  · rw [hst]; exact f7
  · rw [hst]; exact f8

theorem fire_congr (orc : List Nat) (st st' : State) (he : st'.eps = st.eps) (hn : st'.now = st.now) :
    (fireTimers orc st').2 = (fireTimers orc st).2 ∧ (fireTimers orc st').1.eps = (fireTimers orc st).1.eps := by
  unfold fireTimers
  simp only [he, hn]
  exact ⟨trivial, trivial⟩


theorem postOp_openSock (outs : List LOut) (j : J) (s : Nat) (p : String) :
    postOp outs j (.openSock s p) =
      if (outs.contains (.rv 0) || outs.contains (.rvh 0)) = true then { j with socks := put j.socks s {} } else j := rfl

theorem sim_openSock (st : State) (j : J) (s : Nat) (p : String) (orc : List Nat) (hr : Rel st j) (hu : st.unmodelled = false)
    (hu' : (step st (.openSock s p) orc).1.unmodelled = false) :
    Rel (step st (.openSock s p) orc).1 (Nng.LifeSpec.step j (.openSock s p) (step st (.openSock s p) orc).2) := by
  have hua := unmodelled_apply hu hu'
  have h : apply st (.openSock s p) = (setSock st s fun _ => { proto := p, opened := true }, [.rv 0]) := by
    revert hua
    show (opOpen st s p).1.unmodelled = false → opOpen st s p = _
    unfold opOpen
    split
    · intro _; rfl
    · intro hh; cases hh
  have hfc := fire_congr orc st (apply st (.openSock s p)).1 (by rw [h]; rfl) (by rw [h]; rfl)
  refine finish_commute st j _ orc hr hu rfl (fun _ _ => rfl) rfl 0 (by rw [h]) (fun _ => rfl) hfc.1 (by rw [h]; rfl) ?_
  intro je hm hs
  rw [postOp_openSock, rv0_contains]
  simp only [decide_true, if_true]
  refine ⟨by first | rfl | trivial, hm.e14, hm.e10, ?_, hm.eps.congr hfc.2 rfl, ?_, ?_, ?_⟩
  · intro s'
    show SR _ ((put je.socks s {}).lookup s')
    rw [Nng.LifeSpec.lookup_put, h]
    by_cases hss : s' = s
    · subst hss
      simp only [if_true]
      have : ((fireTimers orc (setSock st s' fun _ => { proto := p, opened := true })).1.socks s') = { proto := p, opened := true } := by
        simp [fireTimers, setSock]
      rw [this]
      constructor
      · intro hh; cases hh
      · intro x hx; cases hx; exact ⟨rfl, rfl, fun _ => ⟨rfl, rfl⟩⟩
    · simp only [hss, if_false]
      have : ((fireTimers orc (setSock st s fun _ => { proto := p, opened := true })).1.socks s') = st.socks s' := by
        simp [fireTimers, setSock, hss]
      rw [this]
      exact hm.socks s'
  · rw [h]; exact hm.pipes
  · rw [h]; exact CtxsRel_of hr.ctxs rfl hs.2.2.1
  · rw [h]; exact PendRel_of hr.pend rfl hs.2.2.2.1

def jNotify (m : Nat) (c : Bool) (x : JSock) : JSock := { x with mask := m, cip := c }

theorem postOp_notify (outs : List LOut) (j : J) (s m : Nat) (c : Bool) :
    postOp outs j (.notify s m c) = { j with socks := upd j.socks s (jNotify m c) } := rfl

theorem sim_notify (st : State) (j : J) (s m : Nat) (c : Bool) (orc : List Nat) (hr : Rel st j) (hu : st.unmodelled = false) :
    Rel (step st (.notify s m c) orc).1 (Nng.LifeSpec.step j (.notify s m c) (step st (.notify s m c) orc).2) := by
  by_cases hc : (!(st.socks s).opened || (st.socks s).closed) = true
  · have h : apply st (.notify s m c) = (st, [.rv lifeEclosed]) := by
      show opNotify st s m c = _; unfold opNotify; simp only [hc, if_true]
    refine finish_commute st j _ orc hr hu rfl (fun _ _ => rfl) rfl _ (by rw [h]) (fun _ => rfl) (by rw [h]) (by rw [h]) ?_
    intro je hm hs
    rw [postOp_notify, h]
    refine ⟨rfl, hm.e14, hm.e10, ?_, hm.eps.congr rfl rfl, hm.pipes, CtxsRel_of hr.ctxs rfl hs.2.2.1,
      PendRel_of hr.pend rfl hs.2.2.2.1⟩
    intro s'
    show SR _ ((upd je.socks s (jNotify m c)).lookup s')
    rw [Nng.LifeSpec.lookup_upd]
    by_cases hss : s' = s
    · subst hss
      simp only [if_true]
      have hsr := hm.socks s'
      change SR (st.socks s') _ at hsr
      show SR (st.socks s') _
      cases hl : je.socks.lookup s' with
      | none => rw [hl] at hsr; exact hsr
      | some x =>
        rw [hl] at hsr
        obtain ⟨h1, h2, _⟩ := hsr.opened x rfl
        have hcl : (st.socks s').closed = true := by simpa [h1] using hc
        constructor
        · intro hh; cases hh
        · intro y hy
          simp only [Option.map_some, Option.some.injEq] at hy
          subst hy
          exact ⟨h1, h2, fun hh => by rw [hcl] at hh; cases hh⟩
    · simp only [hss, if_false]; exact hm.socks s'
  · have hopen : (st.socks s).opened = true ∧ (st.socks s).closed = false := by
      simp at hc; exact hc
    have h : apply st (.notify s m c) = (setSock st s fun k => { k with mask := m, cip := c }, [.rv 0]) := by
      show opNotify st s m c = _; unfold opNotify; simp only [hc, if_false, Bool.false_eq_true]
    have hfc := fire_congr orc st (apply st (.notify s m c)).1 (by rw [h]; rfl) (by rw [h]; rfl)
    refine finish_commute st j _ orc hr hu rfl (fun _ _ => rfl) rfl 0 (by rw [h]) (fun _ => rfl) hfc.1 (by rw [h]; rfl) ?_
    intro je hm hs
    rw [postOp_notify]
    refine ⟨rfl, hm.e14, hm.e10, ?_, hm.eps.congr hfc.2 rfl, ?_, ?_, ?_⟩
    · intro s'
      show SR _ ((upd je.socks s (jNotify m c)).lookup s')
      rw [Nng.LifeSpec.lookup_upd, h]
      by_cases hss : s' = s
      · subst hss
        simp only [if_true]
        have : ((fireTimers orc (setSock st s' fun k => { k with mask := m, cip := c })).1.socks s') =
            { st.socks s' with mask := m, cip := c } := by
          simp [fireTimers, setSock]
        rw [this]
        have hsr := hm.socks s'
        change SR (st.socks s') _ at hsr
        cases hl : je.socks.lookup s' with
        | none => have := hsr.unopened hl; rw [hopen.1] at this; cases this
        | some x =>
          obtain ⟨h1, h2, _⟩ := hsr.opened x hl
          constructor
          · intro hh; cases hh
          · intro y hy
            simp only [Option.map_some, Option.some.injEq] at hy
            subst hy
            exact ⟨h1, h2, fun _ => ⟨rfl, rfl⟩⟩
      · simp only [hss, if_false]
        have : ((fireTimers orc (setSock st s fun k => { k with mask := m, cip := c })).1.socks s') = st.socks s' := by
          simp [fireTimers, setSock, hss]
        rw [this]
        exact hm.socks s'
    · rw [h]; exact hm.pipes
    · rw [h]; exact CtxsRel_of hr.ctxs rfl hs.2.2.1
    · rw [h]; exact PendRel_of hr.pend rfl hs.2.2.2.1


theorem postOp_setoptEp (outs : List LOut) (j : J) (e : Nat) (n : String) (v : Int) :
    postOp outs j (.setoptEp e n v) =
      if (outs.contains (.rv 0) || outs.contains (.rvh 0)) = true then
        { j with eps := upd j.eps e fun x => { x with cfgMax := max x.cfgMax v } } else j := rfl

theorem filter_map_map_congr {α β : Type} (l : List α) (G : α → α) (p : α → Bool) (f : α → β)
    (h1 : ∀ x, p (G x) = p x) (h2 : ∀ x, f (G x) = f x) : ((l.map G).filter p).map f = (l.filter p).map f := by
  induction l with
  | nil => rfl
  | cons a rest ih =>
    simp only [List.map_cons, List.filter_cons, h1]
    split
    · simp only [List.map_cons, h2, ih]
    · exact ih

/-- a change of the reconnect times commutes with the firing of the timers -/
theorem fire_setEp (orc : List Nat) (st : State) (ei : Nat) (g : Ep → Ep)
    (hg : ∀ x, fireOne st.now orc (g x) = g (fireOne st.now orc x)) (ha : ∀ x, (g x).armed = x.armed)
    (hi : ∀ x, (g x).idx = x.idx) :
    (fireTimers orc (setEp st ei g)).2 = (fireTimers orc st).2 ∧
    (fireTimers orc (setEp st ei g)).1.eps = (fireTimers orc st).1.eps.map fun x => if x.idx == ei then g x else x := by
  have hfi : ∀ x, (fireOne st.now orc x).idx = x.idx := fun x => (fireOne_frame _ _ x).1
  have hG : ∀ x : Ep, fireOne st.now orc (if x.idx == ei then g x else x) =
      if (fireOne st.now orc x).idx == ei then g (fireOne st.now orc x) else fireOne st.now orc x := by
    intro x
    rw [hfi]
    by_cases hx : (x.idx == ei) = true
    · rw [if_pos hx, if_pos hx, hg]
    · rw [if_neg hx, if_neg hx]
  constructor
  · show (((st.eps.map fun x => if x.idx == ei then g x else x).filter
        fun e => (fireOne st.now orc e).armed && !e.armed).map fun e => LOut.earm e.idx) = _
    apply filter_map_map_congr
    · intro x
      by_cases hx : (x.idx == ei) = true
      · rw [if_pos hx, hg, ha, ha]
      · rw [if_neg hx]
    · intro x
      by_cases hx : (x.idx == ei) = true
      · rw [if_pos hx, hi]
      · rw [if_neg hx]
  · show (st.eps.map fun x => if x.idx == ei then g x else x).map (fireOne st.now orc) = _
    show _ = (st.eps.map (fireOne st.now orc)).map _
    rw [List.map_map, List.map_map]
    apply List.map_congr_left
    intro x _
    exact hG x


def gMax (v : Int) (x : Ep) : Ep := { x with maxr := v, cap := max x.cap v }
def gMin (v : Int) (x : Ep) : Ep := { x with inir := v, curr := v, cap := max x.cap v }

theorem fireOne_comm (now : Nat) (orc : List Nat) (g : Ep → Ep) (x : Ep)
    (h1 : (g x).dialer = x.dialer) (h2 : (g x).idx = x.idx) (h3 : (g x).timer = x.timer) (h4 : (g x).cool = x.cool)
    (h5 : ({ g x with timer := none, armed := true } : Ep) = g { x with timer := none, armed := true })
    (h6 : ({ g x with cool := none, armed := true } : Ep) = g { x with cool := none, armed := true }) :
    fireOne now orc (g x) = g (fireOne now orc x) := by
  have ht : ∀ b, timerFires now b (g x) = timerFires now b x := by intro b; unfold timerFires; rw [h3]
  have hf' : timerFires now (orc.contains (g x).idx) (g x) = timerFires now (orc.contains x.idx) x := by rw [h2, ht]
  unfold fireOne
  by_cases hd : x.dialer = true
  · rw [if_pos (h1.trans hd), if_pos hd]
    by_cases hf : timerFires now (orc.contains x.idx) x = true
    · rw [if_pos (hf'.trans hf), if_pos hf]; exact h5
    · rw [if_neg (by rw [hf']; exact hf), if_neg hf]
  · rw [if_neg (by rw [h1]; exact hd), if_neg hd]
    cases hc : x.cool with
    | none => rw [h4.trans hc]
    | some d =>
      rw [h4.trans hc]
      simp only
      by_cases hge : now ≥ d
      · rw [if_pos hge, if_pos hge]; exact h6
      · rw [if_neg hge, if_neg hge]
theorem fireOne_gMax (now : Nat) (orc : List Nat) (v : Int) (x : Ep) : fireOne now orc (gMax v x) = gMax v (fireOne now orc x) :=
  fireOne_comm now orc (gMax v) x rfl rfl rfl rfl rfl rfl
theorem fireOne_gMin (now : Nat) (orc : List Nat) (v : Int) (x : Ep) : fireOne now orc (gMin v x) = gMin v (fireOne now orc x) :=
  fireOne_comm now orc (gMin v) x rfl rfl rfl rfl rfl rfl

theorem ER_cfg {e : Ep} {x : JEp} (g : Ep → Ep) (v : Int) (h : ER noSel e x)
    (h1 : (g e).idx = e.idx) (h2 : (g e).sock = e.sock) (h3 : (g e).dialer = e.dialer) (h4 : (g e).closed = e.closed)
    (h5 : (g e).cap = max e.cap v) (h6 : (g e).userAio = e.userAio) (h7 : (g e).armed = e.armed) (h8 : (g e).timer = e.timer)
    (h9 : (g e).dPipe = e.dPipe) (h10 : (g e).cool = e.cool) :
    ER noSel (g e) { x with cfgMax := max x.cfgMax v } := by
  constructor
  · rw [h3]; exact h.dialer
  · rw [h2]; exact h.sock
  · rw [h1, h2, h3, h4]; exact h.closed
  · rw [h5]; show max x.cfgMax v = _; rw [h.cfg]
  · rw [h6]; exact h.sync
  · rw [h3, h7, h6]; exact h.bg
  · rw [h3, h8, h9, h6]; exact h.bg2
  · rw [h8]; exact h.redial
  · rw [h10]; exact h.accept

theorem sim_setoptEp (st : State) (j : J) (ei : Nat) (n : String) (v : Int) (orc : List Nat) (hr : Rel st j)
    (hu : st.unmodelled = false) (hu' : (step st (.setoptEp ei n v) orc).1.unmodelled = false) :
    Rel (step st (.setoptEp ei n v) orc).1 (Nng.LifeSpec.step j (.setoptEp ei n v) (step st (.setoptEp ei n v) orc).2) := by
  have hua := unmodelled_apply hu hu'
  have key : (∃ x : Int, x ≠ 0 ∧ apply st (.setoptEp ei n v) = (st, [.rv x])) ∨
      apply st (.setoptEp ei n v) = (setEp st ei (gMax v), [.rv 0]) ∨ apply st (.setoptEp ei n v) = (setEp st ei (gMin v), [.rv 0]) := by
    revert hua
    show (opSetoptEp st ei n v).1.unmodelled = false → _
    show _ → (∃ x : Int, x ≠ 0 ∧ opSetoptEp st ei n v = (st, [.rv x])) ∨ opSetoptEp st ei n v = _ ∨ opSetoptEp st ei n v = _
    unfold opSetoptEp
    split
    · intro _; left; exact ⟨_, by decide, rfl⟩
    · split
      · intro _; left; exact ⟨_, by decide, rfl⟩
      · split
        · intro _; left; exact ⟨_, by decide, rfl⟩
        · split
          · intro _; left; exact ⟨_, by decide, rfl⟩
          · split
            · intro _; right; left; rfl
            · split
              · intro _; right; right; rfl
              · intro hh; cases hh
  have hcomm : ∀ (g : Ep → Ep), (∀ x, fireOne st.now orc (g x) = g (fireOne st.now orc x)) → (∀ x, (g x).armed = x.armed) →
      (∀ x, (g x).idx = x.idx) → (∀ x, (g x).sock = x.sock) → (∀ x, (g x).dialer = x.dialer) → (∀ x, (g x).closed = x.closed) →
      (∀ x, (g x).cap = max x.cap v) → (∀ x, (g x).userAio = x.userAio) → (∀ x, (g x).timer = x.timer) →
      (∀ x, (g x).dPipe = x.dPipe) → (∀ x, (g x).cool = x.cool) →
      apply st (.setoptEp ei n v) = (setEp st ei g, [.rv 0]) →
      Rel (step st (.setoptEp ei n v) orc).1 (Nng.LifeSpec.step j (.setoptEp ei n v) (step st (.setoptEp ei n v) orc).2) := by
    intro g hg ha hi hso hd hcl hcap hua' htm hdp hco h
    have hfs := fire_setEp orc st ei g hg ha hi
    refine finish_commute st j _ orc hr hu rfl (fun _ _ => rfl) rfl 0 (by rw [h]) (fun _ => rfl) (by rw [h]; exact hfs.1)
      (by rw [h]; rfl) ?_
    intro je hm hs
    rw [postOp_setoptEp, rv0_contains]
    simp only [decide_true, if_true]
    rw [h]
    refine ⟨by first | rfl | trivial, hm.e14, hm.e10, hm.socks, ?_, hm.pipes, CtxsRel_of hr.ctxs rfl hs.2.2.1,
      PendRel_of hr.pend rfl hs.2.2.2.1⟩
    refine hm.eps.upd1 ei g (fun x => { x with cfgMax := max x.cfgMax v }) hfs.2 rfl hi ?_
    intro e _ x hx
    exact ⟨fun _ => ER_cfg g v hx (hi e) (hso e) (hd e) (hcl e) (hcap e) (hua' e) (ha e) (htm e) (hdp e) (hco e), fun _ => hx⟩
  rcases key with ⟨x, hx, h⟩ | h | h
  · refine finish_commute st j _ orc hr hu rfl (fun _ _ => rfl) rfl x (by rw [h]) (fun _ => rfl) (by rw [h]) (by rw [h]) ?_
    intro je hm hs
    rw [postOp_setoptEp, rv0_contains, h]
    simp only [hx, decide_false, Bool.false_eq_true, if_false]
    exact ⟨by first | rfl | trivial, hm.e14, hm.e10, hm.socks, hm.eps, hm.pipes, CtxsRel_of hr.ctxs rfl hs.2.2.1,
      PendRel_of hr.pend rfl hs.2.2.2.1⟩
  · exact hcomm (gMax v) (fireOne_gMax _ _ _) (fun _ => rfl) (fun _ => rfl) (fun _ => rfl) (fun _ => rfl) (fun _ => rfl)
      (fun _ => rfl) (fun _ => rfl) (fun _ => rfl) (fun _ => rfl) (fun _ => rfl) h
  · exact hcomm (gMin v) (fireOne_gMin _ _ _) (fun _ => rfl) (fun _ => rfl) (fun _ => rfl) (fun _ => rfl) (fun _ => rfl)
      (fun _ => rfl) (fun _ => rfl) (fun _ => rfl) (fun _ => rfl) (fun _ => rfl) h

end Nng.LifeModel
