/- relation preservation: configuration calls, the clock, nng_aio_result, the calls of close / stop -/
import NngModel.Proofs.AioJudgeRel
namespace Nng.Aio
open Nng.AioSpec

variable {s s' : State} {g : G} {j : J} {k : Nat}

set_option maxHeartbeats 1000000 in
theorem rel_tick (d : Nat) (hR : R k s g j) (i1 : Inv1 s) (i2 : Inv2 s) (i3 : Inv3 s) (i4 : Inv4 s)
    (hs : step Cfg.fixed s (.tick d) = some s') :
    R k s' (gStep s g (.tick d)) (judgeFrom j (obsX s g (.tick d))) := by
  simp only [obsX, obsOf, obsExtra, gStep, judgeFrom, List.append_nil, List.foldl, jstep_tick hR.base.err hR.base.nfree]
  step_cases hs
  r_open hR
  refine ⟨?_, ?_, ht⟩
  · rb_close
  · intro o ho
    rcases hh o ho with ⟨r1,r2,r3,r4,r5,r6,r7,r8,r9,r10,r11,r12,r13,r14,r15,r16,r17,r18,r19,r20,r21,r22⟩
    rh_try
    · intro a b; exact timeoutDue_mono (r4 a b) (by omega)
    · intro a b
      rcases r16 a b with h | h
      · exact Or.inl h
      · exact Or.inr (timeoutDue_mono h (by omega))

set_option maxHeartbeats 1000000 in
theorem rel_setTimeout (t : Tmo) (hR : R k s g j) (i1 : Inv1 s) (i2 : Inv2 s) (i3 : Inv3 s) (i4 : Inv4 s)
    (hs : step Cfg.fixed s (.setTimeout t) = some s') :
    R k s' (gStep s g (.setTimeout t)) (judgeFrom j (obsX s g (.setTimeout t))) := by
  simp only [obsX, obsOf, obsExtra, gStep, judgeFrom, List.append_nil, List.foldl, jstep_setTimeout hR.base.err hR.base.nfree]
  step_cases hs
  rename_i hi
  simp only [Bool.and_eq_true] at hi
  obtain ⟨a1,a2,a3,a4,a5,a6,a7,a8,a9,a10⟩ := idle_facts i1 hi.1
  r_same hR

set_option maxHeartbeats 1000000 in
theorem rel_setExpire (e : Nat) (hR : R k s g j) (i1 : Inv1 s) (i2 : Inv2 s) (i3 : Inv3 s) (i4 : Inv4 s)
    (hs : step Cfg.fixed s (.setExpire e) = some s') :
    R k s' (gStep s g (.setExpire e)) (judgeFrom j (obsX s g (.setExpire e))) := by
  simp only [obsX, obsOf, obsExtra, gStep, judgeFrom, List.append_nil, List.foldl, jstep_setExpire hR.base.err hR.base.nfree]
  step_cases hs
  rename_i hi
  simp only [Bool.and_eq_true] at hi
  obtain ⟨a1,a2,a3,a4,a5,a6,a7,a8,a9,a10⟩ := idle_facts i1 hi.1
  r_same hR

set_option maxHeartbeats 1000000 in
theorem rel_skipArm (hR : R k s g j) (i1 : Inv1 s) (i2 : Inv2 s) (i3 : Inv3 s) (i4 : Inv4 s)
    (hs : step Cfg.fixed s .skipArm = some s') :
    R k s' (gStep s g .skipArm) (judgeFrom j (obsX s g .skipArm)) := by
  simp only [obsX, obsOf, obsExtra, gStep, judgeFrom, List.append_nil, List.foldl, jstep_skipArm hR.base.err hR.base.nfree]
  step_cases hs
  r_same hR

set_option maxHeartbeats 1000000 in
theorem rel_peek (hR : R k s g j)
    (hs : step Cfg.fixed s .peek = some s') :
    R k s' (gStep s g .peek) (judgeFrom j (obsX s g .peek)) := by
  have hj : AioSpec.step j (.peek s.result) = j :=
    jstep_peek hR.base.err hR.base.nfree s.result (fun a x b => (hR.base.peek a x b).symm)
  simp only [obsX, obsOf, obsExtra, gStep, judgeFrom, List.append_nil, List.foldl, hj]
  step_cases hs
  exact hR

set_option maxHeartbeats 1000000 in
theorem rel_closeCall (hR : R k s g j) (i1 : Inv1 s) (i2 : Inv2 s) (i3 : Inv3 s) (i4 : Inv4 s)
    (hs : step Cfg.fixed s .closeCall = some s') :
    R k s' (gStep s g .closeCall) (judgeFrom j (obsX s g .closeCall)) := by
  simp only [obsX, obsOf, obsExtra, gStep, judgeFrom, List.append_nil, List.foldl,
    (jstep_stopCalled hR.base.err hR.base.nfree).1]
  step_cases hs
  r_same hR

set_option maxHeartbeats 1000000 in
theorem rel_stopCall (f : Bool) (hR : R k s g j) (i1 : Inv1 s) (i2 : Inv2 s) (i3 : Inv3 s) (i4 : Inv4 s)
    (hk0 : f = true → k = 0)
    (hs : step Cfg.fixed s (.stopCall f) = some s') :
    R k s' (gStep s g (.stopCall f)) (judgeFrom j (obsX s g (.stopCall f))) := by
  have hj : AioSpec.step j (if f = true then Obs.freeCall else Obs.stopCall) = { j with stopCalled := true } := by
    cases f
    · exact (jstep_stopCalled hR.base.err hR.base.nfree).2.1
    · exact (jstep_stopCalled hR.base.err hR.base.nfree).2.2
  simp only [obsX, obsOf, obsExtra, gStep, judgeFrom, List.append_nil, List.foldl, hj]
  step_cases hs
  r_same hR

end Nng.Aio
