/-
  One-step facts about the REQ model's callbacks (all states, no invariant needed) and the
  lifting of the invariant of Proofs/ReqInv.lean to every history.
-/
import NngModel.Proofs.ReqInv
namespace Nng.Req
open Nng Nng.Proto

theorem inv_run (evs : List Ev) {s : State} (h : Inv s) : Inv (run s evs).1 := by
  induction evs generalizing s with
  | nil => exact h
  | cons e es ih =>
    unfold run
    exact ih (inv_step h e)

theorem inv_reachable (evs : List Ev) : Inv (run {} evs).1 := inv_run evs inv_init

/-! ### replies -/

theorem acceptPrep_ctx (s : State) (k : Nat) : (acceptPrep s k).ctx = s.ctx := by
  unfold acceptPrep
  dsimp only
  split
  · simp only [ctxRelease]; split
    · rfl
    · simp only [flag]; split <;> rfl
  · rfl

theorem acceptPrep_idmap (s : State) (k : Nat) : (acceptPrep s k).idmap = s.idmap := (same_acceptPrep s k).1

/-- the condition under which req0_recv_cb takes a reply -/
def Accepts (s : State) (iid k : Nat) : Prop :=
  s.idmap iid = some k ∧ (s.ctx k).sendAio = none ∧ (s.ctx k).repMsg = none

theorem recvCb_none (s : State) (b : Bytes) : recvCb s none b = (s, []) := by
  simp [recvCb]

theorem recvCb_unknown (s : State) (iid : Nat) (b : Bytes) (h : s.idmap iid = none) :
    recvCb s (some iid) b = (s, []) := by
  simp [recvCb, h]

theorem recvCb_not_wired (s : State) (iid k : Nat) (b : Bytes) (h : s.idmap iid = some k)
    (hs : (s.ctx k).sendAio.isSome) : recvCb s (some iid) b = (s, []) := by
  simp [recvCb, h, hs]

theorem recvCb_duplicate (s : State) (iid k : Nat) (b : Bytes) (h : s.idmap iid = some k)
    (hs : (s.ctx k).repMsg.isSome) : recvCb s (some iid) b = (s, []) := by
  simp [recvCb, h, hs]

/-- a completion with a message comes out of req0_recv_cb only for the context the id maps to,
    only if it accepts, and carries exactly the reply's body -/
theorem recvCb_delivers (s : State) (iid? : Option Nat) (b : Bytes) (a : Nat) (rv : Nat) (m : Option WMsg) (mb : Bool)
    (h : Out.done a rv m mb ∈ (recvCb s iid? b).2) :
    ∃ iid k ua, iid? = some iid ∧ Accepts s iid k ∧ (s.ctx k).recvAio = some ua ∧ ua.aio = a ∧
      rv = 0 ∧ m = some ⟨[], b⟩ := by
  unfold recvCb at h
  split at h
  · simp at h
  · rename_i iid
    split at h
    · simp at h
    · rename_i k hk
      dsimp only at h
      split at h
      · simp at h
      · rename_i hc
        split at h
        · rename_i ua hua
          simp at h
          obtain ⟨h1, h2, h3, _⟩ := h
          refine ⟨iid, k, ua, rfl, ⟨hk, ?_, ?_⟩, hua, h1.symm, h2, h3⟩
          · cases hx : (s.ctx k).sendAio <;> simp_all
          · cases hx : (s.ctx k).repMsg <;> simp_all
        · simp at h

/-- an accepted reply removes the id: a second copy of the same reply finds nothing -/
theorem recvCb_consumes (s : State) (iid k : Nat) (b : Bytes) (h : Accepts s iid k) :
    (recvCb s (some iid) b).1.idmap iid = none ∧ ((recvCb s (some iid) b).1.ctx k).requestId = 0 ∧
    iid ∈ (recvCb s (some iid) b).1.accepted := by
  obtain ⟨h1, h2, h3⟩ := h
  unfold recvCb
  simp only [h1, h2, h3, Option.isSome_none, Bool.or_self, Bool.false_eq_true, if_false]
  split
  · simp [setCtx, upd]
  · split <;> simp [setCtx, upd]

/-- contexts other than the one the id maps to are untouched by a reply, accepted or not -/
theorem recvCb_others (s : State) (iid? : Option Nat) (b : Bytes) (k' : Nat)
    (h : ∀ iid, iid? = some iid → s.idmap iid ≠ some k') : (recvCb s iid? b).1.ctx k' = s.ctx k' := by
  unfold recvCb
  split
  · rfl
  · rename_i iid
    split
    · rfl
    · rename_i k hk
      have hne : k' ≠ k := by intro e; subst e; exact h iid rfl hk
      dsimp only
      split
      · rfl
      · split
        · simp [setCtx, upd, hne, acceptPrep_ctx]
        · split <;> simp [setCtx, upd, hne, acceptPrep_ctx]

theorem resolveWire_low (s : State) (v : Nat) (h : v < idMin) : resolveWire s v = none := by
  simp [resolveWire, h]

theorem resolveWire_unknown (s : State) (v : Nat) (h : s.alias.length ≤ (v - idMin) % relBase) :
    resolveWire s v = none := by
  unfold resolveWire
  split
  · rfl
  · have : s.alias[(v - idMin) % relBase]? = none := by simp [h]
    rw [this]

/-! ### state machine errors -/

theorem ctxRecv_estate_no_request (s : State) (k a : Nat) (mode : Mode)
    (h1 : (s.ctx k).reqMsg = none) (h2 : (s.ctx k).repMsg = none) (h3 : (s.ctx k).connReset = false) :
    ctxRecv s k a mode = (s, [Out.done a Err.estate none false]) := by
  simp [ctxRecv, h1, h2, h3]

theorem ctxRecv_estate_second (s : State) (k a : Nat) (mode : Mode)
    (h1 : (s.ctx k).recvAio.isSome) (h3 : (s.ctx k).connReset = false) :
    ctxRecv s k a mode = (s, [Out.done a Err.estate none false]) := by
  simp [ctxRecv, h1, h3]

theorem ctxRecv_latched (s : State) (k a : Nat) (mode : Mode)
    (h1 : (s.ctx k).reqMsg = none) (h2 : (s.ctx k).repMsg = none) (h3 : (s.ctx k).connReset = true) :
    ctxRecv s k a mode = (setCtx s k { s.ctx k with connReset := false }, [Out.done a Err.econnreset none false]) := by
  simp [ctxRecv, h1, h2, h3]

/-! ### connection loss -/

theorem closeOne_econnreset (s : State) (p k : Nat) (ua : UAio)
    (hr : (s.ctx k).retry ≤ 0) (ha : (s.ctx k).recvAio = some ua) :
    (closeOne s p k).2 = [Out.done ua.aio Err.econnreset none false] ∧
    ((closeOne s p k).1.ctx k).reqMsg = none ∧ ((closeOne s p k).1.ctx k).recvAio = none := by
  unfold closeOne
  simp only [setPipe, hr, ha, if_true]
  refine ⟨trivial, ?_, ?_⟩ <;> rw [(ctxReset_shape _ k).2.2.2.2] <;> simp [setCtx]

theorem closeOne_latch (s : State) (p k : Nat)
    (hr : (s.ctx k).retry ≤ 0) (ha : (s.ctx k).recvAio = none) :
    (closeOne s p k).2 = [] ∧ ((closeOne s p k).1.ctx k).connReset = true ∧
    ((closeOne s p k).1.ctx k).reqMsg = none ∧ ((closeOne s p k).1.ctx k).repMsg = none := by
  unfold closeOne
  simp only [setPipe, hr, ha, if_true]
  refine ⟨trivial, by simp [setCtx], ?_, ?_⟩ <;> simp only [setCtx, upd_same] <;> rw [(ctxReset_shape _ k).2.2.2.2]

theorem closeOne_requeue (s : State) (p k : Nat)
    (hr : 0 < (s.ctx k).retry) (hm : (s.ctx k).reqMsg.isSome) (hq : k ∉ s.sendQueue) :
    closeOne s p k =
      runSendQueue { (setCtx (setPipe s p { s.pipe p with ctxs := (s.pipe p).ctxs.erase k }) k
                        { s.ctx k with retryTime := s.now + (s.ctx k).retry.toNat }) with
                     sendQueue := s.sendQueue ++ [k] } := by
  unfold closeOne
  have : ¬ (s.ctx k).retry ≤ 0 := by omega
  simp [setPipe, setCtx, this, hm, hq]

end Nng.Req
