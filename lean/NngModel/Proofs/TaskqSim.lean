/- The task layer as Model/Aio.lean sees it (five fields: task_busy, task_prep, queued, popped, inCb and
   the transitions prepare / dispatch / pop / cbRead / cbDone / stopWait), and the proof that the
   fine-grained model of taskq.c refines it: every step of Model/Taskq.lean is matched by zero to four
   transitions of that abstract layer (forward simulation with stuttering). -/
import NngModel.Proofs.TaskqInv
import NngModel.Model.Aio
import NngModel.Proofs.Aio
namespace Nng.Taskq

structure Abs where
  busy : Nat
  prep : Bool
  queued : Nat
  popped : Nat
  inCb : Nat
  deriving DecidableEq, Repr

inductive ALabel
  | prepare | dispatch | pop | cbRead | cbDone | waitRet
  deriving DecidableEq, Repr

/-- the transitions, copied from Model/Aio.lean (`prepare`'s task part, `dispatch`, `pop`, `cbRead`,
    `cbDone`, `stopWait`); theorems `aio_*` below check the copy against the original -/
def Abs.step (a : Abs) : ALabel → Option Abs
  | .prepare => some { a with busy := a.busy + 1, prep := true }
  | .dispatch =>
    some (if a.prep then { a with prep := false, queued := a.queued + 1 }
          else { a with busy := a.busy + 1, queued := a.queued + 1 })
  | .pop => if a.queued > 0 then some { a with queued := a.queued - 1, popped := a.popped + 1 } else none
  | .cbRead => if a.popped > 0 then some { a with popped := a.popped - 1, inCb := a.inCb + 1 } else none
  | .cbDone => if a.inCb > 0 then some { a with inCb := a.inCb - 1, busy := a.busy - 1 } else none
  | .waitRet => if a.busy == 0 then some a else none

def Abs.run (a : Abs) : List ALabel → Option Abs
  | [] => some a
  | l :: ls => match a.step l with
    | some a' => Abs.run a' ls
    | none => none

/-- the abstraction: a dispatcher between its two critical sections counts as queued, a caller of
    nni_task_exec about to enter the callback as popped, and an execution whose callback has returned
    but whose decrement is still to come as still in the callback (Aio's `cbDone` IS that decrement) -/
def absOf (s : State) : Abs :=
  { busy := s.busy, prep := s.prep,
    queued := cc .dispEnq s.cs + s.onq.toNat,
    popped := cw .popped s.ws + cc .execPop s.cs,
    inCb := cw .inCb s.ws + cw .after s.ws + cc .execCb s.cs + cc .execAfter s.cs }

def labelsC (hasCb : Bool) (s : State) (c : Client) : List ALabel :=
  match c.pc with
  | .idle =>
    match c.prog with
    | [] => []
    | .prep :: _ => [.prepare]
    | .dispatch :: _ => if hasCb then [.dispatch] else [.dispatch, .pop, .cbRead, .cbDone]
    | .exec :: _ => if hasCb then [.dispatch, .pop] else [.dispatch, .pop, .cbRead, .cbDone]
    | .wait :: _ => if s.busy = 0 then [.waitRet] else []
    | .busy :: _ => []
  | .dispEnq => []
  | .execPop => [.cbRead]
  | .execCb => []
  | .execAfter => [.cbDone]
  | .waitSleep => []
  | .waitChk => if s.busy = 0 then [.waitRet] else []

def labelsW (s : State) : WPc → List ALabel
  | .ready => if s.onq then [.pop] else []
  | .sleep => []
  | .popped => [.cbRead]
  | .inCb => []
  | .after => [.cbDone]

/-- the abstract transitions that match one concrete step -/
def labelsOf (hasCb : Bool) (s : State) (ch : Choice) : List ALabel :=
  if s.panic then [] else
  match ch.tid with
  | .w j => match s.ws[j]? with
    | none => []
    | some w => labelsW s w
  | .c i => match s.cs[i]? with
    | none => []
    | some c => labelsC hasCb s c

theorem sim_wstep {s : State} (h : Inv s) {j : Nat} {w : WPc} (hj : s.ws[j]? = some w) :
    Abs.run (absOf s) (labelsW s w) = some (absOf (wstep s j w)) := by
  have hp := fun w' => cw_set hj w' .popped
  have hi := fun w' => cw_set hj w' .inCb
  have ha := fun w' => cw_set hj w' .after
  have hpos := cw_pos hj
  cases w with
  | sleep => rfl
  | ready =>
    have hp1 := hp .popped; have hi1 := hi .popped; have ha1 := ha .popped
    have hp2 := hp .sleep; have hi2 := hi .sleep; have ha2 := ha .sleep
    simp [indW] at hp1 hi1 ha1 hp2 hi2 ha2
    unfold wstep labelsW
    by_cases hq : s.onq = true
    · have hg : 0 < cc .dispEnq s.cs + 1 := by omega
      simp [hq, Abs.run, Abs.step, absOf, hp1, hi1, ha1, hg]; omega
    · simp [hq, Abs.run, absOf, hp2, hi2, ha2]
  | popped =>
    have hp1 := hp .inCb; have hi1 := hi .inCb; have ha1 := ha .inCb
    simp [indW] at hp1 hi1 ha1
    have hg : 0 < cw .popped s.ws + cc .execPop s.cs := by omega
    simp [wstep, labelsW, Abs.run, Abs.step, absOf, hi1, ha1, hg]; omega
  | inCb =>
    have hp1 := hp .after; have hi1 := hi .after; have ha1 := ha .after
    simp [indW] at hp1 hi1 ha1
    simp [wstep, labelsW, Abs.run, absOf, hp1, ha1]; omega
  | after =>
    have hp1 := hp .ready; have hi1 := hi .ready; have ha1 := ha .ready
    simp [indW] at hp1 hi1 ha1
    have hg : 0 < cw .inCb s.ws + cw .after s.ws + cc .execCb s.cs + cc .execAfter s.cs := by omega
    unfold wstep decBusy labelsW
    by_cases hb : s.busy = 1
    · simp [hb, Abs.run, Abs.step, absOf, hp1, hi1, cc_wakeAll, hg]; omega
    · simp [hb, Abs.run, Abs.step, absOf, hp1, hi1, hg]; omega

set_option hygiene false in
local macro "cfacts" hi:ident c:term : tactic => `(tactic| (
  have e1 := cc_set $hi $c .dispEnq
  have e2 := cc_set $hi $c .execPop
  have e3 := cc_set $hi $c .execCb
  have e4 := cc_set $hi $c .execAfter
  simp [indC] at e1 e2 e3 e4))

theorem sim_cstep (hasCb : Bool) {s : State} (h : Inv s) {i : Nat} {c : Client} (hi : s.cs[i]? = some c) (pick : Nat) :
    Abs.run (absOf s) (labelsC hasCb s c) = some (absOf (cstep hasCb s i c pick)) := by
  have hpos := cc_pos hi
  obtain ⟨pc, prog, res⟩ := c
  cases pc with
  | waitSleep => rfl
  | idle =>
    cases prog with
    | nil => rfl
    | cons op r =>
      cases op with
      | prep =>
        cfacts hi (⟨.idle, r, res⟩ : Client)
        simp [cstep, labelsC, Abs.run, Abs.step, absOf, e1, e2, e3, e4]
      | busy =>
        cfacts hi (⟨.idle, r, res ++ [.busy (s.busy != 0)]⟩ : Client)
        simp [cstep, labelsC, Abs.run, absOf, e1, e2, e3, e4]
      | wait =>
        unfold cstep labelsC
        by_cases hb : s.busy = 0
        · cfacts hi (⟨.idle, r, res ++ [.waited]⟩ : Client)
          simp [hb, Abs.run, Abs.step, absOf, e1, e2, e3, e4]
        · cfacts hi (⟨.waitSleep, r, res⟩ : Client)
          simp [hb, Abs.run, absOf, e1, e2, e3, e4]
      | dispatch =>
        unfold cstep take labelsC
        cases hasCb with
        | true =>
          cfacts hi (⟨.dispEnq, r, res⟩ : Client)
          by_cases hp : s.prep = true
          · simp [hp, Abs.run, Abs.step, absOf, e1, e2, e3, e4]; omega
          · simp [hp, Abs.run, Abs.step, absOf, e1, e2, e3, e4]; omega
        | false =>
          cfacts hi (⟨.idle, r, res⟩ : Client)
          unfold decBusy
          by_cases hp : s.prep = true
          · by_cases hb : s.busy = 1
            · simp [hp, hb, Abs.run, Abs.step, absOf, cc_wakeAll, e1, e2, e3, e4]
            · simp [hp, hb, Abs.run, Abs.step, absOf, e1, e2, e3, e4]
          · by_cases hb : s.busy = 0
            · simp [hp, hb, Abs.run, Abs.step, absOf, cc_wakeAll, e1, e2, e3, e4]
            · simp [hp, hb, Abs.run, Abs.step, absOf, e1, e2, e3, e4]
      | exec =>
        unfold cstep take labelsC
        cases hasCb with
        | true =>
          cfacts hi (⟨.execPop, r, res⟩ : Client)
          by_cases hp : s.prep = true
          · simp [hp, Abs.run, Abs.step, absOf, e1, e2, e3, e4]; omega
          · simp [hp, Abs.run, Abs.step, absOf, e1, e2, e3, e4]; omega
        | false =>
          cfacts hi (⟨.idle, r, res⟩ : Client)
          unfold decBusy
          by_cases hp : s.prep = true
          · by_cases hb : s.busy = 1
            · simp [hp, hb, Abs.run, Abs.step, absOf, cc_wakeAll, e1, e2, e3, e4]
            · simp [hp, hb, Abs.run, Abs.step, absOf, e1, e2, e3, e4]
          · by_cases hb : s.busy = 0
            · simp [hp, hb, Abs.run, Abs.step, absOf, cc_wakeAll, e1, e2, e3, e4]
            · simp [hp, hb, Abs.run, Abs.step, absOf, e1, e2, e3, e4]
  | dispEnq =>
    unfold cstep labelsC
    by_cases hq : s.onq = true
    · simp [hq, Abs.run, absOf]
    · cfacts hi (⟨.idle, prog, res⟩ : Client)
      have hw1 := cw_wakeOne .popped s.ws pick (by decide) (by decide)
      have hw2 := cw_wakeOne .inCb s.ws pick (by decide) (by decide)
      have hw3 := cw_wakeOne .after s.ws pick (by decide) (by decide)
      simp only [] at hpos
      simp [hq, Abs.run, absOf, hw1, hw2, hw3, e2, e3, e4]; omega
  | execPop =>
    cfacts hi (⟨.execCb, prog, res⟩ : Client)
    simp only [] at hpos
    have hg : 0 < cw .popped s.ws + cc .execPop s.cs := by omega
    simp [cstep, labelsC, Abs.run, Abs.step, absOf, e1, e3, e4, hg]; omega
  | execCb =>
    cfacts hi (⟨.execAfter, prog, res⟩ : Client)
    simp only [] at hpos
    simp [cstep, labelsC, Abs.run, absOf, e1, e2, e4]; omega
  | execAfter =>
    cfacts hi (⟨.idle, prog, res⟩ : Client)
    simp only [] at hpos
    have hg : 0 < cw .inCb s.ws + cw .after s.ws + cc .execCb s.cs + cc .execAfter s.cs := by omega
    unfold cstep decBusy labelsC
    by_cases hb : s.busy = 1
    · simp [hb, Abs.run, Abs.step, absOf, cc_wakeAll, e1, e2, e3, hg]; omega
    · simp [hb, Abs.run, Abs.step, absOf, e1, e2, e3, hg]; omega
  | waitChk =>
    unfold cstep labelsC
    by_cases hb : s.busy = 0
    · cfacts hi (⟨.idle, prog, res ++ [.waited]⟩ : Client)
      simp [hb, Abs.run, Abs.step, absOf, e1, e2, e3, e4]
    · cfacts hi (⟨.waitSleep, prog, res⟩ : Client)
      simp [hb, Abs.run, absOf, e1, e2, e3, e4]

/-- forward simulation: every step of the model of taskq.c is a (possibly empty) sequence of transitions of the
    task layer as Model/Aio.lean abstracts it -/
theorem simulates (hasCb : Bool) {s : State} (h : Inv s) (ch : Choice) :
    Abs.run (absOf s) (labelsOf hasCb s ch) = some (absOf (step hasCb s ch)) := by
  unfold step labelsOf
  split
  · rfl
  · cases ch.tid with
    | w j =>
      simp only []
      cases hj : s.ws[j]? with
      | none => rfl
      | some w => exact sim_wstep h hj
    | c i =>
      simp only []
      cases hi : s.cs[i]? with
      | none => rfl
      | some c => exact sim_cstep hasCb h hi ch.pick

theorem Abs.run_append (a : Abs) (l1 l2 : List ALabel) :
    Abs.run a (l1 ++ l2) = (Abs.run a l1).bind (fun b => Abs.run b l2) := by
  induction l1 generalizing a with
  | nil => rfl
  | cons l ls ih =>
    simp only [List.cons_append, Abs.run]
    cases a.step l with
    | none => rfl
    | some a' => exact ih a'

/-- all the abstract transitions of a schedule -/
def labelsRun (hasCb : Bool) (s : State) : List Choice → List ALabel
  | [] => []
  | ch :: rest => labelsOf hasCb s ch ++ labelsRun hasCb (step hasCb s ch) rest

theorem simulates_run (hasCb : Bool) {s : State} (h : Inv s) (sched : List Choice) :
    Abs.run (absOf s) (labelsRun hasCb s sched) = some (absOf (run hasCb s sched)) := by
  induction sched generalizing s with
  | nil => rfl
  | cons ch rest ih =>
    simp only [labelsRun, run, List.foldl_cons, Abs.run_append, simulates hasCb h ch, Option.bind_some]
    exact ih (inv_step hasCb h ch)

/-! ### the copy agrees with Model/Aio.lean -/

def projAio (s : Aio.State) : Abs :=
  { busy := s.busy, prep := s.prep, queued := s.queued, popped := s.popped, inCb := s.inCb }

theorem aio_dispatch (s : Aio.State) : (projAio s).step .dispatch = some (projAio (Aio.dispatch s)) := by
  unfold Aio.dispatch Abs.step projAio
  cases s.prep <;> simp

theorem aio_pop (cfg : Aio.Cfg) (s s' : Aio.State) (h : Aio.step cfg s .pop = some s') :
    (projAio s).step .pop = some (projAio s') := by
  simp only [Aio.step] at h
  split at h
  · cases h; simp [Abs.step, projAio, *]
  · cases h

theorem aio_cbRead (cfg : Aio.Cfg) (s s' : Aio.State) (h : Aio.step cfg s .cbRead = some s') :
    (projAio s).step .cbRead = some (projAio s') := by
  simp only [Aio.step] at h
  split at h
  · cases h; simp [Abs.step, projAio, *]
  · cases h

theorem aio_cbDone (cfg : Aio.Cfg) (s s' : Aio.State) (h : Aio.step cfg s .cbDone = some s') :
    (projAio s).step .cbDone = some (projAio s') := by
  simp only [Aio.step] at h
  split at h
  · rename_i hc
    cases h
    simp only [Bool.and_eq_true, decide_eq_true_eq] at hc
    simp [Abs.step, projAio, hc.1]
  · cases h

theorem aio_stopWait (cfg : Aio.Cfg) (s s' : Aio.State) (h : Aio.step cfg s .stopWait = some s') :
    (projAio s).step .waitRet = some (projAio s') := by
  simp only [Aio.step] at h
  split at h
  · rename_i hc
    cases h
    simp only [Bool.and_eq_true, beq_iff_eq] at hc
    simp [Abs.step, projAio, hc.2]
  · cases h

theorem aio_prepare (cfg : Aio.Cfg) (s s' : Aio.State) (h : Aio.step cfg s .prepare = some s') :
    (projAio s).step .prepare = some (projAio s') := by
  simp only [Aio.step] at h
  split at h
  · cases h
  · split at h <;> first
      | (cases h; done)
      | (cases h; simp [Abs.step, projAio]; done)
      | (cases h; simp [Abs.step, projAio]; (repeat' split) <;> simp)

section
open Nng.Aio

theorem run1 (a b : Abs) (l : ALabel) (h : a.step l = some b) : Abs.run a [l] = some b := by
  simp [Abs.run, h]

theorem proj_dispatch (X s : Aio.State) (hx : projAio X = projAio s) :
    Abs.run (projAio s) [.dispatch] = some (projAio (Aio.dispatch X)) := by
  rw [← hx]; exact run1 _ _ _ (aio_dispatch X)

theorem proj_dispatch' (X Y s : Aio.State) (hy : projAio Y = projAio (Aio.dispatch X)) (hx : projAio X = projAio s) :
    Abs.run (projAio s) [.dispatch] = some (projAio Y) := by
  rw [hy]; exact proj_dispatch X s hx

theorem proj_dispatch2 (X Z Y s : Aio.State) (hy : projAio Y = projAio (Aio.dispatch Z))
    (hz : projAio Z = projAio (Aio.dispatch X)) (hx : projAio X = projAio s) :
    Abs.run (projAio s) [.dispatch, .dispatch] = some (projAio Y) := by
  have h1 := aio_dispatch X
  have h2 := aio_dispatch Z
  rw [hx] at h1
  rw [hz] at h2
  simp [Abs.run, h1, h2, hy]

local macro "close_case" : tactic => `(tactic| first
    | (refine ⟨[], by decide, ?_⟩; simp [Abs.run, projAio, Aio.cancelCore, Aio.takeFn, Aio.completed]; done)
    | (refine ⟨[], by decide, ?_⟩; simp [Abs.run, projAio, Aio.cancelCore, Aio.takeFn, Aio.completed]; (repeat' split) <;> simp; done)
    | (refine ⟨[.prepare], by decide, ?_⟩; simp [Abs.run, Abs.step, projAio]; done)
    | (refine ⟨[.prepare], by decide, ?_⟩; simp [Abs.run, Abs.step, projAio]; (repeat' split) <;> simp; done)
    | (refine ⟨[.pop], by decide, ?_⟩; simp [Abs.run, Abs.step, projAio, *]; done)
    | (refine ⟨[.cbRead], by decide, ?_⟩; simp [Abs.run, Abs.step, projAio, *]; done)
    | (refine ⟨[.cbDone], by decide, ?_⟩; simp_all [Abs.run, Abs.step, projAio]; done)
    | (refine ⟨[.waitRet], by decide, ?_⟩; simp_all [Abs.run, Abs.step, projAio]; done)
    | (refine ⟨[.dispatch], by decide, ?_⟩; apply proj_dispatch; simp [projAio, Aio.completed]; done)
    | (refine ⟨[.dispatch], by decide, ?_⟩; refine proj_dispatch' _ _ _ rfl ?_; simp [projAio, Aio.completed]; done)
    | (refine ⟨[.dispatch, .dispatch], by decide, ?_⟩; refine proj_dispatch2 _ _ _ _ rfl rfl ?_; simp [projAio, Aio.completed]; done))

/-- frame: EVERY transition of Model/Aio.lean changes the five task-layer fields by at most two transitions of the
    abstract task layer (two: the expire thread completing a sleep and releasing a deferred dispatch), or not at all -/
theorem aio_task_layer (cfg : Aio.Cfg) (s s' : Aio.State) (l : Aio.Label) (h : Aio.step cfg s l = some s') :
    ∃ ls, ls.length ≤ 2 ∧ Abs.run (projAio s) ls = some (projAio s') := by
  cases l <;> simp only [Aio.step] at h <;> (repeat' split at h) <;>
    first
    | (cases h; done)
    | (cases h; close_case)
    | (cases h; simp only [Aio.finishCore, Aio.release]; (repeat' split) <;> close_case)
    | skip

/-- the aio layer keeps the contract of the task layer: in every state satisfying the layer-1 invariant of
    Proofs/Aio.lean at most one completion is queued or popped-but-not-begun (K1: the next dispatch comes only after
    the callback has begun), and nni_task_prep (label `prepare`, enabled at subPc = 1) finds task_prep clear (K2) -/
theorem aio_keeps_contract (s : Aio.State) (h : Aio.Inv1 s) :
    s.queued + s.popped ≤ 1 ∧ (s.subPc = 1 → s.prep = false) := by
  rcases h with ⟨h1,h2,h3,h4,h5,h6,h7,h8,h9,h10,h11,h12,h13,h14,h15,h16,h17,h18⟩
  constructor
  · cases hd : s.expDispatch <;> cases ht : s.opTok <;>
      simp only [Aio.b2n, hd, ht, ↓reduceIte, Bool.false_eq_true] at h4 h5 h6 <;> omega
  · intro h
    have := h9 (by omega)
    rw [h11]
    simp [h, this.1, this.2.1, this.2.2.1]

theorem aio_inv1_run {ls : List Aio.Label} : ∀ {s0 s : Aio.State}, Aio.Inv1 s0 → (∀ l ∈ ls, Aio.NoSleepL l) →
    Aio.run Aio.Cfg.fixed s0 ls = some s → Aio.Inv1 s := by
  induction ls with
  | nil => intro s0 s h1 _ hr; simp only [Aio.run] at hr; cases hr; exact h1
  | cons l ls ih =>
    intro s0 s h1 hn hr
    simp only [Aio.run] at hr
    split at hr
    · rename_i s1 hs
      exact ih (Aio.inv1_step h1 (hn l (by simp)) hs) (fun x hx => hn x (by simp [hx])) hr
    · cases hr

end

end Nng.Taskq
