/-
  C05: one judge step on the PUB model's outputs = `absJ` of the model's next state; hence
  `pubJudge` accepts the model's trace on every event sequence.
-/
import NngModel.Proofs.PubSim
import NngModel.Generated.C05
namespace Nng.Pub
open Nng Nng.Proto Nng.PubSubSpec

/-! ### `pubStep` cut into named pieces (definitionally the same function) -/

def addPipe (outs : List Out) (j : PubJ) (o : Out) : PubJ :=
  match o with
  | .pipe p => if p ≥ 0 && !(outs.contains (.pclosed p.toNat)) then { j with pipes := j.pipes ++ [{ id := p.toNat, cap := j.sendbuf }] } else j
  | _ => j

def isPsend (o : Out) : Bool := match o with | .psend .. => true | _ => false
def notPsend (o : Out) : Bool := match o with | .psend .. => false | _ => true
def isDone (o : Out) : Bool := match o with | .done .. => true | _ => false

def pubEv (j : PubJ) (ev : Ev) (outs : List Out) : PubJ :=
  let rv := rvOf outs
  match ev with
  | .send none _ m _ => { j with pipes := j.pipes.map (publishJ m) }
  | .sendDone p r =>
    if rv == some 0 && r == 0 then
      match j.pipes.find? (·.id == p) with
      | some pp =>
        (match pp.queue with
         | m :: rest => putPipe j { pp with queue := rest, owed := some m }
         | [] => putPipe j { pp with busy := false })
      | none => j
    else j
  | .setopt none name ty v =>
    if rv == some 0 && name == Nng.Generated.c05OptSendBuf && ty == "int" then
      { j with sendbuf := v.toNat, pipes := j.pipes.map fun p => { p with cap := v.toNat, queue := p.queue.take v.toNat } }
    else j
  | .getopt none name ty =>
    match outs with
    | [.rv2 0 v] =>
      if name == Nng.Generated.c05OptSendBuf && ty == "int" && v != j.sendbuf then
        j.fail s!"send buffer depth reported as {v}, configured {j.sendbuf}"
      else j
    | _ => j
  | _ => j

def tail1 (ev : Ev) (j : PubJ) : PubJ :=
  match j.pipes.find? (fun p => p.owed.isSome) with
  | some p =>
    (match ev with
     | .send .. => j.fail s!"idle pipe {p.id} did not get the published message"
     | _ => j.fail s!"pipe {p.id} finished a send but its next queued message was not sent")
  | none => j

def tail2 (ev : Ev) (outs : List Out) (j : PubJ) : PubJ :=
  match ev with
  | .send c a _ _ =>
    let mine := outs.filterMap (fun (o : Out) => match o with | .done a' r _ mb => if a' == a then some (r, mb) else none | _ => none)
    (match c, mine with
     | none, [(0, false)] => j
     | none, [(0, true)] => j.fail s!"send {a} succeeded but the message came back"
     | none, [(r, _)] => j.fail (s!"PUB send {a} failed with {r}" ++ (if r == Err.eagain then " (EAGAIN: a PUB send must never block)" else ""))
     | none, [] => j.fail s!"PUB send {a} did not complete in its own step (parked)"
     | none, _ => j.fail s!"PUB send {a} completed more than once"
     | some _, [(r, mb)] => if r == 0 then j.fail "send on a context of a PUB socket succeeded" else if !mb then j.fail s!"failed send {a} did not leave the message with the caller" else j
     | some _, _ => j.fail s!"send {a} on an invalid context did not complete exactly once")
  | .poll =>
    (match outs with
     | [.poll _ (some w)] => if !w then j.fail "the PUB socket does not poll writable" else j
     | [.poll _ none] => j.fail "the PUB socket has no send descriptor"
     | _ => j)
  | .close => { j with closed := true }
  | _ => j

def tail3 (ev : Ev) (outs : List Out) (j : PubJ) : PubJ :=
  match ev with
  | .send .. | .recv .. => j
  | _ => if outs.any (fun o => match o with | .done .. => true | _ => false) then j.fail "an aio completed although no operation was outstanding" else j

def tail4 (j : PubJ) : PubJ :=
  match j.pipes.find? (fun (p : JPipe) => p.queue.length > p.cap) with
  | some p => j.fail s!"pipe {p.id} queues more messages than the send buffer depth"
  | none => j

def pubMid (j : PubJ) (ev : Ev) (outs : List Out) : PubJ :=
  (outs.filter notPsend).foldl pubOut ((outs.filter isPsend).foldl pubOut (outs.foldl (addPipe outs) (pubEv j ev outs)))

def pubTail (ev : Ev) (outs : List Out) (j : PubJ) : PubJ :=
  let j := tail4 (tail3 ev outs (tail2 ev outs (tail1 ev j)))
  if hasBlocked outs then j.fail "a non-blocking call blocked" else j

theorem pubStep_open (j : PubJ) (ev : Ev) (outs : List Out) (he : j.err = none)
    (hs : stillAttached outs = false) (hn : notExecuted outs = false) (ho : j.opened = true) (hc : j.closed = false) :
    pubStep j ev outs =
      if (pubMid j ev outs).err.isSome then pubMid j ev outs else pubTail ev outs (pubMid j ev outs) := by
  have h1 : ¬ (j.err.isSome = true) := by simp [he]
  have h2 : ¬ (stillAttached outs = true) := by simp [hs]
  have h3 : ¬ (notExecuted outs = true) := by simp [hn]
  have h4 : ¬ ((!j.opened) = true) := by simp [ho]
  have h5 : ¬ (j.closed = true) := by simp [hc]
  unfold pubStep
  rw [if_neg h1, if_neg h2, if_neg h3, if_neg h4, if_neg h5]
  rfl

theorem pubStep_skip (j : PubJ) (ev : Ev) (outs : List Out) (he : j.err = none)
    (hs : stillAttached outs = false) (hn : notExecuted outs = true) : pubStep j ev outs = j := by
  have h1 : ¬ (j.err.isSome = true) := by simp [he]
  have h2 : ¬ (stillAttached outs = true) := by simp [hs]
  unfold pubStep
  rw [if_neg h1, if_neg h2, if_pos hn]

/-! ### list lemmas about `absPs` -/

theorem absPs_cons (p : Pipe) (ps : List Pipe) :
    absPs (p :: ps) = if p.listed = true then absP p :: absPs ps else absPs ps := by
  unfold absPs; by_cases h : p.listed = true <;> simp [List.filter_cons, h]

theorem absPs_append_one (ps : List Pipe) (p : Pipe) :
    absPs (ps ++ [p]) = absPs ps ++ (if p.listed = true then [absP p] else []) := by
  unfold absPs; by_cases h : p.listed = true <;> simp [List.filter_append, h]

theorem mem_absPs {ps : List Pipe} {x : JPipe} : x ∈ absPs ps ↔ ∃ p ∈ ps, p.listed = true ∧ absP p = x := by
  simp [absPs, and_assoc]

theorem absPs_map (f : Pipe → Pipe) (g : JPipe → JPipe) : ∀ ps : List Pipe,
    (∀ p ∈ ps, (f p).listed = p.listed) → (∀ p ∈ ps, p.listed = true → absP (f p) = g (absP p)) →
    absPs (ps.map f) = (absPs ps).map g
  | [], _, _ => rfl
  | p :: ps, h1, h2 => by
    rw [List.map_cons, absPs_cons, absPs_cons, h1 p (by simp)]
    have ih := absPs_map f g ps (fun q hq => h1 q (by simp [hq])) (fun q hq => h2 q (by simp [hq]))
    by_cases hl : p.listed = true
    · simp only [hl, if_true, List.map_cons, ih, h2 p (by simp) hl]
    · simp only [hl, ih]; rfl

theorem absPs_unlist (k : Nat) (pp' : Pipe) (hl : pp'.listed = false) : ∀ ps : List Pipe,
    absPs (ps.map fun q => if q.id == k then pp' else q) = (absPs ps).filter (·.id != k)
  | [] => rfl
  | p :: ps => by
    rw [List.map_cons, absPs_cons, absPs_cons, absPs_unlist k pp' hl ps]
    by_cases hk : p.id = k
    · by_cases hpl : p.listed = true
      · simp [hk, hl, hpl, List.filter_cons, absP]
      · simp [hk, hl, hpl]
    · by_cases hpl : p.listed = true
      · simp [hk, hpl, List.filter_cons, absP]
      · simp [hk, hpl]

theorem absPs_replace (k : Nat) (pp' : Pipe) (hl : pp'.listed = true) : ∀ ps : List Pipe,
    (∀ q ∈ ps, q.id = k → q.listed = true) →
    absPs (ps.map fun q => if q.id == k then pp' else q) =
      (absPs ps).map (fun x => if x.id == k then absP pp' else x)
  | [], _ => rfl
  | p :: ps, h => by
    rw [List.map_cons, absPs_cons, absPs_cons, absPs_replace k pp' hl ps (fun q hq => h q (by simp [hq]))]
    by_cases hk : p.id = k
    · have hpl : p.listed = true := h p (by simp) hk
      simp [hk, hl, hpl, absP]
    · by_cases hpl : p.listed = true
      · simp [hk, hpl, absP]
      · simp [hk, hpl]

theorem absPs_find (k : Nat) : ∀ (ps : List Pipe) (pp : Pipe), ps.find? (·.id == k) = some pp → pp.listed = true →
    (absPs ps).find? (·.id == k) = some (absP pp)
  | [], _, h, _ => by simp at h
  | p :: ps, pp, h, hl => by
    rw [absPs_cons]
    by_cases hk : (p.id == k) = true
    · simp only [List.find?_cons, hk, Option.some.injEq] at h
      subst h
      simp [hl, List.find?_cons, absP, hk]
    · have hk' : (p.id == k) = false := by simpa using hk
      simp only [List.find?_cons, hk'] at h
      have ih := absPs_find k ps pp h hl
      by_cases hpl : p.listed = true
      · simp [hpl, List.find?_cons, absP, hk', ih]
      · simp [hpl, ih]

theorem absPs_bound {pub : List GMsg} (ps : List Pipe) (h : ∀ p ∈ ps, PipeInv pub p) :
    (absPs ps).find? (fun (p : JPipe) => p.queue.length > p.cap) = none := by
  rw [List.find?_eq_none]
  intro x hx
  obtain ⟨p, hp, _, rfl⟩ := mem_absPs.1 hx
  have := (h p hp).len
  simp [absP]; omega

theorem absPs_owed (ps : List Pipe) : (absPs ps).find? (fun p => p.owed.isSome) = none := by
  rw [List.find?_eq_none]
  intro x hx
  obtain ⟨p, _, _, rfl⟩ := mem_absPs.1 hx
  simp [absP]

theorem absPs_ids_nodup {ps : List Pipe} (h : (ps.map (·.id)).Nodup) : ((absPs ps).map (·.id)).Nodup := by
  have : (absPs ps).map (·.id) = (ps.filter (·.listed)).map (·.id) := by
    simp [absPs, List.map_map, Function.comp_def, absP]
  rw [this]
  exact h.sublist (List.Sublist.map _ List.filter_sublist)

/-! ### the folds over the model's outputs -/

def owedOut (x : JPipe) : List Out := match x.owed with | some m => [.psend x.id m] | none => []
def clearOwed (x : JPipe) : JPipe := { x with owed := none }

theorem find_unique (pre rest : List JPipe) (x : JPipe) (hnd : ((pre ++ x :: rest).map (·.id)).Nodup) :
    (pre ++ x :: rest).find? (·.id == x.id) = some x := by
  rw [List.find?_append]
  have : pre.find? (·.id == x.id) = none := by
    rw [List.find?_eq_none]
    intro y hy hyx
    simp only [List.map_append, List.map_cons, List.nodup_append, List.nodup_cons] at hnd
    exact hnd.2.2 y.id (List.mem_map.2 ⟨y, hy, rfl⟩) x.id (by simp) (beq_iff_eq.1 hyx)
  simp [this]

theorem map_replace_unique (pre rest : List JPipe) (x y : JPipe) (hnd : ((pre ++ x :: rest).map (·.id)).Nodup) :
    (pre ++ x :: rest).map (fun z => if z.id == x.id then y else z) = pre ++ y :: rest := by
  simp only [List.map_append, List.map_cons, List.nodup_append, List.nodup_cons] at hnd
  obtain ⟨_, ⟨hx, _⟩, hd⟩ := hnd
  have h1 : pre.map (fun z => if z.id == x.id then y else z) = pre := by
    conv => rhs; rw [← List.map_id pre]
    apply List.map_congr_left
    intro z hz
    have : z.id ≠ x.id := fun he => hd z.id (List.mem_map.2 ⟨z, hz, rfl⟩) x.id (by simp) he
    simp [this]
  have h2 : rest.map (fun z => if z.id == x.id then y else z) = rest := by
    conv => rhs; rw [← List.map_id rest]
    apply List.map_congr_left
    intro z hz
    have : z.id ≠ x.id := fun he => hx (by rw [← he]; exact List.mem_map.2 ⟨z, hz, rfl⟩)
    simp [this]
  rw [List.map_append, List.map_cons, h1, h2]
  simp

theorem fold_psend (j : PubJ) (he : j.err = none) : ∀ (rest pre : List JPipe),
    ((pre ++ rest).map (·.id)).Nodup →
    (rest.flatMap owedOut).foldl pubOut { j with pipes := pre ++ rest } = { j with pipes := pre ++ rest.map clearOwed }
  | [], pre, _ => by simp
  | x :: rest, pre, hnd => by
    cases ho : x.owed with
    | none =>
      have h1 : owedOut x = [] := by simp [owedOut, ho]
      have hx : clearOwed x = x := by cases x; simp_all [clearOwed]
      rw [List.flatMap_cons, h1, List.nil_append, List.map_cons, hx]
      have := fold_psend j he rest (pre ++ [x]) (by simpa using hnd)
      simpa using this
    | some m =>
      have h1 : owedOut x = [.psend x.id m] := by simp [owedOut, ho]
      rw [List.flatMap_cons, h1, List.cons_append, List.nil_append, List.foldl_cons]
      have hstep : pubOut { j with pipes := pre ++ x :: rest } (.psend x.id m) =
          { j with pipes := (pre ++ [clearOwed x]) ++ rest } := by
        simp only [pubOut, find_unique pre rest x hnd, ho, bne_self_eq_false, Bool.false_eq_true, if_false, putPipe,
          map_replace_unique pre rest x _ hnd]
        simp [clearOwed]
      rw [hstep]
      have hnd' : (((pre ++ [clearOwed x]) ++ rest).map (·.id)).Nodup := by simpa [clearOwed] using hnd
      have := fold_psend j he rest (pre ++ [clearOwed x]) hnd'
      simpa using this

theorem closePipeP_out (p : Pipe) : (closePipeP p).2 = if p.closed = true then [] else [Out.pclosed p.id] := by
  unfold closePipeP; split <;> rfl

theorem fold_pclosed : ∀ (ps : List Pipe) (j : PubJ),
    (closeList ps).2.foldl pubOut j =
      { j with pipes := j.pipes.filter (fun x => ps.all (fun p => p.closed || x.id != p.id)) }
  | [], j => by
    have : j.pipes.filter (fun _ => true) = j.pipes := List.filter_eq_self.2 (fun _ _ => rfl)
    simp [closeList, this]
  | p :: ps, j => by
    simp only [closeList, closePipeP_out, List.foldl_append]
    by_cases hc : p.closed = true
    · simp [hc, fold_pclosed ps j]
    · simp only [hc, if_false, List.foldl_cons, List.foldl_nil, Bool.false_eq_true]
      rw [fold_pclosed ps]
      simp [pubOut, List.filter_filter, hc, Bool.and_comm]

theorem sendPipe_abs {pub : List GMsg} (gm : GMsg) (p : Pipe) (hl : p.listed = true) (h : PipeInv pub p) :
    absP (sendPipe gm p).1 = clearOwed (publishJ gm.m (absP p)) ∧
    (sendPipe gm p).2 = owedOut (publishJ gm.m (absP p)) := by
  cases hb : p.busy with
  | none =>
    rw [sendPipe_idle gm p hl hb]
    simp [absP, publishJ, hb, clearOwed, owedOut, h.idle hb]
  | some x =>
    by_cases hroom : p.q.length < p.cap
    · rw [sendPipe_room gm p x hl hb hroom]
      simp [absP, publishJ, hb, clearOwed, owedOut, hroom]
    · have hfull : p.q.length = p.cap := by have := h.len; omega
      cases hq : p.q with
      | nil => have := h.cap; rw [hq] at hfull; simp at hfull; omega
      | cons old t =>
        rw [sendPipe_full gm p x old t hl hb hq hfull]
        have : ¬ (t.length + 1 < p.cap) := by rw [hq] at hfull; simp at hfull; omega
        simp [absP, publishJ, hb, clearOwed, owedOut, hq, this]

theorem sendList_out {pub : List GMsg} (gm : GMsg) : ∀ ps : List Pipe, (∀ p ∈ ps, PipeInv pub p) →
    (sendList gm ps).2 = ((absPs ps).map (publishJ gm.m)).flatMap owedOut
  | [], _ => rfl
  | p :: ps, h => by
    simp only [sendList, absPs_cons]
    rw [sendList_out gm ps (fun q hq => h q (by simp [hq]))]
    by_cases hl : p.listed = true
    · simp [hl, (sendPipe_abs gm p hl (h p (by simp))).2]
    · have hl' : p.listed = false := by simpa using hl
      simp [hl', sendPipe_unlisted gm p hl']

theorem owedOut_psend (l : List JPipe) : ∀ o ∈ l.flatMap owedOut, ∃ p m, o = Out.psend p m := by
  intro o ho
  obtain ⟨x, _, hx⟩ := List.mem_flatMap.1 ho
  unfold owedOut at hx
  split at hx
  · simp at hx; exact ⟨_, _, hx⟩
  · simp at hx

/-! ### one step -/

def JJ (ps : List Pipe) (sb : Nat) (cl : Bool) : PubJ :=
  { opened := true, closed := cl, pipes := absPs ps, sendbuf := sb, err := none }

theorem absJ_open {s : State} (ho : s.opened = true) : absJ s = JJ s.pipes s.sendbuf s.closed := by
  simp [absJ, ho, JJ]

theorem sim_finish {pub : List GMsg} (s : State) (ev : Ev) (outs : List Out) (ps' : List Pipe) (sb' : Nat) (cl : Bool)
    (ho : s.opened = true) (hc : s.closed = false)
    (hs : stillAttached outs = false) (hn : notExecuted outs = false)
    (hmid : pubMid (JJ s.pipes s.sendbuf false) ev outs = JJ ps' sb' false)
    (h2 : tail2 ev outs (JJ ps' sb' false) = JJ ps' sb' cl)
    (h3 : tail3 ev outs (JJ ps' sb' cl) = JJ ps' sb' cl)
    (hb : hasBlocked outs = false) (hinv : ∀ p ∈ ps', PipeInv pub p) :
    pubStep (absJ s) ev outs = JJ ps' sb' cl := by
  rw [absJ_open ho, hc, pubStep_open _ _ _ rfl hs hn rfl rfl, hmid]
  have h1 : tail1 ev (JJ ps' sb' false) = JJ ps' sb' false := by
    simp only [tail1, JJ, absPs_owed]
  have h4 : tail4 (JJ ps' sb' cl) = JJ ps' sb' cl := by
    simp only [tail4, JJ, absPs_bound ps' hinv]
  have he : (JJ ps' sb' false).err.isSome = false := rfl
  simp only [he, Bool.false_eq_true, if_false, pubTail, h1, h2, h3, h4, hb]

theorem getPipe_find {s : State} {p : Nat} {pp : Pipe} (h : getPipe s p = some pp) : pp.id = p := by
  have := List.find?_some h
  exact beq_iff_eq.1 this

theorem closePipe_abs {s : State} (hs : SInv s) (p : Nat) (pp : Pipe) (hg : getPipe s p = some pp)
    (hcl : pp.closed = false) :
    (closePipe s p).2 = [Out.pclosed p] ∧ (closePipe s p).1.sendbuf = s.sendbuf ∧
    (closePipe s p).1.opened = s.opened ∧ (closePipe s p).1.closed = s.closed ∧
    absPs (closePipe s p).1.pipes = (absPs s.pipes).filter (·.id != p) := by
  have hid := getPipe_find hg
  unfold closePipe
  rw [hg]
  simp only [closePipeP, hcl, Bool.false_eq_true, if_false, setPipe, hid]
  refine ⟨trivial, trivial, trivial, trivial, ?_⟩
  exact absPs_unlist p _ rfl s.pipes

theorem find_map_replace (k : Nat) (X : JPipe) (hX : X.id = k) : ∀ (l : List JPipe) (y : JPipe),
    l.find? (·.id == k) = some y → (l.map (fun x => if x.id == k then X else x)).find? (·.id == k) = some X
  | [], _, h => by simp at h
  | x :: l, y, h => by
    by_cases hk : x.id = k
    · simp [List.find?_cons, hk, hX]
    · have hk' : (x.id == k) = false := by simpa using hk
      simp only [List.find?_cons, hk'] at h
      rw [List.map_cons, if_neg (by simp [hk]), List.find?_cons, hk']
      exact find_map_replace k X hX l y h

theorem map_replace_twice (k : Nat) (X X' : JPipe) (hX : X.id = k) (l : List JPipe) :
    (l.map (fun x => if x.id == k then X else x)).map (fun x => if x.id == k then X' else x) =
      l.map (fun x => if x.id == k then X' else x) := by
  rw [List.map_map]
  apply List.map_congr_left
  intro x _
  by_cases hk : x.id = k <;> simp [hk, hX]

theorem SInv.unique {s : State} (h : SInv s) {q pp : Pipe} (hq : q ∈ s.pipes) (hp : pp ∈ s.pipes)
    (he : q.id = pp.id) : q = pp := by
  have key : ∀ x ∈ s.pipes, s.pipes[x.id]? = some x := by
    intro x hx
    obtain ⟨i, hi, rfl⟩ := List.mem_iff_getElem.1 hx
    have h1 : (s.pipes.map (·.id))[i]? = some (s.pipes[i]).id := by simp [hi]
    rw [h.ids] at h1
    have h2 : (s.pipes[i]).id = i := by
      rw [List.getElem?_range hi] at h1
      exact (Option.some.inj h1).symm
    rw [h2]; simp [hi]
  have h1 := key q hq
  have h2 := key pp hp
  rw [he, h2] at h1
  exact (Option.some.inj h1).symm

def AllPsend (l : List Out) : Prop := ∀ o ∈ l, ∃ p m, o = Out.psend p m

theorem allPsend_any (l : List Out) (h : AllPsend l) (f : Out → Bool) (hf : ∀ p m, f (.psend p m) = false) :
    l.any f = false := by
  rw [List.any_eq_false]; intro o ho; obtain ⟨p, m, rfl⟩ := h o ho; simp [hf]

theorem allPsend_filter (l : List Out) (h : AllPsend l) (x : Out) (hx : isPsend x = false) :
    (l ++ [x]).filter isPsend = l ∧ (l ++ [x]).filter notPsend = [x] := by
  have hx' : notPsend x = true := by cases x <;> simp_all [isPsend, notPsend]
  have h1 : l.filter isPsend = l := by
    rw [List.filter_eq_self]; intro o ho; obtain ⟨p, m, rfl⟩ := h o ho; rfl
  have h2 : l.filter notPsend = [] := by
    rw [List.filter_eq_nil_iff]; intro o ho; obtain ⟨p, m, rfl⟩ := h o ho; simp [notPsend]
  simp [List.filter_append, h1, h2, hx, hx', List.filter]

theorem noPipe_addPipe (outs : List Out) : ∀ (l : List Out) (j : PubJ), (∀ o ∈ l, ∀ p, o ≠ Out.pipe p) →
    l.foldl (addPipe outs) j = j
  | [], _, _ => rfl
  | o :: l, j, h => by
    have h1 : addPipe outs j o = j := by
      cases o with
      | pipe p => exact absurd rfl (h _ (by simp) p)
      | _ => rfl
    rw [List.foldl_cons, h1]
    exact noPipe_addPipe outs l j (fun o ho => h o (by simp [ho]))

theorem allPsend_mine (a : Nat) : ∀ (l : List Out), AllPsend l →
    l.filterMap (fun (o : Out) => match o with | .done a' r _ mb => if a' == a then some (r, mb) else none | _ => none) = []
  | [], _ => rfl
  | o :: l, h => by
    obtain ⟨p, m, rfl⟩ := h o (by simp)
    simp only [List.filterMap_cons]
    exact allPsend_mine a l (fun o ho => h o (by simp [ho]))

theorem publishJ_id (m : WMsg) (x : JPipe) : (publishJ m x).id = x.id := by
  unfold publishJ; split
  · rfl
  · split <;> rfl

theorem sim_open {s : State} (ev : Ev) (hi : Inv s) (hs : SInv s) (ho : s.opened = true) (hc : s.closed = false) :
    pubStep (absJ s) ev (stepOpen s ev).2 = absJ (stepOpen s ev).1 := by
  have hskip : ∀ (t : String), t.startsWith "done" = false →
      pubStep (absJ s) ev [.other t] = absJ s := by
    intro t ht
    exact pubStep_skip _ _ _ (absJ_err s) (by simp [stillAttached, ht]) (by simp [notExecuted, ht])
  cases ev with
  | pipeAdd peer =>
    have hinv' := (stepOpen_inv (.pipeAdd peer) hi ho).pipes
    simp only [stepOpen] at hinv' ⊢
    unfold opPipeAdd at hinv' ⊢
    by_cases hp : (peer != peerSub) = true
    · rw [if_pos hp] at hinv' ⊢
      refine (sim_finish s _ _ _ s.sendbuf false ho hc (by simp [stillAttached]) (by simp [notExecuted]) ?_ rfl
        (by simp [tail3]) (by simp [hasBlocked]) hinv').trans (by simp [absJ, ho, JJ, hc])
      have hflt : (absPs s.pipes).filter (fun x => x.id != s.pipes.length) = absPs s.pipes := by
        rw [List.filter_eq_self]
        intro x hx
        obtain ⟨q, hq, _, rfl⟩ := mem_absPs.1 hx
        have := hs.lt hq
        simp [absP]; omega
      simp [pubMid, pubEv, addPipe, isPsend, notPsend, pubOut, JJ, absPs_append_one, hflt, List.filter]
    · rw [if_neg hp] at hinv' ⊢
      refine (sim_finish s _ _ _ s.sendbuf false ho hc (by simp [stillAttached]) (by simp [notExecuted]) ?_ rfl
        (by simp [tail3]) (by simp [hasBlocked]) hinv').trans (by simp [absJ, ho, JJ, hc])
      simp [pubMid, pubEv, addPipe, isPsend, notPsend, pubOut, JJ, absPs_append_one, absP, List.filter]
  | pipeDrop p =>
    simp only [stepOpen]
    unfold opPipeDrop
    have hsame : pubStep (absJ s) (.pipeDrop p) [.rv (-1)] = absJ s :=
      (sim_finish s _ _ s.pipes s.sendbuf false ho hc (by simp [stillAttached]) (by simp [notExecuted])
        (by simp [pubMid, pubEv, addPipe, isPsend, notPsend, pubOut, JJ, List.filter]) rfl
        (by simp [tail3]) (by simp [hasBlocked]) hi.pipes).trans (by rw [absJ_open ho, hc])
    cases hg : getPipe s p with
    | none => exact hsame
    | some pp =>
      simp only []
      by_cases hcl : pp.closed = true
      · rw [if_pos hcl]; exact hsame
      · rw [if_neg hcl]
        obtain ⟨h1, h2, h3, h4, h5⟩ := closePipe_abs hs p pp hg (by simpa using hcl)
        simp only [h1]
        refine (sim_finish s _ _ (closePipe s p).1.pipes s.sendbuf false ho hc (by simp [stillAttached])
          (by simp [notExecuted]) ?_ rfl (by simp [tail3]) (by simp [hasBlocked]) (closePipe_inv p hi).pipes).trans ?_
        · simp [pubMid, pubEv, addPipe, isPsend, notPsend, pubOut, JJ, h5, List.filter]
        · rw [absJ_open (h3.trans ho), h2, h4, hc]
  | recvDone p r =>
    simp only [stepOpen]
    unfold opRecvDone
    have hsame : pubStep (absJ s) (.recvDone p r) [.rv (-1)] = absJ s :=
      (sim_finish s _ _ s.pipes s.sendbuf false ho hc (by simp [stillAttached]) (by simp [notExecuted])
        (by simp [pubMid, pubEv, addPipe, isPsend, notPsend, pubOut, JJ, List.filter]) rfl
        (by simp [tail3]) (by simp [hasBlocked]) hi.pipes).trans (by rw [absJ_open ho, hc])
    cases hg : getPipe s p with
    | none => exact hsame
    | some pp =>
      simp only []
      by_cases hcl : (pp.closed || !pp.armed) = true
      · rw [if_pos hcl]; exact hsame
      · rw [if_neg hcl]
        have hcl' : pp.closed = false := by
          cases h : pp.closed with
          | false => rfl
          | true => simp [h] at hcl
        obtain ⟨h1, h2, h3, h4, h5⟩ := closePipe_abs hs p pp hg hcl'
        simp only [h1]
        refine (sim_finish s _ _ (closePipe s p).1.pipes s.sendbuf false ho hc (by simp [stillAttached])
          (by simp [notExecuted]) ?_ rfl (by simp [tail3]) (by simp [hasBlocked]) (closePipe_inv p hi).pipes).trans ?_
        · simp [pubMid, pubEv, addPipe, isPsend, notPsend, pubOut, JJ, h5, List.filter]
        · rw [absJ_open (h3.trans ho), h2, h4, hc]
  | recv c a mode =>
    simp only [stepOpen]
    cases c with
    | none =>
      exact (sim_finish s _ _ s.pipes s.sendbuf false ho hc (by simp [stillAttached]) (by simp [notExecuted])
        (by simp [pubMid, pubEv, addPipe, isPsend, notPsend, pubOut, JJ, List.filter]) rfl
        (by simp [tail3]) (by simp [hasBlocked]) hi.pipes).trans (by rw [absJ_open ho, hc])
    | some c =>
      exact (sim_finish s _ _ s.pipes s.sendbuf false ho hc (by simp [stillAttached]) (by simp [notExecuted])
        (by simp [pubMid, pubEv, addPipe, isPsend, notPsend, pubOut, JJ, List.filter]) rfl
        (by simp [tail3]) (by simp [hasBlocked]) hi.pipes).trans (by rw [absJ_open ho, hc])
  | cancel a =>
    exact (sim_finish s _ _ s.pipes s.sendbuf false ho hc (by simp [stillAttached, stepOpen]) (by simp [notExecuted, stepOpen])
      (by simp [pubMid, pubEv, addPipe, isPsend, notPsend, pubOut, JJ, List.filter, stepOpen]) rfl
      (by simp [tail3, stepOpen]) (by simp [hasBlocked, stepOpen]) hi.pipes).trans (by show _ = absJ s; rw [absJ_open ho, hc])
  | abort a rv =>
    exact (sim_finish s _ _ s.pipes s.sendbuf false ho hc (by simp [stillAttached, stepOpen]) (by simp [notExecuted, stepOpen])
      (by simp [pubMid, pubEv, addPipe, isPsend, notPsend, pubOut, JJ, List.filter, stepOpen]) rfl
      (by simp [tail3, stepOpen]) (by simp [hasBlocked, stepOpen]) hi.pipes).trans (by show _ = absJ s; rw [absJ_open ho, hc])
  | advance ms =>
    exact (sim_finish s _ _ s.pipes s.sendbuf false ho hc (by simp [stillAttached, stepOpen]) (by simp [notExecuted, stepOpen])
      (by simp [pubMid, pubEv, addPipe, isPsend, notPsend, pubOut, JJ, List.filter, stepOpen]) rfl
      (by simp [tail3, stepOpen]) (by simp [hasBlocked, stepOpen]) hi.pipes).trans
      (by simp only [stepOpen]; rw [absJ_open (by exact ho)]; simp [hc])
  | ctxOpen k =>
    exact (sim_finish s _ _ s.pipes s.sendbuf false ho hc (by simp [stillAttached, stepOpen]) (by simp [notExecuted, stepOpen])
      (by simp [pubMid, pubEv, addPipe, isPsend, notPsend, pubOut, JJ, List.filter, stepOpen]) rfl
      (by simp [tail3, stepOpen]) (by simp [hasBlocked, stepOpen]) hi.pipes).trans (by show _ = absJ s; rw [absJ_open ho, hc])
  | ctxClose k =>
    exact (sim_finish s _ _ s.pipes s.sendbuf false ho hc (by simp [stillAttached, stepOpen]) (by simp [notExecuted, stepOpen])
      (by simp [pubMid, pubEv, addPipe, isPsend, notPsend, pubOut, JJ, List.filter, stepOpen]) rfl
      (by simp [tail3, stepOpen]) (by simp [hasBlocked, stepOpen]) hi.pipes).trans (by show _ = absJ s; rw [absJ_open ho, hc])
  | sub c t =>
    exact (sim_finish s _ _ s.pipes s.sendbuf false ho hc (by simp [stillAttached, stepOpen]) (by simp [notExecuted, stepOpen])
      (by simp [pubMid, pubEv, addPipe, isPsend, notPsend, pubOut, JJ, List.filter, stepOpen]) rfl
      (by simp [tail3, stepOpen]) (by simp [hasBlocked, stepOpen]) hi.pipes).trans (by show _ = absJ s; rw [absJ_open ho, hc])
  | unsub c t =>
    exact (sim_finish s _ _ s.pipes s.sendbuf false ho hc (by simp [stillAttached, stepOpen]) (by simp [notExecuted, stepOpen])
      (by simp [pubMid, pubEv, addPipe, isPsend, notPsend, pubOut, JJ, List.filter, stepOpen]) rfl
      (by simp [tail3, stepOpen]) (by simp [hasBlocked, stepOpen]) hi.pipes).trans (by show _ = absJ s; rw [absJ_open ho, hc])
  | poll =>
    exact (sim_finish s _ _ s.pipes s.sendbuf false ho hc (by simp [stillAttached, stepOpen]) (by simp [notExecuted, stepOpen])
      (by simp [pubMid, pubEv, addPipe, isPsend, notPsend, pubOut, JJ, List.filter, stepOpen]) (by simp [tail2, stepOpen])
      (by simp [tail3, stepOpen]) (by simp [hasBlocked, stepOpen]) hi.pipes).trans (by show _ = absJ s; rw [absJ_open ho, hc])
  | getopt c name ty =>
    simp only [stepOpen]
    by_cases hcond : (name == optSendBuf && ty == "int" && c.isNone) = true
    · rw [if_pos hcond]
      simp only [Bool.and_eq_true] at hcond
      have hcn : c = none := by cases c <;> simp_all
      subst hcn
      have hname : (name == Nng.Generated.c05OptSendBuf) = true := hcond.1.1
      exact (sim_finish s _ _ s.pipes s.sendbuf false ho hc (by simp [stillAttached]) (by simp [notExecuted])
        (by simp [pubMid, pubEv, addPipe, isPsend, notPsend, pubOut, JJ, List.filter]) rfl
        (by simp [tail3]) (by simp [hasBlocked]) hi.pipes).trans (by show _ = absJ s; rw [absJ_open ho, hc])
    · rw [if_neg hcond]; exact hskip _ (by simp)
  | setopt c name ty v =>
    simp only [stepOpen]
    unfold opSetopt
    by_cases hcond : (name == optSendBuf && ty == "int" && c.isNone) = true
    · rw [if_pos hcond]
      simp only [Bool.and_eq_true] at hcond
      have hcn : c = none := by cases c <;> simp_all
      subst hcn
      have hname : (name == Nng.Generated.c05OptSendBuf) = true := hcond.1.1
      have hty : (ty == "int") = true := hcond.1.2
      by_cases hr : (decide (v < sendBufMin) || decide (v > sendBufMax)) = true
      · rw [if_pos hr]
        exact (sim_finish s _ _ s.pipes s.sendbuf false ho hc (by simp [stillAttached]) (by simp [notExecuted])
          (by simp [pubMid, pubEv, addPipe, isPsend, notPsend, pubOut, JJ, List.filter, rvOf, Err.einval]) rfl
          (by simp [tail3]) (by simp [hasBlocked]) hi.pipes).trans (by show _ = absJ s; rw [absJ_open ho, hc])
      · rw [if_neg hr]
        have hinv' := (stepOpen_inv (.setopt none name ty v) hi ho).pipes
        simp only [stepOpen] at hinv'
        unfold opSetopt at hinv'
        rw [if_pos (by simp [hcond.1.1, hcond.1.2]), if_neg hr] at hinv'
        refine (sim_finish s _ _ _ v.toNat false ho hc (by simp [stillAttached]) (by simp [notExecuted])
          ?_ rfl (by simp [tail3]) (by simp [hasBlocked]) hinv').trans (by simp [absJ, ho, JJ, hc])
        have hm : absPs (s.pipes.map (resizePipe v.toNat)) =
            (absPs s.pipes).map (fun p => { p with cap := v.toNat, queue := p.queue.take v.toNat }) := by
          apply absPs_map
          · intro p _; exact (resizePipe_lc _ p).1
          · intro p _ hl; simp [resizePipe, hl, absP, List.map_take]
        simp [pubMid, pubEv, addPipe, isPsend, notPsend, pubOut, JJ, List.filter, rvOf, hname, hty, hm]
    · rw [if_neg hcond]; exact hskip _ (by simp)
  | close =>
    have hinv' := (stepOpen_inv .close hi ho).pipes
    simp only [stepOpen] at hinv' ⊢
    have hnone : ∀ o ∈ (closeList s.pipes).2, ∃ p, o = Out.pclosed p := by
      intro o hmem
      have key : ∀ ps : List Pipe, ∀ o ∈ (closeList ps).2, ∃ p, o = Out.pclosed p := by
        intro ps
        induction ps with
        | nil => intro o h; simp [closeList] at h
        | cons q qs ih =>
          intro o h
          simp only [closeList, closePipeP_out, List.mem_append] at h
          rcases h with h | h
          · split at h
            · simp at h
            · simp at h; exact ⟨_, h⟩
          · exact ih o h
      exact key _ o hmem
    have hf1 : (closeList s.pipes).2.filter isPsend = [] := by
      rw [List.filter_eq_nil_iff]; intro o ho'; obtain ⟨p, rfl⟩ := hnone o ho'; simp [isPsend]
    have hf2 : (closeList s.pipes).2.filter notPsend = (closeList s.pipes).2 := by
      rw [List.filter_eq_self]; intro o ho'; obtain ⟨p, rfl⟩ := hnone o ho'; simp [notPsend]
    have hadd : (closeList s.pipes).2.foldl (addPipe (closeList s.pipes).2) (JJ s.pipes s.sendbuf false) =
        JJ s.pipes s.sendbuf false := by
      have key : ∀ (l : List Out) (outs : List Out) (j : PubJ), (∀ o ∈ l, ∃ p, o = Out.pclosed p) →
          l.foldl (addPipe outs) j = j := by
        intro l
        induction l with
        | nil => intros; rfl
        | cons o l ih =>
          intro outs j h
          obtain ⟨p, rfl⟩ := h o (by simp)
          simp only [List.foldl_cons, addPipe]
          exact ih outs j (fun o ho' => h o (by simp [ho']))
      exact key _ _ _ hnone
    have hall : (closeList s.pipes).1 = s.pipes.map (fun p => (closePipeP p).1) := closeList_eq_map _
    have hempty : absPs (closeList s.pipes).1 = [] := by
      rw [hall]
      unfold absPs
      rw [List.map_eq_nil_iff, List.filter_eq_nil_iff]
      intro q hq
      obtain ⟨p, _, rfl⟩ := List.mem_map.1 hq
      unfold closePipeP
      split
      · next hcl => have := hs.lc p (by assumption); simp [this, hcl]
      · simp
    have hfilt : (absPs s.pipes).filter (fun x => s.pipes.all (fun p => p.closed || x.id != p.id)) = [] := by
      rw [List.filter_eq_nil_iff]
      intro x hx
      obtain ⟨p, hp, hl, rfl⟩ := mem_absPs.1 hx
      have hcl : p.closed = false := by have := hs.lc p hp; rw [hl] at this; simpa using this.symm
      simp only [List.all_eq_true]
      intro hall'
      have := hall' p hp
      simp [hcl, absP] at this
    refine (sim_finish s _ _ (closeList s.pipes).1 s.sendbuf true ho hc ?_ ?_ ?_ rfl ?_ ?_ hinv').trans ?_
    · simp only [stillAttached, List.any_eq_false]
      intro o ho'; obtain ⟨p, rfl⟩ := hnone o ho'; simp
    · simp only [notExecuted, List.any_eq_false]
      intro o ho'; obtain ⟨p, rfl⟩ := hnone o ho'; simp
    · simp only [pubMid, pubEv, hadd, hf1, hf2, List.foldl_nil]
      rw [fold_pclosed]
      simp [JJ, hfilt, hempty]
    · have : (closeList s.pipes).2.any (fun o => match o with | .done .. => true | _ => false) = false := by
        rw [List.any_eq_false]
        intro o ho'; obtain ⟨p, rfl⟩ := hnone o ho'; simp
      simp only [tail3, this]; simp
    · simp only [hasBlocked, List.any_eq_false]
      intro o ho'; obtain ⟨p, rfl⟩ := hnone o ho'; simp
    · simp [absJ, ho, JJ]
  | sendDone p rv =>
    simp only [stepOpen]
    unfold opSendDone
    have hsame : pubStep (absJ s) (.sendDone p rv) [.rv (-1)] = absJ s :=
      (sim_finish s _ _ s.pipes s.sendbuf false ho hc (by simp [stillAttached]) (by simp [notExecuted])
        (by simp [pubMid, pubEv, addPipe, isPsend, notPsend, pubOut, JJ, List.filter, rvOf]) rfl
        (by simp [tail3]) (by simp [hasBlocked]) hi.pipes).trans (by rw [absJ_open ho, hc])
    cases hg : getPipe s p with
    | none => exact hsame
    | some pp =>
      simp only []
      cases hb : pp.busy with
      | none => exact hsame
      | some x =>
        simp only []
        by_cases hcl : pp.closed = true
        · rw [if_pos hcl]; exact hsame
        · rw [if_neg hcl]
          have hcl' : pp.closed = false := by simpa using hcl
          by_cases hrv : (rv != 0) = true
          · rw [if_pos hrv]
            have hrv' : (rv == 0) = false := by simpa using hrv
            obtain ⟨h1, h2, h3, h4, h5⟩ := closePipe_abs hs p pp hg hcl'
            simp only [h1]
            refine (sim_finish s _ _ (closePipe s p).1.pipes s.sendbuf false ho hc (by simp [stillAttached])
              (by simp [notExecuted]) ?_ rfl (by simp [tail3]) (by simp [hasBlocked]) (closePipe_inv p hi).pipes).trans ?_
            · simp [pubMid, pubEv, addPipe, isPsend, notPsend, pubOut, JJ, h5, List.filter, rvOf, hrv']
            · rw [absJ_open (h3.trans ho), h2, h4, hc]
          · rw [if_neg hrv]
            have hrv0 : rv = 0 := by simpa using hrv
            subst hrv0
            have hmem := getPipe_mem hg
            have hid := getPipe_find hg
            subst hid
            have hl : pp.listed = true := by rw [hs.lc pp hmem, hcl']; rfl
            have hfind := absPs_find pp.id s.pipes pp hg hl
            have hinv' := (setPipe_inv _ hi (sendDonePipe_inv (hi.pipes pp hmem))).pipes
            have huniq : ∀ q ∈ s.pipes, q.id = pp.id → q.listed = true := by
              intro q hq he
              have := hs.unique hq hmem he
              rw [this]; exact hl
            cases hq : pp.q with
            | nil =>
              have hsd : sendDonePipe pp = ({ pp with busy := none }, []) := by simp [sendDonePipe, hq]
              rw [hsd] at hinv' ⊢
              refine (sim_finish s _ _ (setPipe s { pp with busy := none }).pipes s.sendbuf false ho hc
                (by simp [stillAttached]) (by simp [notExecuted]) ?_ rfl (by simp [tail3]) (by simp [hasBlocked])
                hinv').trans (by simp [absJ, ho, JJ, hc, setPipe])
              have hrep := absPs_replace pp.id { pp with busy := none } hl s.pipes huniq
              simp only [setPipe, JJ]
              rw [hrep]
              simp [pubMid, pubEv, addPipe, isPsend, notPsend, pubOut, JJ, List.filter, rvOf, hfind, absP, hq, putPipe]
            | cons m rest =>
              have hsd : sendDonePipe pp = ({ pp with q := rest, busy := some m, wire := pp.wire ++ [m] },
                  [Out.psend pp.id m.m]) := by simp [sendDonePipe, hq]
              rw [hsd] at hinv' ⊢
              refine (sim_finish s _ _ (setPipe s { pp with q := rest, busy := some m, wire := pp.wire ++ [m] }).pipes
                s.sendbuf false ho hc
                (by simp [stillAttached]) (by simp [notExecuted]) ?_ rfl (by simp [tail3]) (by simp [hasBlocked])
                hinv').trans (by simp [absJ, ho, JJ, hc, setPipe])
              have hrep := absPs_replace pp.id { pp with q := rest, busy := some m, wire := pp.wire ++ [m] } hl s.pipes huniq
              simp only [setPipe, JJ]
              rw [hrep]
              let X : JPipe := { id := pp.id, busy := true, cap := pp.cap, queue := rest.map (·.m), owed := some m.m }
              let X' : JPipe := { id := pp.id, busy := true, cap := pp.cap, queue := rest.map (·.m), owed := none }
              let J1 : PubJ := ⟨true, false, (absPs s.pipes).map (fun x => if x.id == pp.id then X else x), s.sendbuf, none⟩
              let J2 : PubJ := ⟨true, false, (absPs s.pipes).map (fun x => if x.id == pp.id then X' else x), s.sendbuf, none⟩
              have hf2 : J1.pipes.find? (·.id == pp.id) = some X := find_map_replace pp.id X rfl _ _ hfind
              have hX : pubOut J1 (.psend pp.id m.m) = J2 := by
                simp only [pubOut, hf2]
                simp only [X, bne_self_eq_false, Bool.false_eq_true, if_false, putPipe, J1, J2]
                rw [map_replace_twice pp.id _ _ rfl]
              have ha : pubEv (JJ s.pipes s.sendbuf false) (.sendDone pp.id 0) [Out.rv 0, Out.psend pp.id m.m] = J1 := by
                simp [pubEv, rvOf, hfind, absP, hq, putPipe, JJ, J1, X, hb]
              have hb' : [Out.rv 0, Out.psend pp.id m.m].foldl (addPipe [Out.rv 0, Out.psend pp.id m.m]) J1 = J1 := by
                simp [addPipe]
              have hc1 : [Out.rv 0, Out.psend pp.id m.m].filter isPsend = [Out.psend pp.id m.m] := by
                simp [isPsend, List.filter]
              have hc2 : [Out.rv 0, Out.psend pp.id m.m].filter notPsend = [Out.rv 0] := by
                simp [notPsend, List.filter]
              show pubMid (JJ s.pipes s.sendbuf false) _ [Out.rv 0, Out.psend pp.id m.m] = _
              unfold pubMid
              rw [ha, hb', hc1, hc2]
              simp only [List.foldl_cons, List.foldl_nil, hX]
              simp [pubOut, J2, X', absP]
  | send c a m mode =>
    simp only [stepOpen]
    unfold opSend
    cases c with
    | some k =>
      simp only []
      exact (sim_finish s _ _ s.pipes s.sendbuf false ho hc (by simp [stillAttached]) (by simp [notExecuted])
        (by simp [pubMid, pubEv, addPipe, isPsend, notPsend, pubOut, JJ, List.filter]) (by simp [tail2, Err.eclosed])
        (by simp [tail3]) (by simp [hasBlocked]) hi.pipes).trans (by show _ = absJ s; rw [absJ_open ho, hc])
    | none =>
      simp only []
      have hinv' := (stepOpen_inv (.send none a m mode) hi ho).pipes
      simp only [stepOpen, opSend] at hinv'
      have hout : (sendList ⟨s.nsend, m⟩ s.pipes).2 = ((absPs s.pipes).map (publishJ m)).flatMap owedOut :=
        sendList_out ⟨s.nsend, m⟩ s.pipes hi.pipes
      have hall : AllPsend (sendList ⟨s.nsend, m⟩ s.pipes).2 := by rw [hout]; exact owedOut_psend _
      have habs : absPs (sendList ⟨s.nsend, m⟩ s.pipes).1 = ((absPs s.pipes).map (publishJ m)).map clearOwed := by
        rw [sendList_eq_map, List.map_map]
        apply absPs_map
        · intro p _; exact (sendPipe_lc _ p).1
        · intro p hp hl; exact (sendPipe_abs ⟨s.nsend, m⟩ p hl (hi.pipes p hp)).1
      have hflt := allPsend_filter _ hall (Out.done a 0 none false) rfl
      have hnd : ((([] : List JPipe) ++ (absPs s.pipes).map (publishJ m)).map (fun x => x.id)).Nodup := by
        have : ((absPs s.pipes).map (publishJ m)).map (fun x => x.id) = (absPs s.pipes).map (fun x => x.id) := by
          rw [List.map_map]; apply List.map_congr_left; intro x _; exact publishJ_id m x
        rw [List.nil_append, this]; exact absPs_ids_nodup hs.nodup
      refine (sim_finish s _ _ (sendList ⟨s.nsend, m⟩ s.pipes).1 s.sendbuf false ho hc ?_ ?_ ?_ ?_ rfl ?_ hinv').trans
        (by simp [absJ, ho, JJ, hc])
      · simp [stillAttached, allPsend_any _ hall]
      · simp [notExecuted, allPsend_any _ hall]
      · unfold pubMid
        rw [noPipe_addPipe _ _ _ (by
          intro o ho' p
          simp only [List.mem_append, List.mem_singleton] at ho'
          rcases ho' with ho' | rfl
          · obtain ⟨q, m', rfl⟩ := hall o ho'; simp
          · simp), hflt.1, hflt.2, hout]
        have hfold := fold_psend (JJ s.pipes s.sendbuf false) rfl ((absPs s.pipes).map (publishJ m)) [] hnd
        simp only [List.nil_append] at hfold
        show List.foldl pubOut (List.foldl pubOut
          { JJ s.pipes s.sendbuf false with pipes := (absPs s.pipes).map (publishJ m) } _) _ = _
        rw [hfold]
        simp [pubOut, JJ, habs]
      · simp only [tail2, List.filterMap_append, allPsend_mine a _ hall]
        simp
      · simp [hasBlocked, allPsend_any _ hall]
  | openSock _ _ => exact hskip _ (by simp)

theorem pubStep_closed (j : PubJ) (ev : Ev) (outs : List Out) (he : j.err = none)
    (hs : stillAttached outs = false) (ho : j.opened = true) (hc : j.closed = true) : pubStep j ev outs = j := by
  have h1 : ¬ (j.err.isSome = true) := by simp [he]
  have h2 : ¬ (stillAttached outs = true) := by simp [hs]
  have h4 : ¬ ((!j.opened) = true) := by simp [ho]
  unfold pubStep
  rw [if_neg h1, if_neg h2]
  split <;> first | rfl | (rw [if_neg h4, if_pos hc])

theorem sim_step {s : State} (ev : Ev) (hi : Inv s) (hs : SInv s) :
    pubStep (absJ s) ev (step s ev).2 = absJ (step s ev).1 := by
  unfold step
  by_cases ho : s.opened = true
  · have h1 : ¬ ((!s.opened) = true) := by simp [ho]
    rw [if_neg h1]
    by_cases hc : s.closed = true
    · rw [if_pos hc]
      have hj : absJ s = JJ s.pipes s.sendbuf true := by rw [absJ_open ho, hc]
      have hnosock : pubStep (absJ s) ev [.other "nosock"] = absJ s :=
        pubStep_skip _ _ _ (absJ_err s) (by simp [stillAttached]) (by simp [notExecuted])
      cases ev with
      | advance ms =>
        simp only []
        rw [hj, pubStep_closed _ _ _ rfl (by simp [stillAttached]) rfl rfl]
        simp [absJ, ho, hc, JJ]
      | _ => exact hnosock
    · rw [if_neg hc]; exact sim_open ev hi hs ho (by simpa using hc)
  · have ho' : s.opened = false := by simpa using ho
    have h1 : (!s.opened) = true := by simp [ho']
    rw [if_pos h1]
    have hj : absJ s = {} := by simp [absJ, ho']
    have hu := hs.unopened ho'
    have hnosock : pubStep (absJ s) ev [.other "nosock"] = absJ s :=
      pubStep_skip _ _ _ (absJ_err s) (by simp [stillAttached]) (by simp [notExecuted])
    cases ev with
    | openSock _ _ =>
      simp only []
      rw [hj]
      simp [pubStep, stillAttached, notExecuted, absJ, hu.1, hu.2, absPs]
    | advance ms =>
      simp only []
      rw [hj]
      simp [pubStep, stillAttached, notExecuted, absJ, ho']
    | _ => exact hnosock

/-- the judge's state after the model's trace is `absJ` of the model's state -/
theorem judge_from : ∀ (evs : List Ev) (s : State), Inv s → SInv s →
    (traceOf s evs).foldl (fun j x => pubStep j x.1 x.2) (absJ s) =
      absJ (evs.foldl (fun s e => (step s e).1) s)
  | [], _, _, _ => rfl
  | e :: es, s, hi, hs => by
    simp only [traceOf, List.foldl_cons]
    rw [sim_step e hi hs]
    exact judge_from es _ (step_inv e hi) (step_sinv e hs)

/-- JUDGE (PUB): for EVERY event sequence the trace produced by the model is accepted by the
    executable C05 trace predicate `pubJudge` — no hypothesis on the events is needed -/
theorem pub_judge_ok (evs : List Ev) : pubJudge (traceOf {} evs) = none := by
  unfold pubJudge
  have := judge_from evs {} inv_init sinv_init
  have h0 : absJ ({} : State) = {} := rfl
  rw [h0] at this
  rw [this]
  exact absJ_err _

end Nng.Pub
