/-
  C16U: ws_make_accept = base64(SHA-1(key ‖ GUID)); the decisions of ws_handler and ws_http_cb_dialer are the
  rule tables of Spec/WsUpgrade.lean; nng's client and nng's server accept each other.
-/
import NngModel.Proofs.WsWords
import NngModel.Proofs.WsAccept
namespace Nng.WsUp
open Nng.WsAccept (makeAccept guid encodeS encodeS_spec rvOf spec_encode_length genKey)
open Nng.WsSpec (lookup hasWord acceptFor serverExpected serverRules clientExpected Expect)

/-! ### ws_make_accept -/

theorem guid_eq : guid = WsSpec.guid := by decide

theorem guid_len : guid.length = 36 := by decide

theorem sha1_digest_length (m : Bytes) : (Sha1Spec.sha1 m).length = 20 := by
  simp [Sha1Spec.sha1, Sha1Spec.wordBytes]

/-- init, two updates, final on a fresh context = the reference hash of the concatenation; no access out of bounds -/
theorem sha_two_updates (a b : Bytes) :
    (Sha1.final (Sha1.update (Sha1.update (Sha1.init (Sha1.raw [])) a) b)).2 = Sha1Spec.sha1 (a ++ b) ∧
    (Sha1.final (Sha1.update (Sha1.update (Sha1.init (Sha1.raw [])) a) b)).1.safe = true := by
  have h0 := Sha1.init_inv (Sha1.raw []) rfl (Sha1.raw_blk [])
  obtain ⟨f1, p1, h1, e1⟩ := Sha1.update_inv _ a _ _ h0
  obtain ⟨f2, p2, h2, e2⟩ := Sha1.update_inv _ b _ _ h1
  obtain ⟨hd, hw⟩ := Sha1.final_inv _ _ _ h2
  refine ⟨?_, hw.safe⟩
  rw [hd, e2, e1]; simp

theorem makeAccept_bad (key : Bytes) (bufSize : Nat) (h : key.length ≠ 24) :
    makeAccept key bufSize = { rv := 3 } := by
  have : key.length ≠ Generated.wsMkKeyLen := h
  simp only [makeAccept, if_pos this]
  rfl

theorem makeAccept_ok (key : Bytes) (bufSize : Nat) (h : key.length = 24) (hb : 29 ≤ bufSize) :
    makeAccept key bufSize = { rv := 0, accept := acceptFor key, stored := 29, encRv := none, safe := true } := by
  have hk : ¬ key.length ≠ Generated.wsMkKeyLen := by simp [Generated.wsMkKeyLen, h]
  have ht1 : key.take Generated.wsMkKeyFeed = key := by
    rw [show Generated.wsMkKeyFeed = 24 from rfl, ← h]; exact List.take_length
  have ht2 : guid.take Generated.wsKeyGuidLen = guid := by
    rw [show Generated.wsKeyGuidLen = 36 from rfl, ← guid_len]; exact List.take_length
  obtain ⟨hd, hs⟩ := sha_two_updates key guid
  have hl := sha1_digest_length (key ++ guid)
  have henc := encodeS_spec (Sha1Spec.sha1 (key ++ guid)) 28 (by rw [hl]; decide)
  have hel : (Base64Spec.encode (Sha1Spec.sha1 (key ++ guid))).length = 28 := by
    rw [spec_encode_length _ _ (Nat.le_refl _), hl]
  simp only [makeAccept, if_neg hk, ht1, ht2]
  rw [hd, hs]
  have ht3 : (Sha1Spec.sha1 (key ++ guid)).take Generated.wsMkEncIn = Sha1Spec.sha1 (key ++ guid) := by
    rw [show Generated.wsMkEncIn = 20 from rfl, ← hl]; exact List.take_length
  rw [ht3, show Generated.wsMkEncOut = 28 from rfl, henc]
  have ht4 : (Base64Spec.encode (Sha1Spec.sha1 (key ++ guid))).take Generated.wsMkNulAt = Base64Spec.encode (Sha1Spec.sha1 (key ++ guid)) := by
    rw [show Generated.wsMkNulAt = 28 from rfl, ← hel]; exact List.take_length
  simp only [ht4, hl, hel, rvOf, h, guid_len]
  simp [acceptFor, guid_eq, Generated.wsMkKeyFeed, Generated.wsKeyGuidLen, Generated.wsMkDigestBuf, Generated.wsMkEncIn, Generated.wsMkNulAt]
  exact ⟨by omega, decide_eq_true (show Generated.wsMkNulAt < bufSize by show 28 < bufSize; omega)⟩

/-! ### ws_handler -/

def toExpect : SrvDecision → Expect
  | .error st => .error st
  | .upgrade a p => .upgrade a p

theorem srvStatus_vals : srvStatus 0 = 503 ∧ srvStatus 1 = 505 ∧ srvStatus 2 = 400 ∧ srvStatus 3 = 413 ∧ srvStatus 4 = 400 ∧
    srvStatus 5 = 400 ∧ srvStatus 6 = 400 ∧ srvStatus 7 = 400 := by decide

theorem announcesBody_eq (h : Hdrs) :
    announcesBody h =
      ((match lookup h (WsSpec.s "Content-Length") with | some v => decide (WsSpec.leadingInt v > 0) | none => false) ||
       (match lookup h (WsSpec.s "Transfer-Encoding") with | some v => WsSpec.ciContains v (WsSpec.s "chunked") | none => false)) := by
  simp only [announcesBody, getHeader_eq, str_eq]
  cases lookup h (WsSpec.s "Content-Length") <;> cases lookup h (WsSpec.s "Transfer-Encoding") <;> simp [atoi_eq, caseFind_eq]

theorem upgradeHeadersOk_eq (h : Hdrs) :
    upgradeHeadersOk h =
      ((match lookup h (WsSpec.s "Upgrade") with | some v => hasWord v (WsSpec.s "websocket") | none => false) &&
       (match lookup h (WsSpec.s "Connection") with | some v => hasWord v (WsSpec.s "upgrade") | none => false) &&
       lookup h (WsSpec.s "Sec-WebSocket-Version") == some (WsSpec.s "13")) := by
  simp only [upgradeHeadersOk, getHeader_eq, str_eq]
  have e1 : Generated.wsSrvUpgradeWord = "websocket" := rfl
  have e2 : Generated.wsSrvConnWord = "upgrade" := rfl
  have e3 : Generated.wsSrvWsVersion = "13" := rfl
  rw [e1, e2, e3]
  cases lookup h (WsSpec.s "Upgrade") <;> cases lookup h (WsSpec.s "Connection") <;>
    cases lookup h (WsSpec.s "Sec-WebSocket-Version") <;> simp [containsWord_eq]

/-- ws_handler answers exactly what the rule table says: upgraded iff every rule holds, else the status of the first failing rule -/
theorem serverDecide_eq (cfg : SrvCfg) (req : Request) :
    toExpect (serverDecide cfg req) =
      serverExpected Generated.wsSrvSingleOffer cfg.closed cfg.proto req.method req.version req.headers := by
  obtain ⟨s0, s1, s2, s3, s4, s5, s6, s7⟩ := srvStatus_vals
  have ev : Generated.wsSrvVersion = "HTTP/1.1" := rfl
  have em : Generated.wsSrvMethod = "GET" := rfl
  unfold serverDecide serverExpected serverRules
  simp only [s0, s1, s2, s3, s4, s5, s6, s7, ev, em, str_eq, announcesBody_eq, upgradeHeadersOk_eq, getHeader_eq]
  by_cases h0 : cfg.closed = true
  · simp [h0, toExpect]
  have h0' : cfg.closed = false := by simpa using h0
  by_cases h1 : req.version = WsSpec.s "HTTP/1.1"
  case neg => simp [h0', h1, toExpect]
  by_cases h2 : req.method = WsSpec.s "GET"
  case neg => simp [h0', h1, h2, toExpect]
  generalize hb : ((match lookup req.headers (WsSpec.s "Content-Length") with | some v => decide (WsSpec.leadingInt v > 0) | none => false) ||
       (match lookup req.headers (WsSpec.s "Transfer-Encoding") with | some v => WsSpec.ciContains v (WsSpec.s "chunked") | none => false)) = body
  cases body
  case true => simp [h0', h1, h2, toExpect]
  generalize hu : ((match lookup req.headers (WsSpec.s "Upgrade") with | some v => hasWord v (WsSpec.s "websocket") | none => false) &&
       (match lookup req.headers (WsSpec.s "Connection") with | some v => hasWord v (WsSpec.s "upgrade") | none => false) &&
       lookup req.headers (WsSpec.s "Sec-WebSocket-Version") == some (WsSpec.s "13")) = up
  cases up
  case false => simp [h0', h1, h2, toExpect]
  cases hk : lookup req.headers (WsSpec.s "Sec-WebSocket-Key") with
  | none => simp [h0', h1, h2, toExpect]
  | some k =>
    by_cases hl : k.length = 24
    case neg =>
      have := makeAccept_bad k Generated.wsHandlerKeyBuf hl
      simp [h0', h1, h2, toExpect, this, hl]
    · have := makeAccept_ok k Generated.wsHandlerKeyBuf hl (by decide)
      generalize Generated.wsSrvSingleOffer = single
      cases hp : lookup req.headers (WsSpec.s "Sec-WebSocket-Protocol") with
      | none => cases hlp : cfg.proto <;> simp [h0', h1, h2, toExpect, this, hl]
      | some p =>
        cases hlp : cfg.proto with
        | none => simp [h0', h1, h2, toExpect, this, hl]
        | some lp =>
          have hsep : (p.any fun c => decide (c = 32) || decide (c = 44)) = p.any WsSpec.isSep := rfl
          simp only [hsep, containsWord_eq]
          generalize p.any WsSpec.isSep = sp
          generalize p.isEmpty = em
          generalize hasWord lp p = hw
          cases single <;> cases sp <;> cases em <;> cases hw <;> simp [h0', h1, h2, toExpect, this, hl]

/-! ### ws_http_cb_dialer -/

theorem statusRv_eq (st : Nat) : statusRv st = WsSpec.statusResult st := by
  by_cases h1 : st = 101
  · subst h1; rfl
  by_cases h2 : st = 403
  · subst h2; rfl
  by_cases h3 : st = 401
  · subst h3; rfl
  by_cases h4 : st = 404
  · subst h4; rfl
  by_cases h5 : st = 405
  · subst h5; rfl
  by_cases h6 : st = 501
  · subst h6; rfl
  by_cases h7 : st = 400
  · subst h7; rfl
  have g1 : ¬ 101 = st := fun h => h1 h.symm
  have g2 : ¬ 403 = st := fun h => h2 h.symm
  have g3 : ¬ 401 = st := fun h => h3 h.symm
  have g4 : ¬ 404 = st := fun h => h4 h.symm
  have g5 : ¬ 405 = st := fun h => h5 h.symm
  have g6 : ¬ 501 = st := fun h => h6 h.symm
  have g7 : ¬ 400 = st := fun h => h7 h.symm
  by_cases h0 : st = 0
  · subst h0; rfl
  have g0 : ¬ 0 = st := fun h => h0 h.symm
  simp [statusRv, Generated.wsCliStatusMap, List.find?, WsSpec.statusResult, h1, h2, h3, h4, h5, h6, g1, g2, g3, g4, g5, g6, g7, g0]

/-- ws_http_cb_dialer hands the user exactly the result the client rule table says -/
theorem clientDecide_eq (cfg : CliCfg) (key : Bytes) (res : Response) :
    clientDecide cfg key res = clientExpected cfg.proto key res.status res.headers := by
  have e1 : Generated.wsCliConnWord = "upgrade" := rfl
  have e2 : Generated.wsCliUpgradeCaseSensitive = true := rfl
  have e3 : Generated.wsCliUpgradeValue = "websocket" := rfl
  have e4 : Generated.wsCliHeaderErr = 13 := rfl
  have e5 : Generated.wsCliProtoErr = 13 := rfl
  unfold clientDecide clientExpected
  simp only [statusRv_eq, e1, e2, e3, e4, e5, str_eq, getHeader_eq, containsWord_eq]
  by_cases hs : WsSpec.statusResult res.status ≠ 0
  · simp [hs]
  rw [if_neg hs, if_neg hs]
  by_cases hl : key.length = 24
  case neg =>
    have := makeAccept_bad key Generated.wsDialerKeyBuf hl
    simp [this, hl]
  have := makeAccept_ok key Generated.wsDialerKeyBuf hl (by decide)
  simp only [this, hl]
  cases cfg.proto <;> cases lookup res.headers (WsSpec.s "Sec-WebSocket-Protocol") <;>
    cases lookup res.headers (WsSpec.s "Sec-WebSocket-Accept") <;> cases lookup res.headers (WsSpec.s "Connection") <;>
    cases lookup res.headers (WsSpec.s "Upgrade") <;> simp

/-! ### nng against nng -/

theorem hasWord_self (p : Bytes) (h : p ≠ []) : hasWord p p = true := by
  have hi : p.isEmpty = false := by cases p <;> simp_all
  simp [hasWord, hi, WsSpec.matchAt, WsSpec.ciEq]

theorem req_eq (po : Option Bytes) (host key : Bytes) :
    (clientRequest { proto := po } host key).headers = WsSpec.clientRequest po host key := by cases po <;> rfl

theorem res_eq (a : Bytes) (po : Option Bytes) :
    (serverResponse (.upgrade a po)).headers = WsSpec.serverResponse a po ∧ (serverResponse (.upgrade a po)).status = 101 := by
  cases po <;> exact ⟨rfl, rfl⟩

theorem toExpect_upgrade (d : SrvDecision) (a : Bytes) (po : Option Bytes) (h : toExpect d = .upgrade a po) : d = .upgrade a po := by
  cases d <;> simp_all [toExpect]

theorem key_length (nonce : Bytes) (hn : nonce.length = 16) : (Base64Spec.encode nonce).length = 24 := by
  rw [WsAccept.spec_encode_length _ _ (Nat.le_refl _), hn]

/-- the request nng's dialer emits is upgraded by nng's listener configured with the same subprotocol (or none) -/
theorem client_accepted_by_server (po : Option Bytes) (hpo : ∀ p, po = some p → p ≠ [])
    (hsingle : Generated.wsSrvSingleOffer = true → ∀ p, po = some p → p.any WsSpec.isSep = false)
    (host key : Bytes) (hk : key.length = 24) :
    serverDecide { proto := po } (clientRequest { proto := po } host key) = .upgrade (acceptFor key) po := by
  apply toExpect_upgrade
  rw [serverDecide_eq, req_eq]
  have l1 : lookup (WsSpec.clientRequest po host key) (WsSpec.s "Content-Length") = none := by cases po <;> rfl
  have l2 : lookup (WsSpec.clientRequest po host key) (WsSpec.s "Transfer-Encoding") = none := by cases po <;> rfl
  have l3 : lookup (WsSpec.clientRequest po host key) (WsSpec.s "Upgrade") = some (WsSpec.s "websocket") := by cases po <;> rfl
  have l4 : lookup (WsSpec.clientRequest po host key) (WsSpec.s "Connection") = some (WsSpec.s "Upgrade") := by cases po <;> rfl
  have l5 : lookup (WsSpec.clientRequest po host key) (WsSpec.s "Sec-WebSocket-Version") = some (WsSpec.s "13") := by cases po <;> rfl
  have l6 : lookup (WsSpec.clientRequest po host key) (WsSpec.s "Sec-WebSocket-Key") = some key := by cases po <;> rfl
  have l7 : lookup (WsSpec.clientRequest po host key) (WsSpec.s "Sec-WebSocket-Protocol") = po := by cases po <;> rfl
  have w1 : hasWord (WsSpec.s "websocket") (WsSpec.s "websocket") = true := by decide
  have w2 : hasWord (WsSpec.s "Upgrade") (WsSpec.s "upgrade") = true := by decide
  have m : (clientRequest { proto := po } host key).method = WsSpec.s "GET" := rfl
  have v : (clientRequest { proto := po } host key).version = WsSpec.s "HTTP/1.1" := rfl
  simp only [serverExpected, serverRules, l1, l2, l3, l4, l5, l6, l7, w1, w2, m, v, hk]
  cases po with
  | none => simp
  | some p =>
    have hne : p.isEmpty = false := by have := hpo p rfl; cases p <;> simp_all
    cases hf : Generated.wsSrvSingleOffer with
    | false => simp [hasWord_self p (hpo p rfl)]
    | true => simp [hasWord_self p (hpo p rfl), hne, hsingle hf p rfl]

/-- the 101 response of nng's listener is accepted by nng's dialer (which sent `key` and has the same subprotocol) -/
theorem server_accepted_by_client (po : Option Bytes) (hpo : ∀ p, po = some p → p ≠ []) (key : Bytes) (hk : key.length = 24) :
    clientDecide { proto := po } key (serverResponse (.upgrade (acceptFor key) po)) = 0 := by
  rw [clientDecide_eq, (res_eq _ _).1, (res_eq _ _).2]
  have l1 : lookup (WsSpec.serverResponse (acceptFor key) po) (WsSpec.s "Sec-WebSocket-Accept") = some (acceptFor key) := by cases po <;> rfl
  have l2 : lookup (WsSpec.serverResponse (acceptFor key) po) (WsSpec.s "Connection") = some (WsSpec.s "Upgrade") := by cases po <;> rfl
  have l3 : lookup (WsSpec.serverResponse (acceptFor key) po) (WsSpec.s "Upgrade") = some (WsSpec.s "websocket") := by cases po <;> rfl
  have l4 : lookup (WsSpec.serverResponse (acceptFor key) po) (WsSpec.s "Sec-WebSocket-Protocol") = po := by cases po <;> rfl
  have w2 : hasWord (WsSpec.s "Upgrade") (WsSpec.s "upgrade") = true := by decide
  have st : WsSpec.statusResult 101 = 0 := rfl
  simp only [clientExpected, l1, l2, l3, l4, w2, st, hk]
  cases po with
  | none => simp
  | some p => simp [hasWord_self p (hpo p rfl)]

/-! ### RFC 7230 token lists -/

theorem splitComma_no_comma : ∀ p : Bytes, p.any (· == 44) = false → WsSpec.splitComma p = [p] := by
  intro p
  induction p with
  | nil => intro _; rfl
  | cons c r ih =>
    intro h
    simp only [List.any_cons, Bool.or_eq_false_iff] at h
    have hc : ¬ c = 44 := by simpa using h.1
    simp [WsSpec.splitComma, ih h.2, hc]

/-- a single token (no ' ', no ',', not empty, no surrounding tab) is the one element of its own list -/
theorem tokens_single (p : Bytes) (hne : p ≠ []) (hsep : p.any WsSpec.isSep = false) (htrim : WsSpec.trim p = p) :
    WsSpec.tokens p = [p] := by
  have hc : p.any (· == 44) = false := by
    apply List.any_eq_false.mpr
    intro x hx
    have := List.any_eq_false.mp hsep x hx
    simp [WsSpec.isSep] at this
    simpa using this.2
  have he : p.isEmpty = false := by cases p <;> simp_all
  simp [WsSpec.tokens, splitComma_no_comma p hc, htrim, he]

end Nng.WsUp
