/-
  C08: ghost ids are fresh — an accepted or parked send never shares its id with another,
  and the accepted arrivals are numbered 0, 1, 2, … in order.  With the order theorems this
  gives "each message at most once".
-/
import NngModel.Proofs.PairInv
namespace Nng.Pair0
open Nng Nng.Proto List

def txIds (s : State) : List Nat :=
  s.accepted.map (·.gid) ++ s.waq.map (·.msg.gid) ++ s.returned.map (·.gid)

structure Fresh (s : State) : Prop where
  txNodup : (txIds s).Nodup
  txLt : ∀ g ∈ txIds s, g < s.nsend
  /-- every send operation so far is accounted for: accepted, still parked, or returned to its caller -/
  txAll : (txIds s).length = s.nsend
  waqAio : (s.waq.map (·.aio)).Nodup
  rxIds : s.arrived.map (·.gid) = List.range s.narrive

theorem fresh_init : Fresh ({} : State) := by
  constructor <;> simp [txIds]

/-- the set of accounted send ids is unchanged (possibly reordered), no new parked aio -/
theorem fresh_perm (s s' : State) (h : Fresh s) (hp : (txIds s').Perm (txIds s))
    (hq : (s'.waq.map (·.aio)).Sublist (s.waq.map (·.aio)))
    (hn : s'.nsend = s.nsend) (hr : s'.arrived = s.arrived) (hm : s'.narrive = s.narrive) : Fresh s' := by
  obtain ⟨f1, f2, f3, f4, f5⟩ := h
  constructor
  · exact hp.nodup_iff.mpr f1
  · intro g hg; rw [hn]; exact f2 g (hp.subset hg)
  · rw [hp.length_eq, hn]; exact f3
  · exact hq.nodup f4
  · rw [hr, hm]; exact f5

theorem fresh_of_eq (s s' : State) (h : Fresh s) (ha : s'.accepted = s.accepted) (hw : s'.waq = s.waq)
    (hrt : s'.returned = s.returned)
    (hn : s'.nsend = s.nsend) (hr : s'.arrived = s.arrived) (hm : s'.narrive = s.narrive) : Fresh s' :=
  fresh_perm s s' h (by simp [txIds, ha, hw, hrt]) (by rw [hw]; exact List.Sublist.refl _) hn hr hm

/-- the head of the wait queue becomes accepted -/
theorem fresh_promote (s s' : State) (h : Fresh s) (a : PSend) (ar : List PSend) (hw : s.waq = a :: ar)
    (ha : s'.accepted = s.accepted ++ [a.msg]) (hw' : s'.waq = ar) (hrt : s'.returned = s.returned)
    (hn : s'.nsend = s.nsend) (hr : s'.arrived = s.arrived) (hm : s'.narrive = s.narrive) : Fresh s' :=
  fresh_perm s s' h (by simp [txIds, ha, hw', hw, hrt]) (by rw [hw', hw]; simp) hn hr hm

/-- in a list without duplicate keys, removing the entries with key `a` removes exactly the found one -/
theorem filter_key_perm (l : List PSend) (a : Nat) (pk : PSend) (hn : (l.map (·.aio)).Nodup)
    (hf : l.find? (·.aio == a) = some pk) : (pk :: l.filter (·.aio != a)).Perm l := by
  induction l with
  | nil => simp at hf
  | cons x xs ih =>
    simp only [List.map_cons, List.nodup_cons] at hn
    by_cases hx : x.aio = a
    · have : pk = x := by simp [List.find?, hx] at hf; exact hf.symm
      subst this
      have hnone : ∀ y ∈ xs, y.aio ≠ a := by
        intro y hy he
        exact hn.1 (by rw [hx, ← he]; exact List.mem_map_of_mem hy)
      have : xs.filter (·.aio != a) = xs := by
        apply List.filter_eq_self.mpr
        intro y hy; simpa using hnone y hy
      simp [List.filter, hx, this]
    · have hb : (x.aio == a) = false := by simpa using hx
      have hf' : xs.find? (·.aio == a) = some pk := by
        rw [List.find?_cons] at hf; simpa [hb] using hf
      have := ih hn.2 hf'
      simp only [List.filter, show (x.aio != a) = true by simpa using hx]
      exact (List.Perm.swap _ _ _).trans (List.Perm.cons _ this)

theorem sendSched_fresh (V : Variant) (s : State) (p : Nat) (h : Fresh s) : Fresh (sendSched V s p).1 := by
  unfold sendSched
  by_cases hc : (s.cur != some p) = true
  · rw [if_pos hc]; exact h
  · rw [if_neg hc]
    unfold sendSchedBody
    cases hq : s.wmq with
    | nil =>
      cases ha : s.waq with
      | nil => refine fresh_of_eq s _ h ?_ ?_ ?_ ?_ ?_ ?_ <;> simp [ha]
      | cons a ar => refine fresh_promote s _ h a ar ha ?_ ?_ ?_ ?_ ?_ ?_ <;> simp [pipeSend, modPipe]
    | cons m rest =>
      cases ha : s.waq with
      | nil => refine fresh_of_eq s _ h ?_ ?_ ?_ ?_ ?_ ?_ <;> simp [pipeSend, modPipe, ha]
      | cons a ar => refine fresh_promote s _ h a ar ha ?_ ?_ ?_ ?_ ?_ ?_ <;> simp [pipeSend, modPipe, ha, wmqPutUnchecked]

theorem failParked_fresh (s : State) (a rv : Nat) (h : Fresh s) : Fresh (failParked s a rv).1 := by
  unfold failParked
  cases hf : s.waq.find? (·.aio == a) with
  | some pk =>
    have hp := filter_key_perm s.waq a pk h.waqAio hf
    refine fresh_perm s _ h ?_ ((List.filter_sublist).map _) rfl rfl rfl
    apply List.perm_iff_count.mpr; intro x
    have := (hp.map (fun p : PSend => p.msg.gid)).count_eq x
    simp only [txIds, List.map_append, List.map_cons, List.map_nil, List.count_append, List.count_cons, List.count_nil] at this ⊢
    omega
  | none =>
    by_cases hr : (s.raq.any (·.aio == a)) = true
    · rw [if_pos hr]; exact fresh_of_eq s _ h rfl rfl rfl rfl rfl rfl
    · rw [if_neg hr]; exact h

theorem failMany_fresh (as : List Nat) (rv : Nat) (s : State) (o : List Out) (h : Fresh s) :
    Fresh (as.foldl (fun (acc : State × List Out) a =>
      let (s', o) := failParked acc.1 a rv
      (s', acc.2 ++ o)) (s, o)).1 := by
  induction as generalizing s o with
  | nil => exact h
  | cons a rest ih =>
    simp only [List.foldl]
    exact ih _ _ (failParked_fresh s a rv h)

/-- a new send operation gets the next id, and is accepted, parked or returned -/
theorem fresh_new (s s' : State) (h : Fresh s) (hp : (txIds s').Perm (s.nsend :: txIds s))
    (hq : (s'.waq.map (·.aio)).Nodup)
    (hn : s'.nsend = s.nsend + 1) (hr : s'.arrived = s.arrived) (hm : s'.narrive = s.narrive) : Fresh s' := by
  obtain ⟨f1, f2, f3, f4, f5⟩ := h
  have hnot : s.nsend ∉ txIds s := fun hin => by have := f2 _ hin; omega
  constructor
  · exact hp.nodup_iff.mpr (List.nodup_cons.mpr ⟨hnot, f1⟩)
  · intro x hx; rw [hn]
    rcases List.mem_cons.mp (hp.subset hx) with e | e
    · omega
    · have := f2 x e; omega
  · rw [hp.length_eq, hn]; simp [f3]
  · exact hq
  · rw [hr, hm]; exact f5

macro "perm_count" : tactic => `(tactic|
  (apply List.perm_iff_count.mpr; intro x
   simp only [txIds, pipeSend, modPipe, List.map_append, List.map_cons, List.map_nil, List.count_append, List.count_cons, List.count_nil]
   omega))

theorem sockSend_fresh (V : Variant) (s : State) (a : Nat) (m : WMsg) (mode : Mode) (h : Fresh s)
    (hfree : ∀ pk ∈ s.waq, pk.aio ≠ a) : Fresh (sockSend V s a m mode).1 := by
  have hq := h.waqAio
  have hq' : ∀ (g : GMsg) (d : Option Nat), ((s.waq ++ [(⟨a, g, d⟩ : PSend)]).map (fun p : PSend => p.aio)).Nodup := by
    intro g d
    simp only [List.map_append, List.map_cons, List.map_nil]
    refine List.nodup_append.mpr ⟨hq, by simp, ?_⟩
    intro x hx y hy
    simp only [List.mem_map] at hx
    obtain ⟨pk, hpk, rfl⟩ := hx
    simp at hy; subst hy
    exact hfree pk hpk
  unfold sockSend
  cases V.txPrep s.raw m with
  | error e => exact fresh_new s _ h (by perm_count) hq rfl rfl rfl
  | ok m' =>
    simp only
    unfold sockSendLocked
    by_cases hw : s.wrReady = true
    · simp only [hw, if_true]
      cases hc : s.cur with
      | none => exact fresh_new s _ h (by perm_count) hq rfl rfl rfl
      | some p => exact fresh_new s _ h (by perm_count) hq rfl rfl rfl
    · simp only [hw, Bool.false_eq_true, if_false]
      by_cases hl : s.wmq.length < s.wmqCap
      · simp only [hl, if_true]
        exact fresh_new s _ h (by perm_count) hq rfl rfl rfl
      · simp only [hl, if_false]
        unfold parkSend
        cases mode with
        | nb => exact fresh_new s _ h (by perm_count) hq rfl rfl rfl
        | inf => exact fresh_new s _ h (by perm_count) (hq' _ _) rfl rfl rfl
        | dflt => exact fresh_new s _ h (by perm_count) (hq' _ _) rfl rfl rfl
        | ms n =>
          cases n with
          | zero => exact fresh_new s _ h (by perm_count) hq rfl rfl rfl
          | succ k => exact fresh_new s _ h (by perm_count) (hq' _ _) rfl rfl rfl

theorem pipeStop_fresh (s : State) (p : Nat) (h : Fresh s) : Fresh (pipeStop s p) := by
  unfold pipeStop
  by_cases hc : (s.cur != some p) = true
  · rw [if_pos hc]; exact h
  · rw [if_neg hc]; exact fresh_of_eq s _ h rfl rfl rfl rfl rfl rfl

theorem closePipe_fresh (s : State) (p : Nat) (h : Fresh s) : Fresh (closePipe s p).1 := by
  unfold closePipe
  cases hg : getPipe s p with
  | none => exact h
  | some pp =>
    by_cases hc : pp.closed = true
    · simp [hc]; exact h
    · simp only [hc, Bool.false_eq_true, ↓reduceIte]
      exact pipeStop_fresh _ _ (fresh_of_eq s _ h rfl rfl rfl rfl rfl rfl)

theorem recvCbLocked_frame (s : State) (p : Nat) (gm : GMsg) :
    (recvCbLocked s p gm).1.accepted = s.accepted ∧ (recvCbLocked s p gm).1.waq = s.waq ∧
    (recvCbLocked s p gm).1.returned = s.returned ∧
    (recvCbLocked s p gm).1.nsend = s.nsend ∧ (recvCbLocked s p gm).1.arrived = s.arrived ∧
    (recvCbLocked s p gm).1.narrive = s.narrive := by
  unfold recvCbLocked
  by_cases hcp : (s.cur != some p) = true
  · rw [if_pos hcp]; simp
  · rw [if_neg hcp]
    cases hr : s.raq with
    | cons a rest => simp [modPipe]
    | nil => by_cases hf : (!rmqFull s) = true <;> simp [hf, modPipe]

theorem recvCb_fresh (V : Variant) (s : State) (p : Nat) (b : Bytes) (h : Fresh s) : Fresh (recvCb V s p b).1 := by
  unfold recvCb
  cases V.rxDecide s.ttl b with
  | close => exact closePipe_fresh _ _ (fresh_of_eq s _ h rfl rfl rfl rfl rfl rfl)
  | drop => exact fresh_of_eq s _ h rfl rfl rfl rfl rfl rfl
  | deliver m =>
    simp only
    obtain ⟨e1, e2, e3, e4, e5, e6⟩ := recvCbLocked_frame { s with narrive := s.narrive + 1, arrived := s.arrived ++ [⟨s.narrive, m⟩] } p ⟨s.narrive, m⟩
    obtain ⟨f1, f2, f3, f4, f5⟩ := h
    have et : txIds (recvCbLocked { s with narrive := s.narrive + 1, arrived := s.arrived ++ [⟨s.narrive, m⟩] } p ⟨s.narrive, m⟩).1 = txIds s := by
      simp [txIds, e1, e2, e3]
    constructor
    · rw [et]; exact f1
    · rw [et, e4]; exact f2
    · rw [et, e4]; exact f3
    · rw [e2]; exact f4
    · rw [e5, e6]; simp [f5, List.range_succ]

theorem sockRecv_fresh (s : State) (a : Nat) (mode : Mode) (h : Fresh s) : Fresh (sockRecv s a mode).1 := by
  unfold sockRecv
  cases hq : s.rmq with
  | cons m rest =>
    by_cases hrd : s.rdReady = true
    · simp only [hrd, if_true]
      split
      · refine fresh_of_eq s _ h ?_ ?_ ?_ ?_ ?_ ?_ <;> simp [modPipe, rmqPutUnchecked]
      · exact fresh_of_eq s _ h rfl rfl rfl rfl rfl rfl
    · simp only [hrd, Bool.false_eq_true, ↓reduceIte]
      exact fresh_of_eq s _ h rfl rfl rfl rfl rfl rfl
  | nil =>
    by_cases hrd : s.rdReady = true
    · simp only [hrd, if_true]
      split
      · refine fresh_of_eq s _ h ?_ ?_ ?_ ?_ ?_ ?_ <;> simp [modPipe]
      · exact h
    · simp only [hrd, Bool.false_eq_true, ↓reduceIte]
      cases mode with
      | nb => exact h
      | inf => exact fresh_of_eq s _ h rfl rfl rfl rfl rfl rfl
      | dflt => exact fresh_of_eq s _ h rfl rfl rfl rfl rfl rfl
      | ms n =>
        cases n with
        | zero => exact h
        | succ k => exact fresh_of_eq s _ h rfl rfl rfl rfl rfl rfl

theorem closeAll_fresh (ps : List Pipe) (s : State) (o : List Out) (h : Fresh s) :
    Fresh (ps.foldl (fun (acc : State × List Out) (pp : Pipe) =>
      let (s', o) := closePipe acc.1 pp.id
      (s', acc.2 ++ o)) (s, o)).1 := by
  induction ps generalizing s o with
  | nil => exact h
  | cons a rest ih =>
    simp only [List.foldl]
    exact ih _ _ (closePipe_fresh s a.id h)

theorem pipeStart_fresh (V : Variant) (s : State) (id peer : Nat) (h : Fresh s) : Fresh (pipeStart V s id peer).1 := by
  unfold pipeStart
  by_cases hp : (peer != V.peer) = true
  · rw [if_pos hp]; exact fresh_of_eq s _ h rfl rfl rfl rfl rfl rfl
  · rw [if_neg hp]
    by_cases hc : s.cur.isSome = true
    · rw [if_pos hc]; exact fresh_of_eq s _ h rfl rfl rfl rfl rfl rfl
    · rw [if_neg hc]
      simp only
      refine fresh_of_eq _ _ (sendSched_fresh V { s with cur := some id, rdReady := false } id (fresh_of_eq s _ h rfl rfl rfl rfl rfl rfl)) ?_ ?_ ?_ ?_ ?_ ?_ <;> simp [modPipe]

theorem step_fresh (V : Variant) (s : State) (ev : Ev) (h : Fresh s) : Fresh (step V s ev).1 := by
  unfold step
  split
  · split
    · constructor <;> simp [txIds]
    · exact fresh_of_eq s _ h rfl rfl rfl rfl rfl rfl
    · exact h
  · split
    · split
      · exact fresh_of_eq s _ h rfl rfl rfl rfl rfl rfl
      · exact h
    · split
      all_goals first
        | exact h
        | exact failParked_fresh _ _ _ h
        | exact sockRecv_fresh _ _ _ h
        | skip
      case h_2 peer => exact pipeStart_fresh V _ _ _ (fresh_of_eq s _ h rfl rfl rfl rfl rfl rfl)
      case h_3 p =>
        split
        · split
          · exact h
          · exact closePipe_fresh _ _ h
        · exact h
      case h_4 p rv =>
        split
        · split
          · exact h
          · split
            · exact closePipe_fresh _ _ h
            · exact sendSched_fresh _ _ _ (fresh_of_eq s _ h rfl rfl rfl rfl rfl rfl)
        · exact h
      case h_5 p r =>
        split
        · split
          · exact h
          · split
            · exact closePipe_fresh _ _ (fresh_of_eq s _ h rfl rfl rfl rfl rfl rfl)
            · exact recvCb_fresh V _ p _ (fresh_of_eq s _ h rfl rfl rfl rfl rfl rfl)
        · exact h
      case h_6 =>
        split
        · exact h
        · rename_i hb
          apply sockSend_fresh _ _ _ _ _ h
          intro pk hpk he
          apply hb
          simp only [aioBusy, Bool.or_eq_true, List.any_eq_true]
          exact Or.inl ⟨pk, hpk, by simpa using he⟩
      case h_7 => split <;> first | exact h | exact sockRecv_fresh _ _ _ h
      case h_10 ms =>
        unfold expire failMany
        exact failMany_fresh _ _ _ _ (fresh_of_eq s _ h rfl rfl rfl rfl rfl rfl)
      case h_13 => split <;> first | exact h | exact fresh_of_eq s _ h rfl rfl rfl rfl rfl rfl
      case h_14 => split <;> first | exact h | exact fresh_of_eq s _ h rfl rfl rfl rfl rfl rfl
      case h_15 =>
        split
        · exact h
        · split
          · exact h
          · exact fresh_of_eq s _ h rfl rfl rfl rfl rfl rfl
      case h_19 => split <;> exact h
      case h_24 =>
        simp only
        have hc := closeAll_fresh s.pipes s [] h
        refine fresh_perm _ _ hc ?_ ?_ ?_ ?_ ?_
        · apply List.perm_iff_count.mpr; intro x
          simp only [txIds, sockClose, closeAllPipes, List.map_append, List.map_nil, List.count_append, List.count_nil, List.map_map]
          have : List.map (fun x : PSend => x.msg.gid) = List.map ((fun x : GMsg => x.gid) ∘ PSend.msg) := rfl
          simp only [this]
          omega
        · simp [sockClose, closeAllPipes]
        · simp [sockClose, closeAllPipes]
        · simp [sockClose, closeAllPipes]
        · simp [sockClose, closeAllPipes]

theorem run_fresh (V : Variant) (evs : List Ev) (s : State) (h : Fresh s) : Fresh (run V s evs).1 := by
  induction evs generalizing s with
  | nil => exact h
  | cons e es ih =>
    simp only [run]
    exact ih _ (step_fresh V s e h)

end Nng.Pair0
