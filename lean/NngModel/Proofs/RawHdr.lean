/-
  Header handling of the raw REQ/REP sockets (used by devices, property C13): XREP pushes the
  receiving pipe's id in front of the parsed backtrace and pops it again to route a reply; XREQ moves
  the header words of a reply from the body to the header.
-/
import NngModel.Model.Xrep
import NngModel.Model.Xreq
import NngModel.Spec.RawReqRep
import NngModel.Proofs.RepParse
import NngModel.Proofs.BytesLemmas
import NngModel.Generated.Base
namespace Nng.RawProofs
open Nng Nng.RepProofs
open Nng.Msg (length_beEncode beDecode_beEncode)

/-- what XREP hands up for a well-formed request: pipe id word, then exactly the backtrace the closed
    form `classify` describes; malformed / over-long requests are classified the same way as by REP -/
theorem xrep_recvHeader_spec (ttl p : Nat) (b : Bytes) :
    (match Xrep.recvHeader ttl p b with
     | .ok h body => ∃ hdr, h = Xrep.idWord p ++ hdr ∧ RepSpec.classify ttl b = .ok hdr body
     | .drop => RepSpec.classify ttl b = .tooManyHops
     | .malformed => RepSpec.classify ttl b = .malformed) := by
  have h := parse_eq_classify ttl b
  unfold Xrep.recvHeader
  cases hp : Rep.parseBacktrace ttl b with
  | ok hdr body => rw [hp] at h; exact ⟨hdr, rfl, h.symm⟩
  | drop => rw [hp] at h; exact h.symm
  | malformed => rw [hp] at h; exact h.symm

/-- the header XREP builds never exceeds the header buffer (NNI_MAX_HEADER_SIZE) for any legal TTL -/
theorem xrep_header_fits (ttl p : Nat) (b h body : Bytes) (httl : ttl ≤ Nng.Generated.maxMaxTtl)
    (hr : Xrep.recvHeader ttl p b = .ok h body) : h.length ≤ Nng.Generated.headerCap ∧ 8 ≤ h.length := by
  unfold Xrep.recvHeader at hr
  cases hp : Rep.parseBacktrace ttl b with
  | ok hdr body' =>
    rw [hp] at hr
    injection hr with h1 h2
    subst h1
    have f := parse_ok_fits httl hp
    have g := (parse_ok_facts hp).1
    have hl : (Xrep.idWord p).length = 4 := length_beEncode 4 (p + 1)
    rw [List.length_append, hl]
    omega
  | drop => rw [hp] at hr; cases hr
  | malformed => rw [hp] at hr; cases hr

/-- push/pop round trip: a reply that carries the header of the request it answers is routed back to
    the pipe the request came from, with the request's backtrace as the wire header -/
theorem xrep_roundtrip (p : Nat) (hdr : Bytes) (hp : p + 1 < 2 ^ 32) :
    Xrep.sendHeader (Xrep.idWord p ++ hdr) = some (p + 1, hdr) := by
  unfold Xrep.sendHeader Xrep.idWord
  have hl : (beEncode 4 (p + 1)).length = 4 := length_beEncode 4 (p + 1)
  have h1 : ¬ ((beEncode 4 (p + 1) ++ hdr).length < 4) := by
    rw [List.length_append, hl]; omega
  rw [if_neg h1]
  generalize hw : beEncode 4 (p + 1) = w at hl h1 ⊢
  have ht : (w ++ hdr).take 4 = w := by
    rw [← hl, List.take_left']; rfl
  have hd : (w ++ hdr).drop 4 = hdr := by
    rw [← hl, List.drop_left']; rfl
  subst hw
  rw [ht, hd, beDecode_beEncode]
  have : (p + 1) % 256 ^ 4 = p + 1 := Nat.mod_eq_of_lt (by
    have e : (256 : Nat) ^ 4 = 2 ^ 32 := by decide
    omega)
  rw [this]

/-- replies whose header is shorter than one word are dropped by the router -/
theorem xrep_short_header (hdr : Bytes) (h : hdr.length < 4) : Xrep.sendHeader hdr = none := by
  unfold Xrep.sendHeader; rw [if_pos h]

/-- XREQ's reply loop in closed form (`RawSpec.xreqShape`): `n` = words the header can still take -/
theorem xreq_parseLoop_spec (n : Nat) : ∀ (hdr body : Bytes),
    Xreq.parseLoop n hdr body =
      (let k := RepSpec.leadingHops body
       if body.length < 4 * k + 4 then Xreq.HdrResult.close
       else if k + 1 > n then Xreq.HdrResult.close
       else Xreq.HdrResult.ok (hdr ++ body.take (4 * k + 4)) (body.drop (4 * k + 4))) := by
  induction n with
  | zero =>
    intro hdr body
    simp only [Xreq.parseLoop]
    by_cases h : body.length < 4 * RepSpec.leadingHops body + 4
    · simp [h]
    · simp [h]
  | succ n ih =>
    intro hdr body
    match body with
    | [] => simp [Xreq.parseLoop, RepSpec.leadingHops]
    | [_] => simp [Xreq.parseLoop, RepSpec.leadingHops]
    | [_, _] => simp [Xreq.parseLoop, RepSpec.leadingHops]
    | [_, _, _] => simp [Xreq.parseLoop, RepSpec.leadingHops]
    | a :: b :: c :: d :: rest =>
      unfold Xreq.parseLoop
      have hlen : ¬ ((a :: b :: c :: d :: rest).length < 4) := by simp
      rw [if_neg hlen]
      have hend : Xreq.isEnd ((a :: b :: c :: d :: rest).take 4) = (a &&& 0x80 != 0) := by simp [Xreq.isEnd]
      rw [hend]
      by_cases he : (a &&& 0x80 != 0) = true
      · rw [if_pos he]
        simp [RepSpec.leadingHops, he]
      · rw [if_neg he, ih]
        have hk : RepSpec.leadingHops (a :: b :: c :: d :: rest) = RepSpec.leadingHops rest + 1 := by
          simp [RepSpec.leadingHops, he]
        simp only [hk]
        have hd : (a :: b :: c :: d :: rest).drop 4 = rest := rfl
        have ht : (a :: b :: c :: d :: rest).take 4 = [a, b, c, d] := rfl
        rw [hd, ht]
        by_cases h2 : rest.length < 4 * RepSpec.leadingHops rest + 4
        · have : (a :: b :: c :: d :: rest).length < 4 * (RepSpec.leadingHops rest + 1) + 4 := by
            simp; omega
          rw [if_pos h2, if_pos this]
        · have : ¬ (a :: b :: c :: d :: rest).length < 4 * (RepSpec.leadingHops rest + 1) + 4 := by
            simp; omega
          rw [if_neg h2, if_neg this]
          by_cases h3 : RepSpec.leadingHops rest + 1 > n
          · have : RepSpec.leadingHops rest + 1 + 1 > n + 1 := by omega
            rw [if_pos h3, if_pos this]
          · have : ¬ RepSpec.leadingHops rest + 1 + 1 > n + 1 := by omega
            rw [if_neg h3, if_neg this]
            have e1 : 4 * (RepSpec.leadingHops rest + 1) + 4 = (4 * RepSpec.leadingHops rest + 4) + 4 := by omega
            rw [e1]
            have t4 : ∀ m, (a :: b :: c :: d :: rest).take (m + 4) = a :: b :: c :: d :: rest.take m := by
              intro m; rfl
            have d4 : ∀ m, (a :: b :: c :: d :: rest).drop (m + 4) = rest.drop m := by
              intro m; rfl
            rw [t4, d4]
            simp [List.append_assoc]

/-- XREQ delivers exactly what the specification's `xreqShape` says, and closes the pipe otherwise -/
theorem xreq_recvHeader_spec (b : Bytes) :
    (match Xreq.recvHeader b with
     | .ok h body => RawSpec.xreqShape Nng.Generated.headerCap b = some (h, body)
     | .close => RawSpec.xreqShape Nng.Generated.headerCap b = none) := by
  unfold Xreq.recvHeader RawSpec.xreqShape
  rw [xreq_parseLoop_spec]
  simp only [List.nil_append]
  by_cases h1 : b.length < 4 * RepSpec.leadingHops b + 4
  · simp [h1]
  · by_cases h2 : RepSpec.leadingHops b + 1 > Nng.Generated.headerCap / 4
    · simp [h1, h2]
    · simp [h1, h2]

/-- a reply header XREQ hands up fits the header buffer and ends the message split exactly -/
theorem xreq_header_fits (b h body : Bytes) (hr : Xreq.recvHeader b = .ok h body) :
    h.length ≤ Nng.Generated.headerCap ∧ 4 ≤ h.length ∧ h ++ body = b := by
  have hs := xreq_recvHeader_spec b
  rw [hr] at hs
  simp only at hs
  unfold RawSpec.xreqShape at hs
  simp only at hs
  by_cases h1 : b.length < 4 * RepSpec.leadingHops b + 4
  · simp [h1] at hs
  · by_cases h2 : RepSpec.leadingHops b + 1 > Nng.Generated.headerCap / 4
    · simp [h1, h2] at hs
    · simp only [h1, h2, if_false] at hs
      injection hs with hs
      injection hs with hh hb
      subst hh; subst hb
      have hl : (List.take (4 * RepSpec.leadingHops b + 4) b).length = 4 * RepSpec.leadingHops b + 4 := by
        rw [List.length_take]; omega
      have e2 : Nng.Generated.headerCap = 64 := rfl
      rw [e2] at h2 ⊢
      refine ⟨by omega, by omega, List.take_append_drop _ _⟩

end Nng.RawProofs
