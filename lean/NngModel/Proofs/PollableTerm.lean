/- Termination of the pollable model under ANY scheduler: a measure that every effective step
   strictly decreases.  The re-check loop of the repaired getfd is paid for by mutator steps
   (an extra iteration needs the flag to differ from the value the loop read, i.e. a mutator swap). -/
import NngModel.Model.Pollable
namespace Nng.Pollable

def MPc.rem : MPc → Nat
  | .idle => 0
  | .raiseLoad => 2
  | .raiseWrite _ => 1
  | .clearLoad => 2
  | .clearDrain _ => 1

/-- remaining atomic steps of a mutator -/
def Mut.rem (m : Mut) : Nat := 3 * m.prog.length + m.pc.rem

def pot (raised r : Bool) : Nat := if raised = r then 0 else 3

/-- upper bound on the remaining steps of a getfd thread, given whether a pipe is installed and the
    current flag (`pot`: the loop will go round once more if the flag stays different) -/
def GPc.rem (inst raised : Bool) : GPc → Nat
  | .idle => if inst then 1 else 6
  | .top => if inst then 1 else 6
  | .open_ => if inst then 4 else 5
  | .cas _ => if inst then 3 else 4
  | .close _ => if inst then 2 else 7
  | .ld _ => 3
  | .act _ r => 2 + pot raised r
  | .chk _ r => 1 + pot raised r
  | .done _ => 0

def gsum (inst raised : Bool) (gs : List GPc) : Nat := (gs.map (GPc.rem inst raised)).sum

/-- the measure -/
def mu (s : State) : Nat :=
  (3 * s.gs.length + 1) * (s.m1.rem + s.m2.rem) + gsum s.sh.fds.isSome s.sh.raised s.gs

def Mut.enabled (m : Mut) : Bool := !(m.pc == .idle && m.prog.isEmpty)

def GPc.enabled : GPc → Bool
  | .done _ => false
  | _ => true

/-- the chosen thread exists and has not finished -/
def enabled (s : State) (c : Choice) : Bool :=
  match c.tid with
  | .m1 => s.m1.enabled
  | .m2 => s.m2.enabled
  | .g i => match s.gs[i]? with
    | some g => g.enabled
    | none => false

theorem sum_map_set {α : Type} (f : α → Nat) (l : List α) (i : Nat) (a : α) (h : i < l.length) :
    ((l.set i a).map f).sum + f l[i] = (l.map f).sum + f a := by
  induction l generalizing i with
  | nil => simp at h
  | cons x xs ih =>
    cases i with
    | zero => simp; omega
    | succ i =>
      simp at h
      have := ih i h
      simp only [List.set_cons_succ, List.map_cons, List.sum_cons, List.getElem_cons_succ]; omega

theorem sum_map_le_add {α : Type} (f f' : α → Nat) (c : Nat) (l : List α) (h : ∀ a, f' a ≤ f a + c) :
    (l.map f').sum ≤ (l.map f).sum + c * l.length := by
  induction l with
  | nil => simp
  | cons x xs ih =>
    have := h x
    simp [Nat.mul_add]; omega

theorem rem_raised_le (inst r r' : Bool) (g : GPc) : g.rem inst r' ≤ g.rem inst r + 3 := by
  cases g <;> simp [GPc.rem, pot] <;> (try split) <;> (try split) <;> omega

theorem rem_inst_le (inst r : Bool) (g : GPc) : g.rem true r ≤ g.rem inst r := by
  cases g <;> cases inst <;> simp [GPc.rem]

theorem gsum_raised_le (inst r r' : Bool) (gs : List GPc) : gsum inst r' gs ≤ gsum inst r gs + 3 * gs.length :=
  sum_map_le_add _ _ 3 gs (rem_raised_le inst r r')

theorem gsum_inst_le (inst r : Bool) (gs : List GPc) : gsum true r gs ≤ gsum inst r gs := by
  have := sum_map_le_add (GPc.rem inst r) (GPc.rem true r) 0 gs (fun g => by simpa using rem_inst_le inst r g)
  simpa [gsum] using this

/-! ### one step of each kind -/

theorem write_fds (sh : Shared) (p : Nat) : (sh.write p).fds = sh.fds ∧ (sh.write p).raised = sh.raised := by
  unfold Shared.write; split <;> simp
theorem drain_fds (sh : Shared) (p : Nat) : (sh.drain p).fds = sh.fds ∧ (sh.drain p).raised = sh.raised := by
  unfold Shared.drain; split <;> simp
theorem close_fds (sh : Shared) (p : Nat) : (sh.closeP p).fds = sh.fds ∧ (sh.closeP p).raised = sh.raised := by
  unfold Shared.closeP; split <;> simp

/-- a mutator step never touches p_fds, and strictly decreases the mutator's remaining steps if enabled -/
theorem mstep_rem (sh : Shared) (m : Mut) :
    (mstep sh m).1.fds = sh.fds ∧ (mstep sh m).2.rem ≤ m.rem ∧
    (m.enabled = true → (mstep sh m).2.rem < m.rem) ∧
    (m.enabled = false → mstep sh m = (sh, m)) := by
  obtain ⟨pc, prog⟩ := m
  cases pc with
  | idle =>
    cases prog with
    | nil => simp [mstep, Mut.rem, Mut.enabled]
    | cons op rest =>
      cases op <;> cases hr : sh.raised <;> simp [mstep, Mut.rem, Mut.enabled, MPc.rem, hr] <;> omega
  | raiseLoad => cases hf : sh.fds <;> simp [mstep, Mut.rem, Mut.enabled, MPc.rem, hf]
  | clearLoad => cases hf : sh.fds <;> simp [mstep, Mut.rem, Mut.enabled, MPc.rem, hf]
  | raiseWrite p => simp [mstep, Mut.rem, Mut.enabled, MPc.rem, write_fds]
  | clearDrain p => simp [mstep, Mut.rem, Mut.enabled, MPc.rem, drain_fds]

/-- effect of a getfd step on the thread's own bound and on the two shared words the bound reads -/
theorem gstep_rem (fixed : Bool) (sh : Shared) (g : GPc) (ok : Bool) :
    (gstep fixed sh g ok).1.raised = sh.raised ∧
    ((gstep fixed sh g ok).1.fds = sh.fds ∨ (sh.fds = none ∧ (gstep fixed sh g ok).1.fds.isSome)) ∧
    (g.enabled = true → (gstep fixed sh g ok).2.rem sh.fds.isSome sh.raised < g.rem sh.fds.isSome sh.raised) ∧
    (g.enabled = false → gstep fixed sh g ok = (sh, g)) := by
  cases g with
  | idle => cases hf : sh.fds <;> simp [gstep, GPc.rem, GPc.enabled, hf]
  | top => cases hf : sh.fds <;> simp [gstep, GPc.rem, GPc.enabled, hf]
  | open_ => cases ok <;> cases hf : sh.fds <;> simp [gstep, GPc.rem, GPc.enabled, hf]
  | cas p => cases hf : sh.fds <;> simp [gstep, GPc.rem, GPc.enabled, hf]
  | ld p =>
    cases hr : sh.raised <;> cases fixed <;> simp [gstep, GPc.rem, GPc.enabled, hr, pot]
  | act p r =>
    cases r <;> cases fixed <;> simp [gstep, GPc.rem, GPc.enabled, write_fds, drain_fds] <;> omega
  | chk p r =>
    cases hr : sh.raised <;> cases r <;> simp [gstep, GPc.rem, GPc.enabled, hr, pot]
  | close p => cases hf : sh.fds <;> simp [gstep, GPc.rem, GPc.enabled, close_fds, hf]
  | done r => simp [gstep, GPc.enabled]

theorem gsum_mono {inst inst' : Bool} (r : Bool) (gs : List GPc) (h : inst' = inst ∨ inst' = true) :
    gsum inst' r gs ≤ gsum inst r gs := by
  rcases h with h | h
  · rw [h]; exact Nat.le_refl _
  · rw [h]; exact gsum_inst_le inst r gs

/-- a choice that is not enabled is a stutter step -/
theorem step_not_enabled (fixed : Bool) (s : State) (c : Choice) (h : enabled s c = false) :
    step fixed s c = s := by
  unfold enabled at h
  unfold step
  cases hc : c.tid with
  | m1 =>
    rw [hc] at h; simp only [] at h ⊢
    rw [(mstep_rem s.sh s.m1).2.2.2 h]
  | m2 =>
    rw [hc] at h; simp only [] at h ⊢
    rw [(mstep_rem s.sh s.m2).2.2.2 h]
  | g i =>
    rw [hc] at h; simp only [] at h ⊢
    cases hi : s.gs[i]? with
    | none => rfl
    | some g =>
      rw [hi] at h; simp only [] at h ⊢
      rw [(gstep_rem fixed s.sh g c.openOk).2.2.2 h]
      have ⟨hl, hg⟩ := List.getElem?_eq_some_iff.mp hi
      have : s.gs.set i g = s.gs := by rw [← hg]; exact List.set_getElem_self hl
      simp only [this]

theorem mul_step {K a a' b : Nat} (h : a' < a) : K * (a' + b) + K ≤ K * (a + b) := by
  have := Nat.mul_le_mul_left K (show a' + b + 1 ≤ a + b by omega)
  simpa [Nat.mul_add] using this

/-- every effective step strictly decreases the measure -/
theorem mu_step_lt (fixed : Bool) (s : State) (c : Choice) (h : enabled s c = true) :
    mu (step fixed s c) < mu s := by
  unfold enabled at h
  unfold step
  cases hc : c.tid with
  | m1 =>
    rw [hc] at h; simp only [] at h ⊢
    obtain ⟨hf, _, hlt, _⟩ := mstep_rem s.sh s.m1
    have h1 := mul_step (K := 3 * s.gs.length + 1) (b := s.m2.rem) (hlt h)
    have h2 := gsum_raised_le s.sh.fds.isSome s.sh.raised (mstep s.sh s.m1).1.raised s.gs
    simp only [mu, hf]
    omega
  | m2 =>
    rw [hc] at h; simp only [] at h ⊢
    obtain ⟨hf, _, hlt, _⟩ := mstep_rem s.sh s.m2
    have h1 := mul_step (K := 3 * s.gs.length + 1) (b := s.m1.rem) (hlt h)
    have h2 := gsum_raised_le s.sh.fds.isSome s.sh.raised (mstep s.sh s.m2).1.raised s.gs
    simp only [mu, hf]
    rw [Nat.add_comm s.m1.rem, Nat.add_comm s.m1.rem]
    omega
  | g i =>
    rw [hc] at h; simp only [] at h ⊢
    cases hi : s.gs[i]? with
    | none => rw [hi] at h; simp at h
    | some g =>
      rw [hi] at h; simp only [] at h ⊢
      obtain ⟨hr, hf, hlt, _⟩ := gstep_rem fixed s.sh g c.openOk
      have ⟨hl, hg⟩ := List.getElem?_eq_some_iff.mp hi
      have hinst : (gstep fixed s.sh g c.openOk).1.fds.isSome = s.sh.fds.isSome ∨
          (gstep fixed s.sh g c.openOk).1.fds.isSome = true := by
        rcases hf with e | ⟨_, e⟩
        · exact Or.inl (by rw [e])
        · exact Or.inr e
      have h1 := gsum_mono s.sh.raised (s.gs.set i (gstep fixed s.sh g c.openOk).2) hinst
      have h2 := sum_map_set (GPc.rem s.sh.fds.isSome s.sh.raised) s.gs i (gstep fixed s.sh g c.openOk).2 hl
      rw [hg] at h2
      have h3 := hlt h
      simp only [mu, hr, List.length_set, gsum] at h1 h2 ⊢
      omega

theorem mu_step_le (fixed : Bool) (s : State) (c : Choice) : mu (step fixed s c) ≤ mu s := by
  cases h : enabled s c with
  | true => exact Nat.le_of_lt (mu_step_lt fixed s c h)
  | false => rw [step_not_enabled fixed s c h]; exact Nat.le_refl _

/-- number of effective (non-stutter) steps of a schedule -/
def effSteps (fixed : Bool) (s : State) : List Choice → Nat
  | [] => 0
  | c :: cs => (if enabled s c then 1 else 0) + effSteps fixed (step fixed s c) cs

theorem effSteps_le (fixed : Bool) (s : State) (sched : List Choice) :
    effSteps fixed s sched + mu (run fixed s sched) ≤ mu s := by
  induction sched generalizing s with
  | nil => simp [effSteps, run]
  | cons c cs ih =>
    have := ih (step fixed s c)
    simp only [effSteps, run, List.foldl_cons] at this ⊢
    cases h : enabled s c with
    | true => have := mu_step_lt fixed s c h; simp; omega
    | false => have := mu_step_le fixed s c; simp; omega

theorem mu_init (r0 : Bool) (n : Nat) (prog : List Op) :
    mu (init r0 n prog) = (3 * n + 1) * (3 * prog.length) + 6 * n := by
  have : gsum false r0 (List.replicate n GPc.idle) = 6 * n := by
    induction n with
    | zero => rfl
    | succ k ih => simp [gsum, List.replicate_succ, GPc.rem] at ih ⊢; omega
  simp [mu, init, Mut.rem, MPc.rem, this]

/-- a state in which no choice is enabled is properly terminated: nobody is inside a call, every
    getfd call has returned, both programs are exhausted (no deadlock, no livelock) -/
theorem stuck_is_finished (s : State) (h : ∀ c, enabled s c = false) :
    s.quiescent = true ∧ s.m1.prog = [] ∧ s.m2.prog = [] ∧ ∀ g ∈ s.gs, ∃ r, g = .done r := by
  have h1 := h ⟨.m1, true⟩
  have h2 := h ⟨.m2, true⟩
  simp only [enabled, Mut.enabled, Bool.not_eq_false', Bool.and_eq_true, beq_iff_eq, List.isEmpty_iff] at h1 h2
  have hg : ∀ g ∈ s.gs, ∃ r, g = .done r := by
    intro g hg
    obtain ⟨i, hl, hi⟩ := List.getElem_of_mem hg
    have := h ⟨.g i, true⟩
    simp only [enabled, List.getElem?_eq_getElem hl, hi] at this
    cases g <;> simp [GPc.enabled] at this
    exact ⟨_, rfl⟩
  refine ⟨?_, h1.2, h2.2, hg⟩
  simp only [State.quiescent, h1.1, h2.1, beq_self_eq_true, Bool.true_and, List.all_eq_true]
  intro g hm
  obtain ⟨r, rfl⟩ := hg g hm
  rfl

end Nng.Pollable
