/- no deadlock: within the contract, if no thread can move (the descriptor never becoming ready) every
   client program has run to its end - in particular a thread inside nni_posix_pfd_stop is always
   either able to move or waiting for a poller thread that can -/
import NngModel.Proofs.PfdContractP
namespace Nng.Pfd
open Nng.PfdSpec

theorem client_of_frame {s : State} {j : Nat} {f : Frame} (h : frameOf s (.c j) = f) (hf : f ≠ .idle) :
    ∃ c, s.cs[j]? = some c ∧ c.frame = f := by
  simp only [frameOf] at h
  cases hc : s.cs[j]? with
  | none => rw [hc] at h; exact absurd h.symm hf
  | some c => rw [hc] at h; exact ⟨c, rfl, h⟩

/-- a thread that holds pq->mtx (it is between the append and the cv_wait of stop) can move -/
theorem writer_live {s : State} (hs : SInv s) (hk : KInv s) (t : Tid) (h : frameOf s t = .stopWrite) : s.live = true := by
  cases t with
  | p =>
    have h1 := hk.stopFr .p (by simp [h])
    have h2 := hk.pOp (by rw [h]; simp)
    exact absurd h1 h2
  | c j =>
    obtain ⟨c, hc, hf⟩ := client_of_frame h (by simp)
    have hb := hs.busyOp (.c j) (by rw [h]; simp)
    rw [opOf_c hc] at hb
    have hp : c.prog.isEmpty = false := by
      cases hpr : c.prog with
      | nil => rw [hpr] at hb; simp at hb
      | cons _ _ => rfl
    simp only [State.live, Bool.or_eq_true, List.any_eq_true]
    right
    exact ⟨c, List.mem_of_getElem? hc, by simp [Client.enabled, hp, hf, Frame.blocked]⟩

/-- the callback's current call never blocks (it is not a stop) -/
theorem pframe_not_blocked {s : State} (hk : KInv s) : s.p.frame.blocked s.g = false := by
  cases hf : s.p.frame with
  | stopLock =>
    exact absurd (hk.stopFr .p (by simp [frameOf, hf])) (hk.pOp (by simp [frameOf, hf]))
  | stopChk =>
    exact absurd (hk.stopFr .p (by simp [frameOf, hf])) (hk.pOp (by simp [frameOf, hf]))
  | stopSleep =>
    exact absurd (hk.stopFr .p (by simp [frameOf, hf])) (hk.pOp (by simp [frameOf, hf]))
  | _ => rfl

/-- the poller thread can move (or the holder of the mutex can) once it has something to do -/
theorem poller_live {s : State} (hs : SInv s) (hk : KInv s) (h : 0 < s.g.evfd ∨ s.p.pc ≠ .wait) : s.live = true := by
  cases hpc : s.p.pc with
  | wait =>
    have he : 0 < s.g.evfd := by
      rcases h with h | h
      · exact h
      · exact absurd hpc h
    have : (harvest s.g Evs.none true).isEmpty = false := by
      unfold harvest
      simp [he]
    simp [State.live, Poller.enabled, hpc, this]
  | disp => simp [State.live, Poller.enabled, hpc]
  | cbBegin => simp [State.live, Poller.enabled, hpc]
  | inCb => simp [State.live, Poller.enabled, hpc, pframe_not_blocked hk]
  | reapLock =>
    cases hm : s.g.mtx with
    | none => simp [State.live, Poller.enabled, hpc, hm]
    | some t => exact writer_live hs hk t (hs.mx t hm)

theorem stuck_finished {s : State} (hs : SInv s) (hk : KInv s) (hl : s.live = false) :
    ∀ c ∈ s.cs, c.finished = true := by
  intro c hc
  cases hp : c.prog with
  | nil => simp [Client.finished, hp]
  | cons op rest =>
    exfalso
    have hne : s.live = true := by
      obtain ⟨i, hi, hci⟩ := List.getElem_of_mem hc
      have hget : s.cs[i]? = some c := by rw [List.getElem?_eq_getElem hi, hci]
      have hfr : frameOf s (.c i) = c.frame := frameOf_c hget
      by_cases hb : c.frame.blocked s.g = true
      · -- blocked: on the mutex or asleep on the condition variable
        have hmtx : ∀ t, s.g.mtx = some t → s.live = true := fun t hm => writer_live hs hk t (hs.mx t hm)
        cases hf : c.frame with
        | stopSleep =>
          have hon := hs.sl (.c i) (by rw [hfr, hf])
          rcases hs.wk hon with ⟨t, ht⟩ | he | ⟨hpc, _⟩
          · exact writer_live hs hk t ht
          · exact poller_live hs hk (Or.inl he)
          · exact poller_live hs hk (Or.inr hpc)
        | stopLock =>
          rw [hf] at hb
          simp only [Frame.blocked, Option.isSome_iff_exists] at hb
          obtain ⟨t, ht⟩ := hb
          exact hmtx t ht
        | stopChk =>
          rw [hf] at hb
          simp only [Frame.blocked, Option.isSome_iff_exists] at hb
          obtain ⟨t, ht⟩ := hb
          exact hmtx t ht
        | _ => rw [hf] at hb; simp [Frame.blocked] at hb
      · simp only [State.live, Bool.or_eq_true, List.any_eq_true]
        right
        exact ⟨c, hc, by simp [Client.enabled, hp]; simpa using hb⟩
    rw [hl] at hne
    cases hne

end Nng.Pfd
