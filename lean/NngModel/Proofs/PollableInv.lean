/- The inductive invariant of the pollable model (both variants) and its preservation by every step. -/
import NngModel.Proofs.PollableBasic
import NngModel.Proofs.PollableTable
namespace Nng.Pollable

/-- the pipe a getfd thread holds privately (created, not yet published or closed) -/
def GPc.owns : GPc → Option Nat
  | .cas p => some p
  | .close p => some p
  | _ => none

def GPc.isOwner (g : GPc) : Bool := g.owns.isSome

/-- what a getfd thread's position implies about shared memory -/
def GWf (sh : Shared) : GPc → Prop
  | .cas p => openAt sh.pipes p = true ∧ sh.fds ≠ some p
  | .close p => openAt sh.pipes p = true ∧ sh.fds ≠ some p
  | .ld p => sh.fds = some p
  | .act p _ => sh.fds = some p
  | .chk p _ => sh.fds = some p
  | .done (some p) => sh.fds = some p
  | _ => True

def wOf (sh : Shared) : WPh := if sh.fds.isSome then .fin else .pre

structure Inv (fixed : Bool) (s : State) : Prop where
  bad : s.sh.bad = false
  m2 : s.m2 = ⟨.idle, []⟩
  inst : ∀ p, s.sh.fds = some p → openAt s.sh.pipes p = true
  mpcW : ∀ p, s.m1.pc = .raiseWrite p → s.sh.fds = some p
  mpcD : ∀ p, s.m1.pc = .clearDrain p → s.sh.fds = some p
  gwf : ∀ (i : Nat) (g : GPc), s.gs[i]? = some g → GWf s.sh g
  own : ∀ (i j : Nat) (g h : GPc) (p : Nat), s.gs[i]? = some g → s.gs[j]? = some h → g.owns = some p → h.owns = some p → i = j
  uniq : ∀ (i j : Nat) (g h : GPc), s.gs[i]? = some g → s.gs[j]? = some h → g.phase.isSome → h.phase.isSome → i = j
  tabA : ∀ (i : Nat) (g : GPc) (w : WPh), s.gs[i]? = some g → g.phase = some w →
    allowed fixed s.m1.pc.tag w s.sh.raised s.sh.instBytes
  tabN : (∀ (i : Nat) (g : GPc), s.gs[i]? = some g → g.phase = none) →
    allowed fixed s.m1.pc.tag (wOf s.sh) s.sh.raised s.sh.instBytes
  cnt : s.sh.nOpen = (if s.sh.fds.isSome then 1 else 0) + s.gs.countP GPc.isOwner
  zero : ∀ k, s.sh.fds ≠ some k → bytesAt s.sh.pipes k = 0

theorem GWf_congr {sh sh' : Shared} {g : GPc} (hf : sh'.fds = sh.fds)
    (ho : ∀ k, openAt sh'.pipes k = openAt sh.pipes k) : GWf sh' g ↔ GWf sh g := by
  cases g <;> simp [GWf, hf, ho]

theorem phase_some_fds {sh : Shared} {g : GPc} {w : WPh} (h : GWf sh g) (hp : g.phase = some w) :
    sh.fds.isSome ∧ w ≠ .pre := by
  cases g <;> simp [GPc.phase] at hp <;> simp [GWf] at h <;> simp [h, ← hp]

theorem inv_init (fixed : Bool) (r0 : Bool) (n : Nat) (prog : List Op) : Inv fixed (init r0 n prog) := by
  have hg : ∀ (i : Nat) (g : GPc), (List.replicate n GPc.idle)[i]? = some g → g = GPc.idle := by
    intro i g h
    rw [List.getElem?_replicate] at h
    split at h <;> simp at h
    exact h.symm
  refine ⟨rfl, rfl, ?_, ?_, ?_, ?_, ?_, ?_, ?_, ?_, ?_, ?_⟩
  · intro p h; simp [init] at h
  · intro p h; simp [init] at h
  · intro p h; simp [init] at h
  · intro i g h; rw [hg i g h]; simp [GWf]
  · intro i j g h p hi hj ho; rw [hg i g hi] at ho; simp [GPc.owns] at ho
  · intro i j g h hi hj ho; rw [hg i g hi] at ho; simp [GPc.phase] at ho
  · intro i g w hi hp; rw [hg i g hi] at hp; simp [GPc.phase] at hp
  · intro _; cases r0 <;> cases fixed <;> simp [init, wOf, allowed, range, MPc.tag, Shared.instBytes]
  · simp only [init, Shared.nOpen]
    have : List.countP GPc.isOwner (List.replicate n GPc.idle) = 0 := by
      rw [List.countP_eq_zero]
      intro a ha
      rw [List.eq_of_mem_replicate ha]; simp [GPc.isOwner, GPc.owns]
    simp [this]
  · intro k _; simp [init, bytesAt]

/-- a mutator step: the descriptor word, the set of open pipes and all non-installed pipes are
    untouched; what changes is the flag, the installed pipe's byte count and the mutator's pc -/
theorem inv_mut {fixed : Bool} {s : State} (h : Inv fixed s) (sh' : Shared) (m1' : Mut)
    (hf : sh'.fds = s.sh.fds) (hb : sh'.bad = false)
    (ho : ∀ k, openAt sh'.pipes k = openAt s.sh.pipes k)
    (hn : sh'.nOpen = s.sh.nOpen)
    (hz : ∀ k, s.sh.fds ≠ some k → bytesAt sh'.pipes k = bytesAt s.sh.pipes k)
    (hW : ∀ p, m1'.pc = .raiseWrite p → s.sh.fds = some p)
    (hD : ∀ p, m1'.pc = .clearDrain p → s.sh.fds = some p)
    (htab : ∀ w, allowed fixed s.m1.pc.tag w s.sh.raised s.sh.instBytes → (w = .pre ↔ s.sh.fds = none) →
      allowed fixed m1'.pc.tag w sh'.raised sh'.instBytes) :
    Inv fixed ⟨sh', m1', s.m2, s.gs⟩ := by
  refine ⟨hb, h.m2, ?_, ?_, ?_, ?_, h.own, h.uniq, ?_, ?_, ?_, ?_⟩
  · intro p hp; simp only [] at hp ⊢; rw [ho]; exact h.inst p (hf ▸ hp)
  · intro p hp; simp only [] at hp ⊢; rw [hf]; exact hW p hp
  · intro p hp; simp only [] at hp ⊢; rw [hf]; exact hD p hp
  · intro i g hg; exact (GWf_congr hf ho).mpr (h.gwf i g hg)
  · intro i g w hg hp
    have := phase_some_fds (h.gwf i g hg) hp
    refine htab w (h.tabA i g w hg hp) ?_
    constructor
    · intro e; exact absurd e this.2
    · intro e; rw [e] at this; simp at this
  · intro hall
    have := htab (wOf s.sh) (h.tabN hall) (by unfold wOf; cases s.sh.fds <;> simp)
    simpa [wOf, hf] using this
  · simp only []; rw [hn, hf]; exact h.cnt
  · intro k hk; simp only [] at hk ⊢; rw [hf] at hk; rw [hz k hk]; exact h.zero k hk

theorem State.eta (s : State) : (⟨s.sh, s.m1, s.m2, s.gs⟩ : State) = s := by cases s; rfl

theorem instBytes_write {sh : Shared} {p : Nat} (hf : sh.fds = some p) (ho : openAt sh.pipes p = true) :
    (sh.write p).instBytes = sh.instBytes + 1 := by
  rw [write_open ho]
  simp [Shared.instBytes, hf, bytesAt_set, openAt_lt ho]

theorem instBytes_drain {sh : Shared} {p : Nat} (hf : sh.fds = some p) (ho : openAt sh.pipes p = true) :
    (sh.drain p).instBytes = 0 := by
  rw [drain_open ho]
  simp [Shared.instBytes, hf, bytesAt_set, openAt_lt ho]

/-- the mutator's step preserves the invariant -/
theorem inv_m1 {fixed : Bool} {s : State} (h : Inv fixed s) :
    Inv fixed ⟨(mstep s.sh s.m1).1, (mstep s.sh s.m1).2, s.m2, s.gs⟩ := by
  cases hpc : s.m1.pc with
  | idle =>
    cases hpr : s.m1.prog with
    | nil =>
      have e : mstep s.sh s.m1 = (s.sh, s.m1) := by simp [mstep, hpc, hpr]
      rw [e]; simpa [State.eta] using h
    | cons op rest =>
      cases op with
      | raise =>
        have e : mstep s.sh s.m1 = ({ s.sh with raised := true },
            { pc := if s.sh.raised then .idle else .raiseLoad, prog := rest }) := by simp [mstep, hpc, hpr]
        rw [e]
        apply inv_mut h
        · rfl
        · exact h.bad
        · intro k; rfl
        · rfl
        · intro k _; rfl
        · intro p hp; cases hr : s.sh.raised <;> simp [hr] at hp
        · intro p hp; cases hr : s.sh.raised <;> simp [hr] at hp
        · intro w ha _
          rw [hpc] at ha
          have := allowed_swap_raise ha
          cases hr : s.sh.raised <;> simpa [hr, MPc.tag, Shared.instBytes] using this
      | clear =>
        have e : mstep s.sh s.m1 = ({ s.sh with raised := false },
            { pc := if s.sh.raised then .clearLoad else .idle, prog := rest }) := by simp [mstep, hpc, hpr]
        rw [e]
        apply inv_mut h
        · rfl
        · exact h.bad
        · intro k; rfl
        · rfl
        · intro k _; rfl
        · intro p hp; cases hr : s.sh.raised <;> simp [hr] at hp
        · intro p hp; cases hr : s.sh.raised <;> simp [hr] at hp
        · intro w ha _
          rw [hpc] at ha
          have := allowed_swap_clear ha
          cases hr : s.sh.raised <;> simpa [hr, MPc.tag, Shared.instBytes] using this
  | raiseLoad =>
    have e : mstep s.sh s.m1 = (s.sh, { s.m1 with pc := match s.sh.fds with | none => .idle | some p => .raiseWrite p }) := by
      simp [mstep, hpc]; cases s.sh.fds <;> rfl
    rw [e]
    apply inv_mut h
    · rfl
    · exact h.bad
    · intro k; rfl
    · rfl
    · intro k _; rfl
    · intro p hp; cases hf : s.sh.fds <;> simp [hf] at hp; simp [hp]
    · intro p hp; cases hf : s.sh.fds <;> simp [hf] at hp
    · intro w ha hw
      rw [hpc] at ha
      cases hf : s.sh.fds with
      | none =>
        have : w = .pre := hw.mpr hf
        subst this
        simpa [MPc.tag] using allowed_load_pre ha
      | some p => simpa [MPc.tag] using ha
  | clearLoad =>
    have e : mstep s.sh s.m1 = (s.sh, { s.m1 with pc := match s.sh.fds with | none => .idle | some p => .clearDrain p }) := by
      simp [mstep, hpc]; cases s.sh.fds <;> rfl
    rw [e]
    apply inv_mut h
    · rfl
    · exact h.bad
    · intro k; rfl
    · rfl
    · intro k _; rfl
    · intro p hp; cases hf : s.sh.fds <;> simp [hf] at hp
    · intro p hp; cases hf : s.sh.fds <;> simp [hf] at hp; simp [hp]
    · intro w ha hw
      rw [hpc] at ha
      cases hf : s.sh.fds with
      | none =>
        have : w = .pre := hw.mpr hf
        subst this
        simpa [MPc.tag] using allowed_load_pre ha
      | some p => simpa [MPc.tag] using ha
  | raiseWrite p =>
    have hf := h.mpcW p hpc
    have hop := h.inst p hf
    have e : mstep s.sh s.m1 = (s.sh.write p, { s.m1 with pc := .idle }) := by simp [mstep, hpc]
    rw [e]
    apply inv_mut h
    · rw [write_open hop]
    · rw [write_open hop]; exact h.bad
    · intro k; rw [write_open hop]; simp only [openAt_set]; split <;> simp_all
    · rw [write_open hop]; exact nOpen_set_open hop
    · intro k hk; rw [write_open hop]; simp only [bytesAt_set]
      have : k ≠ p := fun e => hk (e ▸ hf)
      simp [this]
    · intro q hq; simp at hq
    · intro q hq; simp at hq
    · intro w ha hw
      rw [hpc] at ha
      have hne : w ≠ .pre := fun e => by have := hw.mp e; simp [hf] at this
      have := allowed_write ha hne
      have e2 : (s.sh.write p).raised = s.sh.raised := by rw [write_open hop]
      rw [instBytes_write hf hop, e2]
      simpa [MPc.tag] using this
  | clearDrain p =>
    have hf := h.mpcD p hpc
    have hop := h.inst p hf
    have e : mstep s.sh s.m1 = (s.sh.drain p, { s.m1 with pc := .idle }) := by simp [mstep, hpc]
    rw [e]
    apply inv_mut h
    · rw [drain_open hop]
    · rw [drain_open hop]; exact h.bad
    · intro k; rw [drain_open hop]; simp only [openAt_set]; split <;> simp_all
    · rw [drain_open hop]; exact nOpen_set_open hop
    · intro k hk; rw [drain_open hop]; simp only [bytesAt_set]
      have : k ≠ p := fun e => hk (e ▸ hf)
      simp [this]
    · intro q hq; simp at hq
    · intro q hq; simp at hq
    · intro w ha hw
      rw [hpc] at ha
      have hne : w ≠ .pre := fun e => by have := hw.mp e; simp [hf] at this
      have := allowed_drain ha hne
      have e2 : (s.sh.drain p).raised = s.sh.raised := by rw [drain_open hop]
      rw [instBytes_drain hf hop, e2]
      simpa [MPc.tag] using this

end Nng.Pollable
