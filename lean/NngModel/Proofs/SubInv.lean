/- C05: invariants of the SUB model over all event sequences -/
import NngModel.Proofs.SubCtx
import NngModel.Generated.C05
namespace Nng.Sub
open Nng Nng.Proto

structure Inv (s : State) : Prop where
  master : s.opened = true → CtxInv s.arrived s.master
  mcid : s.master.cid = 0
  ctxs : ∀ c ∈ s.ctxs, CtxInv s.arrived c ∧ c.cid ≠ 0
  dead : ∀ c ∈ s.dead, (c.got ++ c.q).Sublist s.arrived
  gids : s.arrived.Pairwise (fun a b => a.gid < b.gid)
  bound : ∀ m ∈ s.arrived, m.gid < s.narrive
  rd : s.opened = true → s.readable = !s.master.q.isEmpty
  rd0 : s.opened = false → s.readable = false
  rbl : s.opened = true → 1 ≤ s.recvBufLen

theorem Inv.of_eq {s s' : State} (h : Inv s) (h1 : s'.opened = s.opened) (h2 : s'.master = s.master)
    (h3 : s'.ctxs = s.ctxs) (h4 : s'.dead = s.dead) (h5 : s'.arrived = s.arrived) (h6 : s'.narrive = s.narrive)
    (h7 : s'.readable = s.readable) (h8 : s'.opened = true → 1 ≤ s'.recvBufLen) : Inv s' := by
  refine ⟨?_, ?_, ?_, ?_, ?_, ?_, ?_, ?_, h8⟩
  · rw [h1, h2, h5]; exact h.master
  · rw [h2]; exact h.mcid
  · rw [h3, h5]; exact h.ctxs
  · rw [h4, h5]; exact h.dead
  · rw [h5]; exact h.gids
  · rw [h5, h6]; exact h.bound
  · rw [h1, h2, h7]; exact h.rd
  · rw [h1, h7]; exact h.rd0

theorem inv_init : Inv ({} : State) := by
  refine ⟨(by intro h; cases h), rfl, (by intro c hc; cases hc), (by intro c hc; cases hc), List.Pairwise.nil,
    (by intro m hm; cases hm), (by intro h; cases h), fun _ => rfl, (by intro h; cases h)⟩

/-! ### plumbing -/

theorem getCtx_cases {s : State} {c : Option Nat} {cx : Ctx} (h : getCtx s c = some cx) :
    cx = s.master ∨ cx ∈ s.ctxs := by
  cases c with
  | none => left; simp [getCtx] at h; exact h.symm
  | some k => right; simp only [getCtx] at h; exact List.mem_of_find?_eq_some h

theorem setCtx_master {s : State} {c : Ctx} (h : c.cid = 0) : setCtx s c = { s with master := c } := by
  unfold setCtx; simp [h]

theorem setCtx_other {s : State} {c : Ctx} (h : c.cid ≠ 0) :
    setCtx s c = { s with ctxs := s.ctxs.map fun x => if x.cid == c.cid then c else x } := by
  unfold setCtx; simp [h]

theorem inv_setMaster {s : State} (h : Inv s) (ho : s.opened = true) (c : Ctx) (hc : CtxInv s.arrived c)
    (hcid : c.cid = 0) (r : Bool) (hr : r = !c.q.isEmpty) : Inv { s with master := c, readable := r } :=
  ⟨fun _ => hc, hcid, h.ctxs, h.dead, h.gids, h.bound, fun _ => hr, fun h0 => by simp [ho] at h0, h.rbl⟩

theorem inv_setOther {s : State} (h : Inv s) (c : Ctx) (hc : CtxInv s.arrived c) (hcid : c.cid ≠ 0) :
    Inv { s with ctxs := s.ctxs.map fun x => if x.cid == c.cid then c else x } := by
  refine ⟨h.master, h.mcid, ?_, h.dead, h.gids, h.bound, h.rd, h.rd0, h.rbl⟩
  intro x hx
  simp only [List.mem_map] at hx
  obtain ⟨y, hy, rfl⟩ := hx
  split
  · exact ⟨hc, hcid⟩
  · exact h.ctxs y hy

theorem mapList_inv {arr : List GMsg} (f : Ctx → Ctx × List Out)
    (hf : ∀ c, CtxInv arr c → CtxInv arr (f c).1) (hcid : ∀ c, (f c).1.cid = c.cid) :
    ∀ cs : List Ctx, (∀ c ∈ cs, CtxInv arr c ∧ c.cid ≠ 0) → ∀ c ∈ (mapList f cs).1, CtxInv arr c ∧ c.cid ≠ 0
  | [], _ => by intro c hc; simp [mapList] at hc
  | x :: xs, h => by
    intro c hc
    simp only [mapList, List.mem_cons] at hc
    rcases hc with rfl | hc
    · exact ⟨hf x (h x (by simp)).1, by rw [hcid]; exact (h x (by simp)).2⟩
    · exact mapList_inv f hf hcid xs (fun c hc => h c (by simp [hc])) c hc

theorem mapAll_inv {s : State} (f : Ctx → Ctx × List Out)
    (hf : ∀ c, CtxInv s.arrived c → CtxInv s.arrived (f c).1) (hcid : ∀ c, (f c).1.cid = c.cid)
    (hq : ∀ c, (f c).1.q = c.q) (h : Inv s) : Inv (mapAll s f).1 := by
  refine ⟨fun ho => hf _ (h.master ho), by simp [mapAll, hcid, h.mcid], mapList_inv f hf hcid s.ctxs h.ctxs,
    h.dead, h.gids, h.bound, ?_, h.rd0, h.rbl⟩
  intro ho
  show s.readable = !(f s.master).1.q.isEmpty
  rw [hq]; exact h.rd ho

/-! ### the operations -/

theorem recvCtx_cid (c : Ctx) (a : Nat) (mode : Mode) (now : Nat) : (recvCtx c a mode now).1.cid = c.cid := by
  unfold recvCtx; split
  · split <;> rfl
  · rfl

theorem recvCtx_q (c : Ctx) (a : Nat) (mode : Mode) (now : Nat) : (recvCtx c a mode now).1.q = c.q.tail := by
  unfold recvCtx; split
  · next hq => split <;> simp [hq]
  · next m rest hq => simp [hq]

theorem opRecv_inv {s : State} (c : Option Nat) (a : Nat) (mode : Mode) (h : Inv s) (ho : s.opened = true) :
    Inv (opRecv s c a mode).1 := by
  unfold opRecv
  split
  · exact h
  · split
    · exact h
    · next cx hcx =>
      rcases getCtx_cases hcx with rfl | hmem
      · -- the socket's own context
        have hcid : (recvCtx s.master a mode s.now).1.cid = 0 := by rw [recvCtx_cid]; exact h.mcid
        have hci := recvCtx_inv a mode s.now (h.master ho)
        have hq := recvCtx_q s.master a mode s.now
        have hrd := h.rd ho
        simp only [setCtx_master hcid, h.mcid, beq_self_eq_true, Bool.true_and]
        split
        · next hcond =>
          simp only [Bool.and_eq_true, Bool.not_eq_true'] at hcond
          have := inv_setMaster h ho _ hci hcid false (by rw [hcond.2]; rfl)
          exact this
        · next hcond =>
          have := inv_setMaster h ho _ hci hcid s.readable (by
            rw [hrd, hq]
            rw [hq] at hcond
            cases hmq : s.master.q with
            | nil => simp
            | cons m rest =>
              rw [hmq] at hcond
              cases rest with
              | nil => simp at hcond
              | cons x xs => simp)
          simpa using this
      · have hne := (h.ctxs cx hmem).2
        have hcid : (recvCtx cx a mode s.now).1.cid ≠ 0 := by rw [recvCtx_cid]; exact hne
        have hci := recvCtx_inv a mode s.now (h.ctxs cx hmem).1
        have hb : (cx.cid == 0) = false := by simp [hne]
        simp only [setCtx_other hcid, hb, Bool.false_and, Bool.false_eq_true, if_false]
        exact inv_setOther h _ hci hcid

theorem subscribeCtx_cid (c : Ctx) (t : Bytes) : (subscribeCtx c t).cid = c.cid := by
  unfold subscribeCtx; split <;> rfl

theorem subscribeCtx_q (c : Ctx) (t : Bytes) : (subscribeCtx c t).q = c.q := by
  unfold subscribeCtx; split <;> rfl

theorem opSub_inv {s : State} (c : Option Nat) (t : Bytes) (h : Inv s) (ho : s.opened = true) :
    Inv (opSub s c t).1 := by
  unfold opSub
  split
  · exact h
  · next cx hcx =>
    rcases getCtx_cases hcx with rfl | hmem
    · have hcid : (subscribeCtx s.master t).cid = 0 := by rw [subscribeCtx_cid]; exact h.mcid
      simp only [setCtx_master hcid]
      have := inv_setMaster h ho _ (subscribeCtx_inv t (h.master ho)) hcid s.readable
        (by rw [subscribeCtx_q]; exact h.rd ho)
      simpa using this
    · have hcid : (subscribeCtx cx t).cid ≠ 0 := by rw [subscribeCtx_cid]; exact (h.ctxs cx hmem).2
      simp only [setCtx_other hcid]
      exact inv_setOther h _ (subscribeCtx_inv t (h.ctxs cx hmem).1) hcid

theorem unsubscribeCtx_cid {c c' : Ctx} {t : Bytes} (hu : unsubscribeCtx c t = some c') : c'.cid = c.cid := by
  unfold unsubscribeCtx at hu
  split at hu
  · cases hu
  · next i hi =>
    simp only [Option.some.injEq] at hu
    rw [← hu]
    have key : ∀ (k : Nat) (x : Ctx) (ts : List Bytes), (purgeLoop ts k x).cid = x.cid := by
      intro k
      induction k with
      | zero => intro x ts; rfl
      | succ k ih =>
        intro x ts
        simp only [purgeLoop]
        split
        · exact ih x ts
        · split
          · rw [ih]; unfold lmqPut; split <;> rfl
          · rw [ih]
    rw [key]

theorem opUnsub_inv {s : State} (c : Option Nat) (t : Bytes) (h : Inv s) (ho : s.opened = true) :
    Inv (opUnsub s c t).1 := by
  unfold opUnsub
  split
  · exact h
  · next cx hcx =>
    split
    · exact h
    · next cx' hu =>
      have hc := unsubscribeCtx_cid hu
      rcases getCtx_cases hcx with rfl | hmem
      · have hcid : cx'.cid = 0 := by rw [hc]; exact h.mcid
        have hci := unsubscribeCtx_inv t (h.master ho) hu
        simp only [setCtx_master hcid, h.mcid, beq_self_eq_true, Bool.true_and]
        split
        · next he => exact inv_setMaster h ho _ hci hcid false (by rw [he]; rfl)
        · next he =>
          -- the queue is still non-empty, so it was non-empty before: readable was already raised
          have hne : cx'.q.isEmpty = false := by simpa using he
          have hold : s.master.q.isEmpty = false := by
            by_cases ht : t ∈ s.master.topics
            · obtain ⟨c'', h0, _, h2, _⟩ := unsubscribeCtx_present s.master t ht (h.master ho).len
              rw [h0] at hu; cases hu
              cases hmq : s.master.q with
              | nil => rw [h2, hmq] at hne; simp at hne
              | cons x xs => rfl
            · rw [unsubscribeCtx_absent _ t ht] at hu; cases hu
          have := inv_setMaster h ho _ hci hcid s.readable (by rw [h.rd ho, hold, hne])
          simpa using this
      · have hne := (h.ctxs cx hmem).2
        have hcid : cx'.cid ≠ 0 := by rw [hc]; exact hne
        have hb : (cx.cid == 0) = false := by simp [hne]
        simp only [setCtx_other hcid, hb, Bool.false_and, Bool.false_eq_true, if_false]
        exact inv_setOther h _ (unsubscribeCtx_inv t (h.ctxs cx hmem).1 hu) hcid

theorem opSetopt_inv {s : State} (c : Option Nat) (name ty : String) (v : Int) (h : Inv s) (ho : s.opened = true) :
    Inv (opSetopt s c name ty v).1 := by
  unfold opSetopt
  split
  · split
    · exact h
    · next cx hcx =>
      split
      · exact h
      · next hrange =>
        have hv : 1 ≤ v.toNat := by
          simp only [Bool.or_eq_true, decide_eq_true_eq, not_or, Int.not_lt] at hrange
          have : (recvBufMin : Int) = 1 := by decide
          omega
        rcases getCtx_cases hcx with rfl | hmem
        · have hcid : (resizeCtx s.master v.toNat).cid = 0 := h.mcid
          simp only [setCtx_master hcid, h.mcid, beq_self_eq_true, if_true]
          have := inv_setMaster h ho _ (resizeCtx_inv v.toNat hv (h.master ho)) hcid s.readable
            (by show s.readable = !(s.master.q.take v.toNat).isEmpty
                rw [take_isEmpty _ _ hv]; exact h.rd ho)
          exact Inv.of_eq this rfl rfl rfl rfl rfl rfl rfl (fun _ => hv)
        · have hne := (h.ctxs cx hmem).2
          have hcid : (resizeCtx cx v.toNat).cid ≠ 0 := hne
          have hb : (cx.cid == 0) = false := by simp [hne]
          simp only [setCtx_other hcid, hb, Bool.false_eq_true, if_false]
          exact inv_setOther h _ (resizeCtx_inv v.toNat hv (h.ctxs cx hmem).1) hcid
  · split
    · split
      · exact h
      · next cx hcx =>
        rcases getCtx_cases hcx with rfl | hmem
        · have hcid : (prefCtx s.master (boolOfInt v)).cid = 0 := h.mcid
          have hm := h.master ho
          simp only [setCtx_master hcid, h.mcid, beq_self_eq_true, if_true]
          have := inv_setMaster h ho (prefCtx s.master (boolOfInt v))
            ⟨hm.len, hm.cap, hm.wait, hm.hist, hm.nodup⟩ hcid s.readable (h.rd ho)
          exact Inv.of_eq this rfl rfl rfl rfl rfl rfl rfl h.rbl
        · have hne := (h.ctxs cx hmem).2
          have hcid : (prefCtx cx (boolOfInt v)).cid ≠ 0 := hne
          have hm := (h.ctxs cx hmem).1
          have hb : (cx.cid == 0) = false := by simp [hne]
          simp only [setCtx_other hcid, hb, Bool.false_eq_true, if_false]
          exact inv_setOther h _ ⟨hm.len, hm.cap, hm.wait, hm.hist, hm.nodup⟩ hcid
    · exact h

theorem opGetopt_state (s : State) (c : Option Nat) (name ty : String) : (opGetopt s c name ty).1 = s := by
  unfold opGetopt
  split
  · split <;> rfl
  · split
    · split <;> rfl
    · rfl

theorem opCtxOpen_inv {s : State} (k : Nat) (h : Inv s) (ho : s.opened = true) : Inv (opCtxOpen s k).1 := by
  unfold opCtxOpen
  refine ⟨h.master, h.mcid, ?_, h.dead, h.gids, h.bound, h.rd, h.rd0, h.rbl⟩
  intro x hx
  simp only [List.mem_append, List.mem_map, List.mem_singleton] at hx
  rcases hx with ⟨y, hy, rfl⟩ | rfl
  · have := h.ctxs y hy
    split
    · exact ⟨⟨this.1.len, this.1.cap, this.1.wait, this.1.hist, this.1.nodup⟩, this.2⟩
    · exact this
  · refine ⟨⟨Nat.zero_le _, h.rbl ho, fun _ => rfl, ?_, List.nodup_nil⟩, by simp⟩
    simp

theorem opCtxClose_inv {s : State} (k : Nat) (h : Inv s) : Inv (opCtxClose s k).1 := by
  unfold opCtxClose
  split
  · exact h
  · next cx hcx =>
    have hmem : cx ∈ s.ctxs := by simp only [getCtx] at hcx; exact List.mem_of_find?_eq_some hcx
    refine ⟨h.master, h.mcid, ?_, ?_, h.gids, h.bound, h.rd, h.rd0, h.rbl⟩
    · intro x hx; exact h.ctxs x (List.mem_filter.1 hx).1
    · intro x hx
      simp only [List.mem_append, List.mem_singleton] at hx
      rcases hx with hx | rfl
      · exact h.dead x hx
      · show ((closeCtx cx).1.got ++ []).Sublist s.arrived
        have := (h.ctxs cx hmem).1.hist
        simp only [List.append_nil]
        exact (List.sublist_append_left _ _).trans this

theorem closePipe_fields (s : State) (p : Nat) :
    (closePipe s p).1.opened = s.opened ∧ (closePipe s p).1.master = s.master ∧ (closePipe s p).1.ctxs = s.ctxs ∧
    (closePipe s p).1.dead = s.dead ∧ (closePipe s p).1.arrived = s.arrived ∧ (closePipe s p).1.narrive = s.narrive ∧
    (closePipe s p).1.readable = s.readable ∧ (closePipe s p).1.recvBufLen = s.recvBufLen := by
  unfold closePipe
  split
  · simp
  · split <;> simp [setPipe]

theorem closePipe_inv {s : State} (p : Nat) (h : Inv s) : Inv (closePipe s p).1 := by
  obtain ⟨h1, h2, h3, h4, h5, h6, h7, h8⟩ := closePipe_fields s p
  exact Inv.of_eq h h1 h2 h3 h4 h5 h6 h7 (by rw [h1, h8]; exact h.rbl)

theorem closePipes_inv_aux : ∀ (l : List Pipe) (acc : State × List Out), Inv acc.1 →
    Inv (l.foldl (fun (acc : State × List Out) pp =>
      let x := closePipe acc.1 pp.id
      (x.1, acc.2 ++ x.2)) acc).1
  | [], _, h => h
  | pp :: l, acc, h => by
    simp only [List.foldl_cons]
    exact closePipes_inv_aux l _ (closePipe_inv pp.id h)

theorem closePipes_inv {s : State} (h : Inv s) : Inv (closePipes s).1 :=
  closePipes_inv_aux s.pipes (s, []) h

theorem closeCtx_cid (c : Ctx) : (closeCtx c).1.cid = c.cid := rfl
theorem failCtx_cid (a rv : Nat) (c : Ctx) : (failCtx a rv c).1.cid = c.cid := by unfold failCtx; split <;> rfl
theorem failCtx_q (a rv : Nat) (c : Ctx) : (failCtx a rv c).1.q = c.q := by unfold failCtx; split <;> rfl

theorem closeAll_inv {s : State} (h : Inv s) : Inv (closeAll s).1 := by
  unfold closeAll
  have h1 := mapAll_inv closeCtx (fun c hc => closeCtx_inv hc) closeCtx_cid (fun _ => rfl) h
  have h2 := closePipes_inv h1
  exact Inv.of_eq h2 rfl rfl rfl rfl rfl rfl rfl h2.rbl

/-! ### arrival -/

theorem lmqPut_cid (c : Ctx) (m : GMsg) : (lmqPut c m).cid = c.cid := by unfold lmqPut; split <;> rfl

theorem arriveCtx_cid (gm : GMsg) (c : Ctx) : (arriveCtx gm c).1.cid = c.cid := by
  unfold arriveCtx
  split
  · rfl
  · split
    · rfl
    · split
      · rfl
      · split
        · show (lmqPut _ gm).cid = c.cid
          rw [lmqPut_cid]; split <;> rfl
        · exact lmqPut_cid _ _

/-- `queued` is raised exactly when the context's queue is left non-empty by this arrival;
    otherwise the queue is untouched -/
theorem arriveCtx_flag {arr : List GMsg} (gm : GMsg) {c : Ctx} (h : CtxInv arr c) :
    ((arriveCtx gm c).2.2 = true → (arriveCtx gm c).1.q.isEmpty = false) ∧
    ((arriveCtx gm c).2.2 = false → (arriveCtx gm c).1.q = c.q) := by
  cases hrq : c.rq with
  | cons a rest =>
    have hq : c.q = [] := h.wait (by simp [hrq])
    rw [arriveCtx_waiter gm c a rest hq h.cap hrq]
    split <;> simp
  | nil =>
    by_cases hroom : c.q.length < c.cap
    · rw [arriveCtx_room gm c hroom hrq]
      split <;> simp
    · have hfull : c.q.length = c.cap := by have := h.len; omega
      cases hq : c.q with
      | nil => have := h.cap; rw [hq] at hfull; simp at hfull; omega
      | cons old t =>
        rw [arriveCtx_full gm c old t hq hfull hrq]
        split <;> simp [hq]

theorem arriveList_eq_map (gm : GMsg) : ∀ cs : List Ctx, (arriveList gm cs).1 = cs.map (fun c => (arriveCtx gm c).1)
  | [] => rfl
  | c :: cs => by simp [arriveList, arriveList_eq_map gm cs]

theorem arrive_inv {s : State} (p : Nat) (b : Bytes) (h : Inv s) (ho : s.opened = true) : Inv (arrive s p b).1 := by
  unfold arrive
  have hm := arriveCtx_inv ⟨s.narrive, p, b⟩ (h.master ho)
  have hfl := arriveCtx_flag ⟨s.narrive, p, b⟩ (h.master ho)
  have hrd := h.rd ho
  refine ⟨fun _ => hm, ?_, ?_, ?_, ?_, ?_, fun _ => ?_, fun h0 => ?_, h.rbl⟩
  · simp only [arriveCtx_cid]; exact h.mcid
  · intro c hc
    simp only [arriveList_eq_map, List.mem_map] at hc
    obtain ⟨y, hy, rfl⟩ := hc
    exact ⟨arriveCtx_inv _ (h.ctxs y hy).1, by rw [arriveCtx_cid]; exact (h.ctxs y hy).2⟩
  · exact fun c hc => (h.dead c hc).trans (List.sublist_append_left _ _)
  · show (s.arrived ++ [(⟨s.narrive, p, b⟩ : GMsg)]).Pairwise (fun a b => a.gid < b.gid)
    rw [List.pairwise_append]
    refine ⟨h.gids, List.pairwise_singleton _ _, ?_⟩
    intro a ha x hx
    simp only [List.mem_singleton] at hx; subst hx
    exact h.bound a ha
  · intro m hm'
    simp only [List.mem_append, List.mem_singleton] at hm'
    rcases hm' with hm' | rfl
    · exact Nat.lt_succ_of_lt (h.bound m hm')
    · exact Nat.lt_succ_self _
  · show ((arriveCtx ⟨s.narrive, p, b⟩ s.master).2.2 || s.readable) = !(arriveCtx ⟨s.narrive, p, b⟩ s.master).1.q.isEmpty
    cases hq : (arriveCtx ⟨s.narrive, p, b⟩ s.master).2.2 with
    | true => rw [hfl.1 hq]; rfl
    | false => rw [hfl.2 hq, Bool.false_or]; exact hrd
  · simp only [] at h0; rw [ho] at h0; cases h0

theorem opRecvDone_inv {s : State} (p : Nat) (r : Except Nat Bytes) (h : Inv s) (ho : s.opened = true) :
    Inv (opRecvDone s p r).1 := by
  unfold opRecvDone
  split
  · split
    · exact h
    · split
      · exact closePipe_inv p h
      · exact arrive_inv p _ h ho
  · exact h

theorem opPipeAdd_inv {s : State} (peer : Nat) (h : Inv s) : Inv (opPipeAdd s peer).1 := by
  unfold opPipeAdd
  split <;> exact Inv.of_eq h rfl rfl rfl rfl rfl rfl rfl h.rbl

theorem opPipeDrop_inv {s : State} (p : Nat) (h : Inv s) : Inv (opPipeDrop s p).1 := by
  unfold opPipeDrop
  split
  · split
    · exact h
    · exact closePipe_inv p h
  · exact h

theorem opSend_state (s : State) (c : Option Nat) (a : Nat) : (opSend s c a).1 = s := by
  unfold opSend
  split
  · rfl
  · split <;> rfl

theorem expireCtx_cid (now : Nat) (c : Ctx) : (expireCtx now c).1.cid = c.cid := rfl

theorem stepOpen_inv {s : State} (ev : Ev) (h : Inv s) (ho : s.opened = true) : Inv (stepOpen s ev).1 := by
  cases ev with
  | openSock _ _ => exact h
  | pipeAdd peer => exact opPipeAdd_inv peer h
  | pipeDrop p => exact opPipeDrop_inv p h
  | sendDone _ _ => exact h
  | recvDone p r => exact opRecvDone_inv p r h ho
  | send c a m mode => show Inv (opSend s c a).1; rw [opSend_state]; exact h
  | recv c a mode => exact opRecv_inv c a mode h ho
  | cancel a => exact mapAll_inv _ (fun c hc => failCtx_inv a _ hc) (failCtx_cid a _) (failCtx_q a _) h
  | abort a rv => exact mapAll_inv _ (fun c hc => failCtx_inv a rv hc) (failCtx_cid a rv) (failCtx_q a rv) h
  | advance ms =>
    show Inv (mapAll { s with now := s.now + ms } (expireCtx (s.now + ms))).1
    have h' : Inv { s with now := s.now + ms } := Inv.of_eq h rfl rfl rfl rfl rfl rfl rfl h.rbl
    exact mapAll_inv _ (fun c hc => expireCtx_inv _ hc) (expireCtx_cid _) (fun _ => rfl) h'
  | ctxOpen k => exact opCtxOpen_inv k h ho
  | ctxClose k => exact opCtxClose_inv k h
  | setopt c name ty v => exact opSetopt_inv c name ty v h ho
  | getopt c name ty => show Inv (opGetopt s c name ty).1; rw [opGetopt_state]; exact h
  | poll => exact h
  | sub c t => exact opSub_inv c t h ho
  | unsub c t => exact opUnsub_inv c t h ho
  | close => exact closeAll_inv h

theorem defaultCap_pos : 1 ≤ Nng.Generated.c05SubRecvBufDefault := by decide

theorem openState_inv {s : State} (h : Inv s) (ho : s.opened = false) : Inv (openState s) := by
  unfold openState
  refine ⟨fun _ => ⟨Nat.zero_le _, defaultCap_pos, fun _ => rfl, (by simp), List.nodup_nil⟩, rfl, h.ctxs, h.dead,
    h.gids, h.bound, fun _ => ?_, (fun h0 => by cases h0), fun _ => defaultCap_pos⟩
  show s.readable = _
  rw [h.rd0 ho]; rfl

theorem step_inv {s : State} (ev : Ev) (h : Inv s) : Inv (step s ev).1 := by
  unfold step
  split
  · next hno =>
    have ho : s.opened = false := by simpa using hno
    split
    · exact openState_inv h ho
    · exact Inv.of_eq h rfl rfl rfl rfl rfl rfl rfl h.rbl
    · exact h
  · next hno =>
    have ho : s.opened = true := by simpa using hno
    split
    · split
      · exact Inv.of_eq h rfl rfl rfl rfl rfl rfl rfl h.rbl
      · exact h
    · exact stepOpen_inv ev h ho

/-- the state reached from the initial state by a sequence of events -/
def reach (evs : List Ev) : State := evs.foldl (fun s e => (step s e).1) {}

theorem foldl_inv : ∀ (evs : List Ev) (s : State), Inv s → Inv (evs.foldl (fun s e => (step s e).1) s)
  | [], _, h => h
  | e :: es, s, h => by simp only [List.foldl_cons]; exact foldl_inv es _ (step_inv e h)

/-- the invariant holds after every sequence of events -/
theorem reach_inv (evs : List Ev) : Inv (reach evs) := foldl_inv evs {} inv_init

end Nng.Sub
