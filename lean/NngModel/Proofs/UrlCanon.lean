/-
  C19 (d): the canonicaliser.  Proved here: the escape pass and the duplicate-slash pass
  produce canonical output and are the identity on canonical input (hence idempotent); the
  output of canonify is well-formed UTF-8; the query/fragment split loses nothing.
-/
import NngModel.Proofs.Utf8
namespace Nng.UrlProofs
open Nng Nng.Url Nng.UrlSpec

/-! ### bytes: ctype / hex facts, all 256 values checked by the kernel -/

theorem hexVal_le : ∀ h : UInt8, (Url.hexVal h).toNat ≤ 15 := by
  apply forall_uint8; decide +kernel
theorem upHex_of_xdigit : ∀ h : UInt8, isXDigit h = true →
    isUpHex (toUpper h) = true ∧ hexv (toUpper h) = (Url.hexVal h).toNat := by
  apply forall_uint8; decide +kernel
theorem xdigit_of_upHex : ∀ h : UInt8, isUpHex h = true →
    isXDigit h = true ∧ toUpper h = h ∧ hexv h = (Url.hexVal h).toNat := by
  apply forall_uint8; decide +kernel
theorem upHex_plain : ∀ h : UInt8, isUpHex h = true → h ≠ PCT ∧ h ≠ SLASH ∧ h ≠ QM ∧ h ≠ HASH := by
  apply forall_uint8; decide +kernel
theorem safe_ne_pct : ∀ v : UInt8, isSafe v = true → v ≠ PCT := by
  apply forall_uint8; decide +kernel
theorem unsafe_spec : ∀ v : UInt8, isSafe v = false → unreserved v.toNat = false ∧ v.toNat < 0x80 := by
  apply forall_uint8; decide +kernel
theorem spec_unsafe : ∀ v : UInt8, unreserved v.toNat = false → v.toNat < 0x80 → isSafe v = false := by
  apply forall_uint8; decide +kernel

theorem hexpair_toNat (h1 h2 : UInt8) :
    (Url.hexVal h1 * 16 + Url.hexVal h2).toNat = (Url.hexVal h1).toNat * 16 + (Url.hexVal h2).toNat := by
  have a := hexVal_le h1; have b := hexVal_le h2
  rw [UInt8.toNat_add, UInt8.toNat_mul]
  have : (16 : UInt8).toNat = 16 := by decide
  rw [this]; omega

/-! ### first pass -/

theorem esc_cons_plain (c : UInt8) (r : Bytes) (h : c ≠ PCT) :
    escapesCanonical (c :: r) = escapesCanonical r := by
  match r with
  | [] => simp [escapesCanonical, h]
  | [_] => simp [escapesCanonical, h]
  | _ :: _ :: _ => simp [escapesCanonical, h]

theorem pass1_plain (c : UInt8) (rest : Bytes) (hc : c ≠ PCT) :
    pass1 (c :: rest) = (match pass1 rest with | none => none | some r => some (c :: r)) := by
  match rest with
  | [] => simp [pass1, hc]
  | [_] => simp [pass1, hc]; rfl
  | _ :: _ :: _ => simp [pass1, hc]; rfl

theorem pass1_triple (h1 h2 : UInt8) (rest : Bytes) :
    pass1 (PCT :: h1 :: h2 :: rest) =
      if isXDigit h1 && isXDigit h2 then
        match pass1 rest with
        | none => none
        | some r => some ((if isSafe (Url.hexVal h1 * 16 + Url.hexVal h2) then [Url.hexVal h1 * 16 + Url.hexVal h2]
            else [PCT, toUpper h1, toUpper h2]) ++ r)
      else none := by
  simp [pass1]; rfl

theorem dropWhile_head_false (p : UInt8 → Bool) (s : Bytes) (c : UInt8) (r : Bytes)
    (h : s.dropWhile p = c :: r) : p c = false := by
  induction s with
  | nil => simp at h
  | cons x t ih =>
    rw [List.dropWhile_cons] at h
    by_cases hp : p x = true
    · rw [if_pos hp] at h; exact ih h
    · rw [if_neg hp] at h; injection h with h1 _; subst h1; simpa using hp

theorem esc_triple (h1 h2 : UInt8) (r : Bytes) :
    escapesCanonical (PCT :: h1 :: h2 :: r) =
      (isUpHex h1 && isUpHex h2 && !(unreserved (hexv h1 * 16 + hexv h2)) &&
        decide (hexv h1 * 16 + hexv h2 < 0x80) && escapesCanonical r) := by
  simp [escapesCanonical]

/-- the escape pass leaves only canonical escapes -/
theorem pass1_canonical : ∀ (n : Nat) (s a : Bytes), s.length ≤ n → pass1 s = some a →
    escapesCanonical a = true := by
  intro n
  induction n with
  | zero =>
    intro s a hl h
    have : s = [] := by cases s <;> simp_all
    subst this; simp [pass1] at h; subst h; rfl
  | succ n ih =>
    intro s a hl h
    match s, h with
    | [], h => simp [pass1] at h; subst h; rfl
    | c :: rest, h =>
      by_cases hc : c = PCT
      · subst hc
        match rest, h with
        | [], h => simp [pass1] at h
        | [_], h => simp [pass1] at h
        | h1 :: h2 :: rest', h =>
          rw [pass1_triple] at h
          split at h
          · rename_i hx
            simp only [Bool.and_eq_true] at hx
            split at h
            · cases h
            · rename_i r hr
              injection h with h; subst h
              have ihr := ih rest' r (by simp at hl; omega) hr
              by_cases hs : isSafe (Url.hexVal h1 * 16 + Url.hexVal h2) = true
              · rw [if_pos hs]
                simp only [List.singleton_append]
                rw [esc_cons_plain _ _ (safe_ne_pct _ hs)]; exact ihr
              · rw [if_neg hs]
                simp only [List.cons_append, List.nil_append]
                rw [esc_triple]
                obtain ⟨u1, v1⟩ := upHex_of_xdigit h1 hx.1
                obtain ⟨u2, v2⟩ := upHex_of_xdigit h2 hx.2
                have hu := unsafe_spec _ (by simpa using hs)
                rw [hexpair_toNat] at hu
                simp [u1, u2, v1, v2, hu.1, hu.2, ihr]
          · cases h
      · rw [pass1_plain _ _ hc] at h
        split at h
        · cases h
        · rename_i r hr
          injection h with h; subst h
          rw [esc_cons_plain _ _ hc]
          exact ih rest r (by simp at hl; omega) hr

/-- on canonical escapes the pass changes nothing -/
theorem pass1_fixed : ∀ (n : Nat) (a : Bytes), a.length ≤ n → escapesCanonical a = true → pass1 a = some a := by
  intro n
  induction n with
  | zero => intro a hl _; have : a = [] := by cases a <;> simp_all
            subst this; rfl
  | succ n ih =>
    intro a hl h
    match a, h with
    | [], _ => rfl
    | c :: rest, h =>
      by_cases hc : c = PCT
      · subst hc
        match rest, h with
        | [], h => simp [escapesCanonical] at h
        | [_], h => simp [escapesCanonical] at h
        | h1 :: h2 :: rest', h =>
          rw [esc_triple] at h
          simp only [Bool.and_eq_true, Bool.not_eq_true', decide_eq_true_eq] at h
          obtain ⟨⟨⟨⟨u1, u2⟩, hun⟩, hlt⟩, hr⟩ := h
          obtain ⟨x1, t1, v1⟩ := xdigit_of_upHex h1 u1
          obtain ⟨x2, t2, v2⟩ := xdigit_of_upHex h2 u2
          have hs : isSafe (Url.hexVal h1 * 16 + Url.hexVal h2) = false := by
            apply spec_unsafe <;> rw [hexpair_toNat, ← v1, ← v2] <;> assumption
          rw [pass1_triple, if_pos (by simp [x1, x2]), ih rest' (by simp at hl; omega) hr]
          simp [hs, t1, t2]
      · rw [esc_cons_plain _ _ hc] at h
        rw [pass1_plain _ _ hc, ih rest (by simp at hl; omega) h]

theorem pass1_idem (s a : Bytes) (h : pass1 s = some a) : pass1 a = some a :=
  pass1_fixed a.length a (Nat.le_refl _) (pass1_canonical s.length s a (Nat.le_refl _) h)

/-! ### second pass -/

/-- `noDoubleSlash`, told whether the previous byte was a '/' -/
def nds : Bool → Bytes → Bool
  | _, [] => true
  | prev, c :: r => !(prev && c = SLASH) && nds (c = SLASH) r

theorem nds_false (s : Bytes) : nds false s = noDoubleSlash s := by
  induction s with
  | nil => rfl
  | cons a r ih =>
    cases r with
    | nil => simp [nds, noDoubleSlash]
    | cons b r' =>
      simp only [nds, noDoubleSlash, Bool.false_and, Bool.not_false, Bool.true_and] at ih ⊢
      rw [← ih]

theorem pathPart_cons (c : UInt8) (r : Bytes) :
    pathPart (c :: r) = if pathEnd c then [] else c :: pathPart r := by
  simp only [pathPart, List.takeWhile_cons]
  by_cases h : pathEnd c <;> simp [h]

theorem pathEnd_iff (c : UInt8) : pathEnd c = true ↔ (c = QM ∨ c = HASH) := by
  simp [pathEnd]

/-- in skip mode the pass copies -/
theorem pass2_skip (prev : Bool) (s : Bytes) : pass2 true prev s = s := by
  induction s generalizing prev with
  | nil => rfl
  | cons c r ih => simp [pass2, ih]

/-- the path part of the output has no "//" -/
theorem pass2_nds (prev : Bool) (s : Bytes) : nds prev (pathPart (pass2 false prev s)) = true := by
  induction s generalizing prev with
  | nil => cases prev <;> rfl
  | cons c r ih =>
    simp only [pass2]
    by_cases hc : c = SLASH
    · subst hc
      simp only [Bool.not_false, Bool.and_true, decide_true, if_true]
      cases prev
      · simp only [Bool.false_eq_true, if_false]
        rw [pathPart_cons, if_neg (by decide)]
        simp only [nds, Bool.false_and, Bool.not_false, Bool.true_and, decide_true]
        exact ih true
      · simp only [if_true]; exact ih true
    · rw [if_neg (by simp [hc])]
      rw [pathPart_cons]
      by_cases he : pathEnd c = true
      · rw [if_pos he]; rfl
      · rw [if_neg he]
        have he' := he; rw [pathEnd_iff] at he'
        have : (false || decide (c = QM) || decide (c = HASH)) = false := by simp; exact not_or.mp he'
        rw [this]
        simp only [nds, hc, decide_false, Bool.and_false, Bool.not_false, Bool.true_and]
        exact ih false

theorem pass2_noDoubleSlash (s : Bytes) : noDoubleSlash (pathPart (pass2 false false s)) = true := by
  rw [← nds_false]; exact pass2_nds false s

/-- on input whose path part has no "//" the pass changes nothing -/
theorem pass2_fixed (prev : Bool) (s : Bytes) (h : nds prev (pathPart s) = true) :
    pass2 false prev s = s := by
  induction s generalizing prev with
  | nil => rfl
  | cons c r ih =>
    rw [pathPart_cons] at h
    simp only [pass2]
    by_cases hc : c = SLASH
    · subst hc
      rw [if_neg (by decide)] at h
      simp only [nds, decide_true, Bool.and_true, Bool.and_eq_true, Bool.not_eq_true'] at h
      rw [if_pos (by simp), h.1]
      simp only [Bool.false_eq_true, if_false]
      rw [ih true h.2]
    · rw [if_neg (by simp [hc])]
      by_cases he : pathEnd c = true
      · have he' := he; rw [pathEnd_iff] at he'
        have : (false || decide (c = QM) || decide (c = HASH)) = true := by simpa using he'
        rw [this, pass2_skip]
      · rw [if_neg he] at h
        have he' := he; rw [pathEnd_iff] at he'
        have : (false || decide (c = QM) || decide (c = HASH)) = false := by simp; exact not_or.mp he'
        rw [this]
        simp only [nds, hc, decide_false, Bool.and_false, Bool.not_false, Bool.true_and] at h
        rw [ih false h]

theorem pass2_idem (s : Bytes) : pass2 false false (pass2 false false s) = pass2 false false s :=
  pass2_fixed false _ (pass2_nds false s)

/-- the slash pass does not disturb canonical escapes -/
theorem pass2_escapes : ∀ (n : Nat) (s : Bytes) (skip prev : Bool), s.length ≤ n →
    escapesCanonical s = true → escapesCanonical (pass2 skip prev s) = true := by
  intro n
  induction n with
  | zero => intro s skip prev hl _
            have : s = [] := by cases s <;> simp_all
            subst this; rfl
  | succ n ih =>
    intro s skip prev hl h
    match s, h with
    | [], _ => rfl
    | c :: rest, h =>
      by_cases hc : c = PCT
      · subst hc
        match rest, h with
        | [], h => simp [escapesCanonical] at h
        | [_], h => simp [escapesCanonical] at h
        | h1 :: h2 :: rest', h =>
          rw [esc_triple] at h
          have h' := h
          simp only [Bool.and_eq_true] at h'
          obtain ⟨⟨⟨⟨u1, u2⟩, _⟩, _⟩, hr⟩ := h'
          obtain ⟨_, p1, p2, p3⟩ := upHex_plain h1 u1
          obtain ⟨_, q1, q2, q3⟩ := upHex_plain h2 u2
          have e : pass2 skip prev (PCT :: h1 :: h2 :: rest') = PCT :: h1 :: h2 :: pass2 skip false rest' := by
            have z1 : ¬ (PCT = SLASH) := by decide
            have z2 : (PCT = QM) = False := by decide
            have z3 : (PCT = HASH) = False := by decide
            simp [pass2, p1, p2, p3, q1, q2, q3, z1, z2, z3]
          rw [e, esc_triple]
          have ihr := ih rest' skip false (by simp at hl; omega) hr
          simp only [Bool.and_eq_true] at h ⊢
          exact ⟨h.1, ihr⟩
      · rw [esc_cons_plain _ _ hc] at h
        simp only [pass2]
        split
        · split
          · exact ih rest _ _ (by simp at hl; omega) h
          · rw [esc_cons_plain _ _ (by decide)]; exact ih rest _ _ (by simp at hl; omega) h
        · rw [esc_cons_plain _ _ hc]; exact ih rest _ _ (by simp at hl; omega) h

/-! ### third pass: identity on input without dot segments -/

theorem pass3_skip (acc s : Bytes) : pass3 true acc 0 s = acc.reverse ++ s := by
  induction s generalizing acc with
  | nil => simp [pass3]
  | cons c r ih => simp [pass3, ih]

/-- the specification's "dot segment here" on the path part is the code's two tests -/
theorem dotSegHere_pathPart (r : Bytes) : dotSegHere (pathPart r) = (isDot r || isDotDot r) := by
  match r with
  | [] => rfl
  | [a] =>
    by_cases ha : pathEnd a = true
    · have : a ≠ DOT := by intro h; subst h; revert ha; decide
      simp [pathPart, ha, dotSegHere, isDot, isDotDot, isSegEnd, this]
    · simp [pathPart, ha, dotSegHere, isDot, isDotDot, isSegEnd]
  | [a, b] =>
    by_cases ha : pathEnd a = true
    · have : a ≠ DOT := by intro h; subst h; revert ha; decide
      simp [pathPart, ha, dotSegHere, isDot, isDotDot, isSegEnd, this]
    · by_cases hb : pathEnd b = true
      · have hb2 : b ≠ DOT := by intro h; subst h; revert hb; decide
        have hb3 : b ≠ SLASH := by intro h; subst h; revert hb; decide
        have hb' : b = QM ∨ b = HASH := (pathEnd_iff b).1 hb
        simp [pathPart, ha, hb, dotSegHere, isDot, isDotDot, isSegEnd, hb2, hb3]
        rcases hb' with h | h <;> simp [h]
      · have hb' := hb; rw [pathEnd_iff] at hb'
        simp [pathPart, ha, hb, dotSegHere, isDot, isDotDot, isSegEnd]
        have := not_or.mp hb'; simp [this.1, this.2]
  | a :: b :: c :: t =>
    by_cases ha : pathEnd a = true
    · have : a ≠ DOT := by intro h; subst h; revert ha; decide
      simp [pathPart, ha, dotSegHere, isDot, isDotDot, isSegEnd, this]
    · by_cases hb : pathEnd b = true
      · have hb2 : b ≠ DOT := by intro h; subst h; revert hb; decide
        have hb3 : b ≠ SLASH := by intro h; subst h; revert hb; decide
        have hb' : b = QM ∨ b = HASH := (pathEnd_iff b).1 hb
        simp [pathPart, ha, hb, dotSegHere, isDot, isDotDot, isSegEnd, hb2, hb3]
        rcases hb' with h | h <;> simp [h]
      · have hb' := hb; rw [pathEnd_iff] at hb'
        have hbn := not_or.mp hb'
        by_cases hc : pathEnd c = true
        · have hc3 : c ≠ SLASH := by intro h; subst h; revert hc; decide
          have hc' : c = QM ∨ c = HASH := (pathEnd_iff c).1 hc
          simp [pathPart, ha, hb, hc, dotSegHere, isDot, isDotDot, isSegEnd, hbn.1, hbn.2, hc3]
          rcases hc' with h | h <;> simp [h]
        · have hc' := hc; rw [pathEnd_iff] at hc'
          have hcn := not_or.mp hc'
          simp [pathPart, ha, hb, hc, dotSegHere, isDot, isDotDot, isSegEnd, hbn.1, hbn.2, hcn.1, hcn.2]

theorem pass3_fixed (acc s : Bytes) (h : noDotSegment (pathPart s) = true) :
    pass3 false acc 0 s = acc.reverse ++ s := by
  induction s generalizing acc with
  | nil => simp [pass3]
  | cons c r ih =>
    rw [pathPart_cons] at h
    by_cases hc : c = SLASH
    · subst hc
      rw [if_neg (by decide)] at h
      simp only [noDotSegment, decide_true, Bool.true_and, Bool.and_eq_true, Bool.not_eq_true'] at h
      rw [dotSegHere_pathPart] at h
      simp only [Bool.or_eq_false_iff] at h
      simp only [pass3, decide_true, Bool.not_false, Bool.and_true, if_true, h.1.1, h.1.2]
      simp [ih _ h.2]
    · by_cases he : pathEnd c = true
      · have he' := he; rw [pathEnd_iff] at he'
        have : (false || decide (c = QM) || decide (c = HASH)) = true := by simpa using he'
        simp only [pass3, hc, decide_false, Bool.false_and, this]
        simp [pass3_skip]
      · rw [if_neg he] at h
        have he' := he; rw [pathEnd_iff] at he'
        have : (false || decide (c = QM) || decide (c = HASH)) = false := by simp; exact not_or.mp he'
        simp only [noDotSegment, hc, decide_false, Bool.false_and, Bool.not_false, Bool.true_and] at h
        simp only [pass3, hc, decide_false, Bool.false_and, this]
        simp [ih _ h]

/-- canonical strings are fixed points of the three passes -/
theorem canonPasses_fixed (r : Bytes) (h : Canonical r) : canonPasses r = some r := by
  unfold Canonical canonicalb at h
  simp only [Bool.and_eq_true] at h
  obtain ⟨⟨h1, h2⟩, h3⟩ := h
  unfold canonPasses
  rw [pass1_fixed r.length r (Nat.le_refl _) h1]
  simp only
  rw [pass2_fixed false r (by rw [nds_false]; exact h2), pass3_fixed [] r h3]
  simp

/-! ### validation and the query/fragment split -/

theorem canonify_wellFormed (s r : Bytes) (h : canonify s = some r) : WellFormedUtf8 r := by
  unfold canonify at h
  split at h
  · cases h
  · split at h
    · rename_i hv; injection h with h; subst h; exact (utf8Validate_iff _).1 hv
    · cases h

theorem canonify_passes (s r : Bytes) (h : canonify s = some r) :
    ∃ a, pass1 s = some a ∧ r = pass3 false [] 0 (pass2 false false a) := by
  unfold canonify canonPasses at h
  split at h
  · cases h
  · rename_i r' hr
    split at hr
    · cases hr
    · rename_i a ha
      injection hr with hr
      split at h
      · injection h with h; exact ⟨a, ha, by rw [← h, ← hr]⟩
      · cases h

theorem upTo_after (c : UInt8) (s : Bytes) (h : hasChr s c = true) : upTo c s ++ c :: after c s = s := by
  induction s with
  | nil => simp [hasChr] at h
  | cons x r ih =>
    by_cases hx : x = c
    · subst hx; simp [upTo, after]
    · have : hasChr r c = true := by
        simp only [hasChr, List.contains_cons, Bool.or_eq_true, beq_iff_eq] at h ⊢
        rcases h with h | h
        · exact absurd h.symm hx
        · exact h
      have ih' := ih this
      simp [upTo, after, hx] at ih' ⊢
      exact ih'

/-- nothing is lost by the split: path ++ ?query ++ #fragment is the canonified string -/
theorem splitPQF_join (s : Bytes) :
    (splitPQF s).1 ++ optPart QM (splitPQF s).2.1 ++ optPart HASH (splitPQF s).2.2 = s := by
  unfold splitPQF
  have key := List.takeWhile_append_dropWhile (p := fun c => !isPathEnd c) (l := s)
  generalize hd : s.dropWhile (fun c => !isPathEnd c) = d at key
  cases d with
  | nil => simpa [optPart] using key
  | cons c r =>
    have hc : isPathEnd c = true := by
      have := dropWhile_head_false _ s c r hd
      simpa using this
    simp only
    by_cases hq : c = QM
    · subst hq
      rw [if_pos rfl]
      by_cases hh : hasChr r HASH = true
      · rw [if_pos hh]
        simp only [optPart, List.append_assoc, List.cons_append]
        rw [upTo_after HASH r hh]; exact key
      · rw [if_neg hh]; simpa [optPart] using key
    · rw [if_neg hq]
      have : c = HASH := by
        simp only [isPathEnd, Bool.or_eq_true, decide_eq_true_eq] at hc
        rcases hc with h | h
        · exact absurd h hq
        · exact h
      subst this
      simpa [optPart] using key

end Nng.UrlProofs
