/-
  C16, HTTP server layer — what http_snprintf writes for a RESPONSE (`emitRes`) followed by any body is decoded by the
  serial decoder of Spec/HttpConn.lean (which `runRead false` equals for every segmentation:
  Props/C16Http.res_decoding_is_stream_function) to the status, reason, version and headers it was written from, the
  head ending exactly where the body begins.  Counterpart of Proofs/HttpEmit.lean (requests).
-/
import NngModel.Proofs.HttpEmit
import NngModel.Proofs.UrlRound
set_option linter.unusedSimpArgs false
namespace Nng.HttpConn
open Nng

/-- the status line as written -/
def emitSLine (m : Msg) (reason : Bytes) : Bytes := m.vers ++ SP :: (decimal (getStatus m) ++ SP :: reason)

theorem emitRes_eq (m : Msg) (reason body : Bytes) :
    emitRes m reason ++ body =
      emitSLine m reason ++ HttpSpec.CR :: HttpSpec.LF :: (emitHeaders m.resHdrs ++ ([] ++ HttpSpec.CR :: HttpSpec.LF :: body)) := by
  simp [emitRes, emitSLine, sCRLF, CR, LF, HttpSpec.CR, HttpSpec.LF]

theorem emitRes_length (m : Msg) (reason : Bytes) :
    (emitRes m reason).length = (emitSLine m reason).length + 2 + (emitHeaders m.resHdrs).length + 2 := by
  simp [emitRes, emitSLine, sCRLF]
  omega

/-- the message after the status line was parsed -/
def statusMsg (m0 m : Msg) (reason : Bytes) : Msg :=
  { m0 with code := getStatus m, rsn := some reason, vers := m.vers, parsedRes := true }

/-- nni_http_add_header (client side: response headers) replayed over a header list -/
def replayRes (m0 : Msg) (hs : List Hdr) : Msg := hs.foldl (fun a h => addHeader a false h.name h.value) m0

/-- what the written response head is decoded to -/
def parsedBackRes (m0 m : Msg) (reason : Bytes) : Msg := { replayRes (statusMsg m0 m reason) m.resHdrs with parsedRes := false }

/-- what the writer needs for the head to be read back: a known version, a three-digit status, a reason without
    control characters, headers as in `HdrOk` -/
structure ResOk (m : Msg) (reason : Bytes) : Prop where
  vers : versions.contains m.vers = true
  status : 100 ≤ getStatus m ∧ getStatus m ≤ 999
  reason : Clean reason
  hdrs : ∀ h ∈ m.resHdrs, HdrOk h

theorem atoi_decimal3 : ∀ k : Fin 900, atoi (decimal (k.val + 100)) = ((k.val + 100 : Nat) : Int) := by decide +kernel

theorem atoi_decimal (n : Nat) (h : 100 ≤ n ∧ n ≤ 999) : atoi (decimal n) = (n : Int) := by
  have := atoi_decimal3 ⟨n - 100, by omega⟩
  have e : n - 100 + 100 = n := by omega
  simpa [e] using this

theorem decimal_isDigit (n : Nat) : ∀ x ∈ decimal n, isDigit x = true := fun x hx => UrlProofs.decimal_digits n x hx

theorem digit_facts : ∀ x : UInt8, isDigit x = true → 0x20 < x ∧ isWs x = false ∧ x ≠ SP ∧ x ≠ COLON := by
  apply Nng.UrlProofs.forall_uint8; decide +kernel

theorem decimal_clean (n : Nat) : Clean (decimal n) := fun c hc =>
  UInt8.le_of_lt (digit_facts c (decimal_isDigit n c hc)).1

theorem decimal_no_sp (n : Nat) : SP ∉ decimal n := fun h => (digit_facts SP (decimal_isDigit n SP h)).2.2.1 rfl

theorem sp_clean : Clean [SP] := by intro c hc; simp at hc; rw [hc]; decide

theorem emitSLine_clean (m : Msg) (reason : Bytes) (h : ResOk m reason) : Clean (emitSLine m reason) := by
  unfold emitSLine
  have h3 : Clean m.vers := clean_of_gt _ (versions_clean m.vers (by simpa using h.vers))
  have := clean_append _ _ h3 (clean_append _ _ sp_clean (clean_append _ _ (decimal_clean (getStatus m)) (clean_append _ _ sp_clean h.reason)))
  simpa using this

theorem onLine_statusline (m0 m : Msg) (reason : Bytes) (h0 : m0.parsedRes = false) (h : ResOk m reason) :
    (msem false).onLine m0 (emitSLine m reason) = (statusMsg m0 m reason, 0) := by
  have hv : SP ∉ m.vers := not_mem_of_gt _ (versions_clean m.vers (by simpa using h.vers))
  simp only [msem, lineStep, Bool.false_eq_true, if_false, resLineStep, h0, emitSLine]
  have hl : resParseLine m0 (m.vers ++ SP :: (decimal (getStatus m) ++ SP :: reason)) =
      ({ m0 with code := getStatus m, rsn := some reason, vers := m.vers }, 0) := by
    unfold resParseLine
    rw [strchr_first SP m.vers _ hv]
    simp only
    rw [strchr_first SP (decimal (getStatus m)) reason (decimal_no_sp _)]
    simp only [atoi_decimal _ h.status]
    have hr : ¬ ((decide (((getStatus m : Nat) : Int) < (statusMin : Int)) || decide (((getStatus m : Nat) : Int) > (statusMax : Int))) = true) := by
      have h1 : (statusMin : Int) = 100 := by decide
      have h2 : (statusMax : Int) = 999 := by decide
      rw [h1, h2]
      have := h.status
      simp
      omega
    rw [if_neg hr]
    simp only [setVersion, setStatusReason, h.vers, if_true, Int.toNat_natCast]
    rfl
  rw [hl]
  simp [rv_zero.1, statusMsg]

theorem onLine_header_res (a : Msg) (ha : a.parsedRes = true) (h : Hdr) (hk : HdrOk h) :
    (msem false).onLine a (emitHLine h) = (addHeader a false h.name h.value, 0) := by
  simp only [msem, lineStep, Bool.false_eq_true, if_false, resLineStep, ha, if_true, emitHLine]
  unfold parseHeader
  rw [strchr_first COLON h.name _ hk.colon]
  have : trimLead (SP :: h.value) = trimLead h.value := by
    have hw : isWs SP = true := by decide
    conv => lhs; unfold trimLead
    rw [if_pos hw]
  simp only [this, hk.trimmed]
  rfl

theorem foldl_headers_res (hs : List Hdr) :
    ∀ (a : Msg) (k : Nat) (rest : Bytes), a.parsedRes = true → (∀ h ∈ hs, HdrOk h) → (emitHeaders hs).length < bufsz →
      (emitHeaders hs ++ rest).foldl (HttpSpec.stepByte (msem false) bufsz marker) (.run a [] 0 k) =
        rest.foldl (HttpSpec.stepByte (msem false) bufsz marker) (.run (replayRes a hs) [] 0 (k + (emitHeaders hs).length)) := by
  induction hs with
  | nil => intro a k rest _ _ _; rfl
  | cons h r ih =>
    intro a k rest ha hok hlen
    have hk := hok h (by simp)
    rw [emitHeaders_cons] at hlen ⊢
    simp only [List.length_append, List.length_cons] at hlen
    rw [List.append_assoc, List.cons_append, List.cons_append,
      foldl_line (msem false) bufsz marker (emitHLine h) _ a k (hline_clean h hk) (by omega)]
    unfold afterLine
    rw [hline_nonempty, onLine_header_res a ha h hk]
    simp only [Bool.false_eq_true, if_false, ne_eq, not_true_eq_false]
    have ha' : (addHeader a false h.name h.value).parsedRes = true := (addHeader_fields a false h.name h.value).2.1.trans ha
    rw [ih _ _ rest ha' (fun x hx => hok x (by simp [hx])) (by omega)]
    simp only [replayRes, List.foldl_cons, List.length_append, List.length_cons]
    congr 2
    omega

theorem replayRes_parsed (hs : List Hdr) : ∀ a : Msg, (replayRes a hs).parsedRes = a.parsedRes := by
  induction hs with
  | nil => intro a; rfl
  | cons h r ih =>
    intro a
    simp only [replayRes, List.foldl_cons]
    exact (ih _).trans (addHeader_fields a false h.name h.value).2.1

theorem done_absorbs {σ : Type} (sem : HttpSpec.LineSem σ) (maxLine : Nat) (mark : Bytes) (s : σ) (n : Nat) (body : Bytes) :
    body.foldl (HttpSpec.stepByte sem maxLine mark) (.done s n) = .done s n := by
  induction body with
  | nil => rfl
  | cons c r ih => rw [List.foldl_cons]; exact ih

/-- MAIN: a response head written from well-formed fields that fits the buffer, followed by ANY body bytes, is
    decoded completely; the head ends where the body begins -/
theorem decode_emitRes (m0 m : Msg) (reason body : Bytes) (h0 : m0.parsedRes = false) (h : ResOk m reason)
    (hlen : (emitRes m reason).length < bufsz) :
    HttpSpec.decode (msem false) bufsz marker m0 (emitRes m reason ++ body) =
      .done (parsedBackRes m0 m reason) (emitRes m reason).length := by
  unfold HttpSpec.decode
  rw [emitRes_length] at hlen ⊢
  rw [emitRes_eq]
  rw [foldl_line (msem false) bufsz marker (emitSLine m reason) _ _ 0 (emitSLine_clean m reason h) (by omega)]
  have hne : (emitSLine m reason).isEmpty = false := by
    unfold emitSLine
    have hv : m.vers ≠ [] := by
      intro e
      have := h.vers
      rw [e] at this
      revert this; decide
    cases hq : m.vers with
    | nil => exact absurd hq hv
    | cons a r => rfl
  unfold afterLine
  rw [hne, onLine_statusline m0 m reason h0 h]
  simp only [Bool.false_eq_true, if_false, ne_eq, not_true_eq_false]
  rw [foldl_headers_res m.resHdrs (statusMsg m0 m reason) _ _ rfl h.hdrs (by omega)]
  rw [foldl_line (msem false) bufsz marker [] body _ _ (by intro c hc; cases hc) (by have := bufsz_pos; simp; decide)]
  unfold afterLine
  have hp : (replayRes (statusMsg m0 m reason) m.resHdrs).parsedRes = true := by
    rw [replayRes_parsed]; rfl
  have hfin : (msem false).finish (replayRes (statusMsg m0 m reason) m.resHdrs) = (parsedBackRes m0 m reason, 0) := by
    simp [msem, emptyRv, parseEnd, parsedBackRes, rv_zero.1, rv_zero.2, hp]
  simp only [List.isEmpty_nil, if_true, hfin, ne_eq, not_true_eq_false, if_false]
  rw [done_absorbs]
  congr 1
  simp only [List.length_nil]
  omega

/-- the fields read back -/
theorem replayRes_fields (hs : List Hdr) : ∀ (a : Msg), (replayRes a hs).code = a.code ∧ (replayRes a hs).rsn = a.rsn ∧
    (replayRes a hs).vers = a.vers := by
  induction hs with
  | nil => intro a; exact ⟨rfl, rfl, rfl⟩
  | cons h r ih =>
    intro a
    simp only [replayRes, List.foldl_cons]
    obtain ⟨g1, g2, g3⟩ := ih (addHeader a false h.name h.value)
    have f := addHeader_fields a false h.name h.value
    exact ⟨g1.trans f.2.2.1, g2.trans f.2.2.2.1, g3.trans f.2.2.2.2.2.2⟩

end Nng.HttpConn
