/-
  Global (cross-object) invariants of the lifecycle model (C14 / C10): pipe and endpoint indices are
  positions, a dialer's `dPipe` is exactly its one live pipe, the endpoint state machine
  (armed / timer / pipe / cool-down are mutually exclusive), liveness of background dialers and of
  listeners, and "socket closed ⇒ everything derived from it is gone".
  This file: definitions, the per-endpoint transformers, `killPipe` / `killPipes` / `startPipe`.
-/
import NngModel.Proofs.LifePipe
import NngModel.Generated.C14
namespace Nng.LifeModel
open Nng.Life Nng.Generated

/-! ### per-endpoint invariants -/

/-- safety part of the endpoint state machine; holds in every intermediate state as well -/
structure EpInv (e : Ep) : Prop where
  armed_excl : e.armed = true → e.timer = none ∧ e.dPipe = none ∧ e.cool = none
  timer_excl : ∀ t, e.timer = some t → e.dPipe = none ∧ e.dialer = true
  dpipe_dialer : ∀ i, e.dPipe = some i → e.dialer = true
  cool_listener : ∀ d, e.cool = some d → e.dialer = false
  closed_idle : e.closed = true → e.armed = false ∧ e.timer = none ∧ e.cool = none ∧ e.userAio = false
  bg_user : e.background = true → e.userAio = false
  caps : e.curr ≤ e.cap ∧ e.inir ≤ e.cap ∧ e.maxr ≤ e.cap
  timer_cap : ∀ t0 b, e.timer = some (t0, b) → b ≤ e.cap

/-- timers were armed in the past, cool-downs end within the cool-down time -/
def EpTime (now : Nat) (e : Ep) : Prop :=
  (∀ t0 b, e.timer = some (t0, b) → t0 ≤ now) ∧ (∀ d, e.cool = some d → d ≤ now + lifeAcceptCooldownMs)

/-- liveness part: a background dialer / a listener that is open and was not told to stop by the
    transport is doing something -/
def Live (e : Ep) : Prop :=
  (e.dialer = true → e.closed = false → e.background = true → e.stopped = false →
      e.armed = true ∨ e.timer.isSome = true ∨ e.dPipe.isSome = true) ∧
  (e.dialer = false → e.closed = false → e.stopped = false → e.armed = true ∨ e.cool.isSome = true)

/-- at a quiescent point no timer is overdue -/
def Fresh (now : Nat) (e : Ep) : Prop :=
  (∀ t0 b, e.timer = some (t0, b) → (now : Int) + 1 < t0 + max b 1) ∧ (∀ d, e.cool = some d → now < d)

theorem EpInv.armed_open {e : Ep} (h : EpInv e) (ha : e.armed = true) : e.closed = false := by
  cases hc : e.closed with
  | false => rfl
  | true => have := (h.closed_idle hc).1; rw [ha] at this; cases this

theorem EpInv.timer_open {e : Ep} (h : EpInv e) {t} (ht : e.timer = some t) : e.closed = false := by
  cases hc : e.closed with
  | false => rfl
  | true => have := (h.closed_idle hc).2.1; rw [ht] at this; cases this

theorem EpInv.timer_unarmed {e : Ep} (h : EpInv e) {t} (ht : e.timer = some t) : e.armed = false := by
  cases ha : e.armed with
  | false => rfl
  | true => have := (h.armed_excl ha).1; rw [ht] at this; cases this

theorem EpInv.dpipe_unarmed {e : Ep} (h : EpInv e) {i} (hd : e.dPipe = some i) : e.armed = false ∧ e.timer = none := by
  constructor
  · cases ha : e.armed with
    | false => rfl
    | true => have := (h.armed_excl ha).2.1; rw [hd] at this; cases this
  · cases ht : e.timer with
    | none => rfl
    | some t => have := (h.timer_excl t ht).1; rw [hd] at this; cases this

theorem EpInv.listener_fields {e : Ep} (h : EpInv e) (hl : e.dialer = false) : e.timer = none ∧ e.dPipe = none := by
  constructor
  · cases ht : e.timer with
    | none => rfl
    | some t => have := (h.timer_excl t ht).2; rw [hl] at this; cases this
  · cases hd : e.dPipe with
    | none => rfl
    | some i => have := h.dpipe_dialer i hd; rw [hl] at this; cases this

theorem EpInv.dialer_cool {e : Ep} (h : EpInv e) (hl : e.dialer = true) : e.cool = none := by
  cases hc : e.cool with
  | none => rfl
  | some d => have := h.cool_listener d hc; rw [hl] at this; cases this

/-! ### the endpoint transformers -/

@[simp] theorem timerStart_idx (now : Nat) (e : Ep) : (timerStart now e).idx = e.idx := rfl
@[simp] theorem timerStart_sock (now : Nat) (e : Ep) : (timerStart now e).sock = e.sock := rfl
@[simp] theorem timerStart_dialer (now : Nat) (e : Ep) : (timerStart now e).dialer = e.dialer := rfl
@[simp] theorem timerStart_closed (now : Nat) (e : Ep) : (timerStart now e).closed = e.closed := rfl
@[simp] theorem timerStart_dPipe (now : Nat) (e : Ep) : (timerStart now e).dPipe = e.dPipe := rfl
@[simp] theorem timerStart_armed (now : Nat) (e : Ep) : (timerStart now e).armed = e.armed := rfl
@[simp] theorem timerStart_cool (now : Nat) (e : Ep) : (timerStart now e).cool = e.cool := rfl
@[simp] theorem timerStart_userAio (now : Nat) (e : Ep) : (timerStart now e).userAio = e.userAio := rfl
@[simp] theorem timerStart_background (now : Nat) (e : Ep) : (timerStart now e).background = e.background := rfl
@[simp] theorem timerStart_stopped (now : Nat) (e : Ep) : (timerStart now e).stopped = e.stopped := rfl
@[simp] theorem timerStart_cap (now : Nat) (e : Ep) : (timerStart now e).cap = e.cap := rfl
@[simp] theorem timerStart_inir (now : Nat) (e : Ep) : (timerStart now e).inir = e.inir := rfl
@[simp] theorem timerStart_maxr (now : Nat) (e : Ep) : (timerStart now e).maxr = e.maxr := rfl
theorem timerStart_timer (now : Nat) (e : Ep) :
    (timerStart now e).timer = if e.closed then none else some (now, e.curr) := rfl

theorem timerStart_curr_le (now : Nat) (e : Ep) (c : Int) (h1 : e.curr ≤ c) (h2 : e.maxr ≤ c) :
    (timerStart now e).curr ≤ c := by
  unfold timerStart
  simp only
  split
  · split <;> omega
  · exact h1

/-- dialer_timer_start_locked on a dialer that is neither connecting nor connected -/
theorem timerStart_inv (now : Nat) (e : Ep) (h : EpInv e) (ha : e.armed = false) (hp : e.dPipe = none)
    (hd : e.dialer = true) : EpInv (timerStart now e) := by
  constructor
  · intro h'; simp only [timerStart_armed] at h'; rw [ha] at h'; cases h'
  · intro t _; exact ⟨hp, hd⟩
  · intro i hi; simp only [timerStart_dPipe] at hi; rw [hp] at hi; cases hi
  · intro d hc; simp only [timerStart_cool] at hc; rw [h.dialer_cool hd] at hc; cases hc
  · intro hc
    simp only [timerStart_closed] at hc
    have := h.closed_idle hc
    refine ⟨ha, ?_, this.2.2.1, this.2.2.2⟩
    rw [timerStart_timer, hc]; rfl
  · exact h.bg_user
  · exact ⟨timerStart_curr_le now e _ h.caps.1 h.caps.2.2, h.caps.2.1, h.caps.2.2⟩
  · intro t0 b ht
    rw [timerStart_timer] at ht
    split at ht
    · cases ht
    · simp only [Option.some.injEq, Prod.mk.injEq] at ht
      rw [← ht.2]; exact h.caps.1

theorem timerStart_time (now : Nat) (e : Ep) (h : EpTime now e) : EpTime now (timerStart now e) := by
  refine ⟨?_, h.2⟩
  intro t0 b ht
  rw [timerStart_timer] at ht
  split at ht
  · cases ht
  · simp only [Option.some.injEq, Prod.mk.injEq] at ht
    omega

theorem timerStart_live (now : Nat) (e : Ep) (hd : e.dialer = true) : Live (timerStart now e) := by
  constructor
  · intro _ hc _ _
    simp only [timerStart_closed] at hc
    right; left
    rw [timerStart_timer, hc]; rfl
  · intro h; simp only [timerStart_dialer] at h; rw [hd] at h; cases h

/-- nni_pipe_remove, endpoint side -/
theorem pipeRemoved_cases (now i : Nat) (e : Ep) :
    pipeRemoved now i e = e ∨
    (e.dialer = true ∧ e.dPipe = some i ∧ pipeRemoved now i e = timerStart now { e with dPipe := none }) := by
  unfold pipeRemoved
  by_cases h : (e.dialer && e.dPipe == some i) = true
  · right
    simp only [Bool.and_eq_true, beq_iff_eq] at h
    exact ⟨h.1, h.2, by simp [h.1, h.2]⟩
  · left; simp only [h]; rfl

theorem pipeRemoved_listener (now i : Nat) (e : Ep) (h : e.dialer = false) : pipeRemoved now i e = e := by
  unfold pipeRemoved; simp [h]

/-- the endpoint after losing its pipe -/
def lostPipe (now : Nat) (e : Ep) : Ep := timerStart now { e with dPipe := none }

@[simp] theorem lostPipe_idx (now : Nat) (e : Ep) : (lostPipe now e).idx = e.idx := rfl
@[simp] theorem lostPipe_sock (now : Nat) (e : Ep) : (lostPipe now e).sock = e.sock := rfl
@[simp] theorem lostPipe_dialer (now : Nat) (e : Ep) : (lostPipe now e).dialer = e.dialer := rfl
@[simp] theorem lostPipe_closed (now : Nat) (e : Ep) : (lostPipe now e).closed = e.closed := rfl
@[simp] theorem lostPipe_dPipe (now : Nat) (e : Ep) : (lostPipe now e).dPipe = none := rfl

theorem lostPipe_inv (now : Nat) (e : Ep) (h : EpInv e) (i : Nat) (hd : e.dialer = true) (hp : e.dPipe = some i) :
    EpInv (lostPipe now e) := by
  have hu := h.dpipe_unarmed hp
  apply timerStart_inv now { e with dPipe := none } _ hu.1 rfl hd
  constructor
  · intro ha; have := h.armed_excl ha; exact ⟨this.1, rfl, this.2.2⟩
  · intro t ht; exact ⟨rfl, hd⟩
  · intro j hj; cases hj
  · exact h.cool_listener
  · exact h.closed_idle
  · exact h.bg_user
  · exact h.caps
  · exact h.timer_cap

theorem lostPipe_time (now : Nat) (e : Ep) (h : EpTime now e) : EpTime now (lostPipe now e) :=
  timerStart_time now { e with dPipe := none } h

theorem lostPipe_live (now : Nat) (e : Ep) (hd : e.dialer = true) : Live (lostPipe now e) :=
  timerStart_live now { e with dPipe := none } hd

/-! ### dialer_timer_cb / listener_timer_cb -/

theorem fireOne_frame (now : Nat) (orc : List Nat) (e : Ep) :
    (fireOne now orc e).idx = e.idx ∧ (fireOne now orc e).sock = e.sock ∧ (fireOne now orc e).dialer = e.dialer ∧
    (fireOne now orc e).closed = e.closed ∧ (fireOne now orc e).dPipe = e.dPipe ∧
    (fireOne now orc e).background = e.background ∧ (fireOne now orc e).stopped = e.stopped ∧
    (fireOne now orc e).cap = e.cap := by
  unfold fireOne
  split
  · split <;> simp
  · split
    · split <;> simp
    · simp

theorem fireOne_inv (now : Nat) (orc : List Nat) (e : Ep) (h : EpInv e) : EpInv (fireOne now orc e) := by
  unfold fireOne
  split
  · rename_i hd
    split
    · rename_i hf
      unfold timerFires at hf
      cases ht : e.timer with
      | none => rw [ht] at hf; simp at hf
      | some t =>
        have h1 := h.timer_excl t ht
        constructor
        · intro _; exact ⟨rfl, h1.1, h.dialer_cool hd⟩
        · intro t' ht'; cases ht'
        · exact h.dpipe_dialer
        · exact h.cool_listener
        · intro hc; have := h.timer_open ht; simp only at hc; rw [this] at hc; cases hc
        · exact h.bg_user
        · exact h.caps
        · intro t0 b hb; cases hb
    · exact h
  · rename_i hd
    have hd' : e.dialer = false := by simpa using hd
    split
    · rename_i dl hc
      split
      · have hf := h.listener_fields hd'
        constructor
        · intro _; exact ⟨hf.1, hf.2, rfl⟩
        · exact h.timer_excl
        · exact h.dpipe_dialer
        · intro d hd2; cases hd2
        · intro hcl
          have := (h.closed_idle hcl).2.2.1
          rw [hc] at this; cases this
        · exact h.bg_user
        · exact h.caps
        · exact h.timer_cap
      · exact h
    · exact h

theorem fireOne_time (now : Nat) (orc : List Nat) (e : Ep) (h : EpTime now e) : EpTime now (fireOne now orc e) := by
  unfold fireOne
  split
  · split
    · exact ⟨fun t0 b hb => (by cases hb), h.2⟩
    · exact h
  · split
    · split
      · exact ⟨h.1, fun d hd => (by cases hd)⟩
      · exact h
    · exact h

theorem fireOne_live (now : Nat) (orc : List Nat) (e : Ep) (h : Live e) : Live (fireOne now orc e) := by
  unfold fireOne
  split
  · split
    · exact ⟨fun _ _ _ _ => Or.inl rfl, fun _ _ _ => Or.inl rfl⟩
    · exact h
  · split
    · split
      · exact ⟨fun _ _ _ _ => Or.inl rfl, fun _ _ _ => Or.inl rfl⟩
      · exact h
    · exact h

/-- after the timers fired, none is overdue (whatever the oracle says) -/
theorem fireOne_fresh (now : Nat) (orc : List Nat) (e : Ep) (h : EpInv e) : Fresh now (fireOne now orc e) := by
  unfold fireOne
  split
  · rename_i hd
    split
    · exact ⟨fun t0 b hb => (by cases hb), fun d hc => (by
        have := h.dialer_cool hd; simp only at hc; rw [this] at hc; cases hc)⟩
    · rename_i hf
      refine ⟨?_, fun d hc => (by have := h.dialer_cool hd; rw [this] at hc; cases hc)⟩
      intro t0 b ht
      unfold timerFires at hf
      rw [ht] at hf
      simp at hf
      omega
  · rename_i hd
    have hd' : e.dialer = false := by simpa using hd
    have hf := h.listener_fields hd'
    split
    · rename_i dl hc
      split
      · exact ⟨fun t0 b hb => (by simp only at hb; rw [hf.1] at hb; cases hb), fun d hd2 => (by cases hd2)⟩
      · rename_i hn
        refine ⟨fun t0 b hb => (by rw [hf.1] at hb; cases hb), ?_⟩
        intro d hd2
        rw [hc] at hd2
        cases hd2
        omega
    · rename_i hc
      exact ⟨fun t0 b hb => (by rw [hf.1] at hb; cases hb), fun d hd2 => (by rw [hc] at hd2; cases hd2)⟩

end Nng.LifeModel

namespace Nng.LifeModel
open Nng.Life Nng.Generated

/-! ### indices are positions -/

def Indexed {α : Type} (f : α → Nat) (l : List α) : Prop := ∀ k (h : k < l.length), f l[k] = k

theorem Indexed.unique {α : Type} {f : α → Nat} {l : List α} (h : Indexed f l) {a b : α} (ha : a ∈ l) (hb : b ∈ l)
    (hab : f a = f b) : a = b := by
  rcases List.mem_iff_getElem.mp ha with ⟨i, hi, rfl⟩
  rcases List.mem_iff_getElem.mp hb with ⟨j, hj, rfl⟩
  rw [h i hi, h j hj] at hab
  subst hab; rfl

theorem Indexed.lt {α : Type} {f : α → Nat} {l : List α} (h : Indexed f l) {a : α} (ha : a ∈ l) : f a < l.length := by
  rcases List.mem_iff_getElem.mp ha with ⟨i, hi, rfl⟩
  rw [h i hi]; exact hi

theorem Indexed.map {α : Type} {f : α → Nat} {l : List α} (h : Indexed f l) (g : α → α) (hg : ∀ x, f (g x) = f x) :
    Indexed f (l.map g) := by
  intro k hk
  simp only [List.getElem_map, hg]
  exact h k (by simpa using hk)

theorem Indexed.append {α : Type} {f : α → Nat} {l : List α} (h : Indexed f l) (x : α) (hx : f x = l.length) :
    Indexed f (l ++ [x]) := by
  intro k hk
  by_cases hlt : k < l.length
  · rw [List.getElem_append_left hlt]; exact h k hlt
  · have : k = l.length := by simp at hk; omega
    subst this
    simp [hx]

theorem Indexed.exists {α : Type} {f : α → Nat} {l : List α} (h : Indexed f l) {k : Nat} (hk : k < l.length) :
    ∃ a ∈ l, f a = k := ⟨l[k], List.getElem_mem hk, h k hk⟩

theorem mem_map_if {α : Type} {l : List α} {c : α → Bool} {g : α → α} {y : α}
    (h : y ∈ l.map (fun x => if c x then g x else x)) :
    ∃ x ∈ l, (c x = true ∧ y = g x) ∨ (c x = false ∧ y = x) := by
  rcases List.mem_map.mp h with ⟨x, hx, rfl⟩
  refine ⟨x, hx, ?_⟩
  cases hc : c x <;> simp

/-! ### frames of the pipe-side primitives -/

theorem runCb_frame (mask : Nat) (ev : PEv) (p : Pipe) :
    (runCb mask ev p).1.idx = p.idx ∧ (runCb mask ev p).1.ep = p.ep ∧ (runCb mask ev p).1.sock = p.sock ∧
    (runCb mask ev p).1.reaped = p.reaped := by
  rcases runCb_cases mask ev p with h | ⟨_, _, _, h | h⟩
  · rw [h]; exact ⟨rfl, rfl, rfl, rfl⟩
  · rw [h.1]; exact ⟨rfl, rfl, rfl, rfl⟩
  · rw [h.1]; exact ⟨rfl, rfl, rfl, rfl⟩

theorem reapOne_frame (mask : Nat) (p : Pipe) :
    (reapOne mask p).1.idx = p.idx ∧ (reapOne mask p).1.ep = p.ep ∧ (reapOne mask p).1.sock = p.sock ∧
    (reapOne mask p).1.reaped = true := by
  have h := runCb_frame mask .rem { p with closed := true }
  unfold reapOne
  exact ⟨h.1, h.2.1, h.2.2.1, rfl⟩

/-- what `killPipe` does to the state -/
theorem killPipe_shape (st : State) (i : Nat) :
    (killPipe st i).1 = st ∨ ∃ p, p ∈ st.pipes ∧ p.idx = i ∧ p.reaped = false ∧
      (killPipe st i).1.pipes = st.pipes.map (fun q => if q.idx == i then (reapOne (st.socks p.sock).mask p).1 else q) ∧
      (killPipe st i).1.eps = st.eps.map (fun e => if e.idx == p.ep then pipeRemoved st.now i e else e) ∧
      (killPipe st i).1.now = st.now ∧ (killPipe st i).1.ctxs = st.ctxs ∧
      (killPipe st i).1.unmodelled = st.unmodelled ∧
      (∀ s, ((killPipe st i).1.socks s).opened = (st.socks s).opened ∧
            ((killPipe st i).1.socks s).closed = (st.socks s).closed) := by
  unfold killPipe
  split
  · left; rfl
  · rename_i p hf
    right
    have hp : p ∈ st.pipes := List.mem_of_find?_eq_some hf
    have hq := List.find?_some hf
    simp only [Bool.and_eq_true, Bool.not_eq_true', beq_iff_eq] at hq
    refine ⟨p, hp, hq.1, hq.2, rfl, rfl, rfl, rfl, rfl, ?_⟩
    intro s
    simp only [setSock]
    split
    · split <;> exact ⟨rfl, rfl⟩
    · exact ⟨rfl, rfl⟩

theorem pipeRemoved_dPipe (now i : Nat) (e : Ep) (hd : e.dialer = true) (h : e.dPipe = some i) :
    (pipeRemoved now i e).dPipe = none := by
  unfold pipeRemoved; simp [hd, h]

/-! ### the cross-object invariant that holds in all intermediate states -/

structure W (st : State) : Prop where
  idxP : Indexed (·.idx) st.pipes
  idxE : Indexed (·.idx) st.eps
  epInv : ∀ e ∈ st.eps, EpInv e ∧ EpTime st.now e
  pipeEp : ∀ p ∈ st.pipes, p.ep < st.eps.length
  own : ∀ p ∈ st.pipes, p.reaped = false → ∀ e ∈ st.eps, e.idx = p.ep →
          e.sock = p.sock ∧ (e.dialer = true → e.dPipe = some p.idx)
  has : ∀ e ∈ st.eps, ∀ i, e.dPipe = some i → ∃ p ∈ st.pipes, p.idx = i ∧ p.reaped = false ∧ p.ep = e.idx

theorem killPipe_W (st : State) (i : Nat) (h : W st) : W (killPipe st i).1 := by
  rcases killPipe_shape st i with hs | ⟨p, hp, hpi, hpr, hpipes, heps, hnow, _, _, _⟩
  · rw [hs]; exact h
  · have hrf := reapOne_frame (st.socks p.sock).mask p
    constructor
    · rw [hpipes]
      apply h.idxP.map
      intro x; split
      · rename_i hx; simp only [beq_iff_eq] at hx; rw [hrf.1, hpi, hx]
      · rfl
    · rw [heps]
      apply h.idxE.map
      intro x; split
      · rcases pipeRemoved_cases st.now i x with hc | ⟨_, _, hc⟩ <;> rw [hc]; rfl
      · rfl
    · rw [heps, hnow]
      intro e' he'
      rcases mem_map_if he' with ⟨e, he, ⟨_, rfl⟩ | ⟨_, rfl⟩⟩
      · rcases pipeRemoved_cases st.now i e with hc | ⟨hd, hdp, hc⟩
        · rw [hc]; exact h.epInv e he
        · rw [hc]; exact ⟨lostPipe_inv _ _ (h.epInv e he).1 i hd hdp, lostPipe_time _ _ (h.epInv e he).2⟩
      · exact h.epInv e' he
    · rw [hpipes, heps]
      intro q' hq'
      simp only [List.length_map]
      rcases mem_map_if hq' with ⟨q, hq, ⟨hc, rfl⟩ | ⟨_, rfl⟩⟩
      · simp only [beq_iff_eq] at hc
        rw [hrf.2.1]; exact h.pipeEp p hp
      · exact h.pipeEp q' hq
    · rw [hpipes, heps]
      intro q' hq' hlive e' he' hidx
      rcases mem_map_if hq' with ⟨q, hq, ⟨hc, rfl⟩ | ⟨hc, rfl⟩⟩
      · rw [hrf.2.2.2] at hlive; cases hlive
      · have hne : q'.idx ≠ i := by simpa using hc
        rcases mem_map_if he' with ⟨e, he, ⟨_, rfl⟩ | ⟨_, rfl⟩⟩
        · rcases pipeRemoved_cases st.now i e with hc2 | ⟨hd, hdp, hc2⟩
          · rw [hc2] at hidx ⊢; exact h.own q' hq hlive e he hidx
          · rw [hc2] at hidx
            have := (h.own q' hq hlive e he hidx).2 hd
            rw [hdp] at this
            exact absurd (Option.some.inj this).symm hne
        · exact h.own q' hq hlive e' he hidx
    · rw [hpipes, heps]
      intro e' he' j hj
      have key : ∀ e ∈ st.eps, e.dPipe = some j → j ≠ i →
          ∃ p' ∈ st.pipes.map (fun q => if q.idx == i then (reapOne (st.socks p.sock).mask p).1 else q),
            p'.idx = j ∧ p'.reaped = false ∧ p'.ep = e.idx := by
        intro e he hdp hne
        obtain ⟨p0, hp0, h1, h2, h3⟩ := h.has e he j hdp
        refine ⟨p0, ?_, h1, h2, h3⟩
        apply List.mem_map.mpr
        refine ⟨p0, hp0, ?_⟩
        have : (p0.idx == i) = false := by simp [h1, hne]
        simp [this]
      rcases mem_map_if he' with ⟨e, he, ⟨hc, rfl⟩ | ⟨hc, rfl⟩⟩
      · rcases pipeRemoved_cases st.now i e with hc2 | ⟨hd, hdp, hc2⟩
        · rw [hc2] at hj ⊢
          by_cases hji : j = i
          · subst hji
            have hd := (h.epInv e he).1.dpipe_dialer _ hj
            have := pipeRemoved_dPipe st.now j e hd hj
            rw [hc2, hj] at this; cases this
          · exact key e he hj hji
        · rw [hc2] at hj; cases hj
      · by_cases hji : j = i
        · subst hji
          obtain ⟨p0, hp0, h1, h2, h3⟩ := h.has e' he j hj
          have : p0 = p := h.idxP.unique hp0 hp (by rw [h1, hpi])
          subst this
          simp only [beq_eq_false_iff_ne, ne_eq] at hc
          exact absurd h3.symm hc
        · exact key e' he hj hji

end Nng.LifeModel

namespace Nng.LifeModel
open Nng.Life Nng.Generated

theorem W_congr {st st' : State} (h1 : st'.pipes = st.pipes) (h2 : st'.eps = st.eps) (h3 : st'.now = st.now)
    (h : W st) : W st' := by
  constructor
  · rw [h1]; exact h.idxP
  · rw [h2]; exact h.idxE
  · rw [h2, h3]; exact h.epInv
  · rw [h1, h2]; exact h.pipeEp
  · rw [h1, h2]; exact h.own
  · rw [h1, h2]; exact h.has

/-! ### what the pipe-killing primitives leave alone -/

def Frame (st st' : State) : Prop :=
  st'.now = st.now ∧ st'.ctxs = st.ctxs ∧ st'.unmodelled = st.unmodelled ∧
  (∀ s, (st'.socks s).opened = (st.socks s).opened ∧ (st'.socks s).closed = (st.socks s).closed) ∧
  (∀ e' ∈ st'.eps, e' ∈ st.eps ∨ ∃ e0 ∈ st.eps, ∃ i, e0.dialer = true ∧ e0.dPipe = some i ∧ e' = lostPipe st.now e0) ∧
  (∀ p' ∈ st'.pipes, p'.reaped = false → p' ∈ st.pipes)

theorem Frame.refl (st : State) : Frame st st :=
  ⟨rfl, rfl, rfl, fun _ => ⟨rfl, rfl⟩, fun e he => Or.inl he, fun p hp _ => hp⟩

theorem Frame.trans {a b c : State} (h1 : Frame a b) (h2 : Frame b c) : Frame a c := by
  obtain ⟨n1, c1, u1, s1, e1, p1⟩ := h1
  obtain ⟨n2, c2, u2, s2, e2, p2⟩ := h2
  refine ⟨n2.trans n1, c2.trans c1, u2.trans u1, fun s => ⟨(s2 s).1.trans (s1 s).1, (s2 s).2.trans (s1 s).2⟩, ?_, ?_⟩
  · intro e' he'
    rcases e2 e' he' with hb | ⟨e0, he0, i, hd, hdp, rfl⟩
    · exact e1 e' hb
    · rcases e1 e0 he0 with ha | ⟨e00, _, j, _, _, rfl⟩
      · right; exact ⟨e0, ha, i, hd, hdp, by rw [n1]⟩
      · simp at hdp
  · intro p' hp' hl
    exact p1 p' (p2 p' hp' hl) hl

theorem killPipe_frame (st : State) (i : Nat) : Frame st (killPipe st i).1 := by
  rcases killPipe_shape st i with hs | ⟨p, hp, hpi, hpr, hpipes, heps, hnow, hctx, hun, hsk⟩
  · rw [hs]; exact Frame.refl st
  · refine ⟨hnow, hctx, hun, hsk, ?_, ?_⟩
    · rw [heps]
      intro e' he'
      rcases mem_map_if he' with ⟨e, he, ⟨_, heq⟩ | ⟨_, heq⟩⟩
      · rcases pipeRemoved_cases st.now i e with hc | ⟨hd, hdp, hc⟩
        · left; rw [heq, hc]; exact he
        · right; exact ⟨e, he, i, hd, hdp, by rw [heq, hc]; rfl⟩
      · left; rw [heq]; exact he
    · rw [hpipes]
      intro q' hq' hl
      rcases mem_map_if hq' with ⟨q, hq, ⟨_, heq⟩ | ⟨_, heq⟩⟩
      · rw [heq, (reapOne_frame _ _).2.2.2] at hl; cases hl
      · rw [heq]; exact hq

theorem killPipes_aux (is : List Nat) (st : State) (outs : List LOut) :
    let r := (is.foldl (fun (acc : R) i => let r := killPipe acc.1 i; (r.1, acc.2 ++ r.2)) (st, outs)).1
    Frame st r ∧ (W st → W r) ∧ (∀ i ∈ is, ∀ q ∈ r.pipes, q.idx = i → q.reaped = true) := by
  induction is generalizing st outs with
  | nil => exact ⟨Frame.refl st, id, fun _ hi => by cases hi⟩
  | cons i rest ih =>
    have ih' := ih (killPipe st i).1 (outs ++ (killPipe st i).2)
    simp only [List.foldl_cons] at ih' ⊢
    refine ⟨(killPipe_frame st i).trans ih'.1, fun h => ih'.2.1 (killPipe_W st i h), ?_⟩
    intro j hj q hq hqj
    rcases List.mem_cons.mp hj with rfl | hj
    · cases hr : q.reaped with
      | true => rfl
      | false =>
        have hq1 := ih'.1.2.2.2.2.2 q hq hr
        -- q is in the state after the first kill, where everything with this index is reaped
        have : q.reaped = true := by
          have hk : ∀ q ∈ (killPipe st j).1.pipes, q.idx = j → q.reaped = true := by
            intro q hq hqj
            unfold killPipe at hq
            split at hq
            · rename_i hnone
              have := List.find?_eq_none.mp hnone q hq
              simpa [hqj] using this
            · rename_i p hf
              simp only [setSock_pipes] at hq
              rcases mem_map_if hq with ⟨q0, _, ⟨_, heq⟩ | ⟨hc, heq⟩⟩
              · rw [heq]; exact (reapOne_frame _ _).2.2.2
              · rw [heq] at hqj; simp [hqj] at hc
          exact hk q hq1 hqj
        rw [hr] at this; cases this
    · exact ih'.2.2 j hj q hq hqj

theorem killPipes_frame (st : State) (is : List Nat) : Frame st (killPipes st is).1 := (killPipes_aux is st []).1
theorem killPipes_W (st : State) (is : List Nat) (h : W st) : W (killPipes st is).1 := (killPipes_aux is st []).2.1 h
theorem killPipes_reaped (st : State) (is : List Nat) :
    ∀ i ∈ is, ∀ q ∈ (killPipes st is).1.pipes, q.idx = i → q.reaped = true := (killPipes_aux is st []).2.2

theorem mem_liveOf {st : State} {f : Pipe → Bool} {p : Pipe} (hp : p ∈ st.pipes) (hf : f p = true)
    (hl : p.reaped = false) : p.idx ∈ liveOf st f := by
  unfold liveOf
  apply List.mem_map.mpr
  exact ⟨p, List.mem_filter.mpr ⟨hp, by simp [hf, hl]⟩, rfl⟩

/-! ### invariants that only hold between the ops, and how they travel along a `Frame` -/

/-- a live pipe's endpoint is open -/
def PipesOpen (st : State) : Prop :=
  ∀ p ∈ st.pipes, p.reaped = false → ∀ e ∈ st.eps, e.idx = p.ep → e.closed = false

def sockOpen (k : Sock) : Prop := k.opened = true ∧ k.closed = false

/-- an open endpoint / context belongs to an open socket -/
def EpsOpen (st : State) : Prop := ∀ e ∈ st.eps, e.closed = false → sockOpen (st.socks e.sock)
def CtxsOpen (st : State) : Prop := ∀ c ∈ st.ctxs, c.closed = false → sockOpen (st.socks c.sock)

def LiveWhere (P : Nat → Prop) (st : State) : Prop := ∀ e ∈ st.eps, P e.idx → Live e

theorem Frame.pipesOpen {st st' : State} (f : Frame st st') (h : PipesOpen st) : PipesOpen st' := by
  intro p hp hl e' he' hidx
  have hp0 := f.2.2.2.2.2 p hp hl
  rcases f.2.2.2.2.1 e' he' with he | ⟨e0, he0, i, _, _, rfl⟩
  · exact h p hp0 hl e' he hidx
  · exact h p hp0 hl e0 he0 hidx

theorem Frame.epsOpen {st st' : State} (f : Frame st st') (h : EpsOpen st) : EpsOpen st' := by
  intro e' he' hc
  unfold sockOpen
  rw [(f.2.2.2.1 _).1, (f.2.2.2.1 _).2]
  rcases f.2.2.2.2.1 e' he' with he | ⟨e0, he0, i, _, _, rfl⟩
  · exact h e' he hc
  · exact h e0 he0 hc

theorem Frame.ctxsOpen {st st' : State} (f : Frame st st') (h : CtxsOpen st) : CtxsOpen st' := by
  intro c hc hcl
  unfold sockOpen
  rw [(f.2.2.2.1 _).1, (f.2.2.2.1 _).2]
  rw [f.2.1] at hc
  exact h c hc hcl

theorem Frame.liveWhere {st st' : State} (f : Frame st st') (P : Nat → Prop) (h : LiveWhere P st) : LiveWhere P st' := by
  intro e' he' hp
  rcases f.2.2.2.2.1 e' he' with he | ⟨e0, he0, i, hd, _, rfl⟩
  · exact h e' he hp
  · exact lostPipe_live _ _ hd

/-! ### endpoint updates -/

theorem W_mapEps (st : State) (g : Ep → Ep) (h : W st) (hidx : ∀ x, (g x).idx = x.idx) (hsock : ∀ x, (g x).sock = x.sock)
    (hdial : ∀ x, (g x).dialer = x.dialer) (hdp : ∀ x, (g x).dPipe = x.dPipe)
    (hinv : ∀ x ∈ st.eps, EpInv (g x) ∧ EpTime st.now (g x)) : W { st with eps := st.eps.map g } := by
  constructor
  · exact h.idxP
  · exact h.idxE.map g hidx
  · intro e' he'
    rcases List.mem_map.mp he' with ⟨e, he, rfl⟩
    exact hinv e he
  · intro p hp; simp only [List.length_map]; exact h.pipeEp p hp
  · intro p hp hl e' he' hi
    rcases List.mem_map.mp he' with ⟨e, he, rfl⟩
    rw [hidx] at hi
    rw [hsock, hdial, hdp]
    exact h.own p hp hl e he hi
  · intro e' he' i hi
    rcases List.mem_map.mp he' with ⟨e, he, rfl⟩
    rw [hdp] at hi
    rw [hidx]
    exact h.has e he i hi

theorem setEp_W (st : State) (ei : Nat) (f : Ep → Ep) (h : W st) (hidx : ∀ x, (f x).idx = x.idx)
    (hsock : ∀ x, (f x).sock = x.sock) (hdial : ∀ x, (f x).dialer = x.dialer) (hdp : ∀ x, (f x).dPipe = x.dPipe)
    (hinv : ∀ x ∈ st.eps, x.idx = ei → EpInv (f x) ∧ EpTime st.now (f x)) : W (setEp st ei f) := by
  apply W_mapEps st (fun x => if x.idx == ei then f x else x) h
  · intro x; split; exact hidx x; rfl
  · intro x; split; exact hsock x; rfl
  · intro x; split; exact hdial x; rfl
  · intro x; split; exact hdp x; rfl
  · intro x hx; split
    · rename_i hc; exact hinv x hx (by simpa using hc)
    · exact h.epInv x hx

theorem mem_setEp {st : State} {ei : Nat} {f : Ep → Ep} {x' : Ep} (h : x' ∈ (setEp st ei f).eps) :
    ∃ x ∈ st.eps, (x.idx = ei ∧ x' = f x) ∨ (x.idx ≠ ei ∧ x' = x) := by
  unfold setEp at h
  rcases mem_map_if h with ⟨x, hx, ⟨hc, heq⟩ | ⟨hc, heq⟩⟩
  · exact ⟨x, hx, Or.inl ⟨by simpa using hc, heq⟩⟩
  · exact ⟨x, hx, Or.inr ⟨by simpa using hc, heq⟩⟩

theorem append_W (st : State) (q : Pipe) (h : W st) (hq : q.idx = st.pipes.length) (hep : q.ep < st.eps.length)
    (hown : ∀ e ∈ st.eps, e.idx = q.ep → e.sock = q.sock ∧ (e.dialer = true → e.dPipe = some q.idx)) :
    W { st with pipes := st.pipes ++ [q] } := by
  constructor
  · exact h.idxP.append q hq
  · exact h.idxE
  · exact h.epInv
  · intro p hp
    rcases List.mem_append.mp hp with hp | hp
    · exact h.pipeEp p hp
    · rw [List.mem_singleton.mp hp]; exact hep
  · intro p hp hl e he hi
    rcases List.mem_append.mp hp with hp | hp
    · exact h.own p hp hl e he hi
    · rw [List.mem_singleton.mp hp] at hi ⊢; exact hown e he hi
  · intro e he i hi
    obtain ⟨p, hp, hh⟩ := h.has e he i hi
    exact ⟨p, List.mem_append.mpr (Or.inl hp), hh⟩

end Nng.LifeModel

namespace Nng.LifeModel
open Nng.Life Nng.Generated

/-- `startPipe` = put some version `q` of the new pipe on the list, then possibly kill it at once -/
theorem startPipe_shape (st : State) (p : Pipe) (peer : Nat) (hr : p.reaped = false) :
    ∃ q : Pipe, q.idx = p.idx ∧ q.ep = p.ep ∧ q.sock = p.sock ∧ q.reaped = false ∧
      Frame { st with pipes := st.pipes ++ [q] } (startPipe st p peer).1 ∧
      (W { st with pipes := st.pipes ++ [q] } → W (startPipe st p peer).1) := by
  have f1 := runCb_frame (st.socks p.sock).mask .pre p
  unfold startPipe
  simp only
  split
  · refine ⟨_, ?_, ?_, ?_, ?_, killPipe_frame _ _, killPipe_W _ _⟩
    · exact f1.1
    · exact f1.2.1
    · exact f1.2.2.1
    · exact f1.2.2.2.trans hr
  · split
    · refine ⟨_, ?_, ?_, ?_, ?_, killPipe_frame _ _, killPipe_W _ _⟩
      · exact f1.1
      · exact f1.2.1
      · exact f1.2.2.1
      · exact f1.2.2.2.trans hr
    · have f2 := runCb_frame (st.socks p.sock).mask .post
        { (runCb (st.socks p.sock).mask .pre p).1 with preDue := (st.socks p.sock).mask &&& 1 != 0, started := true }
      refine ⟨(runCb (st.socks p.sock).mask .post
        { (runCb (st.socks p.sock).mask .pre p).1 with preDue := (st.socks p.sock).mask &&& 1 != 0, started := true }).1,
        f2.1.trans f1.1, f2.2.1.trans f1.2.1, f2.2.2.1.trans f1.2.2.1, f2.2.2.2.trans (f1.2.2.2.trans hr), ?_, ?_⟩
      · split
        · refine ⟨rfl, rfl, rfl, ?_, fun e he => Or.inl he, fun p hp _ => hp⟩
          intro s
          simp only [setSock]
          split <;> exact ⟨rfl, rfl⟩
        · exact Frame.refl _
      · intro h
        split
        · refine W_congr ?_ ?_ ?_ h <;> rfl
        · exact h

/-- dialer_start_pipe, endpoint side: d_pipe = p; d_currtime = d_inirtime -/
def dialOk (i : Nat) (x : Ep) : Ep :=
  { x with armed := false, dPipe := some i, curr := x.inir, userAio := false, background := true }

@[simp] theorem dialOk_idx (i : Nat) (x : Ep) : (dialOk i x).idx = x.idx := rfl
@[simp] theorem dialOk_sock (i : Nat) (x : Ep) : (dialOk i x).sock = x.sock := rfl
@[simp] theorem dialOk_dialer (i : Nat) (x : Ep) : (dialOk i x).dialer = x.dialer := rfl
@[simp] theorem dialOk_closed (i : Nat) (x : Ep) : (dialOk i x).closed = x.closed := rfl
@[simp] theorem dialOk_timer (i : Nat) (x : Ep) : (dialOk i x).timer = x.timer := rfl
@[simp] theorem dialOk_cool (i : Nat) (x : Ep) : (dialOk i x).cool = x.cool := rfl
@[simp] theorem dialOk_dPipe (i : Nat) (x : Ep) : (dialOk i x).dPipe = some i := rfl
@[simp] theorem dialOk_armed (i : Nat) (x : Ep) : (dialOk i x).armed = false := rfl

/-- dialer_start_pipe: the connecting dialer `e` gets the new pipe -/
theorem dial_ok_W (st : State) (e : Ep) (q : Pipe) (h : W st) (he : e ∈ st.eps) (ha : e.armed = true) (hd : e.dialer = true)
    (hq : q.idx = st.pipes.length) (hqe : q.ep = e.idx) (hqs : q.sock = e.sock) (hqr : q.reaped = false) :
    W { setEp st e.idx (dialOk st.pipes.length) with pipes := st.pipes ++ [q] } := by
  have hei := (h.epInv e he).1
  have hex := hei.armed_excl ha
  constructor
  · exact h.idxP.append q hq
  · exact h.idxE.map _ (by intro x; split <;> rfl)
  · intro x' hx'
    rcases mem_setEp hx' with ⟨x, hx, ⟨hi, rfl⟩ | ⟨_, rfl⟩⟩
    · have : x = e := h.idxE.unique hx he hi
      subst this
      refine ⟨?_, ?_⟩
      · constructor
        · intro h'; cases h'
        · intro t ht; simp only [dialOk_timer] at ht; rw [hex.1] at ht; cases ht
        · intro _ _; exact hd
        · exact hei.cool_listener
        · intro hc; have := hei.armed_open ha; simp only [dialOk_closed] at hc; rw [this] at hc; cases hc
        · intro _; rfl
        · exact ⟨hei.caps.2.1, hei.caps.2.1, hei.caps.2.2⟩
        · exact hei.timer_cap
      · exact (h.epInv x hx).2
    · exact h.epInv x' hx
  · intro p hp
    have hl : (setEp st e.idx (dialOk st.pipes.length)).eps.length = st.eps.length := by simp [setEp]
    rw [hl]
    rcases List.mem_append.mp hp with hp | hp
    · exact h.pipeEp p hp
    · rw [List.mem_singleton.mp hp, hqe]; exact h.idxE.lt he
  · intro p hp hl x' hx' hi
    rcases List.mem_append.mp (show p ∈ st.pipes ++ [q] from hp) with hp1 | hp1
    · rcases mem_setEp hx' with ⟨x, hx, ⟨hi2, rfl⟩ | ⟨_, rfl⟩⟩
      · have : x = e := h.idxE.unique hx he hi2
        subst this
        have := (h.own p hp1 hl x hx hi).2 hd
        rw [hex.2.1] at this; cases this
      · exact h.own p hp1 hl x' hx hi
    · have hpq := List.mem_singleton.mp hp1
      subst hpq
      rcases mem_setEp hx' with ⟨x, hx, ⟨hi2, rfl⟩ | ⟨hne, rfl⟩⟩
      · have : x = e := h.idxE.unique hx he hi2
        subst this
        exact ⟨hqs.symm, fun _ => by rw [hq]; rfl⟩
      · rw [hqe] at hi; exact absurd hi hne
  · intro x' hx' j hj
    rcases mem_setEp hx' with ⟨x, hx, ⟨hi2, rfl⟩ | ⟨_, rfl⟩⟩
    · simp only [dialOk_dPipe, Option.some.injEq] at hj
      exact ⟨q, List.mem_append.mpr (Or.inr (List.mem_singleton.mpr rfl)), by rw [hq, hj], by
        exact hqr, by rw [hqe, ← hi2]; rfl⟩
    · obtain ⟨p, hp, hh⟩ := h.has x' hx j hj
      exact ⟨p, List.mem_append.mpr (Or.inl hp), hh⟩

end Nng.LifeModel
