/-
  "The lifecycle judge accepts every trace of the lifecycle model" (C14 / C10), part 2:
  the simulation relation between the model state (Model/Life.lean) and the judge state
  (Spec/Life.lean), and how it moves along the elementary updates of either side.

  The judge marks the endpoints an op is going to close before it looks at the events of the
  step (`preOp`), the model closes them one after the other; the relation is therefore indexed by
  the selection `S` of endpoints the judge has closed ahead of the model.
-/
import NngModel.Proofs.LifeJudgeAssoc
import NngModel.Proofs.LifeStep
import NngModel.Proofs.LifeGlobalStep
import NngModel.Proofs.LifePend
namespace Nng.LifeModel
open Nng.Life Nng.Generated
open Nng.LifeSpec (J JPipe JEp JSock upd put KU)

/-- endpoints (index, socket, dialer?) the judge already treats as closed -/
abbrev SelE := Nat → Nat → Bool → Bool
def noSel : SelE := fun _ _ _ => false

/-- the judge's record of a pipe is a function of the model's pipe; between the steps no notification is
owed (`preWait`, `postWait`) and no registration is in doubt (`unsure`) -/
def jp (p : Pipe) : JPipe :=
  { ep := p.ep, sock := p.sock, evs := p.evs, preReg := p.preDue, anyReg := p.last != 0,
    closedInPre := p.cip, lost := p.reaped, remWaived := p.reaped && !p.remReg, started := p.started }

def PipesRel (st : State) (j : J) : Prop := j.pipes = st.pipes.map fun p => (p.idx, jp p)
def CtxsRel (st : State) (j : J) : Prop := j.ctxs = st.ctxs.map fun c => (c.id, c.sock, c.closed)
def PendRel (st : State) (j : J) : Prop := j.pend = st.pend.map fun a => (a.aio, a.tgt)

/-- model endpoint vs the judge's record of it -/
structure ER (S : SelE) (e : Ep) (x : JEp) : Prop where
  dialer : x.dialer = e.dialer
  sock : x.sock = e.sock
  closed : x.closed = (e.closed || S e.idx e.sock e.dialer)
  cfg : x.cfgMax = e.cap
  sync : x.syncPending = e.userAio
  bg : e.dialer = true → e.armed = true → x.background = !e.userAio
  bg2 : e.dialer = true → (e.timer.isSome = true ∨ e.dPipe.isSome = true) → x.background = true ∧ e.userAio = false
  redial : x.closed = false → ∀ t, x.redialSince = some t → ∃ b, e.timer = some (t, b)
  accept : x.closed = false → ∀ t, x.acceptBy = some t → e.cool = some t

structure EpsRel (S : SelE) (st : State) (j : J) : Prop where
  fwd : ∀ e ∈ st.eps, ∃ x, j.eps.lookup e.idx = some x ∧ ER S e x
  bwd : ∀ i x, (i, x) ∈ j.eps → j.eps.lookup i = some x ∧ i < st.eps.length

/-- model socket vs the judge's record of it (if any) -/
structure SR (k : Sock) (o : Option JSock) : Prop where
  unopened : o = none → k.opened = false
  opened : ∀ x, o = some x → k.opened = true ∧ x.closed = k.closed ∧ (k.closed = false → x.mask = k.mask ∧ x.cip = k.cip)

def SocksRel (st : State) (j : J) : Prop := ∀ s, SR (st.socks s) (j.socks.lookup s)

/-- "closed in an earlier step" is up to date -/
def CB (j : J) : Prop := ∀ s x, j.socks.lookup s = some x → x.closedBefore = x.closed

/-- the socket of a live pipe is open -/
def LiveSockOpen (st : State) : Prop := ∀ p ∈ st.pipes, p.reaped = false → sockOpen (st.socks p.sock)

/-- the part of the relation that holds in the intermediate states of a step as well -/
structure Mid (S : SelE) (st : State) (j : J) : Prop where
  w : W st
  pinv : PipesInv st
  lso : LiveSockOpen st
  now : j.now = st.now
  e14 : j.err14 = none
  e10 : j.err10 = none
  socks : SocksRel st j
  eps : EpsRel S st j
  pipes : PipesRel st j

/-- the judge fields an event handler for pipes / endpoints leaves alone -/
def SameJ (j j' : J) : Prop :=
  j'.now = j.now ∧ j'.socks = j.socks ∧ j'.ctxs = j.ctxs ∧ j'.pend = j.pend ∧ j'.err10 = j.err10

theorem SameJ.refl (j : J) : SameJ j j := ⟨rfl, rfl, rfl, rfl, rfl⟩
theorem SameJ.trans {a b c : J} (h1 : SameJ a b) (h2 : SameJ b c) : SameJ a c :=
  ⟨h2.1.trans h1.1, h2.2.1.trans h1.2.1, h2.2.2.1.trans h1.2.2.1, h2.2.2.2.1.trans h1.2.2.2.1, h2.2.2.2.2.trans h1.2.2.2.2⟩

/-! ### looking things up -/

theorem getEp_mem {st : State} {i : Nat} {e : Ep} (h : getEp st i = some e) : e ∈ st.eps ∧ e.idx = i := by
  unfold getEp at h
  exact ⟨List.mem_of_find?_eq_some h, by simpa using List.find?_some h⟩

theorem getEp_of_mem {st : State} (hw : W st) {e : Ep} (he : e ∈ st.eps) : getEp st e.idx = some e :=
  find_idx hw.idxE he

theorem findPipe_of_mem {st : State} (hw : W st) {p : Pipe} (hp : p ∈ st.pipes) :
    st.pipes.find? (fun q => q.idx == p.idx) = some p := find_idx hw.idxP hp

theorem lookup_pipe {st : State} {j : J} (hw : W st) (hr : PipesRel st j) {p : Pipe} (hp : p ∈ st.pipes) :
    j.pipes.lookup p.idx = some (jp p) := by
  rw [hr, Nng.LifeSpec.lookup_map_key, findPipe_of_mem hw hp]; rfl

theorem lookup_pipe_none {st : State} {j : J} (hr : PipesRel st j) {i : Nat} (h : ∀ p ∈ st.pipes, p.idx ≠ i) :
    j.pipes.lookup i = none := by
  rw [hr, Nng.LifeSpec.lookup_map_key]
  have : st.pipes.find? (fun q => q.idx == i) = none := by
    apply List.find?_eq_none.mpr
    intro p hp; simpa using h p hp
  rw [this]; rfl

theorem J.sock_eq (j : J) (s : Nat) : j.sock s = (j.socks.lookup s).getD {} := rfl

/-- the judge's view of an open socket -/
theorem sock_open_view {st : State} {j : J} (hs : SocksRel st j) (hcb : CB j) {s : Nat} (ho : sockOpen (st.socks s)) :
    (j.sock s).mask = (st.socks s).mask ∧ (j.sock s).cip = (st.socks s).cip ∧ (j.sock s).closedBefore = false := by
  have h := hs s
  rw [J.sock_eq]
  cases hl : j.socks.lookup s with
  | none => have := h.unopened hl; rw [ho.1] at this; cases this
  | some x =>
    obtain ⟨_, h2, h3⟩ := h.opened x hl
    have h4 := h3 ho.2
    simp only [Option.getD_some]
    exact ⟨h4.1, h4.2, by rw [hcb s x hl, h2, ho.2]⟩

theorem ER.noSel_of {S : SelE} {e : Ep} {x : JEp} (h : ER S e x) (hs : S e.idx e.sock e.dialer = true → e.closed = true) :
    ER noSel e x := by
  refine ⟨h.dialer, h.sock, ?_, h.cfg, h.sync, h.bg, h.bg2, h.redial, h.accept⟩
  rw [h.closed]
  cases hc : e.closed with
  | true => simp [noSel]
  | false =>
    cases hS : S e.idx e.sock e.dialer with
    | false => simp [noSel]
    | true => rw [hs hS] at hc; cases hc

theorem EpsRel.noSel_of {S : SelE} {st : State} {j : J} (h : EpsRel S st j)
    (hs : ∀ e ∈ st.eps, S e.idx e.sock e.dialer = true → e.closed = true) : EpsRel noSel st j := by
  refine ⟨fun e he => ?_, h.bwd⟩
  obtain ⟨x, hx, hr⟩ := h.fwd e he
  exact ⟨x, hx, hr.noSel_of (hs e he)⟩

/-- from a judge entry back to the model endpoint -/
theorem EpsRel.of_mem {S : SelE} {st : State} {j : J} (h : EpsRel S st j) (hw : W st) {i : Nat} {x : JEp}
    (hx : (i, x) ∈ j.eps) : ∃ e ∈ st.eps, e.idx = i ∧ ER S e x := by
  obtain ⟨hl, hlt⟩ := h.bwd i x hx
  obtain ⟨e, he, hi⟩ := hw.idxE.exists hlt
  obtain ⟨x', hx', hr⟩ := h.fwd e he
  rw [hi, hl] at hx'
  cases hx'
  exact ⟨e, he, hi, hr⟩

theorem EpsRel.of_lookup {S : SelE} {st : State} {j : J} (h : EpsRel S st j) (hw : W st) {i : Nat} {x : JEp}
    (hx : j.eps.lookup i = some x) : ∃ e ∈ st.eps, e.idx = i ∧ ER S e x :=
  h.of_mem hw (Nng.LifeSpec.mem_of_lookup hx)

theorem EpsRel.lookup_none {S : SelE} {st : State} {j : J} (h : EpsRel S st j) {i : Nat} (hi : st.eps.length ≤ i) :
    j.eps.lookup i = none := by
  cases hl : j.eps.lookup i with
  | none => rfl
  | some x =>
    have := (h.bwd i x (Nng.LifeSpec.mem_of_lookup hl)).2
    omega

/-! ### moving the endpoint relation -/

/-- model: one endpoint changed; judge: the same key updated -/
theorem EpsRel.upd1 {S S' : SelE} {st st' : State} {j j' : J} (h : EpsRel S st j) (i : Nat) (f : Ep → Ep) (u : JEp → JEp)
    (hm : st'.eps = st.eps.map fun x => if x.idx == i then f x else x) (hj : j'.eps = upd j.eps i u)
    (hidx : ∀ x, (f x).idx = x.idx)
    (hr : ∀ e ∈ st.eps, ∀ x, ER S e x → (e.idx = i → ER S' (f e) (u x)) ∧ (e.idx ≠ i → ER S' e x)) :
    EpsRel S' st' j' := by
  constructor
  · intro e' he'
    rw [hm] at he'
    rcases mem_map_if he' with ⟨e, he, ⟨hc, rfl⟩ | ⟨hc, heq⟩⟩
    · have hi : e.idx = i := by simpa using hc
      obtain ⟨x, hx, hx2⟩ := h.fwd e he
      refine ⟨u x, ?_, (hr e he x hx2).1 hi⟩
      rw [hj, Nng.LifeSpec.lookup_upd, hidx, hx]; simp [hi]
    · subst heq
      have hi : e'.idx ≠ i := by simpa using hc
      obtain ⟨x, hx, hx2⟩ := h.fwd e' he
      refine ⟨x, ?_, (hr e' he x hx2).2 hi⟩
      rw [hj, Nng.LifeSpec.lookup_upd, hx]; simp [hi]
  · intro k x hx
    rw [hj] at hx ⊢
    obtain ⟨y, hy, rfl⟩ := Nng.LifeSpec.mem_upd hx
    obtain ⟨hl, hlt⟩ := h.bwd k y hy
    refine ⟨?_, by rw [hm, List.length_map]; exact hlt⟩
    rw [Nng.LifeSpec.lookup_upd, hl]
    by_cases hk : k = i <;> simp [hk]

/-- model: one endpoint changed; judge: nothing -/
theorem EpsRel.model1 {S S' : SelE} {st st' : State} {j j' : J} (h : EpsRel S st j) (i : Nat) (f : Ep → Ep)
    (hm : st'.eps = st.eps.map fun x => if x.idx == i then f x else x) (hj : j'.eps = j.eps)
    (hidx : ∀ x, (f x).idx = x.idx)
    (hr : ∀ e ∈ st.eps, ∀ x, ER S e x → (e.idx = i → ER S' (f e) x) ∧ (e.idx ≠ i → ER S' e x)) :
    EpsRel S' st' j' := by
  constructor
  · intro e' he'
    rw [hm] at he'
    rcases mem_map_if he' with ⟨e, he, ⟨hc, rfl⟩ | ⟨hc, heq⟩⟩
    · have hi : e.idx = i := by simpa using hc
      obtain ⟨x, hx, hx2⟩ := h.fwd e he
      exact ⟨x, by rw [hj, hidx, hx], (hr e he x hx2).1 hi⟩
    · subst heq
      have hi : e'.idx ≠ i := by simpa using hc
      obtain ⟨x, hx, hx2⟩ := h.fwd e' he
      exact ⟨x, by rw [hj, hx], (hr e' he x hx2).2 hi⟩
  · intro k x hx
    rw [hj] at hx ⊢
    obtain ⟨hl, hlt⟩ := h.bwd k x hx
    exact ⟨hl, by rw [hm, List.length_map]; exact hlt⟩

/-- both sides unchanged as lists -/
theorem EpsRel.congr {S : SelE} {st st' : State} {j j' : J} (h : EpsRel S st j) (hm : st'.eps = st.eps) (hj : j'.eps = j.eps) :
    EpsRel S st' j' := by
  constructor
  · intro e he; rw [hm] at he; rw [hj]; exact h.fwd e he
  · intro i x hx; rw [hj] at hx ⊢; rw [hm]; exact h.bwd i x hx

/-- model: every endpoint mapped; judge: every record mapped -/
theorem EpsRel.mapAll {S S' : SelE} {st st' : State} {j j' : J} (h : EpsRel S st j) (g : Ep → Ep) (u : Nat → JEp → JEp)
    (hm : st'.eps = st.eps.map g) (hj : j'.eps = j.eps.map fun (kx : Nat × JEp) => (kx.1, u kx.1 kx.2))
    (hidx : ∀ x, (g x).idx = x.idx)
    (hr : ∀ e ∈ st.eps, ∀ x, ER S e x → ER S' (g e) (u e.idx x)) :
    EpsRel S' st' j' := by
  constructor
  · intro e' he'
    rw [hm] at he'
    rcases List.mem_map.mp he' with ⟨e, he, rfl⟩
    obtain ⟨x, hx, hx2⟩ := h.fwd e he
    refine ⟨u e.idx x, ?_, hr e he x hx2⟩
    rw [hj, Nng.LifeSpec.lookup_mapval, hidx, hx]; rfl
  · intro k x hx
    rw [hj] at hx ⊢
    obtain ⟨y, hy, rfl⟩ := Nng.LifeSpec.mem_mapval hx
    obtain ⟨hl, hlt⟩ := h.bwd k y hy
    refine ⟨?_, by rw [hm, List.length_map]; exact hlt⟩
    rw [Nng.LifeSpec.lookup_mapval, hl]; rfl

end Nng.LifeModel
