/- relation preservation: the callback (begin / end) and the return of nng_aio_stop / nng_aio_free -/
import NngModel.Proofs.AioJudgeRel
namespace Nng.Aio
open Nng.AioSpec

variable {s s' : State} {g : G} {j : J} {k : Nat}

set_option maxHeartbeats 1000000 in
theorem rel_cbDone (hR : R k s g j) (i1 : Inv1 s) (i2 : Inv2 s) (i3 : Inv3 s) (i4 : Inv4 s)
    (hs : step Cfg.fixed s .cbDone = some s') :
    R k s' (gStep s g .cbDone) (judgeFrom j (obsX s g .cbDone)) := by
  simp only [obsX, obsOf, obsExtra, gStep, judgeFrom, List.nil_append, List.foldl,
    jstep_cbEnd hR.base.err hR.base.nfree]
  step_cases hs
  r_same hR

/-- what the state looks like when a task thread is about to run the callback -/
theorem popped_facts (i1 : Inv1 s) (i4 : Inv4 s) (hp : s.popped > 0) :
    s.opTok = false ∧ s.subPc = 0 ∧ s.parked = false ∧ s.pendFin = none ∧
    s.starts = s.reported + s.skips + 1 ∧ pend s = 0 := by
  have ht := popped_done i1 hp
  have h8 := i1.tok
  rw [ht] at h8
  have h8' := h8.symm
  simp only [Bool.or_eq_false_iff, bne_eq_false_iff_eq] at h8'
  obtain ⟨⟨ha, hb⟩, hc⟩ := h8'
  have hpf : s.pendFin = none := by
    cases hf : s.pendFin with
    | none => rfl
    | some v => rw [hf] at hc; cases hc
  have hst : s.starts = s.reported + s.skips + 1 := by
    have := i1.cnt; have := i1.rep; have := i1.one
    simp only [b2n, ht, Bool.false_eq_true, ↓reduceIte] at *
    split at * <;> omega
  refine ⟨ht, ha, hb, hpf, hst, ?_⟩
  unfold pend
  split
  · rename_i h; have := i4.retsSkip h; omega
  · rfl

set_option maxHeartbeats 2000000 in
theorem rel_cbRead (hR : R k s g j) (i1 : Inv1 s) (i2 : Inv2 s) (i3 : Inv3 s) (i4 : Inv4 s)
    (hs : step Cfg.fixed s .cbRead = some s') :
    R k s' (gStep s g .cbRead) (judgeFrom j (obsX s g .cbRead)) := by
  simp only [obsX, obsOf, obsExtra, gStep, judgeFrom, List.append_nil, List.foldl]
  have hp : s.popped > 0 := by
    simp only [step] at hs
    split at hs
    · assumption
    · cases hs
  obtain ⟨f1, f2, f3, f4, f5, f6⟩ := popped_facts i1 i4 hp
  have hres := i2.res f1
  obtain ⟨o, ho⟩ := head_exists hR (by omega)
  have hu : unrep s := by simp only [unrep, f6]; omega
  have hrep : j.reports + 1 = j.ops.length := by
    have := hR.base.rep; have := hR.base.len; omega
  have hH := hR.head o ho
  have hj : AioSpec.step j (.cbBegin s.result) =
      { j with reports := j.reports + 1, ops := markReported j.ops j.reports, openCb := j.openCb + 1,
               lastCb := some s.result,
               oldCb := j.oldCb + (if (!j.stopCalled || o.retBeforeStop) = true then 1 else 0) } := by
    apply jstep_cbBegin hR.base.err hR.base.nfree s.result o (by rw [pendingOp_newest j hrep, ho])
    · intro x hx; rw [hres]; exact (hH.dec hu f1 x hx).symm
    · intro hr
      rw [hR.base.now]
      exact hH.tout hu (Or.inr ⟨f1, by rw [← hres]; exact hr⟩)
    · intro ms hk
      exact i1.noSlp ms (by rw [← hH.kind]; exact hk)
    · intro hd
      have hk := hH.kind
      rcases hH.expl hu f1 hd with h | h
      · cases hsk : s.subKind <;> simp_all [unprovoked, isDirect]
      · simp only [Refusal] at h
        rw [← hres] at h
        cases hsk : s.subKind with
        | slp ms => exact absurd hsk (i1.noSlp ms)
        | direct rv => simp [unprovoked, hk, hsk]
        | gen =>
          simp only [unprovoked, hk, hsk, Bool.or_eq_true, beq_iff_eq, Bool.and_eq_true, List.contains_iff_mem]
          rcases h with h | h | h
          · exact Or.inl (Or.inr h)
          · exact Or.inr h
          · exact Or.inl (Or.inl h)
        | ext =>
          simp only [unprovoked, hk, hsk, Bool.or_eq_true, bne_iff_ne, ne_eq, List.contains_iff_mem]
          rcases h with h | h | h
          · exact Or.inl (by rw [h.1]; exact estopped_ne_ecanceled)
          · exact Or.inr h
          · exact Or.inl (by rw [h]; exact etimedout_ne_ecanceled)
    · intro hsr hne
      have hl := (i4.late (hR.base.stopR hsr)).2.2.2 f2 f5
      rw [hH.kind]
      rcases hl with h | h
      · exact Or.inl h
      · exact absurd h.1 hne
  rw [hj, markReported_newest j.ops j.reports hrep.symm]
  -- a callback that begins after nng_aio_stop's last look at the task is not one the stop waits for
  have hnew : s.stopPc = 5 → (!j.stopCalled || o.retBeforeStop) = false := by
    intro hpc
    have h1 : j.stopCalled = true := hR.base.stopC (Or.inr (Or.inl (by omega)))
    have h2 : o.retBeforeStop = false := by
      cases hrb : o.retBeforeStop
      · rfl
      · exact absurd hu (hH.win hpc hrb)
    simp [h1, h2]
  step_cases hs
  all_goals (r_open hR; r_upd ho)

set_option maxHeartbeats 1000000 in
/-- the return of nng_aio_stop keeps the relation; the return of nng_aio_free ends the aio's life -/
theorem rel_stopRet (hR : R k s g j) (i1 : Inv1 s) (i2 : Inv2 s) (i3 : Inv3 s) (i4 : Inv4 s)
    (hs : step Cfg.fixed s .stopRet = some s') :
    R k s' (gStep s g .stopRet) (judgeFrom j (obsX s g .stopRet)) ∨
      (Rf s' (judgeFrom j (obsX s g .stopRet)) ∧ k = 0) := by
  simp only [obsX, obsOf, obsExtra, gStep, judgeFrom, List.append_nil, List.foldl]
  have hpc : s.stopPc = 5 := by
    simp only [step] at hs
    split at hs
    · rename_i h; simpa using h
    · cases hs
  cases hf : s.stopFree with
  | false =>
    left
    have hr : ∀ o ∈ j.ops, o.retBeforeStop = true → o.reported = true := by
      intro x hx hret
      cases hj : j.ops with
      | nil => rw [hj] at hx; cases hx
      | cons o r =>
        rw [hj] at hx
        have hH := hR.head o (by simp [hj])
        rcases List.mem_cons.mp hx with h | h
        · subst h
          exact hH.rep1 (hH.win hpc hret)
        · exact hR.tail x (by simp [hj, h])
    simp only [Bool.false_eq_true, ↓reduceIte, jstep_stopRet hR.base.err hR.base.nfree (hR.base.old0 hpc) hr]
    step_cases hs
    r_same hR
  | true =>
    right
    have hcb : j.openCb = 0 := by rw [hR.base.cb]; exact i4.win hpc hf
    simp only [↓reduceIte, jstep_freeRet hR.base.err hR.base.nfree hcb]
    have hfr := i4.pc5Free hpc hf
    obtain ⟨q1, q2, -⟩ := i3.freedQ hfr
    obtain ⟨-, -, -, -, -, -, -, -, z9, z10⟩ := busy_zero i1 q1
    have hdone : j.reports = j.ops.length := by
      have hp := pend_nil (i4.freedRets hfr)
      have := hR.base.rep; have := hR.base.len; have hc := i1.cnt
      cases ht : s.opTok
      · simp only [ht, b2n, Bool.false_eq_true, ↓reduceIte] at hc; omega
      · have := z10 ht; omega
    have hk0 : k = 0 := hR.base.fr ⟨by omega, hf⟩
    step_cases hs
    exact ⟨⟨hR.base.err, rfl, hfr, rfl, hdone⟩, hk0⟩

end Nng.Aio
