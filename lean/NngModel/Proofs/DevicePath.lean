/- per-path lemmas about device_cb (Model/Device.lean `cbPath`, `advance`) -/
import NngModel.Model.Device
namespace Nng.Device
open Nng
set_option linter.unusedSimpArgs false

/-- what is true of a path between callbacks -/
structure PInv (p : Path) : Prop where
  /-- the aio's message slot is empty unless a send is outstanding -/
  slot : p.state ≠ .send → p.amsg = none
  /-- ownership: everything obtained was consumed by the destination, freed, or is the one held -/
  own : p.rcvd = p.acked ++ p.freed ++ (if p.state = .send then p.amsg.toList else [])
  /-- a path frees a message only when it stops -/
  freedFini : p.state ≠ .fini → p.freed = []
  freedOne : p.freed.length ≤ 1
  /-- everything obtained was submitted, except possibly one late message of a stopped path -/
  fwd : p.rcvd = p.subm ∨ (p.state = .fini ∧ ∃ m, p.rcvd = p.subm ++ [m])
  notInit : p.state ≠ .init

/-- the outcome of device_cb's first half on a path whose aio was just completed -/
structure CbOK (drv i : Nat) (p0 p : Path) : Prop where
  src : (cbPath drv i p).1.src = p0.src ∧ (advance i (cbPath drv i p).1).1.src = p0.src
  dst : (cbPath drv i p).1.dst = p0.dst ∧ (advance i (cbPath drv i p).1).1.dst = p0.dst
  fail : (cbPath drv i p).2.1 ≠ 0 → (cbPath drv i p).1.state = .fini ∧ PInv (cbPath drv i p).1
  cont : (cbPath drv i p).2.1 = 0 →
    drv = 0 ∧ PInv (advance i (cbPath drv i p).1).1 ∧ (advance i (cbPath drv i p).1).1.state ≠ .fini
  sticky : drv ≠ 0 → (cbPath drv i p).2.1 ≠ 0

theorem cbOK_recv (drv i : Nat) (p : Path) (r : Except Nat Msg) (h : PInv p) (hs : p.state = .recv)
    (hr : okRes r = true) :
    CbOK drv i p (completeRecv p r) := by
  have hslot := h.slot (by rw [hs]; decide)
  have hfr := h.freedFini (by rw [hs]; decide)
  have hown := h.own
  have hfwd : p.rcvd = p.subm := by
    rcases h.fwd with h1 | ⟨h1, _⟩
    · exact h1
    · rw [hs] at h1; cases h1
  rw [hs] at hown
  simp only [hfr, hslot] at hown
  cases r with
  | ok m =>
    by_cases hd : drv = 0
    · subst hd
      refine ⟨?_, ?_, ?_, ?_, ?_⟩ <;>
        simp [cbPath, completeRecv, advance, freeMsg, hs]
      refine ⟨?_, ?_, ?_, ?_, ?_, ?_⟩ <;> simp_all
    · refine ⟨?_, ?_, ?_, ?_, ?_⟩ <;>
        simp [cbPath, completeRecv, advance, freeMsg, hs, hd]
      · refine ⟨?_, ?_, ?_, ?_, ?_, ?_⟩ <;> simp_all
  | error e =>
    simp [okRes] at hr
    refine ⟨?_, ?_, ?_, ?_, ?_⟩ <;>
      simp [cbPath, completeRecv, advance, freeMsg, hs, hr]
    · refine ⟨?_, ?_, ?_, ?_, ?_, ?_⟩ <;> simp_all

theorem cbOK_send (drv i : Nat) (p : Path) (rv : Nat) (h : PInv p) (hs : p.state = .send) :
    CbOK drv i p (completeSend p rv) := by
  have hfr := h.freedFini (by rw [hs]; decide)
  have hown := h.own
  have hfwd : p.rcvd = p.subm := by
    rcases h.fwd with h1 | ⟨h1, _⟩
    · exact h1
    · rw [hs] at h1; cases h1
  rw [hs] at hown
  simp only [hfr] at hown
  by_cases hrv : rv = 0
  · subst hrv
    by_cases hd : drv = 0
    · subst hd
      refine ⟨?_, ?_, ?_, ?_, ?_⟩ <;>
        simp [cbPath, completeSend, advance, freeMsg, hs]
      refine ⟨?_, ?_, ?_, ?_, ?_, ?_⟩ <;> simp_all
    · refine ⟨?_, ?_, ?_, ?_, ?_⟩ <;>
        simp [cbPath, completeSend, advance, freeMsg, hs, hd]
      · refine ⟨?_, ?_, ?_, ?_, ?_, ?_⟩ <;> simp_all
  · refine ⟨?_, ?_, ?_, ?_, ?_⟩ <;>
      simp [cbPath, completeSend, advance, freeMsg, hs, hrv]
    · refine ⟨?_, ?_, ?_, ?_, ?_, ?_⟩ <;> simp_all

end Nng.Device
