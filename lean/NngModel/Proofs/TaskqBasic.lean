/- counting lemmas for the task-queue model: how many threads are at a given program counter, and
   how `List.set`, nni_cv_wake (wakeAll) and nni_cv_wake1 (wakeOne) change those counts -/
import NngModel.Model.Taskq
namespace Nng.Taskq

theorem sum_map_set {α : Type} (f : α → Nat) (l : List α) (i : Nat) (a : α) (h : i < l.length) :
    ((l.set i a).map f).sum + f l[i] = (l.map f).sum + f a := by
  induction l generalizing i with
  | nil => simp at h
  | cons x xs ih =>
    cases i with
    | zero => simp; omega
    | succ i =>
      simp at h
      have := ih i h
      simp only [List.set_cons_succ, List.map_cons, List.sum_cons, List.getElem_cons_succ]; omega

theorem sum_map_le_add {α : Type} (f f' : α → Nat) (c : Nat) (l : List α) (h : ∀ a, f' a ≤ f a + c) :
    (l.map f').sum ≤ (l.map f).sum + c * l.length := by
  induction l with
  | nil => simp
  | cons x xs ih =>
    have := h x
    simp [Nat.mul_add]; omega

/-- 1 if the two program counters are equal -/
def indW (w q : WPc) : Nat := if w = q then 1 else 0
def indC (p q : CPc) : Nat := if p = q then 1 else 0

/-- number of workers at program counter `q` -/
def cw (q : WPc) (ws : List WPc) : Nat := (ws.map fun w => indW w q).sum
/-- number of clients at program counter `q` -/
def cc (q : CPc) (cs : List Client) : Nat := (cs.map fun c => indC c.pc q).sum

theorem cw_cons (q x : WPc) (xs : List WPc) : cw q (x :: xs) = indW x q + cw q xs := by simp [cw]
theorem cc_cons (q : CPc) (x : Client) (xs : List Client) : cc q (x :: xs) = indC x.pc q + cc q xs := by simp [cc]

theorem cw_set {ws : List WPc} {j : Nat} {w : WPc} (h : ws[j]? = some w) (w' q : WPc) :
    cw q (ws.set j w') + indW w q = cw q ws + indW w' q := by
  have ⟨hl, hg⟩ := List.getElem?_eq_some_iff.mp h
  have := sum_map_set (fun w => indW w q) ws j w' hl
  rw [hg] at this
  exact this

theorem cc_set {cs : List Client} {i : Nat} {c : Client} (h : cs[i]? = some c) (c' : Client) (q : CPc) :
    cc q (cs.set i c') + indC c.pc q = cc q cs + indC c'.pc q := by
  have ⟨hl, hg⟩ := List.getElem?_eq_some_iff.mp h
  have := sum_map_set (fun c => indC c.pc q) cs i c' hl
  rw [hg] at this
  exact this

theorem cw_pos {ws : List WPc} {j : Nat} {w : WPc} (h : ws[j]? = some w) : 1 ≤ cw w ws := by
  have := cw_set h w w
  induction ws generalizing j with
  | nil => simp at h
  | cons x xs ih =>
    cases j with
    | zero =>
      simp at h; subst h
      simp [cw, indW]
    | succ j =>
      simp at h
      have := ih h (cw_set h w w)
      simp [cw] at this ⊢; omega

theorem cc_pos {cs : List Client} {i : Nat} {c : Client} (h : cs[i]? = some c) : 1 ≤ cc c.pc cs := by
  induction cs generalizing i with
  | nil => simp at h
  | cons x xs ih =>
    cases i with
    | zero =>
      simp at h; subst h
      simp [cc, indC]
    | succ i =>
      simp at h
      have := ih h
      simp [cc] at this ⊢; omega

theorem cw_le_length (q : WPc) (ws : List WPc) : cw q ws ≤ ws.length := by
  induction ws with
  | nil => simp [cw]
  | cons x xs ih =>
    rw [cw_cons]
    have : indW x q ≤ 1 := by unfold indW; split <;> omega
    simp only [List.length_cons]; omega

theorem cw_all {q : WPc} {ws : List WPc} (h : ∀ w ∈ ws, w = q) : cw q ws = ws.length := by
  induction ws with
  | nil => rfl
  | cons x xs ih =>
    have hx := h x (by simp)
    have := ih (fun w hw => h w (by simp [hw]))
    simp [cw, indW, hx] at this ⊢; omega

theorem cw_zero {q : WPc} {ws : List WPc} (h : ∀ w ∈ ws, w ≠ q) : cw q ws = 0 := by
  induction ws with
  | nil => rfl
  | cons x xs ih =>
    have hx := h x (by simp)
    have := ih (fun w hw => h w (by simp [hw]))
    simp [cw, indW, hx] at this ⊢; exact this

theorem cc_zero {q : CPc} {cs : List Client} (h : ∀ c ∈ cs, c.pc ≠ q) : cc q cs = 0 := by
  induction cs with
  | nil => rfl
  | cons x xs ih =>
    have hx := h x (by simp)
    have := ih (fun c hc => h c (by simp [hc]))
    simp [cc, indC, hx] at this ⊢; exact this

/-! ### nni_cv_wake(&task->task_cv) -/

theorem wakeAll_length (cs : List Client) : (wakeAll cs).length = cs.length := by simp [wakeAll]

theorem cc_wakeAll (q : CPc) (cs : List Client) (h1 : q ≠ .waitSleep) (h2 : q ≠ .waitChk) :
    cc q (wakeAll cs) = cc q cs := by
  induction cs with
  | nil => rfl
  | cons x xs ih =>
    simp only [cc, wakeAll, List.map_cons, List.sum_cons] at ih ⊢
    rw [ih]
    congr 1
    by_cases hx : x.pc = .waitSleep
    · simp [hx, indC, Ne.symm h1, Ne.symm h2]
    · simp [hx]

theorem cc_sleep_wakeAll (cs : List Client) : cc .waitSleep (wakeAll cs) = 0 := by
  apply cc_zero
  intro c hc
  simp only [wakeAll, List.mem_map] at hc
  obtain ⟨a, _, rfl⟩ := hc
  by_cases ha : a.pc = .waitSleep <;> simp [ha]

theorem mem_wakeAll {cs : List Client} {c : Client} (h : c ∈ wakeAll cs) : c.pc ≠ .waitSleep := by
  simp only [wakeAll, List.mem_map] at h
  obtain ⟨a, _, rfl⟩ := h
  by_cases ha : a.pc = .waitSleep <;> simp [ha]

/-! ### nni_cv_wake1(&tq->tq_sched_cv) -/

theorem wakeFirst_length (ws : List WPc) : (wakeFirst ws).length = ws.length := by
  induction ws with
  | nil => rfl
  | cons x xs ih => cases x <;> simp [wakeFirst, ih]

theorem wakeOne_length (ws : List WPc) (p : Nat) : (wakeOne ws p).length = ws.length := by
  unfold wakeOne; split <;> simp [wakeFirst_length]

theorem cw_wakeFirst (q : WPc) (ws : List WPc) (h1 : q ≠ .sleep) (h2 : q ≠ .ready) :
    cw q (wakeFirst ws) = cw q ws := by
  induction ws with
  | nil => rfl
  | cons x xs ih =>
    cases x <;> simp only [wakeFirst, cw_cons, ih]
    simp [indW, Ne.symm h1, Ne.symm h2]

theorem cw_wakeOne (q : WPc) (ws : List WPc) (p : Nat) (h1 : q ≠ .sleep) (h2 : q ≠ .ready) :
    cw q (wakeOne ws p) = cw q ws := by
  unfold wakeOne
  split
  · rename_i h
    have := cw_set h .ready q
    simp [indW, Ne.symm h1, Ne.symm h2] at this
    exact this
  · exact cw_wakeFirst q ws h1 h2

theorem cw_sleep_wakeFirst (ws : List WPc) : cw .sleep (wakeFirst ws) = cw .sleep ws - 1 := by
  induction ws with
  | nil => rfl
  | cons x xs ih =>
    cases x <;> simp only [wakeFirst, cw_cons, ih] <;> simp [indW]
    all_goals
      have : 1 ≤ 1 + cw .sleep xs := by omega
      omega

theorem cw_sleep_wakeOne (ws : List WPc) (p : Nat) : cw .sleep (wakeOne ws p) = cw .sleep ws - 1 := by
  unfold wakeOne
  split
  · rename_i h
    have := cw_set h .ready .sleep
    simp [indW] at this
    omega
  · exact cw_sleep_wakeFirst ws

theorem cw_ready_wakeFirst_le (ws : List WPc) : cw .ready (wakeFirst ws) ≤ cw .ready ws + 1 := by
  induction ws with
  | nil => simp [wakeFirst]
  | cons x xs ih =>
    cases x <;> simp only [wakeFirst, cw_cons] <;> simp [indW] <;> omega

theorem cw_ready_wakeOne_le (ws : List WPc) (p : Nat) : cw .ready (wakeOne ws p) ≤ cw .ready ws + 1 := by
  unfold wakeOne
  split
  · rename_i h
    have := cw_set h .ready .ready
    simp [indW] at this
    omega
  · exact cw_ready_wakeFirst_le ws

end Nng.Taskq
