/-
  C16 (HTTP layer): the model's meaning of RESPONSE lines (`msem false`: http_res_parse_line with glibc atoi,
  http_parse_header, nni_http_add_header on the response header list, where Host is an ordinary name) is the
  specification's (`HttpSpec.resSem`).
-/
import NngModel.Proofs.HttpSpecLines
namespace Nng.HttpConn
open Nng

/-- the embedded content_type / content_length nodes carry those names (no condition on Host: on the response
    list Host is an ordinary header) -/
def Tags23 (hs : List Hdr) : Prop :=
  ∀ h ∈ hs, (h.tag = 2 → ieq sContentType h.name = true) ∧ (h.tag = 3 → ieq sContentLength h.name = true)

theorem tags23_nil : Tags23 [] := by intro h hm; cases hm

theorem addPlain_tags23 (hs : List Hdr) (k v : Bytes) (h : Tags23 hs) : Tags23 (addPlain hs k v) := by
  induction hs with
  | nil =>
    unfold addPlain
    intro x hx
    simp at hx
    subst hx
    exact ⟨fun h0 => (by cases h0), fun h0 => (by cases h0)⟩
  | cons a r ih =>
    unfold addPlain
    have ha := h a (by simp)
    have hr : Tags23 r := fun x hx => h x (by simp [hx])
    by_cases hka : ieq k a.name = true
    · rw [if_pos hka]
      intro x hx
      rcases List.mem_cons.mp hx with e | e
      · subst e; exact ha
      · exact hr x e
    · rw [if_neg hka]
      intro x hx
      rcases List.mem_cons.mp hx with e | e
      · subst e; exact ha
      · exact ih hr x e

theorem setStatic_tags23 (hs : List Hdr) (t : Nat) (key val : Bytes) (h : Tags23 hs)
    (hnew : (t = 2 → ieq sContentType key = true) ∧ (t = 3 → ieq sContentLength key = true)) :
    Tags23 (setStatic hs t key val) := by
  unfold setStatic delHeader
  intro x hx
  rcases List.mem_append.mp hx with e | e
  · exact h x (List.mem_filter.mp (List.mem_filter.mp e).1).1
  · simp at e
    subst e
    exact hnew

theorem addHeader_res (p : HttpSpec.Params) (hp : HdrParams p) (m : Msg) (k v : Bytes) (h : Tags23 m.resHdrs) :
    (addHeader m false k v).resHdrs.map nv = HttpSpec.addField p false (m.resHdrs.map nv) k v ∧
      Tags23 (addHeader m false k v).resHdrs := by
  have e1 : HttpSpec.sContentType = sContentType := rfl
  have e2 : HttpSpec.sContentLength = sContentLength := rfl
  obtain ⟨_, _, n3, n4, _⟩ := names_distinct
  unfold addHeader setKnown HttpSpec.addField
  rw [sameName_eq, sameName_eq, e1, e2, hp.ctype, hp.clen]
  simp only [hdrsOf, withHdrs, Bool.false_eq_true, if_false, Bool.false_and]
  by_cases h1 : ieq k sContentType = true
  · rw [if_pos h1, if_pos h1]
    exact ⟨setStatic_map _ _ _ _ (fun x hx ht => (h x hx).1 ht),
      setStatic_tags23 _ _ _ _ h ⟨fun _ => n3, fun h0 => (by cases h0)⟩⟩
  · rw [if_neg h1, if_neg h1]
    by_cases h2 : ieq k sContentLength = true
    · rw [if_pos h2, if_pos h2]
      exact ⟨setStatic_map _ _ _ _ (fun x hx ht => (h x hx).2 ht),
        setStatic_tags23 _ _ _ _ h ⟨fun h0 => (by cases h0), fun _ => n4⟩⟩
    · rw [if_neg h2, if_neg h2]
      exact ⟨addPlain_map _ _ _, addPlain_tags23 _ _ _ h⟩

/-! ### atoi -/

theorem digitsVal_eq (b : Bytes) : ∀ acc, HttpSpec.digitsVal acc b = digitsVal acc b := by
  induction b with
  | nil => intro acc; rfl
  | cons c r ih =>
    intro acc
    unfold HttpSpec.digitsVal digitsVal
    have : HttpSpec.isDigit c = isDigit c := rfl
    rw [this, ih]

theorem cAtoi_eq (s : Bytes) : HttpSpec.cAtoi s = atoi s := by
  cases s with
  | nil => simp only [HttpSpec.cAtoi, atoi, digitsVal_eq]
  | cons c r =>
    simp only [HttpSpec.cAtoi, atoi]
    by_cases h1 : c = 0x2D
    · simp only [h1, if_true, digitsVal_eq]
    · by_cases h2 : c = 0x2B
      · simp only [h2, if_true, digitsVal_eq]
      · simp only [h1, h2, if_false, digitsVal_eq]

/-! ### the relation -/

structure RS (m : Msg) (r : HttpSpec.Res) : Prop where
  started : m.parsedRes = r.started
  status : m.code = r.status
  reason : m.rsn = r.reason
  vers : m.vers = r.vers
  hdrs : m.resHdrs.map nv = r.hdrs
  tags : Tags23 m.resHdrs

structure ResParams (p : HttpSpec.Params) : Prop extends HdrParams p where
  versions : p.versions = versions
  smin : p.statusMin = statusMin
  smax : p.statusMax = statusMax

theorem rv_res : rvOk = 0 ∧ rvProto = HttpSpec.eProto ∧ rvNotSup = HttpSpec.eNotSup ∧ rvProto ≠ rvOk ∧ rvNotSup ≠ rvOk := by decide

/-- http_res_parse_line followed by the `parsed = true` of the loop = the specification's statusLine -/
theorem resParseLine_rel (p : HttpSpec.Params) (hp : ResParams p) (m : Msg) (r : HttpSpec.Res) (line : Bytes)
    (h : RS m r) (hns : m.parsedRes = false) :
    (resLineStep m line).2 = (HttpSpec.statusLine p r line).2 ∧ RS (resLineStep m line).1 (HttpSpec.statusLine p r line).1 := by
  obtain ⟨c0, cP, cN, nP, nN⟩ := rv_res
  have eSP : HttpSpec.SP = SP := rfl
  unfold resLineStep
  rw [hns]
  simp only [Bool.false_eq_true, if_false]
  unfold resParseLine HttpSpec.statusLine
  rw [eSP, splitFirst_eq]
  cases h1 : strchr SP line with
  | none =>
    simp only [nP, if_false]
    exact ⟨cP, h⟩
  | some q =>
    obtain ⟨version, r1⟩ := q
    simp only
    rw [splitFirst_eq]
    cases h2 : strchr SP r1 with
    | none =>
      simp only [nP, if_false]
      exact ⟨cP, h⟩
    | some q2 =>
      obtain ⟨codestr, reason⟩ := q2
      simp only [cAtoi_eq, hp.smin, hp.smax]
      by_cases hc : (decide (atoi codestr < (statusMin : Int)) || decide (atoi codestr > (statusMax : Int))) = true
      · rw [if_pos hc, if_pos hc]
        simp only [nP, if_false]
        exact ⟨cP, h⟩
      · rw [if_neg hc, if_neg hc]
        simp only [setVersion, hp.versions]
        by_cases hv : versions.contains version = true
        · simp only [hv, if_true]
          exact ⟨c0, rfl, rfl, rfl, rfl, h.hdrs, h.tags⟩
        · simp only [hv]
          exact ⟨cN, h.started, rfl, rfl, h.vers, h.hdrs, h.tags⟩

/-- THE simulation for responses -/
theorem msem_resSem (hflag : resRejectsEmptyHead = true) (p : HttpSpec.Params) (hp : ResParams p) :
    SemRel RS (msem false) (HttpSpec.resSem p) := by
  obtain ⟨c0, cP, cN, nP, nN⟩ := rv_res
  refine ⟨?_, ?_, ?_⟩
  · intro m r line h
    by_cases hp1 : m.parsedRes = true
    · have hr1 : r.started = true := by rw [← h.started]; exact hp1
      simp only [msem, lineStep, Bool.false_eq_true, if_false, resLineStep, HttpSpec.resSem, hp1, hr1, if_true]
      rw [headerLine_eq]
      unfold parseHeader
      cases hc : strchr COLON line with
      | none => exact ⟨cP, h⟩
      | some kv =>
        obtain ⟨k, v⟩ := kv
        simp only [Option.map_some]
        refine ⟨c0, ?_⟩
        obtain ⟨_, f2, f3, f4, _, _, f7⟩ := addHeader_fields m false k (trimTrail (trimLead v))
        obtain ⟨a1, a2⟩ := addHeader_res p hp.toHdrParams m k (trimTrail (trimLead v)) h.tags
        exact ⟨f2.trans hp1, f3.trans h.status, f4.trans h.reason, f7.trans h.vers, by rw [a1, h.hdrs], a2⟩
    · have hp0 : m.parsedRes = false := by simpa using hp1
      have hr0 : r.started = false := by rw [← h.started]; exact hp0
      have := resParseLine_rel p hp m r line h hp0
      simp only [msem, lineStep, Bool.false_eq_true, if_false, HttpSpec.resSem, hr0]
      exact this
  · intro m r _
    left
    exact ⟨rfl, rfl⟩
  · intro m r h
    simp only [msem, HttpSpec.resSem]
    by_cases hp1 : m.parsedRes = true
    · have hr1 : r.started = true := by rw [← h.started]; exact hp1
      have he : emptyRv false m = rvOk := by simp [emptyRv, hp1]
      rw [he, if_pos hr1]
      have hpe : (parseEnd false m 0 rvOk).m = { m with parsedRes := false } := by simp [parseEnd]
      rw [hpe]
      exact ⟨c0, rfl, h.status, h.reason, h.vers, h.hdrs, h.tags⟩
    · have hp0 : m.parsedRes = false := by simpa using hp1
      have hr0 : r.started = false := by rw [← h.started]; exact hp0
      have he : emptyRv false m = rvProto := by simp [emptyRv, hp0, hflag]
      have hpe : (parseEnd false m 0 rvProto).m = m := by simp [parseEnd, nP]
      rw [he, hpe, hr0]
      exact ⟨cP, h⟩

theorem init_rel_res : RS {} { vers := defaultVersion } :=
  ⟨rfl, rfl, rfl, rfl, rfl, tags23_nil⟩

end Nng.HttpConn
